(* Proofs/AesCipher.v — C05, part 3: the impl-model of encrypt / decrypt at every stop point is the FIPS-197 intermediate state.

   Architecture (DESIGN.md, C05):
   * structural, finite, by vm_compute over the GENERATED table of what _prepare_rounds returns: for every stop point the flattened
     (operation, round-key index) list is a prefix of one canonical sequence per mode and key size (enc_ops / dec_ops);
   * for ALL round keys and blocks: running a prefix = reading the trace; each model primitive = its FIPS definition on
     well-formed states (Proofs/AesPrims.v); the trace of the canonical sequence with abstract round keys is, entry by entry,
     the FIPS list of intermediate states (symbolic evaluation, primitives kept folded);
   * key expansion for all keys (Proofs/AesKeys.v). *)
From Coq Require Import NArith ZArith List Bool Arith Lia.
From ScaredV Require Import Generated.AesTables Generated.AesRounds Spec.Fips197 Run.Compare Model.Aes
  Proofs.AesPrims Proofs.AesKeys.
Import ListNotations.
Open Scope N_scope.

(* ---------------------------------------------------------------- operation lists and traces *)
Definition spec_op (op : aes_op) (rk st : list N) : list N :=
  match op with
  | OpId => st
  | OpSubBytes => SubBytes st
  | OpShiftRows => ShiftRows st
  | OpMixColumns => MixColumns st
  | OpAddRoundKey => AddRoundKey st rk
  | OpInvSubBytes => InvSubBytes st
  | OpInvShiftRows => InvShiftRows st
  | OpInvMixColumns => InvMixColumns st
  end.

Definition opk := (aes_op * nat)%type.    (* an operation with the index of the round key it receives *)

Fixpoint flat_ops (i : nat) (rounds : list (list aes_op)) : list opk :=
  match rounds with
  | [] => []
  | ops :: t => map (fun op => (op, i)) ops ++ flat_ops (S i) t
  end.

Definition run_flat (ap : aes_op -> list N -> list N -> list N) (kf : nat -> list N) (ops : list opk) (st : list N) : list N :=
  fold_left (fun st p => ap (fst p) (kf (snd p)) st) ops st.

(* the state after each operation *)
Fixpoint trace (ap : aes_op -> list N -> list N -> list N) (kf : nat -> list N) (ops : list opk) (st : list N)
  : list (list N) :=
  match ops with
  | [] => []
  | p :: t => let st' := ap (fst p) (kf (snd p)) st in st' :: trace ap kf t st'
  end.

Lemma fold_left_map {A B C} (f : A -> B -> A) (g : C -> B) : forall l a,
  fold_left f (map g l) a = fold_left (fun a x => f a (g x)) l a.
Proof. induction l as [|x l IH]; intros a; [reflexivity|]. cbn. apply IH. Qed.

Lemma run_rounds_flat rks : forall rounds i st,
  run_rounds rks i rounds st = run_flat apply_op (fun i => nth i rks []) (flat_ops i rounds) st.
Proof.
  induction rounds as [|ops t IH]; intros i st; [reflexivity|].
  cbn [run_rounds flat_ops]. unfold run_flat. rewrite fold_left_app, fold_left_map. cbn [fst snd].
  rewrite IH. reflexivity.
Qed.

Lemma run_flat_firstn ap kf : forall ops k st, (k < length ops)%nat ->
  run_flat ap kf (firstn (S k) ops) st = nth k (trace ap kf ops st) [].
Proof.
  induction ops as [|p t IH]; intros k st Hk; [cbn in Hk; lia|].
  destruct k as [|k].
  - destruct t; reflexivity.
  - cbn [firstn trace nth]. cbn [length] in Hk. rewrite <- IH by lia. reflexivity.
Qed.

Lemma apply_op_spec op rk st : wf st -> wf rk -> apply_op op rk st = spec_op op rk st /\ wf (spec_op op rk st).
Proof.
  intros Hst Hrk. pose proof Hst as [Hl Hb].
  destruct op; cbn [apply_op spec_op].
  - split; [reflexivity | exact Hst].
  - split; [apply sub_bytes_is_fips, Hb | apply SubBytes_wf, Hst].
  - split; [apply shift_rows_is_fips, Hl | apply ShiftRows_wf, Hst].
  - split; [apply mix_columns_is_fips; assumption | apply MixColumns_wf].
  - split; [reflexivity | apply AddRoundKey_wf; assumption].
  - split; [apply inv_sub_bytes_is_fips, Hb | apply InvSubBytes_wf, Hst].
  - split; [apply inv_shift_rows_is_fips, Hl | apply InvShiftRows_wf, Hst].
  - split; [apply inv_mix_columns_is_fips; assumption | apply InvMixColumns_wf].
Qed.

Lemma trace_model_spec kf : forall ops st, wf st -> (forall p, In p ops -> wf (kf (snd p))) ->
  trace apply_op kf ops st = trace spec_op kf ops st.
Proof.
  induction ops as [|p t IH]; intros st Hst Hk; [reflexivity|].
  cbn [trace]. cbv zeta.
  destruct (apply_op_spec (fst p) (kf (snd p)) st Hst (Hk p (or_introl eq_refl))) as [E W].
  rewrite E. f_equal. apply IH; [exact W|]. intros q Hq. apply Hk. right. exact Hq.
Qed.

Lemma trace_ext ap kf kf' : forall ops st, (forall p, In p ops -> kf (snd p) = kf' (snd p)) ->
  trace ap kf ops st = trace ap kf' ops st.
Proof.
  induction ops as [|p t IH]; intros st Hk; [reflexivity|].
  cbn [trace]. cbv zeta. rewrite (Hk p (or_introl eq_refl)). f_equal. apply IH. intros q Hq. apply Hk. right. exact Hq.
Qed.

(* what is run for a stop point is the (k+1)-prefix of [ops]: the result is entry k of the trace of the spec operations *)
Lemma run_core ops rks block k rounds :
  flat_ops 0 rounds = firstn (S k) ops -> (k < length ops)%nat -> wf block ->
  (forall p, In p ops -> wf (nth (snd p) rks [])) ->
  run_rounds rks 0 rounds block = nth k (trace spec_op (fun i => nth i rks []) ops block) [].
Proof.
  intros Hflat Hk Hb Hw. rewrite run_rounds_flat, Hflat, run_flat_firstn by exact Hk.
  rewrite trace_model_spec by assumption. reflexivity.
Qed.

(* ---------------------------------------------------------------- the canonical sequences *)
Definition enc_ops (Nr : nat) : list opk :=
  [(OpId, 0); (OpId, 0); (OpId, 0); (OpAddRoundKey, 0)]%nat
  ++ flat_map (fun i => [(OpSubBytes, i); (OpShiftRows, i); (OpMixColumns, i); (OpAddRoundKey, i)]) (seq 1 (Nr - 1))
  ++ [(OpSubBytes, Nr); (OpShiftRows, Nr); (OpId, Nr); (OpAddRoundKey, Nr)].

Definition dec_ops (Nr : nat) : list opk :=
  [(OpAddRoundKey, 0); (OpId, 0); (OpInvShiftRows, 0); (OpInvSubBytes, 0)]%nat
  ++ flat_map (fun i => [(OpAddRoundKey, i); (OpInvMixColumns, i); (OpInvShiftRows, i); (OpInvSubBytes, i)]) (seq 1 (Nr - 1))
  ++ [(OpAddRoundKey, Nr); (OpId, Nr); (OpId, Nr); (OpId, Nr)].

Definition canon (dec : bool) (Nr : nat) : list opk := if dec then dec_ops Nr else enc_ops Nr.

(* ---------------------------------------------------------------- decidable equality on operation lists *)
Definition op_eqb (a b : aes_op) : bool :=
  match a, b with
  | OpId, OpId | OpSubBytes, OpSubBytes | OpShiftRows, OpShiftRows | OpMixColumns, OpMixColumns
  | OpAddRoundKey, OpAddRoundKey | OpInvSubBytes, OpInvSubBytes | OpInvShiftRows, OpInvShiftRows
  | OpInvMixColumns, OpInvMixColumns => true
  | _, _ => false
  end.
Definition opk_eqb (a b : opk) : bool := op_eqb (fst a) (fst b) && Nat.eqb (snd a) (snd b).

Lemma op_eqb_eq a b : op_eqb a b = true -> a = b.
Proof. destruct a, b; cbn; intros H; (reflexivity || discriminate). Qed.

Lemma opk_eqb_eq a b : opk_eqb a b = true -> a = b.
Proof.
  destruct a as [a i], b as [b j]. unfold opk_eqb. cbn [fst snd]. intros H. apply andb_true_iff in H. destruct H as [H1 H2].
  apply op_eqb_eq in H1. apply Nat.eqb_eq in H2. subst. reflexivity.
Qed.

Lemma list_eqb_eq {A} (eqb : A -> A -> bool) : (forall x y, eqb x y = true -> x = y) ->
  forall a b, list_eqb eqb a b = true -> a = b.
Proof.
  intros He. induction a as [|x a IH]; intros [|y b] H; cbn in H; try discriminate; [reflexivity|].
  apply andb_true_iff in H. destruct H as [H1 H2]. apply He in H1. subst. f_equal. apply IH, H2.
Qed.

(* ---------------------------------------------------------------- structural obligations over the generated rounds table *)
Definition prefix_ok (ops : list opk) (k : nat) (o : option (list (list aes_op))) : bool :=
  match o with
  | Some rounds => list_eqb opk_eqb (flat_ops 0 rounds) (firstn (S k) ops)
  | None => false
  end.

(* n = number of round keys; every (at_round < n, after_step < 4) and the three forms of defaults *)
Definition struct_ok (dec : bool) (n : nat) : bool :=
  let ops := canon dec (n - 1) in
  forallb (fun r => forallb (fun s => prefix_ok ops (4 * r + s) (prepare_rounds_m dec n (Some r) (Some s))) (seq 0 4)) (seq 0 n)
  && forallb (fun s => prefix_ok ops (4 * (n - 1) + s) (prepare_rounds_m dec n None (Some s))) (seq 0 4)
  && forallb (fun r => prefix_ok ops (4 * r + 3) (prepare_rounds_m dec n (Some r) None)) (seq 0 n)
  && prefix_ok ops (4 * (n - 1) + 3) (prepare_rounds_m dec n None None)
  && (length ops =? 4 * n)%nat
  && forallb (fun p => (snd p <? n)%nat) ops.

Lemma struct_ok_all : forall dec n, In n [11; 13; 15]%nat -> struct_ok dec n = true.
Proof. intros [|] n [<-|[<-|[<-|[]]]]; vm_compute; reflexivity. Qed.

Lemma prefix_ok_sound ops k o : prefix_ok ops k o = true -> exists rounds, o = Some rounds /\ flat_ops 0 rounds = firstn (S k) ops.
Proof.
  destruct o as [rounds|]; [|discriminate]. cbn. intros H. exists rounds. split; [reflexivity|].
  apply (list_eqb_eq opk_eqb opk_eqb_eq). exact H.
Qed.

(* stop-point number (position in the canonical sequence) for optional arguments *)
Definition stop_k (n : nat) (at_round after_step : option nat) : nat :=
  (4 * (match at_round with Some r => r | None => n - 1 end) + (match after_step with Some s => s | None => 3 end))%nat.

Definition stop_in_range (n : nat) (at_round after_step : option nat) : Prop :=
  (match at_round with Some r => r < n | None => True end)%nat /\ (match after_step with Some s => s <= 3 | None => True end)%nat.

Lemma struct_facts dec n : In n [11; 13; 15]%nat ->
  let ops := canon dec (n - 1) in
  (forall ar st, stop_in_range n ar st ->
     exists rounds, prepare_rounds_m dec n ar st = Some rounds /\ flat_ops 0 rounds = firstn (S (stop_k n ar st)) ops
                    /\ (stop_k n ar st < length ops)%nat)
  /\ (forall p, In p ops -> (snd p < n)%nat).
Proof.
  intros Hn ops. pose proof (struct_ok_all dec n Hn) as H. unfold struct_ok in H. fold ops in H.
  rewrite !andb_true_iff in H. destruct H as [[[[[H1 H2] H3] H4] H5] H6]. apply Nat.eqb_eq in H5.
  split.
  - intros ar st [Hr Hs]. unfold stop_k.
    assert (Hn0 : (0 < n)%nat) by (destruct Hn as [<-|[<-|[<-|[]]]]; lia).
    destruct ar as [r|], st as [s|].
    + pose proof (nat_sweep n _ H1 r Hr) as Ha. cbv beta in Ha.
      pose proof (nat_sweep 4 _ Ha s ltac:(lia)) as Hb. cbv beta in Hb.
      destruct (prefix_ok_sound _ _ _ Hb) as (rounds & E1 & E2). exists rounds. repeat split; try assumption. lia.
    + pose proof (nat_sweep n _ H3 r Hr) as Ha. cbv beta in Ha.
      destruct (prefix_ok_sound _ _ _ Ha) as (rounds & E1 & E2). exists rounds. repeat split; try assumption. lia.
    + pose proof (nat_sweep 4 _ H2 s ltac:(lia)) as Ha. cbv beta in Ha.
      destruct (prefix_ok_sound _ _ _ Ha) as (rounds & E1 & E2). exists rounds. repeat split; try assumption. lia.
    + destruct (prefix_ok_sound _ _ _ H4) as (rounds & E1 & E2). exists rounds. repeat split; try assumption. lia.
  - intros p Hp. rewrite forallb_forall in H6. apply Nat.ltb_lt. apply H6, Hp.
Qed.

(* ---------------------------------------------------------------- symbolic evaluation: canonical trace = FIPS state list *)
Definition stops (Nr : nat) : list (nat * nat) := list_prod (seq 0 (Nr + 1)) (seq 0 4).

Definition enc_sym (Nr : nat) : Prop := forall w inp,
  map (fun rs => nth (4 * fst rs + snd rs) (trace spec_op (fun i => nth i w []) (enc_ops Nr) inp) []) (stops Nr)
  = map (fun rs => nth (idx_enc Nr (fst rs) (snd rs)) (cipher_states Nr w inp) []) (stops Nr).
Definition dec_sym (Nr : nat) : Prop := forall w inp,
  map (fun rs => nth (4 * fst rs + snd rs) (trace spec_op (fun i => nth (Nr - i) w []) (dec_ops Nr) inp) []) (stops Nr)
  = map (fun rs => nth (idx_dec Nr (fst rs) (snd rs)) (inv_cipher_states Nr w inp) []) (stops Nr).

Ltac sym_eval :=
  intros w inp;
  cbv -[SubBytes ShiftRows MixColumns AddRoundKey InvSubBytes InvShiftRows InvMixColumns];
  reflexivity.

Lemma enc_sym_all : forall Nr, In Nr [10; 12; 14]%nat -> enc_sym Nr.
Proof. intros Nr [<-|[<-|[<-|[]]]]; unfold enc_sym; sym_eval. Qed.
Lemma dec_sym_all : forall Nr, In Nr [10; 12; 14]%nat -> dec_sym Nr.
Proof. intros Nr [<-|[<-|[<-|[]]]]; unfold dec_sym; sym_eval. Qed.

(* the last element of the FIPS lists is the entry named (Nr, 3) *)
Lemma last_sym : forall Nr, In Nr [10; 12; 14]%nat -> forall w inp,
  nth (idx_enc Nr Nr 3) (cipher_states Nr w inp) [] = last (cipher_states Nr w inp) []
  /\ nth (idx_dec Nr Nr 3) (inv_cipher_states Nr w inp) [] = last (inv_cipher_states Nr w inp) [].
Proof.
  intros Nr [<-|[<-|[<-|[]]]] w inp;
    cbv -[SubBytes ShiftRows MixColumns AddRoundKey InvSubBytes InvShiftRows InvMixColumns]; split; reflexivity.
Qed.

Lemma in_stops Nr r s : (r <= Nr)%nat -> (s <= 3)%nat -> In (r, s) (stops Nr).
Proof. intros Hr Hs. unfold stops. apply in_prod; apply in_seq; lia. Qed.

Lemma enc_sym_at Nr w inp r s : In Nr [10; 12; 14]%nat -> (r <= Nr)%nat -> (s <= 3)%nat ->
  nth (4 * r + s) (trace spec_op (fun i => nth i w []) (enc_ops Nr) inp) [] = nth (idx_enc Nr r s) (cipher_states Nr w inp) [].
Proof.
  intros HNr Hr Hs. pose proof (enc_sym_all Nr HNr w inp) as H.
  rewrite map_ext_in_iff in H. exact (H (r, s) (in_stops Nr r s Hr Hs)).
Qed.

Lemma dec_sym_at Nr w inp r s : In Nr [10; 12; 14]%nat -> (r <= Nr)%nat -> (s <= 3)%nat ->
  nth (4 * r + s) (trace spec_op (fun i => nth (Nr - i) w []) (dec_ops Nr) inp) [] = nth (idx_dec Nr r s) (inv_cipher_states Nr w inp) [].
Proof.
  intros HNr Hr Hs. pose proof (dec_sym_all Nr HNr w inp) as H.
  rewrite map_ext_in_iff in H. exact (H (r, s) (in_stops Nr r s Hr Hs)).
Qed.

(* ---------------------------------------------------------------- assembling: one key, one block *)
Lemma Nk_Nr Nk : In Nk [4; 6; 8]%nat -> In (Nr_of Nk) [10; 12; 14]%nat /\ In (Nr_of Nk + 1)%nat [11; 13; 15]%nat.
Proof. intros [<-|[<-|[<-|[]]]]; cbn; auto 10. Qed.

Lemma block_checks b : wf_block b -> ((length b =? 16)%nat && is_bytes b)%bool = true.
Proof. intros [Hl Hb]. rewrite Hl, (is_bytes_true b Hb). reflexivity. Qed.

Definition opt_r (Nr : nat) (ar : option nat) : nat := match ar with Some r => r | None => Nr end.
Definition opt_s (st : option nat) : nat := match st with Some s => s | None => 3%nat end.

Section OneBlock.
  Variable Nk : nat.
  Variables key block : list N.
  Hypothesis HNk : In Nk [4; 6; 8]%nat.
  Hypothesis Hkey : wf_key Nk key.
  Hypothesis Hblock : wf_block block.

  Let Nr := Nr_of Nk.

  (* general form: optional at_round / after_step (None = the argument is left to its default) *)
  Lemma encrypt_opt ar st : stop_in_range (Nr + 1) ar st ->
    cipher1_m false key block ar st = Some (nth (idx_enc Nr (opt_r Nr ar) (opt_s st)) (Cipher_states Nk key block) []).
  Proof.
    intros Hrange. destruct (Nk_Nr Nk HNk) as [HNr Hn].
    destruct (struct_facts false (Nr + 1) Hn) as [Hstops Hidx]. cbv zeta in Hstops, Hidx.
    replace (Nr + 1 - 1)%nat with Nr in * by lia.
    unfold cipher1_m. rewrite (block_checks block Hblock).
    change (flips false) with false. unfold prepare_keys_m. rewrite (key_schedule_is_fips Nk key HNk Hkey).
    rewrite round_keys_length. fold Nr.
    destruct (Hstops ar st Hrange) as (rounds & E1 & E2 & E3). rewrite E1. f_equal.
    rewrite (run_core (canon false Nr) (round_keys Nk key) block _ rounds E2 E3 Hblock).
    - assert (Hk : stop_k (Nr + 1) ar st = (4 * opt_r Nr ar + opt_s st)%nat).
      { unfold stop_k, opt_r, opt_s. replace (Nr + 1 - 1)%nat with Nr by lia. reflexivity. }
      rewrite Hk. cbn [canon]. unfold Cipher_states. fold Nr. apply enc_sym_at; [exact HNr| |].
      + destruct Hrange as [Hr _]. destruct ar; cbn [opt_r]; lia.
      + destruct Hrange as [_ Hs]. destruct st; cbn [opt_s]; lia.
    - intros p Hp. apply (round_key_wf Nk key HNk Hkey). specialize (Hidx p Hp). fold Nr. lia.
  Qed.

  Lemma decrypt_opt ar st : stop_in_range (Nr + 1) ar st ->
    cipher1_m true key block ar st = Some (nth (idx_dec Nr (opt_r Nr ar) (opt_s st)) (InvCipher_states Nk key block) []).
  Proof.
    intros Hrange. destruct (Nk_Nr Nk HNk) as [HNr Hn].
    destruct (struct_facts true (Nr + 1) Hn) as [Hstops Hidx]. cbv zeta in Hstops, Hidx.
    replace (Nr + 1 - 1)%nat with Nr in * by lia.
    unfold cipher1_m. rewrite (block_checks block Hblock).
    change (flips true) with true. unfold prepare_keys_m. rewrite (key_schedule_is_fips Nk key HNk Hkey).
    rewrite rev_length, round_keys_length. fold Nr.
    destruct (Hstops ar st Hrange) as (rounds & E1 & E2 & E3). rewrite E1. f_equal.
    assert (Hrev : forall i, (i <= Nr)%nat -> nth i (@rev (list N) (round_keys Nk key)) [] = nth (Nr - i) (round_keys Nk key) []).
    { intros i Hi. rewrite rev_nth by (rewrite round_keys_length; fold Nr; lia).
      rewrite round_keys_length. fold Nr. f_equal. lia. }
    rewrite (run_core (canon true Nr) (@rev (list N) (round_keys Nk key)) block _ rounds E2 E3 Hblock).
    - assert (Hk : stop_k (Nr + 1) ar st = (4 * opt_r Nr ar + opt_s st)%nat).
      { unfold stop_k, opt_r, opt_s. replace (Nr + 1 - 1)%nat with Nr by lia. reflexivity. }
      rewrite Hk. cbn [canon].
      rewrite (trace_ext spec_op _ (fun i => nth (Nr - i) (round_keys Nk key) [])).
      + unfold InvCipher_states. fold Nr. apply dec_sym_at; [exact HNr| |].
        * destruct Hrange as [Hr _]. destruct ar; cbn [opt_r]; lia.
        * destruct Hrange as [_ Hs]. destruct st; cbn [opt_s]; lia.
      + intros p Hp. apply Hrev. specialize (Hidx p Hp). lia.
    - intros p Hp. specialize (Hidx p Hp). rewrite Hrev by lia.
      apply (round_key_wf Nk key HNk Hkey). fold Nr. lia.
  Qed.

  Theorem encrypt_at_is_fips_pf r s : (r <= Nr)%nat -> (s <= 3)%nat ->
    encrypt_m key block r s = Some (nth (idx_enc Nr r s) (Cipher_states Nk key block) []).
  Proof. intros Hr Hs. apply (encrypt_opt (Some r) (Some s)). split; cbn; lia. Qed.

  Theorem decrypt_at_is_fips_pf r s : (r <= Nr)%nat -> (s <= 3)%nat ->
    decrypt_m key block r s = Some (nth (idx_dec Nr r s) (InvCipher_states Nk key block) []).
  Proof. intros Hr Hs. apply (decrypt_opt (Some r) (Some s)). split; cbn; lia. Qed.

  Theorem encrypt_full_pf : encrypt_full_m key block = Some (Cipher Nk key block).
  Proof.
    unfold encrypt_full_m. rewrite (encrypt_opt None None) by (split; exact I). cbn [opt_r opt_s].
    destruct (Nk_Nr Nk HNk) as [HNr _]. unfold Cipher, Cipher_states. fold Nr.
    f_equal. apply (last_sym Nr HNr).
  Qed.

  Theorem decrypt_full_pf : decrypt_full_m key block = Some (InvCipher Nk key block).
  Proof.
    unfold decrypt_full_m. rewrite (decrypt_opt None None) by (split; exact I). cbn [opt_r opt_s].
    destruct (Nk_Nr Nk HNk) as [HNr _]. unfold InvCipher, InvCipher_states. fold Nr.
    f_equal. apply (last_sym Nr HNr).
  Qed.
  (* an argument left to its default: at_round = the last round, after_step = the last step *)
  Theorem defaults_pf :
    (forall s, (s <= 3)%nat -> cipher1_m false key block None (Some s) = encrypt_m key block Nr s
                               /\ cipher1_m true key block None (Some s) = decrypt_m key block Nr s)
    /\ (forall r, (r <= Nr)%nat -> cipher1_m false key block (Some r) None = encrypt_m key block r 3
                                  /\ cipher1_m true key block (Some r) None = decrypt_m key block r 3).
  Proof.
    split.
    - intros s Hs. unfold encrypt_m, decrypt_m.
      rewrite (encrypt_opt None (Some s)), (encrypt_opt (Some Nr) (Some s)),
              (decrypt_opt None (Some s)), (decrypt_opt (Some Nr) (Some s)) by (split; cbn; (exact I || lia)).
      split; reflexivity.
    - intros r Hr. unfold encrypt_m, decrypt_m.
      rewrite (encrypt_opt (Some r) None), (encrypt_opt (Some r) (Some 3%nat)),
              (decrypt_opt (Some r) None), (decrypt_opt (Some r) (Some 3%nat)) by (split; cbn; (exact I || lia)).
      split; reflexivity.
  Qed.
End OneBlock.

(* ---------------------------------------------------------------- InvCipher inverts Cipher (spec level, all round keys) *)
Section Inversion.
  Variable w : list state.

  Definition rnd_B (st : state) : state := ShiftRows (SubBytes st).
  Definition rnd_IB (st : state) : state := InvSubBytes (InvShiftRows st).
  Definition rnd_A (i : nat) (st : state) : state := AddRoundKey (MixColumns st) (nth i w []).
  Definition rnd_IA (i : nat) (st : state) : state := InvMixColumns (AddRoundKey st (nth i w [])).

  Fixpoint enc_mid (n round : nat) (st : state) : state :=
    match n with O => st | S n' => enc_mid n' (S round) (rnd_A round (rnd_B st)) end.
  Fixpoint inv_mid (round : nat) (st : state) : state :=
    match round with O => st | S r' => inv_mid r' (rnd_IA (S r') (rnd_IB st)) end.

  Lemma last_cons {A} (x : A) : forall l d, last (x :: l) d = last l x.
  Proof. induction l as [|y l IH]; intros d; [reflexivity|]. cbn [last] in *. destruct l; [reflexivity|]. apply IH. Qed.

  Lemma last_cipher_middle : forall n round st, last (cipher_middle w n round st) st = enc_mid n round st.
  Proof.
    induction n as [|n IH]; intros round st; [reflexivity|].
    cbn [cipher_middle enc_mid]. cbv zeta. rewrite !last_cons. apply IH.
  Qed.

  Lemma last_inv_cipher_middle : forall round st, last (inv_cipher_middle w round st) st = inv_mid round st.
  Proof.
    induction round as [|r IH]; intros st; [reflexivity|].
    cbn [inv_cipher_middle inv_mid]. cbv zeta. rewrite !last_cons. apply IH.
  Qed.

  Lemma last_app3 {A} (l : list A) a b c d : last (l ++ [a; b; c]) d = c.
  Proof. change (l ++ [a; b; c]) with (l ++ [a; b] ++ [c]). rewrite app_assoc. apply last_last. Qed.

  Lemma cipher_last Nr inp :
    last (cipher_states Nr w inp) [] = AddRoundKey (rnd_B (enc_mid (Nr - 1) 1 (AddRoundKey inp (nth 0 w [])))) (nth Nr w []).
  Proof.
    unfold cipher_states. cbv zeta. rewrite !last_cons, last_app3, last_cipher_middle. reflexivity.
  Qed.

  Lemma inv_cipher_last Nr inp :
    last (inv_cipher_states Nr w inp) [] = AddRoundKey (rnd_IB (inv_mid (Nr - 1) (AddRoundKey inp (nth Nr w [])))) (nth 0 w []).
  Proof.
    unfold inv_cipher_states. cbv zeta. rewrite !last_cons, last_app3, last_inv_cipher_middle. reflexivity.
  Qed.

  Lemma rnd_B_wf st : wf st -> wf (rnd_B st).
  Proof. intros H. apply ShiftRows_wf, SubBytes_wf, H. Qed.

  Lemma rnd_IB_B st : wf st -> rnd_IB (rnd_B st) = st.
  Proof.
    intros H. unfold rnd_IB, rnd_B. rewrite InvShiftRows_ShiftRows by (apply SubBytes_wf, H).
    apply InvSubBytes_SubBytes, H.
  Qed.

  Lemma rnd_IA_A i st : wf st -> wf (nth i w []) -> rnd_IA i (rnd_A i st) = st.
  Proof.
    intros Hst Hk. unfold rnd_IA, rnd_A. rewrite AddRoundKey_involutive.
    - apply InvMixColumns_MixColumns, Hst.
    - destruct (MixColumns_wf st) as [-> _]. destruct Hk as [-> _]. reflexivity.
  Qed.

  Lemma enc_mid_snoc : forall n b st, enc_mid (S n) b st = rnd_A (b + n) (rnd_B (enc_mid n b st)).
  Proof.
    induction n as [|n IH]; intros b st.
    - cbn [enc_mid]. rewrite Nat.add_0_r. reflexivity.
    - change (enc_mid (S (S n)) b st) with (enc_mid (S n) (S b) (rnd_A b (rnd_B st))).
      rewrite IH. change (enc_mid (S n) b st) with (enc_mid n (S b) (rnd_A b (rnd_B st))).
      replace (S b + n)%nat with (b + S n)%nat by lia. reflexivity.
  Qed.

  Lemma enc_mid_wf : forall n b st, wf st -> (forall i, (b <= i < b + n)%nat -> wf (nth i w [])) -> wf (enc_mid n b st).
  Proof.
    induction n as [|n IH]; intros b st Hst Hk; [exact Hst|].
    cbn [enc_mid]. apply IH.
    - apply AddRoundKey_wf; [apply MixColumns_wf | apply Hk; lia].
    - intros i Hi. apply Hk. lia.
  Qed.

  Lemma inv_mid_enc_mid : forall n st, wf st -> (forall i, (1 <= i <= n)%nat -> wf (nth i w [])) ->
    inv_mid n (rnd_B (enc_mid n 1 st)) = rnd_B st.
  Proof.
    induction n as [|n IH]; intros st Hst Hk; [reflexivity|].
    rewrite enc_mid_snoc. cbn [inv_mid]. replace (1 + n)%nat with (S n) by lia.
    assert (HE : wf (enc_mid n 1 st)) by (apply enc_mid_wf; [exact Hst | intros i Hi; apply Hk; lia]).
    rewrite rnd_IB_B.
    - rewrite rnd_IA_A; [apply IH; [exact Hst | intros i Hi; apply Hk; lia] | apply rnd_B_wf, HE | apply Hk; lia].
    - apply AddRoundKey_wf; [apply MixColumns_wf | apply Hk; lia].
  Qed.

  Lemma inv_cipher_cipher Nr inp : (1 <= Nr)%nat -> wf inp -> (forall i, (i <= Nr)%nat -> wf (nth i w [])) ->
    last (inv_cipher_states Nr w (last (cipher_states Nr w inp) [])) [] = inp
    /\ wf (last (cipher_states Nr w inp) []).
  Proof.
    intros HNr Hinp Hk. rewrite inv_cipher_last, cipher_last.
    assert (H0 : wf (AddRoundKey inp (nth 0 w []))) by (apply AddRoundKey_wf; [exact Hinp | apply Hk; lia]).
    assert (HE : wf (enc_mid (Nr - 1) 1 (AddRoundKey inp (nth 0 w [])))).
    { apply enc_mid_wf; [exact H0 | intros i Hi; apply Hk; lia]. }
    pose proof (rnd_B_wf _ HE) as HB.
    split.
    - rewrite AddRoundKey_involutive.
      + rewrite inv_mid_enc_mid by (try exact H0; intros i Hi; apply Hk; lia).
        rewrite rnd_IB_B by exact H0. apply AddRoundKey_involutive.
        destruct Hinp as [-> _]. destruct (Hk 0%nat ltac:(lia)) as [-> _]. reflexivity.
      + destruct HB as [-> _]. destruct (Hk Nr (le_n _)) as [-> _]. reflexivity.
    - apply AddRoundKey_wf; [exact HB | apply Hk; lia].
  Qed.
End Inversion.

Theorem InvCipher_Cipher Nk key block : In Nk [4; 6; 8]%nat -> wf_key Nk key -> wf_block block ->
  InvCipher Nk key (Cipher Nk key block) = block /\ wf_block (Cipher Nk key block).
Proof.
  intros HNk Hkey Hb. unfold InvCipher, Cipher, InvCipher_states, Cipher_states.
  apply inv_cipher_cipher.
  - destruct HNk as [<-|[<-|[<-|[]]]]; cbn; lia.
  - exact Hb.
  - intros i Hi. apply (round_key_wf Nk key HNk Hkey i Hi).
Qed.

Theorem decrypt_encrypt_pf Nk key block : In Nk [4; 6; 8]%nat -> wf_key Nk key -> wf_block block ->
  exists c, encrypt_full_m key block = Some c /\ decrypt_full_m key c = Some block.
Proof.
  intros HNk Hkey Hb. exists (Cipher Nk key block).
  destruct (InvCipher_Cipher Nk key block HNk Hkey Hb) as [Hinv Hwf].
  split; [apply encrypt_full_pf; assumption|].
  rewrite (decrypt_full_pf Nk key (Cipher Nk key block) HNk Hkey Hwf). f_equal. exact Hinv.
Qed.

(* ---------------------------------------------------------------- broadcasting (true of the model by construction) *)
Theorem broadcast_elementwise_pf dec ar st :
  (forall k b, cipher_m dec (One k) (One b) ar st = all_some [cipher1_m dec k b ar st])
  /\ (forall k bs, cipher_m dec (One k) (Many bs) ar st = all_some (map (fun b => cipher1_m dec k b ar st) bs))
  /\ (forall ks b, cipher_m dec (Many ks) (One b) ar st = all_some (map (fun k => cipher1_m dec k b ar st) ks))
  /\ (forall ks bs, length ks = length bs ->
        cipher_m dec (Many ks) (Many bs) ar st = all_some (map2 (fun k b => cipher1_m dec k b ar st) ks bs)).
Proof.
  repeat split; intros; try reflexivity. unfold cipher_m, broadcast. rewrite H, Nat.eqb_refl. reflexivity.
Qed.
