(* Proofs/Peaks.v — lemmas for property C19: find_peaks (repaired scan) and find_width. *)
From Coq Require Import ZArith QArith Qcanon List Bool Lia Sorted.
From ScaredV Require Import Run.Compare Lib.QcSum Model.Peaks.
Import ListNotations.
Local Open Scope nat_scope.

(* ---------------------------------------------------------------- booleans vs order on Qc *)
Lemma qlt_b_true a b : qlt_b a b = true <-> (a < b)%Qc.
Proof. unfold qlt_b, Qclt, Qlt. apply Z.ltb_lt. Qed.

Lemma qlt_b_false a b : qlt_b a b = false <-> (b <= a)%Qc.
Proof. unfold qlt_b, Qcle, Qle. rewrite Z.ltb_ge. reflexivity. Qed.

Lemma qle_b_true a b : qle_b a b = true <-> (a <= b)%Qc.
Proof. unfold qle_b. rewrite negb_true_iff. apply qlt_b_false. Qed.

Lemma qle_b_false a b : qle_b a b = false <-> (b < a)%Qc.
Proof. unfold qle_b. rewrite negb_false_iff. apply qlt_b_true. Qed.

Lemma ge_height_iff h v : ge_height h v = true <-> ge_height_P h v.
Proof.
  destruct h as [|t|]; cbn.
  - split; intros; [exact I|reflexivity].
  - apply qle_b_true.
  - split; [discriminate|intros []].
Qed.

(* ---------------------------------------------------------------- candidates *)
Lemma in_combine_seq {A} (l : list A) (dflt : A) s i v :
  In (i, v) (combine (seq s (length l)) l) <-> s <= i < s + length l /\ v = nth (i - s) l dflt.
Proof.
  revert s. induction l as [|x l IH]; intros s; cbn [length seq combine In nth].
  - split; [intros []|lia].
  - rewrite IH. split.
    + intros [H|[H1 H2]].
      * inversion H; subst. rewrite Nat.sub_diag. split; [lia|reflexivity].
      * split; [lia|]. replace (i - s) with (S (i - S s)) by lia. exact H2.
    + intros [H1 H2]. destruct (Nat.eq_dec i s) as [->|Hne].
      * left. rewrite Nat.sub_diag in H2. subst. reflexivity.
      * right. split; [lia|]. replace (i - s) with (S (i - S s)) in H2 by lia. exact H2.
Qed.

Lemma is_max_b_iff data i :
  is_max_b data i = true <->
  (i = 0 \/ (dat data (i - 1) <= dat data i)%Qc) /\ (S i = length data \/ (dat data (S i) <= dat data i)%Qc).
Proof.
  unfold is_max_b. rewrite andb_true_iff, !orb_true_iff, !Nat.eqb_eq, !qle_b_true. reflexivity.
Qed.

Lemma cands_spec data h i v :
  In (i, v) (cands data h) <-> is_candidate data h i /\ v = dat data i.
Proof.
  unfold cands, is_candidate. rewrite filter_In, (in_combine_seq data 0%Qc). cbn [fst snd].
  rewrite andb_true_iff, is_max_b_iff, ge_height_iff, Nat.sub_0_r. unfold dat.
  split.
  - intros [[H1 ->] [H2 H3]]. repeat split; try tauto; lia.
  - intros [[H1 [H2 [H3 H4]]] ->]. repeat split; try tauto; lia.
Qed.

Definition idx_lt (a b : cnd) : Prop := fst a < fst b.
Definition csorted (cs : list cnd) : Prop := StronglySorted idx_lt cs.

Lemma combine_seq_sorted {A} (l : list A) s : StronglySorted (fun a b : nat * A => fst a < fst b) (combine (seq s (length l)) l).
Proof.
  revert s. induction l as [|x l IH]; intros s; cbn [length seq combine]; constructor.
  - apply IH.
  - apply Forall_forall. intros [i v] Hin. cbn [fst].
    destruct l as [|y l']; [destruct Hin|].
    apply (in_combine_seq (y :: l') y) in Hin. lia.
Qed.

Lemma filter_sorted {A} (R : A -> A -> Prop) (p : A -> bool) l : StronglySorted R l -> StronglySorted R (filter p l).
Proof.
  induction 1 as [|x l Hs IH Hf]; cbn [filter]; [constructor|].
  destruct (p x); [|exact IH]. constructor; [exact IH|].
  apply Forall_forall. intros y Hy. apply filter_In in Hy. rewrite Forall_forall in Hf. apply Hf. tauto.
Qed.

Lemma cands_sorted data h : csorted (cands data h).
Proof. unfold csorted, cands. apply filter_sorted, combine_seq_sorted. Qed.

(* ---------------------------------------------------------------- pointwise relations on parallel lists *)
Inductive Forall3 {A B C} (P : A -> B -> C -> Prop) : list A -> list B -> list C -> Prop :=
| F3_nil : Forall3 P [] [] []
| F3_cons x y z xs ys zs : P x y z -> Forall3 P xs ys zs -> Forall3 P (x :: xs) (y :: ys) (z :: zs).

Lemma Forall3_impl {A B C} (P Q : A -> B -> C -> Prop) xs ys zs :
  (forall x y z, In x xs -> P x y z -> Q x y z) -> Forall3 P xs ys zs -> Forall3 Q xs ys zs.
Proof.
  intros H F. induction F as [|x y z xs ys zs Hp F IH]; constructor.
  - apply H; [left; reflexivity|exact Hp].
  - apply IH. intros x' y' z' Hin. apply H. right. exact Hin.
Qed.

Lemma Forall3_refl {A B} (P : A -> B -> B -> Prop) xs ys :
  length ys = length xs -> (forall x y, P x y y) -> Forall3 P xs ys ys.
Proof.
  revert ys. induction xs as [|x xs IH]; intros [|y ys] Hl Hp; try discriminate; constructor.
  - apply Hp.
  - apply IH; [cbn in Hl; lia|exact Hp].
Qed.

(* ---------------------------------------------------------------- the scan *)
Section ScanProofs.
  Variable d : nat.

  (* what may happen to the flag of a later candidate q during the scan of c *)
  Definition killed_by (c q : cnd) (b b' : bool) : Prop :=
    b' = b \/ (b = true /\ b' = false /\ adist (fst c) (fst q) < d /\ (snd q <= snd c)%Qc).

  Lemma scan_length c rest fl : length (snd (scan d c rest fl)) = length fl.
  Proof.
    revert fl. induction rest as [|q qs IH]; intros [|b bs]; cbn [scan]; try reflexivity.
    destruct b; cbn [negb].
    - destruct (adist (fst c) (fst q) <? d); [|reflexivity].
      destruct (qlt_b (snd c) (snd q)); [reflexivity|].
      specialize (IH bs). destruct (scan d c qs bs) as [a bs']. cbn [snd length] in *. lia.
    - specialize (IH bs). destruct (scan d c qs bs) as [a bs']. cbn [snd length] in *. lia.
  Qed.

  Lemma scan_killed c rest fl : length fl = length rest ->
    Forall3 (killed_by c) rest fl (snd (scan d c rest fl)).
  Proof.
    revert fl. induction rest as [|q qs IH]; intros [|b bs] Hl; try discriminate; cbn [scan]; [constructor|].
    cbn [length] in Hl. assert (Hl' : length bs = length qs) by lia.
    destruct b; cbn [negb].
    - destruct (adist (fst c) (fst q) <? d) eqn:Hd.
      + destruct (qlt_b (snd c) (snd q)) eqn:Hv.
        * cbn [snd]. constructor; [left; reflexivity|].
          apply Forall3_refl; [exact Hl'|]. intros; left; reflexivity.
        * specialize (IH bs Hl'). destruct (scan d c qs bs) as [a bs']. cbn [snd] in *.
          constructor; [|exact IH]. right. apply Nat.ltb_lt in Hd. apply qlt_b_false in Hv. tauto.
      + cbn [snd]. constructor; [left; reflexivity|].
        apply Forall3_refl; [exact Hl'|]. intros; left; reflexivity.
    - specialize (IH bs Hl'). destruct (scan d c qs bs) as [a bs']. cbn [snd] in *.
      constructor; [left; reflexivity|exact IH].
  Qed.

  (* when c survives its scan, every later candidate still alive is at least d away *)
  Definition far_from (c q : cnd) (b : bool) : Prop := b = true -> fst c + d <= fst q.

  Lemma far_all c rest bs : length bs = length rest ->
    Forall (fun q => fst c + d <= fst q) rest -> Forall2 (far_from c) rest bs.
  Proof.
    revert bs. induction rest as [|q qs IH]; intros [|b bs] Hl Hf; try discriminate; constructor.
    - intros _. inversion Hf; subst. assumption.
    - apply IH; [cbn in Hl; lia|]. inversion Hf; subst. assumption.
  Qed.

  Lemma scan_far c rest fl : length fl = length rest ->
    Forall (idx_lt c) rest -> csorted rest ->
    fst (scan d c rest fl) = true -> Forall2 (far_from c) rest (snd (scan d c rest fl)).
  Proof.
    revert fl. induction rest as [|q qs IH]; intros [|b bs] Hl Hc Hs; try discriminate; cbn [scan]; [constructor|].
    cbn [length] in Hl. assert (Hl' : length bs = length qs) by lia.
    inversion Hc as [|? ? Hcq Hc']; subst. inversion Hs as [|? ? Hs' Hq]; subst.
    destruct b; cbn [negb].
    - destruct (adist (fst c) (fst q) <? d) eqn:Hd.
      + destruct (qlt_b (snd c) (snd q)) eqn:Hv; [cbn [fst]; discriminate|].
        specialize (IH bs Hl' Hc' Hs'). destruct (scan d c qs bs) as [a bs']. cbn [fst snd] in *.
        intros Ha. constructor; [intros Hb; discriminate|apply IH; exact Ha].
      + cbn [fst snd]. intros _. apply Nat.ltb_ge in Hd. unfold idx_lt, adist in *.
        apply (far_all c (q :: qs) (true :: bs)); [cbn [length]; f_equal; exact Hl'|].
        constructor; [lia|].
        rewrite Forall_forall in Hq |- *. intros r Hr. specialize (Hq r Hr). unfold idx_lt in Hq. lia.
    - specialize (IH bs Hl' Hc' Hs'). destruct (scan d c qs bs) as [a bs']. cbn [fst snd] in *.
      intros Ha. constructor; [intros Hb; discriminate|apply IH; exact Ha].
  Qed.

  (* when c is eliminated, a later candidate closer than d is strictly higher *)
  Lemma scan_elim c rest fl :
    fst (scan d c rest fl) = false ->
    exists q, In q rest /\ adist (fst c) (fst q) < d /\ (snd c < snd q)%Qc.
  Proof.
    revert fl. induction rest as [|q qs IH]; intros [|b bs]; cbn [scan fst]; try discriminate.
    destruct b; cbn [negb].
    - destruct (adist (fst c) (fst q) <? d) eqn:Hd; [|cbn [fst]; discriminate].
      destruct (qlt_b (snd c) (snd q)) eqn:Hv.
      + intros _. exists q. apply Nat.ltb_lt in Hd. apply qlt_b_true in Hv. split; [left; reflexivity|tauto].
      + specialize (IH bs). destruct (scan d c qs bs) as [a bs']. cbn [fst] in *.
        intros Ha. destruct (IH Ha) as (r & Hr & H). exists r. split; [right; exact Hr|exact H].
    - specialize (IH bs). destruct (scan d c qs bs) as [a bs']. cbn [fst] in *.
      intros Ha. destruct (IH Ha) as (r & Hr & H). exists r. split; [right; exact Hr|exact H].
  Qed.

  (* ---------------------------------------------------------------- the outer loop *)
  Lemma go_length cs fl : length fl = length cs -> length (go d cs fl) = length cs.
  Proof.
    revert fl. induction cs as [|c rest IH]; intros [|b bs] Hl; try discriminate; cbn [go]; [reflexivity|].
    cbn [length] in Hl. assert (Hl' : length bs = length rest) by lia.
    destruct b.
    - pose proof (scan_length c rest bs) as Hsl. destruct (scan d c rest bs) as [a bs']. cbn [snd] in Hsl.
      cbn [length]. rewrite IH; [reflexivity|]. rewrite Hsl. exact Hl'.
    - cbn [length]. rewrite IH; [reflexivity|exact Hl'].
  Qed.

  (* alive flags at the end: pairwise at least d apart *)
  Inductive separated : list cnd -> list bool -> Prop :=
  | sep_nil : separated [] []
  | sep_cons c rest b bs : (b = true -> Forall2 (far_from c) rest bs) -> separated rest bs -> separated (c :: rest) (b :: bs).

  Definition flag_le (b b' : bool) : Prop := b' = true -> b = true.

  Lemma killed_flag_le c rest fl fl' : Forall3 (killed_by c) rest fl fl' -> Forall2 flag_le fl fl'.
  Proof.
    induction 1 as [|q b b' qs bs bs' Hk F IH]; constructor; [|exact IH].
    intros Hb. destruct Hk as [->|(_ & H & _)]; [exact Hb|congruence].
  Qed.

  Lemma far_mono c rest fl fl' : Forall2 (far_from c) rest fl -> Forall2 flag_le fl fl' -> Forall2 (far_from c) rest fl'.
  Proof.
    intros H. revert fl'. induction H as [|q b qs bs Hq H IH]; intros fl' Hle; inversion Hle; subst; constructor.
    - intros Hb. apply Hq. match goal with H : flag_le _ _ |- _ => apply H end. exact Hb.
    - apply IH. assumption.
  Qed.

  Lemma go_flag_le cs fl : length fl = length cs -> Forall2 flag_le fl (go d cs fl).
  Proof.
    revert fl. induction cs as [|c rest IH]; intros [|b bs] Hl; try discriminate; cbn [go]; [constructor|].
    cbn [length] in Hl. assert (Hl' : length bs = length rest) by lia.
    destruct b.
    - pose proof (scan_length c rest bs) as Hsl. pose proof (scan_killed c rest bs Hl') as Hk.
      destruct (scan d c rest bs) as [a bs']. cbn [snd] in *.
      constructor; [intros _; reflexivity|].
      apply killed_flag_le in Hk.
      assert (Hl2 : length bs' = length rest) by (rewrite Hsl; exact Hl').
      specialize (IH bs' Hl2). clear - Hk IH.
      revert IH. generalize (go d rest bs'). intros fl2. revert fl2.
      induction Hk as [|b b' bs bs' Hb Hk IHk]; intros fl2 H2; inversion H2; subst; constructor.
      + intros Hx. apply Hb. match goal with H : flag_le _ _ |- _ => apply H end. exact Hx.
      + apply IHk. assumption.
    - constructor; [intros Hx; exact Hx|]. apply IH. exact Hl'.
  Qed.

  Lemma sorted_tail_lt (c : cnd) rest : csorted (c :: rest) -> Forall (idx_lt c) rest /\ csorted rest.
  Proof. intros H. inversion H; subst. split; assumption. Qed.

  Lemma go_separated cs fl : length fl = length cs -> csorted cs -> separated cs (go d cs fl).
  Proof.
    revert fl. induction cs as [|c rest IH]; intros [|b bs] Hl Hs; try discriminate; cbn [go]; [constructor|].
    cbn [length] in Hl. assert (Hl' : length bs = length rest) by lia.
    destruct (sorted_tail_lt c rest Hs) as [Hc Hs'].
    destruct b.
    - pose proof (scan_length c rest bs) as Hsl. pose proof (scan_far c rest bs Hl' Hc Hs') as Hf.
      destruct (scan d c rest bs) as [a bs']. cbn [fst snd] in *.
      assert (Hl2 : length bs' = length rest) by (rewrite Hsl; exact Hl').
      constructor; [|apply IH; assumption].
      intros Ha. apply (far_mono c rest bs'); [apply Hf; exact Ha|]. apply go_flag_le. exact Hl2.
    - constructor; [discriminate|apply IH; assumption].
  Qed.

  (* a candidate whose flag went from alive to eliminated has a witness among the candidates U *)
  Definition dominated (U : list cnd) (q : cnd) : Prop :=
    exists w, In w U /\ fst w <> fst q /\ adist (fst q) (fst w) < d /\ (snd q <= snd w)%Qc.

  Definition dropped_ok (U : list cnd) (q : cnd) (b b' : bool) : Prop :=
    b' = b \/ (b = true /\ b' = false /\ dominated U q).

  Lemma Forall3_dropped_trans U cs f1 f2 f3 :
    Forall3 (dropped_ok U) cs f1 f2 -> Forall3 (dropped_ok U) cs f2 f3 -> Forall3 (dropped_ok U) cs f1 f3.
  Proof.
    intros H. revert f3. induction H as [|q b1 b2 qs bs1 bs2 H12 H IH]; intros f3 H3; inversion H3; subst; constructor.
    - match goal with H : dropped_ok U q b2 _ |- _ => rename H into H23 end.
      destruct H12 as [->|(Hb1 & Hb2 & Hd)]; [exact H23|].
      destruct H23 as [->|(Hb2' & _)]; [right; tauto|congruence].
    - apply IH. assumption.
  Qed.

  Lemma adist_sym a b : adist a b = adist b a.
  Proof. unfold adist. lia. Qed.

  Lemma go_dropped U cs fl : length fl = length cs -> csorted cs -> incl cs U ->
    Forall3 (dropped_ok U) cs fl (go d cs fl).
  Proof.
    revert fl. induction cs as [|c rest IH]; intros [|b bs] Hl Hs Hi; try discriminate; cbn [go]; [constructor|].
    cbn [length] in Hl. assert (Hl' : length bs = length rest) by lia.
    destruct (sorted_tail_lt c rest Hs) as [Hc Hs'].
    assert (Hi' : incl rest U) by (intros x Hx; apply Hi; right; exact Hx).
    destruct b.
    - pose proof (scan_length c rest bs) as Hsl. pose proof (scan_killed c rest bs Hl') as Hk.
      pose proof (scan_elim c rest bs) as He.
      destruct (scan d c rest bs) as [a bs']. cbn [fst snd] in *.
      assert (Hl2 : length bs' = length rest) by (rewrite Hsl; exact Hl').
      constructor.
      + destruct a; [left; reflexivity|right].
        destruct (He eq_refl) as (q & Hq & Hd & Hv).
        repeat split; try reflexivity. exists q. repeat split.
        * apply Hi'. exact Hq.
        * rewrite Forall_forall in Hc. specialize (Hc q Hq). unfold idx_lt in Hc. lia.
        * exact Hd.
        * apply Qclt_le_weak. exact Hv.
      + apply (Forall3_dropped_trans U rest bs bs'); [|apply IH; assumption].
        apply (Forall3_impl (killed_by c)); [|exact Hk].
        intros q b b' Hq [->|(Hb & Hb' & Hd & Hv)]; [left; reflexivity|right].
        repeat split; try assumption. exists c. repeat split.
        * apply Hi. left. reflexivity.
        * rewrite Forall_forall in Hc. specialize (Hc q Hq). unfold idx_lt in Hc. lia.
        * rewrite adist_sym. exact Hd.
        * exact Hv.
    - constructor; [left; reflexivity|apply IH; assumption].
  Qed.
End ScanProofs.

(* ---------------------------------------------------------------- from flags to the returned indices *)
Lemma select_in cs fl i : In i (select cs fl) -> exists v, In (i, v) cs.
Proof.
  revert fl. induction cs as [|c rest IH]; intros [|b bs]; cbn [select]; try (intros []).
  destruct b.
  - intros [<-|H].
    + exists (snd c). left. destruct c; reflexivity.
    + destruct (IH bs H) as (v & Hv). exists v. right. exact Hv.
  - intros H. destruct (IH bs H) as (v & Hv). exists v. right. exact Hv.
Qed.

Lemma select_forall (P : nat -> Prop) rest bs :
  Forall2 (fun (q : cnd) (b : bool) => b = true -> P (fst q)) rest bs -> Forall P (select rest bs).
Proof.
  induction 1 as [|q b qs bs Hq H IH]; cbn [select]; [constructor|].
  destruct b; [constructor; [apply Hq; reflexivity|exact IH]|exact IH].
Qed.

Lemma Forall2_and_Forall {A B} (P : A -> B -> Prop) (Q : A -> Prop) l1 l2 :
  Forall2 P l1 l2 -> Forall Q l1 -> Forall2 (fun a b => P a b /\ Q a) l1 l2.
Proof.
  induction 1 as [|a b l1 l2 Hab H IH]; intros HQ; constructor; inversion HQ; subst; [tauto|apply IH; assumption].
Qed.

Lemma select_separated d cs fl : csorted cs -> separated d cs fl ->
  StronglySorted (fun i j => i < j /\ i + d <= j) (select cs fl).
Proof.
  intros Hs Hsep. induction Hsep as [|c rest b bs Hfar Hsep IH]; cbn [select]; [constructor|].
  destruct (sorted_tail_lt c rest Hs) as [Hc Hs'].
  destruct b; [|apply IH; exact Hs'].
  constructor; [apply IH; exact Hs'|].
  apply select_forall.
  specialize (Hfar eq_refl).
  pose proof (Forall2_and_Forall _ _ _ _ Hfar Hc) as H.
  clear - H. induction H as [|q b qs bs [Hf Hl] H IH]; constructor; [|exact IH].
  intros Hb. unfold idx_lt in Hl. split; [exact Hl|apply Hf; exact Hb].
Qed.

Lemma select_dropped d U cs fl' :
  Forall3 (dropped_ok d U) cs (repeat true (length cs)) fl' ->
  forall q, In q cs -> In (fst q) (select cs fl') \/ dominated d U q.
Proof.
  revert fl'. induction cs as [|c rest IH]; intros fl' H q Hq; [destruct Hq|].
  cbn [length repeat] in H. inversion H as [|? ? b' ? ? bs' Hd Hr]; subst.
  cbn [select]. destruct Hq as [->|Hq].
  - destruct Hd as [->|(_ & -> & Hdom)]; [left; left; reflexivity|right; exact Hdom].
  - destruct (IH bs' Hr q Hq) as [Hin|Hdom]; [left|right; exact Hdom].
    destruct b'; [right; exact Hin|exact Hin].
Qed.

Lemma sorted_pairs {A} (R : A -> A -> Prop) l : StronglySorted R l ->
  forall x y, In x l -> In y l -> x = y \/ R x y \/ R y x.
Proof.
  induction 1 as [|a l Hs IH Hf]; intros x y Hx Hy; [destruct Hx|].
  rewrite Forall_forall in Hf.
  destruct Hx as [<-|Hx], Hy as [<-|Hy].
  - left; reflexivity.
  - right; left. apply Hf. exact Hy.
  - right; right. apply Hf. exact Hx.
  - apply IH; assumption.
Qed.

(* ---------------------------------------------------------------- find_peaks: the property clauses *)
Lemma repeat_length_cs (cs : list cnd) : length (repeat true (length cs)) = length cs.
Proof. apply repeat_length. Qed.

Theorem find_peaks_candidates data d h i : In i (find_peaks data d h) -> is_candidate data h i.
Proof.
  unfold find_peaks, find_peaks_from. intros H. apply select_in in H. destruct H as (v & Hv).
  apply cands_spec in Hv. tauto.
Qed.

Theorem find_peaks_sorted_separated data d h :
  StronglySorted (fun i j => i < j /\ i + d <= j) (find_peaks data d h).
Proof.
  unfold find_peaks, find_peaks_from. apply select_separated; [apply cands_sorted|].
  apply go_separated; [apply repeat_length_cs|apply cands_sorted].
Qed.

Theorem find_peaks_separated data d h i j :
  In i (find_peaks data d h) -> In j (find_peaks data d h) -> i <> j -> d <= adist i j.
Proof.
  intros Hi Hj Hne.
  destruct (sorted_pairs _ _ (find_peaks_sorted_separated data d h) i j Hi Hj) as [H|[H|H]]; unfold adist; lia.
Qed.

Theorem find_peaks_dropped_dominated data d h i :
  is_candidate data h i -> ~ In i (find_peaks data d h) ->
  exists j, is_candidate data h j /\ j <> i /\ adist i j < d /\ (dat data i <= dat data j)%Qc.
Proof.
  intros Hc Hn.
  assert (Hin : In (i, dat data i) (cands data h)) by (apply cands_spec; split; [exact Hc|reflexivity]).
  pose proof (go_dropped d (cands data h) (cands data h) (repeat true (length (cands data h)))
                (repeat_length_cs _) (cands_sorted data h) (incl_refl _)) as H.
  destruct (select_dropped d _ _ _ H _ Hin) as [Hsel|Hdom].
  - exfalso. apply Hn. exact Hsel.
  - destruct Hdom as ([j v] & Hw & Hne & Hd & Hv). cbn [fst snd] in *.
    apply cands_spec in Hw. destruct Hw as [Hcj ->].
    exists j. split; [exact Hcj|]. split; [exact Hne|]. split; [exact Hd|exact Hv].
Qed.

Theorem find_peaks_isolated_kept data d h i :
  is_candidate data h i ->
  (forall j, is_candidate data h j -> j <> i -> adist i j < d -> (dat data j < dat data i)%Qc) ->
  In i (find_peaks data d h).
Proof.
  intros Hc Hiso.
  destruct (in_dec Nat.eq_dec i (find_peaks data d h)) as [Hin|Hn]; [exact Hin|exfalso].
  destruct (find_peaks_dropped_dominated data d h i Hc Hn) as (j & Hcj & Hne & Hd & Hv).
  exact (Qcle_not_lt _ _ Hv (Hiso j Hcj Hne Hd)).
Qed.

Theorem find_peaks_alone_kept data d h i :
  is_candidate data h i ->
  (forall j, is_candidate data h j -> j <> i -> d <= adist i j) ->
  In i (find_peaks data d h).
Proof.
  intros Hc Hal. apply find_peaks_isolated_kept; [exact Hc|].
  intros j Hcj Hne Hd. specialize (Hal j Hcj Hne). lia.
Qed.

Theorem find_peaks_strict_highest_kept data d h i :
  is_candidate data h i ->
  (forall j, is_candidate data h j -> j <> i -> (dat data j < dat data i)%Qc) ->
  In i (find_peaks data d h).
Proof.
  intros Hc Hhi. apply find_peaks_isolated_kept; [exact Hc|].
  intros j Hcj Hne _. apply Hhi; assumption.
Qed.

(* ================================================================ find_width *)
Lemma not_beyond_true dir thr v : not_beyond dir thr v = true <-> ~ beyond_P dir thr v.
Proof.
  destruct dir; cbn; rewrite qle_b_true; split.
  - intros H H'. exact (Qcle_not_lt _ _ H H').
  - apply Qcnot_lt_le.
  - intros H H'. exact (Qcle_not_lt _ _ H H').
  - apply Qcnot_lt_le.
Qed.

Lemma not_beyond_false dir thr v : not_beyond dir thr v = false <-> beyond_P dir thr v.
Proof. destruct dir; cbn; apply qle_b_false. Qed.

(* consecutive elements of a list *)
Lemma adj_cons {A} (x : A) l : adj (x :: l) = match l with [] => [] | y :: _ => (x, y) :: adj l end.
Proof. unfold adj. destruct l; reflexivity. Qed.

Section Gaps.
  Variable p : nat -> bool.

  Lemma filter_head s n f t : filter p (seq s n) = f :: t ->
    s <= f < s + n /\ p f = true /\ forall k, s <= k < f -> p k = false.
  Proof.
    revert s. induction n as [|n IH]; intros s; cbn [seq filter]; [discriminate|].
    destruct (p s) eqn:Hs.
    - intros H. inversion H; subst. repeat split; try lia. exact Hs.
    - intros H. destruct (IH _ H) as (H1 & H2 & H3). repeat split; try lia; try exact H2.
      intros k Hk. destruct (Nat.eq_dec k s) as [->|Hne]; [exact Hs|apply H3; lia].
  Qed.

  Lemma filter_head_conv s n b : s <= b < s + n -> p b = true -> (forall k, s <= k < b -> p k = false) ->
    exists t, filter p (seq s n) = b :: t.
  Proof.
    revert s. induction n as [|n IH]; intros s Hb Hp Hk; [lia|]. cbn [seq filter].
    destruct (Nat.eq_dec b s) as [->|Hne].
    - rewrite Hp. eexists. reflexivity.
    - rewrite (Hk s) by lia. apply IH; [lia|exact Hp|]. intros k Hk'. apply Hk. lia.
  Qed.

  Lemma adj_filter_seq s n a b :
    In (a, b) (adj (filter p (seq s n))) <->
    s <= a /\ a < b /\ b < s + n /\ p a = true /\ p b = true /\ forall k, a < k < b -> p k = false.
  Proof.
    revert s. induction n as [|n IH]; intros s; cbn [seq filter].
    - cbn. split; [intros []|lia].
    - destruct (p s) eqn:Hs.
      + rewrite adj_cons. destruct (filter p (seq (S s) n)) as [|f t] eqn:HF.
        * split; [intros []|]. intros (H1 & H2 & H3 & H4 & H5 & H6). exfalso.
          destruct (Nat.eq_dec a s) as [->|Hne].
          -- destruct (filter_head_conv (S s) n b) as (t & Ht); [lia|assumption|intros k Hk; apply H6; lia|congruence].
          -- assert (Hin : In (a, b) (adj (filter p (seq (S s) n)))) by (apply IH; repeat split; try lia; assumption).
             rewrite HF in Hin. destruct Hin.
        * destruct (filter_head _ _ _ _ HF) as (F1 & F2 & F3). rewrite <- HF. split.
          -- intros [H|H].
             ++ inversion H; subst. repeat split; try lia; try assumption; try (intros k Hk; apply F3; lia).
             ++ apply IH in H. destruct H as (H1 & H2 & H3 & H4 & H5 & H6). repeat split; try lia; assumption.
          -- intros (H1 & H2 & H3 & H4 & H5 & H6).
             destruct (Nat.eq_dec a s) as [->|Hne].
             ++ left. destruct (filter_head_conv (S s) n b) as (t' & Ht); [lia|assumption|intros k Hk; apply H6; lia|].
                rewrite HF in Ht. inversion Ht; subst. reflexivity.
             ++ right. apply IH. repeat split; try lia; assumption.
      + rewrite IH. split; intros (H1 & H2 & H3 & H4 & H5 & H6); repeat split; try lia; try assumption.
        destruct (Nat.eq_dec a s) as [->|Hne]; [congruence|lia].
  Qed.
End Gaps.

Lemma width_sel_ok m a b : wmode_valid m = true -> a < b ->
  (width_sel m (b - a) = true <-> S a < b /\ width_ok m (b - S a)).
Proof.
  intros Hv Hab. destruct m as [mn|mn mx|mn dl]; unfold wmode_valid, width_sel, width_ok in *;
    rewrite ?andb_true_iff, ?Nat.ltb_lt, ?Nat.leb_le in *; lia.
Qed.

Theorem find_width_runs data dir thr m s e : wmode_valid m = true ->
  (In (s, e) (find_width data dir thr m) <-> bracketed_run data dir thr s e /\ width_ok m (e - s)).
Proof.
  intros Hv. unfold find_width, find_width_from, not_beyond_idx. rewrite in_map_iff. split.
  - intros ([a b] & Heq & Hin). cbn [fst snd] in Heq. inversion Heq; subst. clear Heq.
    apply filter_In in Hin. destruct Hin as [Hin Hw]. cbn [fst snd] in Hw.
    apply adj_filter_seq in Hin. destruct Hin as (_ & H2 & H3 & H4 & H5 & H6).
    apply (width_sel_ok m a e Hv H2) in Hw. destruct Hw as [Hw1 Hw2].
    split; [|exact Hw2]. unfold bracketed_run. cbn [Nat.sub]. rewrite Nat.sub_0_r.
    repeat split; try lia.
    + intros k Hk. apply not_beyond_false. apply H6. lia.
    + apply not_beyond_true. exact H4.
    + apply not_beyond_true. exact H5.
  - intros [(B1 & B2 & B3 & B4 & B5 & B6) Hw]. exists (s - 1, e). cbn [fst snd]. split; [f_equal; lia|].
    apply filter_In. cbn [fst snd]. split.
    + apply adj_filter_seq. repeat split; try lia.
      * apply not_beyond_true. exact B5.
      * apply not_beyond_true. exact B6.
      * intros k Hk. apply not_beyond_false. apply B4. lia.
    + apply (width_sel_ok m (s - 1) e Hv); [lia|]. replace (S (s - 1)) with s by lia. split; [lia|exact Hw].
Qed.

(* order of the rows: ascending, disjoint *)
Lemma adj_in {A} (l : list A) a b : In (a, b) (adj l) -> In a l /\ In b l.
Proof.
  unfold adj. intros H. split; [exact (in_combine_l _ _ _ _ H)|].
  apply in_combine_r in H. destruct l; [destruct H|right; exact H].
Qed.

Lemma adj_sorted l : StronglySorted lt l -> StronglySorted (fun x y : nat * nat => snd x <= fst y) (adj l).
Proof.
  induction 1 as [|x l Hs IH Hf]; [constructor|].
  rewrite adj_cons. destruct l as [|y t]; [constructor|].
  constructor; [exact IH|].
  apply Forall_forall. intros [a b] Hab. cbn [fst snd].
  apply adj_in in Hab. destruct Hab as [Ha _].
  inversion Hs as [|? ? _ Hy]; subst. rewrite Forall_forall in Hy.
  destruct Ha as [<-|Ha]; [lia|]. specialize (Hy a Ha). lia.
Qed.

Lemma map_sorted {A B} (R : A -> A -> Prop) (S' : B -> B -> Prop) (f : A -> B) l :
  (forall x y, R x y -> S' (f x) (f y)) -> StronglySorted R l -> StronglySorted S' (map f l).
Proof.
  intros H. induction 1 as [|x l Hs IH Hf]; cbn [map]; constructor; [exact IH|].
  apply Forall_forall. intros y Hy. apply in_map_iff in Hy. destruct Hy as (z & <- & Hz).
  apply H. rewrite Forall_forall in Hf. apply Hf. exact Hz.
Qed.

Lemma seq_sorted s n : StronglySorted lt (seq s n).
Proof.
  revert s. induction n as [|n IH]; intros s; cbn [seq]; constructor; [apply IH|].
  apply Forall_forall. intros x Hx. apply in_seq in Hx. lia.
Qed.

Theorem find_width_sorted data dir thr m :
  StronglySorted (fun x y : nat * nat => snd x < fst y) (find_width data dir thr m).
Proof.
  unfold find_width, find_width_from, not_beyond_idx.
  apply (map_sorted (fun x y : nat * nat => snd x <= fst y)).
  - intros [a b] [a' b']; cbn [fst snd]. lia.
  - apply filter_sorted, adj_sorted, filter_sorted, seq_sorted.
Qed.

(* ---------------------------------------------------------------- boolean reflections used by the examples *)
Lemma is_candidate_b_iff data h i : is_candidate_b data h i = true <-> is_candidate data h i.
Proof.
  unfold is_candidate_b, is_candidate. rewrite !andb_true_iff, Nat.ltb_lt, is_max_b_iff, ge_height_iff. tauto.
Qed.
