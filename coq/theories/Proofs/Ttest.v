(* Proofs/Ttest.v — lemmas for property C09 (t-test = Welch statistic whatever the batching and thread timing). *)
From Coq Require Import ZArith QArith Qcanon List Bool Permutation Arith PeanoNat Lia.
From ScaredV Require Import Lib.QcSum Lib.Interleave Model.Accum Run.Compare Model.Ttest.
Import ListNotations.
Local Open Scope Qc_scope.

(* ================================================================================ the accumulator monoid *)
Lemma triple_eq (a a' b b' c c' : Qc) : a = a' -> b = b' -> c = c' -> (a, b, c) = (a', b', c').
Proof. intros -> -> ->. reflexivity. Qed.

Lemma st_eta (s : st) : s = (st_n s, st_sx s, st_sxx s).
Proof. destruct s as [[n x] q]. reflexivity. Qed.

Lemma st_plus_assoc a b c : st_plus a (st_plus b c) = st_plus (st_plus a b) c.
Proof. unfold st_plus, st_n, st_sx, st_sxx. cbn [fst snd]. apply triple_eq; ring. Qed.

Lemma st_plus_zero_r a : st_plus a st_zero = a.
Proof.
  rewrite (st_eta a) at 2. unfold st_plus, st_zero, st_n, st_sx, st_sxx. cbn [fst snd]. apply triple_eq; ring.
Qed.

Lemma st_plus_zero_l a : st_plus st_zero a = a.
Proof.
  rewrite (st_eta a) at 2. unfold st_plus, st_zero, st_n, st_sx, st_sxx. cbn [fst snd]. apply triple_eq; ring.
Qed.

Lemma st_plus_comm a b : st_plus a b = st_plus b a.
Proof. unfold st_plus. apply triple_eq; ring. Qed.

(* a batch contributes (number of traces, sum, sum of squares) *)
Lemma t_bsum_eq l : t_bsum l = (qlen l, qsum l, qsum (map sq l)).
Proof.
  unfold t_bsum, bsum. induction l as [|x l IH]; cbn [fold_right map].
  - reflexivity.
  - rewrite IH. unfold st_plus, contrib, st_n, st_sx, st_sxx, sq. cbn [fst snd].
    rewrite qlen_cons, !qsum_cons. apply triple_eq; ring.
Qed.

Lemma t_upd_zero l : t_upd st_zero l = t_bsum l.
Proof. unfold t_upd, upd. apply st_plus_zero_l. Qed.

Lemma t_upd_eq s l : t_upd s l = st_plus s (t_bsum l).
Proof. reflexivity. Qed.

Lemma t_feed_concat bs s : t_feed s bs = t_upd s (concat bs).
Proof. apply feed_concat; [apply st_plus_assoc|apply st_plus_zero_r|apply st_plus_zero_l]. Qed.

Lemma t_upd_app s l1 l2 : t_upd s (l1 ++ l2) = t_upd (t_upd s l1) l2.
Proof. apply upd_app; [apply st_plus_assoc|apply st_plus_zero_l]. Qed.

(* ================================================================================ boolean tests on Qc *)
Lemma qc_eqb_true a b : qc_eqb a b = true <-> a = b.
Proof.
  unfold qc_eqb. rewrite Qeq_bool_iff. split.
  - apply Qc_is_canon.
  - intros ->. reflexivity.
Qed.

Lemma qc_eqb_false a b : qc_eqb a b = false <-> a <> b.
Proof.
  split.
  - intros H E. apply qc_eqb_true in E. congruence.
  - intros H. destruct (qc_eqb a b) eqn:E; [|reflexivity]. apply qc_eqb_true in E. contradiction.
Qed.

(* ================================================================================ welch_identity *)
Lemma comp_bsum l : l <> [] ->
  comp (t_bsum l) = Some (qmean l, qsum (map sq l) / qlen l - qmean l * qmean l).
Proof.
  intros Hl. rewrite t_bsum_eq. unfold comp, st_n, st_sx, st_sxx. cbn [fst snd].
  pose proof (qlen_nonzero l Hl) as Hn. apply qc_eqb_false in Hn. rewrite Hn. reflexivity.
Qed.

Lemma comp_bsum_nil : comp (t_bsum []) = None.
Proof. reflexivity. Qed.

(* the code's variance  sum x^2 / n - (sum x / n)^2  is the population variance  sum (x - mean)^2 / n *)
Lemma var_code_is_pvar l : l <> [] -> qsum (map sq l) / qlen l - qmean l * qmean l = pvar l.
Proof.
  intros Hl. unfold pvar. rewrite (ssd_identity l Hl).
  pose proof (qlen_nonzero l Hl) as Hn. field. exact Hn.
Qed.

Theorem welch_identity_thm l1 l2 :
  welch_code (t_upd st_zero l1) (t_upd st_zero l2) = welch_def l1 l2.
Proof.
  rewrite !t_upd_zero. unfold welch_code.
  destruct l1 as [|x1 r1]; [reflexivity|].
  destruct l2 as [|x2 r2]; [rewrite comp_bsum by discriminate; reflexivity|].
  rewrite !comp_bsum by discriminate.
  unfold final, welch_mv. cbn [fst snd].
  rewrite !var_code_is_pvar by discriminate.
  rewrite !t_bsum_eq. unfold st_n. cbn [fst snd].
  reflexivity.
Qed.

(* the same, for accumulators that received the values in any batches *)
Corollary welch_identity_batches bs1 bs2 :
  welch_code (t_feed st_zero bs1) (t_feed st_zero bs2) = welch_def (concat bs1) (concat bs2).
Proof. rewrite !t_feed_concat. apply welch_identity_thm. Qed.

(* the function the correspondence check evaluates is the definition (the [let]s only share the means) *)
Lemma welch_def_c_eq l1 l2 : welch_def_c l1 l2 = welch_def l1 l2.
Proof. destruct l1, l2; reflexivity. Qed.

(* ================================================================================ threads and run(), generic *)
Section RunProofs.
  Variables St R MV Out : Type.
  Variable zero : St.
  Variable plus : St -> St -> St.
  Variable contrib_ : R -> St.
  Variable comp_ : St -> option MV.
  Variable final_ : MV -> MV -> St -> St -> Out.
  Hypothesis plus_assoc : forall a b c, plus a (plus b c) = plus (plus a b) c.
  Hypothesis plus_zero_r : forall a, plus a zero = a.
  Hypothesis plus_zero_l : forall a, plus zero a = a.

  Notation upd := (upd St R zero plus contrib_).
  Notation feed := (feed St R zero plus contrib_).
  Notation thr_step := (thr_step St R zero plus contrib_).
  Notation threads := (threads St R zero plus contrib_).
  Notation ttest_run := (ttest_run St R MV Out zero plus contrib_ comp_ final_).
  Notation ttest_runs := (ttest_runs St R MV Out zero plus contrib_ comp_ final_).
  Notation pstate := (pstate St).
  Notation analysis := (analysis St MV Out).
  Notation outcome := (outcome St MV Out).
  Notation batches1 bs := (tag T1 (map Batch bs)).
  Notation batches2 bs := (tag T2 (map Batch bs)).

  Lemma feed_app s bs bs' : feed s (bs ++ bs') = feed (feed s bs) bs'.
  Proof. unfold Accum.feed. apply fold_left_app. Qed.

  (* ---- disjoint footprints: a batch of thread 1 touches p1 only and reads f1; a batch of thread 2 touches
     p2 / fuel2 and reads f2 / fuel2 *)
  Lemma batch_steps_commute k b b' : commute_eq pstate _ (thr_step k) (T1, Batch b) (T2, Batch b').
  Proof.
    intros [s1 s2 g1 g2 fu]. unfold Ttest.thr_step. cbn.
    destruct g1, g2; cbn; try reflexivity; destruct fu as [[|n]|]; cbn; reflexivity.
  Qed.

  Lemma exec_batches1 k bs : forall s1 s2 g2 fu,
    exec (thr_step k) {| p1 := s1; p2 := s2; f1 := false; f2 := g2; fuel2 := fu |} (batches1 bs)
    = {| p1 := feed s1 bs; p2 := s2; f1 := false; f2 := g2; fuel2 := fu |}.
  Proof.
    induction bs as [|b bs IH]; intros s1 s2 g2 fu; [reflexivity|].
    cbn [map tag exec fold_left]. unfold Ttest.thr_step at 2. cbn [f1 p1 p2 f2 fuel2].
    apply IH.
  Qed.

  Lemma exec_batches2 k bs : forall s1 s2 g1,
    exec (thr_step k) {| p1 := s1; p2 := s2; f1 := g1; f2 := false; fuel2 := None |} (batches2 bs)
    = {| p1 := s1; p2 := feed s2 bs; f1 := g1; f2 := false; fuel2 := None |}.
  Proof.
    induction bs as [|b bs IH]; intros s1 s2 g1; [reflexivity|].
    cbn [map tag exec fold_left]. unfold Ttest.thr_step at 2. cbn [f1 p1 p2 f2 fuel2 option_map].
    apply IH.
  Qed.

  Lemma threads_sequential k s1 s2 bs1 bs2 :
    threads k s1 s2 (batches1 bs1 ++ batches2 bs2) = pinit St (feed s1 bs1) (feed s2 bs2).
  Proof.
    unfold Ttest.threads, pinit. rewrite exec_app, exec_batches1, exec_batches2. reflexivity.
  Qed.

  (* ---- every interleaving of two failure-free threads leaves (feed A, feed B) *)
  Theorem threads_interleaved k s1 s2 bs1 bs2 l :
    merge (batches1 bs1) (batches2 bs2) l ->
    threads k s1 s2 l = pinit St (feed s1 bs1) (feed s2 bs2).
  Proof.
    intros M. unfold Ttest.threads.
    rewrite (merge_exec_eq _ _ (thr_step k) _ _ _ M).
    - apply threads_sequential.
    - intros a b Ha Hb. unfold tag in Ha, Hb.
      apply in_map_iff in Ha. destruct Ha as (sa & <- & Ha). apply in_map_iff in Ha. destruct Ha as (ba & <- & _).
      apply in_map_iff in Hb. destruct Hb as (sb & <- & Hb). apply in_map_iff in Hb. destruct Hb as (bb & <- & _).
      apply batch_steps_commute.
  Qed.

  (* what run() makes of the final sums when no thread failed *)
  Definition settle (a : analysis) (s1 s2 : St) : outcome :=
    match comp_ s1 with
    | None => Raised {| a1 := {| sums := s1; meanvar := meanvar (a1 a) |};
                        a2 := {| sums := s2; meanvar := meanvar (a2 a) |}; result := result a |}
    | Some m1 =>
        match comp_ s2 with
        | None => Raised {| a1 := {| sums := s1; meanvar := Some m1 |};
                            a2 := {| sums := s2; meanvar := meanvar (a2 a) |}; result := result a |}
        | Some m2 => Done {| a1 := {| sums := s1; meanvar := Some m1 |};
                             a2 := {| sums := s2; meanvar := Some m2 |}; result := Some (final_ m1 m2 s1 s2) |}
        end
    end.

  Lemma settle_done_indep a b s1 s2 a' : settle a s1 s2 = Done a' -> settle b s1 s2 = Done a'.
  Proof. unfold settle. destruct (comp_ s1); [|discriminate]. destruct (comp_ s2); [|discriminate]. auto. Qed.

  Lemma settle_done_sums a s1 s2 a' : settle a s1 s2 = Done a' ->
    sums (a1 a') = s1 /\ sums (a2 a') = s2 /\
    exists m1 m2, comp_ s1 = Some m1 /\ comp_ s2 = Some m2 /\ meanvar (a1 a') = Some m1 /\ meanvar (a2 a') = Some m2
                  /\ result a' = Some (final_ m1 m2 s1 s2).
  Proof.
    unfold settle. destruct (comp_ s1) as [m1|]; [|discriminate]. destruct (comp_ s2) as [m2|]; [|discriminate].
    intros H. injection H as <-. cbn. repeat split. exists m1, m2. repeat split.
  Qed.

  Lemma run_no_fail a bs1 bs2 l k :
    merge (batches1 bs1) (batches2 bs2) l ->
    ttest_run a l k = settle a (feed (sums (a1 a)) bs1) (feed (sums (a2 a)) bs2).
  Proof.
    intros M. unfold Ttest.ttest_run. rewrite (threads_interleaved k _ _ _ _ _ M).
    unfold pinit, join_compute, settle. cbn [p1 p2 f1 f2].
    destruct (comp_ (feed (sums (a1 a)) bs1)); [|reflexivity].
    destruct (comp_ (feed (sums (a2 a)) bs2)); reflexivity.
  Qed.

  (* ---- interleaving_irrelevant *)
  Theorem interleaving_irrelevant_gen a bs1 bs2 l k :
    merge (batches1 bs1) (batches2 bs2) l ->
    threads k (sums (a1 a)) (sums (a2 a)) l = pinit St (feed (sums (a1 a)) bs1) (feed (sums (a2 a)) bs2)
    /\ forall l' k', merge (batches1 bs1) (batches2 bs2) l' -> ttest_run a l k = ttest_run a l' k'.
  Proof.
    intros M. split; [apply threads_interleaved; exact M|].
    intros l' k' M'. rewrite (run_no_fail a bs1 bs2 l k M), (run_no_fail a bs1 bs2 l' k' M'). reflexivity.
  Qed.

  (* ---- batching_irrelevant *)
  Theorem batching_irrelevant_gen a bs1 bs2 bs1' bs2' l l' k k' :
    concat bs1 = concat bs1' -> concat bs2 = concat bs2' ->
    merge (batches1 bs1) (batches2 bs2) l -> merge (batches1 bs1') (batches2 bs2') l' ->
    ttest_run a l k = ttest_run a l' k'.
  Proof.
    intros E1 E2 M M'. rewrite (run_no_fail _ _ _ _ k M), (run_no_fail _ _ _ _ k' M').
    rewrite (split_eq_oneshot St R zero plus contrib_ plus_assoc plus_zero_r plus_zero_l bs1 bs1' _ E1).
    rewrite (split_eq_oneshot St R zero plus contrib_ plus_assoc plus_zero_r plus_zero_l bs2 bs2' _ E2).
    reflexivity.
  Qed.

  (* ---- runs_concat *)
  Theorem runs_concat_gen (rs : list (runspec R)) : forall a a',
    rs <> [] -> Forall rs_wf rs ->
    ttest_runs a (rs_calls rs) = Done a' ->
    forall l k, merge (batches1 (concat (map rs_b1 rs))) (batches2 (concat (map rs_b2 rs))) l ->
    ttest_run a l k = Done a'.
  Proof.
    induction rs as [|r rs IH]; intros a a' Hne Hwf Hruns l k M; [congruence|].
    inversion Hwf as [|? ? Hr Hrest]; subst.
    cbn [rs_calls map Ttest.ttest_runs] in Hruns.
    rewrite (run_no_fail a (rs_b1 r) (rs_b2 r) (rs_sched r) (rs_delay r) Hr) in Hruns.
    rewrite (run_no_fail a _ _ l k M). cbn [map concat]. rewrite !feed_app.
    destruct (settle a (feed (sums (a1 a)) (rs_b1 r)) (feed (sums (a2 a)) (rs_b2 r))) as [am|am] eqn:E; [|discriminate].
    destruct rs as [|r2 rs'].
    - cbn in Hruns. injection Hruns as <-. cbn [map concat]. unfold Accum.feed at 1 3. cbn [fold_left]. exact E.
    - destruct (settle_done_sums _ _ _ _ E) as (Es1 & Es2 & _).
      assert (Hne' : r2 :: rs' <> []) by discriminate.
      specialize (IH am a' Hne' Hrest Hruns _ 0%nat (merge_app _ _)).
      rewrite (run_no_fail am _ _ _ 0%nat (merge_app _ _)) in IH.
      rewrite Es1, Es2 in IH. exact (settle_done_indep _ a _ _ _ IH).
  Qed.

  (* ---- one thread inside a schedule depends on its own steps only *)
  Lemma thr_step_T2_keeps1 k p s : f1 (thr_step k p (T2, s)) = f1 p /\ p1 (thr_step k p (T2, s)) = p1 p.
  Proof.
    unfold Ttest.thr_step. destruct (f2 p); [split; reflexivity|].
    destruct (fuel2 p) as [[|n]|]; destruct s; split; reflexivity.
  Qed.

  Lemma thread1_alone k l : forall p,
    f1 (exec (thr_step k) p l) = f1 p || existsb is_fail (proj1 l)
    /\ p1 (exec (thr_step k) p l) = if f1 p then p1 p else feed (p1 p) (before_fail (proj1 l)).
  Proof.
    induction l as [|[[|] s] l IH]; intros p.
    - cbn. rewrite orb_false_r. destruct (f1 p); split; reflexivity.
    - (* a step of thread 1 *)
      cbn [exec fold_left]. fold (exec (thr_step k) (thr_step k p (T1, s)) l).
      destruct (IH (thr_step k p (T1, s))) as [IHf IHp]. rewrite IHf, IHp. clear IHf IHp.
      unfold proj1. cbn [filter fst tid_is1 map snd]. fold (proj1 l).
      unfold Ttest.thr_step. destruct (f1 p) eqn:E1.
      + rewrite E1. split; reflexivity.
      + destruct s as [b|]; cbn [f1 p1 existsb is_fail before_fail orb].
        * split; reflexivity.
        * split; reflexivity.
    - (* a step of thread 2 *)
      cbn [exec fold_left]. fold (exec (thr_step k) (thr_step k p (T2, s)) l).
      destruct (IH (thr_step k p (T2, s))) as [IHf IHp]. rewrite IHf, IHp. clear IHf IHp.
      destruct (thr_step_T2_keeps1 k p s) as [-> ->].
      unfold proj1. cbn [filter fst tid_is1]. split; reflexivity.
  Qed.

  Lemma thr_step_T1_keeps2 k p s : s <> Fail \/ f1 p = true ->
    f2 (thr_step k p (T1, s)) = f2 p /\ p2 (thr_step k p (T1, s)) = p2 p /\ fuel2 (thr_step k p (T1, s)) = fuel2 p
    /\ f1 (thr_step k p (T1, s)) = f1 p.
  Proof.
    intros H. unfold Ttest.thr_step. destruct (f1 p) eqn:E; [repeat split; exact E|].
    destruct s as [b|]; [repeat split|].
    destruct H as [H|H]; [congruence|discriminate].
  Qed.

  Lemma thread2_alone k l : forall p,
    existsb is_fail (proj1 l) = false -> f1 p = false -> fuel2 p = None ->
    f2 (exec (thr_step k) p l) = f2 p || existsb is_fail (proj2 l)
    /\ p2 (exec (thr_step k) p l) = (if f2 p then p2 p else feed (p2 p) (before_fail (proj2 l)))
    /\ f1 (exec (thr_step k) p l) = false.
  Proof.
    induction l as [|[[|] s] l IH]; intros p Hnf Hf1 Hfu.
    - cbn. rewrite orb_false_r. destruct (f2 p); repeat split; try reflexivity; exact Hf1.
    - (* a step of thread 1: a batch *)
      unfold proj1 in Hnf. cbn [filter fst tid_is1 map snd existsb] in Hnf. fold (proj1 l) in Hnf.
      apply orb_false_iff in Hnf. destruct Hnf as [Hs Hnf].
      assert (Hs' : s <> Fail) by (intros ->; discriminate).
      destruct (thr_step_T1_keeps2 k p s (or_introl Hs')) as (K2 & Kp & Kfu & K1).
      cbn [exec fold_left]. fold (exec (thr_step k) (thr_step k p (T1, s)) l).
      destruct (IH (thr_step k p (T1, s)) Hnf) as (IHf & IHp & IH1); [congruence|congruence|].
      rewrite IHf, IHp, IH1, K2, Kp.
      unfold proj2. cbn [filter fst tid_is1 negb]. repeat split.
    - (* a step of thread 2 *)
      unfold proj1 in Hnf. cbn [filter fst tid_is1] in Hnf. fold (proj1 l) in Hnf.
      cbn [exec fold_left]. fold (exec (thr_step k) (thr_step k p (T2, s)) l).
      destruct (thr_step_T2_keeps1 k p s) as [K1 _].
      assert (Kfu : fuel2 (thr_step k p (T2, s)) = None).
      { unfold Ttest.thr_step. destruct (f2 p); [exact Hfu|]. rewrite Hfu. destruct s; reflexivity. }
      destruct (IH (thr_step k p (T2, s)) Hnf) as (IHf & IHp & IH1); [congruence|exact Kfu|].
      rewrite IHf, IHp, IH1. clear IHf IHp IH1.
      unfold proj2. cbn [filter fst tid_is1 negb map snd]. fold (proj2 l).
      unfold Ttest.thr_step. destruct (f2 p) eqn:E2.
      + rewrite E2. repeat split.
      + rewrite Hfu. destruct s as [b|]; cbn [f2 p2 option_map existsb is_fail before_fail orb]; repeat split.
  Qed.

  Lemma merge_projections (s1 s2 : list (tstep R)) l :
    merge (tag T1 s1) (tag T2 s2) l -> proj1 l = s1 /\ proj2 l = s2.
  Proof.
    intros M.
    destruct (merge_filter (fun e : tid * tstep R => tid_is1 (fst e)) _ _ _ M) as [E1 E2].
    - intros x Hx. unfold tag in Hx. apply in_map_iff in Hx. destruct Hx as (s & <- & _). reflexivity.
    - intros x Hx. unfold tag in Hx. apply in_map_iff in Hx. destruct Hx as (s & <- & _). reflexivity.
    - unfold proj1, proj2. rewrite E1, E2. unfold tag. rewrite !map_map. cbn [snd]. rewrite !map_id. split; reflexivity.
  Qed.

  Lemma in_fail_existsb (s : list (tstep R)) : In Fail s <-> existsb is_fail s = true.
  Proof.
    rewrite existsb_exists. split.
    - intros H. exists Fail. split; [exact H|reflexivity].
    - intros (x & Hx & Hf). destruct x; [discriminate|exact Hx].
  Qed.

  (* ---- failure_is_raised, with what the accumulators hold afterwards *)
  Theorem failure_is_raised_gen a s1 s2 l k :
    merge (tag T1 s1) (tag T2 s2) l -> In Fail s1 \/ In Fail s2 ->
    exists a', ttest_run a l k = Raised a' /\ result a' = result a
      /\ (In Fail s1 -> sums (a1 a') = feed (sums (a1 a)) (before_fail s1) /\ meanvar (a1 a') = meanvar (a1 a)
                        /\ meanvar (a2 a') = meanvar (a2 a))
      /\ (~ In Fail s1 -> sums (a1 a') = feed (sums (a1 a)) (before_fail s1)
                          /\ sums (a2 a') = feed (sums (a2 a)) (before_fail s2) /\ meanvar (a2 a') = meanvar (a2 a)).
  Proof.
    intros M HF. destruct (merge_projections _ _ _ M) as [P1 P2].
    unfold Ttest.ttest_run, Ttest.threads.
    set (p0 := pinit St (sums (a1 a)) (sums (a2 a))).
    destruct (thread1_alone k l p0) as [T1f T1p]. rewrite P1 in T1f, T1p. cbn [pinit f1 p1 orb] in T1f, T1p.
    destruct (existsb is_fail s1) eqn:E1.
    - (* thread 1 failed: accu_1.join() raises *)
      rewrite T1f. unfold join_compute at 1. eexists. split; [reflexivity|]. cbn [result a1 a2 sums meanvar].
      split; [reflexivity|]. split.
      + intros _. rewrite T1p. repeat split.
      + intros H. exfalso. apply H. apply in_fail_existsb. exact E1.
    - (* thread 1 complete; thread 2 failed *)
      assert (H2 : In Fail s2).
      { destruct HF as [H|H]; [|exact H]. apply in_fail_existsb in H. congruence. }
      apply in_fail_existsb in H2.
      destruct (thread2_alone k l p0) as (T2f & T2p & _); [rewrite P1; exact E1|reflexivity|reflexivity|].
      rewrite P2 in T2f, T2p. cbn [pinit f2 p2 orb] in T2f, T2p. rewrite H2 in T2f.
      rewrite T1f, T2f. unfold join_compute.
      destruct (comp_ (p1 (exec (thr_step k) p0 l))) as [m1|].
      + eexists. split; [reflexivity|]. cbn [result a1 a2 sums meanvar]. split; [reflexivity|]. split.
        * intros H. apply in_fail_existsb in H. congruence.
        * intros _. rewrite T1p, T2p. repeat split.
      + eexists. split; [reflexivity|]. cbn [result a1 a2 sums meanvar]. split; [reflexivity|]. split.
        * intros H. apply in_fail_existsb in H. congruence.
        * intros _. rewrite T1p, T2p. repeat split.
  Qed.
End RunProofs.

(* ================================================================================ the per-sample instance *)
Notation tb1 bs := (tag T1 (map Batch bs)).
Notation tb2 bs := (tag T2 (map Batch bs)).

Definition tt_interleaving_irrelevant :=
  interleaving_irrelevant_gen st Qc mv welch st_zero st_plus contrib comp final.
Definition tt_batching_irrelevant :=
  batching_irrelevant_gen st Qc mv welch st_zero st_plus contrib comp final st_plus_assoc st_plus_zero_r st_plus_zero_l.
Definition tt_runs_concat :=
  runs_concat_gen st Qc mv welch st_zero st_plus contrib comp final.
Definition tt_failure_is_raised :=
  failure_is_raised_gen st Qc mv welch st_zero st_plus contrib comp final.
Definition tt_run_no_fail :=
  run_no_fail st Qc mv welch st_zero st_plus contrib comp final.

Lemma tt_interleaving_irrelevant_thm (a : tt_analysis) bs1 bs2 l k :
  merge (tb1 bs1) (tb2 bs2) l ->
  tt_threads k (sums (a1 a)) (sums (a2 a)) l = pinit st (t_feed (sums (a1 a)) bs1) (t_feed (sums (a2 a)) bs2)
  /\ forall l' k', merge (tb1 bs1) (tb2 bs2) l' -> tt_run a l k = tt_run a l' k'.
Proof. exact (tt_interleaving_irrelevant a bs1 bs2 l k). Qed.

Lemma tt_batching_irrelevant_thm (a : tt_analysis) bs1 bs2 bs1' bs2' l l' k k' :
  concat bs1 = concat bs1' -> concat bs2 = concat bs2' ->
  merge (tb1 bs1) (tb2 bs2) l -> merge (tb1 bs1') (tb2 bs2') l' ->
  tt_run a l k = tt_run a l' k'.
Proof. exact (tt_batching_irrelevant a bs1 bs2 bs1' bs2' l l' k k'). Qed.

Lemma tt_runs_concat_thm (rs : list (runspec Qc)) (a a' : tt_analysis) :
  rs <> [] -> Forall rs_wf rs -> tt_runs a (rs_calls rs) = Done a' ->
  forall l k, merge (tb1 (concat (map rs_b1 rs))) (tb2 (concat (map rs_b2 rs))) l -> tt_run a l k = Done a'.
Proof. exact (tt_runs_concat rs a a'). Qed.

Lemma tt_failure_is_raised_thm (a : tt_analysis) s1 s2 l k :
  merge (tag T1 s1) (tag T2 s2) l -> In Fail s1 \/ In Fail s2 ->
  exists a', tt_run a l k = Raised a' /\ result a' = result a
    /\ (In Fail s1 -> sums (a1 a') = t_feed (sums (a1 a)) (before_fail s1) /\ meanvar (a1 a') = meanvar (a1 a)
                      /\ meanvar (a2 a') = meanvar (a2 a))
    /\ (~ In Fail s1 -> sums (a1 a') = t_feed (sums (a1 a)) (before_fail s1)
                        /\ sums (a2 a') = t_feed (sums (a2 a)) (before_fail s2) /\ meanvar (a2 a') = meanvar (a2 a)).
Proof. exact (tt_failure_is_raised a s1 s2 l k). Qed.

(* ---- a successful run stores the Welch statistic of everything fed since the object was created *)
Lemma comp_upd_nonempty l : l <> [] -> exists m, comp (t_upd st_zero l) = Some m.
Proof. intros H. rewrite t_upd_zero, comp_bsum by exact H. eexists. reflexivity. Qed.

Lemma tt_run_fresh_result bs1 bs2 l k :
  merge (tb1 bs1) (tb2 bs2) l -> concat bs1 <> [] -> concat bs2 <> [] ->
  exists a', tt_run tt_fresh l k = Done a'
    /\ sums (a1 a') = t_upd st_zero (concat bs1) /\ sums (a2 a') = t_upd st_zero (concat bs2)
    /\ result a' = Some (welch_def (concat bs1) (concat bs2)).
Proof.
  intros M H1 H2. unfold tt_run. rewrite (tt_run_no_fail tt_fresh bs1 bs2 l k M).
  cbn [tt_fresh fresh a1 a2 sums].
  change (feed st Qc st_zero st_plus contrib) with t_feed. rewrite !t_feed_concat.
  destruct (comp_upd_nonempty _ H1) as [m1 E1]. destruct (comp_upd_nonempty _ H2) as [m2 E2].
  unfold settle. rewrite E1, E2. eexists. split; [reflexivity|]. cbn [a1 a2 sums result].
  split; [reflexivity|]. split; [reflexivity|].
  f_equal. rewrite <- welch_identity_thm. unfold welch_code. rewrite E1, E2. reflexivity.
Qed.

(* repeated run() calls from a fresh object: every call succeeds when each call brings traces to both sets, and the
   final state is the one of a single run on the concatenated sets: the Welch statistic of all the traces *)
Theorem tt_runs_are_welch (rs : list (runspec Qc)) :
  rs <> [] -> Forall rs_wf rs ->
  Forall (fun r => concat (rs_b1 r) <> [] /\ concat (rs_b2 r) <> []) rs ->
  exists a', tt_runs tt_fresh (rs_calls rs) = Done a'
    /\ sums (a1 a') = t_upd st_zero (concat (concat (map rs_b1 rs)))
    /\ sums (a2 a') = t_upd st_zero (concat (concat (map rs_b2 rs)))
    /\ result a' = Some (welch_def (concat (concat (map rs_b1 rs))) (concat (concat (map rs_b2 rs)))).
Proof.
  intros Hne Hwf Hrows.
  (* first: the runs succeed, from any state whose sums are those of some lists of values *)
  assert (Hok : forall (rs : list (runspec Qc)) (a : tt_analysis) seen1 seen2,
             Forall rs_wf rs -> Forall (fun r => concat (rs_b1 r) <> [] /\ concat (rs_b2 r) <> []) rs ->
             sums (a1 a) = t_upd st_zero seen1 -> sums (a2 a) = t_upd st_zero seen2 ->
             exists a', tt_runs a (rs_calls rs) = Done a').
  { clear. induction rs as [|r rs IH]; intros a seen1 seen2 Hwf Hrows E1 E2.
    - exists a. reflexivity.
    - inversion Hwf as [|? ? Hr Hwf']; subst. inversion Hrows as [|? ? [Hr1 Hr2] Hrows']; subst.
      unfold tt_runs. cbn [rs_calls map ttest_runs]. fold (tt_run a (rs_sched r) (rs_delay r)).
      unfold tt_run. rewrite (tt_run_no_fail a _ _ _ (rs_delay r) Hr).
      change (feed st Qc st_zero st_plus contrib) with t_feed. rewrite !t_feed_concat, E1, E2, <- !t_upd_app.
      destruct (comp_upd_nonempty (seen1 ++ concat (rs_b1 r))) as [m1 C1].
      { intros H. apply app_eq_nil in H. destruct H as [_ H]. exact (Hr1 H). }
      destruct (comp_upd_nonempty (seen2 ++ concat (rs_b2 r))) as [m2 C2].
      { intros H. apply app_eq_nil in H. destruct H as [_ H]. exact (Hr2 H). }
      unfold settle. rewrite C1, C2.
      apply (IH _ (seen1 ++ concat (rs_b1 r)) (seen2 ++ concat (rs_b2 r)) Hwf' Hrows'); reflexivity. }
  destruct (Hok rs tt_fresh [] [] Hwf Hrows) as [a' Ha']; [reflexivity|reflexivity|].
  exists a'. split; [exact Ha'|].
  pose proof (tt_runs_concat_thm rs tt_fresh a' Hne Hwf Ha' _ 0%nat (merge_app _ _)) as Hone.
  assert (N1 : concat (concat (map rs_b1 rs)) <> []).
  { destruct rs as [|r rs']; [congruence|]. inversion Hrows as [|? ? [Hr1 _] _]; subst.
    cbn [map concat]. rewrite concat_app. intros H. apply app_eq_nil in H. destruct H as [H _]. exact (Hr1 H). }
  assert (N2 : concat (concat (map rs_b2 rs)) <> []).
  { destruct rs as [|r rs']; [congruence|]. inversion Hrows as [|? ? [_ Hr2] _]; subst.
    cbn [map concat]. rewrite concat_app. intros H. apply app_eq_nil in H. destruct H as [H _]. exact (Hr2 H). }
  destruct (tt_run_fresh_result _ _ _ 0%nat (merge_app _ _) N1 N2) as (a'' & Hrun & S1 & S2 & Res).
  rewrite Hone in Hrun. injection Hrun as <-. repeat split; assumption.
Qed.

(* ================================================================================ the kernel: prange over samples *)
Local Open Scope nat_scope.
Lemma kernel_iter_fst batch order : map fst (map (kernel_iter batch) order) = order.
Proof. rewrite map_map. cbn [kernel_iter fst]. apply map_id. Qed.

Theorem sample_parallel_irrelevant_thm batch cells order :
  Permutation order (seq 0 (length cells)) ->
  update_core order batch cells = update_core_seq batch cells.
Proof.
  intros P. unfold update_core_seq, update_core. apply cells_perm.
  - rewrite kernel_iter_fst. apply (Permutation_NoDup (Permutation_sym P)). apply seq_NoDup.
  - apply Permutation_map. exact P.
Qed.

(* two workers taking any shares of the iterations, in any own order, interleaved in any way *)
Corollary sample_parallel_merge batch cells o1 o2 o :
  merge o1 o2 o -> Permutation (o1 ++ o2) (seq 0 (length cells)) ->
  update_core o batch cells = update_core_seq batch cells.
Proof.
  intros M P. apply sample_parallel_irrelevant_thm.
  apply Permutation_trans with (l' := o1 ++ o2); [apply Permutation_sym, merge_perm; exact M|exact P].
Qed.

Lemma find_kernel_iter batch j n : forall a, a <= j < a + n ->
  find (fun t : nat * (st -> st) => Nat.eqb (fst t) j) (map (kernel_iter batch) (seq a n)) = Some (kernel_iter batch j).
Proof.
  induction n as [|n IH]; intros a H; [lia|].
  cbn [seq map find kernel_iter fst]. destruct (Nat.eqb a j) eqn:E.
  - apply Nat.eqb_eq in E. subst. reflexivity.
  - apply Nat.eqb_neq in E. apply IH. lia.
Qed.

(* sample j of the kernel's output is the per-sample update of sample j with column j of the batch *)
Theorem kernel_is_per_sample_update batch cells j : j < length cells ->
  nth j (update_core_seq batch cells) st_zero = t_upd (nth j cells st_zero) (bcolumn j batch).
Proof.
  intros H. unfold update_core_seq, update_core.
  rewrite exec_cstep_nth by (rewrite kernel_iter_fst; apply seq_NoDup).
  rewrite (find_kernel_iter batch j (length cells) 0) by lia.
  apply Nat.ltb_lt in H. rewrite H. reflexivity.
Qed.

Lemma update_core_length order batch cells : length (update_core order batch cells) = length cells.
Proof. unfold update_core. apply exec_cstep_length. Qed.

(* ================================================================================ when the statistic is undefined *)
Local Open Scope Qc_scope.

Lemma pvar_over_n_nonneg l : l <> [] -> 0 <= pvar l / qlen l.
Proof.
  intros H. pose proof (qlen_nonzero l H) as Hn. unfold pvar.
  replace (ssd l / qlen l / qlen l) with (ssd l * (/ qlen l * / qlen l)) by (field; exact Hn).
  apply Qc_mul_nonneg; [apply ssd_nonneg|apply Qc_sq_nonneg].
Qed.

Lemma pvar_over_n_zero l : l <> [] -> (pvar l / qlen l = 0 <-> ssd l = 0).
Proof.
  intros H. pose proof (qlen_nonzero l H) as Hn. unfold pvar. split.
  - intros E. replace (ssd l) with (ssd l / qlen l / qlen l * qlen l * qlen l) by (field; exact Hn). rewrite E. ring.
  - intros ->. field. exact Hn.
Qed.

(* the denominator is never negative, and the statistic is undefined exactly when a set is empty or both sets are
   constant (every value equal to the mean) *)
Theorem welch_den_nonneg l1 l2 : l1 <> [] -> l2 <> [] -> 0 <= wden l1 l2.
Proof. intros H1 H2. unfold wden. apply Qc_add_nonneg; apply pvar_over_n_nonneg; assumption. Qed.

Theorem welch_undefined_iff l1 l2 :
  welch_def l1 l2 = None <->
  l1 = [] \/ l2 = [] \/ ((forall x, In x l1 -> x = qmean l1) /\ (forall x, In x l2 -> x = qmean l2)).
Proof.
  destruct l1 as [|x1 r1]; [split; [intros _; left; reflexivity|reflexivity]|].
  destruct l2 as [|x2 r2]; [split; [intros _; right; left; reflexivity|reflexivity]|].
  set (l1 := x1 :: r1). set (l2 := x2 :: r2).
  assert (N1 : l1 <> []) by discriminate. assert (N2 : l2 <> []) by discriminate.
  assert (Hden : wden l1 l2 = 0 <-> ssd l1 = 0 /\ ssd l2 = 0).
  { unfold wden. split.
    - intros E. apply Qc_add_nonneg_zero in E; [|apply pvar_over_n_nonneg; assumption|apply pvar_over_n_nonneg; assumption].
      destruct E as [E1 E2]. split; [apply (pvar_over_n_zero l1 N1); exact E1|apply (pvar_over_n_zero l2 N2); exact E2].
    - intros [E1 E2]. apply (pvar_over_n_zero l1 N1) in E1. apply (pvar_over_n_zero l2 N2) in E2. rewrite E1, E2. ring. }
  change (welch_def l1 l2) with (if qc_eqb (wden l1 l2) 0 then None else Some (wnum l1 l2, wden l1 l2)).
  destruct (qc_eqb (wden l1 l2) 0) eqn:E.
  - apply qc_eqb_true in E. split; [|reflexivity]. intros _. right. right.
    apply Hden in E. destruct E as [E1 E2]. split; apply ssd_zero_iff_constant; assumption.
  - apply qc_eqb_false in E. split; [discriminate|].
    intros [H|[H|[H1 H2]]]; [discriminate|discriminate|].
    exfalso. apply E. apply Hden. split; apply ssd_zero_iff_constant; assumption.
Qed.

(* ================================================================================ run-length encoded sets (large n) *)
Definition qnat (n : nat) : Qc := Q2Qc (inject_Z (Z.of_nat n)).

Lemma qnat_S n : qnat (S n) = qnat n + 1.
Proof.
  unfold qnat, Qcplus. apply Q2Qc_eq_iff. cbn [this Q2Qc]. rewrite Qred_correct.
  rewrite Nat2Z.inj_succ. unfold Z.succ. rewrite inject_Z_plus. reflexivity.
Qed.

Lemma qnat_0 : qnat 0 = 0.
Proof. apply Qc_is_canon. reflexivity. Qed.

Lemma qpos_qnat c : qpos c = qnat (Pos.to_nat c).
Proof. unfold qpos, qnat. rewrite positive_nat_Z. reflexivity. Qed.

Lemma t_bsum_repeat x n : t_bsum (repeat x n) = (qnat n, qnat n * x, qnat n * (x * x)).
Proof.
  rewrite t_bsum_eq. induction n as [|n IH].
  - cbn [repeat map]. rewrite qlen_nil, !qsum_nil, qnat_0. apply triple_eq; ring.
  - cbn [repeat map]. rewrite qlen_cons, !qsum_cons, qnat_S.
    injection IH as E1 E2 E3. rewrite E1, E2, E3. unfold sq. apply triple_eq; ring.
Qed.

Lemma map_repeat' {A B} (f : A -> B) x n : map f (repeat x n) = repeat (f x) n.
Proof. induction n as [|n IH]; cbn; [reflexivity|]. rewrite IH. reflexivity. Qed.

Theorem wst_is_expanded j runs : wst j runs = t_bsum (map (rl_val j) (expand runs)).
Proof.
  induction runs as [|[row c] runs IH]; [reflexivity|].
  unfold expand. cbn [flat_map fst snd]. fold (expand runs).
  rewrite map_app. unfold t_bsum. rewrite (bsum_app st Qc st_zero st_plus contrib st_plus_assoc st_plus_zero_l).
  fold t_bsum. rewrite <- IH. cbn [wst fold_right fst snd]. fold (wst j runs). f_equal.
  rewrite map_repeat', t_bsum_repeat. unfold wcontrib. rewrite qpos_qnat. reflexivity.
Qed.

(* what the large-n check evaluates as the expected result is the definition on the expanded sets *)
Theorem rl_spec_is_the_spec j r1 r2 :
  welch_code (wst j r1) (wst j r2) = welch_def (map (rl_val j) (expand r1)) (map (rl_val j) (expand r2)).
Proof. rewrite !wst_is_expanded, <- !t_upd_zero. apply welch_identity_thm. Qed.
