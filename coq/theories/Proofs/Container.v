(* Proofs/Container.v — lemmas about Model/Container.v (properties C02, C08): the slices cover the set exactly once, in
   order; the batch-size rule gives a batch size >= 1. *)
From Coq Require Import ZArith List Bool Lia PeanoNat.
From ScaredV Require Import Run.Compare Model.Container.
Import ListNotations.
Local Open Scope nat_scope.

(* ---------------------------------------------------------------- the full slices *)
Definition full_slices (bs q : nat) : list pslice := map (fun s => (s * bs, Some ((s + 1) * bs))) (seq 0 q).

Lemma full_concat {A} (xs : list A) bs q :
  concat (map (cut xs) (full_slices bs q)) = firstn (q * bs) xs.
Proof.
  unfold full_slices, pslice. induction q as [|q IH].
  - reflexivity.
  - rewrite seq_S, !map_app, concat_app. unfold pslice in *. rewrite IH. cbn [map concat cut Nat.add]. rewrite app_nil_r.
    replace ((q + 1) * bs) with (S q * bs) by lia.
    rewrite <- (firstn_skipn (q * bs) (firstn (S q * bs) xs)) at 2.
    rewrite firstn_firstn. replace (Nat.min (q * bs) (S q * bs)) with (q * bs) by lia. reflexivity.
Qed.

Lemma full_lengths {A} (xs : list A) bs q :
  q * bs <= length xs -> Forall (fun b => length b = bs) (map (cut xs) (full_slices bs q)).
Proof.
  intros Hq. unfold full_slices. rewrite map_map. apply Forall_forall. intros b Hb.
  apply in_map_iff in Hb. destruct Hb as (s & <- & Hs). apply in_seq in Hs. cbn [cut].
  rewrite skipn_length, firstn_length. nia.
Qed.

Lemma slices_split N bs :
  slices N bs = full_slices bs (N / bs) ++ (if N mod bs =? 0 then [] else [(N / bs * bs, None)]).
Proof. reflexivity. Qed.

Lemma divmod_facts N bs : 1 <= bs -> N = N / bs * bs + N mod bs /\ N mod bs < bs.
Proof.
  intros H. split.
  - rewrite Nat.mul_comm. apply Nat.div_mod. lia.
  - apply Nat.mod_upper_bound. lia.
Qed.

(* every trace exactly once, in order (pairs (samples, metadata) are cut together) *)
Lemma slices_concat {A} (xs : list A) bs : 1 <= bs -> concat (batches_of xs bs) = xs.
Proof.
  intros Hbs. unfold batches_of. rewrite slices_split, map_app, concat_app, full_concat.
  destruct (divmod_facts (length xs) bs Hbs) as [Hdm Hlt].
  destruct (length xs mod bs =? 0) eqn:E.
  - apply Nat.eqb_eq in E. cbn. rewrite app_nil_r. apply firstn_all2. lia.
  - cbn. rewrite app_nil_r. apply firstn_skipn.
Qed.

Lemma ceil_div_eq N bs : 1 <= bs -> ceil_div N bs = N / bs + (if N mod bs =? 0 then 0 else 1).
Proof.
  intros Hbs. unfold ceil_div. destruct (divmod_facts N bs Hbs) as [Hdm Hlt].
  destruct (N mod bs =? 0) eqn:E.
  - apply Nat.eqb_eq in E. symmetry. rewrite Nat.add_0_r.
    apply (Nat.div_unique _ _ _ (bs - 1)); lia.
  - apply Nat.eqb_neq in E. symmetry.
    apply (Nat.div_unique _ _ _ (N mod bs - 1)); lia.
Qed.

Lemma batches_length {A} (xs : list A) bs : 1 <= bs -> length (batches_of xs bs) = ceil_div (length xs) bs.
Proof.
  intros Hbs. rewrite ceil_div_eq by exact Hbs. unfold batches_of.
  rewrite slices_split, map_length, app_length. unfold full_slices. rewrite map_length, seq_length.
  destruct (length xs mod bs =? 0); reflexivity.
Qed.

Lemma batches_split {A} (xs : list A) bs :
  batches_of xs bs = map (cut xs) (full_slices bs (length xs / bs))
                     ++ (if length xs mod bs =? 0 then [] else [skipn (length xs / bs * bs) xs]).
Proof.
  unfold batches_of. rewrite slices_split, map_app. f_equal. destruct (length xs mod bs =? 0); reflexivity.
Qed.

Lemma batches_nonempty {A} (xs : list A) bs : 1 <= bs -> Forall (fun b => b <> []) (batches_of xs bs).
Proof.
  intros Hbs. rewrite batches_split. destruct (divmod_facts (length xs) bs Hbs) as [Hdm Hlt].
  apply Forall_app. split.
  - eapply Forall_impl; [|apply full_lengths; lia]. cbn. intros b Hb ->. cbn in Hb. lia.
  - destruct (length xs mod bs =? 0) eqn:E; [constructor|].
    apply Nat.eqb_neq in E. constructor; [|constructor].
    intros Hnil. apply (f_equal (@length A)) in Hnil. rewrite skipn_length in Hnil. cbn in Hnil. lia.
Qed.

(* all but the last have length bs *)
Lemma batches_all_but_last {A} (xs : list A) bs i :
  1 <= bs -> i + 1 < length (batches_of xs bs) -> length (nth i (batches_of xs bs) []) = bs.
Proof.
  intros Hbs Hi. destruct (divmod_facts (length xs) bs Hbs) as [Hdm Hlt].
  rewrite batches_split in *. rewrite app_length in Hi.
  assert (Hfl : i < length (map (cut xs) (full_slices bs (length xs / bs)))).
  { destruct (length xs mod bs =? 0); cbn [length] in Hi; lia. }
  rewrite app_nth1 by exact Hfl.
  assert (HF := full_lengths xs bs (length xs / bs)). rewrite Forall_forall in HF.
  apply HF; [lia|]. apply nth_In. exact Hfl.
Qed.

(* the last one has length N mod bs when that is not zero *)
Lemma batches_last {A} (xs : list A) bs :
  1 <= bs -> length xs mod bs <> 0 -> length (last (batches_of xs bs) []) = length xs mod bs.
Proof.
  intros Hbs Hr. destruct (divmod_facts (length xs) bs Hbs) as [Hdm Hlt].
  rewrite batches_split. apply Nat.eqb_neq in Hr. rewrite Hr. rewrite last_last, skipn_length. lia.
Qed.

(* when bs divides N every batch has length bs *)
Lemma batches_exact {A} (xs : list A) bs :
  1 <= bs -> length xs mod bs = 0 -> Forall (fun b => length b = bs) (batches_of xs bs).
Proof.
  intros Hbs Hr. destruct (divmod_facts (length xs) bs Hbs) as [Hdm Hlt].
  rewrite batches_split. rewrite Hr. cbn. rewrite app_nil_r. apply full_lengths. lia.
Qed.

Theorem slices_cover_thm : forall (A : Type) (xs : list A) (bs : nat),
  1 <= bs ->
  let bts := batches_of xs bs in
  concat bts = xs
  /\ Forall (fun b => b <> []) bts
  /\ length bts = ceil_div (length xs) bs
  /\ (forall i, i + 1 < length bts -> length (nth i bts []) = bs)
  /\ (length xs mod bs <> 0 -> length (last bts []) = length xs mod bs)
  /\ (length xs mod bs = 0 -> Forall (fun b => length b = bs) bts).
Proof.
  intros A xs bs Hbs. cbv zeta. repeat split.
  - apply slices_concat, Hbs.
  - apply batches_nonempty, Hbs.
  - apply batches_length, Hbs.
  - intros i Hi. apply batches_all_but_last; assumption.
  - intros Hr. apply batches_last; assumption.
  - intros Hr. apply batches_exact; assumption.
Qed.

Lemma firstn_seq' k : forall s len, firstn k (seq s len) = seq s (Nat.min k len).
Proof.
  induction k as [|k IH]; intros s len; [reflexivity|]. destruct len as [|len]; [reflexivity|].
  cbn [seq firstn Nat.min]. rewrite IH. reflexivity.
Qed.

(* the first k batches (k not beyond the full ones) are the first k * bs traces *)
Lemma batches_firstn_concat {A} (xs : list A) bs k :
  1 <= bs -> k <= length xs / bs -> concat (firstn k (batches_of xs bs)) = firstn (k * bs) xs.
Proof.
  intros Hbs Hk. rewrite batches_split. rewrite firstn_app.
  replace (k - length (map (cut xs) (full_slices bs (length xs / bs)))) with 0
    by (unfold full_slices; rewrite !map_length, seq_length; lia).
  cbn [firstn]. rewrite app_nil_r, firstn_map. unfold full_slices at 1. rewrite firstn_map, firstn_seq'.
  replace (Nat.min k (length xs / bs)) with k by lia. apply (full_concat xs bs k).
Qed.

(* a non-empty set gives at least one batch *)
Lemma batches_of_nonnil {A} (xs : list A) bs : 1 <= bs -> xs <> [] -> batches_of xs bs <> [].
Proof.
  intros Hbs Hx Hnil. apply Hx. rewrite <- (slices_concat xs bs Hbs), Hnil. reflexivity.
Qed.

(* ---------------------------------------------------------------- chain order, frame before chain *)
Lemma chain_row_app {X} (c1 c2 : list (X -> X)) x : chain_row (c1 ++ c2) x = chain_row c2 (chain_row c1 x).
Proof. unfold chain_row. apply fold_left_app. Qed.

Lemma chain_row_cons {X} (p : X -> X) c x : chain_row (p :: c) x = chain_row c (p x).
Proof. reflexivity. Qed.

(* ---------------------------------------------------------------- the batch size rule *)
Local Open Scope Z_scope.

Lemma table_rule_in m t v : table_rule m t = Some v -> In v (map snd t).
Proof.
  induction t as [|[th v0] rest IH]; cbn [table_rule]; [discriminate|].
  destruct rest as [|[th' v'] r'].
  - destruct (th <=? m); [|discriminate]. intros H. injection H as <-. left. reflexivity.
  - destruct ((th <=? m) && (m <? th')).
    + intros H. injection H as <-. left. reflexivity.
    + intros H. right. apply IH. exact H.
Qed.

(* a table whose first threshold is not above the size always answers (whatever the order of the other thresholds) *)
Lemma table_rule_some m t : t <> [] -> fst (hd (0, 0) t) <= m -> exists v, table_rule m t = Some v.
Proof.
  induction t as [|[th v0] rest IH]; intros Hne Hth; [contradiction|].
  cbn [hd fst] in Hth. cbn [table_rule]. destruct rest as [|[th' v'] r'].
  - apply Z.leb_le in Hth. rewrite Hth. eauto.
  - destruct (m <? th') eqn:E.
    + apply Z.leb_le in Hth. rewrite Hth. cbn. eauto.
    + replace ((th <=? m) && false) with false by (destruct (th <=? m); reflexivity).
      apply IH; [discriminate|]. cbn. apply Z.ltb_ge in E. exact E.
Qed.

Lemma pow10_le_spec fuel : forall m q,
  0 < m -> m <= q -> q < 10 ^ Z.of_nat fuel * m ->
  let r := pow10_le fuel m q in r <= q < 10 * r /\ exists d, r = m * 10 ^ Z.of_nat d.
Proof.
  induction fuel as [|f IH]; intros m q Hm Hle Hlt; cbn [pow10_le].
  - change (Z.of_nat 0) with 0 in Hlt. rewrite Z.pow_0_r in Hlt. lia.
  - destruct (10 * m <=? q) eqn:E.
    + apply Z.leb_le in E. destruct (IH (10 * m) q) as [Hr (d & Hd)]; [lia|lia| |].
      * rewrite Nat2Z.inj_succ, Z.pow_succ_r in Hlt by lia. lia.
      * split; [exact Hr|]. exists (S d). rewrite Hd, Nat2Z.inj_succ, Z.pow_succ_r by lia. ring.
    + apply Z.leb_gt in E. split; [lia|]. exists 0%nat. cbn. ring.
Qed.

(* "floored to the most significant digit": digit * 10^d with 1 <= digit <= 9, at most q and more than q - 10^d *)
Lemma floor_msd_spec num den :
  1 <= num / den ->
  exists d digit, floor_msd num den = digit * 10 ^ Z.of_nat d /\ 1 <= digit <= 9
                  /\ floor_msd num den <= num / den < floor_msd num den + 10 ^ Z.of_nat d.
Proof.
  intros Hq. unfold floor_msd. set (q := num / den) in *.
  destruct (q <? 1) eqn:E; [apply Z.ltb_lt in E; lia|].
  set (fuel := S (Z.to_nat (Z.log2 q))).
  assert (Hfuel : q < 10 ^ Z.of_nat fuel * 1).
  { unfold fuel. rewrite Nat2Z.inj_succ, Z2Nat.id by apply Z.log2_nonneg. rewrite Z.mul_1_r.
    destruct (Z.log2_spec q) as [_ H2]; [lia|].
    eapply Z.lt_le_trans; [exact H2|]. apply Z.pow_le_mono_l. split; [lia|lia]. }
  destruct (pow10_le_spec fuel 1 q) as [Hr (d & Hd)]; [lia|lia|exact Hfuel|].
  set (mult := pow10_le fuel 1 q) in *. rewrite Z.mul_1_l in Hd.
  assert (Hmp : 0 < mult) by (rewrite Hd; apply Z.pow_pos_nonneg; lia).
  exists d, (q / mult). rewrite <- Hd. split; [reflexivity|].
  assert (Hdm := Z.div_mod q mult ltac:(lia)).
  assert (Hmb := Z.mod_pos_bound q mult Hmp).
  assert (1 <= q / mult) by (apply Z.div_le_lower_bound; lia).
  assert (q / mult < 10) by (apply Z.div_lt_upper_bound; lia).
  split; [lia|]. split; nia.
Qed.

Theorem batch_size_pos_thm : forall (s : bs_setting) (trace_size input_size itemsize : Z),
  match s with
  | BInt n => 0 < n -> batch_size_rule s trace_size input_size itemsize = Some n /\ 1 <= n
  | BMb bytes => 0 < input_size * itemsize ->
                 exists b, batch_size_rule s trace_size input_size itemsize = Some b /\ 10 <= b
  | BTable t => t <> [] -> fst (hd (0, 0) t) <= Z.max trace_size input_size -> Forall (fun e => 1 <= snd e) t ->
                exists b, batch_size_rule s trace_size input_size itemsize = Some b /\ 1 <= b /\ In b (map snd t)
  end.
Proof.
  intros [n|t|bytes] ts isz item; cbn [batch_size_rule].
  - intros Hn. split; [reflexivity|lia].
  - intros Hne Hth Hall. destruct (table_rule_some _ t Hne Hth) as [v Hv]. exists v. split; [exact Hv|].
    assert (Hin := table_rule_in _ _ _ Hv). split; [|exact Hin].
    apply in_map_iff in Hin. destruct Hin as (e & <- & He). rewrite Forall_forall in Hall. apply Hall, He.
  - intros Hpos. destruct (isz * item <=? 0) eqn:E; [apply Z.leb_le in E; lia|].
    eexists. split; [reflexivity|]. lia.
Qed.
