(* Proofs/SelFunStops.v — property C07: the states named by Spec/SelFunTargets.v are stop points of the real cipher
   (through the theorems of C05 / C06 about the impl-models of scared.aes / scared.des encrypt / decrypt). *)
From Coq Require Import NArith ZArith Bool Arith String List Lia.
From ScaredV Require Import Spec.Fips197 Spec.Fips46 Spec.SelFunTargets Model.SelFun.
From ScaredV Require Import Proofs.AesPrims Proofs.AesKeys Proofs.AesCipher Proofs.DesSpec Proofs.DesBits Proofs.Des Proofs.SelFunAes Proofs.SelFunDes.
From ScaredV Require Model.Aes Model.Des.
Import ListNotations.
Open Scope N_scope.

(* ================================================================ the targeted states are stop points of the real cipher
   (through the theorems of C05 / C06 about the impl-models of scared.aes / scared.des encrypt / decrypt) *)
Theorem aes_targets_are_stop_points_pf Nk key inp : In Nk [4; 6; 8]%nat -> Aes.wf_key Nk key -> Aes.wf_block inp ->
  let Nr := Nr_of Nk in
  let S := Cipher_states Nk key inp in
  let I := InvCipher_states Nk key inp in
  Aes.encrypt_m key inp 0 3 = Some (nth 1 S [])
  /\ Aes.encrypt_m key inp 1 0 = Some (nth 2 S [])
  /\ Aes.encrypt_m key inp (Nr - 1) 3 = Some (nth (4 * Nr - 3) S [])
  /\ Aes.encrypt_m key inp Nr 1 = Some (nth (4 * Nr - 1) S [])
  /\ Aes.encrypt_m key inp Nr 3 = Some (last S [])
  /\ Aes.decrypt_m key inp 0 0 = Some (nth 1 I [])
  /\ Aes.decrypt_m key inp 0 3 = Some (nth 3 I [])
  /\ Aes.decrypt_m key inp (Nr - 1) 2 = Some (nth (4 * Nr - 2) I [])
  /\ Aes.decrypt_m key inp (Nr - 1) 3 = Some (nth (4 * Nr - 1) I [])
  /\ Aes.decrypt_m key inp Nr 3 = Some (last I []).
Proof.
  intros HNk Hkey Hinp. cbv zeta.
  assert (HNr : In (Nr_of Nk) [10; 12; 14]%nat) by (destruct HNk as [<-|[<-|[<-|[]]]]; cbn; auto).
  destruct (enc_shape (Nr_of Nk) HNr (round_keys Nk key) inp) as (_ & _ & _ & _ & _ & _ & _ & El).
  destruct (dec_shape (Nr_of Nk) HNr (round_keys Nk key) inp) as (_ & _ & _ & _ & _ & _ & _ & _ & Dl).
  (* the positions of the stop points in the lists of all states (pure arithmetic, three key sizes) *)
  assert (Hidx : Aes.idx_enc (Nr_of Nk) 0 3 = 1%nat /\ Aes.idx_enc (Nr_of Nk) 1 0 = 2%nat
                 /\ Aes.idx_enc (Nr_of Nk) (Nr_of Nk - 1) 3 = (4 * Nr_of Nk - 3)%nat
                 /\ Aes.idx_enc (Nr_of Nk) (Nr_of Nk) 1 = (4 * Nr_of Nk - 1)%nat
                 /\ Aes.idx_enc (Nr_of Nk) (Nr_of Nk) 3 = (4 * Nr_of Nk)%nat
                 /\ Aes.idx_dec (Nr_of Nk) 0 0 = 1%nat /\ Aes.idx_dec (Nr_of Nk) 0 3 = 3%nat
                 /\ Aes.idx_dec (Nr_of Nk) (Nr_of Nk - 1) 2 = (4 * Nr_of Nk - 2)%nat
                 /\ Aes.idx_dec (Nr_of Nk) (Nr_of Nk - 1) 3 = (4 * Nr_of Nk - 1)%nat
                 /\ Aes.idx_dec (Nr_of Nk) (Nr_of Nk) 3 = (4 * Nr_of Nk)%nat)
    by (destruct HNk as [<-|[<-|[<-|[]]]]; vm_compute; repeat split; reflexivity).
  destruct Hidx as (I1 & I2 & I3 & I4 & I5 & J1 & J2 & J3 & J4 & J5).
  assert (Hle : (1 <= Nr_of Nk)%nat) by (unfold Nr_of; lia).
  unfold Cipher_states, InvCipher_states in *. rewrite El, Dl.
  pose proof (encrypt_at_is_fips_pf Nk key inp HNk Hkey Hinp) as HE.
  pose proof (decrypt_at_is_fips_pf Nk key inp HNk Hkey Hinp) as HD.
  unfold Cipher_states, InvCipher_states in HE, HD.
  repeat split.
  - rewrite HE, I1 by lia. reflexivity.
  - rewrite HE, I2 by lia. reflexivity.
  - rewrite HE, I3 by lia. reflexivity.
  - rewrite HE, I4 by lia. reflexivity.
  - rewrite HE, I5 by lia. reflexivity.
  - rewrite HD, J1 by lia. reflexivity.
  - rewrite HD, J2 by lia. reflexivity.
  - rewrite HD, J3 by lia. reflexivity.
  - rewrite HD, J4 by lia. reflexivity.
  - rewrite HD, J5 by lia. reflexivity.
Qed.

Theorem des_targets_are_stop_points_pf ns key inp r s : Des.is_block key -> Des.is_block inp -> (r <= 15)%nat -> (s <= 9)%nat ->
  Des.des_cipher (match ns with NsEncrypt => false | NsDecrypt => true end) 0 r s key inp
  = Some (des_state_at (des_rks ns (des_key_schedule key)) inp r s).
Proof.
  intros Hkey Hinp Hr Hs. pose proof Hkey as [Hl Hb].
  destruct (des_at_is_fips_thm (match ns with NsEncrypt => false | NsDecrypt => true end) 0 r s key inp) as (ks & Hks & Hc);
    try assumption.
  - left. split; [left; exact Hl|exact Hb].
  - unfold Des.n_passes. rewrite Hl. cbn. lia.
  - rewrite Hc. f_equal. unfold schedules_of_key in Hks. rewrite Hl in Hks. cbn [Nat.eqb orb] in Hks.
    change (8 / 8)%nat with 1%nat in Hks. rewrite (chunks1 key Hl) in Hks. injection Hks as <-.
    destruct ns; reflexivity.
Qed.
