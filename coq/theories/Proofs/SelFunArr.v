(* Proofs/SelFunArr.v — property C07: the array algebra of Model/SelFun.v.
   Tabulated arrays (every entry a function of the coordinates) are closed under swapaxes, row primitives and broadcast xor;
   the evaluation of the helper expressions of the selection functions; the words selection of SelectionFunction.__call__
   is the selection on the last axis; guesses subsets. *)
From Coq Require Import NArith ZArith Bool Arith String List Lia.
From ScaredV Require Import Generated.SelFunWiring Spec.SelFunTargets Model.SelFun.
From ScaredV Require Model.Aes Model.Des.
Import ListNotations.
Open Scope N_scope.

(* ---------------------------------------------------------------- lists *)
Lemma nth_map_seq {A} (F : nat -> A) d n k : (k < n)%nat -> nth k (map F (seq 0 n)) d = F k.
Proof.
  intros H. rewrite (nth_indep _ d (F 0%nat)) by (rewrite map_length, seq_length; lia).
  rewrite map_nth, seq_nth by lia. reflexivity.
Qed.

Lemma nth_map_lt {A B} (f : A -> B) l d d' k : (k < length l)%nat -> nth k (map f l) d = f (nth k l d').
Proof. intros H. rewrite (nth_indep _ d (f d')) by (rewrite map_length; lia). apply map_nth. Qed.

Lemma map_nth_seq {A} (d : A) l : map (fun i => nth i l d) (seq 0 (length l)) = l.
Proof.
  induction l as [|a l IH]; [reflexivity|].
  cbn [length seq map nth]. f_equal. rewrite <- seq_shift, map_map. exact IH.
Qed.

Lemma all_some_map_Some {A B} (f : A -> B) l : Aes.all_some (map (fun x => Some (f x)) l) = Some (map f l).
Proof. induction l as [|a l IH]; [reflexivity|]. cbn [map Aes.all_some]. rewrite IH. reflexivity. Qed.

Lemma map2_map_same {A B C D} (F : B -> C -> D) (f : A -> B) (g : A -> C) l :
  Aes.map2 F (map f l) (map g l) = map (fun x => F (f x) (g x)) l.
Proof. induction l as [|a l IH]; [reflexivity|]. cbn [map Aes.map2]. rewrite IH. reflexivity. Qed.

Lemma combine_map_same {A B C} (f : A -> B) (g : A -> C) l : combine (map f l) (map g l) = map (fun x => (f x, g x)) l.
Proof. induction l as [|a l IH]; [reflexivity|]. cbn [map combine]. rewrite IH. reflexivity. Qed.

(* ---------------------------------------------------------------- tabulated arrays *)
Definition tab3 {A B} (h : A -> B -> list N) (xs : list A) (ys : list B) : list (list (list N)) :=
  map (fun x => map (fun y => h x y) ys) xs.

Lemma transpose_tab {A B C} (d : C) (f : A -> B -> C) (xs : list A) (ys : list B) :
  transpose d (length xs) (map (fun y => map (fun x => f x y) xs) ys) = map (fun x => map (fun y => f x y) ys) xs.
Proof.
  destruct xs as [|x0 xs'] eqn:E; [reflexivity|]. rewrite <- E. clear E xs'.
  unfold transpose.
  transitivity (map (fun x => map (fun y => f x y) ys) (map (fun i => nth i xs x0) (seq 0 (length xs)))).
  - rewrite map_map. apply map_ext_in. intros j Hj. apply in_seq in Hj. rewrite map_map.
    apply map_ext. intros y. apply (nth_map_lt (fun x => f x y)). lia.
  - rewrite map_nth_seq. reflexivity.
Qed.

Lemma inner_len_tab {A B C} (g : A -> B -> C) (xs : list A) (ys : list B) :
  xs <> [] -> inner_len (map (fun x => map (fun y => g x y) ys) xs) = length ys.
Proof. destruct xs as [|x xs]; [congruence|]. intros _. cbn. apply map_length. Qed.

Lemma swap01_tab3 {A B} (h : A -> B -> list N) xs ys : xs <> [] ->
  swap_axes 0 1 (T3 (tab3 h xs ys)) = Some (T3 (tab3 (fun y x => h x y) ys xs)).
Proof.
  intros Hx. cbn [swap_axes]. unfold tab3. rewrite inner_len_tab by exact Hx.
  rewrite (transpose_tab [] (fun y x => h x y) ys xs). reflexivity.
Qed.

Section Eval.
  Variable body : sf_body -> list N -> N -> option (list N).
  Variables (data : list (list N)) (guesses : list N).

  Lemma eval_swap01 {A B} e (h : A -> B -> list N) xs ys :
    eval_expr body e data guesses = Some (T3 (tab3 h xs ys)) -> xs <> [] ->
    eval_expr body (SeSwap 0 1 e) data guesses = Some (T3 (tab3 (fun y x => h x y) ys xs)).
  Proof. intros He Hx. cbn [eval_expr]. rewrite He. apply swap01_tab3, Hx. Qed.

  Lemma rows16_tab {A B} (h : A -> B -> list N) xs ys :
    (forall x y, In x xs -> In y ys -> length (h x y) = 16%nat) -> forallb rows16 (tab3 h xs ys) = true.
  Proof.
    intros H. unfold tab3. apply forallb_forall. intros m Hm. apply in_map_iff in Hm. destruct Hm as (x & <- & Hx).
    unfold rows16. apply forallb_forall. intros r Hr. apply in_map_iff in Hr. destruct Hr as (y & <- & Hy).
    apply Nat.eqb_eq, H; assumption.
  Qed.

  Lemma eval_prim3 {A B} p e (h : A -> B -> list N) xs ys :
    eval_expr body e data guesses = Some (T3 (tab3 h xs ys)) ->
    (forall x y, In x xs -> In y ys -> length (h x y) = 16%nat) ->
    eval_expr body (SePrim p e) data guesses = Some (T3 (tab3 (fun x y => prim_row p (h x y)) xs ys)).
  Proof.
    intros He Hl. cbn [eval_expr]. rewrite He. cbn [prim_tens]. rewrite (rows16_tab h xs ys Hl).
    unfold tab3. rewrite map_map. f_equal. f_equal. apply map_ext. intros x. rewrite map_map. reflexivity.
  Qed.

  Lemma eval_prim_data p : Forall (fun d => length d = 16%nat) data ->
    eval_expr body (SePrim p SeData) data guesses = Some (T2 (map (prim_row p) data)).
  Proof.
    intros H. cbn [eval_expr prim_tens].
    replace (rows16 data) with true; [reflexivity|]. symmetry. unfold rows16. apply forallb_forall.
    intros r Hr. rewrite Forall_forall in H. apply Nat.eqb_eq, H, Hr.
  Qed.

  (* xor of a (traces, words) array with a (guesses, traces, words) array tabulated over the same traces *)
  Lemma eval_xor_2_3 {A} ea eb (f : list N -> list N) (h : A -> list N -> list N) (xs : list A) :
    eval_expr body ea data guesses = Some (T2 (map f data)) ->
    eval_expr body eb data guesses = Some (T3 (tab3 h xs data)) ->
    eval_expr body (SeXor ea eb) data guesses = Some (T3 (tab3 (fun x d => Aes.bitwise_xor (f d) (h x d)) xs data)).
  Proof.
    intros Ha Hb. cbn [eval_expr]. rewrite Ha, Hb. cbn [xor_tens]. unfold tab3. rewrite map_map. f_equal. f_equal.
    apply map_ext. intros x. unfold xor_rows. apply map2_map_same.
  Qed.
End Eval.

(* the guess loop: res[i] = body(data, guesses[i]) *)
Lemma eval_loop body data guesses b (h : N -> list N -> list N) :
  (forall g d, In g guesses -> In d data -> body b d g = Some (h g d)) ->
  eval_expr body (SeGuessLoop b) data guesses = Some (T3 (tab3 h guesses data)).
Proof.
  intros H. cbn [eval_expr]. unfold loop_tens, tab3.
  rewrite (map_ext_in _ (fun g => Some (map (fun d => h g d) data))).
  - rewrite all_some_map_Some. reflexivity.
  - intros g Hg. rewrite (map_ext_in _ (fun d => Some (h g d))) by (intros d Hd; apply H; assumption).
    apply all_some_map_Some.
Qed.

(* a tabulated array whose rows are tabulated too is the (traces, guesses, words) array of the property *)
Lemma tab3_full_F (h : list N -> N -> list N) F nW data guesses :
  (forall d g, In d data -> In g guesses -> h d g = map (fun w => F d g w) (seq 0 nW)) ->
  tab3 h data guesses = full_F F nW data guesses.
Proof.
  intros H. unfold tab3, full_F. apply map_ext_in. intros d Hd. apply map_ext_in. intros g Hg. apply H; assumption.
Qed.

Lemma full_F_rect F nW data guesses : rect3 (length data) (length guesses) nW (full_F F nW data guesses).
Proof.
  unfold rect3, full_F. split; [apply map_length|]. apply Forall_forall. intros plane Hp.
  apply in_map_iff in Hp. destruct Hp as (d & <- & _). split; [apply map_length|].
  apply Forall_forall. intros row Hr. apply in_map_iff in Hr. destruct Hr as (g & <- & _).
  rewrite map_length. apply seq_length.
Qed.

(* ---------------------------------------------------------------- guesses subsets *)
Lemma nth_nrange n g d : g < N.of_nat n -> nth (N.to_nat g) (nrange n) d = g.
Proof.
  intros H. unfold nrange. rewrite nth_map_seq by lia. apply N2Nat.id.
Qed.

(* full(x)[:, G positions, :]: the array for a list of guesses is made of the planes of the array for all guesses 0 .. n-1 *)
Theorem guesses_subset_pf F nW n data G : Forall (fun g => g < N.of_nat n) G ->
  full_F F nW data G = select_guesses G (full_F F nW data (nrange n)).
Proof.
  intros HG. unfold select_guesses, full_F. rewrite map_map. apply map_ext. intros d.
  apply map_ext_in. intros g Hg. rewrite Forall_forall in HG. specialize (HG g Hg).
  rewrite (nth_map_lt _ _ _ 0) by (unfold nrange; rewrite map_length, seq_length; lia).
  rewrite nth_nrange by exact HG. reflexivity.
Qed.

(* ---------------------------------------------------------------- the words selection *)
Lemma rect3_plane nT nG nW v t : rect3 nT nG nW v -> (t < nT)%nat ->
  length (nth t v []) = nG /\ Forall (fun row => length row = nW) (nth t v []).
Proof.
  intros [Hl Hf] Ht. rewrite Forall_forall in Hf. apply Hf. apply nth_In. lia.
Qed.

Lemma rect3_row nT nG nW v t j : rect3 nT nG nW v -> (t < nT)%nat -> (j < nG)%nat -> length (nth j (nth t v []) []) = nW.
Proof.
  intros Hr Ht Hj. destruct (rect3_plane _ _ _ _ _ Hr Ht) as [Hl Hf]. rewrite Forall_forall in Hf. apply Hf, nth_In. lia.
Qed.

(* entry of the swapped array *)
Lemma swap02d_entry nT nG nW v p : rect3 nT nG nW v ->
  forall t j, (t < nT)%nat -> (j < nG)%nat -> nth t (nth j (nth p (swap02d nG nW v) []) []) 0 = nth p (nth j (nth t v []) []) 0.
Proof.
  intros Hr t j Ht Hj. unfold swap02d. destruct (Nat.lt_ge_cases p nW) as [Hp|Hp].
  - rewrite nth_map_seq by exact Hp. rewrite nth_map_seq by exact Hj.
    rewrite (nth_map_lt _ _ _ []) by (destruct Hr as [-> _]; exact Ht). reflexivity.
  - rewrite (nth_overflow (map _ (seq 0 nW))) by (rewrite map_length, seq_length; exact Hp).
    destruct j; cbn [nth]; destruct t; cbn [nth];
      symmetry; apply nth_overflow; rewrite (rect3_row _ _ _ _ _ _ Hr) by assumption; exact Hp.
Qed.

Lemma v_expand {C} nT nG nW v (g : list N -> C) : rect3 nT nG nW v ->
  map (map g) v = map (fun t => map (fun j => g (nth j (nth t v []) [])) (seq 0 nG)) (seq 0 nT).
Proof.
  intros Hr. pose proof Hr as [Hl Hf].
  rewrite <- (map_nth_seq [] v) at 1. rewrite Hl, map_map. apply map_ext_in. intros t Ht. apply in_seq in Ht.
  destruct (rect3_plane _ _ _ _ t Hr ltac:(lia)) as [Hp _].
  rewrite <- (map_nth_seq [] (nth t v [])) at 1. rewrite Hp, map_map. reflexivity.
Qed.

Lemma norm_index_lt n i p : norm_index n i = Some p -> (p < n)%nat.
Proof.
  unfold norm_index. intros H.
  destruct ((0 <=? i) && (i <? Z.of_nat n))%Z eqn:E1.
  - inversion H; subst. apply andb_true_iff in E1. destruct E1 as [E1 E2]. apply Z.leb_le in E1. apply Z.ltb_lt in E2. lia.
  - destruct ((- Z.of_nat n <=? i) && (i <? 0))%Z eqn:E2; [|discriminate].
    inversion H; subst. apply andb_true_iff in E2. destruct E2 as [E2 E3]. apply Z.leb_le in E2. apply Z.ltb_lt in E3. lia.
Qed.

(* values.swapaxes(0, -1)[words].swapaxes(0, -1) = values[:, :, words]; an int drops the axis *)
Theorem words_slice_pf nT nG nW w v : rect3 nT nG nW v -> call_words_m nT nG nW w v = select_words nW w v.
Proof.
  intros Hr.
  assert (Hlist : forall ps,
    T3 (swap02d nG nT (map (fun p => nth p (swap02d nG nW v) []) ps)) = T3 (map (map (fun row => map (fun p => nth p row 0) ps)) v)).
  { intros ps. f_equal. rewrite (v_expand nT nG nW v _ Hr). unfold swap02d at 1.
    apply map_ext_in. intros t Ht. apply in_seq in Ht. apply map_ext_in. intros j Hj. apply in_seq in Hj.
    rewrite map_map. apply map_ext. intros p. apply (swap02d_entry nT nG nW v p Hr); lia. }
  destruct w as [|i|l|a b c]; cbn [call_words_m select_words].
  - (* all words: words_positions = seq 0 nW and the selection is the identity *)
    cbn [words_positions option_map]. f_equal. f_equal.
    rewrite (v_expand nT nG nW v _ Hr). pose proof Hr as [Hl _].
    rewrite <- (map_nth_seq [] v) at 1. rewrite Hl. apply map_ext_in. intros t Ht. apply in_seq in Ht.
    destruct (rect3_plane _ _ _ _ t Hr ltac:(lia)) as [Hp _].
    rewrite <- (map_nth_seq [] (nth t v [])) at 1. rewrite Hp. apply map_ext_in. intros j Hj. apply in_seq in Hj.
    rewrite <- (rect3_row nT nG nW v t j Hr) by lia. symmetry. apply map_nth_seq.
  - destruct (norm_index nW i) as [p|] eqn:E; cbn [option_map]; [|reflexivity]. apply norm_index_lt in E.
    f_equal. f_equal.
    rewrite (v_expand nT nG nW v _ Hr). unfold transpose.
    apply map_ext_in. intros t Ht. apply in_seq in Ht.
    assert (Hlen : length (nth p (swap02d nG nW v) []) = nG).
    { unfold swap02d. rewrite nth_map_seq by exact E. rewrite map_length. apply seq_length. }
    rewrite <- (map_nth_seq [] (nth p (swap02d nG nW v) [])) at 1. rewrite Hlen, map_map.
    apply map_ext_in. intros j Hj. apply in_seq in Hj. apply (swap02d_entry nT nG nW v p Hr); lia.
  - destruct (words_positions nW (WList l)) as [ps|]; cbn [option_map]; [f_equal; apply Hlist|reflexivity].
  - destruct (words_positions nW (WSlice a b c)) as [ps|]; cbn [option_map]; [f_equal; apply Hlist|reflexivity].
Qed.

(* ---------------------------------------------------------------- python slicing stays inside the axis *)
Section SliceRange.
Local Open Scope Z_scope.

Definition clampf (len st v : Z) : Z :=
  if v <? 0 then (let v' := v + len in if v' <? 0 then (if st <? 0 then -1 else 0) else v')
  else if len <=? v then (if st <? 0 then len - 1 else len) else v.
Definition s0f (len st : Z) (a : option Z) : Z := match a with Some v => clampf len st v | None => if st <? 0 then len - 1 else 0 end.
Definition e0f (len st : Z) (b : option Z) : Z := match b with Some v => clampf len st v | None => if st <? 0 then -1 else len end.
Definition cntf (st s0 e0 : Z) : Z :=
  if st <? 0 then (if e0 <? s0 then (s0 - e0 - 1) / (- st) + 1 else 0) else (if s0 <? e0 then (e0 - s0 - 1) / st + 1 else 0).

Lemma slice_bounds_eq n a b c :
  slice_bounds n a b c =
  let len := Z.of_nat n in let st := match c with Some s => s | None => 1 end in
  if st =? 0 then None else Some (s0f len st a, st, cntf st (s0f len st a) (e0f len st b)).
Proof. reflexivity. Qed.

Lemma clamp_range len st v : 0 <= len -> st <> 0 ->
  (0 < st -> 0 <= clampf len st v <= len) /\ (st < 0 -> -1 <= clampf len st v <= len - 1).
Proof.
  intros Hl Hs. unfold clampf. cbv zeta.
  destruct (v <? 0) eqn:E1; [destruct (v + len <? 0) eqn:E2|destruct (len <=? v) eqn:E3]; destruct (st <? 0) eqn:E4;
    rewrite ?Z.ltb_lt, ?Z.ltb_ge, ?Z.leb_le, ?Z.leb_gt in *; split; intros; lia.
Qed.

Lemma cnt_range st s0 e0 k : st <> 0 -> 0 <= k < cntf st s0 e0 ->
  (0 < st -> s0 <= s0 + k * st <= e0 - 1) /\ (st < 0 -> e0 + 1 <= s0 + k * st <= s0).
Proof.
  intros Hs Hk. unfold cntf in Hk.
  destruct (st <? 0) eqn:E; rewrite ?Z.ltb_lt, ?Z.ltb_ge in E.
  - destruct (e0 <? s0) eqn:E2; rewrite ?Z.ltb_lt, ?Z.ltb_ge in E2; [|lia].
    assert (Hd : 0 < - st) by lia.
    pose proof (Z.mul_div_le (s0 - e0 - 1) (- st) Hd) as Hm.
    assert (Hkz : k <= (s0 - e0 - 1) / - st) by lia.
    split; intros; [lia|]. nia.
  - destruct (s0 <? e0) eqn:E2; rewrite ?Z.ltb_lt, ?Z.ltb_ge in E2; [|lia].
    assert (Hd : 0 < st) by lia.
    pose proof (Z.mul_div_le (e0 - s0 - 1) st Hd) as Hm.
    assert (Hkz : k <= (e0 - s0 - 1) / st) by lia.
    split; intros; [|lia]. nia.
Qed.

(* python slicing selects positions of the axis only: the selection never reads outside the array *)
Theorem slice_positions_in_range n a b c ps : slice_positions n a b c = Some ps -> Forall (fun p => (p < n)%nat) ps.
Proof.
  unfold slice_positions. rewrite slice_bounds_eq. cbv zeta.
  set (len := Z.of_nat n). set (st := match c with Some s => s | None => 1 end).
  destruct (st =? 0) eqn:Est; [discriminate|]. apply Z.eqb_neq in Est.
  assert (Hlen : 0 <= len) by (unfold len; lia).
  assert (Hs0 : (0 < st -> 0 <= s0f len st a <= len) /\ (st < 0 -> -1 <= s0f len st a <= len - 1)).
  { unfold s0f. destruct a as [v|]; [apply (clamp_range len st v Hlen Est)|].
    destruct (st <? 0) eqn:E; rewrite ?Z.ltb_lt, ?Z.ltb_ge in E; split; intros; lia. }
  assert (He0 : (0 < st -> 0 <= e0f len st b <= len) /\ (st < 0 -> -1 <= e0f len st b <= len - 1)).
  { unfold e0f. destruct b as [v|]; [apply (clamp_range len st v Hlen Est)|].
    destruct (st <? 0) eqn:E; rewrite ?Z.ltb_lt, ?Z.ltb_ge in E; split; intros; lia. }
  intros H. injection H as <-. apply Forall_forall. intros p Hp. apply in_map_iff in Hp. destruct Hp as (k & <- & Hk).
  apply in_seq in Hk. destruct Hk as [_ Hk]. cbn [plus] in Hk.
  assert (Hkz : 0 <= Z.of_nat k < cntf st (s0f len st a) (e0f len st b)) by lia.
  destruct (cnt_range st _ _ _ Est Hkz) as [Hp Hn].
  assert (Hb : 0 <= s0f len st a + Z.of_nat k * st <= len - 1) by (destruct (Z.lt_trichotomy st 0) as [H|[H|H]]; lia).
  unfold len in Hb. lia.
Qed.

End SliceRange.

Lemma all_some_forall {A} (P : A -> Prop) : forall (l : list (option A)) r,
  Aes.all_some l = Some r -> (forall x y, In x l -> x = Some y -> P y) -> Forall P r.
Proof.
  induction l as [|[a|] l IH]; intros r H HP; cbn [Aes.all_some] in H; try discriminate.
  - injection H as <-. constructor.
  - destruct (Aes.all_some l) as [r'|] eqn:E; [|discriminate]. injection H as <-.
    constructor; [apply (HP (Some a)); [left|]; reflexivity|]. apply IH; [reflexivity|]. intros x y Hx. apply HP. right. exact Hx.
Qed.

(* whatever the form of `words`, an accepted selection names positions of the words axis: nothing is read through a default *)
Theorem words_positions_in_range n w ps : words_positions n w = Some ps -> Forall (fun p => (p < n)%nat) ps.
Proof.
  destruct w as [|i|l|a b c]; cbn [words_positions]; intros H.
  - injection H as <-. apply Forall_forall. intros p Hp. apply in_seq in Hp. lia.
  - destruct (norm_index n i) as [p|] eqn:E; [|discriminate]. injection H as <-. constructor; [|constructor].
    apply (norm_index_lt n i p E).
  - apply (all_some_forall _ _ _ H). intros x y Hx ->. apply in_map_iff in Hx. destruct Hx as (i & Hi & _).
    apply (norm_index_lt n i y Hi).
  - apply (slice_positions_in_range n a b c ps H).
Qed.

(* ---------------------------------------------------------------- run-length encoded batches (count boundaries) *)
Lemma map_repeat' {A B} (f : A -> B) x n : map f (repeat x n) = repeat (f x) n.
Proof. induction n as [|n IH]; [reflexivity|]. cbn [repeat map]. rewrite IH. reflexivity. Qed.

Lemma map_expand {A B} (f : A -> B) d rows runs : runs_ok (length rows) runs = true ->
  map f (expand d rows runs) = expand (f d) (map f rows) runs.
Proof.
  intros H. unfold expand. induction runs as [|r runs IH]; [reflexivity|].
  cbn [runs_ok forallb] in H. apply andb_true_iff in H. destruct H as [H1 H2]. apply Nat.ltb_lt in H1.
  cbn [flat_map]. rewrite map_app, IH by exact H2. f_equal.
  rewrite map_repeat'. f_equal. symmetry. apply (nth_map_lt f rows (f d) d), H1.
Qed.

Lemma expand_default {A} (d d' : A) rows runs : runs_ok (length rows) runs = true -> expand d rows runs = expand d' rows runs.
Proof.
  intros H. unfold expand. induction runs as [|r runs IH]; [reflexivity|].
  cbn [runs_ok forallb] in H. apply andb_true_iff in H. destruct H as [H1 H2]. apply Nat.ltb_lt in H1.
  cbn [flat_map]. rewrite IH by exact H2. f_equal. f_equal. apply nth_indep, H1.
Qed.

(* the array of a batch given by runs of repeated rows is the array of the distinct rows, expanded along the same runs;
   so is its words selection: F is applied per distinct row *)
Theorem full_F_expand F nW rows runs G : runs_ok (length rows) runs = true ->
  full_F F nW (expand [] rows runs) G = expand [] (full_F F nW rows G) runs.
Proof.
  intros H. unfold full_F at 1. rewrite (map_expand _ [] rows runs H). apply expand_default.
  unfold full_F. rewrite map_length. exact H.
Qed.

Theorem select_words_expand nW w v runs : runs_ok (length v) runs = true ->
  select_words nW w (expand [] v runs) = option_map (fun t => expand_tens t runs) (select_words nW w v).
Proof.
  intros H.
  assert (H3 : forall ps, map (map (fun row : list N => map (fun p => nth p row 0) ps)) (expand [] v runs)
                          = expand [] (map (map (fun row : list N => map (fun p => nth p row 0) ps)) v) runs).
  { intros ps. rewrite (map_expand _ [] v runs H). reflexivity. }
  destruct w as [|i|l|a b c]; cbn [select_words].
  - destruct (words_positions nW WAll); cbn [option_map expand_tens]; [rewrite H3|]; reflexivity.
  - destruct (norm_index nW i); cbn [option_map expand_tens]; [|reflexivity].
    rewrite (map_expand _ [] v runs H). reflexivity.
  - destruct (words_positions nW (WList l)); cbn [option_map expand_tens]; [rewrite H3|]; reflexivity.
  - destruct (words_positions nW (WSlice a b c)); cbn [option_map expand_tens]; [rewrite H3|]; reflexivity.
Qed.

Theorem batches_of_repeated_rows_pf F nW w rows runs G : runs_ok (length rows) runs = true ->
  select_words nW w (full_F F nW (expand [] rows runs) G)
  = option_map (fun t => expand_tens t runs) (select_words nW w (full_F F nW rows G)).
Proof.
  intros H. rewrite (full_F_expand F nW rows runs G H).
  apply select_words_expand. unfold full_F. rewrite map_length. exact H.
Qed.
