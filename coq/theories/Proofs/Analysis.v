(* Proofs/Analysis.v — lemmas about Model/Analysis.v (properties C02 and C08): run() equals the one-shot accumulation
   whatever the batch size; the convergence bookkeeping of BaseAttack.  Everything is generic in the accumulator
   (monoid laws as Section hypotheses, exactly those of Model/Accum.v), the selection function, the model, the frames,
   the preprocess chains and the discriminant. *)
From Coq Require Import ZArith List Bool Lia PeanoNat Sorted.
From ScaredV Require Import Run.Compare Model.Accum Model.Container Model.Analysis Proofs.Container.
Import ListNotations.
Local Open Scope nat_scope.

(* ---------------------------------------------------------------- lists *)
Lemma sorted_snoc l x : StronglySorted lt l -> Forall (fun y => y < x) l -> StronglySorted lt (l ++ [x]).
Proof.
  induction l as [|a l IH]; intros Hs Hf; cbn.
  - constructor; constructor.
  - inversion Hs as [|? ? Hs' Ha]; subst. inversion Hf as [|? ? Hax Hf']; subst.
    constructor; [apply IH; assumption|]. apply Forall_app. split; [assumption|]. constructor; [assumption|constructor].
Qed.

Lemma prefix_ext {A B} (f : list A -> B) (seen more : list A) pts :
  Forall (fun p => p <= length seen) pts ->
  map (fun p => f (firstn p (seen ++ more))) pts = map (fun p => f (firstn p seen)) pts.
Proof.
  intros H. apply map_ext_in. intros p Hp. rewrite Forall_forall in H. specialize (H p Hp).
  rewrite firstn_app. replace (p - length seen) with 0 by lia. cbn. rewrite app_nil_r. reflexivity.
Qed.

(* ---------------------------------------------------------------- Regular points are at least k apart *)
Fixpoint spaced_from (k prev : nat) (l : list (nat * ckind)) : Prop :=
  match l with
  | [] => True
  | (p, Regular) :: t => prev + k <= p /\ spaced_from k p t
  | (_, Remainder) :: t => spaced_from k prev t
  end.

Lemma last_regular_from_app d l1 l2 :
  last_regular_from d (l1 ++ l2) = last_regular_from (last_regular_from d l1) l2.
Proof. unfold last_regular_from. apply fold_left_app. Qed.

Lemma spaced_from_snoc_reg k l : forall d p,
  spaced_from k d l -> last_regular_from d l + k <= p -> spaced_from k d (l ++ [(p, Regular)]).
Proof.
  induction l as [|[p0 [|]] l IH]; intros d p Hs Hl; cbn in *.
  - split; [exact Hl|exact I].
  - destruct Hs as [H1 H2]. split; [exact H1|]. apply IH; assumption.
  - apply IH; assumption.
Qed.

Lemma spaced_from_snoc_rem k l : forall d p, spaced_from k d l -> spaced_from k d (l ++ [(p, Remainder)]).
Proof.
  induction l as [|[p0 [|]] l IH]; intros d p Hs; cbn in *.
  - exact I.
  - destruct Hs as [H1 H2]. split; [exact H1|]. apply IH; assumption.
  - apply IH; assumption.
Qed.

Lemma spaced_from_split k l1 : forall d p l2,
  spaced_from k d (l1 ++ (p, Regular) :: l2) -> last_regular_from d l1 + k <= p.
Proof.
  induction l1 as [|[p0 [|]] l1 IH]; intros d p l2 Hs; cbn in *.
  - destruct Hs as [H1 _]. exact H1.
  - destruct Hs as [_ H2]. apply (IH _ _ _ H2).
  - apply (IH _ _ _ Hs).
Qed.

(* ---------------------------------------------------------------- the derived batch size *)
Lemma conv_bs_bounds_lem base k : 1 <= base -> 1 <= k -> 1 <= conv_bs base k <= k /\ Nat.min base k <= conv_bs base k.
Proof.
  intros Hb Hk. unfold conv_bs. destruct (k <=? base) eqn:E.
  - apply Nat.leb_le in E. lia.
  - apply Nat.leb_gt in E.
    assert (Hd : 1 <= k / base) by (apply Nat.div_str_pos; lia).
    assert (Hd2 : k / base * base <= k) by (rewrite Nat.mul_comm; apply Nat.mul_div_le; lia).
    assert (H1 : 1 <= k / (k / base)) by (apply Nat.div_str_pos; nia).
    assert (H2 : k / (k / base) <= k) by (apply Nat.div_le_upper_bound; nia).
    assert (H3 : base <= k / (k / base)) by (apply Nat.div_le_lower_bound; nia).
    lia.
Qed.

Definition step_ok (cs : option nat) : Prop := match cs with Some k => 1 <= k | None => True end.

Lemma eff_bs_pos cs base : step_ok cs -> 1 <= base -> 1 <= eff_bs cs base.
Proof.
  destruct cs as [k|]; cbn; intros Hs Hb; [|exact Hb]. apply conv_bs_bounds_lem; assumption.
Qed.

Section AnalysisProofs.
  Variables (X M V D St O Sc : Type).
  Variable zero : St.
  Variable plus : St -> St -> St.
  Variable contrib : X * D -> St.
  Variable comp : St -> O.
  Hypothesis plus_assoc : forall a b c, plus a (plus b c) = plus (plus a b) c.
  Hypothesis plus_zero_r : forall a, plus a zero = a.
  Hypothesis plus_zero_l : forall a, plus zero a = a.
  Variable sf : M -> V.
  Variable model : V -> D.
  Variable disc : O -> Sc.

  Notation upd := (upd St (X * D) zero plus contrib).
  Notation ast := (ast St O Sc).
  Notation fresh := (fresh St O Sc zero).
  Notation rows_sub := (rows_sub X M V D sf model).
  Notation rows_of := (rows_of X M V D sf model).
  Notation all_rows := (all_rows X M V D sf model).
  Notation fed_rows := (fed_rows X M V D sf model).
  Notation process := (process X M V D St O Sc zero plus contrib sf model).
  Notation compute_results := (compute_results St O Sc comp disc).
  Notation append_col := (append_col St O Sc).
  Notation set_marks := (set_marks St O Sc).
  Notation blc := (batch_loop_compute St O Sc comp disc).
  Notation final_compute := (final_compute St O Sc comp disc).
  Notation run_batches := (run_batches X M V D St O Sc zero plus contrib comp sf model disc).
  Notation run := (run X M V D St O Sc zero plus contrib comp sf model disc).
  Notation run_seq := (run_seq X M V D St O Sc zero plus contrib comp sf model disc).
  Notation container := (container X M).

  Definition points (st : ast) : list nat := map fst (cols st).
  Definition score_of (rows : list (X * D)) : Sc := disc (comp (upd zero rows)).
  Definition ok_container (c : container) : Prop := c_rows c <> [] /\ 1 <= c_bs c.

  Lemma upd_app' s a b : upd s (a ++ b) = upd (upd s a) b.
  Proof. apply upd_app. exact plus_assoc. exact plus_zero_l. Qed.
  Lemma upd_nil' s : upd s [] = s.
  Proof. apply upd_nil. exact plus_zero_r. Qed.

  (* ---------------------------------------------------------------- what update() receives = the rows of the sub-set *)
  Lemma fed_rows_eq c sub : fed_rows c sub = rows_sub c sub.
  Proof.
    unfold Analysis.fed_rows, Analysis.rows_sub, data_of, wrapper_samples, wrapper_metadatas.
    induction sub as [|r sub IH]; cbn; [reflexivity|]. rewrite IH. reflexivity.
  Qed.

  Lemma rows_sub_app c a b : rows_sub c (a ++ b) = rows_sub c a ++ rows_sub c b.
  Proof. apply map_app. Qed.
  Lemma rows_sub_length c a : length (rows_sub c a) = length a.
  Proof. apply map_length. Qed.
  Lemma rows_of_length c : length (rows_of c) = length (c_rows c).
  Proof. apply map_length. Qed.
  Lemma rows_sub_concat c subs : concat (map (rows_sub c) subs) = rows_sub c (concat subs).
  Proof. unfold Analysis.rows_sub. rewrite concat_map. reflexivity. Qed.

  Lemma all_rows_snoc runs c : all_rows (runs ++ [c]) = all_rows runs ++ rows_of c.
  Proof. unfold Analysis.all_rows. rewrite map_app, concat_app. cbn. rewrite app_nil_r. reflexivity. Qed.

  Lemma run_seq_snoc cs st runs c : run_seq cs st (runs ++ [c]) = run cs (run_seq cs st runs) c.
  Proof. unfold Analysis.run_seq. rewrite fold_left_app. reflexivity. Qed.

  (* ---------------------------------------------------------------- field evolution *)
  Lemma process_fields c st sub :
    acc (process c st sub) = upd (acc st) (rows_sub c sub)
    /\ processed (process c st sub) = processed st + length sub
    /\ results (process c st sub) = results st /\ scores (process c st sub) = scores st
    /\ marks (process c st sub) = marks st /\ conv (process c st sub) = conv st /\ cols (process c st sub) = cols st.
  Proof.
    unfold Analysis.process. cbn [acc processed results scores marks conv cols].
    rewrite fed_rows_eq. unfold wrapper_samples. rewrite map_length. repeat split; reflexivity.
  Qed.

  Lemma append_col_keeps kd st :
    acc (append_col kd st) = acc st /\ processed (append_col kd st) = processed st
    /\ results (append_col kd st) = results st /\ scores (append_col kd st) = scores st
    /\ marks (append_col kd st) = marks st.
  Proof. unfold Analysis.append_col. destruct (scores st) eqn:E; repeat split; try reflexivity. exact E. Qed.

  Lemma blc_keeps cs st : acc (blc cs st) = acc st /\ processed (blc cs st) = processed st.
  Proof.
    unfold batch_loop_compute. destruct cs as [k|]; [|split; reflexivity].
    cbv zeta. destruct (k <=? _).
    - destruct (append_col_keeps Regular (compute_results (set_marks [last (marks st ++ [processed st]) 0] st)))
        as (Ha & Hp & _). rewrite Ha, Hp. split; reflexivity.
    - split; reflexivity.
  Qed.

  (* scores = discriminant(results), always *)
  Definition SD (st : ast) : Prop := scores st = option_map disc (results st).

  Lemma SD_append kd st : SD st -> SD (append_col kd st).
  Proof. unfold SD. destruct (append_col_keeps kd st) as (_ & _ & Hr & Hs & _). rewrite Hr, Hs. auto. Qed.
  Lemma SD_compute st : SD (compute_results st).
  Proof. reflexivity. Qed.
  Lemma SD_blc cs st : SD st -> SD (blc cs st).
  Proof.
    intros H. unfold batch_loop_compute. destruct cs as [k|]; [|exact H]. cbv zeta. destruct (k <=? _).
    - apply SD_append, SD_compute.
    - exact H.
  Qed.
  Lemma SD_final cs st : SD (final_compute cs st).
  Proof.
    unfold Analysis.final_compute. cbv zeta. destruct cs as [k|]; [|apply SD_compute].
    destruct (1 <? _); [apply SD_append|]; apply SD_compute.
  Qed.
  Lemma SD_run_seq cs runs : forall st, SD st -> SD (run_seq cs st runs).
  Proof.
    induction runs as [|c runs IH] using rev_ind; intros st H; [exact H|].
    rewrite run_seq_snoc. apply SD_final.
  Qed.

  Lemma final_fields cs st :
    let st' := final_compute cs st in
    acc st' = acc st /\ processed st' = processed st
    /\ results st' = Some (comp (acc st)) /\ scores st' = Some (disc (comp (acc st))).
  Proof.
    unfold Analysis.final_compute. cbv zeta.
    assert (Hc : acc (compute_results st) = acc st /\ processed (compute_results st) = processed st
                 /\ results (compute_results st) = Some (comp (acc st))
                 /\ scores (compute_results st) = Some (disc (comp (acc st)))) by (repeat split; reflexivity).
    destruct cs as [k|]; [|exact Hc]. destruct (1 <? _); [|exact Hc].
    destruct (append_col_keeps Remainder (compute_results st)) as (Ha & Hp & Hr & Hs & _).
    rewrite Ha, Hp, Hr, Hs. exact Hc.
  Qed.

  (* ---------------------------------------------------------------- run() = one-shot accumulation (any batch size) *)
  Lemma fold_acc cs c subs : forall st,
    let st' := fold_left (fun s sub => blc cs (process c s sub)) subs st in
    acc st' = upd (acc st) (rows_sub c (concat subs)) /\ processed st' = processed st + length (concat subs).
  Proof.
    induction subs as [|sub subs IH]; intros st; cbn [fold_left concat].
    - cbn. rewrite upd_nil'. split; [reflexivity|lia].
    - cbv zeta in IH. destruct (IH (blc cs (process c st sub))) as [Ha Hp]. rewrite Ha, Hp.
      destruct (blc_keeps cs (process c st sub)) as [Ha2 Hp2]. rewrite Ha2, Hp2.
      destruct (process_fields c st sub) as (Ha3 & Hp3 & _). rewrite Ha3, Hp3.
      rewrite rows_sub_app, upd_app', app_length. split; [reflexivity|lia].
  Qed.

  Lemma run_fields cs st c :
    1 <= eff_bs cs (c_bs c) ->
    let st' := run cs st c in
    acc st' = upd (acc st) (rows_of c) /\ processed st' = processed st + length (c_rows c)
    /\ results st' = Some (comp (upd (acc st) (rows_of c)))
    /\ scores st' = Some (disc (comp (upd (acc st) (rows_of c)))).
  Proof.
    intros Hbs. unfold Analysis.run, Analysis.run_batches. cbv zeta.
    set (st1 := fold_left _ _ st).
    destruct (final_fields cs st1) as (Ha & Hp & Hr & Hs). cbv zeta in *.
    destruct (fold_acc cs c (batches_of (c_rows c) (eff_bs cs (c_bs c))) st) as [Ha1 Hp1]. cbv zeta in *.
    fold st1 in Ha1, Hp1. rewrite slices_concat in Ha1, Hp1 by exact Hbs.
    rewrite Ha, Hp, Hr, Hs, Ha1, Hp1. repeat split; reflexivity.
  Qed.

  Lemma run_seq_fields cs runs : forall st,
    step_ok cs -> Forall (fun c => 1 <= c_bs c) runs ->
    let st' := run_seq cs st runs in
    acc st' = upd (acc st) (all_rows runs)
    /\ processed st' = processed st + length (all_rows runs)
    /\ (runs <> [] -> results st' = Some (comp (upd (acc st) (all_rows runs)))
                      /\ scores st' = Some (disc (comp (upd (acc st) (all_rows runs))))).
  Proof.
    induction runs as [|c runs IH] using rev_ind; intros st Hs Hall; cbv zeta.
    - cbn. rewrite upd_nil'. repeat split; [lia|contradiction|contradiction].
    - apply Forall_app in Hall. destruct Hall as [Hall Hc]. inversion Hc as [|? ? Hcb _]; subst.
      destruct (IH st Hs Hall) as (Ha & Hp & _). cbv zeta in *.
      rewrite run_seq_snoc, all_rows_snoc.
      destruct (run_fields cs (run_seq cs st runs) c (eff_bs_pos cs _ Hs Hcb)) as (Ha2 & Hp2 & Hr2 & Hs2).
      cbv zeta in *. rewrite Ha2, Hp2, Hr2, Hs2, Ha, Hp, upd_app', app_length.
      rewrite rows_of_length. repeat split; lia.
  Qed.

  (* ---------------------------------------------------------------- convergence bookkeeping: the invariant *)
  Record Inv (k : nat) (seen : list (X * D)) (st : ast) : Prop := {
    I_acc : acc st = upd zero seen;
    I_proc : processed st = length seen;
    I_marks : exists rest, marks st = last_regular (cols st) :: rest;
    I_m0 : last_regular (cols st) <= processed st;
    I_sorted : StronglySorted lt (points st);
    I_le : Forall (fun p => p <= processed st) (points st);
    I_spaced : spaced_from k 0 (cols st);
    I_conv : conv st = map (fun p => score_of (firstn p seen)) (points st)
  }.

  (* after process(batch) on a non-empty batch: every earlier point is strictly below processed_traces *)
  Record Pre (k : nat) (seen : list (X * D)) (st : ast) : Prop := {
    P_acc : acc st = upd zero seen;
    P_proc : processed st = length seen;
    P_marks : exists rest, marks st = last_regular (cols st) :: rest;
    P_sorted : StronglySorted lt (points st);
    P_lt : Forall (fun p => p < processed st) (points st);
    P_m0 : last_regular (cols st) <= processed st;
    P_spaced : spaced_from k 0 (cols st);
    P_conv : conv st = map (fun p => score_of (firstn p seen)) (points st)
  }.

  (* after at least one batch of the current run *)
  Definition Mid (st : ast) : Prop :=
    (length (marks st) <= 1 -> cols st <> [] /\ last (points st) 0 = processed st)
    /\ (1 < length (marks st) -> Forall (fun p => p < processed st) (points st)).

  (* after _final_compute of a run on a non-empty container *)
  Definition Done (st : ast) : Prop :=
    cols st <> [] /\ last (points st) 0 = processed st
    /\ results st = Some (comp (acc st)) /\ scores st = Some (disc (comp (acc st))).

  Lemma Inv_fresh k : Inv k [] fresh.
  Proof.
    constructor; cbn.
    - symmetry. apply upd_nil'.
    - reflexivity.
    - exists []. reflexivity.
    - unfold last_regular. cbn. lia.
    - constructor.
    - constructor.
    - exact I.
    - reflexivity.
  Qed.

  Lemma process_pre k seen st c sub :
    Inv k seen st -> sub <> [] -> Pre k (seen ++ rows_sub c sub) (process c st sub).
  Proof.
    intros [Ha Hp Hm Hm0 Hs Hle Hsp Hc] Hsub.
    destruct (process_fields c st sub) as (Fa & Fp & _ & _ & Fm & Fcv & Fcl).
    assert (Hlen : 0 < length sub) by (destruct sub; [contradiction|cbn; lia]).
    constructor; unfold points in *; rewrite ?Fa, ?Fp, ?Fm, ?Fcv, ?Fcl.
    - rewrite Ha. symmetry. apply upd_app'.
    - rewrite app_length, rows_sub_length. lia.
    - exact Hm.
    - exact Hs.
    - eapply Forall_impl; [|exact Hle]. cbn. intros p Hpp. lia.
    - lia.
    - exact Hsp.
    - rewrite Hc. symmetry. apply prefix_ext. rewrite <- Hp. exact Hle.
  Qed.

  Lemma last_map_snoc {A B} (f : A -> B) l x d : last (map f (l ++ [x])) d = f x.
  Proof. rewrite map_app. cbn. apply last_last. Qed.

  Lemma blc_step k seen st :
    1 <= k -> Pre k seen st ->
    let st' := blc (Some k) st in
    Inv k seen st' /\ Mid st'
    /\ exists regs, cols st' = cols st ++ regs /\ Forall (fun e => snd e = Regular) regs.
  Proof.
    intros Hk [Ha Hp (rest & Hm) Hs Hlt Hm0 Hsp Hc].
    destruct st as [a p r s m cv cl cp]. cbn [acc processed results scores marks conv cols computes] in *.
    unfold points in *. cbn [cols] in *. subst a m.
    unfold batch_loop_compute. cbv zeta. cbn [marks processed].
    rewrite last_last. cbn [app hd].
    destruct (k <=? p - last_regular cl) eqn:E.
    - apply Nat.leb_le in E.
      unfold Analysis.append_col, Analysis.compute_results, Analysis.set_marks.
      cbn [acc processed results scores marks conv cols computes].
      split; [|split].
      + constructor; unfold points; cbn [acc processed results scores marks conv cols computes].
        * reflexivity.
        * exact Hp.
        * exists []. unfold last_regular. rewrite last_regular_from_app. reflexivity.
        * unfold last_regular. rewrite last_regular_from_app. cbn. lia.
        * rewrite map_app. cbn. apply sorted_snoc; assumption.
        * rewrite map_app. cbn. apply Forall_app. split.
          -- eapply Forall_impl; [|exact Hlt]. cbn. intros; lia.
          -- constructor; [lia|constructor].
        * apply spaced_from_snoc_reg; [exact Hsp|]. fold (last_regular cl). lia.
        * rewrite map_app, map_app, Hc. cbn. f_equal. f_equal. unfold score_of.
          rewrite Hp, firstn_all. reflexivity.
      + unfold Mid, points. cbn [marks cols processed length]. split.
        * intros _. split; [destruct cl; discriminate|]. apply last_map_snoc.
        * intros Hbad. lia.
      + exists [(p, Regular)]. split; [reflexivity|]. constructor; [reflexivity|constructor].
    - apply Nat.leb_gt in E. unfold Analysis.set_marks.
      cbn [acc processed results scores marks conv cols computes].
      split; [|split].
      + constructor; unfold points; cbn [acc processed results scores marks conv cols computes].
        * reflexivity.
        * exact Hp.
        * eexists. reflexivity.
        * exact Hm0.
        * exact Hs.
        * eapply Forall_impl; [|exact Hlt]. cbn. intros; lia.
        * exact Hsp.
        * exact Hc.
      + unfold Mid, points. cbn [marks cols processed]. split.
        * intros Hbad. cbn [length] in Hbad. rewrite app_length in Hbad. cbn in Hbad. lia.
        * intros _. exact Hlt.
      + exists []. rewrite app_nil_r. split; [reflexivity|constructor].
  Qed.

  Lemma batch_step k seen st c sub :
    1 <= k -> Inv k seen st -> sub <> [] ->
    let st' := blc (Some k) (process c st sub) in
    Inv k (seen ++ rows_sub c sub) st' /\ Mid st'
    /\ exists regs, cols st' = cols st ++ regs /\ Forall (fun e => snd e = Regular) regs.
  Proof.
    intros Hk HI Hsub. cbv zeta.
    destruct (blc_step k _ _ Hk (process_pre k seen st c sub HI Hsub)) as (H1 & H2 & regs & H3 & H4).
    split; [exact H1|]. split; [exact H2|]. exists regs. split; [|exact H4].
    cbv zeta in H3. rewrite H3. destruct (process_fields c st sub) as (_ & _ & _ & _ & _ & _ & Fcl).
    rewrite Fcl. reflexivity.
  Qed.

  Lemma fold_inv k c subs : forall seen st,
    1 <= k -> Inv k seen st -> Forall (fun b => b <> []) subs ->
    let st' := fold_left (fun s sub => blc (Some k) (process c s sub)) subs st in
    Inv k (seen ++ rows_sub c (concat subs)) st' /\ (subs <> [] -> Mid st')
    /\ exists regs, cols st' = cols st ++ regs /\ Forall (fun e => snd e = Regular) regs.
  Proof.
    induction subs as [|sub subs IH]; intros seen st Hk HI Hne; cbv zeta; cbn [fold_left concat].
    - cbn. rewrite app_nil_r. split; [exact HI|]. split; [contradiction|].
      exists []. rewrite app_nil_r. split; [reflexivity|constructor].
    - inversion Hne as [|? ? Hsub Hne']; subst.
      destruct (batch_step k seen st c sub Hk HI Hsub) as (H1 & H2 & regs1 & H3 & H4). cbv zeta in *.
      destruct (IH _ _ Hk H1 Hne') as (J1 & J2 & regs2 & J3 & J4). cbv zeta in *.
      rewrite rows_sub_app, app_assoc. split; [exact J1|]. split.
      + intros _. destruct subs as [|s2 subs']; [exact H2|]. apply J2. discriminate.
      + exists (regs1 ++ regs2). rewrite J3, H3, app_assoc. split; [reflexivity|].
        apply Forall_app. split; assumption.
  Qed.

  Lemma final_step k seen st :
    Inv k seen st -> Mid st ->
    let st' := final_compute (Some k) st in
    Inv k seen st' /\ Done st'
    /\ exists tail, cols st' = cols st ++ tail /\ (tail = [] \/ tail = [(processed st', Remainder)]).
  Proof.
    intros [Ha Hp (rest & Hm) Hm0 Hs Hle Hsp Hc] [Mid1 Mid2].
    destruct st as [a p r s m cv cl cp]. cbn [acc processed results scores marks conv cols computes] in *.
    unfold points in *. cbn [cols] in *. subst a m.
    unfold Analysis.final_compute. cbv zeta. unfold Analysis.compute_results.
    cbn [acc processed results scores marks conv cols computes].
    destruct (1 <? length (last_regular cl :: rest)) eqn:E.
    - apply Nat.ltb_lt in E. specialize (Mid2 E).
      unfold Analysis.append_col. cbn [acc processed results scores marks conv cols computes].
      split; [|split].
      + constructor; unfold points; cbn [acc processed results scores marks conv cols computes].
        * reflexivity.
        * exact Hp.
        * exists rest. unfold last_regular. rewrite last_regular_from_app. reflexivity.
        * unfold last_regular. rewrite last_regular_from_app. cbn. exact Hm0.
        * rewrite map_app. cbn. apply sorted_snoc; assumption.
        * rewrite map_app. cbn. apply Forall_app. split; [exact Hle|]. constructor; [lia|constructor].
        * apply spaced_from_snoc_rem. exact Hsp.
        * rewrite map_app, map_app, Hc. cbn. f_equal. f_equal. unfold score_of.
          rewrite Hp, firstn_all. reflexivity.
      + unfold Done, points. cbn [acc processed results scores marks conv cols computes].
        split; [destruct cl; discriminate|]. split; [apply last_map_snoc|]. split; reflexivity.
      + exists [(p, Remainder)]. split; [reflexivity|]. right. reflexivity.
    - apply Nat.ltb_ge in E. specialize (Mid1 E). destruct Mid1 as [Hne Hlast].
      split; [|split].
      + constructor; unfold points; cbn [acc processed results scores marks conv cols computes];
          try assumption; try reflexivity. exists rest. reflexivity.
      + unfold Done, points. cbn [acc processed results scores marks conv cols computes].
        split; [exact Hne|]. split; [exact Hlast|]. split; reflexivity.
      + exists []. rewrite app_nil_r. split; [reflexivity|]. left. reflexivity.
  Qed.

  Lemma run_inv k seen st c :
    1 <= k -> Inv k seen st -> ok_container c ->
    let st' := run (Some k) st c in
    Inv k (seen ++ rows_of c) st' /\ Done st'
    /\ exists regs tail, cols st' = cols st ++ regs ++ tail /\ Forall (fun e => snd e = Regular) regs
                         /\ (tail = [] \/ tail = [(processed st', Remainder)]).
  Proof.
    intros Hk HI [Hne Hbs]. cbv zeta. unfold Analysis.run, Analysis.run_batches.
    assert (Hebs : 1 <= eff_bs (Some k) (c_bs c)) by (apply eff_bs_pos; [exact Hk|exact Hbs]).
    set (subs := batches_of (c_rows c) (eff_bs (Some k) (c_bs c))).
    destruct (fold_inv k c subs seen st Hk HI (batches_nonempty _ _ Hebs)) as (H1 & H2 & regs & H3 & H4).
    cbv zeta in *. unfold subs in H1 at 1. rewrite slices_concat in H1 by exact Hebs.
    specialize (H2 (batches_of_nonnil _ _ Hebs Hne)).
    destruct (final_step k _ _ H1 H2) as (J1 & J2 & tail & J3 & J4). cbv zeta in *.
    split; [exact J1|]. split; [exact J2|]. exists regs, tail. rewrite J3, H3, app_assoc.
    split; [reflexivity|]. split; assumption.
  Qed.

  Lemma run_seq_inv k runs :
    1 <= k -> Forall ok_container runs ->
    let st' := run_seq (Some k) fresh runs in
    Inv k (all_rows runs) st' /\ (runs <> [] -> Done st').
  Proof.
    intros Hk. induction runs as [|c runs IH] using rev_ind; intros Hall; cbv zeta.
    - split; [apply Inv_fresh|contradiction].
    - apply Forall_app in Hall. destruct Hall as [Hall Hc]. inversion Hc as [|? ? Hc1 _]; subst.
      destruct (IH Hall) as [HI _]. cbv zeta in HI.
      rewrite run_seq_snoc, all_rows_snoc.
      destruct (run_inv k _ _ c Hk HI Hc1) as (J1 & J2 & _). split; [exact J1|]. intros _. exact J2.
  Qed.

  (* ---------------------------------------------------------------- no convergence point is ever overdue *)
  Definition Due (k : nat) (st : ast) : Prop := processed st < last_regular (cols st) + k.

  Lemma blc_due k seen st : 1 <= k -> Pre k seen st -> Due k (blc (Some k) st).
  Proof.
    intros Hk [Ha Hp (rest & Hm) Hs Hlt Hm0 Hsp Hc].
    destruct st as [a p r s m cv cl cp]. cbn [acc processed results scores marks conv cols computes] in *.
    subst m. unfold Due, batch_loop_compute. cbv zeta. cbn [marks processed].
    rewrite last_last. cbn [app hd].
    destruct (k <=? p - last_regular cl) eqn:E.
    - unfold Analysis.append_col, Analysis.compute_results, Analysis.set_marks.
      cbn [acc processed results scores marks conv cols computes].
      unfold last_regular. rewrite last_regular_from_app. cbn. lia.
    - apply Nat.leb_gt in E. unfold Analysis.set_marks.
      cbn [acc processed results scores marks conv cols computes]. lia.
  Qed.

  Lemma fold_due k c subs : forall seen st,
    1 <= k -> Inv k seen st -> Due k st -> Forall (fun b => b <> []) subs ->
    Due k (fold_left (fun s sub => blc (Some k) (process c s sub)) subs st).
  Proof.
    induction subs as [|sub subs IH]; intros seen st Hk HI HD Hne; cbn [fold_left].
    - exact HD.
    - inversion Hne as [|? ? Hsub Hne']; subst.
      destruct (batch_step k seen st c sub Hk HI Hsub) as (H1 & _). cbv zeta in H1.
      apply (IH _ _ Hk H1); [|exact Hne'].
      apply (blc_due k _ _ Hk (process_pre k seen st c sub HI Hsub)).
  Qed.

  Lemma final_due k st : Due k st -> Due k (final_compute (Some k) st).
  Proof.
    intros HD. destruct st as [a p r s m cv cl cp]. unfold Due in *.
    unfold Analysis.final_compute. cbv zeta. unfold Analysis.compute_results.
    cbn [acc processed results scores marks conv cols computes] in *.
    destruct (1 <? length m).
    - unfold Analysis.append_col. cbn [acc processed results scores marks conv cols computes].
      unfold last_regular in *. rewrite last_regular_from_app. cbn. exact HD.
    - cbn [acc processed results scores marks conv cols computes]. exact HD.
  Qed.

  Lemma run_seq_due k runs :
    1 <= k -> Forall ok_container runs -> Due k (run_seq (Some k) fresh runs).
  Proof.
    intros Hk. induction runs as [|c runs IH] using rev_ind; intros Hall.
    - unfold Due. cbn. lia.
    - apply Forall_app in Hall. destruct Hall as [Hall Hc]. inversion Hc as [|? ? [Hne Hbs] _]; subst.
      destruct (run_seq_inv k runs Hk Hall) as [HI _]. cbv zeta in HI.
      rewrite run_seq_snoc. unfold Analysis.run, Analysis.run_batches.
      apply final_due.
      assert (Hebs : 1 <= eff_bs (Some k) (c_bs c)) by (apply eff_bs_pos; [exact Hk|exact Hbs]).
      apply (fold_due k c _ _ _ Hk HI (IH Hall) (batches_nonempty _ _ Hebs)).
  Qed.

  (* ---------------------------------------------------------------- histories with interrupted runs *)
  Notation run_interrupted := (run_interrupted X M V D St O Sc zero plus contrib comp sf model disc).
  Notation hist_seq := (hist_seq X M V D St O Sc zero plus contrib comp sf model disc).
  Notation hist_rows := (hist_rows X M V D sf model).
  Notation rows_h := (rows_h X M V D sf model).

  Lemma run_interrupted_inv k seen st c j :
    1 <= k -> Inv k seen st -> ok_container c ->
    Inv k (seen ++ rows_h (Some k) (c, Some j)) (run_interrupted (Some k) st c j).
  Proof.
    intros Hk HI [Hne Hbs]. unfold Analysis.run_interrupted, Analysis.rows_h. cbn [fst snd].
    assert (Hebs : 1 <= eff_bs (Some k) (c_bs c)) by (apply eff_bs_pos; [exact Hk|exact Hbs]).
    assert (Hall := batches_nonempty (c_rows c) _ Hebs).
    rewrite <- (firstn_skipn j (batches_of (c_rows c) (eff_bs (Some k) (c_bs c)))) in Hall.
    apply Forall_app in Hall. destruct Hall as [Hall _].
    destruct (fold_inv k c _ seen st Hk HI Hall) as (H1 & _). exact H1.
  Qed.

  Lemma hist_inv k hs :
    1 <= k -> Forall (fun h => ok_container (fst h)) hs -> Inv k (hist_rows (Some k) hs) (hist_seq (Some k) fresh hs).
  Proof.
    intros Hk. induction hs as [|[c o] hs IH] using rev_ind; intros Hall.
    - apply Inv_fresh.
    - apply Forall_app in Hall. destruct Hall as [Hall Hc]. inversion Hc as [|? ? Hc1 _]; subst. cbn [fst] in Hc1.
      specialize (IH Hall). unfold Analysis.hist_seq, Analysis.hist_rows in *.
      rewrite fold_left_app, map_app, concat_app. cbn [fold_left map concat]. rewrite app_nil_r.
      destruct o as [j|].
      + unfold Analysis.run_h at 1. cbn [fst snd]. apply run_interrupted_inv; assumption.
      + unfold Analysis.run_h at 1. cbn [fst snd]. unfold Analysis.rows_h. cbn [fst snd].
        destruct (run_inv k _ _ c Hk IH Hc1) as (J1 & _). exact J1.
  Qed.

  Lemma run_due k seen st c :
    1 <= k -> Inv k seen st -> Due k st -> ok_container c -> Due k (run (Some k) st c).
  Proof.
    intros Hk HI HD [Hne Hbs]. unfold Analysis.run, Analysis.run_batches. apply final_due.
    assert (Hebs : 1 <= eff_bs (Some k) (c_bs c)) by (apply eff_bs_pos; [exact Hk|exact Hbs]).
    apply (fold_due k c _ _ _ Hk HI HD (batches_nonempty _ _ Hebs)).
  Qed.

  Lemma hist_due k hs :
    1 <= k -> Forall (fun h => ok_container (fst h)) hs -> Due k (hist_seq (Some k) fresh hs).
  Proof.
    intros Hk. induction hs as [|[c o] hs IH] using rev_ind; intros Hall.
    - unfold Due. cbn. lia.
    - apply Forall_app in Hall. destruct Hall as [Hall Hc]. inversion Hc as [|? ? Hc1 _]; subst. cbn [fst] in Hc1.
      specialize (IH Hall). pose proof (hist_inv k hs Hk Hall) as HI.
      unfold Analysis.hist_seq in *. rewrite fold_left_app. cbn [fold_left].
      destruct o as [j|]; unfold Analysis.run_h at 1; cbn [fst snd].
      + destruct Hc1 as [Hne Hbs]. unfold Analysis.run_interrupted.
        assert (Hebs : 1 <= eff_bs (Some k) (c_bs c)) by (apply eff_bs_pos; [exact Hk|exact Hbs]).
        assert (Hne2 := batches_nonempty (c_rows c) _ Hebs).
        rewrite <- (firstn_skipn j (batches_of (c_rows c) (eff_bs (Some k) (c_bs c)))) in Hne2.
        apply Forall_app in Hne2. destruct Hne2 as [Hne2 _].
        apply (fold_due k c _ _ _ Hk HI IH Hne2).
      + apply (run_due k _ _ c Hk HI IH Hc1).
  Qed.

  Theorem no_overdue_point_with_interrupted_runs_thm : forall (k : nat) (hs : list (container * option nat)),
    1 <= k -> Forall (fun h => ok_container (fst h)) hs ->
    processed (hist_seq (Some k) fresh hs) < last_regular (cols (hist_seq (Some k) fresh hs)) + k.
  Proof. intros k hs Hk Hall. exact (hist_due k hs Hk Hall). Qed.

  (* the convergence clauses for histories in which some run() calls raise on a later batch: an interrupted run contributes
     the batches processed before the failure, also to the bookkeeping; the columns appended before the failure stay *)
  Theorem convergence_with_interrupted_runs_thm : forall (k : nat) (hs : list (container * option nat)),
    1 <= k -> Forall (fun h => c_rows (fst h) <> [] /\ 1 <= c_bs (fst h)) hs ->
    let st := hist_seq (Some k) fresh hs in
    let rows := hist_rows (Some k) hs in
    processed st = length rows
    /\ acc st = upd zero rows
    /\ StronglySorted lt (map fst (cols st))
    /\ (forall l1 p l2, cols st = l1 ++ (p, Regular) :: l2 -> last_regular l1 + k <= p)
    /\ Forall (fun p => p <= length rows) (map fst (cols st))
    /\ conv st = map (fun p => disc (comp (upd zero (firstn p rows)))) (map fst (cols st)).
  Proof.
    intros k hs Hk Hall. cbv zeta. assert (HI := hist_inv k hs Hk Hall).
    split; [apply (I_proc _ _ _ HI)|]. split; [apply (I_acc _ _ _ HI)|]. split; [apply (I_sorted _ _ _ HI)|].
    split.
    - intros l1 p l2 Hcols. assert (Hsp := I_spaced _ _ _ HI). rewrite Hcols in Hsp.
      apply (spaced_from_split k l1 0 p l2 Hsp).
    - split.
      + rewrite <- (I_proc _ _ _ HI). apply (I_le _ _ _ HI).
      + apply (I_conv _ _ _ HI).
  Qed.

  (* ================================================================ the theorems of C02 *)
  Theorem run_eq_oneshot_thm : forall (cs : option nat) (st : ast) (c : container),
    step_ok cs -> ok_container c ->
    let st' := run cs st c in
    acc st' = upd (acc st) (rows_of c)
    /\ results st' = Some (comp (upd (acc st) (rows_of c)))
    /\ scores st' = Some (disc (comp (upd (acc st) (rows_of c))))
    /\ processed st' = processed st + length (c_rows c).
  Proof.
    intros cs st c Hs [_ Hbs]. cbv zeta.
    destruct (run_fields cs st c (eff_bs_pos cs _ Hs Hbs)) as (H1 & H2 & H3 & H4). auto.
  Qed.

  Theorem run_fresh_eq_oneshot_thm : forall (cs : option nat) (c : container),
    step_ok cs -> ok_container c ->
    let st' := run cs fresh c in
    results st' = Some (comp (upd zero (rows_of c)))
    /\ scores st' = Some (disc (comp (upd zero (rows_of c))))
    /\ processed st' = length (c_rows c).
  Proof.
    intros cs c Hs Hc. destruct (run_eq_oneshot_thm cs fresh c Hs Hc) as (_ & H2 & H3 & H4). auto.
  Qed.

  Theorem run_seq_eq_oneshot_thm : forall (cs : option nat) (runs : list container),
    step_ok cs -> Forall ok_container runs -> runs <> [] ->
    let st' := run_seq cs fresh runs in
    results st' = Some (comp (upd zero (all_rows runs)))
    /\ scores st' = Some (disc (comp (upd zero (all_rows runs))))
    /\ processed st' = length (all_rows runs).
  Proof.
    intros cs runs Hs Hall Hne. cbv zeta.
    assert (Hb : Forall (fun c => 1 <= c_bs c) runs) by (eapply Forall_impl; [|exact Hall]; intros c [_ H]; exact H).
    destruct (run_seq_fields cs runs fresh Hs Hb) as (_ & Hp & Hr). cbv zeta in *.
    destruct (Hr Hne) as [Hr1 Hr2]. cbn [acc Analysis.fresh] in *. rewrite Hr1, Hr2, Hp. cbn. auto.
  Qed.

  (* a run() interrupted while batch number k is prepared: exactly the first k batches = the first k * bs traces were fed
     (any convergence setting); nothing else changed *)
  Theorem run_interrupted_thm : forall (cs : option nat) (st : ast) (c : container) (k : nat),
    step_ok cs -> 1 <= c_bs c -> k <= length (c_rows c) / eff_bs cs (c_bs c) ->
    let st' := run_interrupted cs st c k in
    acc st' = upd (acc st) (firstn (k * eff_bs cs (c_bs c)) (rows_of c))
    /\ processed st' = processed st + k * eff_bs cs (c_bs c).
  Proof.
    intros cs st c k Hs Hbs Hk. cbv zeta. unfold Analysis.run_interrupted.
    assert (Hebs := eff_bs_pos cs _ Hs Hbs).
    destruct (fold_acc cs c (firstn k (batches_of (c_rows c) (eff_bs cs (c_bs c)))) st) as [Ha Hp]. cbv zeta in *.
    rewrite Ha, Hp, batches_firstn_concat by assumption.
    unfold Analysis.rows_of, Analysis.rows_sub. rewrite firstn_map. split; [reflexivity|].
    rewrite firstn_length.
    assert (k * eff_bs cs (c_bs c) <= length (c_rows c)).
    { etransitivity; [apply Nat.mul_le_mono_r; exact Hk|]. rewrite Nat.mul_comm. apply Nat.mul_div_le. lia. }
    lia.
  Qed.

  (* two runs = one run on the concatenated container (same frame and chain), whatever the three batch sizes *)
  Theorem runs_concat_thm : forall (cs : option nat) (st : ast) (c1 c2 c12 : container),
    step_ok cs -> ok_container c1 -> ok_container c2 -> 1 <= c_bs c12 ->
    c_rows c12 = c_rows c1 ++ c_rows c2 ->
    c_fr c1 = c_fr c12 -> c_fr c2 = c_fr c12 -> c_chain c1 = c_chain c12 -> c_chain c2 = c_chain c12 ->
    let a := run cs (run cs st c1) c2 in
    let b := run cs st c12 in
    acc a = acc b /\ results a = results b /\ scores a = scores b /\ processed a = processed b.
  Proof.
    intros cs st c1 c2 c12 Hs [_ H1] [_ H2] H12 Hrows Hf1 Hf2 Hc1 Hc2. cbv zeta.
    destruct (run_fields cs st c1 (eff_bs_pos cs _ Hs H1)) as (A1 & P1 & _).
    destruct (run_fields cs (run cs st c1) c2 (eff_bs_pos cs _ Hs H2)) as (A2 & P2 & R2 & S2).
    destruct (run_fields cs st c12 (eff_bs_pos cs _ Hs H12)) as (A3 & P3 & R3 & S3).
    cbv zeta in *.
    assert (Hrw : rows_of c12 = rows_of c1 ++ rows_of c2).
    { unfold Analysis.rows_of, Analysis.rows_sub. rewrite Hrows, map_app, Hf1, Hf2, Hc1, Hc2. reflexivity. }
    rewrite A2, P2, R2, S2, A3, P3, R3, S3, A1, P1, Hrw, upd_app', Hrows, app_length.
    repeat split; lia.
  Qed.

  Theorem scores_are_discriminant_thm : forall (cs : option nat) (runs : list container),
    scores (run_seq cs fresh runs) = option_map disc (results (run_seq cs fresh runs)).
  Proof. intros cs runs. apply (SD_run_seq cs runs fresh). reflexivity. Qed.

  (* what update() receives for a sub-set: the frame first, then the chain in list order; the data from the metadata
     of the same trace *)
  Theorem frame_before_preprocess_thm : forall (c : container) (sub : list (X * M)),
    fed_rows c sub = map (fun r => (chain_row (c_chain c) (c_fr c (fst r)), model (sf (snd r)))) sub
    /\ forall p1 p2 (x : X), chain_row [p1; p2] x = p2 (p1 x).
  Proof. intros c sub. split; [apply fed_rows_eq|reflexivity]. Qed.

  (* ================================================================ the theorems of C08 *)
  Theorem cols_strictly_increasing_thm : forall (k : nat) (runs : list container),
    1 <= k -> Forall ok_container runs ->
    StronglySorted lt (map fst (cols (run_seq (Some k) fresh runs))).
  Proof. intros k runs Hk Hall. destruct (run_seq_inv k runs Hk Hall) as [HI _]. apply (I_sorted _ _ _ HI). Qed.

  Theorem regular_spacing_thm : forall (k : nat) (runs : list container) l1 p l2,
    1 <= k -> Forall ok_container runs ->
    cols (run_seq (Some k) fresh runs) = l1 ++ (p, Regular) :: l2 ->
    last_regular l1 + k <= p.
  Proof.
    intros k runs l1 p l2 Hk Hall Hcols. destruct (run_seq_inv k runs Hk Hall) as [HI _].
    assert (Hsp := I_spaced _ _ _ HI). cbv zeta in Hsp. rewrite Hcols in Hsp.
    apply (spaced_from_split k l1 0 p l2 Hsp).
  Qed.

  Theorem no_overdue_point_thm : forall (k : nat) (runs : list container),
    1 <= k -> Forall ok_container runs ->
    processed (run_seq (Some k) fresh runs) < last_regular (cols (run_seq (Some k) fresh runs)) + k.
  Proof. intros k runs Hk Hall. exact (run_seq_due k runs Hk Hall). Qed.

  Theorem remainder_is_last_of_run_thm : forall (k : nat) (runs : list container) (c : container),
    1 <= k -> Forall ok_container runs -> ok_container c ->
    exists regs tail,
      cols (run_seq (Some k) fresh (runs ++ [c])) = cols (run_seq (Some k) fresh runs) ++ regs ++ tail
      /\ Forall (fun e => snd e = Regular) regs
      /\ (tail = [] \/ tail = [(processed (run_seq (Some k) fresh (runs ++ [c])), Remainder)]).
  Proof.
    intros k runs c Hk Hall Hc. destruct (run_seq_inv k runs Hk Hall) as [HI _]. cbv zeta in HI.
    rewrite run_seq_snoc. destruct (run_inv k _ _ c Hk HI Hc) as (_ & _ & regs & tail & H). exists regs, tail. exact H.
  Qed.

  Theorem last_col_is_total_thm : forall (k : nat) (runs : list container),
    1 <= k -> Forall ok_container runs -> runs <> [] ->
    let st := run_seq (Some k) fresh runs in
    cols st <> []
    /\ last (map fst (cols st)) 0 = processed st
    /\ processed st = length (all_rows runs)
    /\ exists s, scores st = Some s /\ last (conv st) s = s /\ conv st <> [].
  Proof.
    intros k runs Hk Hall Hne. cbv zeta. destruct (run_seq_inv k runs Hk Hall) as [HI HD]. cbv zeta in *.
    destruct (HD Hne) as (D1 & D2 & D3 & D4). split; [exact D1|]. split; [exact D2|].
    split; [apply (I_proc _ _ _ HI)|].
    eexists. split; [exact D4|].
    rewrite (I_conv _ _ _ HI). fold (points (run_seq (Some k) fresh runs)) in *.
    destruct (exists_last (l := points (run_seq (Some k) fresh runs))) as (l' & x & Hl).
    { unfold points. intros Hnil. apply map_eq_nil in Hnil. contradiction. }
    rewrite Hl in *. rewrite last_last in D2. split.
    - rewrite last_map_snoc. unfold score_of. rewrite D2, (I_proc _ _ _ HI), firstn_all, (I_acc _ _ _ HI).
      reflexivity.
    - rewrite map_app. intros Hnil. apply app_eq_nil in Hnil. destruct Hnil as [_ Hnil]. discriminate.
  Qed.

  Theorem column_is_prefix_score_thm : forall (k : nat) (runs : list container) (j p : nat) (kd : ckind),
    1 <= k -> Forall ok_container runs ->
    nth_error (cols (run_seq (Some k) fresh runs)) j = Some (p, kd) ->
    p <= length (all_rows runs)
    /\ nth_error (conv (run_seq (Some k) fresh runs)) j = Some (disc (comp (upd zero (firstn p (all_rows runs))))).
  Proof.
    intros k runs j p kd Hk Hall Hj. destruct (run_seq_inv k runs Hk Hall) as [HI _]. cbv zeta in HI.
    split.
    - assert (Hle := I_le _ _ _ HI). rewrite Forall_forall in Hle. rewrite <- (I_proc _ _ _ HI).
      apply Hle. unfold points. apply in_map_iff. exists (p, kd). split; [reflexivity|].
      eapply nth_error_In. exact Hj.
    - rewrite (I_conv _ _ _ HI). unfold points. rewrite map_map, nth_error_map, Hj. reflexivity.
  Qed.

  Theorem columns_count_thm : forall (k : nat) (runs : list container),
    1 <= k -> Forall ok_container runs ->
    length (conv (run_seq (Some k) fresh runs)) = length (cols (run_seq (Some k) fresh runs)).
  Proof.
    intros k runs Hk Hall. destruct (run_seq_inv k runs Hk Hall) as [HI _]. cbv zeta in HI.
    rewrite (I_conv _ _ _ HI). unfold points. rewrite !map_length. reflexivity.
  Qed.

  Theorem convergence_transparent_thm : forall (k : nat) (runs : list container),
    1 <= k -> Forall ok_container runs ->
    results (run_seq (Some k) fresh runs) = results (run_seq None fresh runs)
    /\ scores (run_seq (Some k) fresh runs) = scores (run_seq None fresh runs)
    /\ processed (run_seq (Some k) fresh runs) = processed (run_seq None fresh runs).
  Proof.
    intros k runs Hk Hall. destruct runs as [|c runs'] eqn:Eruns; [repeat split; reflexivity|]. rewrite <- Eruns in *.
    assert (Hne : runs <> []) by (rewrite Eruns; discriminate).
    destruct (run_seq_eq_oneshot_thm (Some k) runs Hk Hall Hne) as (R1 & S1 & P1).
    destruct (run_seq_eq_oneshot_thm None runs I Hall Hne) as (R2 & S2 & P2). cbv zeta in *.
    rewrite R1, S1, P1, R2, S2, P2. repeat split; reflexivity.
  Qed.
End AnalysisProofs.
