(* Proofs/Batching.v — lemmas and proofs for property C01 (Model/Batching.v).  stdlib only.
   The generic theorems of Model/Accum.v are instantiated with the monoid laws proved by the colleagues
   (Proofs/Cpa.v, Partitioned.v, Mia.v, Template.v, Ttest.v). *)
From Coq Require Import ZArith QArith Qcanon List Bool Lia.
From ScaredV Require Import Lib.QcSum Run.Compare Model.Accum Model.Batching.
From ScaredV Require Model.Cpa Model.Partitioned Model.Mia Model.Template Model.Ttest.
From ScaredV Require Proofs.Cpa Proofs.Partitioned Proofs.Mia Proofs.Template Proofs.Ttest.
Import ListNotations.

(* ================================================================================ generic, for every lawful bundle *)
Section Generic.
  Variable A : accum.

  (* ---- facts that need no law at all: compute() is a pure read *)
  Lemma run_app (s : a_St A) (h1 h2 : hist A) :
    run_of A s (h1 ++ h2)
    = (fst (run_of A (fst (run_of A s h1)) h2), snd (run_of A s h1) ++ snd (run_of A (fst (run_of A s h1)) h2)).
  Proof.
    unfold run_of. revert s. induction h1 as [|[b|] h1 IH]; intros s; cbn [app run step].
    - cbn. destruct (run _ _ _ _ _ _ _ s h2); reflexivity.
    - rewrite IH.
      destruct (run (a_St A) (a_R A) (a_O A) (a_zero A) (a_plus A) (a_contrib A) (a_comp A)
                    (upd (a_St A) (a_R A) (a_zero A) (a_plus A) (a_contrib A) s b) h1) as [s1 o1]. cbn. reflexivity.
    - rewrite IH.
      destruct (run (a_St A) (a_R A) (a_O A) (a_zero A) (a_plus A) (a_contrib A) (a_comp A) s h1) as [s1 o1]. cbn. reflexivity.
  Qed.

  Lemma run_state_of (s : a_St A) (h : hist A) : fst (run_of A s h) = feed_of A s (updates_of A h).
  Proof. apply run_state. Qed.

  Lemma length_outputs (s : a_St A) (h : hist A) : length (snd (run_of A s h)) = computes h.
  Proof.
    unfold run_of. revert s. induction h as [|[b|] h IH]; intros s; cbn [run step computes]; [reflexivity| |].
    - specialize (IH (upd (a_St A) (a_R A) (a_zero A) (a_plus A) (a_contrib A) s b)).
      destruct (run _ _ _ _ _ _ _ _ h) as [s1 o1]. exact IH.
    - specialize (IH s). destruct (run _ _ _ _ _ _ _ s h) as [s1 o1]. cbn in *. rewrite IH. reflexivity.
  Qed.

  (* deleting every compute() leaves the final state unchanged *)
  Theorem compute_does_not_disturb_gen (s : a_St A) (h : hist A) :
    fst (run_of A s h) = fst (run_of A s (map Update (updates_of A h))).
  Proof. apply compute_does_not_disturb. Qed.

  (* deleting ANY ONE compute() from a history: the final state and all the other outputs are unchanged *)
  Theorem compute_removable_gen (s : a_St A) (h1 h2 : hist A) :
    exists o1 v o2,
      snd (run_of A s (h1 ++ Compute :: h2)) = o1 ++ v :: o2
      /\ snd (run_of A s (h1 ++ h2)) = o1 ++ o2
      /\ length o1 = computes h1
      /\ v = a_comp A (fst (run_of A s h1))
      /\ fst (run_of A s (h1 ++ Compute :: h2)) = fst (run_of A s (h1 ++ h2)).
  Proof.
    exists (snd (run_of A s h1)), (a_comp A (fst (run_of A s h1))), (snd (run_of A (fst (run_of A s h1)) h2)).
    rewrite !run_app. cbn [fst snd].
    assert (E : run_of A (fst (run_of A s h1)) (Compute :: h2)
                = (fst (run_of A (fst (run_of A s h1)) h2),
                   a_comp A (fst (run_of A s h1)) :: snd (run_of A (fst (run_of A s h1)) h2))).
    { unfold run_of. cbn [run step]. destruct (run _ _ _ _ _ _ _ _ h2); reflexivity. }
    rewrite E. cbn [fst snd].
    split; [reflexivity|]. split; [reflexivity|]. split; [apply length_outputs|]. split; reflexivity.
  Qed.

  (* asking twice without new data, anywhere in a history: the same answer twice, everything else untouched *)
  Theorem compute_twice_same_gen (s : a_St A) (h1 h2 : hist A) :
    exists o1 v o2,
      snd (run_of A s (h1 ++ Compute :: Compute :: h2)) = o1 ++ v :: v :: o2
      /\ snd (run_of A s (h1 ++ Compute :: h2)) = o1 ++ v :: o2
      /\ length o1 = computes h1.
  Proof.
    exists (snd (run_of A s h1)), (a_comp A (fst (run_of A s h1))), (snd (run_of A (fst (run_of A s h1)) h2)).
    rewrite !run_app. cbn [fst snd].
    split; [|split; [|apply length_outputs]]; f_equal; unfold run_of; cbn [run step];
      destruct (run _ _ _ _ _ _ _ _ h2); reflexivity.
  Qed.

  Lemma expected_is_oneshot (seen : list (a_R A)) (h : hist A) :
    expected_of A seen h = map (oneshot A) (seen_at seen h).
  Proof.
    unfold expected_of, oneshot, upd_of. revert seen.
    induction h as [|[b|] h IH]; intros seen; cbn [expected_outputs seen_at map]; [reflexivity|apply IH|].
    rewrite IH. reflexivity.
  Qed.

  (* ---- facts that use the monoid laws *)
  Hypothesis L : lawful A.
  Let Hassoc := proj1 L.
  Let Hzr := proj1 (proj2 L).
  Let Hzl := proj2 (proj2 L).

  (* EVERY ordered partition into batches (batches of one row, empty batches) gives the one-shot state *)
  Theorem split_invariance_gen (s : a_St A) (batches : list (list (a_R A))) :
    feed_of A s batches = upd_of A s (concat batches).
  Proof. apply feed_concat; assumption. Qed.

  Theorem split_eq_split_gen (s : a_St A) (bs1 bs2 : list (list (a_R A))) :
    concat bs1 = concat bs2 -> feed_of A s bs1 = feed_of A s bs2.
  Proof. apply split_eq_oneshot; assumption. Qed.

  (* the k-th compute() of ANY history returns comp of the one-shot accumulation of everything fed before it *)
  Theorem history_outputs_gen (h : hist A) (seen : list (a_R A)) :
    snd (run_of A (upd_of A (a_zero A) seen) h) = expected_of A seen h.
  Proof. apply history_outputs; assumption. Qed.

  Corollary history_outputs_oneshot_gen (h : hist A) (seen : list (a_R A)) :
    snd (run_of A (upd_of A (a_zero A) seen) h) = map (oneshot A) (seen_at seen h).
  Proof. rewrite <- expected_is_oneshot. apply history_outputs_gen. Qed.

  Corollary history_outputs_fresh_gen (h : hist A) :
    snd (run_of A (a_zero A) h) = map (oneshot A) (seen_at [] h).
  Proof.
    rewrite <- expected_is_oneshot. apply history_outputs0; assumption.
  Qed.

  (* two histories with the same concatenated updates: the same final state, and whatever follows returns the same *)
  Theorem same_updates_same_outputs_gen (s : a_St A) (h1 h2 tail : hist A) :
    concat (updates_of A h1) = concat (updates_of A h2) ->
    fst (run_of A s h1) = fst (run_of A s h2)
    /\ exists o, snd (run_of A s (h1 ++ tail)) = snd (run_of A s h1) ++ o
                 /\ snd (run_of A s (h2 ++ tail)) = snd (run_of A s h2) ++ o.
  Proof.
    intros H.
    assert (E : fst (run_of A s h1) = fst (run_of A s h2)).
    { rewrite !run_state_of. apply split_eq_split_gen. exact H. }
    split; [exact E|].
    exists (snd (run_of A (fst (run_of A s h1)) tail)).
    rewrite !run_app. cbn [snd]. rewrite E. split; reflexivity.
  Qed.

  (* in particular a compute() appended to both returns the same value: the one-shot result when starting fresh *)
  Corollary final_compute_is_oneshot_gen (h : hist A) :
    snd (run_of A (a_zero A) (h ++ [Compute]))
    = snd (run_of A (a_zero A) h) ++ [oneshot A (concat (updates_of A h))].
  Proof.
    rewrite run_app. cbn [snd]. f_equal. unfold run_of at 1. cbn [run step snd]. f_equal.
    rewrite run_state_of, split_invariance_gen. reflexivity.
  Qed.

  (* ---- run-length encoded batches: the weighted sum IS the sum over the expanded batch *)
  Lemma bsum_repeat (r : a_R A) (c : positive) :
    bsum_of A (repeat r (Pos.to_nat c)) = ptimes A c (a_contrib A r).
  Proof.
    unfold ptimes, bsum_of. induction c as [|c IH] using Pos.peano_ind.
    - cbn. apply Hzr.
    - rewrite Pos2Nat.inj_succ. cbn [repeat bsum fold_right].
      change (fold_right (fun r0 a => a_plus A (a_contrib A r0) a) (a_zero A) (repeat r (Pos.to_nat c)))
        with (bsum (a_St A) (a_R A) (a_zero A) (a_plus A) (a_contrib A) (repeat r (Pos.to_nat c))).
      rewrite IH. symmetry. apply Pos.iter_op_succ. exact Hassoc.
  Qed.

  Theorem rl_bsum_expand (runs : list (a_R A * positive)) : rl_bsum A runs = bsum_of A (expand runs).
  Proof.
    induction runs as [|[r c] runs IH]; [reflexivity|].
    unfold expand. cbn [flat_map fst snd]. fold (expand runs).
    unfold bsum_of. rewrite (bsum_app _ _ _ _ _ Hassoc Hzl). fold (bsum_of A (repeat r (Pos.to_nat c))). fold (bsum_of A (expand runs)).
    rewrite bsum_repeat, <- IH. reflexivity.
  Qed.

  Theorem rl_oneshot_expand (runs : list (a_R A * positive)) : rl_oneshot A runs = oneshot A (expand runs).
  Proof. unfold rl_oneshot, oneshot, upd_of, upd. rewrite rl_bsum_expand. reflexivity. Qed.
End Generic.

(* ================================================================================ the ten instances are lawful *)
Lemma cpa_lawful : lawful cpa_inst.
Proof. exact (conj Proofs.Cpa.cst_plus_assoc (conj Proofs.Cpa.cst_plus_zero_r Proofs.Cpa.cst_plus_zero_l)). Qed.
Lemma cpa_alt_lawful : lawful cpa_alt_inst.
Proof. exact (conj Proofs.Cpa.cst_plus_assoc (conj Proofs.Cpa.cst_plus_zero_r Proofs.Cpa.cst_plus_zero_l)). Qed.
Lemma dpa_lawful : lawful dpa_inst.
Proof. exact (conj Proofs.Cpa.dst_plus_assoc (conj Proofs.Cpa.dst_plus_zero_r Proofs.Cpa.dst_plus_zero_l)). Qed.
Lemma part_lawful m parts : lawful (part_inst m parts).
Proof.
  exact (conj Proofs.Partitioned.st_plus_assoc (conj Proofs.Partitioned.st_plus_zero_r Proofs.Partitioned.st_plus_zero_l)).
Qed.
Lemma mia_lawful edges est parts phi : lawful (mia_inst edges est parts phi).
Proof. exact (conj Proofs.Mia.st_plus_assoc (conj Proofs.Mia.st_plus_zero_r Proofs.Mia.st_plus_zero_l)). Qed.
Lemma tbuild_lawful parts S : lawful (tbuild_inst parts S).
Proof. exact (conj Proofs.Template.st_plus_assoc (conj Proofs.Template.st_plus_zero_r Proofs.Template.st_plus_zero_l)). Qed.
Lemma tmatch_lawful P S T m parts G : lawful (tmatch_inst P S T m parts G).
Proof. exact (conj Proofs.Template.mst_plus_assoc (conj Proofs.Template.mst_plus_zero_r Proofs.Template.mst_plus_zero_l)). Qed.
Lemma ttest_lawful : lawful ttest_inst.
Proof. exact (conj Proofs.Ttest.st_plus_assoc (conj Proofs.Ttest.st_plus_zero_r Proofs.Ttest.st_plus_zero_l)). Qed.

(* ================================================================================ the table lift *)
Section TableProofs.
  Variable A : accum.
  Variable RT : Type.
  Variable projs : list (RT -> a_R A).
  Hypothesis L : lawful A.
  Let Hassoc := proj1 L.
  Let Hzr := proj1 (proj2 L).
  Let Hzl := proj2 (proj2 L).
  Local Notation T := (table_of A RT projs).

  (* the table of a lawful entry bundle is a lawful bundle: all the generic theorems apply to it as they are *)
  Theorem table_lawful : lawful (table_of A RT projs).
  Proof.
    split; [|split].
    - intros a b c. apply (Proofs.Template.zadd_assoc (a_plus A)). exact Hassoc.
    - intros a. apply Proofs.Template.zadd_nil_r.
    - intros a. reflexivity.
  Qed.

  Lemma nth_t_contrib (r : RT) (i : nat) (d : RT -> a_R A) : (i < length projs)%nat ->
    nth i (t_contrib A RT projs r) (a_zero A) = a_contrib A (nth i projs d r).
  Proof.
    intros Hi. unfold t_contrib.
    rewrite (nth_indep _ (a_zero A) (a_contrib A (d r))) by (rewrite map_length; exact Hi).
    exact (map_nth (fun p => a_contrib A (p r)) projs d i).
  Qed.

  (* entry i of the accumulated table state is the entry bundle's own accumulation of the entry's column *)
  Lemma nth_table_bsum (rows : list RT) (i : nat) (d : RT -> a_R A) : (i < length projs)%nat ->
    nth i (bsum_of T rows) (a_zero A) = bsum_of A (map (nth i projs d) rows).
  Proof.
    intros Hi. induction rows as [|r rows IH].
    - cbn. destruct i; reflexivity.
    - unfold bsum_of, bsum in *. cbn [fold_right map]. cbn [table_of a_plus a_contrib a_zero a_St a_R] in *.
      unfold t_plus. rewrite (Proofs.Template.nth_zadd (a_plus A) (a_zero A) Hzl Hzr).
      f_equal; [apply nth_t_contrib; exact Hi|exact IH].
  Qed.

  Lemma map_seq_nth {B} (f : (RT -> a_R A) -> B) (d : RT -> a_R A) :
    map (fun i => f (nth i projs d)) (seq 0 (length projs)) = map f projs.
  Proof.
    apply nth_ext with (d := f d) (d' := f d).
    - rewrite !map_length, seq_length. reflexivity.
    - intros n Hn. rewrite map_length, seq_length in Hn.
      rewrite (nth_indep _ (f d) (f (nth 0 projs d))) by (rewrite map_length, seq_length; exact Hn).
      rewrite (map_nth (fun i => f (nth i projs d)) (seq 0 (length projs)) 0%nat n), seq_nth by exact Hn.
      cbn [plus]. symmetry. apply (map_nth f projs d n).
  Qed.

  (* compute() of the table fed [rows] in one batch = entry by entry, the entry's one-shot result on its own column *)
  Theorem table_oneshot_entrywise (rows : list RT) : oneshot T rows = table_oneshot A RT projs rows.
  Proof.
    unfold oneshot, upd_of, upd. cbn [table_of a_comp a_zero a_plus a_St a_R a_contrib]. unfold t_plus at 1.
    cbn [Template.zadd]. unfold t_comp, table_oneshot.
    destruct projs as [|p0 ps] eqn:Ep; [reflexivity|]. rewrite <- Ep.
    rewrite <- (map_seq_nth (fun p => oneshot A (map p rows)) p0).
    apply map_ext_in. intros i Hi. apply in_seq in Hi.
    pose proof (nth_table_bsum rows i p0 ltac:(lia)) as E. unfold bsum_of in E.
    cbn [table_of a_comp a_zero a_plus a_St a_R a_contrib] in E. rewrite E.
    unfold oneshot, upd_of, upd. rewrite Hzl. reflexivity.
  Qed.

  Lemma table_expected_eq (seen : list RT) (h : hist T) :
    expected_of T seen h = table_expected A RT projs seen h.
  Proof.
    rewrite expected_is_oneshot. revert seen.
    induction h as [|[b|] h IH]; intros seen; cbn [seen_at table_expected map]; [reflexivity|apply IH|].
    rewrite IH, table_oneshot_entrywise. reflexivity.
  Qed.

  (* the k-th compute() of ANY history of the whole distinguisher returns, entry by entry, the entry's one-shot result on
     the entry's own observations fed before it *)
  Theorem table_history_outputs (h : hist T) :
    snd (run_of T (a_zero T) h) = table_expected A RT projs [] h.
  Proof.
    rewrite <- table_expected_eq.
    pose proof (history_outputs_gen T table_lawful h []) as E.
    unfold upd_of, upd in E. cbn [bsum fold_right] in E.
    rewrite (proj1 (proj2 table_lawful)) in E. exact E.
  Qed.

  (* whatever the split into batches: the table state, hence every entry of compute() *)
  Theorem table_split_invariance (batches : list (list RT)) :
    a_comp T (feed_of T (a_zero T) batches) = table_oneshot A RT projs (concat batches).
  Proof.
    rewrite (split_invariance_gen T table_lawful). apply table_oneshot_entrywise.
  Qed.
End TableProofs.

(* ================================================================================ automatic class set *)
Lemma auto_parts_bracket mx mn : Partitioned.auto_parts mx mn = option_map class_range (bracket mx mn).
Proof.
  unfold Partitioned.auto_parts, bracket. destruct (255 <? mx)%Z; [reflexivity|]. destruct (mn <? 0)%Z; reflexivity.
Qed.

Lemma auto_class_set_bracket b : auto_class_set b = option_map class_range (data_bracket (batch_data b)).
Proof.
  unfold auto_class_set, data_bracket. destruct (batch_data b) as [|x t]; [reflexivity|]. apply auto_parts_bracket.
Qed.

(* H-auto: when the first batch's data fall in the same bracket as the whole set's data, splitting is invisible *)
Theorem auto_classes_frozen_thm (m : Partitioned.metric) (W S : nat) (b1 : list zrow) (rest : list (list zrow)) :
  data_bracket (batch_data b1) = data_bracket (batch_data (concat (b1 :: rest))) ->
  auto_run m W S (b1 :: rest) = auto_run m W S [concat (b1 :: rest)].
Proof.
  intros H. unfold auto_run. rewrite !auto_class_set_bracket, <- H.
  destruct (data_bracket (batch_data b1)) as [r|]; [|reflexivity]. cbn [option_map].
  set (T := part_table m (class_range r) W S).
  f_equal. f_equal.
  assert (LT : lawful T) by (apply table_lawful, part_lawful).
  rewrite !(split_invariance_gen T LT). cbn [concat]. rewrite app_nil_r. reflexivity.
Qed.

(* ... and with the class set frozen, every further split of the same rows is invisible too (no hypothesis on the later
   batches: their data never change the class set) *)
Theorem auto_later_splits_irrelevant_thm (m : Partitioned.metric) (W S : nat) (b1 : list zrow) (rest1 rest2 : list (list zrow)) :
  concat rest1 = concat rest2 -> auto_run m W S (b1 :: rest1) = auto_run m W S (b1 :: rest2).
Proof.
  intros H. unfold auto_run. destruct (auto_class_set b1) as [parts|]; [|reflexivity].
  set (T := part_table m parts W S).
  assert (LT : lawful T) by (apply table_lawful, part_lawful).
  f_equal. f_equal. apply (split_eq_split_gen T LT). change (b1 ++ concat rest1 = b1 ++ concat rest2). rewrite H. reflexivity.
Qed.
