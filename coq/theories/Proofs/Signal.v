(* Proofs/Signal.v — lemmas for property C19: moving operators, pattern detection, pad, extract_around_indexes. *)
From Coq Require Import ZArith QArith Qcanon Qcabs List Bool Lia.
From ScaredV Require Import Run.Compare Lib.QcSum Model.Signal.
Import ListNotations.
Local Open Scope Qc_scope.

(* ---------------------------------------------------------------- lists *)
Lemma skipn_seq k : forall s n, skipn k (seq s n) = seq (s + k) (n - k).
Proof.
  induction k as [|k IH]; intros s n.
  - rewrite Nat.add_0_r, Nat.sub_0_r. reflexivity.
  - destruct n as [|n]; [reflexivity|]. cbn [seq skipn]. rewrite IH. f_equal; lia.
Qed.

Lemma firstn_seq k : forall s n, (k <= n)%nat -> firstn k (seq s n) = seq s k.
Proof.
  induction k as [|k IH]; intros s n H; [reflexivity|].
  destruct n as [|n]; [lia|]. cbn [seq firstn]. rewrite IH by lia. reflexivity.
Qed.

Lemma nth_map_seq {A} (f : nat -> A) N k d : (k < N)%nat -> nth k (map f (seq 0 N)) d = f k.
Proof.
  intros H. rewrite (nth_indep _ d (f 0%nat)) by (rewrite map_length, seq_length; exact H).
  rewrite map_nth, seq_nth by exact H. reflexivity.
Qed.

Lemma map2_map_seq {A B C} (g : A -> B -> C) (f1 : nat -> A) (f2 : nat -> B) m : forall a b,
  map2 g (map f1 (seq a m)) (map f2 (seq b m)) = map (fun i => g (f1 (a + i)%nat) (f2 (b + i)%nat)) (seq 0 m).
Proof.
  induction m as [|m IH]; intros a b; [reflexivity|].
  cbn [seq map map2]. rewrite !Nat.add_0_r. f_equal.
  rewrite IH, <- seq_shift, map_map. apply map_ext. intros i. f_equal; f_equal; lia.
Qed.

Lemma ew2_map {W A} (g : Qc -> Qc -> A) (f1 f2 : W -> Qc) l :
  ew2 g (map f1 l) (map f2 l) = map (fun x => g (f1 x) (f2 x)) l.
Proof. unfold ew2. induction l as [|x l IH]; cbn [map map2]; [reflexivity|]. rewrite IH. reflexivity. Qed.

Lemma ew3_map {W A} (g : Qc -> Qc -> Qc -> A) (f1 f2 f3 : W -> Qc) l :
  ew3 g (map f1 l) (map f2 l) (map f3 l) = map (fun x => g (f1 x) (f2 x) (f3 x)) l.
Proof. unfold ew3. induction l as [|x l IH]; cbn [map map2 combine fst snd]; [reflexivity|]. rewrite IH. reflexivity. Qed.

Lemma ew4_map {W A} (g : Qc -> Qc -> Qc -> Qc -> A) (f1 f2 f3 f4 : W -> Qc) l :
  ew4 g (map f1 l) (map f2 l) (map f3 l) (map f4 l) = map (fun x => g (f1 x) (f2 x) (f3 x) (f4 x)) l.
Proof. unfold ew4. induction l as [|x l IH]; cbn [map map2 combine fst snd]; [reflexivity|]. rewrite IH. reflexivity. Qed.

(* ---------------------------------------------------------------- windows *)
Lemma windows_length {A} w (l : list A) : length (windows w l) = (length l + 1 - w)%nat.
Proof. unfold windows. rewrite map_length, seq_length. reflexivity. Qed.

Lemma nth_windows {A} w (l : list A) j : (j < length l + 1 - w)%nat ->
  nth j (windows w l) [] = firstn w (skipn j l).
Proof. intros H. unfold windows. rewrite (nth_map_seq (fun i => firstn w (skipn i l))) by exact H. reflexivity. Qed.

Lemma in_windows {A} w (l : list A) win : In win (windows w l) ->
  exists i, (i + w <= length l)%nat /\ win = firstn w (skipn i l).
Proof.
  unfold windows. intros H. apply in_map_iff in H. destruct H as (i & <- & Hi). apply in_seq in Hi.
  exists i. split; [lia|reflexivity].
Qed.

Lemma in_windows_length {A} w (l : list A) win : In win (windows w l) -> length win = w.
Proof.
  intros H. destruct (in_windows _ _ _ H) as (i & Hi & ->).
  rewrite firstn_length, skipn_length. lia.
Qed.

Lemma windows_map {A B} (f : A -> B) w l : windows w (map f l) = map (map f) (windows w l).
Proof.
  unfold windows. rewrite map_length, map_map. apply map_ext. intros i.
  rewrite skipn_map, firstn_map. reflexivity.
Qed.

(* ---------------------------------------------------------------- qnat / qlen *)
Lemma qnat_S n : qnat (S n) = qnat n + 1.
Proof.
  unfold qnat, qz. apply Qc_is_canon. unfold Qcplus, Q2Qc; cbn [this].
  rewrite !Qred_correct. rewrite Nat2Z.inj_succ. unfold Z.succ. rewrite inject_Z_plus. reflexivity.
Qed.

Lemma qlen_qnat {A} (l : list A) : qlen l = qnat (length l).
Proof.
  induction l as [|x l IH]; [reflexivity|]. rewrite qlen_cons, IH. cbn [length]. rewrite qnat_S. reflexivity.
Qed.

Lemma qnat_nonzero n : (1 <= n)%nat -> qnat n <> 0.
Proof.
  intros H. rewrite <- (repeat_length tt n), <- qlen_qnat. apply qlen_nonzero.
  destruct n; [lia|discriminate].
Qed.

(* ---------------------------------------------------------------- moving_sum = sum of every window *)
Lemma cumsum_from_spec l : forall acc,
  cumsum_from acc l = map (fun k => acc + qsum (firstn k l)) (seq 1 (length l)).
Proof.
  induction l as [|x t IH]; intros acc; [reflexivity|].
  cbn [cumsum_from length seq map firstn]. f_equal.
  - rewrite qsum_cons, qsum_nil. ring.
  - rewrite IH, <- (seq_shift (length t) 1), map_map. apply map_ext. intros k. cbn [firstn]. rewrite qsum_cons. ring.
Qed.

Lemma padded_cumsum l : cumsum_from 0 (0 :: l) = map (fun k => qsum (firstn k l)) (seq 0 (S (length l))).
Proof.
  cbn [cumsum_from seq map firstn]. rewrite qsum_nil. replace (0 + 0) with 0 by ring. f_equal.
  rewrite cumsum_from_spec. apply map_ext. intros k. ring.
Qed.

Lemma prefix_split i : forall w l, qsum (firstn (i + w) l) = qsum (firstn i l) + qsum (firstn w (skipn i l)).
Proof.
  induction i as [|i IH]; intros w l.
  - cbn [Nat.add firstn skipn]. rewrite qsum_nil. ring.
  - destruct l as [|x t].
    + cbn [Nat.add skipn]. rewrite ?firstn_nil. cbn [firstn]. rewrite ?firstn_nil, ?qsum_nil. ring.
    + cbn [Nat.add firstn skipn]. rewrite !qsum_cons, IH. ring.
Qed.

Lemma window1_sums l : map (fun i => qsum (firstn 1 (skipn i l))) (seq 0 (length l)) = l.
Proof.
  induction l as [|x t IH]; [reflexivity|].
  cbn [length seq map skipn firstn]. f_equal.
  - rewrite qsum_cons, qsum_nil. ring.
  - rewrite <- seq_shift, map_map. cbn [skipn]. exact IH.
Qed.

Theorem moving_sum_windows w l : (1 <= w)%nat -> moving_sum w l = map qsum (windows w l).
Proof.
  intros Hw. unfold moving_sum, windows. rewrite map_map.
  destruct (w <? 2)%nat eqn:H2.
  - apply Nat.ltb_lt in H2. assert (w = 1%nat) as -> by lia.
    replace (length l + 1 - 1)%nat with (length l) by lia. symmetry. apply window1_sums.
  - rewrite padded_cumsum, map_length, seq_length.
    rewrite skipn_map, firstn_map, skipn_seq, firstn_seq by lia.
    replace (S (length l) - w)%nat with (length l + 1 - w)%nat by lia.
    rewrite map2_map_seq. apply map_ext. intros i. cbn [Nat.add].
    rewrite (Nat.add_comm w i), prefix_split. ring.
Qed.

(* ---------------------------------------------------------------- moving_mean *)
Theorem moving_mean_windows w l : (1 <= w)%nat -> moving_mean w l = map qmean (windows w l).
Proof.
  intros Hw. unfold moving_mean. rewrite moving_sum_windows by exact Hw. rewrite map_map.
  apply map_ext_in. intros win Hin. unfold qmean. rewrite qlen_qnat, (in_windows_length _ _ _ Hin). reflexivity.
Qed.

Lemma moving_mean_map (f : Qc -> Qc) w l : (1 <= w)%nat ->
  moving_mean w (map f l) = map (fun win => qmean (map f win)) (windows w l).
Proof. intros Hw. rewrite moving_mean_windows, windows_map, map_map by exact Hw. reflexivity. Qed.

(* ---------------------------------------------------------------- moment identities *)
Lemma qsum_cubedev m l :
  qsum (map (fun x => cube (x - m)) l)
  = qsum (map cube l) - q3 * m * qsum (map sq l) + q3 * m * m * qsum l - m * m * m * qlen l.
Proof.
  unfold qsum, qlen, cube, sq, q3 in *; induction l as [|x l IH]; cbn [map fold_right]; rewrite ?IH; ring.
Qed.

Lemma qsum_fourthdev m l :
  qsum (map (fun x => fourth (x - m)) l)
  = qsum (map fourth l) - q4 * m * qsum (map cube l) + q6 * m * m * qsum (map sq l)
    - q4 * m * m * m * qsum l + m * m * m * m * qlen l.
Proof.
  unfold qsum, qlen, fourth, cube, sq, q4, q6, q3, q2 in *; induction l as [|x l IH]; cbn [map fold_right]; rewrite ?IH; ring.
Qed.

Lemma mu2_identity l : l <> [] -> mu2 l = qmean (map sq l) - qmean l * qmean l.
Proof.
  intros Hl. unfold mu2. rewrite qsum_sqdev. unfold qmean. rewrite qlen_map.
  pose proof (qlen_nonzero l Hl). field. assumption.
Qed.

Lemma mu3_identity l : l <> [] ->
  mu3 l = qmean (map cube l) - q3 * qmean l * (qmean (map sq l) - qmean l * qmean l) - cube (qmean l).
Proof.
  intros Hl. unfold mu3. rewrite qsum_cubedev. unfold qmean. rewrite !qlen_map.
  pose proof (qlen_nonzero l Hl). unfold cube, q3. field. assumption.
Qed.

Lemma mu4_identity l : l <> [] ->
  mu4 l = qmean (map fourth l) - q4 * qmean (map cube l) * qmean l
          + q6 * (qmean (map sq l) - qmean l * qmean l) * (qmean l * qmean l) + q3 * fourth (qmean l).
Proof.
  intros Hl. unfold mu4. rewrite qsum_fourthdev. unfold qmean. rewrite !qlen_map.
  pose proof (qlen_nonzero l Hl). unfold fourth, q4, q6, q3, q2. field. assumption.
Qed.

Lemma window_nonempty {A} w (l : list A) win : (1 <= w)%nat -> In win (windows w l) -> win <> [].
Proof. intros Hw Hin E. apply in_windows_length in Hin. subst win. cbn in Hin. lia. Qed.

Theorem moving_var_windows w l : (1 <= w)%nat -> moving_var w l = map mu2 (windows w l).
Proof.
  intros Hw. unfold moving_var. rewrite moving_mean_windows, moving_mean_map by exact Hw.
  rewrite ew2_map. apply map_ext_in. intros win Hin.
  rewrite mu2_identity by (eapply window_nonempty; eassumption). reflexivity.
Qed.

Theorem moving_skew_windows w l : (1 <= w)%nat ->
  moving_skew w l = map (fun win => (mu3 win, mu2 win)) (windows w l).
Proof.
  intros Hw. unfold moving_skew. rewrite moving_mean_windows, !moving_mean_map by exact Hw.
  rewrite ew3_map. apply map_ext_in. intros win Hin.
  assert (Hne : win <> []) by (eapply window_nonempty; eassumption).
  cbv zeta. rewrite mu3_identity, mu2_identity by exact Hne. reflexivity.
Qed.

Theorem moving_kurtosis_windows w l : (1 <= w)%nat ->
  moving_kurtosis w l = map (fun win => (mu4 win, mu2 win)) (windows w l).
Proof.
  intros Hw. unfold moving_kurtosis. rewrite moving_mean_windows, !moving_mean_map by exact Hw.
  rewrite ew4_map. apply map_ext_in. intros win Hin.
  assert (Hne : win <> []) by (eapply window_nonempty; eassumption).
  cbv zeta. rewrite mu4_identity, mu2_identity by exact Hne. reflexivity.
Qed.

(* ================================================================ pattern detection *)
Lemma map_fst_combine {A B} (a : list A) : forall (b : list B), length a = length b -> map fst (combine a b) = a.
Proof.
  induction a as [|x a IH]; intros [|y b] H; try discriminate; [reflexivity|].
  cbn [combine map fst]. rewrite IH by (cbn in H; lia). reflexivity.
Qed.

Lemma map_snd_combine {A B} (a : list A) : forall (b : list B), length a = length b -> map snd (combine a b) = b.
Proof.
  induction a as [|x a IH]; intros [|y b] H; try discriminate; [reflexivity|].
  cbn [combine map snd]. rewrite IH by (cbn in H; lia). reflexivity.
Qed.

Lemma combine_nonempty {A B} (a : list A) (b : list B) : length a = length b -> a <> [] -> combine a b <> [].
Proof. destruct a, b; cbn; intros; try congruence; discriminate. Qed.

Lemma sqdist_expand a : forall b, length a = length b ->
  sqdist a b = qsum (map sq a) + qsum (map sq b) - q2 * dot a b.
Proof.
  unfold sqdist, dot. induction a as [|x a IH]; intros [|y b] H; try discriminate.
  - cbn [combine map]. rewrite !qsum_nil. unfold q2. ring.
  - cbn [combine map fst snd]. rewrite !qsum_cons, IH by (cbn in H; lia). unfold sq, q2. ring.
Qed.

Lemma sqsum_expand a : forall b, length a = length b ->
  qsum (map sq (vsum a b)) = qsum (map sq a) + qsum (map sq b) + q2 * dot a b.
Proof.
  unfold vsum, dot. induction a as [|x a IH]; intros [|y b] H; try discriminate.
  - cbn [combine map]. rewrite !qsum_nil. unfold q2. ring.
  - cbn [combine map fst snd]. rewrite !qsum_cons, IH by (cbn in H; lia). unfold sq, q2. ring.
Qed.

Lemma sqdist_vdiff a b : qsum (map sq (vdiff a b)) = sqdist a b.
Proof. unfold vdiff, sqdist. rewrite map_map. reflexivity. Qed.

Lemma qsum_vdiff a : forall b, length a = length b -> qsum (vdiff a b) = qsum a - qsum b.
Proof.
  unfold vdiff. induction a as [|x a IH]; intros [|y b] H; try discriminate.
  - cbn [combine map]. rewrite !qsum_nil. ring.
  - cbn [combine map fst snd]. rewrite !qsum_cons, IH by (cbn in H; lia). ring.
Qed.

Lemma qsum_vsum a : forall b, length a = length b -> qsum (vsum a b) = qsum a + qsum b.
Proof.
  unfold vsum. induction a as [|x a IH]; intros [|y b] H; try discriminate.
  - cbn [combine map]. rewrite !qsum_nil. ring.
  - cbn [combine map fst snd]. rewrite !qsum_cons, IH by (cbn in H; lia). ring.
Qed.

Lemma sqdist_nonneg a b : 0 <= sqdist a b.
Proof.
  unfold sqdist. apply qsum_nonneg. intros x Hx. apply in_map_iff in Hx. destruct Hx as (p & <- & _).
  apply Qc_sq_nonneg.
Qed.

Lemma mu2_nonneg l : l <> [] -> 0 <= mu2 l.
Proof.
  intros Hl. destruct (Qclt_le_dec (mu2 l) 0) as [Hneg|Hpos]; [exfalso|exact Hpos].
  pose proof (qlen_pos l Hl) as Hn. pose proof (qlen_nonzero l Hl) as Hnz.
  apply (Qcmult_lt_compat_r _ _ _ Hn) in Hneg.
  assert (E : mu2 l * qlen l = ssd l) by (unfold mu2, ssd; field; exact Hnz).
  rewrite E in Hneg. replace (0 * qlen l) with 0 in Hneg by ring.
  exact (Qcle_not_lt _ _ (ssd_nonneg l) Hneg).
Qed.

Lemma pattern_windows_facts (x y : list Qc) win : (1 <= length y)%nat -> In win (windows (length y) x) ->
  length win = length y /\ win <> [] /\ y <> [] /\ qlen win = qnat (length y) /\ qlen y = qnat (length y) /\ qnat (length y) <> 0.
Proof.
  intros Hy Hin. pose proof (in_windows_length _ _ _ Hin) as Hl.
  repeat split.
  - exact Hl.
  - intros ->. cbn in Hl. lia.
  - intros ->. cbn in Hy. lia.
  - rewrite qlen_qnat, Hl. reflexivity.
  - apply qlen_qnat.
  - apply qnat_nonzero. exact Hy.
Qed.

Theorem correlation_windows x y : (1 <= length y)%nat ->
  correlation x y = map (fun win => pearson_triple win y) (windows (length y) x).
Proof.
  intros Hy. unfold correlation, correlate_valid.
  rewrite moving_mean_windows, moving_sum_windows, windows_map, map_map by exact Hy.
  rewrite ew3_map. apply map_ext_in. intros win Hin.
  destruct (pattern_windows_facts x y win Hy Hin) as (Hl & Hw & Hyn & Hqw & Hqy & Hnz).
  unfold pearson_triple.
  rewrite scd_identity by (apply combine_nonempty; assumption).
  rewrite (ssd_identity win Hw), (ssd_identity y Hyn).
  rewrite map_fst_combine, map_snd_combine by exact Hl.
  rewrite qlen_qnat, combine_length, Hl, Nat.min_id, Hqw, Hqy.
  unfold dot, qmean. rewrite Hqw, Hqy.
  apply f_equal2; [apply f_equal2|]; try reflexivity. field. exact Hnz.
Qed.

Theorem distance_sq_windows x y : (1 <= length y)%nat ->
  distance_sq x y = map (fun win => sqdist win y) (windows (length y) x).
Proof.
  intros Hy. unfold distance_sq, correlate_valid.
  rewrite moving_sum_windows, windows_map, map_map by exact Hy.
  rewrite ew2_map. apply map_ext_in. intros win Hin.
  destruct (pattern_windows_facts x y win Hy Hin) as (Hl & _).
  rewrite <- (sqdist_expand win y Hl). apply Qcabs_pos, sqdist_nonneg.
Qed.

Theorem bcdc_windows x y : (1 <= length y)%nat ->
  bcdc x y = map (fun win => bcdc_pair win y) (windows (length y) x).
Proof.
  intros Hy. unfold bcdc, correlate_valid.
  rewrite !moving_sum_windows, windows_map, map_map by exact Hy.
  rewrite ew3_map. apply map_ext_in. intros win Hin.
  destruct (pattern_windows_facts x y win Hy Hin) as (Hl & Hw & Hyn & Hqw & Hqy & Hnz).
  assert (Hd : vdiff win y <> []).
  { unfold vdiff. intros E. apply map_eq_nil in E. revert E. apply combine_nonempty; assumption. }
  assert (Hs : vsum win y <> []).
  { unfold vsum. intros E. apply map_eq_nil in E. revert E. apply combine_nonempty; assumption. }
  assert (Hld : qlen (vdiff win y) = qnat (length y)).
  { unfold vdiff. rewrite qlen_map, qlen_qnat, combine_length, Hl, Nat.min_id. reflexivity. }
  assert (Hls : qlen (vsum win y) = qnat (length y)).
  { unfold vsum. rewrite qlen_map, qlen_qnat, combine_length, Hl, Nat.min_id. reflexivity. }
  unfold bcdc_pair. f_equal.
  - rewrite <- (Qcabs_pos (mu2 (vdiff win y))) by (apply mu2_nonneg; exact Hd). f_equal.
    rewrite mu2_identity by exact Hd. unfold qmean.
    rewrite qlen_map, Hld, sqdist_vdiff, (sqdist_expand win y Hl), (qsum_vdiff win y Hl).
    unfold sq. field. exact Hnz.
  - rewrite <- (Qcabs_pos (mu2 (vsum win y))) by (apply mu2_nonneg; exact Hs). f_equal.
    rewrite mu2_identity by exact Hs. unfold qmean.
    rewrite qlen_map, Hls, (sqsum_expand win y Hl), (qsum_vsum win y Hl).
    unfold sq. field. exact Hnz.
Qed.

(* ================================================================ pad *)
Local Open Scope nat_scope.

Lemma ravel_unravel shape : forall idx, in_range shape idx ->
  ravel shape idx < prodn shape /\ unravel shape (ravel shape idx) = idx.
Proof.
  unfold in_range. induction shape as [|s ss IH]; intros idx H; inversion H as [|i s' is_ ss' Hi Hr]; subst.
  - cbn. split; [lia|reflexivity].
  - destruct (IH is_ Hr) as [Hlt Hun]. cbn [ravel unravel prodn fold_right]. fold (prodn ss).
    set (P := prodn ss) in *. set (r := ravel ss is_) in *.
    assert (HP : P <> 0) by lia.
    split; [nia|].
    rewrite Nat.div_add_l, Nat.div_small, Nat.add_0_r by assumption.
    rewrite Nat.add_comm, Nat.mod_add, Nat.mod_small by assumption.
    rewrite Hun. reflexivity.
Qed.

Theorem pad_entry {A} (shape : list nat) (flat : list A) target offs pw out idx :
  pad shape flat target offs pw = Some out -> in_range target idx ->
  nth (ravel target idx) out pw
  = if inside offs shape idx then nth (ravel shape (sub_idx idx offs)) flat pw else pw.
Proof.
  unfold pad. destruct (fits offs shape target); [|discriminate].
  intros E Hin. inversion E; subst. clear E.
  destruct (ravel_unravel target idx Hin) as [Hlt Hun].
  rewrite (nth_map_seq (fun k => if inside offs shape (unravel target k)
                                 then nth (ravel shape (sub_idx (unravel target k) offs)) flat pw else pw))
    by exact Hlt.
  rewrite Hun. reflexivity.
Qed.

Theorem pad_length {A} (shape : list nat) (flat : list A) target offs pw out :
  pad shape flat target offs pw = Some out -> length out = prodn target.
Proof.
  unfold pad. destruct (fits offs shape target); [|discriminate].
  intros E. inversion E. rewrite map_length, seq_length. reflexivity.
Qed.

(* the array fits: same number of dimensions and offset + extent <= target in every dimension *)
Inductive fits_P : list nat -> list nat -> list nat -> Prop :=
| fits_nil : fits_P [] [] []
| fits_cons o s t os ss ts : o + s <= t -> fits_P os ss ts -> fits_P (o :: os) (s :: ss) (t :: ts).

Lemma fits_iff offs : forall shape target, fits offs shape target = true <-> fits_P offs shape target.
Proof.
  induction offs as [|o os IH]; intros [|s ss] [|t ts]; cbn [fits]; split; intros H;
    try discriminate; try (inversion H; fail); try constructor.
  - apply andb_true_iff in H. destruct H as [H _]. apply Nat.leb_le in H. exact H.
  - apply andb_true_iff in H. destruct H as [_ H]. apply IH. exact H.
  - inversion H; subst. apply andb_true_iff. split; [apply Nat.leb_le; assumption|apply IH; assumption].
Qed.

Theorem pad_accepts_iff {A} (shape : list nat) (flat : list A) target offs pw :
  (exists out, pad shape flat target offs pw = Some out) <-> fits_P offs shape target.
Proof.
  rewrite <- fits_iff. unfold pad. destruct (fits offs shape target); split; intros H; try reflexivity; try discriminate.
  - eexists. reflexivity.
  - destruct H as (out & H). discriminate.
Qed.

(* inside the placed block, the source multi-index is in range of the array *)
Lemma inside_in_range offs : forall shape idx, inside offs shape idx = true -> in_range shape (sub_idx idx offs).
Proof.
  unfold in_range. induction offs as [|o os IH]; intros [|s ss] [|i is_]; cbn [inside sub_idx]; intros H; try discriminate.
  - constructor.
  - apply andb_true_iff in H. destruct H as [H Hr]. apply andb_true_iff in H. destruct H as [H1 H2].
    apply Nat.leb_le in H1. apply Nat.ltb_lt in H2. constructor; [lia|apply IH; exact Hr].
Qed.

(* ================================================================ extract_around_indexes *)
Lemma sequence_map_some {A B} (f : A -> B) l : sequence (map (fun x => Some (f x)) l) = Some (map f l).
Proof. induction l as [|x l IH]; cbn [map sequence]; [reflexivity|]. rewrite IH. reflexivity. Qed.

Lemma take1_in_range data p : (0 <= p < Z.of_nat (length data))%Z -> take1 data p = Some (nth (Z.to_nat p) data 0%Qc).
Proof.
  intros H. unfold take1.
  replace ((0 <=? p) && (p <? Z.of_nat (length data)))%Z with true; [reflexivity|].
  symmetry. apply andb_true_iff. split; [apply Z.leb_le|apply Z.ltb_lt]; lia.
Qed.

Definition extract_rows (data : list Qc) (idxs : list Z) (before after : nat) : list (list Qc) :=
  map (fun c => map (fun j => nth (Z.to_nat (c - Z.of_nat before) + j) data 0%Qc) (seq 0 (before + after + 1))) idxs.

Definition idx_in_range (data : list Qc) (before after : nat) (c : Z) : Prop :=
  (Z.of_nat before <= c /\ c + Z.of_nat after < Z.of_nat (length data))%Z.

Theorem extract_in_range data idxs before after :
  Forall (idx_in_range data before after) idxs ->
  extract data idxs before after = Some (extract_rows data idxs before after).
Proof.
  intros H. unfold extract, extract_rows.
  rewrite (map_ext_in _ (fun c => Some (map (fun j => nth (Z.to_nat (c - Z.of_nat before) + j) data 0%Qc)
                                            (seq 0 (before + after + 1))))).
  - apply sequence_map_some.
  - intros c Hc. rewrite Forall_forall in H. specialize (H c Hc). unfold idx_in_range in H.
    rewrite (map_ext_in _ (fun j => Some (nth (Z.to_nat (c - Z.of_nat before) + j) data 0%Qc))).
    + apply sequence_map_some.
    + intros j Hj. apply in_seq in Hj. rewrite take1_in_range by lia. f_equal. f_equal. lia.
Qed.

Theorem extract_entry data idxs before after k j :
  Forall (idx_in_range data before after) idxs -> k < length idxs -> j <= before + after ->
  exists rows, extract data idxs before after = Some rows /\ length rows = length idxs
    /\ length (nth k rows []) = before + after + 1
    /\ nth j (nth k rows []) 0%Qc = nth (Z.to_nat (nth k idxs 0%Z - Z.of_nat before) + j) data 0%Qc.
Proof.
  intros H Hk Hj. exists (extract_rows data idxs before after).
  split; [apply extract_in_range; exact H|]. unfold extract_rows.
  split; [apply map_length|].
  set (row := fun c => map (fun j0 => nth (Z.to_nat (c - Z.of_nat before) + j0) data 0%Qc) (seq 0 (before + after + 1))).
  assert (E : nth k (map row idxs) [] = row (nth k idxs 0%Z)).
  { rewrite (nth_indep _ [] (row 0%Z)) by (rewrite map_length; exact Hk). apply map_nth. }
  rewrite E. unfold row. split; [rewrite map_length, seq_length; reflexivity|].
  rewrite (nth_map_seq (fun j0 => nth (Z.to_nat (nth k idxs 0%Z - Z.of_nat before) + j0) data 0%Qc)) by lia.
  reflexivity.
Qed.

Theorem extract_concat_in_range data idxs before after :
  Forall (idx_in_range data before after) idxs ->
  extract_concat data idxs before after = Some (concat (extract_rows data idxs before after)).
Proof. intros H. unfold extract_concat. rewrite extract_in_range by exact H. reflexivity. Qed.

Theorem extract_average_in_range data idxs before after :
  Forall (idx_in_range data before after) idxs ->
  extract_average data idxs before after
  = Some (map (fun j => qmean (map (fun c => nth (Z.to_nat (c - Z.of_nat before) + j) data 0%Qc) idxs))
              (seq 0 (before + after + 1))).
Proof.
  intros H. unfold extract_average. rewrite extract_in_range by exact H. f_equal.
  apply map_ext_in. intros j Hj. apply in_seq in Hj. f_equal. unfold extract_rows. rewrite map_map.
  apply map_ext. intros c.
  rewrite (nth_map_seq (fun j0 => nth (Z.to_nat (c - Z.of_nat before) + j0) data 0%Qc)) by lia. reflexivity.
Qed.

(* ================================================================ n-D arrays: every lane along the axis *)
Lemma flat_map_length_const {A B} (f : A -> list B) (l : list A) n :
  (forall a, In a l -> length (f a) = n) -> length (flat_map f l) = length l * n.
Proof.
  induction l as [|a l IH]; intros H; cbn; [reflexivity|].
  rewrite app_length, H by (left; reflexivity).
  rewrite IH by (intros; apply H; right; assumption). reflexivity.
Qed.

Lemma nth_flat_map_const {A B} (d : B) (f : A -> list B) (da : A) n :
  forall (l : list A) q r, (forall a, length (f a) = n) -> r < n -> q < length l ->
  nth (q * n + r) (flat_map f l) d = nth r (f (nth q l da)) d.
Proof.
  induction l as [|a l IH]; intros q r Hlen Hr Hq; cbn in *; [lia|].
  destruct q as [|q].
  - cbn. rewrite app_nth1 by (rewrite Hlen; exact Hr). reflexivity.
  - rewrite app_nth2 by (rewrite Hlen; cbn; lia).
    rewrite Hlen. replace (S q * n + r - n) with (q * n + r) by (cbn; lia).
    apply IH; [assumption|assumption|lia].
Qed.

Theorem map_lanes_entry {A B} (dA : A) (dB : B) (f : list A -> list B) L' outer L inner flat o j i :
  o < outer -> j < L' -> i < inner ->
  nth ((o * L' + j) * inner + i) (map_lanes dA dB f L' outer L inner flat) dB
  = nth j (f (lane dA L inner flat o i)) dB.
Proof.
  intros Ho Hj Hi. unfold map_lanes.
  replace ((o * L' + j) * inner + i) with (o * (L' * inner) + (j * inner + i)) by lia.
  rewrite (nth_flat_map_const dB _ 0 (L' * inner)).
  - rewrite seq_nth by exact Ho. cbn [Nat.add].
    rewrite (nth_flat_map_const dB _ 0 inner).
    + rewrite seq_nth by exact Hj. cbn [Nat.add].
      rewrite map_map.
      rewrite (nth_map_seq (fun x => nth j (f (lane dA L inner flat o x)) dB)) by exact Hi. reflexivity.
    + intros a. rewrite !map_length, seq_length. reflexivity.
    + exact Hi.
    + rewrite seq_length. exact Hj.
  - intros a. rewrite (flat_map_length_const _ _ inner).
    + rewrite seq_length. reflexivity.
    + intros j0 _. rewrite !map_length, seq_length. reflexivity.
  - nia.
  - rewrite seq_length. exact Ho.
Qed.

Theorem map_lanes_length {A B} (dA : A) (dB : B) (f : list A -> list B) L' outer L inner flat :
  length (map_lanes dA dB f L' outer L inner flat) = outer * (L' * inner).
Proof.
  unfold map_lanes. rewrite (flat_map_length_const _ _ (L' * inner)).
  - rewrite seq_length. reflexivity.
  - intros o _. rewrite (flat_map_length_const _ _ inner).
    + rewrite seq_length. reflexivity.
    + intros j0 _. rewrite !map_length, seq_length. reflexivity.
Qed.

Lemma lane_length {A} (d : A) L inner flat o i : length (lane d L inner flat o i) = L.
Proof. unfold lane. rewrite map_length, seq_length. reflexivity. Qed.

(* entry (o, j, i) of a windowed operator along an axis = the statistic g of window j of lane (o, i) *)
Theorem along_axis_windows_entry {B} (dB : B) (g : list Qc -> B) w shape axis flat o j i :
  o < outer_of shape axis -> j < len_of shape axis + 1 - w -> i < inner_of shape axis ->
  nth ((o * (len_of shape axis + 1 - w) + j) * inner_of shape axis + i)
      (along_axis dB (fun ln => map g (windows w ln)) (len_of shape axis + 1 - w) shape axis flat) dB
  = g (firstn w (skipn j (lane 0%Qc (len_of shape axis) (inner_of shape axis) flat o i))).
Proof.
  intros Ho Hj Hi. unfold along_axis. rewrite map_lanes_entry by assumption.
  set (ln := lane 0%Qc (len_of shape axis) (inner_of shape axis) flat o i).
  assert (Hl : length ln = len_of shape axis) by apply lane_length.
  rewrite (nth_indep _ dB (g [])) by (rewrite map_length, windows_length, Hl; exact Hj).
  rewrite map_nth, nth_windows by (rewrite Hl; exact Hj). reflexivity.
Qed.

Lemma map_lanes_ext {A B} (dA : A) (dB : B) (f f' : list A -> list B) L' outer L inner flat :
  (forall ln, f ln = f' ln) -> map_lanes dA dB f L' outer L inner flat = map_lanes dA dB f' L' outer L inner flat.
Proof.
  intros H. unfold map_lanes. cbv zeta.
  assert (E : forall o, map (fun i => f (lane dA L inner flat o i)) (seq 0 inner)
                       = map (fun i => f' (lane dA L inner flat o i)) (seq 0 inner))
    by (intros o; apply map_ext; intros i; apply H).
  clear H. induction (seq 0 outer) as [|o l IH]; cbn [flat_map]; [reflexivity|]. rewrite E, IH. reflexivity.
Qed.

Theorem moving_sum_nd_entry w shape axis flat o j i : 1 <= w ->
  o < outer_of shape axis -> j < len_of shape axis + 1 - w -> i < inner_of shape axis ->
  nth ((o * (len_of shape axis + 1 - w) + j) * inner_of shape axis + i) (moving_sum_nd w shape axis flat) 0%Qc
  = qsum (firstn w (skipn j (lane 0%Qc (len_of shape axis) (inner_of shape axis) flat o i))).
Proof.
  intros Hw Ho Hj Hi. unfold moving_sum_nd, along_axis.
  rewrite (map_lanes_ext _ _ (moving_sum w) (fun ln => map qsum (windows w ln)))
    by (intros ln; apply moving_sum_windows; exact Hw).
  apply (along_axis_windows_entry 0%Qc qsum); assumption.
Qed.

(* the let-bound forms used by the check functions are the spec definitions *)
Lemma mu2_let_eq l : mu2_let l = mu2 l. Proof. reflexivity. Qed.
Lemma mu3_let_eq l : mu3_let l = mu3 l. Proof. reflexivity. Qed.
Lemma mu4_let_eq l : mu4_let l = mu4 l. Proof. reflexivity. Qed.
Lemma ssd_let_eq l : ssd_let l = ssd l. Proof. reflexivity. Qed.
Lemma scd_let_eq l : scd_let l = scd l. Proof. reflexivity. Qed.
Lemma pearson_let_eq a b : (scd_let (combine a b), ssd_let a, ssd_let b) = pearson_triple a b. Proof. reflexivity. Qed.
Lemma bcdc_let_eq a b : (mu2_let (vdiff a b), mu2_let (vsum a b)) = bcdc_pair a b. Proof. reflexivity. Qed.
