(* Proofs/Mia.v — lemmas and proofs for property C13 (model: Model/Mia.v).  Everything here is axiom-free;
   the real-number part (non-negativity) is in Proofs/MiaReal.v. *)
From Coq Require Import ZArith QArith Qcanon Qround List Bool Lia.
From ScaredV Require Import Run.Compare Lib.QcSum Model.Accum Model.Mia.
Import ListNotations.
Local Open Scope Qc_scope.

(* ========================================================================================== comparisons *)
Lemma Qcltb_spec a b : Qcltb a b = true <-> a < b.
Proof. unfold Qcltb. rewrite Qclt_alt. destruct (a ?= b); split; congruence. Qed.

Lemma Qcleb_spec a b : Qcleb a b = true <-> a <= b.
Proof. unfold Qcleb. rewrite Qcle_alt. destruct (a ?= b); split; congruence. Qed.

Lemma Qceqb_spec a b : Qceqb a b = true <-> a = b.
Proof. unfold Qceqb. rewrite Qceq_alt. destruct (a ?= b); split; congruence. Qed.

Lemma Qcltb_false a b : Qcltb a b = false <-> b <= a.
Proof.
  split; intros H.
  - apply Qcnot_lt_le. intros L. apply Qcltb_spec in L. congruence.
  - destruct (Qcltb a b) eqn:E; [|reflexivity]. apply Qcltb_spec in E. exfalso. exact (Qcle_not_lt _ _ H E).
Qed.

Lemma Qcleb_false a b : Qcleb a b = false <-> b < a.
Proof.
  split; intros H.
  - apply Qcnot_le_lt. intros L. apply Qcleb_spec in L. congruence.
  - destruct (Qcleb a b) eqn:E; [|reflexivity]. apply Qcleb_spec in E. exfalso. exact (Qclt_not_le _ _ H E).
Qed.

Lemma Qceqb_false a b : Qceqb a b = false <-> a <> b.
Proof.
  split; intros H.
  - intros E. apply Qceqb_spec in E. congruence.
  - destruct (Qceqb a b) eqn:E; [|reflexivity]. apply Qceqb_spec in E. contradiction.
Qed.

Lemma Qclt_irrefl' (a : Qc) : ~ a < a.
Proof. intros H. exact (Qclt_not_le _ _ H (Qcle_refl a)). Qed.

(* more fuel than nbins - 1 - b never changes the result of the upward loop: the fuel is not a restriction *)
Lemma settle_up_fuel (edges : list Qc) (x : Qc) : forall f1 f2 b,
  (nbins edges - 1 - b <= f1)%nat -> (nbins edges - 1 - b <= f2)%nat -> settle_up edges x f1 b = settle_up edges x f2 b.
Proof.
  induction f1 as [|f1 IH]; intros f2 b H1 H2.
  - destruct f2 as [|f2]; cbn [settle_up]; [reflexivity|].
    assert (E : Nat.ltb b (nbins edges - 1) = false) by (apply Nat.ltb_ge; lia). rewrite E. reflexivity.
  - destruct f2 as [|f2]; cbn [settle_up].
    + assert (E : Nat.ltb b (nbins edges - 1) = false) by (apply Nat.ltb_ge; lia). rewrite E. reflexivity.
    + destruct (Nat.ltb b (nbins edges - 1)) eqn:E1; cbn [andb]; [|reflexivity].
      apply Nat.ltb_lt in E1.
      destruct (Qcleb (edge edges (S b)) x); [|reflexivity]. apply IH; lia.
Qed.

(* ========================================================================================== bin index *)
Section BinProofs.
  Variable edges : list Qc.
  Variable est : Qc -> nat.
  Let nb := nbins edges.
  Let e := edge edges.

  Hypothesis Hlen : (2 <= length edges)%nat.
  Hypothesis Hinc : increasing edges.

  Lemma nb_pos : (1 <= nb)%nat.
  Proof. unfold nb, nbins. lia. Qed.

  Lemma edges_lt i j : (i < j)%nat -> (j <= nb)%nat -> e i < e j.
  Proof.
    intros Hij Hj. induction j as [|j IH]; [lia|].
    assert (Hs : e j < e (S j)) by (apply Hinc; unfold nb, nbins in Hj; lia).
    destruct (Nat.eq_dec i j) as [->|Hne]; [exact Hs|].
    apply Qclt_trans with (y := e j); [apply IH; lia|exact Hs].
  Qed.

  Lemma edges_le i j : (i <= j)%nat -> (j <= nb)%nat -> e i <= e j.
  Proof.
    intros Hij Hj. destruct (Nat.eq_dec i j) as [->|Hne]; [apply Qcle_refl|].
    apply Qclt_le_weak, edges_lt; lia.
  Qed.

  (* the downward loop stops at 0 or on an edge that is <= x, and never goes up *)
  Lemma settle_down_spec x b :
    let r := settle_down edges x b in (r <= b)%nat /\ (r = 0%nat \/ e r <= x).
  Proof.
    induction b as [|b IH]; cbn [settle_down]; [split; [lia|left; reflexivity]|].
    destruct (Qcltb x (edge edges (S b))) eqn:E.
    - destruct IH as [IH1 IH2]. split; [lia|exact IH2].
    - split; [lia|right]. apply Qcltb_false in E. exact E.
  Qed.

  (* the upward loop, started on an edge <= x with enough fuel, stops in the bin that holds x *)
  Lemma settle_up_spec x : x < e nb -> forall fuel b,
    (b <= nb - 1)%nat -> (nb - 1 - b <= fuel)%nat -> e b <= x ->
    let r := settle_up edges x fuel b in (r <= nb - 1)%nat /\ e r <= x /\ x < e (S r).
  Proof.
    intros Hhi. pose proof nb_pos as Hnb.
    induction fuel as [|f IH]; intros b Hb Hf Hx; cbn [settle_up].
    - assert (b = (nb - 1)%nat) by lia. subst b. repeat split; [lia|exact Hx|].
      replace (S (nb - 1)) with nb by lia. exact Hhi.
    - fold nb. destruct (Nat.ltb b (nb - 1)) eqn:E1; cbn [andb].
      + apply Nat.ltb_lt in E1.
        destruct (Qcleb (edge edges (S b)) x) eqn:E2.
        * apply Qcleb_spec in E2. apply IH; [lia|lia|exact E2].
        * apply Qcleb_false in E2. repeat split; [lia|exact Hx|exact E2].
      + apply Nat.ltb_ge in E1. assert (b = (nb - 1)%nat) by lia. subst b. repeat split; [lia|exact Hx|].
        replace (S (nb - 1)) with nb by lia. exact Hhi.
  Qed.

  (* ---- the three clauses of bin_correct *)
  Lemma bin_inside x : e 0%nat <= x -> x < e nb ->
    exists b, bin_index edges est x = Some b /\ (b < nb)%nat /\ e b <= x /\ x < e (S b).
  Proof.
    intros Hlo Hhi. pose proof nb_pos as Hnb. unfold bin_index. fold nb.
    assert (E1 : Qcleb (e 0%nat) x = true) by (apply Qcleb_spec; exact Hlo).
    assert (E2 : Qcltb x (e nb) = true) by (apply Qcltb_spec; exact Hhi).
    unfold e in E1, E2. rewrite E1, E2. cbn [andb].
    set (b1 := if Nat.ltb (nb - 1) (est x) then (nb - 1)%nat else est x).
    assert (Hb1 : (b1 <= nb - 1)%nat).
    { unfold b1. destruct (Nat.ltb (nb - 1) (est x)) eqn:E; [lia|]. apply Nat.ltb_ge in E. exact E. }
    destruct (settle_down_spec x b1) as [Hd1 Hd2].
    set (b2 := settle_down edges x b1) in *.
    assert (Hx2 : e b2 <= x) by (destruct Hd2 as [->|H]; [exact Hlo|exact H]).
    destruct (settle_up_spec x Hhi (nb - 1 - b2) b2) as (Hr1 & Hr2 & Hr3); [lia|lia|exact Hx2|].
    eexists. split; [reflexivity|]. repeat split; [lia|exact Hr2|exact Hr3].
  Qed.

  Lemma bin_last x : x = e nb -> bin_index edges est x = Some (nb - 1)%nat.
  Proof.
    intros ->. unfold bin_index. fold nb.
    assert (E2 : Qcltb (e nb) (e nb) = false) by (apply Qcltb_false; apply Qcle_refl).
    unfold e in *. rewrite E2, andb_false_r.
    assert (E3 : Qceqb (edge edges nb) (edge edges nb) = true) by (apply Qceqb_spec; reflexivity).
    rewrite E3. reflexivity.
  Qed.

  Lemma bin_outside x : x < e 0%nat \/ e nb < x -> bin_index edges est x = None.
  Proof.
    intros H. pose proof nb_pos as Hnb. unfold bin_index. fold nb.
    assert (H0n : e 0%nat < e nb) by (apply edges_lt; lia).
    destruct H as [H|H].
    - assert (E1 : Qcleb (e 0%nat) x = false) by (apply Qcleb_false; exact H).
      unfold e in *. rewrite E1. cbn [andb].
      assert (E3 : Qceqb x (edge edges nb) = false).
      { apply Qceqb_false. intros ->. exact (Qclt_irrefl' _ (Qclt_trans _ _ _ H0n H)). }
      rewrite E3. reflexivity.
    - assert (E2 : Qcltb x (e nb) = false) by (apply Qcltb_false, Qclt_le_weak; exact H).
      unfold e in *. rewrite E2, andb_false_r.
      assert (E3 : Qceqb x (edge edges nb) = false).
      { apply Qceqb_false. intros ->. exact (Qclt_irrefl' _ H). }
      rewrite E3. reflexivity.
  Qed.

  (* ---- the spec relation is functional, and the code computes it *)
  Lemma in_bin_unique x b b' : in_bin edges x b -> in_bin edges x b' -> b = b'.
  Proof.
    assert (W : forall b b', (b < b')%nat -> in_bin edges x b -> in_bin edges x b' -> False).
    { intros c c' Hlt (Hc & _ & Hup) (Hc' & Hlo' & _). fold nb in Hc, Hup, Hc'. fold e in Hup, Hlo'.
      assert (Hle : e (S c) <= e c') by (apply edges_le; lia).
      destruct Hup as [Hup|[Hup _]]; [|lia].
      exact (Qclt_not_le _ _ Hup (Qcle_trans _ _ _ Hle Hlo')). }
    intros H H'. destruct (Nat.lt_trichotomy b b') as [L|[E|L]]; [exfalso; eauto|exact E|exfalso; eauto].
  Qed.

  Lemma in_bin_range x b : in_bin edges x b -> e 0%nat <= x /\ x <= e nb.
  Proof.
    intros (Hb & Hlo & Hup). fold nb in Hb, Hup. fold e in Hlo, Hup. split.
    - apply Qcle_trans with (y := e b); [apply edges_le; lia|exact Hlo].
    - destruct Hup as [Hup|[Hs ->]].
      + apply Qclt_le_weak. apply Qclt_le_trans with (y := e (S b)); [exact Hup|apply edges_le; lia].
      + apply edges_le; lia.
  Qed.

  Lemma bin_index_char x b : bin_index edges est x = Some b <-> in_bin edges x b.
  Proof.
    pose proof nb_pos as Hnb.
    assert (Hlastbin : in_bin edges (e nb) (nb - 1)).
    { unfold in_bin. fold nb. fold e. replace (S (nb - 1)) with nb by lia. repeat split; [lia| |right; split; reflexivity].
      apply edges_le; lia. }
    split.
    - intros H. destruct (Qclt_le_dec x (e 0%nat)) as [L|L].
      { rewrite bin_outside in H by (left; exact L). discriminate. }
      destruct (Qclt_le_dec x (e nb)) as [U|U].
      + destruct (bin_inside x L U) as (b' & Hb' & Hlt & Hl & Hu). rewrite Hb' in H. injection H as <-.
        unfold in_bin. fold nb. fold e. repeat split; [exact Hlt|exact Hl|left; exact Hu].
      + destruct (Qc_eq_dec x (e nb)) as [->|Hne].
        * rewrite bin_last in H by reflexivity. injection H as <-. exact Hlastbin.
        * rewrite bin_outside in H; [discriminate|]. right.
          destruct (Qclt_le_dec (e nb) x) as [G|G]; [exact G|]. exfalso. apply Hne. apply Qcle_antisym; assumption.
    - intros H. destruct (in_bin_range x b H) as [L U].
      destruct (Qc_eq_dec x (e nb)) as [->|Hne].
      + rewrite bin_last by reflexivity. f_equal. exact (in_bin_unique _ _ _ Hlastbin H).
      + assert (U' : x < e nb).
        { destruct (Qclt_le_dec x (e nb)) as [G|G]; [exact G|]. exfalso. apply Hne. apply Qcle_antisym; assumption. }
        destruct (bin_inside x L U') as (b' & Hb' & Hlt & Hl & Hu). rewrite Hb'. f_equal.
        apply (in_bin_unique x); [|exact H]. unfold in_bin. fold nb. fold e. repeat split; [exact Hlt|exact Hl|left; exact Hu].
  Qed.

  Lemma in_binb_spec x b : (b < nb)%nat -> (in_binb edges x b = true <-> in_bin edges x b).
  Proof.
    intros Hb. unfold in_binb, in_bin. fold nb. fold e.
    rewrite andb_true_iff, orb_true_iff, andb_true_iff, Qcleb_spec, Qcltb_spec, Qceqb_spec, Nat.eqb_eq.
    tauto.
  Qed.

  Lemma bin_spec_char x b : bin_spec edges x = Some b <-> in_bin edges x b.
  Proof.
    unfold bin_spec. fold nb. split.
    - intros H. apply find_some in H. destruct H as [Hin Hb]. apply in_seq in Hin.
      apply in_binb_spec; [lia|exact Hb].
    - intros H. assert (Hb : (b < nb)%nat) by (destruct H as [Hb _]; exact Hb).
      destruct (find (in_binb edges x) (seq 0 nb)) as [b'|] eqn:F.
      + apply find_some in F. destruct F as [Hin Hb']. apply in_seq in Hin.
        f_equal. apply (in_bin_unique x); [|exact H]. apply in_binb_spec; [lia|exact Hb'].
      + exfalso. assert (Hf := find_none _ _ F b). rewrite (proj2 (in_binb_spec x b Hb) H) in Hf.
        assert (In b (seq 0 nb)) by (apply in_seq; lia). specialize (Hf H0). discriminate.
  Qed.

  Theorem bin_index_is_spec x : bin_index edges est x = bin_spec edges x.
  Proof.
    destruct (bin_index edges est x) as [b|] eqn:E1.
    - symmetry. apply bin_spec_char. apply bin_index_char. exact E1.
    - destruct (bin_spec edges x) as [b|] eqn:E2; [|reflexivity].
      apply bin_spec_char, bin_index_char in E2. congruence.
  Qed.
End BinProofs.

(* the statement of the property, all in one: for strictly increasing edges and EVERY estimator *)
Theorem bin_correct_thm (edges : list Qc) (est : Qc -> nat) :
  (2 <= length edges)%nat -> increasing edges ->
  let nb := nbins edges in
  forall x,
    (edge edges 0 <= x -> x < edge edges nb ->
       exists b, bin_index edges est x = Some b /\ (b < nb)%nat /\ edge edges b <= x /\ x < edge edges (S b))
    /\ (x = edge edges nb -> bin_index edges est x = Some (nb - 1)%nat)
    /\ (x < edge edges 0 \/ edge edges nb < x -> bin_index edges est x = None).
Proof.
  intros Hlen Hinc nb x. repeat split.
  - apply bin_inside; assumption.
  - apply bin_last.
  - apply bin_outside; assumption.
Qed.

(* the estimator is irrelevant *)
Corollary bin_index_est_irrelevant (edges : list Qc) (est1 est2 : Qc -> nat) x :
  (2 <= length edges)%nat -> increasing edges -> bin_index edges est1 x = bin_index edges est2 x.
Proof. intros H1 H2. rewrite !bin_index_is_spec by assumption. reflexivity. Qed.

(* without the correction the estimate alone misbins: with edges [0;49;98] an estimator returning 0 on x = 49 (which is
   what int(49 * (2 / 98)) gives in binary64: 0.99999999999999989) leaves 49 in bin 0; the corrected kernel does not *)
Definition bin_uncorrected (edges : list Qc) (est : Qc -> nat) (x : Qc) : option nat :=
  let nb := nbins edges in
  if Qcleb (edge edges 0) x && Qcltb x (edge edges nb) then Some (est x)
  else if Qceqb x (edge edges nb) then Some (nb - 1)%nat else None.

(* ========================================================================================== class look-up table *)
Lemma class_from_none parts : forall i v, class_from parts i v = None <-> ~ In v parts.
Proof.
  induction parts as [|p r IH]; intros i v; cbn [class_from In]; [tauto|].
  destruct (class_from r (S i) v) as [k|] eqn:E.
  - split; [discriminate|]. intros H. exfalso.
    assert (E' : class_from r (S i) v <> None) by congruence. apply E'. apply IH. tauto.
  - apply IH in E. destruct (Z.eqb p v) eqn:Epv.
    + apply Z.eqb_eq in Epv. split; [discriminate|]. tauto.
    + apply Z.eqb_neq in Epv. split; [|reflexivity]. tauto.
Qed.

(* "last declaration wins": class_of parts v = Some k iff parts[k] = v and v is not declared again after k *)
Lemma class_from_spec parts : forall i v k,
  class_from parts i v = Some k <->
  exists j, k = (i + j)%nat /\ nth_error parts j = Some v /\ forall j', (j < j')%nat -> nth_error parts j' <> Some v.
Proof.
  induction parts as [|p r IH]; intros i v k; cbn [class_from].
  - split; [discriminate|]. intros (j & _ & H & _). destruct j; discriminate.
  - destruct (class_from r (S i) v) as [k'|] eqn:E.
    + apply IH in E. destruct E as (j & -> & Hj & Hlast). split.
      * intros H. injection H as <-. exists (S j). repeat split; [lia|exact Hj|].
        intros [|j'] Hlt; [lia|]. cbn. apply Hlast. lia.
      * intros (j2 & -> & Hj2 & Hlast2). f_equal.
        destruct (Nat.lt_trichotomy (S j) j2) as [L|[Eq|L]]; [|lia|].
        -- destruct j2 as [|j2]; [lia|]. cbn in Hj2. exfalso. apply (Hlast j2); [lia|exact Hj2].
        -- exfalso. apply (Hlast2 (S j)); [exact L|exact Hj].
    + apply class_from_none in E.
      assert (Hnone : forall j, nth_error r j <> Some v).
      { intros j Hj. apply E. eapply nth_error_In. exact Hj. }
      destruct (Z.eqb p v) eqn:Epv.
      * apply Z.eqb_eq in Epv. subst p. split.
        -- intros H. injection H as <-. exists 0%nat. repeat split; [lia|].
           intros [|j'] Hlt; [lia|]. cbn. apply Hnone.
        -- intros (j & -> & Hj & _). destruct j as [|j]; [f_equal; lia|]. cbn in Hj. exfalso. exact (Hnone j Hj).
      * apply Z.eqb_neq in Epv. split; [discriminate|].
        intros (j & _ & Hj & _). destruct j as [|j]; cbn in Hj; [congruence|]. exfalso. exact (Hnone j Hj).
Qed.

Theorem class_of_spec parts v k :
  class_of parts v = Some k <->
  nth_error parts k = Some v /\ forall j, (k < j)%nat -> nth_error parts j <> Some v.
Proof.
  unfold class_of. rewrite class_from_spec. split.
  - intros (j & -> & H1 & H2). cbn. split; assumption.
  - intros [H1 H2]. exists k. repeat split; assumption.
Qed.

Theorem class_of_undeclared parts v : class_of parts v = None <-> ~ In v parts.
Proof. apply class_from_none. Qed.

Corollary class_of_nodup parts v k : NoDup parts -> (class_of parts v = Some k <-> nth_error parts k = Some v).
Proof.
  intros Hnd. rewrite class_of_spec. split; [tauto|]. intros H. split; [exact H|].
  intros j Hlt Hj. rewrite NoDup_nth_error in Hnd.
  assert (k = j); [|lia]. apply Hnd; [|congruence]. apply nth_error_Some. congruence.
Qed.

(* ========================================================================================== zero-padded tables: monoid *)
Section Padd.
  Variable A : Type.
  Variable op : A -> A -> A.
  Hypothesis op_assoc : forall a b c, op a (op b c) = op (op a b) c.

  Lemma padd_nil_l (l : list A) : padd op [] l = l.
  Proof. reflexivity. Qed.
  Lemma padd_nil_r (l : list A) : padd op l [] = l.
  Proof. destruct l; reflexivity. Qed.
  Lemma padd_assoc (l1 l2 l3 : list A) : padd op l1 (padd op l2 l3) = padd op (padd op l1 l2) l3.
  Proof.
    revert l2 l3. induction l1 as [|a l1 IH]; intros l2 l3; [reflexivity|].
    destruct l2 as [|b l2]; [reflexivity|]. destruct l3 as [|c l3]; [reflexivity|].
    cbn [padd]. rewrite op_assoc, IH. reflexivity.
  Qed.
  Lemma padd_comm : (forall a b, op a b = op b a) -> forall l1 l2, padd op l1 l2 = padd op l2 l1.
  Proof.
    intros Hc. induction l1 as [|a l1 IH]; intros l2; [symmetry; apply padd_nil_r|].
    destruct l2 as [|b l2]; [reflexivity|]. cbn [padd]. rewrite Hc, IH. reflexivity.
  Qed.
  (* reading with a default that is neutral for op *)
  Lemma nth_padd (d : A) : (forall x, op d x = x) -> (forall x, op x d = x) ->
    forall l1 l2 i, nth i (padd op l1 l2) d = op (nth i l1 d) (nth i l2 d).
  Proof.
    intros Hl Hr. induction l1 as [|a l1 IH]; intros l2 i.
    - cbn [padd]. destruct i; cbn [nth]; rewrite Hl; reflexivity.
    - destruct l2 as [|b l2].
      + cbn [padd]. destruct i; cbn [nth]; rewrite Hr; reflexivity.
      + cbn [padd]. destruct i as [|i]; cbn [nth]; [reflexivity|apply IH].
  Qed.
End Padd.

Theorem st_plus_assoc (a b c : st) : st_plus a (st_plus b c) = st_plus (st_plus a b) c.
Proof. unfold st_plus. apply padd_assoc. intros x y z. apply padd_assoc. intros; lia. Qed.
Theorem st_plus_zero_l (a : st) : st_plus st_zero a = a.
Proof. reflexivity. Qed.
Theorem st_plus_zero_r (a : st) : st_plus a st_zero = a.
Proof. unfold st_plus, st_zero. apply padd_nil_r. Qed.
Theorem st_plus_comm (a b : st) : st_plus a b = st_plus b a.
Proof. unfold st_plus. apply padd_comm. intros x y. apply padd_comm. intros; lia. Qed.

Lemma get_plus (s t : st) b k : get (st_plus s t) b k = (get s b k + get t b k)%Z.
Proof.
  unfold get, st_plus.
  rewrite (nth_padd _ (padd Z.add) []); [|reflexivity|intros x; apply padd_nil_r].
  apply nth_padd; intros; lia.
Qed.

Lemma get_zero b k : get st_zero b k = 0%Z.
Proof. unfold get, st_zero. destruct b, k; reflexivity. Qed.

Lemma nth_repeat_app {A} (d v : A) n i : nth i (repeat d n ++ [v]) d = if Nat.eqb i n then v else d.
Proof.
  revert i. induction n as [|n IH]; intros i; cbn [repeat app].
  - destruct i as [|i]; cbn; [reflexivity|destruct i; reflexivity].
  - destruct i as [|i]; cbn [nth Nat.eqb]; [reflexivity|apply IH].
Qed.

Lemma get_unit b k b' k' : get (unit_at b k) b' k' = if Nat.eqb b' b && Nat.eqb k' k then 1%Z else 0%Z.
Proof.
  unfold get, unit_at. rewrite nth_repeat_app. destruct (Nat.eqb b' b); cbn [andb].
  - apply nth_repeat_app.
  - destruct k'; reflexivity.
Qed.

(* ========================================================================================== histogram = count *)
Section HistProofs.
  Variable edges : list Qc.
  Variable est : Qc -> nat.
  Variable parts : list Z.
  Hypothesis Hlen : (2 <= length edges)%nat.
  Hypothesis Hinc : increasing edges.

  Lemma get_contrib r b k :
    get (contrib edges est parts r) b k = if tag_hits b k (row_tag edges parts r) then 1%Z else 0%Z.
  Proof.
    unfold contrib, row_tag, tag_hits. rewrite (bin_index_is_spec edges est Hlen Hinc).
    destruct (bin_spec edges (fst r)) as [b'|]; [|apply get_zero].
    destruct (class_of parts (snd r)) as [k'|]; [|apply get_zero].
    rewrite get_unit. rewrite (Nat.eqb_sym b b'), (Nat.eqb_sym k k'). reflexivity.
  Qed.

  (* every cell of the accumulator holds the number of traces whose sample is in its bin and whose value is its class *)
  Theorem hist_correct_thm rows b k : get (hist_bsum edges est parts rows) b k = hist_spec edges parts rows b k.
  Proof.
    unfold hist_bsum, hist_spec, count_tags, bsum. induction rows as [|r rows IH]; cbn [fold_right map filter].
    - apply get_zero.
    - rewrite get_plus, IH, get_contrib. destruct (tag_hits b k (row_tag edges parts r)); cbn [length]; lia.
  Qed.
End HistProofs.

(* any split into update() calls gives the one-shot table (instance of Accum.feed_concat) *)
Theorem hist_feed_concat edges est parts batches :
  hist_feed edges est parts batches = hist_bsum edges est parts (concat batches).
Proof.
  unfold hist_feed, hist_bsum.
  rewrite (feed_concat st row st_zero st_plus (contrib edges est parts) st_plus_assoc st_plus_zero_r st_plus_zero_l).
  unfold upd. apply st_plus_zero_l.
Qed.


(* hist_spec spelled out: the count of the traces whose (bin, class) tag is (b, k) *)
Theorem hist_correct_explicit (edges : list Qc) (est : Qc -> nat) (parts : list Z) :
  (2 <= length edges)%nat -> increasing edges ->
  forall (rows : list row) (b k : nat),
  get (hist_bsum edges est parts rows) b k
  = Z.of_nat (length (filter (fun r => match bin_spec edges (fst r), class_of parts (snd r) with
                                       | Some b', Some k' => Nat.eqb b' b && Nat.eqb k' k
                                       | _, _ => false
                                       end) rows)).
Proof.
  intros Hlen Hinc rows b k. rewrite (hist_correct_thm edges est parts Hlen Hinc).
  unfold hist_spec, count_tags. f_equal. induction rows as [|r rows IH]; [reflexivity|].
  cbn [map filter]. unfold tag_hits at 1, row_tag at 1.
  destruct (bin_spec edges (fst r)) as [b'|]; [destruct (class_of parts (snd r)) as [k'|]|]; try exact IH.
  destruct (Nat.eqb b' b && Nat.eqb k' k); cbn [length]; rewrite IH; reflexivity.
Qed.

(* ========================================================================================== sums *)
Lemma qsum_map_scale_r {A} (c : Qc) (f : A -> Qc) l : qsum (map (fun x => f x * c) l) = qsum (map f l) * c.
Proof. induction l as [|x l IH]; cbn [map]; rewrite ?qsum_nil, ?qsum_cons, ?IH; ring. Qed.

Lemma qsum_map_zero {A} (f : A -> Qc) l : (forall x, In x l -> f x = 0) -> qsum (map f l) = 0.
Proof.
  intros H. rewrite (qsum_map_ext f (fun _ => 0) l H). rewrite qsum_map_const. ring.
Qed.

Lemma qsum_swap {A B} (f : A -> B -> Qc) la lb :
  qsum (map (fun a => qsum (map (f a) lb)) la) = qsum (map (fun b => qsum (map (fun a => f a b) la)) lb).
Proof.
  induction la as [|a la IH]; cbn [map].
  - rewrite qsum_nil. symmetry. apply qsum_map_zero. reflexivity.
  - rewrite qsum_cons, IH.
    rewrite (qsum_map_ext (fun b => qsum (map (fun a0 => f a0 b) (a :: la)))
                          (fun b => f a b + qsum (map (fun a0 => f a0 b) la))) by reflexivity.
    rewrite qsum_map_add. reflexivity.
Qed.

Lemma qsum_map_insert {A} (f : A -> Qc) l1 x l2 : qsum (map f (l1 ++ x :: l2)) = f x + qsum (map f (l1 ++ l2)).
Proof. rewrite !map_app, !qsum_app. cbn [map]. rewrite qsum_cons. ring. Qed.

(* ========================================================================================== mutual information over Qc *)
Definition q_nz : Qc -> Qc := nz Qc 1 q_is0.

Lemma q_nz_zero : q_nz 0 = 1.
Proof. reflexivity. Qed.
Lemma q_nz_nonzero x : x <> 0 -> q_nz x = x.
Proof.
  intros H. unfold q_nz, nz, q_is0. destruct (Qceqb x 0) eqn:E; [|reflexivity].
  apply Qceqb_spec in E. contradiction.
Qed.
Lemma q_phiz_eq phi p : q_phiz phi p = phi (q_nz p).
Proof. reflexivity. Qed.
(* when phi 0 = phi 1 (as for x ln x with 0 ln 0 = 0 = 1 ln 1) the replacement of zeros by ones is invisible *)
Lemma q_phiz_id phi : phi 0 = phi 1 -> forall p, q_phiz phi p = phi p.
Proof.
  intros H p. rewrite q_phiz_eq. destruct (Qc_eq_dec p 0) as [->|Hp].
  - rewrite q_nz_zero. symmetry. exact H.
  - rewrite q_nz_nonzero by exact Hp. reflexivity.
Qed.

Lemma qz_0 : qz 0 = 0.
Proof. reflexivity. Qed.

Section MiQ.
  Variable phi : Qc -> Qc.
  Variable t : st.

  Lemma mi_code_unfold bs vs :
    q_mi_code phi t bs vs =
    qsum (map (fun v =>
      qsum (map (fun b => q_phiz phi (q_cnt t b v / q_nz (q_cv t bs v)) - q_phiz phi (q_cb t vs b / q_nz (q_total t bs vs))) bs)
      * (q_cv t bs v / q_total t bs vs)) vs).
  Proof. reflexivity. Qed.

  Lemma q_cb_unfold vs b : q_cb t vs b = qsum (map (fun v => q_cnt t b v) vs).
  Proof. reflexivity. Qed.
  Lemma q_cv_unfold bs v : q_cv t bs v = qsum (map (fun b => q_cnt t b v) bs).
  Proof. reflexivity. Qed.
  Lemma q_total_unfold bs vs : q_total t bs vs = qsum (map (q_cb t vs) bs).
  Proof. reflexivity. Qed.

  (* the class totals add up to the grand total: sum_v c(v) = N = sum_b c(b) *)
  Lemma q_total_by_classes bs vs : q_total t bs vs = qsum (map (q_cv t bs) vs).
  Proof.
    rewrite q_total_unfold.
    rewrite (qsum_map_ext (q_cb t vs) (fun b => qsum (map (fun v => q_cnt t b v) vs))) by reflexivity.
    rewrite (qsum_swap (fun b v => q_cnt t b v)). reflexivity.
  Qed.

  Lemma mi_spec_unfold f bs vs :
    q_mi_spec f t bs vs =
    (0 - qsum (map (fun b => f (q_cb t vs b / q_total t bs vs)) bs))
    - (0 - qsum (map (fun v => (q_cv t bs v / q_total t bs vs) * qsum (map (fun b => f (q_cnt t b v / q_cv t bs v)) bs)) vs)).
  Proof. reflexivity. Qed.

  (* ---- the code's formula is H(B) - H(B|V) *)
  Theorem mi_is_HB_minus_HBV_gen bs vs : q_total t bs vs <> 0 ->
    q_mi_code phi t bs vs = q_mi_spec (q_phiz phi) t bs vs.
  Proof.
    intros HN. rewrite mi_code_unfold, mi_spec_unfold.
    set (N := q_total t bs vs) in *.
    rewrite (q_nz_nonzero N HN).
    set (SB := qsum (map (fun b => q_phiz phi (q_cb t vs b / N)) bs)).
    (* split the inner sum *)
    rewrite (qsum_map_ext
      (fun v => qsum (map (fun b => q_phiz phi (q_cnt t b v / q_nz (q_cv t bs v)) - q_phiz phi (q_cb t vs b / N)) bs) * (q_cv t bs v / N))
      (fun v => (q_cv t bs v / N) * qsum (map (fun b => q_phiz phi (q_cnt t b v / q_cv t bs v)) bs) - SB * (/ N) * q_cv t bs v)).
    - rewrite qsum_map_sub, qsum_map_scale.
      change (qsum (map (fun x => q_cv t bs x) vs)) with (qsum (map (q_cv t bs) vs)).
      rewrite <- q_total_by_classes. fold N. field. exact HN.
    - intros v _. rewrite qsum_map_sub. fold SB.
      destruct (Qc_eq_dec (q_cv t bs v) 0) as [E|E].
      + rewrite E. field. exact HN.
      + rewrite (q_nz_nonzero _ E). field. exact HN.
  Qed.

  Lemma mi_spec_ext f g bs vs : (forall p, f p = g p) -> q_mi_spec f t bs vs = q_mi_spec g t bs vs.
  Proof.
    intros H. rewrite !mi_spec_unfold.
    rewrite (qsum_map_ext (fun b => f (q_cb t vs b / q_total t bs vs)) (fun b => g (q_cb t vs b / q_total t bs vs))) by (intros; apply H).
    rewrite (qsum_map_ext
      (fun v => q_cv t bs v / q_total t bs vs * qsum (map (fun b => f (q_cnt t b v / q_cv t bs v)) bs))
      (fun v => q_cv t bs v / q_total t bs vs * qsum (map (fun b => g (q_cnt t b v / q_cv t bs v)) bs))); [reflexivity|].
    intros v _. f_equal. apply qsum_map_ext. intros; apply H.
  Qed.

  Theorem mi_is_HB_minus_HBV_conv bs vs : phi 0 = phi 1 -> q_total t bs vs <> 0 ->
    q_mi_code phi t bs vs = q_HB phi t bs vs - q_HBV phi t bs vs.
  Proof.
    intros H01 HN. rewrite mi_is_HB_minus_HBV_gen by exact HN.
    rewrite (mi_spec_ext (q_phiz phi) phi) by (apply q_phiz_id; exact H01). reflexivity.
  Qed.

  (* ---- independence: c(b,v) N = c(b) c(v) for all cells  ==>  0 *)
  Theorem mi_zero_when_independent_thm bs vs : q_total t bs vs <> 0 ->
    (forall b v, In b bs -> In v vs -> q_cnt t b v * q_total t bs vs = q_cb t vs b * q_cv t bs v) ->
    q_mi_code phi t bs vs = 0.
  Proof.
    intros HN Hind. rewrite mi_code_unfold. set (N := q_total t bs vs) in *.
    rewrite (q_nz_nonzero N HN).
    apply qsum_map_zero. intros v Hv.
    destruct (Qc_eq_dec (q_cv t bs v) 0) as [E|E].
    - rewrite E. field. exact HN.
    - rewrite (q_nz_nonzero _ E).
      rewrite (qsum_map_zero (fun b => q_phiz phi (q_cnt t b v / q_cv t bs v) - q_phiz phi (q_cb t vs b / N))); [ring|].
      intros b Hb.
      assert (Heq : q_cnt t b v / q_cv t bs v = q_cb t vs b / N).
      { specialize (Hind b v Hb Hv).
        transitivity ((q_cnt t b v * N) / (q_cv t bs v * N)); [field; split; assumption|].
        rewrite Hind. field. split; assumption. }
      rewrite Heq. ring.
  Qed.

  (* ---- empty bins and empty classes *)
  Lemma bin_empty_cnt vs b : bin_empty t vs b = true -> forall v, In v vs -> q_cnt t b v = 0.
  Proof.
    unfold bin_empty. rewrite forallb_forall. intros H v Hv. specialize (H v Hv). apply Z.eqb_eq in H.
    unfold q_cnt, cnt. rewrite H. apply qz_0.
  Qed.
  Lemma class_empty_cnt bs v : class_empty t bs v = true -> forall b, In b bs -> q_cnt t b v = 0.
  Proof.
    unfold class_empty. rewrite forallb_forall. intros H b Hb. specialize (H b Hb). apply Z.eqb_eq in H.
    unfold q_cnt, cnt. rewrite H. apply qz_0.
  Qed.

  Theorem empty_bin_irrelevant bs1 b0 bs2 vs : bin_empty t vs b0 = true ->
    q_mi_code phi t (bs1 ++ b0 :: bs2) vs = q_mi_code phi t (bs1 ++ bs2) vs.
  Proof.
    intros He. pose proof (bin_empty_cnt vs b0 He) as Hc.
    assert (Hcb : q_cb t vs b0 = 0) by (rewrite q_cb_unfold; apply qsum_map_zero; exact Hc).
    assert (Hcv : forall v, In v vs -> q_cv t (bs1 ++ b0 :: bs2) v = q_cv t (bs1 ++ bs2) v).
    { intros v Hv. rewrite !q_cv_unfold, qsum_map_insert, (Hc v Hv). ring. }
    assert (HN : q_total t (bs1 ++ b0 :: bs2) vs = q_total t (bs1 ++ bs2) vs).
    { rewrite !q_total_unfold, qsum_map_insert, Hcb. ring. }
    rewrite !mi_code_unfold, HN. apply qsum_map_ext. intros v Hv.
    rewrite (Hcv v Hv), qsum_map_insert, (Hc v Hv), Hcb.
    replace (0 / q_nz (q_cv t (bs1 ++ bs2) v)) with 0 by (unfold Qcdiv; ring).
    replace (0 / q_nz (q_total t (bs1 ++ bs2) vs)) with 0 by (unfold Qcdiv; ring).
    ring.
  Qed.

  Theorem empty_class_irrelevant bs vs1 v0 vs2 : class_empty t bs v0 = true ->
    q_mi_code phi t bs (vs1 ++ v0 :: vs2) = q_mi_code phi t bs (vs1 ++ vs2).
  Proof.
    intros He. pose proof (class_empty_cnt bs v0 He) as Hc.
    assert (Hcv0 : q_cv t bs v0 = 0) by (rewrite q_cv_unfold; apply qsum_map_zero; exact Hc).
    assert (Hcb : forall b, In b bs -> q_cb t (vs1 ++ v0 :: vs2) b = q_cb t (vs1 ++ vs2) b).
    { intros b Hb. rewrite !q_cb_unfold, qsum_map_insert, (Hc b Hb). ring. }
    assert (HN : q_total t bs (vs1 ++ v0 :: vs2) = q_total t bs (vs1 ++ vs2)).
    { rewrite !q_total_unfold. apply qsum_map_ext. exact Hcb. }
    rewrite !mi_code_unfold, HN, qsum_map_insert, Hcv0.
    replace (0 / q_total t bs (vs1 ++ vs2)) with 0 by (unfold Qcdiv; ring).
    rewrite Qcmult_0_r, Qcplus_0_l. apply qsum_map_ext. intros v _. f_equal.
    apply qsum_map_ext. intros b Hb. rewrite (Hcb b Hb). reflexivity.
  Qed.

  (* the MI over all bins / classes is the MI over the non-empty ones *)
  Corollary mi_nonempty_bins bs vs :
    q_mi_code phi t bs vs = q_mi_code phi t (filter (fun b => negb (bin_empty t vs b)) bs) vs.
  Proof.
    assert (G : forall pre, q_mi_code phi t (pre ++ bs) vs = q_mi_code phi t (pre ++ filter (fun b => negb (bin_empty t vs b)) bs) vs).
    { induction bs as [|b bs IH]; intros pre; [reflexivity|]. cbn [filter].
      destruct (bin_empty t vs b) eqn:E; cbn [negb].
      - rewrite empty_bin_irrelevant by exact E. apply IH.
      - replace (pre ++ b :: bs) with ((pre ++ [b]) ++ bs) by (rewrite <- app_assoc; reflexivity).
        replace (pre ++ b :: filter (fun b0 => negb (bin_empty t vs b0)) bs)
          with ((pre ++ [b]) ++ filter (fun b0 => negb (bin_empty t vs b0)) bs) by (rewrite <- app_assoc; reflexivity).
        apply IH. }
    exact (G []).
  Qed.

  Corollary mi_nonempty_classes bs vs :
    q_mi_code phi t bs vs = q_mi_code phi t bs (filter (fun v => negb (class_empty t bs v)) vs).
  Proof.
    assert (G : forall pre, q_mi_code phi t bs (pre ++ vs) = q_mi_code phi t bs (pre ++ filter (fun v => negb (class_empty t bs v)) vs)).
    { induction vs as [|v vs IH]; intros pre; [reflexivity|]. cbn [filter].
      destruct (class_empty t bs v) eqn:E; cbn [negb].
      - rewrite empty_class_irrelevant by exact E. apply IH.
      - replace (pre ++ v :: vs) with ((pre ++ [v]) ++ vs) by (rewrite <- app_assoc; reflexivity).
        replace (pre ++ v :: filter (fun v0 => negb (class_empty t bs v0)) vs)
          with ((pre ++ [v]) ++ filter (fun v0 => negb (class_empty t bs v0)) vs) by (rewrite <- app_assoc; reflexivity).
        apply IH. }
    exact (G []).
  Qed.

  (* each entropy separately ignores an empty bin exactly when phi 0 = 0 (the convention 0 log 0 = 0) *)
  Theorem HB_ignores_empty_bin bs1 b0 bs2 vs : phi 0 = 0 -> bin_empty t vs b0 = true ->
    q_HB phi t (bs1 ++ b0 :: bs2) vs = q_HB phi t (bs1 ++ bs2) vs.
  Proof.
    intros H0 He. pose proof (bin_empty_cnt vs b0 He) as Hc.
    assert (Hcb : q_cb t vs b0 = 0) by (rewrite q_cb_unfold; apply qsum_map_zero; exact Hc).
    assert (HN : q_total t (bs1 ++ b0 :: bs2) vs = q_total t (bs1 ++ bs2) vs).
    { rewrite !q_total_unfold, qsum_map_insert, Hcb. ring. }
    change (0 - qsum (map (fun b => phi (q_cb t vs b / q_total t (bs1 ++ b0 :: bs2) vs)) (bs1 ++ b0 :: bs2))
            = 0 - qsum (map (fun b => phi (q_cb t vs b / q_total t (bs1 ++ bs2) vs)) (bs1 ++ bs2))).
    rewrite HN, qsum_map_insert, Hcb.
    replace (0 / q_total t (bs1 ++ bs2) vs) with 0 by (unfold Qcdiv; ring).
    rewrite H0. ring.
  Qed.

  Theorem HBV_ignores_empty_bin bs1 b0 bs2 vs : phi 0 = 0 -> bin_empty t vs b0 = true ->
    q_HBV phi t (bs1 ++ b0 :: bs2) vs = q_HBV phi t (bs1 ++ bs2) vs.
  Proof.
    intros H0 He. pose proof (bin_empty_cnt vs b0 He) as Hc.
    assert (Hcb : q_cb t vs b0 = 0) by (rewrite q_cb_unfold; apply qsum_map_zero; exact Hc).
    assert (Hcv : forall v, In v vs -> q_cv t (bs1 ++ b0 :: bs2) v = q_cv t (bs1 ++ bs2) v).
    { intros v Hv. rewrite !q_cv_unfold, qsum_map_insert, (Hc v Hv). ring. }
    assert (HN : q_total t (bs1 ++ b0 :: bs2) vs = q_total t (bs1 ++ bs2) vs).
    { rewrite !q_total_unfold, qsum_map_insert, Hcb. ring. }
    change (0 - qsum (map (fun v => q_cv t (bs1 ++ b0 :: bs2) v / q_total t (bs1 ++ b0 :: bs2) vs
                                    * qsum (map (fun b => phi (q_cnt t b v / q_cv t (bs1 ++ b0 :: bs2) v)) (bs1 ++ b0 :: bs2))) vs)
            = 0 - qsum (map (fun v => q_cv t (bs1 ++ bs2) v / q_total t (bs1 ++ bs2) vs
                                    * qsum (map (fun b => phi (q_cnt t b v / q_cv t (bs1 ++ bs2) v)) (bs1 ++ bs2))) vs)).
    rewrite HN. f_equal. apply qsum_map_ext. intros v Hv.
    rewrite (Hcv v Hv), qsum_map_insert, (Hc v Hv).
    replace (0 / q_cv t (bs1 ++ bs2) v) with 0 by (unfold Qcdiv; ring).
    rewrite H0. ring.
  Qed.
End MiQ.


Theorem empty_cells_irrelevant_thm (phi : Qc -> Qc) (t : st) :
  (forall bs1 b0 bs2 vs, bin_empty t vs b0 = true ->
     q_mi_code phi t (bs1 ++ b0 :: bs2) vs = q_mi_code phi t (bs1 ++ bs2) vs)
  /\ (forall bs vs1 v0 vs2, class_empty t bs v0 = true ->
     q_mi_code phi t bs (vs1 ++ v0 :: vs2) = q_mi_code phi t bs (vs1 ++ vs2)).
Proof. split; [exact (empty_bin_irrelevant phi t)|exact (empty_class_irrelevant phi t)]. Qed.

Theorem mi_populated_cells_only (phi : Qc -> Qc) (t : st) (bs vs : list nat) :
  q_mi_code phi t bs vs
  = q_mi_code phi t (filter (fun b => negb (bin_empty t vs b)) bs)
                    (filter (fun v => negb (class_empty t (filter (fun b => negb (bin_empty t vs b)) bs) v)) vs).
Proof. rewrite (mi_nonempty_bins phi t bs vs) at 1. apply mi_nonempty_classes. Qed.

Theorem entropies_ignore_empty_bins_thm (phi : Qc -> Qc) (t : st) bs1 b0 bs2 vs :
  phi 0 = 0 -> bin_empty t vs b0 = true ->
  q_HB phi t (bs1 ++ b0 :: bs2) vs = q_HB phi t (bs1 ++ bs2) vs
  /\ q_HBV phi t (bs1 ++ b0 :: bs2) vs = q_HBV phi t (bs1 ++ bs2) vs.
Proof. intros H0 He. split; [apply HB_ignores_empty_bin|apply HBV_ignores_empty_bin]; assumption. Qed.

(* ========================================================================================== bin_edges setter *)
Definition width (l : list Qc) (i : nat) : Qc := edge l (S i) - edge l i.
(* a natural number as a rational *)
Fixpoint nq (k : nat) : Qc := match k with O => 0 | S k' => nq k' + 1 end.

Lemma Qc_opp_le a b : a <= b -> - b <= - a.
Proof. apply Qcopp_le_compat. Qed.

Lemma Qcabs'_le d tol : Qcleb (Qcabs' d) tol = true <-> - tol <= d /\ d <= tol.
Proof.
  rewrite Qcleb_spec. unfold Qcabs'. destruct (Qcleb 0 d) eqn:E.
  - apply Qcleb_spec in E. split.
    + intros H. split; [|exact H].
      apply Qcle_trans with (y := 0); [|exact E].
      replace 0 with (- 0) by ring. apply Qc_opp_le. apply Qcle_trans with (y := d); assumption.
    + tauto.
  - apply Qcleb_false in E. split.
    + intros H. split.
      * replace d with (- - d) by ring. apply Qc_opp_le. exact H.
      * apply Qcle_trans with (y := - d); [|exact H]. apply Qclt_le_weak.
        apply Qclt_trans with (y := 0); [exact E|].
        apply Qclt_minus_iff in E. replace (0 + - d) with (- d) in E by ring. exact E.
    + intros [H _]. replace tol with (- - tol) by ring. apply Qc_opp_le. exact H.
Qed.

Lemma sortedb_spec l : sortedb l = true <-> increasing l.
Proof.
  unfold increasing, edge. induction l as [|a l IH]; [split; [intros _ i Hi; cbn in Hi; lia|reflexivity]|].
  destruct l as [|b r].
  - split; [intros _ i Hi; cbn in Hi; lia|reflexivity].
  - change (sortedb (a :: b :: r)) with (Qcltb a b && sortedb (b :: r)).
    rewrite andb_true_iff, Qcltb_spec, IH. split.
    + intros [Hab Hr] [|i] Hi; [exact Hab|]. cbn [nth]. apply Hr. cbn [length] in *. lia.
    + intros H. split; [apply (H 0%nat); cbn; lia|].
      intros i Hi. apply (H (S i)). cbn [length] in *. lia.
Qed.

Lemma diffs_length l : length (diffs l) = (length l - 1)%nat.
Proof.
  induction l as [|a l IH]; [reflexivity|]. destruct l as [|b r]; [reflexivity|].
  change (diffs (a :: b :: r)) with ((b - a) :: diffs (b :: r)). cbn [length] in *. rewrite IH. lia.
Qed.

Lemma diffs_nth l : forall i, (S i < length l)%nat -> nth i (diffs l) 0 = width l i.
Proof.
  unfold width, edge. induction l as [|a l IH]; intros i Hi; [cbn in Hi; lia|].
  destruct l as [|b r]; [cbn in Hi; lia|].
  change (diffs (a :: b :: r)) with ((b - a) :: diffs (b :: r)).
  destruct i as [|i]; [reflexivity|]. cbn [nth]. apply IH. cbn [length] in *. lia.
Qed.

Lemma forallb_nth {A} (f : A -> bool) (d : A) l :
  forallb f l = true <-> forall i, (i < length l)%nat -> f (nth i l d) = true.
Proof.
  rewrite forallb_forall. split.
  - intros H i Hi. apply H. apply nth_In. exact Hi.
  - intros H x Hx. destruct (In_nth l x d Hx) as (i & Hi & <-). apply H. exact Hi.
Qed.

Lemma diffs2_nth l i : (S (S i) < length l)%nat -> nth i (diffs (diffs l)) 0 = width l (S i) - width l i.
Proof.
  intros H. rewrite (diffs_nth (diffs l)) by (rewrite diffs_length; lia).
  unfold width at 1. unfold edge at 1 2. rewrite !(diffs_nth l) by lia. reflexivity.
Qed.

(* what the setter accepts, exactly *)
Theorem edges_ok_iff tol l :
  edges_ok tol l = true <->
  (2 <= length l)%nat /\ increasing l
  /\ forall i, (S (S i) < length l)%nat -> - tol <= width l (S i) - width l i /\ width l (S i) - width l i <= tol.
Proof.
  unfold edges_ok. rewrite !andb_true_iff, Nat.leb_le, sortedb_spec, (forallb_nth _ 0).
  rewrite diffs_length, diffs_length.
  split.
  - intros [[H1 H2] H3]. split; [exact H1|]. split; [exact H2|].
    intros i Hi. specialize (H3 i ltac:(lia)). apply Qcabs'_le in H3.
    rewrite diffs2_nth in H3 by exact Hi. exact H3.
  - intros (H1 & H2 & H3). repeat split; [exact H1|exact H2|].
    intros i Hi. apply Qcabs'_le. rewrite diffs2_nth by lia. apply H3. lia.
Qed.

(* accepted ==> at least two edges, strictly increasing, and any two widths differ by at most (distance) * tol *)
Theorem edges_ok_sound_thm tol l : edges_ok tol l = true ->
  (2 <= length l)%nat /\ increasing l
  /\ forall i j, (i <= j)%nat -> (S j < length l)%nat ->
       - (nq (j - i) * tol) <= width l j - width l i /\ width l j - width l i <= nq (j - i) * tol.
Proof.
  intros H. apply edges_ok_iff in H. destruct H as (H1 & H2 & H3). repeat split; [exact H1|exact H2| |].
  - assert (G : forall k i, (S (i + k) < length l)%nat -> - (nq k * tol) <= width l (i + k) - width l i).
    { induction k as [|k IH]; intros i0 Hk.
      - rewrite Nat.add_0_r. cbn [nq]. replace (width l i0 - width l i0) with 0 by ring.
        replace (- (0 * tol)) with 0 by ring. apply Qcle_refl.
      - replace (i0 + S k)%nat with (S (i0 + k)) in * by lia. cbn [nq].
        replace (width l (S (i0 + k)) - width l i0)
          with ((width l (S (i0 + k)) - width l (i0 + k)) + (width l (i0 + k) - width l i0)) by ring.
        replace (- ((nq k + 1) * tol)) with (- tol + - (nq k * tol)) by ring.
        apply Qcplus_le_compat; [apply H3; lia|apply IH; lia]. }
    replace j with (i + (j - i))%nat at 2 by lia. apply G. lia.
  - assert (G : forall k i, (S (i + k) < length l)%nat -> width l (i + k) - width l i <= nq k * tol).
    { induction k as [|k IH]; intros i0 Hk.
      - rewrite Nat.add_0_r. cbn [nq]. replace (width l i0 - width l i0) with 0 by ring.
        replace (0 * tol) with 0 by ring. apply Qcle_refl.
      - replace (i0 + S k)%nat with (S (i0 + k)) in * by lia. cbn [nq].
        replace (width l (S (i0 + k)) - width l i0)
          with ((width l (S (i0 + k)) - width l (i0 + k)) + (width l (i0 + k) - width l i0)) by ring.
        replace ((nq k + 1) * tol) with (tol + nq k * tol) by ring.
        apply Qcplus_le_compat; [apply H3; lia|apply IH; lia]. }
    replace j with (i + (j - i))%nat at 1 by lia. apply G. lia.
Qed.

(* with tolerance 0: accepted ==> exactly equally spaced *)
Corollary edges_ok_zero_tol l : edges_ok 0 l = true ->
  forall i, (i < length l)%nat -> edge l i = edge l 0 + nq i * width l 0.
Proof.
  intros H. apply edges_ok_sound_thm in H. destruct H as (H1 & _ & H3).
  induction i as [|i IH]; intros Hi; [cbn [nq]; ring|].
  assert (Hw : width l i = width l 0).
  { destruct (H3 0%nat i ltac:(lia) ltac:(lia)) as [A B].
    replace (- (nq (i - 0) * 0)) with 0 in A by ring. replace (nq (i - 0) * 0) with 0 in B by ring.
    assert (E : width l i - width l 0 = 0) by (apply Qcle_antisym; assumption).
    replace (width l i) with ((width l i - width l 0) + width l 0) by ring. rewrite E. ring. }
  cbn [nq]. replace (edge l (S i)) with (edge l i + width l i) by (unfold width; ring).
  rewrite IH by lia. rewrite Hw. ring.
Qed.

(* equally spaced with a positive width ==> accepted, whatever the (non-negative) tolerance *)
Theorem edges_ok_complete_thm tol l a w :
  (2 <= length l)%nat -> 0 < w -> 0 <= tol ->
  (forall i, (i < length l)%nat -> edge l i = a + nq i * w) ->
  edges_ok tol l = true.
Proof.
  intros Hlen Hw Htol Hl. apply edges_ok_iff.
  assert (Hwd : forall i, (S i < length l)%nat -> width l i = w).
  { intros i Hi. unfold width. rewrite (Hl (S i)), (Hl i) by lia. cbn [nq]. ring. }
  repeat split; [exact Hlen| | |].
  - intros i Hi. apply Qclt_minus_iff. specialize (Hwd i Hi). unfold width in Hwd.
    replace (edge l (S i) + - edge l i) with w by (rewrite <- Hwd; ring). exact Hw.
  - rewrite !Hwd by lia. replace (w - w) with 0 by ring.
    apply Qc_opp_le in Htol. replace (- 0) with 0 in Htol by ring. exact Htol.
  - rewrite !Hwd by lia. replace (w - w) with 0 by ring. exact Htol.
Qed.

(* ---- the witnesses of the property text (and of defect D5): refused by the repaired test, accepted by the test as found *)
Definition qi (z : Z) : Qc := Q2Qc (inject_Z z).

Example edges_widening_refused : edges_ok mia_tol (map qi [0; 1; 3; 6]%Z) = false.
Proof. vm_compute. reflexivity. Qed.
Example edges_narrowing_refused : edges_ok mia_tol (map qi [0; 2; 3; 4]%Z) = false.
Proof. vm_compute. reflexivity. Qed.
Example edges_compensating_refused : edges_ok mia_tol (map qi [0; 4; 5; 6; 10]%Z) = false.
Proof. vm_compute. reflexivity. Qed.
Example edges_uniform_accepted : edges_ok mia_tol (map qi [0; 49; 98; 147]%Z) = true.
Proof. vm_compute. reflexivity. Qed.
Example edges_unsorted_refused : edges_ok mia_tol (map qi [0; 2; 1; 3]%Z) = false /\ edges_ok mia_tol (map qi [0; 1; 1]%Z) = false
                                 /\ edges_ok mia_tol [qi 5] = false /\ edges_ok mia_tol [] = false.
Proof. vm_compute. repeat split; reflexivity. Qed.
(* D5: the telescoping test sum(diff(diff(edges))) <= tol accepted the narrowing and the compensating lists *)
Example edges_as_found_refuted :
  edges_ok_as_found mia_tol (map qi [0; 2; 3; 4]%Z) = true /\ edges_ok_as_found mia_tol (map qi [0; 4; 5; 6; 10]%Z) = true.
Proof. vm_compute. split; reflexivity. Qed.

(* D6: an estimate that is one too low on an interior edge (what binary64 gives for edges [0;49;98], x = 49) is repaired by
   the correction and not without it *)
Example bin_estimate_refuted :
  let edges := map qi [0; 49; 98]%Z in
  let est := fun _ : Qc => 0%nat in
  bin_uncorrected edges est (qi 49) = Some 0%nat /\ bin_index edges est (qi 49) = Some 1%nat /\ bin_spec edges (qi 49) = Some 1%nat.
Proof. vm_compute. repeat split; reflexivity. Qed.

(* ========================================================================================== run-length encoded rows *)
Lemma get_scale n s b k : get (st_scale n s) b k = (n * get s b k)%Z.
Proof.
  unfold get, st_scale.
  change (@nil Z) with (map (Z.mul n) []) at 1. rewrite map_nth.
  replace 0%Z with (n * 0)%Z at 1 by lia. rewrite map_nth. reflexivity.
Qed.

Section RunLength.
  Variable edges : list Qc.
  Variable est : Qc -> nat.
  Variable parts : list Z.

  Lemma get_bsum_app l1 l2 b k :
    get (hist_bsum edges est parts (l1 ++ l2)) b k
    = (get (hist_bsum edges est parts l1) b k + get (hist_bsum edges est parts l2) b k)%Z.
  Proof.
    unfold hist_bsum, bsum. induction l1 as [|r l1 IH]; cbn [app fold_right].
    - rewrite get_zero. lia.
    - rewrite !get_plus, IH. lia.
  Qed.

  Lemma get_bsum_repeat r m b k :
    get (hist_bsum edges est parts (repeat r m)) b k = (Z.of_nat m * get (contrib edges est parts r) b k)%Z.
  Proof.
    unfold hist_bsum, bsum. induction m as [|m IH]; cbn [repeat fold_right].
    - rewrite get_zero. lia.
    - rewrite get_plus, IH. lia.
  Qed.

  (* the weighted table of the runs is, cell by cell, the table of the expanded row list *)
  Theorem hist_bsum_w_expand runs b k :
    get (hist_bsum_w edges est parts runs) b k = get (hist_bsum edges est parts (expand runs)) b k.
  Proof.
    unfold hist_bsum_w, expand. induction runs as [|r runs IH]; cbn [fold_right flat_map]; [reflexivity|].
    rewrite get_plus, get_scale, get_bsum_app, get_bsum_repeat, positive_nat_Z, IH. reflexivity.
  Qed.

  Hypothesis Hlen : (2 <= length edges)%nat.
  Hypothesis Hinc : increasing edges.

  Theorem hist_w_correct runs b k : get (hist_bsum_w edges est parts runs) b k = hist_spec_w edges parts runs b k.
  Proof.
    unfold hist_bsum_w, hist_spec_w, count_tags_w. induction runs as [|r runs IH]; cbn [fold_right map fst snd].
    - apply get_zero.
    - rewrite get_plus, get_scale, IH, (get_contrib edges est parts Hlen Hinc).
      destruct (tag_hits b k (row_tag edges parts (fst r))); lia.
  Qed.
End RunLength.

(* compute() reads a table only through its cells *)
Lemma mi_code_get_ext phi (t t' : st) bs vs : (forall b k, get t b k = get t' b k) ->
  q_total t bs vs = q_total t' bs vs /\ q_mi_code phi t bs vs = q_mi_code phi t' bs vs.
Proof.
  intros H.
  assert (Hc : forall b v, q_cnt t b v = q_cnt t' b v) by (intros b v; unfold q_cnt, cnt; rewrite H; reflexivity).
  assert (Hcb : forall b, q_cb t vs b = q_cb t' vs b) by (intros b; rewrite !q_cb_unfold; apply qsum_map_ext; intros; apply Hc).
  assert (Hcv : forall v, q_cv t bs v = q_cv t' bs v) by (intros v; rewrite !q_cv_unfold; apply qsum_map_ext; intros; apply Hc).
  assert (HN : q_total t bs vs = q_total t' bs vs) by (rewrite !q_total_unfold; apply qsum_map_ext; intros; apply Hcb).
  split; [exact HN|]. rewrite !mi_code_unfold, HN. apply qsum_map_ext. intros v _. rewrite Hcv. f_equal.
  apply qsum_map_ext. intros b _. rewrite Hc, Hcb. reflexivity.
Qed.

Theorem comp_get_ext phi nb nc (t t' : st) : (forall b k, get t b k = get t' b k) -> comp phi nb nc t = comp phi nb nc t'.
Proof.
  intros H. unfold comp. destruct (mi_code_get_ext phi t t' (seq 0 nb) (seq 0 nc) H) as [HN HM].
  rewrite HN, HM. reflexivity.
Qed.

(* hence: histogram and result of a run-length encoded case are those of the expanded trace list *)
Theorem run_length_is_the_expansion edges est parts phi runs :
  (forall b k, get (hist_bsum_w edges est parts runs) b k = get (hist_bsum edges est parts (expand runs)) b k)
  /\ comp phi (nbins edges) (length parts) (hist_bsum_w edges est parts runs)
     = comp phi (nbins edges) (length parts) (hist_bsum edges est parts (expand runs)).
Proof.
  split; [intros b k; apply hist_bsum_w_expand|]. apply comp_get_ext. intros b k. apply hist_bsum_w_expand.
Qed.

(* ========================================================================================== configuration histories *)
Lemma assign_refused tol cfg l : edges_ok tol l = false -> assign_edges tol cfg l = cfg.
Proof. intros H. unfold assign_edges. rewrite H. reflexivity. Qed.

Lemma assign_accepted tol cfg l : edges_ok tol l = true ->
  cfg_edges (assign_edges tol cfg l) = Some l /\ cfg_bins (assign_edges tol cfg l) = nbins l.
Proof. intros H. unfold assign_edges. rewrite H. split; reflexivity. Qed.

Lemma find_app' {A} (f : A -> bool) l1 l2 :
  find f (l1 ++ l2) = match find f l1 with Some x => Some x | None => find f l2 end.
Proof. induction l1 as [|a l1 IH]; cbn [app find]; [reflexivity|]. destruct (f a); [reflexivity|exact IH]. Qed.

(* whatever sequence of edge lists is assigned (accepted or refused), bins_number stays the number of bins of the edges in force,
   the edges in force are an accepted list, and they are the last accepted one *)
Theorem assign_history tol cfg ls :
  cfg_consistent cfg -> (forall e, cfg_edges cfg = Some e -> edges_ok tol e = true) ->
  let cfg' := fold_left (assign_edges tol) ls cfg in
  cfg_consistent cfg'
  /\ (forall e, cfg_edges cfg' = Some e -> edges_ok tol e = true)
  /\ cfg' = match find (edges_ok tol) (rev ls) with
            | Some l => {| cfg_edges := Some l; cfg_bins := nbins l |}
            | None => cfg
            end.
Proof.
  revert cfg. induction ls as [|l ls IH]; intros cfg Hc Hok; cbn [fold_left rev find].
  - repeat split; assumption.
  - assert (Hc' : cfg_consistent (assign_edges tol cfg l)).
    { unfold assign_edges. destruct (edges_ok tol l); [reflexivity|exact Hc]. }
    assert (Hok' : forall e, cfg_edges (assign_edges tol cfg l) = Some e -> edges_ok tol e = true).
    { unfold assign_edges. destruct (edges_ok tol l) eqn:E; [|exact Hok]. cbn. intros e He. injection He as <-. exact E. }
    destruct (IH _ Hc' Hok') as (H1 & H2 & H3). repeat split; [exact H1|exact H2|].
    rewrite H3, find_app'. unfold assign_edges.
    destruct (find (edges_ok tol) (rev ls)); [reflexivity|]. cbn [find].
    destruct (edges_ok tol l); reflexivity.
Qed.

(* ========================================================================================== samples that are not numbers *)
Lemma bin_index_f_non_finite edges est v : v = NaN \/ v = PInf \/ v = NInf -> bin_index_f edges est v = None.
Proof. intros [H|[H|H]]; subst v; reflexivity. Qed.
Lemma bin_index_f_finite edges est m e :
  bin_index_f edges est (Fin m e) = bin_index edges est (Q2Qc (q_of_fin m e)).
Proof. reflexivity. Qed.
