(* Proofs/KeyScheduleDes.v — DES part of property C10: the impl-model of des.key_schedule (Model/KeySchedule.v, over the
   regenerated ROUND_KEY_BITS_INDEXES, masks and weights) against the key schedule of FIPS 46-3 (Spec/DesKeySpec.v). *)
From Coq Require Import NArith ZArith List Bool Arith Lia ZifyNat ZifyN.
From ScaredV Require Import Generated.KeySchedTables Spec.DesKeySpec Run.Compare Model.KeySchedule Proofs.KeySchedule.
Import ListNotations.
Local Ltac Zify.zify_post_hook ::= Z.div_mod_to_equations.
Local Open Scope nat_scope.

Definition b2n (b : bool) : N := if b then 1%N else 0%N.

(* ================================================================== the schedule commutes with any renaming of the bits *)
Section Naturality.
  Context {A B : Type} (f : A -> B) (d : A).

  Lemma pick_map : forall t bits, pick (f d) t (map f bits) = map f (pick d t bits).
  Proof. intros t bits. unfold pick. rewrite map_map. apply map_ext. intros m. apply map_nth. Qed.

  Lemma lrot_map : forall n l, lrot n (map f l) = map f (lrot n l).
  Proof. intros n l. unfold lrot. rewrite skipn_map, firstn_map, map_app. reflexivity. Qed.

  Lemma shift_cd_map : forall n cd, shift_cd n (map f cd) = map f (shift_cd n cd).
  Proof. intros n cd. unfold shift_cd. rewrite firstn_map, skipn_map, !lrot_map, map_app. reflexivity. Qed.

  Lemma cd_list_map : forall sh cd, cd_list (map f cd) sh = map (map f) (cd_list cd sh).
  Proof.
    induction sh as [|n sh IH]; intros cd; simpl; [reflexivity|].
    rewrite shift_cd_map, IH. reflexivity.
  Qed.

  Lemma subkeys_map : forall bits, subkeys (f d) (map f bits) = map (map f) (subkeys d bits).
  Proof.
    intros bits. unfold subkeys. rewrite pick_map, cd_list_map, !map_map.
    apply map_ext. intros cd. apply pick_map.
  Qed.

  Lemma groups_map : forall w n l, groups w n (map f l) = map (map f) (groups w n l).
  Proof.
    intros w n. induction n as [|n IH]; intros l; simpl; [reflexivity|].
    rewrite firstn_map, skipn_map, IH. reflexivity.
  Qed.
End Naturality.

(* ================================================================== the schedule in closed form: which key bit goes where *)
(* facts about the table of FIPS 46-3 source bits, by computation *)
Definition pos_ok (m : nat) : bool := (1 <=? m) && (m <=? 64) && negb (m mod 8 =? 0).

Lemma source_bits_ok : forall row m, In row des_source_bits -> In m row -> 1 <= m <= 64 /\ m mod 8 <> 0.
Proof.
  intros row m Hrow Hm. destruct des_source_bits_shape as [H _].
  rewrite forallb_forall in H. specialize (H row Hrow). apply andb_true_iff in H. destruct H as [_ H].
  rewrite forallb_forall in H. specialize (H m Hm).
  apply andb_true_iff in H. destruct H as [H H3]. apply andb_true_iff in H. destruct H as [H1 H2].
  apply Nat.leb_le in H1. apply Nat.leb_le in H2. apply negb_true_iff in H3. apply Nat.eqb_neq in H3. lia.
Qed.

Lemma des_ks_spec_closed : forall key,
  des_ks_spec key = map (fun row => map word_of_bits (groups 6 8 (map (kbit key) row))) des_source_bits.
Proof.
  intros key. unfold des_ks_spec, key_bits.
  set (f := fun m => if m =? 0 then false else kbit key m).
  assert (map (kbit key) (seq 1 64) = map f (seq 1 64)) as ->.
  { apply map_ext_in. intros m Hm. apply in_seq in Hm. unfold f. destruct (Nat.eqb_spec m 0); [lia|reflexivity]. }
  change false with (f 0). rewrite subkeys_map. fold des_source_bits. rewrite map_map.
  apply map_ext_in. intros row Hrow. f_equal. f_equal.
  apply map_ext_in. intros m Hm. destruct (source_bits_ok row m Hrow Hm) as [H _].
  unfold f. destruct (Nat.eqb_spec m 0); [lia|reflexivity].
Qed.

(* ================================================================== des_index_table_is_pc *)
(* the generated 16 x 8 x 6 table holds, 0-based, exactly the key bit that PC-2 . rot^shifts . PC-1 selects *)
Lemma des_index_table_eq : DES_RKBI = map (fun row => map (map Nat.pred) (groups 6 8 row)) des_source_bits.
Proof. vm_compute. reflexivity. Qed.

Lemma des_index_table_pointwise_all :
  forallb (fun r => forallb (fun w => forallb (fun j =>
     S (nth j (nth w (nth r DES_RKBI []) []) 0) =? nth (6 * w + j) (nth r des_source_bits []) 0)
     (seq 0 6)) (seq 0 8)) (seq 0 16) = true.
Proof. vm_compute. reflexivity. Qed.

Lemma des_index_table_pointwise : forall r w j, r < 16 -> w < 8 -> j < 6 ->
  S (nth j (nth w (nth r DES_RKBI []) []) 0) = nth (6 * w + j) (nth r des_source_bits []) 0.
Proof.
  intros r w j Hr Hw Hj. pose proof des_index_table_pointwise_all as H.
  rewrite forallb_forall in H. specialize (H r ltac:(apply in_seq; lia)).
  rewrite forallb_forall in H. specialize (H w ltac:(apply in_seq; lia)).
  rewrite forallb_forall in H. specialize (H j ltac:(apply in_seq; lia)).
  apply Nat.eqb_eq in H. exact H.
Qed.

Lemma des_table_shape : length DES_RKBI = 16 /\ Forall (fun r => length r = 8 /\ Forall (fun w => length w = 6) r) DES_RKBI.
Proof. split; [reflexivity|]. repeat constructor. Qed.

(* ================================================================== des.key_schedule = FIPS 46-3 *)
Lemma byte_bits_all :
  forallb (fun i => let k := N.of_nat i in
     nlist_eqb (byte_bits k) (map (fun j => b2n (N.testbit k (N.of_nat (7 - j)))) (seq 0 8))) (seq 0 256) = true.
Proof. vm_compute. reflexivity. Qed.

Lemma byte_bits_spec : forall k, (k < 256)%N ->
  byte_bits k = map (fun j => b2n (N.testbit k (N.of_nat (7 - j)))) (seq 0 8).
Proof.
  intros k Hk. pose proof byte_bits_all as H. rewrite forallb_forall in H.
  specialize (H (N.to_nat k) ltac:(apply in_seq; lia)). cbv zeta in H. rewrite N2Nat.id in H.
  apply nlist_eqb_eq. exact H.
Qed.

Lemma key_bits_m_spec : forall key, wf_des_key key -> key_bits_m key = map b2n (key_bits key).
Proof.
  intros key [Hlen Hb].
  destruct key as [|k0 [|k1 [|k2 [|k3 [|k4 [|k5 [|k6 [|k7 [|? ?]]]]]]]]]; try discriminate Hlen.
  repeat match goal with H : Forall _ (_ :: _) |- _ => inversion H; clear H; subst end.
  unfold key_bits_m, flat_map. rewrite !byte_bits_spec by assumption.
  reflexivity.
Qed.

Lemma key_bit_m_nth : forall key m, wf_des_key key -> 1 <= m <= 64 ->
  nth (Nat.pred m) (key_bits_m key) 0%N = b2n (kbit key m).
Proof.
  intros key m Hk Hm. rewrite key_bits_m_spec by exact Hk.
  change 0%N with (b2n false). rewrite map_nth. f_equal.
  unfold key_bits. rewrite nth_map_seq by lia. f_equal. lia.
Qed.

Lemma word_m_spec : forall key grp, wf_des_key key -> length grp = 6 -> Forall (fun m => 1 <= m <= 64) grp ->
  word_m (key_bits_m key) (map Nat.pred grp) = word_of_bits (map (kbit key) grp).
Proof.
  intros key grp Hk Hl Hg.
  destruct grp as [|a [|b [|c [|d [|e [|f [|? ?]]]]]]]; try discriminate Hl.
  repeat match goal with H : Forall _ (_ :: _) |- _ => inversion H; clear H; subst end.
  unfold word_m, DES_WORD_WEIGHTS. cbn [map combine fst snd fold_right].
  rewrite !key_bit_m_nth by assumption.
  cbn [word_of_bits length].
  destruct (kbit key a), (kbit key b), (kbit key c), (kbit key d), (kbit key e), (kbit key f); reflexivity.
Qed.

Lemma groups_ok : forall row grp, In row des_source_bits -> In grp (groups 6 8 row) ->
  length grp = 6 /\ Forall (fun m => 1 <= m <= 64) grp.
Proof.
  assert (forallb (fun row => forallb (fun grp => (length grp =? 6) && forallb (fun m => (1 <=? m) && (m <=? 64)) grp) (groups 6 8 row))
                  des_source_bits = true) as H by (vm_compute; reflexivity).
  intros row grp Hrow Hgrp. rewrite forallb_forall in H. specialize (H row Hrow).
  rewrite forallb_forall in H. specialize (H grp Hgrp). apply andb_true_iff in H. destruct H as [H1 H2].
  apply Nat.eqb_eq in H1. split; [exact H1|].
  apply Forall_forall. intros m Hm. rewrite forallb_forall in H2. specialize (H2 m Hm).
  apply andb_true_iff in H2. destruct H2 as [H2 H3]. apply Nat.leb_le in H2. apply Nat.leb_le in H3. lia.
Qed.

Lemma des_rounds_spec : forall key, wf_des_key key ->
  map (round_key_m (key_bits_m key)) DES_RKBI = des_ks_spec key.
Proof.
  intros key Hk. rewrite des_ks_spec_closed, des_index_table_eq, map_map.
  apply map_ext_in. intros row Hrow.
  unfold round_key_m. rewrite groups_map, !map_map.
  apply map_ext_in. intros grp Hgrp.
  destruct (groups_ok row grp Hrow Hgrp) as [Hl Hg]. apply word_m_spec; assumption.
Qed.

Lemma des_ks_spec_length : forall key, length (des_ks_spec key) = 16.
Proof. intros key. rewrite des_ks_spec_closed, map_length. reflexivity. Qed.

(* every interrupt_after_round: the first l + 1 round keys *)
Lemma des_ks_any_round : forall key l lo, wf_des_key key -> l <= 15 -> (lo = Some l \/ (lo = None /\ l = 15)) ->
  des_ks_m key lo = Some (firstn (S l) (des_ks_spec key)).
Proof.
  intros key l lo Hk Hl Hlo. unfold des_ks_m.
  assert (match lo with Some x => x | None => DES_LAST_ROUND end = l) as -> by (destruct Hlo as [-> | [-> ->]]; reflexivity).
  destruct Hk as [Hlen Hb].
  rewrite (is_bytes_true key Hb), Hlen. simpl negb. simpl orb.
  assert ((DES_LAST_ROUND <? l) = false) as -> by (apply Nat.ltb_ge; unfold DES_LAST_ROUND; exact Hl).
  rewrite <- des_rounds_spec by (split; assumption). rewrite firstn_map. reflexivity.
Qed.

(* ================================================================== the parity bits are ignored *)
Lemma kbit_strip : forall key m, 1 <= m -> m mod 8 <> 0 -> kbit (strip_parity key) m = kbit key m.
Proof.
  intros key m H1 H8. unfold kbit, strip_parity.
  change 0%N with ((fun b => 2 * (b / 2))%N 0%N) at 1. rewrite map_nth.
  set (b := nth ((m - 1) / 8) key 0%N).
  assert (exists t, 7 - (m - 1) mod 8 = S t) as [t ->] by (exists (6 - (m - 1) mod 8); lia).
  rewrite Nat2N.inj_succ. rewrite N.double_bits_succ. apply N.div2_bits.
Qed.

Lemma des_ks_strip : forall key, des_ks_spec (strip_parity key) = des_ks_spec key.
Proof.
  intros key. rewrite !des_ks_spec_closed. apply map_ext_in. intros row Hrow. f_equal. f_equal.
  apply map_ext_in. intros m Hm. destruct (source_bits_ok row m Hrow Hm) as [H1 H8]. apply kbit_strip; lia.
Qed.

Lemma des_ks_ignores_parity_lemma : forall k k', map (fun b => (b / 2)%N) k = map (fun b => (b / 2)%N) k' ->
  des_ks_spec k = des_ks_spec k'.
Proof.
  intros k k' H. rewrite <- (des_ks_strip k), <- (des_ks_strip k'). f_equal.
  unfold strip_parity. rewrite <- (map_map (fun b => (b / 2)%N) (fun x => (2 * x)%N) k).
  rewrite <- (map_map (fun b => (b / 2)%N) (fun x => (2 * x)%N) k'). rewrite H. reflexivity.
Qed.

Lemma wf_des_key_dec : forall key, (length key =? 8) && is_bytes key = true -> wf_des_key key.
Proof.
  intros key H. apply andb_true_iff in H. destruct H as [H1 H2]. apply Nat.eqb_eq in H1. split; [exact H1|].
  apply Forall_forall. intros x Hx. unfold is_bytes in H2. rewrite forallb_forall in H2. apply N.ltb_lt. apply H2. exact Hx.
Qed.
