(* Proofs/SelFunDes.v — property C07, DES part.
   1. a table permutation of the standard is linear over xor (so P^-1 (L xor P(S)) = P^-1 (L) xor S);
   2. word w of the targeted steps (2, 3, 7, 8) of one iteration depends on the round key through its word w only, and is
      F_w of Spec/SelFunTargets.v: the all-equal-guess key gives in word w exactly what any round key with K_w = g gives;
   3. spec level, for ANY sixteen round keys: F_w(data, K[w]) is word w of the targeted value of des_state_at, for the classes
      reading the input (first iteration) and for those reading the output (last iteration seen through IP);
   4. the model of _des_function (des.encrypt with 128 equal words, at_round = 0) evaluates to the (traces, guesses, words)
      array of F (through des_at_is_fips of C06);  5. the expected-key functions. *)
From Coq Require Import NArith ZArith Bool Arith String List Lia.
From ScaredV Require Import Generated.SelFunWiring Spec.Fips46 Spec.SelFunTargets Model.SelFun
  Proofs.DesSpec Proofs.DesBits Proofs.DesRun Proofs.Des Proofs.SelFunArr.
From ScaredV Require Model.Des.
Import ListNotations.
Open Scope N_scope.

(* ================================================================ 1. linearity of a table permutation *)
Lemma lxor_double a b x y : N.lxor (2 * a + N.b2n x) (2 * b + N.b2n y) = 2 * N.lxor a b + N.b2n (xorb x y).
Proof.
  apply N.bits_inj. intros n. rewrite N.lxor_spec.
  destruct (N.eq_dec n 0) as [->|Hn].
  - rewrite !N.testbit_0_r. reflexivity.
  - rewrite <- (N.succ_pred n Hn). rewrite !N.testbit_succ_r. symmetry. apply N.lxor_spec.
Qed.

Lemma wob_xor {A} (f g : A -> bool) grp :
  word_of_bits (map (fun m => xorb (f m) (g m)) grp) = N.lxor (word_of_bits (map f grp)) (word_of_bits (map g grp)).
Proof.
  induction grp as [|m grp IH] using rev_ind; [reflexivity|].
  rewrite !map_app. cbn [map]. rewrite !wob_app, IH. change b2n with N.b2n. symmetry. apply lxor_double.
Qed.

Lemma nth_xorl : forall a b w, length a = length b -> nth w (Fips46.xorl a b) 0 = N.lxor (nth w a 0) (nth w b 0).
Proof.
  unfold Fips46.xorl. induction a as [|x a IH]; intros [|y b] w Hl; try discriminate.
  - destruct w; reflexivity.
  - cbn [combine map]. destruct w as [|w]; [reflexivity|]. cbn [nth]. apply IH. cbn in Hl. lia.
Qed.

Lemma getbit_xorl v a b m : length a = length b ->
  getbit v (Fips46.xorl a b) m = xorb (getbit v a m) (getbit v b m).
Proof. intros Hl. unfold getbit. rewrite nth_xorl by exact Hl. apply N.lxor_spec. Qed.

Lemma xorl_map_same {A} (f g : A -> N) l : Fips46.xorl (map f l) (map g l) = map (fun x => N.lxor (f x) (g x)) l.
Proof. unfold Fips46.xorl. rewrite combine_map_same, map_map. reflexivity. Qed.

Theorem permute_xorl v wd nout tbl a b : length a = length b ->
  permute v wd nout tbl (Fips46.xorl a b) = Fips46.xorl (permute v wd nout tbl a) (permute v wd nout tbl b).
Proof.
  intros Hl. unfold permute. rewrite xorl_map_same. apply map_ext. intros grp.
  rewrite <- wob_xor. f_equal. apply map_ext. intros m. apply getbit_xorl, Hl.
Qed.

Lemma invP_xorl a b : length a = length b -> des_invP (Fips46.xorl a b) = Fips46.xorl (des_invP a) (des_invP b).
Proof. apply permute_xorl. Qed.

(* ================================================================ 2. the word functions *)
(* F on the halves L R (the spec's des_F is this on IP(data)) *)
Definition des_Flr (s : nat) (lr : list N) (g : N) (w : nat) : N :=
  let L := firstn 4 lr in
  let R := skipn 4 lr in
  let a := N.lxor (nth w (des_E R) 0) g in
  match s with
  | 2%nat => a
  | 3%nat => des_S_i w a
  | 7%nat => N.lxor (nth w (des_invP L) 0) (des_S_i w a)
  | 8%nat => N.lxor (nth w (des_invP (Fips46.xorl L R)) 0) (des_S_i w a)
  | _ => 0
  end.

Lemma des_F_Flr s data g w : des_F s data g w = des_Flr s (des_IP data) g w.
Proof. reflexivity. Qed.

Definition tstep (s : nat) : Prop := (s = 2 \/ s = 3 \/ s = 7 \/ s = 8)%nat.

Lemma nth_des_S ws w : length ws = 8%nat -> (w < 8)%nat -> nth w (des_S ws) 0 = des_S_i w (nth w ws 0).
Proof.
  intros Hl Hw.
  destruct ws as [|a0 [|a1 [|a2 [|a3 [|a4 [|a5 [|a6 [|a7 [|]]]]]]]]]; try discriminate.
  do 8 (destruct w as [|w]; [reflexivity|]). lia.
Qed.

Lemma len_E r : length (des_E r) = 8%nat. Proof. apply des_E_okl. Qed.
Lemma len_invP r : length (des_invP r) = 8%nat. Proof. apply des_invP_okl. Qed.
Lemma len_P s : length (des_P s) = 4%nat. Proof. apply des_P_okl. Qed.

Lemma lxor_cancel_r a b : N.lxor (N.lxor a b) b = a.
Proof. rewrite N.lxor_assoc, N.lxor_nilpotent. apply N.lxor_0_r. Qed.

(* word w of a targeted step of one iteration: a function of the round key's word w only *)
Theorem des_step_word K lr s w : okl 8 256 lr -> length K = 8%nat -> (w < 8)%nat -> tstep s ->
  length (des_step K lr s) = 8%nat /\ nth w (des_step K lr s) 0 = des_Flr s lr (nth w K 0) w.
Proof.
  intros Hlr HK Hw Hs.
  pose proof (okl_firstn4 _ _ Hlr) as [HL _]. pose proof (okl_skipn4 _ _ Hlr) as [HR _].
  set (L := firstn 4 lr) in *. set (R := skipn 4 lr) in *.
  assert (Ha : length (Fips46.xorl (des_E R) K) = 8%nat) by (rewrite xorl_length, len_E, HK; reflexivity).
  assert (Hsb : okl 8 16 (des_S (Fips46.xorl (des_E R) K))) by (apply des_S_okl, Ha).
  assert (Hsbl : length (des_S (Fips46.xorl (des_E R) K)) = 8%nat) by apply Hsb.
  assert (Haw : nth w (Fips46.xorl (des_E R) K) 0 = N.lxor (nth w (des_E R) 0) (nth w K 0)) by (apply nth_xorl; rewrite len_E, HK; reflexivity).
  assert (Hsw : nth w (des_S (Fips46.xorl (des_E R) K)) 0 = des_S_i w (N.lxor (nth w (des_E R) 0) (nth w K 0)))
    by (rewrite nth_des_S by assumption; rewrite Haw; reflexivity).
  destruct Hs as [-> | [-> | [-> | ->]]]; unfold des_step, des_Flr; fold L R; cbv zeta.
  - split; [exact Ha|exact Haw].
  - split; [apply Hsb|exact Hsw].
  - rewrite invP_xorl by (rewrite len_P; exact HL). rewrite spec_invp_p by exact Hsb.
    split; [rewrite xorl_length, len_invP, Hsbl; reflexivity|].
    rewrite nth_xorl by (rewrite len_invP, Hsbl; reflexivity). rewrite Hsw. reflexivity.
  - rewrite invP_xorl by (rewrite xorl_length, len_P, HL, HR; reflexivity).
    rewrite invP_xorl by (rewrite len_P; exact HL). rewrite spec_invp_p by exact Hsb.
    split; [rewrite !xorl_length, !len_invP, Hsbl; reflexivity|].
    rewrite invP_xorl by (rewrite HL, HR; reflexivity).
    rewrite !nth_xorl; try (rewrite ?xorl_length, ?len_invP, ?Hsbl; reflexivity).
    rewrite Hsw. rewrite !N.lxor_assoc. f_equal. apply N.lxor_comm.
Qed.

(* "a real key with K_w = g": two round keys that agree on word w give the same word w *)
Corollary des_step_word_indep K K' lr s w : okl 8 256 lr -> length K = 8%nat -> length K' = 8%nat -> (w < 8)%nat -> tstep s ->
  nth w K 0 = nth w K' 0 -> nth w (des_step K lr s) 0 = nth w (des_step K' lr s) 0.
Proof.
  intros Hlr HK HK' Hw Hs E.
  rewrite (proj2 (des_step_word K lr s w Hlr HK Hw Hs)), (proj2 (des_step_word K' lr s w Hlr HK' Hw Hs)), E. reflexivity.
Qed.

(* ================================================================ 3. the targeted values, for any sixteen round keys *)
Definition rks_ok (rks : list (list N)) : Prop := length rks = 16%nat /\ Forall (okl 8 64) rks.

Lemma rks_nth rks i : rks_ok rks -> (i < 16)%nat -> okl 8 64 (nth i rks []).
Proof. intros [Hl Hf] Hi. rewrite Forall_forall in Hf. apply Hf, nth_In. lia. Qed.

Lemma firstn_S_nth {A} (d : A) : forall n l, (n < length l)%nat -> firstn (S n) l = (firstn n l ++ [nth n l d])%list.
Proof.
  induction n as [|n IH]; intros [|a l] Hl; cbn in Hl; try lia; [reflexivity|].
  cbn [firstn nth app]. f_equal. apply IH. lia.
Qed.

Lemma des_LR_S rks n b : (n < length rks)%nat -> des_LR rks (S n) b = des_round (nth n rks []) (des_LR rks n b).
Proof.
  intros Hn. rewrite !des_LR_fold. rewrite (firstn_S_nth [] n rks Hn), lr_fold_app. reflexivity.
Qed.

Lemma des_LR_okl rks n b : okl 8 256 (des_LR rks n b).
Proof. rewrite des_LR_fold. apply lr_fold_okl, des_IP_okl. Qed.

Lemma round_halves K lr : okl 8 256 lr ->
  firstn 4 (des_round K lr) = skipn 4 lr
  /\ skipn 4 (des_round K lr) = Fips46.xorl (firstn 4 lr) (des_f (skipn 4 lr) K).
Proof.
  intros Hlr. unfold des_round. apply split_app4. apply (okl_skipn4 _ _ Hlr).
Qed.

Lemma state_at_step rks b r s : (s <= 8)%nat -> des_state_at rks b r s = des_step (nth r rks []) (des_LR rks r b) s.
Proof.
  intros Hs. unfold des_state_at. replace (Nat.leb 9 s) with false by (symmetry; apply Nat.leb_gt; lia).
  rewrite andb_false_r. reflexivity.
Qed.

Definition des_data_of (sp : des_sf_spec) (rks : list (list N)) (inp : list N) : list N :=
  match ds_data sp with DIn => inp | DOut => des_core rks inp end.

Theorem des_targets_any_keys rks inp sp : rks_ok rks -> okl 8 256 inp -> In sp des_rows_generic ->
  okl 8 256 (des_data_of sp rks inp)
  /\ forall w, (w < 8)%nat ->
       des_F (ds_step sp) (des_data_of sp rks inp) (nth w (nth (ds_key_use sp) rks []) 0) w
       = nth w (des_state_at rks inp (fst (ds_at sp)) (snd (ds_at sp))) 0.
Proof.
  intros Hrk Hinp Hsp. pose proof Hrk as [Hl16 _].
  (* the classes reading the input: the first iteration *)
  assert (Hfirst : forall s, tstep s -> forall w, (w < 8)%nat ->
            des_F s inp (nth w (nth 0 rks []) 0) w = nth w (des_state_at rks inp 0 s) 0).
  { intros s Hs w Hw. rewrite state_at_step by (destruct Hs as [-> | [-> | [-> | ->]]]; lia).
    rewrite des_F_Flr. symmetry. apply des_step_word; try assumption.
    - apply des_IP_okl.
    - apply (rks_nth rks 0 Hrk). lia. }
  (* the classes reading the output: IP(out) = R16 L16 *)
  set (lr13 := des_LR rks 13 inp). set (lr14 := des_LR rks 14 inp). set (lr15 := des_LR rks 15 inp).
  assert (O13 : okl 8 256 lr13) by apply des_LR_okl. assert (O14 : okl 8 256 lr14) by apply des_LR_okl.
  assert (O15 : okl 8 256 lr15) by apply des_LR_okl.
  assert (E14 : lr14 = des_round (nth 13 rks []) lr13) by (apply des_LR_S; lia).
  assert (E15 : lr15 = des_round (nth 14 rks []) lr14) by (apply des_LR_S; lia).
  assert (E16 : des_LR rks 16 inp = des_round (nth 15 rks []) lr15) by (apply des_LR_S; lia).
  set (K := nth 15 rks []). assert (HK : okl 8 64 K) by (apply (rks_nth rks 15 Hrk); lia).
  set (L15 := firstn 4 lr15). set (R15 := skipn 4 lr15).
  pose proof (okl_firstn4 _ _ O15) as OL15. pose proof (okl_skipn4 _ _ O15) as OR15. fold L15 in OL15. fold R15 in OR15.
  set (sb := des_S (Fips46.xorl (des_E R15) K)).
  assert (Hsb : okl 8 16 sb) by (apply des_S_okl; rewrite xorl_length, len_E; destruct HK as [-> _]; reflexivity).
  set (X := Fips46.xorl L15 (des_P sb)).
  assert (HX : length X = 4%nat) by (unfold X; rewrite xorl_length, len_P; destruct OL15 as [-> _]; reflexivity).
  assert (Hip : des_IP (des_core rks inp) = (X ++ R15)%list).
  { unfold des_core. rewrite spec_ip_fp by (apply swap_halves_okl, des_LR_okl).
    rewrite E16. unfold swap_halves. destruct (round_halves K lr15 O15) as [H1 H2]. fold K. rewrite H1, H2. reflexivity. }
  destruct (split_app4 X R15 HX) as [HfX HsX].
  assert (Hout : okl 8 256 (des_core rks inp)) by apply des_core_okl.
  (* word w of the S-box output of the last iteration *)
  assert (Hsw : forall w, (w < 8)%nat -> nth w sb 0 = des_S_i w (N.lxor (nth w (des_E R15) 0) (nth w K 0))).
  { intros w Hw. unfold sb. rewrite nth_des_S; [|rewrite xorl_length, len_E; destruct HK as [-> _]; reflexivity|exact Hw].
    rewrite nth_xorl by (rewrite len_E; destruct HK as [-> _]; reflexivity). reflexivity. }
  assert (HinvX : des_invP X = Fips46.xorl (des_invP L15) sb).
  { unfold X. rewrite invP_xorl by (rewrite len_P; apply OL15). rewrite spec_invp_p by exact Hsb. reflexivity. }
  (* L15 = R14 = the new right half of iteration 13; R14 = L15 *)
  assert (HL15 : L15 = skipn 4 lr14) by (unfold L15; rewrite E15; apply (round_halves _ lr14 O14)).
  assert (Hnr13 : skipn 4 lr14 = Fips46.xorl (firstn 4 lr13) (des_f (skipn 4 lr13) (nth 13 rks []))) by (rewrite E14; apply (round_halves _ lr13 O13)).
  assert (Hnr14 : R15 = Fips46.xorl (firstn 4 lr14) (des_f (skipn 4 lr14) (nth 14 rks []))) by (unfold R15; rewrite E15; apply (round_halves _ lr14 O14)).
  cbn [des_rows_generic In] in Hsp.
  destruct Hsp as [<-|[<-|[<-|[<-|[<-|[<-|[<-|[<-|[]]]]]]]]]; unfold des_data_of; cbn [ds_data ds_key_use ds_step ds_at fst snd];
    (split; [assumption|]); try (apply Hfirst; unfold tstep; tauto); intros w Hw; fold K; rewrite des_F_Flr, Hip; unfold des_Flr; rewrite ?HfX, ?HsX.
  - (* LastAddRoundKey *)
    rewrite state_at_step by lia. fold lr15 K. symmetry.
    rewrite (proj2 (des_step_word K lr15 2 w O15 (proj1 HK) Hw ltac:(unfold tstep; tauto))). reflexivity.
  - (* LastSboxes *)
    rewrite state_at_step by lia. fold lr15 K. symmetry.
    rewrite (proj2 (des_step_word K lr15 3 w O15 (proj1 HK) Hw ltac:(unfold tstep; tauto))). reflexivity.
  - (* FeistelRLastRounds: P^-1 (X) xor S = P^-1 (L15), and L15 is the new right half of iteration 13 *)
    rewrite HinvX, nth_xorl by (rewrite len_invP; symmetry; apply Hsb). rewrite <- Hsw by exact Hw. rewrite lxor_cancel_r.
    rewrite state_at_step by lia. fold lr13. unfold des_step. rewrite HL15, Hnr13. reflexivity.
  - (* DeltaRLastRounds: P^-1 (X xor R15) xor S = P^-1 (L15 xor R15) = P^-1 (R14 xor R15) *)
    rewrite invP_xorl by (rewrite HX; symmetry; apply OR15). rewrite HinvX.
    rewrite !nth_xorl; try (rewrite ?xorl_length, ?len_invP; try (destruct Hsb as [-> _]); reflexivity).
    rewrite <- Hsw by exact Hw.
    replace (N.lxor (N.lxor (N.lxor (nth w (des_invP L15) 0) (nth w sb 0)) (nth w (des_invP R15) 0)) (nth w sb 0))
      with (N.lxor (nth w (des_invP L15) 0) (nth w (des_invP R15) 0)).
    2:{ rewrite (N.lxor_comm (nth w (des_invP L15) 0) (nth w sb 0)). rewrite !N.lxor_assoc.
        rewrite (N.lxor_comm (nth w sb 0)). rewrite !N.lxor_assoc. rewrite N.lxor_nilpotent, N.lxor_0_r. reflexivity. }
    rewrite state_at_step by lia. fold lr14. unfold des_step. unfold des_f in Hnr14. rewrite <- Hnr14, <- HL15.
    rewrite invP_xorl by (destruct OL15 as [-> _]; destruct OR15 as [-> _]; reflexivity).
    rewrite nth_xorl by (rewrite !len_invP; reflexivity). apply N.lxor_comm.
Qed.

(* the round keys of an operation under a real key *)
Lemma des_rks_ok ns key : rks_ok (des_rks ns (des_key_schedule key)).
Proof.
  unfold rks_ok, des_rks. rewrite pass_rks_length, des_key_schedule_length. split; [reflexivity|].
  destruct ns; cbn [des_dir pass_rks]; [apply des_key_schedule_okl|].
  apply Forall_rev, des_key_schedule_okl.
Qed.

Lemma des_rks_index ns key u : (u <= 15)%nat ->
  nth u (des_rks ns (des_key_schedule key)) [] = nth (des_schedule_index ns u) (des_key_schedule key) [].
Proof.
  intros Hu. destruct ns; cbn [des_rks des_dir pass_rks des_schedule_index]; [reflexivity|].
  rewrite rev_nth by (rewrite des_key_schedule_length; lia). rewrite des_key_schedule_length. f_equal; lia.
Qed.

(* ================================================================ 4. the model of _des_function *)
Lemma firstn_repeat {A} (x : A) n m : firstn n (repeat x (n + m)) = repeat x n.
Proof. induction n as [|n IH]; [reflexivity|]. cbn [repeat plus firstn]. f_equal. exact IH. Qed.

Lemma nth_repeat8 (g : N) w : (w < 8)%nat -> nth w (repeat g 8) 0 = g.
Proof. intros Hw. do 8 (destruct w as [|w]; [reflexivity|]). lia. Qed.

Lemma expanded_guess_key g : g < 64 -> Des.expanded_key (repeat g 128).
Proof.
  intros Hg. split; [left; apply repeat_length|]. apply Forall_forall. intros x Hx. apply repeat_spec in Hx. subst. exact Hg.
Qed.

(* for a key of 128 words no key schedule is consulted *)
Lemma des_cipher_with_128 scheds dec r s key block : length key = 128%nat ->
  Des.des_cipher_with scheds dec 0 r s key block = Des.des_cipher dec 0 r s key block.
Proof.
  intros Hl. unfold Des.des_cipher, Des.des_cipher_with, Des.prepared_keys_with. rewrite Hl.
  destruct dec; vm_compute (Des.lookup Des.key3_eqb _ Generated.DesRounds.key_sel_master); reflexivity.
Qed.

Theorem des_body_step s g d : g < 64 -> okl 8 256 d -> (s <= 9)%nat ->
  body_m 0 s (BDes false 128) d g = Some (des_step (repeat g 8) (des_IP d) s).
Proof.
  intros Hg Hd Hs. cbn [body_m]. change (Des.resolve_des 128 None) with 0%nat.
  rewrite des_cipher_with_128 by apply repeat_length.
  destruct (des_at_is_fips_thm false 0 0 s (repeat g 128) d (or_intror (expanded_guess_key g Hg)) Hd) as (ks & Hks & Hc); try lia.
  { unfold Des.n_passes. rewrite repeat_length. cbn. lia. }
  rewrite Hc. f_equal.
  unfold schedules_of_key in Hks. rewrite repeat_length in Hks. cbn [Nat.eqb orb Nat.div] in Hks.
  change (128 / 128)%nat with 1%nat in Hks. injection Hks as <-.
  unfold tdea_state_at. cbn [map chunks tdea_passes Des.dir_of firstn run_passes fold_left nth fst snd pass_rks].
  (* iteration 0 is never the end of the operation, whatever the step *)
  reflexivity.
Qed.

Lemma des_row_F s g d : okl 8 256 d -> tstep s ->
  des_step (repeat g 8) (des_IP d) s = map (fun w => des_F s d g w) (seq 0 8).
Proof.
  intros Hd Hs.
  assert (Hl : length (des_step (repeat g 8) (des_IP d) s) = 8%nat)
    by (apply (des_step_word (repeat g 8) (des_IP d) s 0); [apply des_IP_okl|apply repeat_length|lia|exact Hs]).
  apply (list_eq_nth 0).
  - rewrite Hl, map_length, seq_length. reflexivity.
  - rewrite Hl. intros w Hw. rewrite nth_map_seq by exact Hw.
    rewrite (proj2 (des_step_word (repeat g 8) (des_IP d) s w (des_IP_okl d) (repeat_length g 8) Hw Hs)).
    rewrite nth_repeat8 by exact Hw. reflexivity.
Qed.

Definition blocks (data : list (list N)) : Prop := Forall (okl 8 256) data.

(* _des_function(data, guesses, 0, s) = the (traces, guesses, words) array of F *)
Theorem des_function_full s data guesses : tstep s -> blocks data -> Forall (fun g => g < 64) guesses -> guesses <> [] ->
  eval_expr (body_m 0 s) (SeSwap 0 1 (SeGuessLoop (BDes false 128))) data guesses = Some (T3 (full_F (des_F s) 8 data guesses)).
Proof.
  intros Hs Hb Hg Hne.
  assert (Hs9 : (s <= 9)%nat) by (destruct Hs as [-> | [-> | [-> | ->]]]; lia).
  rewrite (eval_swap01 (body_m 0 s) data guesses (SeGuessLoop (BDes false 128)) (fun g d => des_step (repeat g 8) (des_IP d) s) guesses data).
  - f_equal. f_equal. apply tab3_full_F. intros d g Hd _. apply des_row_F; [|exact Hs].
    unfold blocks in Hb. rewrite Forall_forall in Hb. apply Hb, Hd.
  - apply eval_loop. intros g d Hgi Hd. rewrite Forall_forall in Hg. unfold blocks in Hb. rewrite Forall_forall in Hb.
    apply des_body_step; [apply Hg, Hgi|apply Hb, Hd|exact Hs9].
  - exact Hne.
Qed.

(* ================================================================ 5. the expected-key functions *)
Lemma des_first_key key : length key = 8%nat ->
  py_index (KFromStart 0) (Des.m_key_schedule key) = Some (nth 0 (des_key_schedule key) []).
Proof.
  intros Hl. rewrite (key_schedule_is_fips key Hl). cbn [py_index].
  pose proof (des_key_schedule_length key) as H. destruct (des_key_schedule key); [discriminate|reflexivity].
Qed.

Lemma des_last_key key : length key = 8%nat ->
  py_index (KFromEnd 1) (Des.m_key_schedule key) = Some (nth 15 (des_key_schedule key) []).
Proof.
  intros Hl. rewrite (key_schedule_is_fips key Hl). cbn [py_index]. rewrite des_key_schedule_length. cbn [Nat.leb andb Nat.sub].
  apply nth_error_nth'. rewrite des_key_schedule_length. lia.
Qed.
