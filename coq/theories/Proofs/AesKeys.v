(* Proofs/AesKeys.v — C05, part 2: the model of key_expansion / key_schedule (the loop of _expand_forward over the generated
   SBOX and RCON) is the FIPS-197 KeyExpansion for Nk = 4, 6, 8, for every key; the round keys are well-formed states. *)
From Coq Require Import NArith ZArith List Bool Arith Lia.
From ScaredV Require Import Generated.AesTables Spec.Fips197 Run.Compare Model.Aes Proofs.AesPrims.
Import ListNotations.
Open Scope N_scope.

Definition wordwf (w : list N) : Prop := length w = 4%nat /\ bytes w.

(* ---------------------------------------------------------------- small list facts *)
Lemma bytes_firstn : forall n l, bytes l -> bytes (firstn n l).
Proof.
  unfold bytes. induction n as [|n IH]; intros [|x l] H; cbn; try constructor.
  - exact (Forall_inv H).
  - apply IH. exact (Forall_inv_tail H).
Qed.

Lemma bytes_skipn : forall n l, bytes l -> bytes (skipn n l).
Proof.
  unfold bytes. induction n as [|n IH]; intros [|x l] H; cbn; try assumption.
  apply IH. exact (Forall_inv_tail H).
Qed.

Lemma Forall_firstn {A} (P : A -> Prop) : forall n l, Forall P l -> Forall P (firstn n l).
Proof.
  induction n as [|n IH]; intros [|x l] H; cbn; try constructor.
  - exact (Forall_inv H).
  - apply IH. exact (Forall_inv_tail H).
Qed.

Lemma Forall_skipn {A} (P : A -> Prop) : forall n l, Forall P l -> Forall P (skipn n l).
Proof.
  induction n as [|n IH]; intros [|x l] H; cbn; try assumption.
  apply IH. exact (Forall_inv_tail H).
Qed.

Lemma is_bytes_true l : bytes l -> is_bytes l = true.
Proof.
  intros H. unfold is_bytes. apply forallb_forall. intros x Hx. apply N.ltb_lt.
  unfold bytes in H. rewrite Forall_forall in H. apply H, Hx.
Qed.

Lemma Forall_nth_wf {A} (P : A -> Prop) (l : list A) d i : Forall P l -> (i < length l)%nat -> P (nth i l d).
Proof. intros H Hi. rewrite Forall_forall in H. apply H. apply nth_In. exact Hi. Qed.

(* ---------------------------------------------------------------- finite control facts, per key size *)
Definition cond_ok (Nk n : nat) : bool :=
  if (n mod Nk =? 0)%nat then true
  else Bool.eqb ((4 * Nk =? 32) && (n mod 4 =? 0))%nat ((6 <? Nk) && (n mod Nk =? 4))%nat.
Definition rcon_idx_ok (Nk n : nat) : bool :=
  if ((Nk <=? n) && (n mod Nk =? 0))%nat then ((1 <=? n / Nk) && (n / Nk <=? 10))%nat else true.
Definition ctl_ok (Nk : nat) : bool :=
  forallb (fun n => cond_ok Nk n && rcon_idx_ok Nk n) (seq 0 (total_words Nk))
  && (4 * Nk / 4 =? Nk)%nat && (0 <? Nk)%nat && (Nk <=? total_words Nk)%nat
  && match lookup_nat (4 * Nk) cols_out with Some c => (c =? total_words Nk)%nat | None => false end
  && (total_words Nk =? 4 * (Nr_of Nk + 1))%nat.

Lemma ctl_ok_all : forall Nk, In Nk [4; 6; 8]%nat -> ctl_ok Nk = true.
Proof. intros Nk [<-|[<-|[<-|[]]]]; vm_compute; reflexivity. Qed.

Section KeyExpansion.
  Variable Nk : nat.
  Variable key : list N.
  Hypothesis HNk : In Nk [4; 6; 8]%nat.
  Hypothesis Hkey : wf_key Nk key.

  Let Hctl := ctl_ok_all Nk HNk.

  Lemma ctl_facts :
    (forall n, (n < total_words Nk)%nat -> cond_ok Nk n = true /\ rcon_idx_ok Nk n = true)
    /\ (4 * Nk / 4 = Nk)%nat /\ (0 < Nk)%nat /\ (Nk <= total_words Nk)%nat
    /\ lookup_nat (4 * Nk) cols_out = Some (total_words Nk)
    /\ (total_words Nk = 4 * (Nr_of Nk + 1))%nat.
  Proof.
    pose proof Hctl as H. unfold ctl_ok in H. rewrite !andb_true_iff in H.
    destruct H as [[[[[H1 H2] H3] H4] H5] H6].
    split; [|split; [|split; [|split; [|split]]]].
    - intros n Hn. pose proof (nat_sweep _ _ H1 n Hn) as Hs. cbv beta in Hs. apply andb_true_iff in Hs. exact Hs.
    - apply Nat.eqb_eq, H2.
    - apply Nat.ltb_lt, H3.
    - apply Nat.leb_le, H4.
    - destruct (lookup_nat (4 * Nk) cols_out); [|discriminate]. apply Nat.eqb_eq in H5. congruence.
    - apply Nat.eqb_eq, H6.
  Qed.

  Lemma key_word_wf n : (n < Nk)%nat -> wordwf (key_word key n).
  Proof.
    intros Hn. destruct Hkey as [Hl Hb]. unfold key_word. split.
    - rewrite firstn_length, skipn_length, Hl. lia.
    - apply bytes_firstn, bytes_skipn, Hb.
  Qed.

  Lemma RotWord_wf t : wordwf t -> wordwf (RotWord t).
  Proof.
    intros [Hl Hb]. destruct (list4_inv t Hl) as (a&b&c&d&->). unfold bytes in Hb. inv_forall.
    split; [reflexivity|]. cbn. repeat (constructor; [assumption|]). constructor.
  Qed.

  Lemma SubWord_wf t : wordwf t -> wordwf (SubWord t).
  Proof.
    intros [Hl Hb]. split; [unfold SubWord; rewrite map_length; exact Hl|].
    unfold bytes, SubWord. rewrite Forall_map. revert Hb. apply Forall_impl. intros x Hx. apply sbox_spec_byte, Hx.
  Qed.

  Lemma iter_xtime_byte k : Nat.iter k xtime 1 < 256.
  Proof. induction k as [|k IH]; [reflexivity|]. cbn [Nat.iter]. apply xtime_byte, IH. Qed.

  Lemma Rcon_wf j : wordwf (Rcon j).
  Proof.
    split; [reflexivity|]. unfold Rcon. constructor; [apply iter_xtime_byte|]. repeat constructor.
  Qed.

  Lemma xorl_wordwf a b : wordwf a -> wordwf b -> wordwf (xorl a b).
  Proof.
    intros [Hla Hba] [Hlb Hbb]. split; [rewrite xorl_length, Hla, Hlb; reflexivity | apply xorl_bytes; assumption].
  Qed.

  Lemma next_word_wf n w : (n < total_words Nk)%nat -> length w = n -> Forall wordwf w -> wordwf (next_word Nk key n w).
  Proof.
    intros Hn Hl Hw. destruct ctl_facts as (_ & _ & Hpos & _).
    unfold next_word. destruct (Nat.ltb_spec n Nk) as [Hlt|Hge]; [apply key_word_wf, Hlt|].
    assert (Ht : wordwf (nth (n - 1) w [])) by (apply Forall_nth_wf; [exact Hw | lia]).
    assert (Hp : wordwf (nth (n - Nk) w [])) by (apply Forall_nth_wf; [exact Hw | lia]).
    apply xorl_wordwf; [exact Hp|].
    destruct (n mod Nk =? 0)%nat.
    - apply xorl_wordwf; [apply SubWord_wf, RotWord_wf, Ht | apply Rcon_wf].
    - destruct ((6 <? Nk) && (n mod Nk =? 4))%nat; [apply SubWord_wf, Ht | exact Ht].
  Qed.

  Lemma sub_rot_word t : wordwf t -> map (tbl SBOX) (roll (-1) t) = SubWord (RotWord t).
  Proof.
    intros [Hl Hb]. destruct (list4_inv t Hl) as (a&b&c&d&->). unfold bytes in Hb. inv_forall.
    change (roll (-1) [a; b; c; d]) with [b; c; d; a]. cbn [RotWord app SubWord map].
    rewrite !sbox_is_fips by assumption. reflexivity.
  Qed.

  Lemma sub_word t : wordwf t -> map (tbl SBOX) t = SubWord t.
  Proof.
    intros [_ Hb]. unfold SubWord. apply map_ext_in. intros x Hx. apply sbox_is_fips.
    unfold bytes in Hb. rewrite Forall_forall in Hb. apply Hb, Hx.
  Qed.

  (* one column of the loop = one word of Figure 11 *)
  Lemma step_eq n w : (n < total_words Nk)%nat -> length w = n -> Forall wordwf w ->
    expand_step (4 * Nk) (4 * Nk / 4) key w n = next_word Nk key n w.
  Proof.
    intros Hn Hl Hw. destruct ctl_facts as (Hsweep & Hdiv & Hpos & _).
    destruct (Hsweep n Hn) as [Hc Hr]. rewrite Hdiv.
    unfold expand_step, next_word. rewrite !bitwise_xor_is_xorl.
    destruct (Nat.ltb_spec n Nk) as [Hlt|Hge]; [reflexivity|].
    assert (Ht : wordwf (nth (n - 1) w [])) by (apply Forall_nth_wf; [exact Hw | lia]).
    unfold cond_ok in Hc. unfold rcon_idx_ok in Hr.
    destruct (n mod Nk =? 0)%nat eqn:E2.
    - replace (Nk <=? n)%nat with true in Hr by (symmetry; apply Nat.leb_le, Hge). cbn [andb] in Hr.
      apply andb_true_iff in Hr. destruct Hr as [Hr1 Hr2]. apply Nat.leb_le in Hr1. apply Nat.leb_le in Hr2.
      rewrite sub_rot_word by exact Ht. rewrite rcon_is_fips by lia. apply xorl_comm.
    - apply eqb_prop in Hc. rewrite Hc.
      destruct ((6 <? Nk) && (n mod Nk =? 4))%nat.
      + rewrite sub_word by exact Ht. apply xorl_comm.
      + apply xorl_comm.
  Qed.

  Lemma expand_cols_S klen n :
    expand_cols klen key (S n) = expand_cols klen key n ++ [expand_step klen (klen / 4) key (expand_cols klen key n) n].
  Proof. unfold expand_cols. rewrite seq_S, fold_left_app. reflexivity. Qed.

  Lemma expand_is_key_words n : (n <= total_words Nk)%nat ->
    expand_cols (4 * Nk) key n = key_words Nk key n /\ length (key_words Nk key n) = n /\ Forall wordwf (key_words Nk key n).
  Proof.
    induction n as [|n IH]; intros Hn.
    - repeat split. constructor.
    - destruct IH as (IH1 & IH2 & IH3); [lia|].
      rewrite expand_cols_S, IH1. cbn [key_words]. rewrite step_eq by (assumption || lia).
      repeat split.
      + rewrite app_length, IH2. cbn. lia.
      + apply Forall_app. split; [exact IH3|]. constructor; [|constructor]. apply next_word_wf; (assumption || lia).
  Qed.

  Theorem key_expansion_is_fips : key_expansion_m key = Some (KeyExpansion Nk key).
  Proof.
    destruct ctl_facts as (_ & _ & _ & _ & Hlook & _). destruct Hkey as [Hl Hb].
    unfold key_expansion_m. rewrite (is_bytes_true key Hb), Hl, Hlook.
    destruct (expand_is_key_words (total_words Nk) (le_n _)) as (H & _). rewrite H. reflexivity.
  Qed.

  Lemma KeyExpansion_wf : length (KeyExpansion Nk key) = total_words Nk /\ Forall wordwf (KeyExpansion Nk key).
  Proof. destruct (expand_is_key_words (total_words Nk) (le_n _)) as (_ & H2 & H3). split; assumption. Qed.
End KeyExpansion.

(* ---------------------------------------------------------------- reshape into 16-byte round keys *)
Lemma concat_length4 : forall W : list (list N), Forall wordwf W -> length (concat W) = (4 * length W)%nat.
Proof.
  induction 1 as [|w W [Hw _] _ IH]; [reflexivity|]. cbn [concat length]. rewrite app_length, Hw, IH. lia.
Qed.

Lemma concat4_wf (L : list (list N)) : Forall wordwf L -> length L = 4%nat -> wf (concat L).
Proof.
  intros HL Hl. destruct (list4_inv L Hl) as (a&b&c&d&->). inv_forall.
  repeat match goal with H : wordwf _ |- _ => destruct H end.
  cbn [concat]. split.
  - rewrite !app_length. cbn [length]. lia.
  - unfold bytes in *. rewrite !Forall_app. repeat split; try assumption. constructor.
Qed.

Lemma firstn16_concat a b c d (W : list (list N)) :
  wordwf a -> wordwf b -> wordwf c -> wordwf d ->
  firstn 16 (concat (a :: b :: c :: d :: W)) = concat [a; b; c; d]
  /\ skipn 16 (concat (a :: b :: c :: d :: W)) = concat W.
Proof.
  intros [Ha _] [Hb _] [Hc _] [Hd _].
  assert (E : concat (a :: b :: c :: d :: W) = concat [a; b; c; d] ++ concat W).
  { cbn [concat]. rewrite app_nil_r, !app_assoc. reflexivity. }
  assert (L : length (concat [a; b; c; d]) = 16%nat).
  { cbn [concat]. rewrite !app_length. cbn [length]. lia. }
  rewrite E. split.
  - rewrite <- L at 1. rewrite firstn_app, firstn_all, Nat.sub_diag. cbn [firstn]. apply app_nil_r.
  - rewrite <- L at 1. rewrite skipn_app, skipn_all, Nat.sub_diag. reflexivity.
Qed.

Lemma chunks16_round_keys : forall m (W : list (list N)), Forall wordwf W -> length W = (4 * m)%nat ->
  chunks16 m (concat W) = map (round_key_of W) (seq 0 m).
Proof.
  induction m as [|m IH]; intros W HW Hl; [reflexivity|].
  do 4 (destruct W as [|? W]; [cbn in Hl; lia|]).
  pose proof HW as HW'. inv_forall.
  match goal with |- chunks16 _ (concat (?a :: ?b :: ?c :: ?d :: _)) = _ =>
    destruct (firstn16_concat a b c d W) as [E1 E2]; try assumption end.
  cbn [chunks16]. rewrite E1, E2. cbn [seq map]. f_equal.
  rewrite <- seq_shift, map_map. rewrite IH; [|exact HW|cbn in Hl; lia].
  apply map_ext. intros r. unfold round_key_of.
  replace (4 * S r)%nat with (S (S (S (S (4 * r))))) by lia. reflexivity.
Qed.

Section KeySchedule.
  Variable Nk : nat.
  Variable key : list N.
  Hypothesis HNk : In Nk [4; 6; 8]%nat.
  Hypothesis Hkey : wf_key Nk key.

  (* key_schedule(key) = the Nr + 1 round keys of FIPS-197 *)
  Theorem key_schedule_is_fips : key_schedule_m key = Some (round_keys Nk key).
  Proof.
    destruct (ctl_facts Nk HNk) as (_ & _ & _ & _ & _ & Htot).
    destruct (KeyExpansion_wf Nk key HNk Hkey) as [Hl Hw].
    unfold key_schedule_m. rewrite (key_expansion_is_fips Nk key HNk Hkey). cbv beta iota zeta.
    rewrite concat_length4 by exact Hw. unfold word in *. rewrite Hl, Htot.
    replace (4 * (4 * (Nr_of Nk + 1)) / 16)%nat with (Nr_of Nk + 1)%nat
      by (symmetry; replace (4 * (4 * (Nr_of Nk + 1)))%nat with ((Nr_of Nk + 1) * 16)%nat by lia; apply Nat.div_mul; discriminate).
    rewrite chunks16_round_keys by (assumption || lia). reflexivity.
  Qed.

  Lemma round_keys_length : length (round_keys Nk key) = (Nr_of Nk + 1)%nat.
  Proof. unfold round_keys. rewrite map_length, seq_length. reflexivity. Qed.

  Lemma round_keys_wf : Forall wf (round_keys Nk key).
  Proof.
    destruct (ctl_facts Nk HNk) as (_ & _ & _ & _ & _ & Htot).
    destruct (KeyExpansion_wf Nk key HNk Hkey) as [Hl Hw].
    unfold round_keys. rewrite Forall_map. apply Forall_forall. intros r Hr. apply in_seq in Hr.
    unfold round_key_of. apply concat4_wf.
    - apply Forall_firstn, Forall_skipn, Hw.
    - rewrite firstn_length, skipn_length, Hl, Htot. lia.
  Qed.

  Lemma round_key_wf i : (i <= Nr_of Nk)%nat -> wf (nth i (round_keys Nk key) []).
  Proof. intros Hi. apply Forall_nth_wf; [apply round_keys_wf | rewrite round_keys_length; lia]. Qed.
End KeySchedule.
