(* Proofs/Kernels.v — lemmas for property C11 (results independent of kernel selection and thread count).
   Model: Model/Kernels.v.  Generic interleaving / footprint library: Lib/Interleave.v. *)
From Coq Require Import ZArith QArith Qcanon List Bool Lia Permutation.
From ScaredV Require Import Lib.QcSum Lib.Interleave Run.Compare Model.Accum Model.Kernels.
From ScaredV Require Model.Partitioned Proofs.Partitioned Model.Template Proofs.Template.
Import ListNotations.
Local Open Scope Qc_scope.

(* ================================================================================ sums *)
Lemma qsum_map_zero {A} (f : A -> Qc) l : (forall x, In x l -> f x = 0) -> qsum (map f l) = 0.
Proof.
  intros H. rewrite (qsum_map_ext f (fun _ => 0) l H), qsum_map_const. ring.
Qed.

Lemma qsum_map_const0 {A} (l : list A) : qsum (map (fun _ => 0) l) = 0.
Proof. apply qsum_map_zero. reflexivity. Qed.

Lemma qsum_map_const00 {A B} (l1 : list A) (l2 : list B) : qsum (map (fun _ => qsum (map (fun _ => 0) l2)) l1) = 0.
Proof. apply qsum_map_zero. intros x _. apply qsum_map_const0. Qed.

Lemma qsum_map_if_const {A} (c : bool) (f : A -> Qc) l :
  qsum (map (fun x => if c then f x else 0) l) = if c then qsum (map f l) else 0.
Proof. destruct c; [reflexivity|]. apply qsum_map_zero. reflexivity. Qed.

(* sum over i of [i0 = i] F i *)
Lemma qsum_seq_pick (F : nat -> Qc) i0 n : forall a,
  qsum (map (fun i => if Nat.eqb i0 i then F i else 0) (seq a n)) = if Nat.leb a i0 && Nat.ltb i0 (a + n) then F i0 else 0.
Proof.
  induction n as [|n IH]; intros a.
  - cbn [seq map]. rewrite qsum_nil.
    destruct (Nat.leb_spec a i0), (Nat.ltb_spec i0 (a + 0)); cbn [andb]; try reflexivity. lia.
  - cbn [seq map]. rewrite qsum_cons, IH.
    destruct (Nat.eqb_spec i0 a) as [->|N].
    + replace (Nat.leb (S a) a) with false by (symmetry; apply Nat.leb_gt; lia). cbn [andb].
      replace (Nat.leb a a) with true by (symmetry; apply Nat.leb_le; lia).
      replace (Nat.ltb a (a + S n)) with true by (symmetry; apply Nat.ltb_lt; lia). cbn [andb]. ring.
    + destruct (Nat.leb_spec (S a) i0), (Nat.leb_spec a i0), (Nat.ltb_spec i0 (S a + n)), (Nat.ltb_spec i0 (a + S n));
        cbn [andb]; try lia; ring.
Qed.

Lemma qsum_seq_pick0 (F : nat -> Qc) i0 n :
  qsum (map (fun i => if Nat.eqb i0 i then F i else 0) (seq 0 n)) = if Nat.ltb i0 n then F i0 else 0.
Proof. rewrite qsum_seq_pick. cbn [Nat.leb andb Nat.add]. reflexivity. Qed.

(* sum over a filtered list *)
Lemma qsum_filter {A} (g : A -> bool) (f : A -> Qc) l :
  qsum (map f (filter g l)) = qsum (map (fun x => if g x then f x else 0) l).
Proof.
  induction l as [|x l IH]; [reflexivity|]. cbn [filter map]. destruct (g x); cbn [map]; rewrite !qsum_cons, IH; ring.
Qed.

Lemma qlen_as_qsum {A} (l : list A) : qlen l = qsum (map (fun _ => 1) l).
Proof. induction l as [|x l IH]; [reflexivity|]. cbn [map]. rewrite qlen_cons, qsum_cons, IH. ring. Qed.

Lemma qsum_flat_map_gen {A} (f : A -> list Qc) l : qsum (flat_map f l) = qsum (map (fun x => qsum (f x)) l).
Proof. induction l as [|x l IH]; [reflexivity|]. cbn [flat_map map]. rewrite qsum_app, qsum_cons, IH. reflexivity. Qed.

(* ================================================================================ micro-steps *)
Section MicroProofs.
  Variable cell : Type.
  Variable ceqb : cell -> cell -> bool.
  Hypothesis ceqb_spec : forall a b, ceqb a b = true <-> a = b.

  Notation add := (add cell).
  Notation hits := (hits cell ceqb).
  Notation run_adds := (run_adds cell ceqb).
  Notation do_add := (do_add cell ceqb).
  Notation keqb := (keqb cell ceqb).
  Notation do_ustep := (do_ustep cell ceqb).
  Notation ufp := (ufp cell ceqb).
  Notation urun := (urun cell ceqb).
  Notation key := (key cell).
  Notation ustep := (ustep cell).

  Lemma ceqb_refl a : ceqb a a = true.
  Proof. apply ceqb_spec. reflexivity. Qed.

  (* ---- sequential runs: closed form *)
  Lemma hits_nil c : hits c [] = 0.
  Proof. reflexivity. Qed.

  Lemma hits_cons c (a : add) l : hits c (a :: l) = (if ceqb c (fst a) then snd a else 0) + hits c l.
  Proof. unfold Kernels.hits. cbn [filter]. destruct (ceqb c (fst a)); cbn [map]; [rewrite qsum_cons; reflexivity|ring]. Qed.

  Lemma hits_app c l1 l2 : hits c (l1 ++ l2) = hits c l1 + hits c l2.
  Proof. unfold Kernels.hits. rewrite filter_app, map_app, qsum_app. reflexivity. Qed.

  Lemma hits_flat_map {A} c (f : A -> list add) l : hits c (flat_map f l) = qsum (map (fun x => hits c (f x)) l).
  Proof. induction l as [|x l IH]; [reflexivity|]. cbn [flat_map map]. rewrite hits_app, qsum_cons, IH. reflexivity. Qed.

  Lemma hits_map {A} c (cf : A -> cell) (v : A -> Qc) l :
    hits c (map (fun j => (cf j, v j)) l) = qsum (map (fun j => if ceqb c (cf j) then v j else 0) l).
  Proof. induction l as [|x l IH]; [reflexivity|]. cbn [map]. rewrite hits_cons, qsum_cons, IH. reflexivity. Qed.

  Theorem run_adds_hits l : forall m c, run_adds m l c = m c + hits c l.
  Proof.
    induction l as [|a l IH]; intros m c.
    - change (run_adds m [] c) with (m c). rewrite hits_nil. ring.
    - change (run_adds m (a :: l)) with (run_adds (do_add m a) l). rewrite IH, hits_cons.
      unfold Kernels.do_add. destruct (ceqb c (fst a)); ring.
  Qed.

  Corollary pr_run_hits (k : prange cell) m c : pr_run cell ceqb k m c = m c + hits c (pr_seq cell k).
  Proof. apply run_adds_hits. Qed.

  Lemma run_adds_app l1 l2 m : run_adds m (l1 ++ l2) = run_adds (run_adds m l1) l2.
  Proof. apply exec_app. Qed.

  (* ---- the load/store machine fits the footprint discipline of Lib/Interleave.v *)
  Lemma keqb_spec (a b : key) : keqb a b = true <-> a = b.
  Proof.
    destruct a as [c|i], b as [c'|j]; cbn [Kernels.keqb].
    - rewrite ceqb_spec. split; [intros ->; reflexivity|intros H; injection H; trivial].
    - split; discriminate.
    - split; discriminate.
    - rewrite Nat.eqb_eq. split; [intros ->; reflexivity|intros H; injection H; trivial].
  Qed.

  Lemma keqb_refl a : keqb a a = true.
  Proof. apply keqb_spec. reflexivity. Qed.

  Lemma ufp_inv t k : ufp t k = true -> k = Reg (u_iter cell t) \/ k = Mem (u_cell cell t).
  Proof.
    destruct t as [i c|i c v]; cbn [Kernels.ufp u_iter u_cell]; intros H; apply orb_true_iff in H;
      (destruct H as [H|H]; apply keqb_spec in H; [left|right]; exact H).
  Qed.

  Lemma ufp_reg t : ufp t (Reg (u_iter cell t)) = true.
  Proof. destruct t; cbn [Kernels.ufp u_iter]; rewrite keqb_refl; reflexivity. Qed.

  Lemma ufp_mem t : ufp t (Mem (u_cell cell t)) = true.
  Proof. destruct t; cbn [Kernels.ufp u_cell]; rewrite keqb_refl; apply orb_true_r. Qed.

  Lemma u_frame : forall t s k, ufp t k = false -> do_ustep s t k = s k.
  Proof.
    intros [i c|i c v] s k H; cbn [Kernels.ufp] in H; apply orb_false_iff in H; destruct H as [H1 H2];
      cbn [Kernels.do_ustep]; [rewrite H1|rewrite H2]; reflexivity.
  Qed.

  Lemma u_local : forall t s s', (forall k, ufp t k = true -> s k = s' k) -> forall k, ufp t k = true -> do_ustep s t k = do_ustep s' t k.
  Proof.
    intros t s s' H k Hk. destruct t as [i c|i c v]; cbn [Kernels.do_ustep].
    - destruct (keqb k (Reg i)); [apply (H (Mem c)); apply (ufp_mem (Ld i c))|apply H; exact Hk].
    - destruct (keqb k (Mem c)); [f_equal; apply (H (Reg i)); apply (ufp_reg (St i c v))|apply H; exact Hk].
  Qed.

  Notation upeq := (peq key Qc).
  Notation udisjoint := (disjoint key ustep ufp).

  Lemma upeq_refl s : upeq s s.
  Proof. intros k. reflexivity. Qed.
  Lemma upeq_sym a b : upeq a b -> upeq b a.
  Proof. intros H k. symmetry. apply H. Qed.
  Lemma upeq_trans a b c : upeq a b -> upeq b c -> upeq a c.
  Proof. intros H1 H2 k. rewrite H1. apply H2. Qed.

  Lemma urun_proper l s s' : upeq s s' -> upeq (urun s l) (urun s' l).
  Proof.
    apply (exec_proper (key -> Qc) ustep upeq do_ustep).
    apply (fp_step_proper key Qc ustep do_ustep ufp u_frame u_local).
  Qed.

  Lemma urun_app l1 l2 s : urun s (l1 ++ l2) = urun (urun s l1) l2.
  Proof. apply exec_app. Qed.

  (* ---- ownership gives disjoint footprints *)
  Variable owner : cell -> nat.
  Definition uwf (t : ustep) : Prop := owner (u_cell cell t) = u_iter cell t.

  Lemma uwf_disjoint a b : uwf a -> uwf b -> u_iter cell a <> u_iter cell b -> udisjoint a b.
  Proof.
    intros Wa Wb N k Ha Hb. apply ufp_inv in Ha. apply ufp_inv in Hb.
    destruct Ha as [-> | ->], Hb as [Hb|Hb]; try discriminate.
    - injection Hb as E. apply N. exact E.
    - injection Hb as E. apply N. unfold uwf in *. rewrite <- Wa, <- Wb, E. reflexivity.
  Qed.

  Lemma in_expand i l t : In t (expand cell i l) -> u_iter cell t = i /\ exists a, In a l /\ u_cell cell t = fst a.
  Proof.
    unfold expand. rewrite in_flat_map. intros (a & Ha & Ht). cbn [In] in Ht.
    destruct Ht as [<-|[<-|[]]]; cbn [u_iter u_cell]; (split; [reflexivity|exists a; split; [exact Ha|reflexivity]]).
  Qed.

  Variable k : prange cell.
  Hypothesis Hown : owned owner k.

  Lemma usteps_wf i t : In t (usteps cell k i) -> u_iter cell t = i /\ uwf t.
  Proof.
    intros H. apply in_expand in H. destruct H as (Hi & a & Ha & Hc). split; [exact Hi|].
    unfold uwf. rewrite Hc, Hi. apply Hown. exact Ha.
  Qed.

  Lemma blocks_disjoint i j a b : i <> j -> In a (usteps cell k i) -> In b (usteps cell k j) -> udisjoint a b.
  Proof.
    intros N Ha Hb. apply usteps_wf in Ha. apply usteps_wf in Hb. destruct Ha as [Ia Wa], Hb as [Ib Wb].
    apply uwf_disjoint; [exact Wa|exact Wb|congruence].
  Qed.

  Notation blocks := (fun order => concat (map (usteps cell k) order)).

  Lemma in_blocks order t : In t (blocks order) -> exists j, In j order /\ In t (usteps cell k j).
  Proof.
    intros H. apply in_concat in H. destruct H as (l & Hl & Ht). apply in_map_iff in Hl. destruct Hl as (j & <- & Hj).
    exists j. split; assumption.
  Qed.

  (* an interleaving of two groups of iterations = the first group, then the second *)
  Lemma merge_two_groups l1 l2 r s :
    merge l1 l2 r -> (forall a b, In a l1 -> In b l2 -> udisjoint a b) -> upeq (urun s r) (urun s (l1 ++ l2)).
  Proof. intros M D. apply (merge_exec_fp key Qc ustep do_ustep ufp u_frame u_local l1 l2 r M D). Qed.

  Lemma nmerge_in {A} (ls : list (list A)) m x : nmerge ls m -> In x m -> In x (concat ls).
  Proof.
    induction 1 as [|l ls m r N IH M]; intros Hx; [exact Hx|].
    cbn [concat]. apply in_or_app. apply (proj1 (merge_in _ _ _ x M)) in Hx. destruct Hx as [Hx|Hx]; [left; exact Hx|right; apply IH; exact Hx].
  Qed.

  (* every interleaving of the micro-steps of distinct iterations = the iterations one after the other *)
  Lemma nmerge_blocks order : NoDup order -> forall r s, nmerge (map (usteps cell k) order) r -> upeq (urun s r) (urun s (blocks order)).
  Proof.
    induction order as [|i order IH]; intros ND r s N.
    - inversion N; subst. apply upeq_refl.
    - cbn [map] in N. inversion N as [|l ls m r' Nm M]; subst.
      inversion ND as [|? ? Hni ND']; subst.
      cbn [map concat].
      apply upeq_trans with (b := urun s (usteps cell k i ++ m)).
      + apply merge_two_groups; [exact M|].
        intros a b Ha Hb. apply (nmerge_in _ _ _ Nm) in Hb. apply in_blocks in Hb. destruct Hb as (j & Hj & Hb).
        apply (blocks_disjoint i j); [intros ->; contradiction|exact Ha|exact Hb].
      + rewrite !urun_app. apply IH; [exact ND'|exact Nm].
  Qed.

  (* the iterations one after the other, in any order *)
  Lemma perm_blocks order order' : Permutation order order' -> NoDup order ->
    forall s, upeq (urun s (blocks order)) (urun s (blocks order')).
  Proof.
    induction 1 as [|x l l' P IH|x y l|l l' l'' P1 IH1 P2 IH2]; intros ND s.
    - apply upeq_refl.
    - cbn [map concat]. rewrite !urun_app. apply IH. inversion ND; assumption.
    - cbn [map concat]. rewrite !app_assoc, !(urun_app _ (concat (map (usteps cell k) l))).
      apply urun_proper.
      apply upeq_sym. apply merge_two_groups; [apply merge_app_rev|].
      inversion ND as [|? ? Hni ND']; subst.
      intros a b Ha Hb. apply (blocks_disjoint y x); [|exact Ha|exact Hb].
      intros ->. apply Hni. left. reflexivity.
    - apply upeq_trans with (b := urun s (blocks l')); [apply IH1; exact ND|].
      apply IH2. apply (Permutation_NoDup P1). exact ND.
  Qed.

  (* the load/store run of whole iterations leaves in memory what the statements say *)
  Lemma expand_run i l : forall s m, (forall c, s (Mem c) = m c) -> forall c, urun s (expand cell i l) (Mem c) = run_adds m l c.
  Proof.
    induction l as [|a l IH]; intros s m H c; [apply H|].
    change (expand cell i (a :: l)) with (Ld i (fst a) :: St i (fst a) (snd a) :: expand cell i l).
    change (run_adds m (a :: l)) with (run_adds (do_add m a) l).
    cbn [Kernels.urun exec fold_left].
    apply IH. intros c'. cbn [Kernels.do_ustep Kernels.keqb].
    rewrite Nat.eqb_refl. unfold Kernels.do_add.
    destruct (ceqb c' (fst a)) eqn:E; [|apply H].
    apply ceqb_spec in E. subst c'. rewrite H. reflexivity.
  Qed.

  Lemma blocks_run order : forall s m, (forall c, s (Mem c) = m c) ->
    forall c, urun s (blocks order) (Mem c) = run_adds m (flat_map (pr_iter k) order) c.
  Proof.
    induction order as [|i order IH]; intros s m H c; [apply H|].
    cbn [map concat flat_map]. rewrite urun_app, run_adds_app.
    apply IH. intros c'. apply expand_run. exact H.
  Qed.

  (* ★ every schedule of the prange gives, in memory, the state of the sequential loop *)
  Theorem schedule_irrelevant order r m regs :
    schedule k order r -> forall c, urun (ustart cell m regs) r (Mem c) = pr_run cell ceqb k m c.
  Proof.
    intros [P N] c.
    assert (ND : NoDup order) by (apply (Permutation_NoDup (Permutation_sym P)); apply seq_NoDup).
    rewrite (nmerge_blocks order ND r _ N (Mem c)).
    rewrite (perm_blocks order _ P ND _ (Mem c)).
    apply blocks_run. intros c'. reflexivity.
  Qed.

  (* the sequential order is a schedule, and so is every permutation of the iterations run one after the other *)
  Lemma nmerge_concat {A} (ls : list (list A)) : nmerge ls (concat ls).
  Proof. induction ls as [|l ls IH]; [constructor|]. cbn [concat]. apply (nmerge_cons l ls (concat ls)); [exact IH|apply merge_app]. Qed.

  Lemma schedule_sequential order : Permutation order (seq 0 (pr_n k)) -> schedule k order (blocks order).
  Proof. intros P. split; [exact P|apply nmerge_concat]. Qed.

  (* two workers: the iterations are split into two groups, each worker runs its group one iteration after the other in
     its own order, and the two micro-step streams interleave in any way *)
  Theorem two_workers_irrelevant o1 o2 r m regs :
    Permutation (o1 ++ o2) (seq 0 (pr_n k)) -> merge (blocks o1) (blocks o2) r ->
    forall c, urun (ustart cell m regs) r (Mem c) = pr_run cell ceqb k m c.
  Proof.
    intros P M c.
    assert (ND : NoDup (o1 ++ o2)) by (apply (Permutation_NoDup (Permutation_sym P)); apply seq_NoDup).
    rewrite (merge_two_groups _ _ r _ M).
    - replace (blocks o1 ++ blocks o2) with (blocks (o1 ++ o2)) by (rewrite map_app, concat_app; reflexivity).
      rewrite (perm_blocks (o1 ++ o2) _ P ND _ (Mem c)).
      apply blocks_run. intros c'. reflexivity.
    - intros a b Ha Hb. apply in_blocks in Ha. apply in_blocks in Hb.
      destruct Ha as (i & Hi & Ha), Hb as (j & Hj & Hb).
      apply (blocks_disjoint i j); [|exact Ha|exact Hb].
      intros ->. revert Hi Hj. clear -ND. induction o1 as [|x o1 IH]; intros Hi Hj; [destruct Hi|].
      cbn [app] in ND. inversion ND as [|? ? Hni ND']; subst. destruct Hi as [->|Hi].
      + apply Hni. apply in_or_app. right. exact Hj.
      + apply IH; assumption.
  Qed.
End MicroProofs.


(* ================================================================================ cell equality tests *)
Lemma pcell_eqb_spec a b : pcell_eqb a b = true <-> a = b.
Proof.
  destruct a as [s w p|s w p|w p], b as [s' w' p'|s' w' p'|w' p']; cbn [pcell_eqb];
    try (split; discriminate);
    rewrite ?andb_true_iff, ?Nat.eqb_eq; (split; [intros H; decompose [and] H; subst; reflexivity|intros H; injection H; auto]).
Qed.

Lemma tcell_eqb_spec a b : tcell_eqb a b = true <-> a = b.
Proof.
  destruct a as [p|p s|p i j], b as [p'|p' s'|p' i' j']; cbn [tcell_eqb];
    try (split; discriminate);
    rewrite ?andb_true_iff, ?Nat.eqb_eq; (split; [intros H; decompose [and] H; subst; reflexivity|intros H; injection H; auto]).
Qed.

Lemma mcell_eqb_spec a b : mcell_eqb a b = true <-> a = b.
Proof.
  destruct a as [s b0 k w], b as [s' b0' k' w']; cbn [mcell_eqb].
  rewrite ?andb_true_iff, ?Nat.eqb_eq. split; [intros H; decompose [and] H; subst; reflexivity|intros H; injection H; auto].
Qed.

Lemma ucell_eqb_spec a b : ucell_eqb a b = true <-> a = b.
Proof.
  destruct a as [i|i], b as [j|j]; cbn [ucell_eqb]; try (split; discriminate);
    rewrite Nat.eqb_eq; (split; [intros ->; reflexivity|intros H; injection H; auto]).
Qed.

Lemma nat_eqb_spec' a b : Nat.eqb a b = true <-> a = b.
Proof. apply Nat.eqb_eq. Qed.

(* ================================================================================ the partitioned kernels *)
Lemma if_and3 (a b c : bool) (v : Qc) : (if a && b && c then v else 0) = (if a && b then (if c then v else 0) else 0).
Proof. destruct a, b, c; reflexivity. Qed.

(* sum over s, t, w of [s0 = s][w0 = w] g s t w *)
Lemma triple_pick (S T W : nat) (g : nat -> nat -> nat -> Qc) s0 w0 :
  qsum (map (fun s => qsum (map (fun t => qsum (map (fun w => if Nat.eqb s0 s && Nat.eqb w0 w then g s t w else 0) (seq 0 W)))
                            (seq 0 T))) (seq 0 S))
  = if Nat.ltb s0 S && Nat.ltb w0 W then qsum (map (fun t => g s0 t w0) (seq 0 T)) else 0.
Proof.
  rewrite (qsum_map_ext _ (fun s => if Nat.eqb s0 s then (if Nat.ltb w0 W then qsum (map (fun t => g s t w0) (seq 0 T)) else 0) else 0)).
  - rewrite qsum_seq_pick0. destruct (Nat.ltb s0 S), (Nat.ltb w0 W); reflexivity.
  - intros s _. destruct (Nat.eqb s0 s); cbn [andb].
    + rewrite <- qsum_map_if_const. apply qsum_map_ext. intros t _. rewrite qsum_seq_pick0. reflexivity.
    + apply qsum_map_zero. intros t _. apply qsum_map_zero. reflexivity.
Qed.

Section PartProofs.
  Variables S W P : nat.
  Variable castf : Qc -> Qc.
  Variables sq1 sq2 : Qc -> Qc.
  Variable junk : nat -> nat -> Qc.

  Notation phits := (hits pcell pcell_eqb).
  Notation pbatch_ok := (pbatch_ok W P).

  (* ---- kernel 1 *)
  Lemma hits_k1_body b s t w c : (-1 <= pb_idx b t w)%Z ->
    phits c (k1_body castf sq1 b s t w) =
    match c with
    | CSum s0 w0 p0 => if Nat.eqb s0 s && Nat.eqb w0 w then (if (pb_idx b t w =? Z.of_nat p0)%Z then castf (pb_x b t s) else 0) else 0
    | CSq s0 w0 p0 => if Nat.eqb s0 s && Nat.eqb w0 w then (if (pb_idx b t w =? Z.of_nat p0)%Z then sq1 (pb_x b t s) else 0) else 0
    | CCnt w0 p0 => if Nat.eqb 0 s && Nat.eqb w0 w then (if (pb_idx b t w =? Z.of_nat p0)%Z then 1 else 0) else 0
    end.
  Proof.
    intros Hd. unfold k1_body. destruct (Z.eqb_spec (pb_idx b t w) (-1)) as [E|E].
    - rewrite hits_nil. rewrite E.
      assert (F : forall p0, (-1 =? Z.of_nat p0)%Z = false) by (intros p0; apply Z.eqb_neq; lia).
      destruct c; rewrite F; repeat match goal with |- context [if ?x then _ else _] => destruct x end; reflexivity.
    - set (d := pb_idx b t w) in *.
      assert (K : forall p0, (d =? Z.of_nat p0)%Z = Nat.eqb p0 (Z.to_nat d)).
      { intros p0. destruct (Z.eqb_spec d (Z.of_nat p0)) as [->|N]; symmetry; [apply Nat.eqb_eq; lia|apply Nat.eqb_neq; lia]. }
      rewrite (Nat.eqb_sym 0 s).
      destruct c as [s0 w0 p0|s0 w0 p0|w0 p0]; rewrite K, !hits_cons; cbn [fst snd pcell_eqb];
        destruct (Nat.eqb s 0); rewrite ?hits_cons, hits_nil; cbn [fst snd pcell_eqb];
        repeat match goal with |- context [Nat.eqb ?x ?y] => destruct (Nat.eqb x y) end; cbn [andb]; ring.
  Qed.

  Lemma hits_k1 b c : pbatch_ok b ->
    phits c (pr_seq pcell (k1_prange S W castf sq1 b)) =
    match c with
    | CSum s0 w0 p0 => if Nat.ltb s0 S && Nat.ltb w0 W then class_sum b castf w0 p0 s0 else 0
    | CSq s0 w0 p0 => if Nat.ltb s0 S && Nat.ltb w0 W then class_sum b sq1 w0 p0 s0 else 0
    | CCnt w0 p0 => if Nat.ltb 0 S && Nat.ltb w0 W then class_cnt b w0 p0 else 0
    end.
  Proof.
    intros Hb. unfold pr_seq. cbn [pr_n pr_iter k1_prange].
    rewrite hits_flat_map.
    assert (E : forall s, phits c (k1_iter W castf sq1 b s) =
                qsum (map (fun t => qsum (map (fun w =>
                  match c with
                  | CSum s0 w0 p0 => if Nat.eqb s0 s && Nat.eqb w0 w then (if (pb_idx b t w =? Z.of_nat p0)%Z then castf (pb_x b t s) else 0) else 0
                  | CSq s0 w0 p0 => if Nat.eqb s0 s && Nat.eqb w0 w then (if (pb_idx b t w =? Z.of_nat p0)%Z then sq1 (pb_x b t s) else 0) else 0
                  | CCnt w0 p0 => if Nat.eqb 0 s && Nat.eqb w0 w then (if (pb_idx b t w =? Z.of_nat p0)%Z then 1 else 0) else 0
                  end) (seq 0 W))) (seq 0 (pb_T b)))).
    { intros s. unfold k1_iter. rewrite hits_flat_map. apply qsum_map_ext. intros t Ht. apply in_seq in Ht.
      rewrite hits_flat_map. apply qsum_map_ext. intros w Hw. apply in_seq in Hw.
      apply hits_k1_body. apply (Hb t w); lia. }
    rewrite (qsum_map_ext _ _ _ (fun s _ => E s)). clear E.
    destruct c as [s0 w0 p0|s0 w0 p0|w0 p0].
    - apply (triple_pick S (pb_T b) W (fun s t w => if (pb_idx b t w =? Z.of_nat p0)%Z then castf (pb_x b t s) else 0)).
    - apply (triple_pick S (pb_T b) W (fun s t w => if (pb_idx b t w =? Z.of_nat p0)%Z then sq1 (pb_x b t s) else 0)).
    - apply (triple_pick S (pb_T b) W (fun s t w => if (pb_idx b t w =? Z.of_nat p0)%Z then 1 else 0)).
  Qed.

  (* a class index beyond the declared classes collects nothing *)
  Lemma class_sum_beyond b f w p s : pbatch_ok b -> (w < W)%nat -> (P <= p)%nat -> class_sum b f w p s = 0.
  Proof.
    intros Hb Hw Hp. unfold class_sum. apply qsum_map_zero. intros t Ht. apply in_seq in Ht.
    destruct (Z.eqb_spec (pb_idx b t w) (Z.of_nat p)) as [E|E]; [|reflexivity].
    exfalso. specialize (Hb t w ltac:(lia) Hw). lia.
  Qed.

  Theorem core1_spec b : pbatch_ok b -> (0 < S)%nat ->
    forall m c, core1 S W castf sq1 b m c = m c + spec_add S W P castf sq1 b c.
  Proof.
    intros Hb HS m c. unfold core1. rewrite pr_run_hits, (hits_k1 b c Hb). f_equal.
    assert (H0 : Nat.ltb 0 S = true) by (apply Nat.ltb_lt; exact HS).
    unfold spec_add, in3, in2. destruct c as [s0 w0 p0|s0 w0 p0|w0 p0]; rewrite ?H0; cbn [andb].
    - destruct (Nat.ltb s0 S); cbn [andb]; [|reflexivity]. destruct (Nat.ltb_spec w0 W); cbn [andb]; [|reflexivity].
      destruct (Nat.ltb_spec p0 P); [reflexivity|]. apply class_sum_beyond; assumption.
    - destruct (Nat.ltb s0 S); cbn [andb]; [|reflexivity]. destruct (Nat.ltb_spec w0 W); cbn [andb]; [|reflexivity].
      destruct (Nat.ltb_spec p0 P); [reflexivity|]. apply class_sum_beyond; assumption.
    - destruct (Nat.ltb_spec w0 W); cbn [andb]; [|reflexivity].
      destruct (Nat.ltb_spec p0 P); [reflexivity|]. apply class_sum_beyond; assumption.
  Qed.

  (* ---- kernel 2 *)
  (* the column written for (class p, word w) is column p*W + w, and no later iteration overwrites it *)
  Lemma mask_fold b p w t : (w < W)%nat -> forall n a m,
    fold_left (mask_write W b) (seq a n) m t (p * W + w)%nat =
    if Nat.leb a p && Nat.ltb p (a + n) then tmp_bool b p t w else m t (p * W + w)%nat.
  Proof.
    intros Hw. induction n as [|n IH]; intros a m.
    - cbn [seq fold_left]. destruct (Nat.leb_spec a p), (Nat.ltb_spec p (a + 0)); cbn [andb]; try reflexivity. lia.
    - cbn [seq fold_left]. rewrite IH. unfold mask_write.
      destruct (Nat.eq_dec a p) as [->|N].
      + replace (Nat.leb (Datatypes.S p) p) with false by (symmetry; apply Nat.leb_gt; lia). cbn [andb].
        replace (Nat.leb p p) with true by (symmetry; apply Nat.leb_le; lia).
        replace (Nat.ltb p (p + Datatypes.S n)) with true by (symmetry; apply Nat.ltb_lt; lia). cbn [andb].
        replace (Nat.leb (p * W) (p * W + w)) with true by (symmetry; apply Nat.leb_le; lia).
        replace (Nat.ltb (p * W + w) ((p + 1) * W)) with true by (symmetry; apply Nat.ltb_lt; lia). cbn [andb].
        f_equal. lia.
      + assert (F : Nat.leb (a * W) (p * W + w) && Nat.ltb (p * W + w) ((a + 1) * W) = false).
        { apply andb_false_iff. destruct (Nat.lt_ge_cases a p) as [L|L].
          - right. apply Nat.ltb_ge. nia.
          - left. apply Nat.leb_gt. nia. }
        rewrite F.
        destruct (Nat.leb_spec (Datatypes.S a) p), (Nat.leb_spec a p), (Nat.ltb_spec p (Datatypes.S a + n)), (Nat.ltb_spec p (a + Datatypes.S n));
          cbn [andb]; try lia; reflexivity.
  Qed.

  Lemma bool_mask_spec b p w t : (p < P)%nat -> (w < W)%nat -> bool_mask W P junk b t (p * W + w)%nat = tmp_bool b p t w.
  Proof.
    intros Hp Hw. unfold bool_mask. rewrite (mask_fold b p w t Hw).
    replace (Nat.ltb p (0 + P)) with true by (symmetry; apply Nat.ltb_lt; lia). reflexivity.
  Qed.

  (* the div/mod lemma: entry [p][w][s] of reshape(P, W, S) is entry [p*W + w][s] of the (P*W) x S matrix *)
  Lemma flat_index (a s : nat) : (s < S)%nat -> ((a * S + s) / S = a /\ (a * S + s) mod S = s)%nat.
  Proof.
    intros Hs. assert (S <> 0)%nat by lia. split.
    - rewrite Nat.div_add_l by assumption. rewrite Nat.div_small by exact Hs. lia.
    - rewrite Nat.add_comm, Nat.mod_add by assumption. apply Nat.mod_small. exact Hs.
  Qed.

  Lemma reshape_T_entry (M : nat -> nat -> Qc) s w p : (s < S)%nat ->
    transpose3 (reshape3 W S (flat2 S M)) s w p = M (p * W + w)%nat s.
  Proof.
    intros Hs. unfold transpose3, reshape3, flat2. destruct (flat_index (p * W + w) s Hs) as [-> ->]. reflexivity.
  Qed.

  (* ★ core2_layout *)
  Theorem k2_addend_layout b f s w p : (s < S)%nat -> (w < W)%nat -> (p < P)%nat ->
    k2_addend S W P junk b f s w p = qsum (map (fun t => if (pb_idx b t w =? Z.of_nat p)%Z then f t s else 0) (seq 0 (pb_T b))).
  Proof.
    intros Hs Hw Hp. unfold k2_addend. rewrite reshape_T_entry by exact Hs. unfold mask_T_matmul.
    apply qsum_map_ext. intros t _. rewrite bool_mask_spec by assumption. unfold tmp_bool.
    destruct (pb_idx b t w =? Z.of_nat p)%Z; ring.
  Qed.

  Theorem core2_spec b m c : core2 S W P castf sq2 junk b m c = m c + spec_add S W P castf sq2 b c.
  Proof.
    unfold core2, spec_add. destruct c as [s w p|s w p|w p].
    - destruct (in3 S W P s w p) eqn:E; [|ring]. f_equal.
      unfold in3 in E. apply andb_true_iff in E. destruct E as [E Hp]. apply andb_true_iff in E. destruct E as [Hs Hw].
      apply Nat.ltb_lt in Hs, Hw, Hp. rewrite k2_addend_layout by assumption. reflexivity.
    - destruct (in3 S W P s w p) eqn:E; [|ring]. f_equal.
      unfold in3 in E. apply andb_true_iff in E. destruct E as [E Hp]. apply andb_true_iff in E. destruct E as [Hs Hw].
      apply Nat.ltb_lt in Hs, Hw, Hp. rewrite k2_addend_layout by assumption. reflexivity.
    - destruct (in2 W P w p) eqn:E; [|ring]. f_equal.
  Qed.

  Lemma spec_add_ext sqa sqb b c : (forall v, sqa v = sqb v) -> spec_add S W P castf sqa b c = spec_add S W P castf sqb b c.
  Proof.
    intros H. destruct c as [s w p|s w p|w p]; cbn [spec_add]; try reflexivity.
    destruct (in3 S W P s w p); [|reflexivity]. unfold class_sum. apply qsum_map_ext. intros t _. rewrite H. reflexivity.
  Qed.

  Hypothesis Hsq : forall v, sq1 v = sq2 v.
  Hypothesis HS : (0 < S)%nat.

  (* ★ core1_eq_core2: every cell, every batch with LUT indices in -1 .. P-1, every shape with at least one sample *)
  Theorem core1_eq_core2_thm b : pbatch_ok b -> forall m c, core1 S W castf sq1 b m c = core2 S W P castf sq2 junk b m c.
  Proof. intros Hb m c. rewrite (core1_spec b Hb HS), core2_spec, (spec_add_ext sq1 sq2 b c Hsq). reflexivity. Qed.

  Lemma accumulate_spec choice b : pbatch_ok b ->
    forall m c, accumulate S W P castf sq1 sq2 junk choice b m c = m c + spec_add S W P castf sq2 b c.
  Proof.
    intros Hb m c. unfold accumulate. destruct (select P choice).
    - apply core2_spec.
    - rewrite (core1_spec b Hb HS). rewrite (spec_add_ext sq1 sq2 b c Hsq). reflexivity.
  Qed.

  (* whatever kernel runs on each batch, the accumulators hold the class sums of all the batches *)
  Theorem run_batches_spec bs : Forall pbatch_ok bs ->
    forall cs m c, run_batches S W P castf sq1 sq2 junk cs bs m c = m c + spec_total S W P castf sq2 bs c.
  Proof.
    induction 1 as [|b bs Hb Hbs IH]; intros cs m c.
    - cbn [run_batches]. unfold spec_total. cbn [map]. rewrite qsum_nil. ring.
    - cbn [run_batches]. rewrite IH, (accumulate_spec _ b Hb). unfold spec_total. cbn [map]. rewrite qsum_cons. ring.
  Qed.

  (* ★ kernel_choice_irrelevant *)
  Theorem kernel_choice_irrelevant_thm bs : Forall pbatch_ok bs ->
    forall cs cs' m c, run_batches S W P castf sq1 sq2 junk cs bs m c = run_batches S W P castf sq1 sq2 junk cs' bs m c.
  Proof. intros Hbs cs cs' m c. rewrite !(run_batches_spec bs Hbs). reflexivity. Qed.
End PartProofs.

(* the content of np.empty is irrelevant *)
Theorem junk_irrelevant S W P castf sq2 junk junk' b m c :
  core2 S W P castf sq2 junk b m c = core2 S W P castf sq2 junk' b m c.
Proof. rewrite !core2_spec. reflexivity. Qed.

(* with zero-length traces kernel 1 never counts while kernel 2 does (the hypothesis 0 < S of core1_eq_core2 is needed) *)
Definition one_trace : pbatch := {| pb_T := 1; pb_x := fun _ _ => 0; pb_idx := fun _ _ => 0%Z |}.
Example zero_samples_differ :
  core1 0 1 idq sqq one_trace (fun _ => 0) (CCnt 0 0) = 0
  /\ core2 0 1 1 idq sqq zero_junk one_trace (fun _ => 0) (CCnt 0 0) = 1.
Proof. split; apply Qc_is_canon; vm_compute; reflexivity. Qed.

(* ================================================================================ the squaring step *)
(* ★ sq_cast_first_agree: the repaired kernel 1 and kernel 2 apply the same function (cast, then multiply in the
   precision) — true by construction of the model; its content is carried by the correspondence check *)
Theorem sq_cast_first_agree_thm d p x : sq_kernel1 d p x = sq_kernel2 d p x.
Proof. reflexivity. Qed.

Lemma wrap64_small z : (- 2 ^ 63 <= z < 2 ^ 63)%Z -> wrap64 z = z.
Proof. intros H. unfold wrap64. rewrite Z.mod_small by lia. lia. Qed.

Definition w_i64 : Qc := qz (2 ^ 33).                         (* an int64 sample *)
Definition w_f32 : Qc := scale_q (-14) 16386015.              (* the float32 nearest to 1000.123 (0x447A07DF) *)

Lemma Qc_neq_by_this (a b : Qc) : this a <> this b -> a <> b.
Proof. intros H E. apply H. rewrite E. reflexivity. Qed.

(* ★ sq_storage_refuted: squaring in the storage type (kernel 1 as found) differs from cast-then-square *)
Theorem sq_storage_refuted_thm :
  (sq_storage DI64 F64 w_i64 = 0 /\ sq_cast_first DI64 F64 w_i64 = qz (2 ^ 66))
  /\ sq_storage DF32 F64 w_f32 <> sq_cast_first DF32 F64 w_f32
  /\ (cast DI64 F64 w_i64 = w_i64 /\ cast DF32 F64 w_f32 = w_f32 /\ fround F32 w_f32 = w_f32)
  /\ sq_cast_first DF32 F64 w_f32 = w_f32 * w_f32.
Proof.
  repeat split; try (apply Qc_is_canon; vm_compute; reflexivity).
  apply Qc_neq_by_this. vm_compute. discriminate.
Qed.

(* the whole kernels then differ: three int64 traces of 2^33, one word, one class: sum_square 0 against 3 * 2^66 *)
Definition wrap_batch : pbatch := {| pb_T := 3; pb_x := fun _ _ => w_i64; pb_idx := fun _ _ => 0%Z |}.

Theorem storage_square_kernels_differ_thm :
  pbatch_ok 1 1 wrap_batch
  /\ core1 1 1 (cast DI64 F64) (sq_storage DI64 F64) wrap_batch (fun _ => 0) (CSq 0 0 0) = 0
  /\ core2 1 1 1 (cast DI64 F64) (sq_cast_first DI64 F64) zero_junk wrap_batch (fun _ => 0) (CSq 0 0 0) = qz (3 * 2 ^ 66).
Proof.
  split; [intros t w _ _; cbn; lia|]. split; apply Qc_is_canon; vm_compute; reflexivity.
Qed.

(* ================================================================================ the template-build kernels *)
Lemma double_pick (S T : nat) (g : nat -> nat -> Qc) s0 :
  qsum (map (fun s => qsum (map (fun t => if Nat.eqb s0 s then g s t else 0) (seq 0 T))) (seq 0 S))
  = if Nat.ltb s0 S then qsum (map (g s0) (seq 0 T)) else 0.
Proof.
  rewrite (qsum_map_ext _ (fun s => if Nat.eqb s0 s then qsum (map (g s) (seq 0 T)) else 0)); [apply qsum_seq_pick0|].
  intros s _. apply qsum_map_if_const.
Qed.

Section TemplProofs.
  Variables S P : nat.
  Variable castf : Qc -> Qc.

  Notation thits := (hits tcell tcell_eqb).
  Notation tbatch_ok := (tbatch_ok S P castf).

  (* ---- kernel 1 *)
  Lemma hits_t1_body b s t c : (-1 <= tb_idx b t)%Z ->
    thits c (t1_body S castf b s t) =
    match c with
    | TCnt p0 => if Nat.eqb 0 s then (if (tb_idx b t =? Z.of_nat p0)%Z then 1 else 0) else 0
    | TExi p0 s0 => if Nat.eqb s0 s then (if (tb_idx b t =? Z.of_nat p0)%Z then castf (tb_x b t s) else 0) else 0
    | TExxi p0 i0 j0 => if Nat.eqb i0 s then (if (tb_idx b t =? Z.of_nat p0)%Z
                                             then (if Nat.ltb j0 S then castf (tb_x b t s) * tb_x b t j0 else 0) else 0) else 0
    end.
  Proof.
    intros Hd. unfold t1_body. destruct (Z.eqb_spec (tb_idx b t) (-1)) as [E|E].
    - rewrite hits_nil, E.
      assert (F : forall p0, (-1 =? Z.of_nat p0)%Z = false) by (intros p0; apply Z.eqb_neq; lia).
      destruct c; rewrite F; repeat match goal with |- context [if ?x then _ else _] => destruct x end; reflexivity.
    - set (d := tb_idx b t) in *.
      assert (K : forall p0, (d =? Z.of_nat p0)%Z = Nat.eqb p0 (Z.to_nat d)).
      { intros p0. destruct (Z.eqb_spec d (Z.of_nat p0)) as [->|N]; symmetry; [apply Nat.eqb_eq; lia|apply Nat.eqb_neq; lia]. }
      rewrite hits_cons, hits_app.
      rewrite (hits_map tcell tcell_eqb c (fun j => TExxi (Z.to_nat d) s j) (fun j => castf (tb_x b t s) * tb_x b t j)).
      rewrite (Nat.eqb_sym 0 s).
      destruct c as [p0|p0 s0|p0 i0 j0]; rewrite K; cbn [fst snd tcell_eqb].
      + rewrite qsum_map_const0.
        destruct (Nat.eqb s 0); [rewrite hits_cons, hits_nil; cbn [fst snd tcell_eqb]|rewrite hits_nil];
          destruct (Nat.eqb p0 (Z.to_nat d)); ring.
      + rewrite qsum_map_const0.
        destruct (Nat.eqb s 0); rewrite ?hits_cons, ?hits_nil; cbn [fst snd tcell_eqb];
          destruct (Nat.eqb p0 (Z.to_nat d)), (Nat.eqb s0 s); cbn [andb]; ring.
      + destruct (Nat.eqb s 0); rewrite ?hits_cons, ?hits_nil; cbn [fst snd tcell_eqb];
          (rewrite (qsum_map_ext _ (fun j => if Nat.eqb j0 j
                                            then (if Nat.eqb p0 (Z.to_nat d) && Nat.eqb i0 s then castf (tb_x b t s) * tb_x b t j else 0) else 0));
           [rewrite qsum_seq_pick0; destruct (Nat.eqb p0 (Z.to_nat d)), (Nat.eqb i0 s), (Nat.ltb j0 S); cbn [andb]; ring
           |intros j _; destruct (Nat.eqb p0 (Z.to_nat d)), (Nat.eqb i0 s), (Nat.eqb j0 j); reflexivity]).
  Qed.

  Lemma hits_t1 b c : (forall t, (t < tb_T b)%nat -> (-1 <= tb_idx b t)%Z) ->
    thits c (pr_seq tcell (t1_prange S castf b)) =
    match c with
    | TCnt p0 => if Nat.ltb 0 S then tclass_sum b p0 (fun _ => 1) else 0
    | TExi p0 s0 => if Nat.ltb s0 S then tclass_sum b p0 (fun t => castf (tb_x b t s0)) else 0
    | TExxi p0 i0 j0 => if Nat.ltb i0 S then tclass_sum b p0 (fun t => if Nat.ltb j0 S then castf (tb_x b t i0) * tb_x b t j0 else 0) else 0
    end.
  Proof.
    intros Hb. unfold pr_seq. cbn [pr_n pr_iter t1_prange]. rewrite hits_flat_map.
    assert (E : forall s, thits c (t1_iter S castf b s) =
                qsum (map (fun t =>
                  match c with
                  | TCnt p0 => if Nat.eqb 0 s then (if (tb_idx b t =? Z.of_nat p0)%Z then 1 else 0) else 0
                  | TExi p0 s0 => if Nat.eqb s0 s then (if (tb_idx b t =? Z.of_nat p0)%Z then castf (tb_x b t s) else 0) else 0
                  | TExxi p0 i0 j0 => if Nat.eqb i0 s then (if (tb_idx b t =? Z.of_nat p0)%Z
                                                           then (if Nat.ltb j0 S then castf (tb_x b t s) * tb_x b t j0 else 0) else 0) else 0
                  end) (seq 0 (tb_T b)))).
    { intros s. unfold t1_iter. rewrite hits_flat_map. apply qsum_map_ext. intros t Ht. apply in_seq in Ht.
      apply hits_t1_body. apply Hb. lia. }
    rewrite (qsum_map_ext _ _ _ (fun s _ => E s)). clear E.
    destruct c as [p0|p0 s0|p0 i0 j0].
    - apply (double_pick S (tb_T b) (fun s t => if (tb_idx b t =? Z.of_nat p0)%Z then 1 else 0)).
    - apply (double_pick S (tb_T b) (fun s t => if (tb_idx b t =? Z.of_nat p0)%Z then castf (tb_x b t s) else 0)).
    - apply (double_pick S (tb_T b) (fun s t => if (tb_idx b t =? Z.of_nat p0)%Z
                                                then (if Nat.ltb j0 S then castf (tb_x b t s) * tb_x b t j0 else 0) else 0)).
  Qed.

  Lemma tclass_sum_beyond b p f : (forall t, (t < tb_T b)%nat -> (tb_idx b t < Z.of_nat P)%Z) -> (P <= p)%nat -> tclass_sum b p f = 0.
  Proof.
    intros Hb Hp. unfold tclass_sum. apply qsum_map_zero. intros t Ht. apply in_seq in Ht.
    destruct (Z.eqb_spec (tb_idx b t) (Z.of_nat p)) as [E|E]; [|reflexivity].
    exfalso. specialize (Hb t ltac:(lia)). lia.
  Qed.

  Lemma tclass_sum_ext b p f g : (forall t, (t < tb_T b)%nat -> f t = g t) -> tclass_sum b p f = tclass_sum b p g.
  Proof.
    intros H. unfold tclass_sum. apply qsum_map_ext. intros t Ht. apply in_seq in Ht. rewrite H by lia. reflexivity.
  Qed.

  Theorem tcore1_spec b : tbatch_ok b -> (0 < S)%nat -> forall m c, tcore1 S castf b m c = m c + tspec_add S P castf b c.
  Proof.
    intros [Hidx Hcast] HS m c. unfold tcore1. rewrite pr_run_hits.
    rewrite (hits_t1 b c) by (intros t Ht; apply (Hidx t Ht)). f_equal.
    assert (Hlt : forall t, (t < tb_T b)%nat -> (tb_idx b t < Z.of_nat P)%Z) by (intros t Ht; apply (Hidx t Ht)).
    assert (H0 : Nat.ltb 0 S = true) by (apply Nat.ltb_lt; exact HS).
    unfold tspec_add. destruct c as [p0|p0 s0|p0 i0 j0]; rewrite ?H0.
    - destruct (Nat.ltb_spec p0 P); [reflexivity|]. apply tclass_sum_beyond; assumption.
    - destruct (Nat.ltb_spec p0 P); cbn [andb].
      + destruct (Nat.ltb s0 S); reflexivity.
      + destruct (Nat.ltb s0 S); [|reflexivity]. apply tclass_sum_beyond; assumption.
    - destruct (Nat.ltb_spec p0 P); cbn [andb].
      + destruct (Nat.ltb i0 S); cbn [andb]; [|reflexivity].
        destruct (Nat.ltb_spec j0 S).
        * apply tclass_sum_ext. intros t Ht. rewrite (Hcast t j0 Ht) by assumption. reflexivity.
        * unfold tclass_sum. apply qsum_map_zero. intros t _. destruct (tb_idx b t =? Z.of_nat p0)%Z; reflexivity.
      + destruct (Nat.ltb i0 S); [|reflexivity]. apply tclass_sum_beyond; assumption.
  Qed.

  (* ---- kernel 2 *)
  Lemma hits_t2_iter b p c :
    thits c (t2_iter S castf b p) =
    match c with
    | TCnt p0 => if Nat.eqb p0 p then qlen (selected b p) else 0
    | TExi p0 s0 => if Nat.eqb p0 p then (if Nat.ltb s0 S then qsum (map (fun t => castf (tb_x b t s0)) (selected b p)) else 0) else 0
    | TExxi p0 i0 j0 => if Nat.eqb p0 p
                        then (if Nat.ltb i0 S then (if Nat.ltb j0 S then qsum (map (fun t => castf (tb_x b t i0) * castf (tb_x b t j0)) (selected b p)) else 0) else 0)
                        else 0
    end.
  Proof.
    unfold t2_iter. set (rows := selected b p).
    rewrite hits_cons, hits_app.
    rewrite (hits_map tcell tcell_eqb c (fun j => TExi p j) (fun j => qsum (map (fun t => castf (tb_x b t j)) rows))).
    rewrite hits_flat_map.
    rewrite (qsum_map_ext _ _ _ (fun i _ => hits_map tcell tcell_eqb c (fun j => TExxi p i j)
                                   (fun j => qsum (map (fun t => castf (tb_x b t i) * castf (tb_x b t j)) rows)) (seq 0 S))).
    destruct c as [p0|p0 s0|p0 i0 j0]; cbn [fst snd tcell_eqb].
    - rewrite qsum_map_const00, qsum_map_const0.
      destruct (Nat.eqb p0 p); ring.
    - rewrite qsum_map_const00.
      rewrite (qsum_map_ext _ (fun j => if Nat.eqb s0 j then (if Nat.eqb p0 p then qsum (map (fun t => castf (tb_x b t j)) rows) else 0) else 0))
        by (intros j _; destruct (Nat.eqb p0 p), (Nat.eqb s0 j); reflexivity).
      rewrite qsum_seq_pick0. destruct (Nat.eqb p0 p), (Nat.ltb s0 S); ring.
    - rewrite qsum_map_const0.
      rewrite (qsum_map_ext _ (fun i => if Nat.eqb i0 i
                 then (if Nat.ltb j0 S then (if Nat.eqb p0 p then qsum (map (fun t => castf (tb_x b t i) * castf (tb_x b t j0)) rows) else 0) else 0)
                 else 0)).
      + rewrite qsum_seq_pick0. destruct (Nat.eqb p0 p), (Nat.ltb i0 S), (Nat.ltb j0 S); ring.
      + intros i _.
        rewrite (qsum_map_ext _ (fun j => if Nat.eqb j0 j
                   then (if Nat.eqb p0 p && Nat.eqb i0 i then qsum (map (fun t => castf (tb_x b t i) * castf (tb_x b t j)) rows) else 0) else 0))
          by (intros j _; destruct (Nat.eqb p0 p), (Nat.eqb i0 i), (Nat.eqb j0 j); reflexivity).
        rewrite qsum_seq_pick0. destruct (Nat.eqb p0 p), (Nat.eqb i0 i), (Nat.ltb j0 S); reflexivity.
  Qed.

  Lemma selected_sum b p f : qsum (map f (selected b p)) = tclass_sum b p f.
  Proof. unfold selected, tclass_sum. apply qsum_filter. Qed.

  Theorem tcore2_spec b m c : tcore2 S P castf b m c = m c + tspec_add S P castf b c.
  Proof.
    unfold tcore2. rewrite pr_run_hits. f_equal. unfold pr_seq. cbn [pr_n pr_iter t2_prange].
    rewrite hits_flat_map. rewrite (qsum_map_ext _ _ _ (fun p _ => hits_t2_iter b p c)).
    unfold tspec_add. destruct c as [p0|p0 s0|p0 i0 j0].
    - rewrite (qsum_seq_pick0 (fun p => qlen (selected b p))). destruct (Nat.ltb p0 P); [|reflexivity].
      rewrite qlen_as_qsum. apply selected_sum.
    - rewrite (qsum_seq_pick0 (fun p => if Nat.ltb s0 S then qsum (map (fun t => castf (tb_x b t s0)) (selected b p)) else 0)).
      destruct (Nat.ltb p0 P), (Nat.ltb s0 S); cbn [andb]; try reflexivity. apply selected_sum.
    - rewrite (qsum_seq_pick0 (fun p => if Nat.ltb i0 S then (if Nat.ltb j0 S
                 then qsum (map (fun t => castf (tb_x b t i0) * castf (tb_x b t j0)) (selected b p)) else 0) else 0)).
      destruct (Nat.ltb p0 P), (Nat.ltb i0 S), (Nat.ltb j0 S); cbn [andb]; try reflexivity. apply selected_sum.
  Qed.

  Hypothesis HS : (0 < S)%nat.

  (* ★ template core1_eq_core2 *)
  Theorem tcore1_eq_tcore2_thm b : tbatch_ok b -> forall m c, tcore1 S castf b m c = tcore2 S P castf b m c.
  Proof. intros Hb m c. rewrite (tcore1_spec b Hb HS), tcore2_spec. reflexivity. Qed.

  Theorem trun_batches_spec bs : Forall tbatch_ok bs ->
    forall cs m c, trun_batches S P castf cs bs m c = m c + tspec_total S P castf bs c.
  Proof.
    induction 1 as [|b bs Hb Hbs IH]; intros cs m c.
    - cbn [trun_batches]. unfold tspec_total. cbn [map]. rewrite qsum_nil. ring.
    - cbn [trun_batches]. rewrite IH. unfold taccumulate, tspec_total. cbn [map]. rewrite qsum_cons.
      destruct (hd false cs); [rewrite tcore2_spec|rewrite (tcore1_spec b Hb HS)]; ring.
  Qed.

  (* ★ template kernel_choice_irrelevant *)
  Theorem tkernel_choice_irrelevant_thm bs : Forall tbatch_ok bs ->
    forall cs cs' m c, trun_batches S P castf cs bs m c = trun_batches S P castf cs' bs m c.
  Proof. intros Hbs cs cs' m c. rewrite !(trun_batches_spec bs Hbs). reflexivity. Qed.
End TemplProofs.

(* ================================================================================ the five prange kernels: footprints *)
Lemma k1_owned S W castf sq1 b : owned pcell_owner (k1_prange S W castf sq1 b).
Proof.
  intros s a Ha. cbn [pr_iter k1_prange] in Ha. unfold k1_iter in Ha.
  apply in_flat_map in Ha. destruct Ha as (t & _ & Ha). apply in_flat_map in Ha. destruct Ha as (w & _ & Ha).
  unfold k1_body in Ha. destruct (pb_idx b t w =? -1)%Z; [destruct Ha|].
  destruct Ha as [<-|[<-|Ha]]; try reflexivity.
  destruct (Nat.eqb_spec s 0) as [->|]; [|destruct Ha]. destruct Ha as [<-|[]]. reflexivity.
Qed.

Lemma t1_owned S castf b : owned tcell_owner1 (t1_prange S castf b).
Proof.
  intros s a Ha. cbn [pr_iter t1_prange] in Ha. unfold t1_iter in Ha.
  apply in_flat_map in Ha. destruct Ha as (t & _ & Ha).
  unfold t1_body in Ha. destruct (tb_idx b t =? -1)%Z; [destruct Ha|].
  destruct Ha as [<-|Ha]; [reflexivity|]. apply in_app_or in Ha. destruct Ha as [Ha|Ha].
  - destruct (Nat.eqb_spec s 0) as [->|]; [|destruct Ha]. destruct Ha as [<-|[]]. reflexivity.
  - apply in_map_iff in Ha. destruct Ha as (j & <- & _). reflexivity.
Qed.

Lemma t2_owned S P castf b : owned tcell_owner2 (t2_prange S P castf b).
Proof.
  intros p a Ha. cbn [pr_iter t2_prange] in Ha. unfold t2_iter in Ha.
  destruct Ha as [<-|Ha]; [reflexivity|]. apply in_app_or in Ha. destruct Ha as [Ha|Ha].
  - apply in_map_iff in Ha. destruct Ha as (j & <- & _). reflexivity.
  - apply in_flat_map in Ha. destruct Ha as (i & _ & Ha). apply in_map_iff in Ha. destruct Ha as (j & <- & _). reflexivity.
Qed.

Lemma mia_owned S W edges est b : owned mcell_owner (mia_prange S W edges est b).
Proof.
  intros s a Ha. cbn [pr_iter mia_prange] in Ha. unfold mia_iter in Ha.
  apply in_flat_map in Ha. destruct Ha as (t & _ & Ha).
  unfold mia_body in Ha. destruct (Mia.bin_index edges est (pb_x b t s)) as [bin|]; [|destruct Ha].
  apply in_flat_map in Ha. destruct Ha as (w & _ & Ha).
  destruct (pb_idx b t w =? -1)%Z; [destruct Ha|]. destruct Ha as [<-|[]]. reflexivity.
Qed.

Lemma tt_owned S castf T x : owned ucell_owner (tt_prange S castf T x).
Proof. intros i a Ha. cbn [pr_iter tt_prange] in Ha. unfold tt_iter in Ha. destruct Ha as [<-|[<-|[]]]; reflexivity. Qed.

(* ★ prange_schedule_irrelevant, for the five kernels *)
Theorem part1_schedule_thm S W castf sq1 b order r m regs :
  schedule (k1_prange S W castf sq1 b) order r ->
  forall c, urun pcell pcell_eqb (ustart pcell m regs) r (Mem c) = core1 S W castf sq1 b m c.
Proof. apply (schedule_irrelevant pcell pcell_eqb pcell_eqb_spec pcell_owner _ (k1_owned S W castf sq1 b)). Qed.

Theorem templ1_schedule_thm S castf b order r m regs :
  schedule (t1_prange S castf b) order r ->
  forall c, urun tcell tcell_eqb (ustart tcell m regs) r (Mem c) = tcore1 S castf b m c.
Proof. apply (schedule_irrelevant tcell tcell_eqb tcell_eqb_spec tcell_owner1 _ (t1_owned S castf b)). Qed.

Theorem templ2_schedule_thm S P castf b order r m regs :
  schedule (t2_prange S P castf b) order r ->
  forall c, urun tcell tcell_eqb (ustart tcell m regs) r (Mem c) = tcore2 S P castf b m c.
Proof. apply (schedule_irrelevant tcell tcell_eqb tcell_eqb_spec tcell_owner2 _ (t2_owned S P castf b)). Qed.

Theorem mia_schedule_thm S W edges est b order r m regs :
  schedule (mia_prange S W edges est b) order r ->
  forall c, urun mcell mcell_eqb (ustart mcell m regs) r (Mem c) = pr_run mcell mcell_eqb (mia_prange S W edges est b) m c.
Proof. apply (schedule_irrelevant mcell mcell_eqb mcell_eqb_spec mcell_owner _ (mia_owned S W edges est b)). Qed.

Theorem ttest_schedule_thm S castf T x order r m regs :
  schedule (tt_prange S castf T x) order r ->
  forall c, urun ucell ucell_eqb (ustart ucell m regs) r (Mem c) = pr_run ucell ucell_eqb (tt_prange S castf T x) m c.
Proof. apply (schedule_irrelevant ucell ucell_eqb ucell_eqb_spec ucell_owner _ (tt_owned S castf T x)). Qed.

(* what the sequential MIA and t-test kernels leave in each cell *)
Theorem ttest_kernel_cells S castf T x m i : (i < S)%nat ->
  pr_run ucell ucell_eqb (tt_prange S castf T x) m (USum i) = m (USum i) + qsum (map (fun t => castf (x t i)) (seq 0 T))
  /\ pr_run ucell ucell_eqb (tt_prange S castf T x) m (USq i) = m (USq i) + qsum (map (fun t => castf (x t i) * castf (x t i)) (seq 0 T)).
Proof.
  intros Hi. rewrite !pr_run_hits. unfold pr_seq. cbn [pr_n pr_iter tt_prange]. rewrite !hits_flat_map.
  assert (L : Nat.ltb i S = true) by (apply Nat.ltb_lt; exact Hi).
  split; f_equal.
  - rewrite (qsum_map_ext _ (fun j => if Nat.eqb i j then qsum (map (fun t => castf (x t j)) (seq 0 T)) else 0)).
    + rewrite qsum_seq_pick0, L. reflexivity.
    + intros j _. unfold tt_iter. rewrite !hits_cons, hits_nil. cbn [fst snd ucell_eqb]. destruct (Nat.eqb i j); ring.
  - rewrite (qsum_map_ext _ (fun j => if Nat.eqb i j then qsum (map (fun t => castf (x t j) * castf (x t j)) (seq 0 T)) else 0)).
    + rewrite qsum_seq_pick0, L. reflexivity.
    + intros j _. unfold tt_iter. rewrite !hits_cons, hits_nil. cbn [fst snd ucell_eqb]. rewrite map_map.
      destruct (Nat.eqb i j); ring.
Qed.

(* ---- a prange body that accumulates into a shared scalar: no owner assignment exists, and a schedule loses an update *)
Definition race_schedule : list (ustep nat) := [Ld 0 0%nat; Ld 1 0%nat; St 0 0%nat 1; St 1 0%nat 1].

Theorem shared_scalar_races_thm :
  (forall owner, ~ owned owner shared_prange)
  /\ schedule shared_prange [0; 1]%nat race_schedule
  /\ urun nat Nat.eqb (ustart nat (fun _ => 0) (fun _ => 0)) race_schedule (Mem 0%nat) = 1
  /\ pr_run nat Nat.eqb shared_prange (fun _ => 0) 0%nat = 1 + 1.
Proof.
  split; [|split; [|split]].
  - intros owner H. pose proof (H 0%nat (0%nat, 1) (or_introl eq_refl)) as H0.
    pose proof (H 1%nat (0%nat, 1) (or_introl eq_refl)) as H1. cbn [fst] in H0, H1. congruence.
  - split; [apply Permutation_refl|].
    apply (nmerge_cons _ _ [Ld 1 0%nat; St 1 0%nat 1]).
    + apply (nmerge_cons _ [] []); [constructor|apply merge_nil_r].
    + cbn. apply merge_left, merge_right, merge_left, merge_right, merge_nil.
  - apply Qc_is_canon. vm_compute. reflexivity.
  - apply Qc_is_canon. vm_compute. reflexivity.
Qed.

(* ================================================================================ tie with the per-entry models of C04 / C14 *)
Lemma qsum_seq_nth {A} (g : A -> Qc) (l : list A) d : qsum (map (fun t => g (nth t l d)) (seq 0 (length l))) = qsum (map g l).
Proof.
  induction l as [|x l IH]; [reflexivity|].
  cbn [length seq map]. rewrite <- seq_shift, map_map. cbn [nth]. rewrite !qsum_cons, IH. reflexivity.
Qed.

Lemma lutz_range parts v : (-1 <= lutz parts v < Z.of_nat (length parts))%Z.
Proof.
  unfold lutz. destruct (Partitioned.lut parts v) as [k|] eqn:E; [|lia].
  apply Proofs.Partitioned.lut_lt in E. lia.
Qed.

Lemma pbatch_of_ok W e parts rows : pbatch_ok W (length parts) (pbatch_of e parts rows).
Proof. intros t w _ _. cbn [pb_idx pbatch_of]. apply lutz_range. Qed.

Lemma lutz_hit parts v p : (lutz parts v =? Z.of_nat p)%Z = match Partitioned.lut parts v with Some j => Nat.eqb j p | None => false end.
Proof.
  unfold lutz. destruct (Partitioned.lut parts v) as [j|].
  - destruct (Nat.eqb_spec j p) as [->|N]; [apply Z.eqb_refl|apply Z.eqb_neq; lia].
  - apply Z.eqb_neq. lia.
Qed.

(* the rows of one (word, sample) entry, as Model/Partitioned.v sees them *)
Definition erows (e : Z) (w s : nat) (rows : list crow) : list Partitioned.row :=
  map (fun r => (nth w (snd r) 0%Z, scale_q e (nth s (fst r) 0%Z))) rows.

Lemma class_sum_entry e parts rows f w p s :
  class_sum (pbatch_of e parts rows) f w p s
  = qsum (map f (Proofs.Partitioned.class_samples parts (erows e w s rows) p)).
Proof.
  unfold class_sum. cbn [pb_T pb_x pb_idx pbatch_of].
  rewrite (qsum_seq_nth (fun r => if (lutz parts (nth w (snd r) 0%Z) =? Z.of_nat p)%Z then f (scale_q e (nth s (fst r) 0%Z)) else 0) rows).
  unfold Proofs.Partitioned.class_samples, erows. rewrite map_map, qsum_filter, map_map.
  apply qsum_map_ext. intros r _. cbn [fst snd]. rewrite lutz_hit. reflexivity.
Qed.

Lemma class_samples_concat parts (L : list (list Partitioned.row)) p (f : Qc -> Qc) :
  qsum (map f (Proofs.Partitioned.class_samples parts (concat L) p))
  = qsum (map (fun l => qsum (map f (Proofs.Partitioned.class_samples parts l p))) L).
Proof.
  induction L as [|l L IH]; [reflexivity|]. cbn [concat map]. rewrite qsum_cons, <- IH.
  unfold Proofs.Partitioned.class_samples. rewrite filter_app, !map_app, qsum_app. reflexivity.
Qed.

(* ★ whatever kernel runs on each batch, the (counters, sum, sum_square) of class p at (word w, sample s) are the
   accumulator of Model/Partitioned.v — the state from which C04 proves ANOVA / NICV / SNR equal their definitions *)
Theorem kernels_refine_partitioned_thm S W junk e parts batches cs s w p :
  (s < S)%nat -> (w < W)%nat -> (p < length parts)%nat ->
  let m := run_batches S W (length parts) idq sqq sqq junk cs (map (pbatch_of e parts) batches) (fun _ => 0) in
  (m (CCnt w p), m (CSum s w p), m (CSq s w p))
  = nth p (Partitioned.feed_batches parts (map (erows e w s) batches)) Partitioned.t0.
Proof.
  intros Hs Hw Hp m. subst m.
  assert (HS : (0 < S)%nat) by lia.
  assert (Hb : Forall (pbatch_ok W (length parts)) (map (pbatch_of e parts) batches)).
  { apply Forall_forall. intros b Hin. apply in_map_iff in Hin. destruct Hin as (rows & <- & _). apply pbatch_of_ok. }
  rewrite !(run_batches_spec S W (length parts) idq sqq sqq junk (fun v => eq_refl) HS _ Hb).
  rewrite Proofs.Partitioned.feed_batches_concat, Proofs.Partitioned.accu_nth.
  unfold Partitioned.triple_of, spec_total. cbn [spec_add]. unfold in3, in2, class_cnt.
  apply Nat.ltb_lt in Hs, Hw, Hp. rewrite Hs, Hw, Hp. cbn [andb].
  rewrite !map_map.
  rewrite !(qsum_map_ext _ _ _ (fun rows _ => class_sum_entry e parts rows _ w p _)).
  f_equal; [f_equal|].
  - rewrite qlen_as_qsum.
    rewrite <- (map_map (erows e w 0) (fun l => qsum (map (fun _ => 1) (Proofs.Partitioned.class_samples parts l p)))).
    rewrite <- (class_samples_concat parts (map (erows e w 0) batches) p (fun _ => 1)).
    (* the count does not depend on the sample index *)
    rewrite <- !qlen_as_qsum. unfold Proofs.Partitioned.class_samples. rewrite !qlen_map.
    rewrite Qcplus_0_l. clear. induction batches as [|b bs IH]; [reflexivity|]. cbn [map concat]. rewrite !filter_app, !qlen_app. f_equal; [|exact IH].
    unfold erows. clear. induction b as [|r b IH]; [reflexivity|]. cbn [map filter fst].
    destruct (Partitioned.lut parts (nth w (snd r) 0%Z)) as [j|]; [destruct (Nat.eqb j p)|]; rewrite ?qlen_cons, IH; reflexivity.
  - rewrite <- (map_map (erows e w s) (fun l => qsum (map idq (Proofs.Partitioned.class_samples parts l p)))).
    rewrite <- (class_samples_concat parts (map (erows e w s) batches) p idq).
    rewrite Qcplus_0_l. unfold idq. rewrite map_id. reflexivity.
  - rewrite <- (map_map (erows e w s) (fun l => qsum (map sqq (Proofs.Partitioned.class_samples parts l p)))).
    rewrite <- (class_samples_concat parts (map (erows e w s) batches) p sqq).
    rewrite Qcplus_0_l. reflexivity.
Qed.

(* ================================================================================ run-length encoded batches *)
Lemma qz_add' (a b : Z) : qz (a + b) = qz a + qz b.
Proof.
  unfold qz. apply Qc_is_canon. unfold Qcplus, Q2Qc. cbn [this].
  rewrite !Qred_correct, inject_Z_plus. reflexivity.
Qed.

Lemma qsum_map_repeat {A} (g : A -> Qc) x n : qsum (map g (repeat x n)) = qz (Z.of_nat n) * g x.
Proof.
  induction n as [|n IH].
  - cbn. replace (qz 0) with 0 by (apply Qc_is_canon; reflexivity). ring.
  - cbn [repeat map]. rewrite qsum_cons, IH. rewrite Nat2Z.inj_succ. unfold Z.succ. rewrite qz_add'.
    replace (qz 1) with 1 by (apply Qc_is_canon; reflexivity). ring.
Qed.

Lemma wsum_expand (g : crow -> Qc) rl : qsum (map g (expand_rl rl)) = wsum g rl.
Proof.
  unfold expand_rl, wsum. induction rl as [|[r c] rl IH]; [reflexivity|].
  cbn [flat_map map fst snd]. rewrite map_app, qsum_app, qsum_cons, IH, qsum_map_repeat. rewrite positive_nat_Z. reflexivity.
Qed.

(* ★ the weighted sums the boundary check computes on the runs are the class sums of the expanded batch *)
Theorem rl_class_sum_thm e parts f w p s rl :
  class_sum (pbatch_of e parts (expand_rl rl)) f w p s = rl_class_sum e parts f w p s rl.
Proof.
  unfold class_sum, rl_class_sum. cbn [pb_T pb_x pb_idx pbatch_of].
  rewrite (qsum_seq_nth (fun r => if (lutz parts (nth w (snd r) 0%Z) =? Z.of_nat p)%Z then f (scale_q e (nth s (fst r) 0%Z)) else 0) (expand_rl rl)).
  apply wsum_expand.
Qed.

Theorem rl_tclass_sum_thm e parts (g : list Z -> Qc) p rl :
  tclass_sum (tbatch_of e parts (expand_rl rl)) p (fun t => g (fst (nth t (expand_rl rl) ([], []))))
  = wsum (fun r => if (lutz parts (nth 0%nat (snd r) 0%Z) =? Z.of_nat p)%Z then g (fst r) else 0) rl.
Proof.
  unfold tclass_sum. cbn [tb_T tb_idx tbatch_of].
  rewrite (qsum_seq_nth (fun r => if (lutz parts (nth 0%nat (snd r) 0%Z) =? Z.of_nat p)%Z then g (fst r) else 0) (expand_rl rl)).
  apply wsum_expand.
Qed.
