(* Proofs/DesSpec.v — facts about the FIPS 46-3 specification itself (Spec/Fips46.v), independent of the implementation:
   bit-level meaning of [permute], composition of permutations (IP^-1 o IP = id, P^-1 o P = id), lengths and ranges,
   additivity of a bit selection over the input bytes (the spec side of the reflection of Lib/Bexpr.v), naturality of the
   key schedule in the bit type, and the Feistel involution (deciphering undoes enciphering). *)
From Coq Require Import NArith List Bool Arith Lia.
From ScaredV Require Import Spec.Fips46.
Import ListNotations.
Open Scope N_scope.

(* ------------------------------------------------------------------ lists *)
Definition okl (n : nat) (bound : N) (l : list N) : Prop := length l = n /\ Forall (fun b => b < bound) l.

Lemma nth_skipn {A} (l : list A) : forall s i d, nth i (skipn s l) d = nth (s + i) l d.
Proof.
  induction l as [|a l IH]; intros s i d.
  - rewrite skipn_nil. destruct i, (s + 0)%nat, s; reflexivity.
  - destruct s as [|s]; [reflexivity|]. cbn [skipn plus nth]. apply IH.
Qed.

Lemma nth_firstn_lt {A} (l : list A) : forall w i d, (i < w)%nat -> nth i (firstn w l) d = nth i l d.
Proof.
  induction l as [|a l IH]; intros w i d H.
  - rewrite firstn_nil. reflexivity.
  - destruct w as [|w]; [lia|]. destruct i as [|i]; [reflexivity|]. cbn [firstn nth]. apply IH. lia.
Qed.

Lemma skipn_add {A} (l : list A) : forall a b, skipn (a + b) l = skipn b (skipn a l).
Proof.
  induction l as [|x l IH]; intros a b.
  - rewrite !skipn_nil. reflexivity.
  - destruct a as [|a]; [reflexivity|]. cbn [plus skipn]. apply IH.
Qed.

Lemma chunks_length {A} n w (l : list A) : length (chunks n w l) = n.
Proof. revert l. induction n as [|n IH]; intros l; cbn [chunks length]; [reflexivity|]. rewrite IH. reflexivity. Qed.

Lemma nth_chunks {A} n w : forall (l : list A) k, (k < n)%nat -> nth k (chunks n w l) [] = firstn w (skipn (k * w) l).
Proof.
  induction n as [|n IH]; intros l k H; [lia|].
  destruct k as [|k]; cbn [chunks nth]; [reflexivity|].
  rewrite IH by lia. cbn [Nat.mul]. rewrite skipn_add. reflexivity.
Qed.

Lemma chunks_map {A B} (f : A -> B) n w : forall l, chunks n w (map f l) = map (map f) (chunks n w l).
Proof.
  induction n as [|n IH]; intros l; cbn [chunks map]; [reflexivity|].
  rewrite firstn_map, skipn_map, IH. reflexivity.
Qed.

Lemma in_chunks {A} n w : forall (l g : list A) x, In g (chunks n w l) -> In x g -> In x l.
Proof.
  induction n as [|n IH]; intros l g x Hg Hx; [destruct Hg|].
  cbn [chunks] in Hg. destruct Hg as [<-|Hg].
  - rewrite <- (firstn_skipn w l). apply in_or_app. left. exact Hx.
  - rewrite <- (firstn_skipn w l). apply in_or_app. right. eapply IH; eassumption.
Qed.

Lemma chunks_concat {A} w : forall (ls : list (list A)), Forall (fun g => length g = w) ls -> chunks (length ls) w (concat ls) = ls.
Proof.
  induction ls as [|g ls IH]; intros H; [reflexivity|].
  inversion H as [|? ? Hg Hls]; subst. cbn [length chunks concat].
  rewrite firstn_app, Nat.sub_diag, firstn_O, app_nil_r, firstn_all2 by lia.
  rewrite skipn_app, Nat.sub_diag, skipn_O, skipn_all2 by lia. cbn [app].
  rewrite IH by assumption. reflexivity.
Qed.

Lemma list_eq_nth {A} (d : A) : forall l1 l2, length l1 = length l2 -> (forall i, (i < length l1)%nat -> nth i l1 d = nth i l2 d) -> l1 = l2.
Proof.
  induction l1 as [|a l1 IH]; intros [|b l2] Hl H; try discriminate; [reflexivity|].
  f_equal.
  - apply (H 0%nat). cbn. lia.
  - apply IH; [cbn in Hl; lia|]. intros i Hi. apply (H (S i)). cbn. lia.
Qed.

Lemma list_map_nth {A} (d : A) l : l = map (fun i => nth i l d) (seq 0 (length l)).
Proof.
  apply (list_eq_nth d); [rewrite map_length, seq_length; reflexivity|].
  intros i Hi. rewrite (nth_indep (map _ _) d (nth (length l) l d)) by (rewrite map_length, seq_length; exact Hi).
  change (nth (length l) l d) with ((fun i => nth i l d) (length l)).
  rewrite map_nth, seq_nth by exact Hi. reflexivity.
Qed.

(* ------------------------------------------------------------------ word_of_bits *)
Lemma wob_lt bs : word_of_bits bs < 2 ^ N.of_nat (length bs).
Proof.
  induction bs as [|b t IH]; cbn [word_of_bits length]; [reflexivity|].
  rewrite Nat2N.inj_succ, N.pow_succ_r'. destruct b; lia.
Qed.

Lemma wob_app l b : word_of_bits (l ++ [b]) = 2 * word_of_bits l + b2n b.
Proof.
  induction l as [|a l IH]; cbn [app word_of_bits length].
  - destruct b; reflexivity.
  - rewrite IH, app_length. cbn [length]. rewrite Nat.add_1_r, Nat2N.inj_succ, N.pow_succ_r'. destruct a; lia.
Qed.

Lemma wob_testbit : forall bs i, (i < length bs)%nat ->
  N.testbit (word_of_bits bs) (N.of_nat (length bs - 1 - i)) = nth i bs false.
Proof.
  induction bs as [|b l IH] using rev_ind; intros i Hi; [cbn in Hi; lia|].
  rewrite app_length in *. cbn [length] in *. rewrite wob_app. change (b2n b) with (N.b2n b).
  destruct (Nat.eq_dec i (length l)) as [->|Hne].
  - replace (length l + 1 - 1 - length l)%nat with 0%nat by lia. cbn [N.of_nat].
    rewrite N.testbit_0_r, app_nth2, Nat.sub_diag by lia. reflexivity.
  - replace (length l + 1 - 1 - i)%nat with (S (length l - 1 - i)) by lia.
    rewrite Nat2N.inj_succ, N.testbit_succ_r, app_nth1 by lia. apply IH. lia.
Qed.

(* ------------------------------------------------------------------ permute: shape, range, bits *)
Lemma permute_length v wd nout tbl ws : length (permute v wd nout tbl ws) = nout.
Proof. unfold permute. rewrite map_length, chunks_length. reflexivity. Qed.

Lemma permute_range v wd nout tbl ws : Forall (fun b => b < 2 ^ N.of_nat wd) (permute v wd nout tbl ws).
Proof.
  unfold permute. apply Forall_forall. intros x Hx. apply in_map_iff in Hx. destruct Hx as (g & <- & Hg).
  eapply N.lt_le_trans; [apply wob_lt|]. rewrite map_length.
  apply N.pow_le_mono_r; [discriminate|].
  apply In_nth with (d := []) in Hg. destruct Hg as (k & Hk & <-). rewrite chunks_length in Hk.
  rewrite nth_chunks by exact Hk. rewrite firstn_length. lia.
Qed.

Lemma permute_okl v wd nout tbl ws : okl nout (2 ^ N.of_nat wd) (permute v wd nout tbl ws).
Proof. split; [apply permute_length|apply permute_range]. Qed.

Lemma getbit_permute v wd nout tbl ws m : (0 < wd)%nat -> length tbl = (nout * wd)%nat -> (1 <= m <= nout * wd)%nat ->
  getbit wd (permute v wd nout tbl ws) m = getbit v ws (nth (m - 1) tbl 0%nat).
Proof.
  intros Hwd Hl Hm. unfold getbit at 1. unfold permute.
  set (f := fun grp => word_of_bits (map (getbit v ws) grp)).
  assert (Hk : ((m - 1) / wd < nout)%nat) by (apply Nat.div_lt_upper_bound; lia).
  assert (Hi : ((m - 1) mod wd < wd)%nat) by (apply Nat.mod_upper_bound; lia).
  assert (Hdm := Nat.div_mod (m - 1) wd ltac:(lia)).
  change 0 with (f []). rewrite map_nth, nth_chunks by exact Hk. unfold f.
  set (grp := firstn wd (skipn ((m - 1) / wd * wd) tbl)).
  assert (Hg : length grp = wd).
  { unfold grp. rewrite firstn_length, skipn_length. nia. }
  replace (wd - 1 - (m - 1) mod wd)%nat with (length (map (getbit v ws) grp) - 1 - (m - 1) mod wd)%nat by (rewrite map_length, Hg; reflexivity).
  rewrite wob_testbit by (rewrite map_length, Hg; exact Hi).
  rewrite (nth_indep _ false (getbit v ws 0%nat)) by (rewrite map_length, Hg; exact Hi).
  rewrite map_nth. f_equal. unfold grp. rewrite nth_firstn_lt by exact Hi. rewrite nth_skipn. f_equal. lia.
Qed.

(* two selections in a row are one selection through the composed table *)
Lemma permute_compose v wd nout tbl wd2 n2 tbl2 ws : (0 < wd)%nat -> length tbl = (nout * wd)%nat ->
  Forall (fun m => (1 <= m <= nout * wd)%nat) tbl2 ->
  permute wd wd2 n2 tbl2 (permute v wd nout tbl ws) = permute v wd2 n2 (map (fun m => nth (m - 1) tbl 0%nat) tbl2) ws.
Proof.
  intros Hwd Hl Ht. unfold permute at 1 3. rewrite chunks_map, map_map.
  apply map_ext_in. intros g Hg. rewrite map_map. f_equal. apply map_ext_in. intros m Hm.
  apply getbit_permute; try assumption.
  rewrite Forall_forall in Ht. apply Ht. eapply in_chunks; eassumption.
Qed.

(* ------------------------------------------------------------------ bytes and nibbles are their bits *)
Definition nrange (n : nat) : list N := map N.of_nat (seq 0 n).

Lemma in_nrange n x : x < N.of_nat n -> In x (nrange n).
Proof.
  intros H. unfold nrange. apply in_map_iff. exists (N.to_nat x). split; [apply N2Nat.id|].
  apply in_seq. lia.
Qed.

Lemma forall_below n (P : N -> bool) : forallb P (nrange n) = true -> forall x, x < N.of_nat n -> P x = true.
Proof. intros H x Hx. rewrite forallb_forall in H. apply H, in_nrange, Hx. Qed.

Lemma byte_bits x : x < 256 ->
  word_of_bits [N.testbit x 7; N.testbit x 6; N.testbit x 5; N.testbit x 4; N.testbit x 3; N.testbit x 2; N.testbit x 1; N.testbit x 0] = x.
Proof.
  intros H. apply N.eqb_eq.
  apply (forall_below 256 (fun x => N.eqb (word_of_bits [N.testbit x 7; N.testbit x 6; N.testbit x 5; N.testbit x 4; N.testbit x 3; N.testbit x 2; N.testbit x 1; N.testbit x 0]) x)); [vm_compute; reflexivity|exact H].
Qed.

Lemma nibble_bits x : x < 16 -> word_of_bits [N.testbit x 3; N.testbit x 2; N.testbit x 1; N.testbit x 0] = x.
Proof.
  intros H. apply N.eqb_eq.
  apply (forall_below 16 (fun x => N.eqb (word_of_bits [N.testbit x 3; N.testbit x 2; N.testbit x 1; N.testbit x 0]) x)); [vm_compute; reflexivity|exact H].
Qed.

Lemma okl8 bound l : okl 8 bound l -> exists a0 a1 a2 a3 a4 a5 a6 a7, l = [a0; a1; a2; a3; a4; a5; a6; a7] /\
  a0 < bound /\ a1 < bound /\ a2 < bound /\ a3 < bound /\ a4 < bound /\ a5 < bound /\ a6 < bound /\ a7 < bound.
Proof.
  intros [Hl Hf].
  destruct l as [|a0 [|a1 [|a2 [|a3 [|a4 [|a5 [|a6 [|a7 [|]]]]]]]]]; try discriminate Hl.
  exists a0, a1, a2, a3, a4, a5, a6, a7. split; [reflexivity|].
  repeat match goal with H : Forall _ (_ :: _) |- _ => inversion H; clear H; subst end. repeat split; assumption.
Qed.

Lemma okl4 bound l : okl 4 bound l -> exists a0 a1 a2 a3, l = [a0; a1; a2; a3] /\ a0 < bound /\ a1 < bound /\ a2 < bound /\ a3 < bound.
Proof.
  intros [Hl Hf].
  destruct l as [|a0 [|a1 [|a2 [|a3 [|]]]]]; try discriminate Hl.
  exists a0, a1, a2, a3. split; [reflexivity|].
  repeat match goal with H : Forall _ (_ :: _) |- _ => inversion H; clear H; subst end. repeat split; assumption.
Qed.

Lemma permute_id_8x8 b : okl 8 256 b -> permute 8 8 8 (seq 1 64) b = b.
Proof.
  intros H. destruct (okl8 _ _ H) as (a0 & a1 & a2 & a3 & a4 & a5 & a6 & a7 & -> & H0 & H1 & H2 & H3 & H4 & H5 & H6 & H7).
  cbv -[word_of_bits N.testbit]. rewrite !byte_bits by assumption. reflexivity.
Qed.

Lemma permute_id_4x8 b : okl 4 256 b -> permute 8 8 4 (seq 1 32) b = b.
Proof.
  intros H. destruct (okl4 _ _ H) as (a0 & a1 & a2 & a3 & -> & H0 & H1 & H2 & H3).
  cbv -[word_of_bits N.testbit]. rewrite !byte_bits by assumption. reflexivity.
Qed.

Lemma permute_id_8x4 b : okl 8 16 b -> permute 4 4 8 (seq 1 32) b = b.
Proof.
  intros H. destruct (okl8 _ _ H) as (a0 & a1 & a2 & a3 & a4 & a5 & a6 & a7 & -> & H0 & H1 & H2 & H3 & H4 & H5 & H6 & H7).
  cbv -[word_of_bits N.testbit]. rewrite !nibble_bits by assumption. reflexivity.
Qed.

(* ------------------------------------------------------------------ IP^-1 o IP = id etc. *)
Lemma in_range_tbl n tbl : forallb (fun m => Nat.leb 1 m && Nat.leb m n) tbl = true -> Forall (fun m => (1 <= m <= n)%nat) tbl.
Proof.
  intros H. apply Forall_forall. intros m Hm. rewrite forallb_forall in H. specialize (H m Hm).
  apply andb_true_iff in H. destruct H as [H1 H2]. apply Nat.leb_le in H1, H2. lia.
Qed.

Theorem spec_fp_ip b : okl 8 256 b -> des_FP (des_IP b) = b.
Proof.
  intros H. unfold des_FP, des_IP.
  rewrite (permute_compose 8 8 8 IP_tbl 8 8 FP_tbl b) by (try apply in_range_tbl; vm_compute; try reflexivity; lia).
  change (map (fun m => nth (m - 1) IP_tbl 0%nat) FP_tbl) with (seq 1 64). apply permute_id_8x8, H.
Qed.

Theorem spec_ip_fp b : okl 8 256 b -> des_IP (des_FP b) = b.
Proof.
  intros H. unfold des_FP, des_IP.
  rewrite (permute_compose 8 8 8 FP_tbl 8 8 IP_tbl b) by (try apply in_range_tbl; vm_compute; try reflexivity; lia).
  change (map (fun m => nth (m - 1) FP_tbl 0%nat) IP_tbl) with (seq 1 64). apply permute_id_8x8, H.
Qed.

Theorem spec_invp_p s : okl 8 16 s -> des_invP (des_P s) = s.
Proof.
  intros H. unfold des_invP, des_P.
  rewrite (permute_compose 4 8 4 P_tbl 4 8 invP_tbl s) by (try apply in_range_tbl; vm_compute; try reflexivity; lia).
  change (map (fun m => nth (m - 1) P_tbl 0%nat) invP_tbl) with (seq 1 32). apply permute_id_8x4, H.
Qed.

Theorem spec_p_invp r : okl 4 256 r -> des_P (des_invP r) = r.
Proof.
  intros H. unfold des_invP, des_P.
  rewrite (permute_compose 8 4 8 invP_tbl 8 4 P_tbl r) by (try apply in_range_tbl; vm_compute; try reflexivity; lia).
  change (map (fun m => nth (m - 1) invP_tbl 0%nat) P_tbl) with (seq 1 32). apply permute_id_4x8, H.
Qed.

(* ------------------------------------------------------------------ xor, S-boxes, one iteration: lengths and ranges *)
Lemma xorl_length a b : length (xorl a b) = Nat.min (length a) (length b).
Proof. unfold xorl. rewrite map_length, combine_length. reflexivity. Qed.

Lemma lxor_lt a b n : a < 2 ^ n -> b < 2 ^ n -> N.lxor a b < 2 ^ n.
Proof.
  intros Ha Hb. destruct (N.eq_dec (N.lxor a b) 0) as [->|Hnz]; [apply N.neq_0_lt_0, N.pow_nonzero; discriminate|].
  apply N.log2_lt_pow2; [lia|].
  assert (Hn : 0 < n).
  { destruct (N.eq_dec n 0) as [->|]; [|lia]. cbn in Ha, Hb. assert (a = 0) by lia. assert (b = 0) by lia. subst. exfalso. apply Hnz. reflexivity. }
  eapply N.le_lt_trans; [apply N.log2_lxor|].
  apply N.max_lub_lt.
  - destruct (N.eq_dec a 0) as [->|]; [exact Hn|]. apply N.log2_lt_pow2; [lia|exact Ha].
  - destruct (N.eq_dec b 0) as [->|]; [exact Hn|]. apply N.log2_lt_pow2; [lia|exact Hb].
Qed.

Lemma xorl_range a b n : Forall (fun x => x < 2 ^ n) a -> Forall (fun x => x < 2 ^ n) b -> Forall (fun x => x < 2 ^ n) (xorl a b).
Proof.
  revert b. induction a as [|x a IH]; intros [|y b] Ha Hb; try constructor.
  - inversion Ha; inversion Hb; subst. cbn. apply lxor_lt; assumption.
  - inversion Ha; inversion Hb; subst. apply IH; assumption.
Qed.

Lemma xorl_okl n k a b : okl n (2 ^ k) a -> okl n (2 ^ k) b -> okl n (2 ^ k) (xorl a b).
Proof. intros [La Ra] [Lb Rb]. split; [rewrite xorl_length; lia|apply xorl_range; assumption]. Qed.

Lemma xorl_comm a b : xorl a b = xorl b a.
Proof.
  revert b. induction a as [|x a IH]; intros [|y b]; try reflexivity.
  unfold xorl in *. cbn [combine map fst snd]. rewrite N.lxor_comm. f_equal. apply IH.
Qed.

Lemma nth_Forall {A} (P : A -> Prop) l d i : Forall P l -> P d -> P (nth i l d).
Proof.
  intros Hl Hd. destruct (Nat.lt_ge_cases i (length l)) as [H|H].
  - rewrite Forall_forall in Hl. apply Hl, nth_In, H.
  - rewrite nth_overflow by exact H. exact Hd.
Qed.

Lemma S_tbl_range : Forall (Forall (fun x => x < 16)) S_tbl.
Proof.
  apply Forall_forall. intros l Hl. apply Forall_forall. intros x Hx. apply N.ltb_lt.
  assert (H : forallb (forallb (fun x => N.ltb x 16)) S_tbl = true) by (vm_compute; reflexivity).
  rewrite forallb_forall in H. specialize (H l Hl). rewrite forallb_forall in H. apply H, Hx.
Qed.

Lemma des_S_i_range i x : des_S_i i x < 16.
Proof.
  unfold des_S_i. apply (nth_Forall (fun x => x < 16)); [|reflexivity].
  apply (nth_Forall (Forall (fun x => x < 16))); [apply S_tbl_range|constructor].
Qed.

Lemma des_S_okl ws : length ws = 8%nat -> okl 8 16 (des_S ws).
Proof.
  intros H. unfold des_S. split.
  - rewrite map_length, combine_length, seq_length, H. reflexivity.
  - apply Forall_forall. intros x Hx. apply in_map_iff in Hx. destruct Hx as (p & <- & _). apply des_S_i_range.
Qed.

Lemma okl_weaken n b1 b2 l : b1 <= b2 -> okl n b1 l -> okl n b2 l.
Proof. intros Hb [Hl Hr]. split; [exact Hl|]. eapply Forall_impl; [|exact Hr]. cbn. intros; lia. Qed.

Lemma okl_firstn4 b l : okl 8 b l -> okl 4 b (firstn 4 l).
Proof.
  intros [Hl Hr]. split; [rewrite firstn_length; lia|].
  apply Forall_forall. intros x Hx. rewrite Forall_forall in Hr. apply Hr. rewrite <- (firstn_skipn 4 l). apply in_or_app. left. exact Hx.
Qed.

Lemma okl_skipn4 b l : okl 8 b l -> okl 4 b (skipn 4 l).
Proof.
  intros [Hl Hr]. split; [rewrite skipn_length; lia|].
  apply Forall_forall. intros x Hx. rewrite Forall_forall in Hr. apply Hr. rewrite <- (firstn_skipn 4 l). apply in_or_app. right. exact Hx.
Qed.

Lemma okl_app n m b l1 l2 : okl n b l1 -> okl m b l2 -> okl (n + m) b (l1 ++ l2).
Proof. intros [L1 R1] [L2 R2]. split; [rewrite app_length; lia|apply Forall_app; split; assumption]. Qed.

Lemma des_E_okl r : okl 8 64 (des_E r).
Proof. apply (permute_okl 8 6 8). Qed.
Lemma des_P_okl s : okl 4 256 (des_P s).
Proof. apply (permute_okl 4 8 4). Qed.
Lemma des_IP_okl b : okl 8 256 (des_IP b).
Proof. apply (permute_okl 8 8 8). Qed.
Lemma des_FP_okl b : okl 8 256 (des_FP b).
Proof. apply (permute_okl 8 8 8). Qed.
Lemma des_invP_okl r : okl 8 16 (des_invP r).
Proof. apply (permute_okl 8 4 8). Qed.

Lemma des_round_okl K lr : okl 8 256 lr -> okl 8 256 (des_round K lr).
Proof.
  intros H. unfold des_round. apply (okl_app 4 4); [apply okl_skipn4, H|].
  apply (xorl_okl 4 8); [apply okl_firstn4, H|apply des_P_okl].
Qed.

Definition lr_fold (ks : list (list N)) (lr : list N) : list N := fold_left (fun lr k => des_round k lr) ks lr.

Lemma lr_fold_okl ks : forall lr, okl 8 256 lr -> okl 8 256 (lr_fold ks lr).
Proof. induction ks as [|k ks IH]; intros lr H; [exact H|]. apply IH, des_round_okl, H. Qed.

Lemma swap_halves_okl b lr : okl 8 b lr -> okl 8 b (swap_halves lr).
Proof. intros H. apply (okl_app 4 4); [apply okl_skipn4, H|apply okl_firstn4, H]. Qed.

Lemma des_LR_fold rks n b : des_LR rks n b = lr_fold (firstn n rks) (des_IP b).
Proof. reflexivity. Qed.

Lemma des_core_okl rks b : okl 8 256 (des_core rks b).
Proof. apply des_FP_okl. Qed.

(* ------------------------------------------------------------------ Feistel involution *)
Lemma swap_swap lr : length lr = 8%nat -> swap_halves (swap_halves lr) = lr.
Proof.
  intros H. destruct lr as [|a0 [|a1 [|a2 [|a3 [|a4 [|a5 [|a6 [|a7 [|]]]]]]]]]; try discriminate H. reflexivity.
Qed.

Lemma feistel_undo K lr : length lr = 8%nat -> des_round K (swap_halves (des_round K lr)) = swap_halves lr.
Proof.
  intros H. destruct lr as [|a0 [|a1 [|a2 [|a3 [|a4 [|a5 [|a6 [|a7 [|]]]]]]]]]; try discriminate H.
  unfold des_round, swap_halves. cbn [firstn skipn app].
  set (R := [a4; a5; a6; a7]).
  destruct (okl4 _ _ (des_P_okl (des_S (xorl (des_E R) K)))) as (f0 & f1 & f2 & f3 & Hf & _).
  unfold des_f. rewrite Hf. unfold R. cbn [xorl combine map fst snd app firstn skipn].
  fold R. unfold des_f. rewrite Hf. cbn [xorl combine map fst snd app].
  rewrite !N.lxor_assoc, !N.lxor_nilpotent, !N.lxor_0_r. reflexivity.
Qed.

Lemma lr_fold_app ks1 ks2 lr : lr_fold (ks1 ++ ks2) lr = lr_fold ks2 (lr_fold ks1 lr).
Proof. apply fold_left_app. Qed.

Lemma lr_fold_undo ks : forall lr, okl 8 256 lr -> lr_fold (rev ks) (swap_halves (lr_fold ks lr)) = swap_halves lr.
Proof.
  induction ks as [|k ks IH]; intros lr H; [reflexivity|].
  cbn [rev]. rewrite lr_fold_app. change (lr_fold (k :: ks) lr) with (lr_fold ks (des_round k lr)).
  rewrite IH by (apply des_round_okl, H). cbn [lr_fold fold_left]. apply feistel_undo, H.
Qed.

(* deciphering (the same algorithm with the round keys in reverse order) undoes enciphering, whatever the 16 round keys *)
Theorem spec_des_inverse rks b : length rks = 16%nat -> okl 8 256 b -> des_core (rev rks) (des_core rks b) = b.
Proof.
  intros Hl Hb. unfold des_core. rewrite !des_LR_fold.
  rewrite !firstn_all2 by (rewrite ?rev_length; lia).
  assert (H1 : okl 8 256 (lr_fold rks (des_IP b))) by apply lr_fold_okl, des_IP_okl.
  rewrite spec_ip_fp by (apply swap_halves_okl, H1).
  rewrite lr_fold_undo by apply des_IP_okl.
  rewrite swap_swap by apply des_IP_okl. apply spec_fp_ip, Hb.
Qed.

(* ------------------------------------------------------------------ a bit selection is additive over the input words *)
(* (spec side of the reflection: every output word is the carry-free sum of what each input word alone contributes) *)
From ScaredV Require Import Lib.Bexpr.

Definition single_list (n j : nat) (x : N) : list N := map (fun i => if Nat.eqb i j then x else 0) (seq 0 n).

Lemma nth_single_list n j x k : nth k (single_list n j x) 0 = if Nat.ltb k n then (if Nat.eqb k j then x else 0) else 0.
Proof.
  unfold single_list. set (g := fun i => if Nat.eqb i j then x else 0). destruct (Nat.ltb_spec k n) as [H|H].
  - rewrite (nth_indep _ 0 (g 0%nat)) by (rewrite map_length, seq_length; exact H).
    rewrite map_nth, seq_nth by exact H. reflexivity.
  - apply nth_overflow. rewrite map_length, seq_length. exact H.
Qed.

Lemma sumf_scale c f l : sumf (fun j => f j * c) l = sumf f l * c.
Proof. unfold sumf. induction l as [|j l IH]; cbn; [reflexivity|]. rewrite IH. lia. Qed.

Lemma getbit_onehot v ws n m : length ws = n ->
  b2n (getbit v ws m) = sumf (fun j => b2n (getbit v (single_list n j (nth j ws 0)) m)) (seq 0 n).
Proof.
  intros Hl. unfold getbit. set (k := ((m - 1) / v)%nat). set (i := N.of_nat (v - 1 - (m - 1) mod v)).
  rewrite (sumf_ext _ (fun j => if Nat.eqb k j then (if Nat.ltb k n then b2n (N.testbit (nth j ws 0) i) else 0) else 0)).
  - destruct (Nat.ltb_spec k n) as [H|H].
    + rewrite sumf_pick by lia. reflexivity.
    + rewrite sumf_pick_out by exact H. rewrite nth_overflow by lia. reflexivity.
  - intros j _. rewrite nth_single_list.
    destruct (Nat.ltb k n); destruct (Nat.eqb k j); reflexivity.
Qed.

Lemma wob_sum (n : nat) (g : nat -> nat -> bool) (f : nat -> bool) grp :
  (forall m, b2n (f m) = sumf (fun j => b2n (g j m)) (seq 0 n)) ->
  word_of_bits (map f grp) = sumf (fun j => word_of_bits (map (g j) grp)) (seq 0 n).
Proof.
  intros H. induction grp as [|m t IH]; cbn [map word_of_bits].
  - rewrite sumf_zero. reflexivity.
  - rewrite sumf_add, <- IH. f_equal. rewrite map_length.
    rewrite (sumf_ext _ (fun j => b2n (g j m) * 2 ^ N.of_nat (length t))).
    + rewrite sumf_scale, <- H. destruct (f m); cbn [b2n]; lia.
    + intros j _. rewrite map_length. destruct (g j m); cbn [b2n]; lia.
Qed.

Lemma nth_map0 {A} (F : list A -> N) l o : F [] = 0 -> nth o (map F l) 0 = F (nth o l []).
Proof. intros H. rewrite <- H. apply map_nth. Qed.

Theorem permute_additive v wd nout tbl ws n o : length ws = n ->
  nth o (permute v wd nout tbl ws) 0 = sumf (fun j => nth o (permute v wd nout tbl (single_list n j (nth j ws 0))) 0) (seq 0 n).
Proof.
  intros Hl. unfold permute.
  rewrite (nth_map0 (fun grp => word_of_bits (map (getbit v ws) grp))) by reflexivity.
  rewrite (sumf_ext _ (fun j => word_of_bits (map (getbit v (single_list n j (nth j ws 0))) (nth o (chunks nout wd tbl) [])))).
  - apply wob_sum. intros m. apply getbit_onehot, Hl.
  - intros j _.
    apply (nth_map0 (fun grp => word_of_bits (map (getbit v (single_list n j (nth j ws 0))) grp))). reflexivity.
Qed.

(* ------------------------------------------------------------------ the key schedule is natural in the type of a key bit *)
Lemma select_map {A B} (f : A -> B) d tbl bits : select (f d) tbl (map f bits) = map f (select d tbl bits).
Proof. unfold select. rewrite map_map. apply map_ext. intros m. apply map_nth. Qed.

Lemma rotl_map {A B} (f : A -> B) n l : rotl n (map f l) = map f (rotl n l).
Proof. unfold rotl. rewrite skipn_map, firstn_map, map_app. reflexivity. Qed.

Lemma rot_cd_map {A B} (f : A -> B) s cd : rot_cd s (map f cd) = map f (rot_cd s cd).
Proof. unfold rot_cd. rewrite firstn_map, skipn_map, !rotl_map, map_app. reflexivity. Qed.

Lemma cd_seq_map {A B} (f : A -> B) shifts : forall cd, cd_seq (map f cd) shifts = map (map f) (cd_seq cd shifts).
Proof.
  induction shifts as [|s t IH]; intros cd; cbn [cd_seq map]; [reflexivity|].
  rewrite rot_cd_map, IH. reflexivity.
Qed.

Theorem round_key_bits_map {A B} (f : A -> B) d bits :
  round_key_bits (f d) (map f bits) = map (map (map f)) (round_key_bits d bits).
Proof.
  unfold round_key_bits. rewrite select_map, cd_seq_map, !map_map. apply map_ext. intros cd.
  rewrite select_map, chunks_map. reflexivity.
Qed.

Lemma des_key_schedule_length key : length (des_key_schedule key) = 16%nat.
Proof. unfold des_key_schedule, round_key_bits. rewrite !map_length. reflexivity. Qed.

(* every round key is 8 words below 64 *)
Lemma des_key_schedule_okl key : Forall (okl 8 64) (des_key_schedule key).
Proof.
  unfold des_key_schedule, round_key_bits. rewrite map_map.
  apply Forall_forall. intros rk Hrk. apply in_map_iff in Hrk. destruct Hrk as (cd & <- & _).
  split.
  - rewrite map_length, chunks_length. reflexivity.
  - apply Forall_forall. intros x Hx. apply in_map_iff in Hx. destruct Hx as (g & <- & Hg).
    eapply N.lt_le_trans; [apply wob_lt|]. change 64 with (2 ^ 6). apply N.pow_le_mono_r; [discriminate|].
    apply In_nth with (d := []) in Hg. destruct Hg as (k & Hk & <-). rewrite chunks_length in Hk.
    rewrite nth_chunks by exact Hk. rewrite firstn_length. lia.
Qed.

(* ------------------------------------------------------------------ TDEA plumbing is natural in the type of a key schedule *)
Lemma pass_rks_map {A B} (f : A -> B) d ks : pass_rks d (map f ks) = map f (pass_rks d ks).
Proof. destruct d; cbn [pass_rks]; [reflexivity|]. symmetry. apply map_rev. Qed.

Lemma tdea_passes_map {A B} (f : A -> B) mode ks :
  tdea_passes mode (map f ks) = map (fun p => (fst p, f (snd p))) (tdea_passes mode ks).
Proof. destruct ks as [|k1 [|k2 [|k3 [|k4 t]]]]; destruct mode; reflexivity. Qed.

Lemma pass_rks_length {A} d (ks : list A) : length (pass_rks d ks) = length ks.
Proof. destruct d; cbn [pass_rks]; [reflexivity|apply rev_length]. Qed.

(* ------------------------------------------------------------------ [des_states] lists the values of [des_state_at] *)
Lemma nth_flat_map {A B} (f : A -> list B) w d0 d : (forall a, length (f a) = w) ->
  forall l r s, (r < length l)%nat -> (s < w)%nat -> nth (r * w + s) (flat_map f l) d = nth s (f (nth r l d0)) d.
Proof.
  intros Hw. induction l as [|a l IH]; intros r s Hr Hs; [cbn in Hr; lia|].
  cbn [flat_map]. destruct r as [|r].
  - cbn [Nat.mul Nat.add nth]. apply app_nth1. rewrite Hw. exact Hs.
  - rewrite app_nth2 by (rewrite Hw; cbn [Nat.mul]; lia). rewrite Hw. cbn [Nat.mul nth].
    replace (w + r * w + s - w)%nat with (r * w + s)%nat by lia. apply IH; [cbn in Hr; lia|exact Hs].
Qed.

Lemma des_states_nth rks block r s : (r <= 15)%nat -> (s <= 9)%nat ->
  nth (r * 10 + s) (des_states rks block) [] = des_state_at rks block r s.
Proof.
  intros Hr Hs. unfold des_states.
  rewrite (nth_flat_map _ 10 0%nat) by (try (intros; rewrite map_length, seq_length; reflexivity); rewrite ?seq_length; lia).
  rewrite seq_nth by lia.
  rewrite (nth_indep _ [] (des_state_at rks block (0 + r) 0%nat)) by (rewrite map_length, seq_length; lia).
  rewrite map_nth, seq_nth by lia. reflexivity.
Qed.
