(* Proofs/DesBits.v — the GENERATED primitives of scared/des/base.py equal the FIPS 46-3 tables on EVERY input.

   * the five bit-sliced permutations (Generated/DesBits.v, obtained by symbolic execution of the function bodies): by
     reflection.  [nf_sound] (Lib/Bexpr.v) turns each output expression, for all inputs, into a wrapped sum of
     single-input-byte contributions; [permute_additive] (Proofs/DesSpec.v) does the same for the table permutation of the
     standard; the two families of n x 256 single-byte tables are then compared by vm_compute ([tables_agree]).
   * the S-boxes (Generated/DesTables.v: SBOXES, direct-index order) against the row/column layout of the standard: 8 x 64.
   * ROUND_KEY_BITS_INDEXES against PC-2 o shifts o PC-1 (the key schedule of the standard run on bit NUMBERS, which is
     legitimate because the schedule is natural in the bit type), hence key_schedule = KS for all keys. *)
From Coq Require Import NArith List Bool Arith Lia.
From ScaredV Require Import Lib.Bexpr Spec.Fips46 Generated.DesTables Generated.DesBits Model.Des Proofs.DesSpec.
Import ListNotations.
Open Scope N_scope.

(* ------------------------------------------------------------------ reflection *)
Definition tables_agree (nin : nat) (gen : list bexpr) (spec : list N -> list N) : bool :=
  forallb (fun o =>
    match nf (nth o gen (BConst 0)) with
    | Some (c, l) =>
      N.eqb (w c) 0 && terms_below nin l &&
      forallb (fun j => forallb (fun x => N.eqb (w (contrib l j x)) (nth o (spec (single_list nin j x)) 0)) (nrange 256)) (seq 0 nin)
    | None => false
    end) (seq 0 (length gen)).

Lemma col_lt st : Forall (fun b => b < 256) st -> forall j, col st j < 256.
Proof. intros H j. unfold col. apply (nth_Forall (fun b => b < 256)); [exact H|reflexivity]. Qed.

Theorem reflect_permute nin gen v wd nout tbl :
  tables_agree nin gen (permute v wd nout tbl) = true -> length gen = nout -> (wd <= 8)%nat ->
  forall st, okl nin 256 st -> run_bits gen st = permute v wd nout tbl st.
Proof.
  intros Hta Hlen Hwd st [Hl Hr]. unfold run_bits.
  apply (list_eq_nth 0); [rewrite map_length, permute_length; exact Hlen|].
  rewrite map_length. intros o Ho.
  change 0 with (eval (col st) (BConst 0)) at 1. rewrite map_nth.
  unfold tables_agree in Hta. rewrite forallb_forall in Hta.
  specialize (Hta o ltac:(apply in_seq; lia)).
  destruct (nf (nth o gen (BConst 0))) as [[c l]|] eqn:Hnf; [|discriminate].
  apply andb_true_iff in Hta. destruct Hta as [Hta Htab]. apply andb_true_iff in Hta. destruct Hta as [Hc Hb].
  apply N.eqb_eq in Hc.
  rewrite (eval_by_tables _ c l nin (col st) Hnf Hb (col_lt st Hr)).
  rewrite (permute_additive v wd nout tbl st nin o Hl).
  rewrite (sumf_ext _ (fun j => nth o (permute v wd nout tbl (single_list nin j (nth j st 0))) 0)).
  - rewrite <- (permute_additive v wd nout tbl st nin o Hl).
    rewrite <- w_add_l, Hc, N.add_0_l. apply w_small.
    eapply N.lt_le_trans.
    + apply (nth_Forall (fun b => b < 2 ^ N.of_nat wd)); [apply permute_range|apply N.neq_0_lt_0, N.pow_nonzero; discriminate].
    + change 256 with (2 ^ 8). apply N.pow_le_mono_r; [discriminate|lia].
  - intros j Hj. rewrite forallb_forall in Htab. specialize (Htab j Hj).
    pose proof (forall_below 256 _ Htab (col st j) (col_lt st Hr j)) as Hx.
    apply N.eqb_eq in Hx. exact Hx.
Qed.

Theorem gen_ip_is_IP_thm st : okl 8 256 st -> m_ip st = des_IP st.
Proof. apply (reflect_permute 8 gen_ip 8 8 8 IP_tbl); [vm_compute; reflexivity|reflexivity|lia]. Qed.

Theorem gen_fp_is_FP_thm st : okl 8 256 st -> m_fp st = des_FP st.
Proof. apply (reflect_permute 8 gen_fp 8 8 8 FP_tbl); [vm_compute; reflexivity|reflexivity|lia]. Qed.

Theorem gen_e_is_E_thm st : okl 4 256 st -> m_e st = des_E st.
Proof. apply (reflect_permute 4 gen_e 8 6 8 E_tbl); [vm_compute; reflexivity|reflexivity|lia]. Qed.

(* P reads the low four bits of each of its eight input words: the equality holds for all BYTE values of the words *)
Theorem gen_p_is_P_thm st : okl 8 256 st -> m_p st = des_P st.
Proof. apply (reflect_permute 8 gen_p 4 8 4 P_tbl); [vm_compute; reflexivity|reflexivity|lia]. Qed.

Theorem gen_invp_is_invP_thm st : okl 4 256 st -> m_invp st = des_invP st.
Proof. apply (reflect_permute 4 gen_invp 8 4 8 invP_tbl); [vm_compute; reflexivity|reflexivity|lia]. Qed.

(* the generated functions undo each other on every input *)
Theorem fp_ip_id_thm st : okl 8 256 st -> m_fp (m_ip st) = st.
Proof.
  intros H. rewrite (gen_ip_is_IP_thm st H), gen_fp_is_FP_thm by apply des_IP_okl. apply spec_fp_ip, H.
Qed.

Theorem ip_fp_id_thm st : okl 8 256 st -> m_ip (m_fp st) = st.
Proof.
  intros H. rewrite (gen_fp_is_FP_thm st H), gen_ip_is_IP_thm by apply des_FP_okl. apply spec_ip_fp, H.
Qed.

Theorem invp_p_id_thm st : okl 8 16 st -> m_invp (m_p st) = st.
Proof.
  intros H. rewrite (gen_p_is_P_thm st) by (eapply okl_weaken; [|exact H]; lia).
  rewrite gen_invp_is_invP_thm by apply des_P_okl. apply spec_invp_p, H.
Qed.

Theorem p_invp_id_thm st : okl 4 256 st -> m_p (m_invp st) = st.
Proof.
  intros H. rewrite (gen_invp_is_invP_thm st H).
  rewrite gen_p_is_P_thm by (eapply okl_weaken; [|apply des_invP_okl]; lia). apply spec_p_invp, H.
Qed.

(* ------------------------------------------------------------------ S-boxes *)
Theorem sboxes_direct_index_thm : forall wd x, (wd < 8)%nat -> x < 64 -> m_sbox wd x = des_S_i wd x.
Proof.
  intros wd x Hw Hx.
  assert (H : forallb (fun wd => forallb (fun x => N.eqb (m_sbox wd x) (des_S_i wd x)) (nrange 64)) (seq 0 8) = true) by (vm_compute; reflexivity).
  rewrite forallb_forall in H. specialize (H wd ltac:(apply in_seq; lia)).
  apply N.eqb_eq. exact (forall_below 64 _ H x Hx).
Qed.

Theorem sboxes_is_S st : okl 8 64 st -> m_sboxes st = des_S st.
Proof.
  intros [Hl Hr]. unfold m_sboxes, des_S. apply map_ext_in. intros [i x] Hin. cbn [fst snd].
  apply sboxes_direct_index_thm.
  - apply in_combine_l in Hin. apply in_seq in Hin. lia.
  - apply in_combine_r in Hin. rewrite Forall_forall in Hr. apply Hr, Hin.
Qed.

(* ------------------------------------------------------------------ key schedule *)
(* the generated index table is the standard's schedule run on the bit numbers 0 .. 63 (0 = bit 1 of the standard) *)
Theorem round_key_index_table : ROUND_KEY_BITS_INDEXES = round_key_bits 64%nat (seq 0 64).
Proof. vm_compute. reflexivity. Qed.

Lemma land_pow2 x k : N.land x (2 ^ k) = if N.testbit x k then 2 ^ k else 0.
Proof.
  apply N.bits_inj. intros n. rewrite N.land_spec, N.pow2_bits_eqb.
  destruct (N.eqb_spec k n) as [->|Hne].
  - rewrite andb_true_r. destruct (N.testbit x n) eqn:E; [rewrite N.pow2_bits_true; reflexivity|rewrite N.bits_0; reflexivity].
  - rewrite andb_false_r. destruct (N.testbit x k); [rewrite N.pow2_bits_false by exact Hne; reflexivity|rewrite N.bits_0; reflexivity].
Qed.

Lemma mask_bit x k : (if N.eqb (N.land x (2 ^ k)) 0 then 0 else 1) = b2n (N.testbit x k).
Proof.
  rewrite land_pow2. destruct (N.testbit x k); [|reflexivity].
  destruct (N.eqb_spec (2 ^ k) 0) as [E|_]; [|reflexivity]. exfalso. revert E. apply N.pow_nonzero. discriminate.
Qed.

Lemma key_bit_spec key i : key_bit key i = b2n (getbit 8 key (i + 1)).
Proof.
  unfold key_bit, getbit. rewrite Nat.add_sub.
  assert (H : (i mod 8 < 8)%nat) by (apply Nat.mod_upper_bound; lia).
  destruct (i mod 8)%nat as [|[|[|[|[|[|[|[|]]]]]]]]; try lia; cbn [nth bit_masks Nat.sub N.of_nat Pos.of_succ_nat Pos.succ].
  - apply (mask_bit _ 7).
  - apply (mask_bit _ 6).
  - apply (mask_bit _ 5).
  - apply (mask_bit _ 4).
  - apply (mask_bit _ 3).
  - apply (mask_bit _ 2).
  - apply (mask_bit _ 1).
  - apply (mask_bit _ 0).
Qed.

Lemma round_word_spec key idx : length idx = 6%nat ->
  m_round_word key idx = word_of_bits (map (fun i => getbit 8 key (i + 1)) idx).
Proof.
  intros H. destruct idx as [|i0 [|i1 [|i2 [|i3 [|i4 [|i5 [|]]]]]]]; try discriminate H.
  unfold m_round_word. cbn [combine map fst snd nsum fold_right word_of_bits length].
  rewrite !key_bit_spec.
  destruct (getbit 8 key (i0 + 1)), (getbit 8 key (i1 + 1)), (getbit 8 key (i2 + 1)), (getbit 8 key (i3 + 1)),
           (getbit 8 key (i4 + 1)), (getbit 8 key (i5 + 1)); reflexivity.
Qed.

Lemma rkbi_shape : Forall (Forall (fun idx => length idx = 6%nat)) ROUND_KEY_BITS_INDEXES.
Proof.
  assert (H : forallb (forallb (fun idx => Nat.eqb (length idx) 6)) ROUND_KEY_BITS_INDEXES = true) by (vm_compute; reflexivity).
  apply Forall_forall. intros r Hr. apply Forall_forall. intros idx Hi.
  rewrite forallb_forall in H. specialize (H r Hr). rewrite forallb_forall in H. apply Nat.eqb_eq, H, Hi.
Qed.

Theorem key_schedule_is_fips key : length key = 8%nat -> m_key_schedule key = des_key_schedule key.
Proof.
  intros Hl. unfold m_key_schedule, des_key_schedule, key_bits.
  set (f := fun i => getbit 8 key (i + 1)).
  assert (Hseq : map (getbit 8 key) (seq 1 64) = map f (seq 0 64)).
  { rewrite <- seq_shift, map_map. apply map_ext. intros i. unfold f. rewrite Nat.add_1_r. reflexivity. }
  assert (Hd : f 64%nat = false).
  { unfold f, getbit. cbn [Nat.add Nat.sub Nat.div Nat.divmod fst]. rewrite nth_overflow by lia. apply N.bits_0. }
  rewrite Hseq, <- Hd, round_key_bits_map, <- round_key_index_table, map_map.
  apply map_ext_in. intros r Hr. rewrite map_map. apply map_ext_in. intros idx Hi.
  apply round_word_spec.
  pose proof rkbi_shape as Hs. rewrite Forall_forall in Hs. specialize (Hs r Hr). rewrite Forall_forall in Hs. apply Hs, Hi.
Qed.
