(* Proofs/Des.v — property C06: the model of scared.des encrypt/decrypt (Model/Des.v, over the generated tables and the
   tabulated preparation functions) returns, at every stop point and for every key form, the value of the standard.

   1. [key_selection_expected]: what _prepare_keys really selected (the tabulation) is, for every key form, mode and at_des,
      what the TDEA plumbing of the standard does on (key number, round) tokens; by naturality of that plumbing the
      prepared round keys are the standard's.
   2. with Proofs/DesRun.v ([iterations_table_expected], [run_expected]) and Proofs/DesBits.v: [des_at_is_fips_thm].
   3. corollaries: decrypt o encrypt = id, TDES = EDE composition of single DES, expanded key = master key. *)
From Coq Require Import NArith List Bool Arith Lia.
From ScaredV Require Import Lib.Bexpr Spec.Fips46 Generated.DesTables Generated.DesBits Generated.DesRounds Model.Des
  Proofs.DesSpec Proofs.DesBits Proofs.DesRun.
Import ListNotations.
Open Scope N_scope.

(* ------------------------------------------------------------------ key selection *)
(* the key schedules of a bundle of n keys, as tokens (key number, round number) *)
Definition ks_tok (n : nat) : list (list (nat * nat)) := map (fun k => map (fun r => (k, r)) (seq 0 16)) (seq 0 n).
Definition rks_of {A} (q : dir * list A) : list A := pass_rks (fst q) (snd q).
Definition sel_expected (dec : bool) (n p : nat) : list (list (nat * nat)) :=
  map rks_of (firstn (S p) (tdea_passes (dir_of dec) (ks_tok n))).

Theorem key_selection_expected n dec p : (n = 1 \/ n = 2 \/ n = 3)%nat -> (p < length (tdea_passes (dir_of dec) (ks_tok n)))%nat ->
  lookup key3_eqb (8 * n, dec, p)%nat key_sel_master = Some (sel_expected dec n p)
  /\ lookup key3_eqb (128 * n, dec, p)%nat key_sel_master = None
  /\ lookup key3_eqb (128 * n, dec, p)%nat key_sel_expanded = Some (sel_expected dec n p).
Proof.
  intros Hn Hp. destruct Hn as [ -> | [ -> | -> ] ]; destruct dec; cbn in Hp;
    (destruct p as [|[|[|p]]]; try lia); vm_compute; repeat split; reflexivity.
Qed.

Lemma rks_of_map {A B} (f : A -> B) (q : dir * list A) : rks_of (fst q, map f (snd q)) = map f (rks_of q).
Proof. unfold rks_of. cbn [fst snd]. apply pass_rks_map. Qed.

(* resolving the tokens through g after the plumbing = the plumbing on the resolved schedules *)
Lemma sel_resolve {A} (g : nat * nat -> A) dec n p :
  map (map g) (sel_expected dec n p) = map rks_of (firstn (S p) (tdea_passes (dir_of dec) (map (map g) (ks_tok n)))).
Proof.
  unfold sel_expected. rewrite tdea_passes_map, firstn_map, !map_map.
  apply map_ext. intros q. symmetry. apply (rks_of_map g q).
Qed.

Lemma tdea_passes_length {A} mode (ks : list A) :
  length (tdea_passes mode ks) = match length ks with 1 => 1 | 2 => 3 | 3 => 3 | _ => 0 end%nat.
Proof. destruct ks as [|k1 [|k2 [|k3 [|k4 t]]]]; destruct mode; reflexivity. Qed.

Lemma in_tdea_passes {A} mode (ks : list A) q : In q (tdea_passes mode ks) -> In (snd q) ks.
Proof.
  destruct ks as [|k1 [|k2 [|k3 [|k4 t]]]]; destruct mode; cbn; intros H;
    repeat (destruct H as [<-|H]; [cbn; tauto|]); destruct H.
Qed.

(* --- master keys *)
Lemma chunks_lengths {A} n w (l : list A) : length l = (n * w)%nat -> Forall (fun c => length c = w) (chunks n w l).
Proof.
  intros H. apply Forall_forall. intros c Hc. apply In_nth with (d := []) in Hc. destruct Hc as (k & Hk & <-).
  rewrite chunks_length in Hk. rewrite nth_chunks by exact Hk. rewrite firstn_length, skipn_length. nia.
Qed.

Lemma tok_resolve (scheds : list (list (list N))) n : length scheds = n -> Forall (fun s => length s = 16%nat) scheds ->
  map (map (fun kr => nth (snd kr) (nth (fst kr) scheds []) [])) (ks_tok n) = scheds.
Proof.
  intros Hl Hf. unfold ks_tok. rewrite map_map.
  etransitivity; [|symmetry; apply (list_map_nth [] scheds)]. rewrite Hl.
  apply map_ext_in. intros k Hk. rewrite map_map. cbn [fst snd].
  assert (H16 : length (nth k scheds []) = 16%nat).
  { rewrite Forall_forall in Hf. apply Hf, nth_In. apply in_seq in Hk. lia. }
  etransitivity; [|symmetry; apply (list_map_nth [] (nth k scheds []))]. rewrite H16. reflexivity.
Qed.

Lemma prepared_keys_master n dec p key : (n = 1 \/ n = 2 \/ n = 3)%nat -> length key = (8 * n)%nat ->
  (p < length (tdea_passes (dir_of dec) (ks_tok n)))%nat ->
  prepared_keys dec p key = Some (map rks_of (firstn (S p) (tdea_passes (dir_of dec) (map des_key_schedule (chunks n 8 key))))).
Proof.
  intros Hn Hl Hp. unfold prepared_keys, prepared_keys_with, key_schedules. rewrite Hl.
  destruct (key_selection_expected n dec p Hn Hp) as (E & _ & _). rewrite E.
  replace (8 * n / 8)%nat with n by (rewrite Nat.mul_comm, Nat.div_mul; lia).
  f_equal. rewrite sel_resolve. do 4 f_equal.
  assert (Hc : Forall (fun c => length c = 8%nat) (chunks n 8 key)) by (apply chunks_lengths; lia).
  assert (Hs : map m_key_schedule (chunks n 8 key) = map des_key_schedule (chunks n 8 key)).
  { apply map_ext_in. intros c Hin. apply key_schedule_is_fips. rewrite Forall_forall in Hc. apply Hc, Hin. }
  rewrite Hs. apply tok_resolve.
  - rewrite map_length, chunks_length. reflexivity.
  - apply Forall_forall. intros s Hin. apply in_map_iff in Hin. destruct Hin as (c & <- & _). apply des_key_schedule_length.
Qed.

(* --- expanded keys *)
Lemma expanded_round_key (key : list N) k r : (r < 16)%nat ->
  firstn 8 (skipn (128 * k + 8 * r) key) = nth r (chunks 16 8 (firstn 128 (skipn (k * 128) key))) [].
Proof.
  intros Hr. rewrite nth_chunks by exact Hr. rewrite skipn_firstn_comm, firstn_firstn.
  replace (Nat.min 8 (128 - r * 8)) with 8%nat by lia.
  rewrite <- skipn_add. do 2 f_equal. lia.
Qed.

Lemma prepared_keys_expanded n dec p key : (n = 1 \/ n = 2 \/ n = 3)%nat -> length key = (128 * n)%nat ->
  (p < length (tdea_passes (dir_of dec) (ks_tok n)))%nat ->
  prepared_keys dec p key = Some (map rks_of (firstn (S p) (tdea_passes (dir_of dec) (map (chunks 16 8) (chunks n 128 key))))).
Proof.
  intros Hn Hl Hp. unfold prepared_keys, prepared_keys_with. rewrite Hl.
  destruct (key_selection_expected n dec p Hn Hp) as (_ & E1 & E2). rewrite E1, E2.
  f_equal. rewrite sel_resolve. do 4 f_equal.
  unfold ks_tok. rewrite map_map.
  etransitivity; [|symmetry; apply (list_map_nth [] (map (chunks 16 8) (chunks n 128 key)))].
  rewrite map_length, chunks_length.
  apply map_ext_in. intros k Hk. rewrite map_map. cbn [fst snd].
  rewrite (nth_indep _ [] (chunks 16 8 (@nil N))) by (rewrite map_length, chunks_length; apply in_seq in Hk; lia).
  rewrite map_nth.
  etransitivity; [|symmetry; apply (list_map_nth [] (chunks 16 8 (nth k (chunks n 128 key) [])))]. rewrite chunks_length.
  apply map_ext_in. intros r Hr. apply in_seq in Hk, Hr.
  rewrite (nth_chunks n 128 key k) by lia. apply expanded_round_key. lia.
Qed.

(* ------------------------------------------------------------------ the key schedules are well-formed *)
Lemma good_master_schedules mode n key : Forall good_pass (tdea_passes mode (map des_key_schedule (chunks n 8 key))).
Proof.
  apply Forall_forall. intros q Hq. apply in_tdea_passes in Hq. apply in_map_iff in Hq. destruct Hq as (c & E & _).
  split; rewrite <- E; [apply des_key_schedule_length|apply des_key_schedule_okl].
Qed.

Lemma Forall_firstn {A} (P : A -> Prop) n l : Forall P l -> Forall P (firstn n l).
Proof.
  intros H. apply Forall_forall. intros x Hx. rewrite Forall_forall in H. apply H.
  rewrite <- (firstn_skipn n l). apply in_or_app. left. exact Hx.
Qed.
Lemma Forall_skipn {A} (P : A -> Prop) n l : Forall P l -> Forall P (skipn n l).
Proof.
  intros H. apply Forall_forall. intros x Hx. rewrite Forall_forall in H. apply H.
  rewrite <- (firstn_skipn n l). apply in_or_app. right. exact Hx.
Qed.

Lemma good_expanded_schedules mode n key : length key = (128 * n)%nat -> Forall (fun b => b < 64) key ->
  Forall good_pass (tdea_passes mode (map (chunks 16 8) (chunks n 128 key))).
Proof.
  intros Hl Hr. apply Forall_forall. intros q Hq. apply in_tdea_passes in Hq. apply in_map_iff in Hq. destruct Hq as (c & E & Hc).
  assert (Hc128 : length c = 128%nat).
  { pose proof (chunks_lengths n 128 key ltac:(lia)) as H. rewrite Forall_forall in H. apply H, Hc. }
  assert (Hc64 : Forall (fun b => b < 64) c).
  { apply In_nth with (d := []) in Hc. destruct Hc as (k & Hk & <-). rewrite chunks_length in Hk.
    rewrite nth_chunks by exact Hk. apply Forall_firstn, Forall_skipn, Hr. }
  split; rewrite <- E; [apply chunks_length|].
  apply Forall_forall. intros rk Hrk. apply In_nth with (d := []) in Hrk. destruct Hrk as (r & Hr16 & <-).
  rewrite chunks_length in Hr16. rewrite nth_chunks by exact Hr16. split.
  - rewrite firstn_length, skipn_length. lia.
  - apply Forall_firstn, Forall_skipn, Hc64.
Qed.

(* ------------------------------------------------------------------ the main theorem *)
Lemma schedules_master n key : (n = 1 \/ n = 2 \/ n = 3)%nat -> length key = (8 * n)%nat ->
  schedules_of_key key = Some (map des_key_schedule (chunks n 8 key)).
Proof. intros Hn Hl. unfold schedules_of_key. rewrite Hl. destruct Hn as [ -> | [ -> | -> ] ]; reflexivity. Qed.

Lemma schedules_expanded n key : (n = 1 \/ n = 2 \/ n = 3)%nat -> length key = (128 * n)%nat ->
  schedules_of_key key = Some (map (chunks 16 8) (chunks n 128 key)).
Proof. intros Hn Hl. unfold schedules_of_key. rewrite Hl. destruct Hn as [ -> | [ -> | -> ] ]; reflexivity. Qed.

Lemma tok_passes dec n : (n = 1 \/ n = 2 \/ n = 3)%nat ->
  length (tdea_passes (dir_of dec) (ks_tok n)) = if Nat.eqb n 1 then 1%nat else 3%nat.
Proof. intros [ -> | [ -> | -> ] ]; destruct dec; reflexivity. Qed.

(* the common core: whatever the well-formed schedules ks of the bundle are, once the prepared keys are the standard's *)
Lemma cipher_on_schedules dec p r s key block (ks : list (list (list N))) :
  prepared_keys dec p key = Some (map rks_of (firstn (S p) (tdea_passes (dir_of dec) ks))) ->
  Forall good_pass (tdea_passes (dir_of dec) ks) -> (p < length (tdea_passes (dir_of dec) ks))%nat ->
  (r <= 15)%nat -> (s <= 9)%nat -> okl 8 256 block ->
  des_cipher dec p r s key block = Some (tdea_state_at (dir_of dec) ks block p r s).
Proof.
  intros Hk Hg Hp Hr Hs Hb. unfold des_cipher, des_cipher_with. fold (prepared_keys dec p key). rewrite Hk.
  assert (Hp3 : (p < 3)%nat).
  { rewrite tdea_passes_length in Hp. destruct (length ks) as [|[|[|[|]]]]; lia. }
  rewrite iterations_table_expected by lia. f_equal.
  exact (run_expected p r s (tdea_passes (dir_of dec) ks) block Hp3 Hr Hs Hp Hg Hb).
Qed.

Lemma master_n key : master_key key -> exists n, (n = 1 \/ n = 2 \/ n = 3)%nat /\ length key = (8 * n)%nat.
Proof.
  intros [Hl _]. destruct Hl as [H|[H|H]]; [exists 1%nat|exists 2%nat|exists 3%nat]; rewrite H; split; try reflexivity; tauto.
Qed.

Lemma expanded_n key : expanded_key key -> exists n, (n = 1 \/ n = 2 \/ n = 3)%nat /\ length key = (128 * n)%nat.
Proof.
  intros [Hl _]. destruct Hl as [H|[H|H]]; [exists 1%nat|exists 2%nat|exists 3%nat]; rewrite H; split; try reflexivity; tauto.
Qed.

Lemma n_passes_master n key : (n = 1 \/ n = 2 \/ n = 3)%nat -> length key = (8 * n)%nat -> n_passes key = if Nat.eqb n 1 then 1%nat else 3%nat.
Proof. intros Hn Hl. unfold n_passes. rewrite Hl. destruct Hn as [ -> | [ -> | -> ] ]; reflexivity. Qed.

Lemma n_passes_expanded n key : (n = 1 \/ n = 2 \/ n = 3)%nat -> length key = (128 * n)%nat -> n_passes key = if Nat.eqb n 1 then 1%nat else 3%nat.
Proof. intros Hn Hl. unfold n_passes. rewrite Hl. destruct Hn as [ -> | [ -> | -> ] ]; reflexivity. Qed.

Lemma passes_of_n {A} mode (ks : list A) n : (n = 1 \/ n = 2 \/ n = 3)%nat -> length ks = n ->
  length (tdea_passes mode ks) = if Nat.eqb n 1 then 1%nat else 3%nat.
Proof. intros Hn Hl. rewrite tdea_passes_length, Hl. destruct Hn as [ -> | [ -> | -> ] ]; reflexivity. Qed.

Lemma des_at_master n dec p r s key block : (n = 1 \/ n = 2 \/ n = 3)%nat -> length key = (8 * n)%nat -> is_block block ->
  (p < n_passes key)%nat -> (r <= 15)%nat -> (s <= 9)%nat ->
  des_cipher dec p r s key block = Some (tdea_state_at (dir_of dec) (map des_key_schedule (chunks n 8 key)) block p r s).
Proof.
  intros Hn Hl Hb Hp Hr Hs. rewrite (n_passes_master n key Hn Hl) in Hp.
  apply cipher_on_schedules; try assumption.
  - apply prepared_keys_master; try assumption. rewrite tok_passes by exact Hn. exact Hp.
  - apply good_master_schedules.
  - rewrite (passes_of_n _ _ n Hn) by (rewrite map_length, chunks_length; reflexivity). exact Hp.
Qed.

Lemma des_at_expanded n dec p r s key block : (n = 1 \/ n = 2 \/ n = 3)%nat -> length key = (128 * n)%nat ->
  Forall (fun b => b < 64) key -> is_block block -> (p < n_passes key)%nat -> (r <= 15)%nat -> (s <= 9)%nat ->
  des_cipher dec p r s key block = Some (tdea_state_at (dir_of dec) (map (chunks 16 8) (chunks n 128 key)) block p r s).
Proof.
  intros Hn Hl Hk Hb Hp Hr Hs. rewrite (n_passes_expanded n key Hn Hl) in Hp.
  apply cipher_on_schedules; try assumption.
  - apply prepared_keys_expanded; try assumption. rewrite tok_passes by exact Hn. exact Hp.
  - apply good_expanded_schedules; assumption.
  - rewrite (passes_of_n _ _ n Hn) by (rewrite map_length, chunks_length; reflexivity). exact Hp.
Qed.

Theorem des_at_is_fips_thm dec p r s key block :
  master_key key \/ expanded_key key -> is_block block -> (p < n_passes key)%nat -> (r <= 15)%nat -> (s <= 9)%nat ->
  exists ks, schedules_of_key key = Some ks /\ des_cipher dec p r s key block = Some (tdea_state_at (dir_of dec) ks block p r s).
Proof.
  intros Hkey Hb Hp Hr Hs. destruct Hkey as [Hm|Hx].
  - destruct (master_n key Hm) as (n & Hn & Hl).
    exists (map des_key_schedule (chunks n 8 key)). split; [apply schedules_master; assumption|apply des_at_master; assumption].
  - destruct (expanded_n key Hx) as (n & Hn & Hl). destruct Hx as [_ Hk].
    exists (map (chunks 16 8) (chunks n 128 key)). split; [apply schedules_expanded; assumption|apply des_at_expanded; assumption].
Qed.

(* ------------------------------------------------------------------ the complete operation *)
Lemma state_at_end mode (ks : list (list (list N))) block :
  (length ks = 1 \/ length ks = 2 \/ length ks = 3)%nat ->
  tdea_state_at mode ks block (length (tdea_passes mode ks) - 1) 15 9 = tdea mode ks block.
Proof.
  intros Hl. destruct ks as [|k1 [|k2 [|k3 [|k4 t]]]]; cbn in Hl; try lia; destruct mode; reflexivity.
Qed.

Lemma des_core_rev_inverse rks b : length rks = 16%nat -> okl 8 256 b -> des_core rks (des_core (rev rks) b) = b.
Proof.
  intros Hl Hb. rewrite <- (rev_involutive rks) at 1. apply spec_des_inverse; [rewrite rev_length; exact Hl|exact Hb].
Qed.

(* TDEA deciphering undoes TDEA enciphering and conversely, whatever the (sixteen-round-key) schedules *)
Theorem spec_tdea_inverse (ks : list (list (list N))) b : Forall (fun k => length k = 16%nat) ks -> okl 8 256 b ->
  tdea Dec ks (tdea Enc ks b) = b /\ tdea Enc ks (tdea Dec ks b) = b.
Proof.
  intros Hk Hb. unfold tdea, run_passes.
  destruct ks as [|k1 [|k2 [|k3 [|k4 t]]]]; cbn [tdea_passes fold_left]; unfold des_pass; cbn [pass_rks fst snd];
    try (split; reflexivity); forall_inv;
    rewrite ?spec_des_inverse, ?des_core_rev_inverse by (try assumption; apply des_core_okl);
    rewrite ?spec_des_inverse, ?des_core_rev_inverse by (try assumption; apply des_core_okl);
    rewrite ?spec_des_inverse, ?des_core_rev_inverse by (try assumption; apply des_core_okl);
    split; reflexivity.
Qed.

Lemma tdea_okl mode ks b : okl 8 256 b -> okl 8 256 (tdea mode ks b).
Proof.
  intros Hb. unfold tdea, run_passes. generalize (tdea_passes mode ks). intros ps. revert b Hb.
  induction ps as [|q ps IH]; intros b Hb; [exact Hb|]. cbn [fold_left]. apply IH. apply des_core_okl.
Qed.

Lemma des_full_spec dec key block : master_key key \/ expanded_key key -> is_block block ->
  exists ks, schedules_of_key key = Some ks /\ Forall (fun k => length k = 16%nat) ks
             /\ des_full dec key block = Some (tdea (dir_of dec) ks block).
Proof.
  intros Hkey Hb. unfold des_full.
  assert (Hnp : (n_passes key - 1 < n_passes key)%nat) by (unfold n_passes; destruct (_ || _); lia).
  destruct Hkey as [Hm|Hx].
  - destruct (master_n key Hm) as (n & Hn & Hl).
    exists (map des_key_schedule (chunks n 8 key)). split; [apply schedules_master; assumption|]. split.
    + apply Forall_forall. intros k Hin. apply in_map_iff in Hin. destruct Hin as (c & <- & _). apply des_key_schedule_length.
    + rewrite (des_at_master n) by (try assumption; lia).
      rewrite <- (state_at_end (dir_of dec) (map des_key_schedule (chunks n 8 key)) block)
        by (rewrite map_length, chunks_length; lia).
      rewrite (passes_of_n _ _ n Hn) by (rewrite map_length, chunks_length; reflexivity).
      rewrite (n_passes_master n key Hn Hl). reflexivity.
  - destruct (expanded_n key Hx) as (n & Hn & Hl). destruct Hx as [_ Hk].
    exists (map (chunks 16 8) (chunks n 128 key)). split; [apply schedules_expanded; assumption|]. split.
    + apply Forall_forall. intros k Hin. apply in_map_iff in Hin. destruct Hin as (c & <- & _). apply chunks_length.
    + rewrite (des_at_expanded n) by (try assumption; lia).
      rewrite <- (state_at_end (dir_of dec) (map (chunks 16 8) (chunks n 128 key)) block)
        by (rewrite map_length, chunks_length; lia).
      rewrite (passes_of_n _ _ n Hn) by (rewrite map_length, chunks_length; reflexivity).
      rewrite (n_passes_expanded n key Hn Hl). reflexivity.
Qed.

Theorem des_decrypt_encrypt_thm key block : master_key key \/ expanded_key key -> is_block block ->
  (exists c, des_full false key block = Some c /\ is_block c /\ des_full true key c = Some block)
  /\ (exists m, des_full true key block = Some m /\ is_block m /\ des_full false key m = Some block).
Proof.
  intros Hkey Hb.
  destruct (des_full_spec false key block Hkey Hb) as (ks & Hks & H16 & Ee).
  destruct (des_full_spec true key block Hkey Hb) as (ks' & Hks' & _ & Ed).
  rewrite Hks in Hks'. injection Hks' as <-.
  destruct (spec_tdea_inverse ks block H16 Hb) as [I1 I2].
  split.
  - exists (tdea Enc ks block). split; [exact Ee|]. split; [apply tdea_okl, Hb|].
    destruct (des_full_spec true key (tdea Enc ks block) Hkey (tdea_okl Enc ks block Hb)) as (ks2 & Hks2 & _ & E2).
    rewrite Hks in Hks2. injection Hks2 as <-. rewrite E2. cbn [dir_of]. rewrite I1. reflexivity.
  - exists (tdea Dec ks block). split; [exact Ed|]. split; [apply tdea_okl, Hb|].
    destruct (des_full_spec false key (tdea Dec ks block) Hkey (tdea_okl Dec ks block Hb)) as (ks2 & Hks2 & _ & E2).
    rewrite Hks in Hks2. injection Hks2 as <-. rewrite E2. cbn [dir_of]. rewrite I2. reflexivity.
Qed.

(* ------------------------------------------------------------------ TDES is the EDE composition of single DES *)
Lemma chunks1 (k : list N) : length k = 8%nat -> chunks 1 8 k = [k].
Proof. intros H. rewrite <- (app_nil_r k) at 1. exact (chunks_concat 8 [k] (Forall_cons _ H (Forall_nil _))). Qed.

Lemma chunks2 (k1 k2 : list N) : length k1 = 8%nat -> length k2 = 8%nat -> chunks 2 8 (k1 ++ k2) = [k1; k2].
Proof.
  intros H1 H2. rewrite <- (app_nil_r k2) at 1.
  exact (chunks_concat 8 [k1; k2] (Forall_cons _ H1 (Forall_cons _ H2 (Forall_nil _)))).
Qed.

Lemma chunks3 (k1 k2 k3 : list N) : length k1 = 8%nat -> length k2 = 8%nat -> length k3 = 8%nat ->
  chunks 3 8 (k1 ++ k2 ++ k3) = [k1; k2; k3].
Proof.
  intros H1 H2 H3. rewrite <- (app_nil_r k3) at 1.
  exact (chunks_concat 8 [k1; k2; k3] (Forall_cons _ H1 (Forall_cons _ H2 (Forall_cons _ H3 (Forall_nil _))))).
Qed.

Lemma single_des dec k x : is_block k -> is_block x ->
  des_full dec k x = Some (des_pass (dir_of dec, des_key_schedule k) x).
Proof.
  intros [Hk _] Hx. unfold des_full.
  rewrite (des_at_master 1) by (try assumption; try (unfold n_passes; rewrite Hk; cbn); try lia; tauto).
  rewrite chunks1 by exact Hk. unfold n_passes. rewrite Hk. destruct dec; reflexivity.
Qed.

Ltac unfold_state :=
  unfold tdea_state_at, des_state_at, run_passes;
  cbn [map tdea_passes firstn nth fold_left fst snd Nat.eqb Nat.leb andb dir_of].

(* with K1 K2 K3: pass 0 = E_K1, pass 1 = D_K2, pass 2 = E_K3 (encrypt);  D_K3, E_K2, D_K1 (decrypt);
   each pass stopped at its end returns the complete single-DES result of that pass *)
Theorem tdes3_is_ede_thm k1 k2 k3 block : is_block k1 -> is_block k2 -> is_block k3 -> is_block block ->
  exists a b c, des_full false k1 block = Some a /\ des_full true k2 a = Some b /\ des_full false k3 b = Some c
    /\ des_cipher false 0 15 9 (k1 ++ k2 ++ k3) block = Some a
    /\ des_cipher false 1 15 9 (k1 ++ k2 ++ k3) block = Some b
    /\ des_cipher false 2 15 9 (k1 ++ k2 ++ k3) block = Some c.
Proof.
  intros H1 H2 H3 Hb.
  assert (Hl : length (k1 ++ k2 ++ k3) = (8 * 3)%nat) by (rewrite !app_length, (proj1 H1), (proj1 H2), (proj1 H3); reflexivity).
  assert (Hnp : n_passes (k1 ++ k2 ++ k3) = 3%nat) by (unfold n_passes; rewrite Hl; reflexivity).
  exists (des_pass (Enc, des_key_schedule k1) block).
  exists (des_pass (Dec, des_key_schedule k2) (des_pass (Enc, des_key_schedule k1) block)).
  exists (des_pass (Enc, des_key_schedule k3) (des_pass (Dec, des_key_schedule k2) (des_pass (Enc, des_key_schedule k1) block))).
  rewrite !single_des by (try assumption; apply des_core_okl).
  rewrite !(des_at_master 3) by (try assumption; try lia; tauto).
  rewrite chunks3 by (apply H1 || apply H2 || apply H3).
  unfold_state. repeat split; reflexivity.
Qed.

Theorem tdes3_is_ded_thm k1 k2 k3 block : is_block k1 -> is_block k2 -> is_block k3 -> is_block block ->
  exists a b c, des_full true k3 block = Some a /\ des_full false k2 a = Some b /\ des_full true k1 b = Some c
    /\ des_cipher true 0 15 9 (k1 ++ k2 ++ k3) block = Some a
    /\ des_cipher true 1 15 9 (k1 ++ k2 ++ k3) block = Some b
    /\ des_cipher true 2 15 9 (k1 ++ k2 ++ k3) block = Some c.
Proof.
  intros H1 H2 H3 Hb.
  assert (Hl : length (k1 ++ k2 ++ k3) = (8 * 3)%nat) by (rewrite !app_length, (proj1 H1), (proj1 H2), (proj1 H3); reflexivity).
  assert (Hnp : n_passes (k1 ++ k2 ++ k3) = 3%nat) by (unfold n_passes; rewrite Hl; reflexivity).
  exists (des_pass (Dec, des_key_schedule k3) block).
  exists (des_pass (Enc, des_key_schedule k2) (des_pass (Dec, des_key_schedule k3) block)).
  exists (des_pass (Dec, des_key_schedule k1) (des_pass (Enc, des_key_schedule k2) (des_pass (Dec, des_key_schedule k3) block))).
  rewrite !single_des by (try assumption; apply des_core_okl).
  rewrite !(des_at_master 3) by (try assumption; try lia; tauto).
  rewrite chunks3 by (apply H1 || apply H2 || apply H3).
  unfold_state. repeat split; reflexivity.
Qed.

(* two-key TDES: the third key is the first one, in both directions *)
Theorem tdes2_is_ede_thm dec k1 k2 block : is_block k1 -> is_block k2 -> is_block block ->
  exists a b c, des_full dec k1 block = Some a /\ des_full (negb dec) k2 a = Some b /\ des_full dec k1 b = Some c
    /\ des_cipher dec 0 15 9 (k1 ++ k2) block = Some a
    /\ des_cipher dec 1 15 9 (k1 ++ k2) block = Some b
    /\ des_cipher dec 2 15 9 (k1 ++ k2) block = Some c.
Proof.
  intros H1 H2 Hb.
  assert (Hl : length (k1 ++ k2) = (8 * 2)%nat) by (rewrite !app_length, (proj1 H1), (proj1 H2); reflexivity).
  assert (Hnp : n_passes (k1 ++ k2) = 3%nat) by (unfold n_passes; rewrite Hl; reflexivity).
  exists (des_pass (dir_of dec, des_key_schedule k1) block).
  exists (des_pass (dir_of (negb dec), des_key_schedule k2) (des_pass (dir_of dec, des_key_schedule k1) block)).
  exists (des_pass (dir_of dec, des_key_schedule k1)
            (des_pass (dir_of (negb dec), des_key_schedule k2) (des_pass (dir_of dec, des_key_schedule k1) block))).
  rewrite !single_des by (try assumption; apply des_core_okl).
  rewrite !(des_at_master 2) by (try assumption; try lia; tauto).
  rewrite chunks2 by (apply H1 || apply H2).
  destruct dec; unfold_state; repeat split; reflexivity.
Qed.

(* ------------------------------------------------------------------ pre-expanded round keys = master keys *)
Lemma concat_length_const {A} w (ls : list (list A)) : Forall (fun g => length g = w) ls -> length (concat ls) = (length ls * w)%nat.
Proof.
  induction ls as [|g ls IH]; intros H; [reflexivity|]. inversion H; subst. cbn [concat length].
  rewrite app_length, IH by assumption. lia.
Qed.

Lemma Forall_concat {A} (P : A -> Prop) (ls : list (list A)) : Forall (Forall P) ls -> Forall P (concat ls).
Proof.
  induction ls as [|g ls IH]; intros H; [constructor|]. inversion H; subst. cbn [concat].
  apply Forall_app. split; [assumption|apply IH; assumption].
Qed.

Lemma flat_schedule_length k : length (concat (des_key_schedule k)) = 128%nat.
Proof.
  rewrite (concat_length_const 8), des_key_schedule_length; [reflexivity|].
  eapply Forall_impl; [|apply des_key_schedule_okl]. intros g [Hg _]. exact Hg.
Qed.

Lemma expand_key_spec n key : (n = 1 \/ n = 2 \/ n = 3)%nat -> length key = (8 * n)%nat ->
  expand_key key = concat (map (fun k => concat (des_key_schedule k)) (chunks n 8 key)).
Proof.
  intros Hn Hl. unfold expand_key. rewrite Hl. replace (8 * n / 8)%nat with n by (rewrite Nat.mul_comm, Nat.div_mul; lia).
  f_equal. apply map_ext_in. intros c Hc. rewrite key_schedule_is_fips; [reflexivity|].
  pose proof (chunks_lengths n 8 key ltac:(lia)) as H. rewrite Forall_forall in H. apply H, Hc.
Qed.

Lemma expand_key_schedules n key : (n = 1 \/ n = 2 \/ n = 3)%nat -> length key = (8 * n)%nat ->
  map (chunks 16 8) (chunks n 128 (expand_key key)) = map des_key_schedule (chunks n 8 key).
Proof.
  intros Hn Hl. rewrite (expand_key_spec n key Hn Hl).
  set (cs := chunks n 8 key). assert (Hcs : length cs = n) by apply chunks_length.
  rewrite <- Hcs at 1. rewrite <- (map_length (fun k => concat (des_key_schedule k)) cs).
  rewrite chunks_concat.
  - rewrite map_map. apply map_ext. intros k.
    rewrite <- (des_key_schedule_length k) at 1. apply chunks_concat.
    eapply Forall_impl; [|apply des_key_schedule_okl]. intros g [Hg _]. exact Hg.
  - apply Forall_forall. intros g Hg. apply in_map_iff in Hg. destruct Hg as (k & <- & _). apply flat_schedule_length.
Qed.

Lemma expand_key_is_expanded n key : (n = 1 \/ n = 2 \/ n = 3)%nat -> length key = (8 * n)%nat ->
  length (expand_key key) = (128 * n)%nat /\ Forall (fun b => b < 64) (expand_key key).
Proof.
  intros Hn Hl. rewrite (expand_key_spec n key Hn Hl). split.
  - rewrite (concat_length_const 128), map_length, chunks_length; [lia|].
    apply Forall_forall. intros g Hg. apply in_map_iff in Hg. destruct Hg as (k & <- & _). apply flat_schedule_length.
  - apply Forall_concat. apply Forall_forall. intros g Hg. apply in_map_iff in Hg. destruct Hg as (k & <- & _).
    apply Forall_concat. eapply Forall_impl; [|apply des_key_schedule_okl]. intros rk [_ Hr]. exact Hr.
Qed.

Theorem expanded_key_eq_master_thm dec p r s key block :
  master_key key -> is_block block -> (p < n_passes key)%nat -> (r <= 15)%nat -> (s <= 9)%nat ->
  expanded_key (expand_key key) /\ n_passes (expand_key key) = n_passes key
  /\ des_cipher dec p r s (expand_key key) block = des_cipher dec p r s key block.
Proof.
  intros Hm Hb Hp Hr Hs. destruct (master_n key Hm) as (n & Hn & Hl).
  destruct (expand_key_is_expanded n key Hn Hl) as [Hxl Hxr].
  assert (Hnp : n_passes (expand_key key) = n_passes key).
  { rewrite (n_passes_expanded n _ Hn Hxl), (n_passes_master n _ Hn Hl). reflexivity. }
  split; [|split; [exact Hnp|]].
  - split; [|exact Hxr]. rewrite Hxl. destruct Hn as [ -> | [ -> | -> ] ]; cbn; tauto.
  - rewrite (des_at_expanded n) by (try assumption; rewrite ?Hnp; assumption).
    rewrite (des_at_master n) by assumption.
    rewrite expand_key_schedules by assumption. reflexivity.
Qed.
