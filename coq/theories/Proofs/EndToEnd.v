(* Proofs/EndToEnd.v — COMPOSITION of the property developments: what a user of an attack object relies on.

   Nothing here is a new model: the generic model of Analysis.run()/convergence (Model/Analysis.v, properties C02 / C08,
   generic in the accumulator) is INSTANTIATED with the concrete (words x samples) table accumulators of
   Model/Batching.v (property C01: CPA, alternative CPA, DPA, ANOVA / NICV / SNR, MIA as lawful bundles and their table
   lift), and the one-shot result of every entry is rewritten with the per-distinguisher theorems "model formula = SPEC"
   (Proofs/Cpa.v C03, Proofs/Partitioned.v C04, Proofs/Mia.v C13), the discriminant with Model/Models.v (C15), the
   t-test run model with Proofs/Ttest.v (C09) and the slices of Proofs/Container.v (C02).

   Contents
     0. vocabulary of the statements (columns of a trace set, rectangularity, the lane discriminant) and list glue
     1. the generic step: run model on the table of a lawful per-entry bundle = entry by entry the bundle's one-shot
        result on the entry's own column of observations over ALL rows of all containers; scores; convergence columns
     2. per-entry "one-shot = SPEC" in the form needed (no side condition left but the ones of the owners' theorems)
     3. the concrete attacks: results / scores / convergence columns
     4. t-test: whole traces, frame + chain, any batch sizes, any interleaving, several run() calls
   The statements of Props/C02EndToEnd.v are closed by [exact] of the theorems of sections 3 and 4. *)
From Coq Require Import ZArith QArith Qcanon List Bool Lia PeanoNat.
From ScaredV Require Import Lib.QcSum Lib.Interleave Run.Compare Model.Accum Model.Container Model.Analysis Model.Batching.
From ScaredV Require Import Proofs.Container Proofs.Analysis Proofs.Batching.
From ScaredV Require Model.Cpa Model.Partitioned Model.Mia Model.Ttest Model.Models Model.Attack.
From ScaredV Require Proofs.Cpa Proofs.Partitioned Proofs.Mia Proofs.Ttest Proofs.Models.
Import ListNotations.
Local Open Scope nat_scope.

(* ================================================================================ 0. vocabulary and list glue *)
(* A processed trace is (samples after frame and chain, data row = model (selection function (metadata))).
   Columns of a set of processed traces, in trace order: *)
Definition sample_col {D : Type} (s : nat) (rows : list (list Qc * D)) : list Qc := map (fun r => nth s (fst r) 0%Qc) rows.
Definition word_col (w : nat) (rows : list qrow) : list Qc := map (fun r => nth w (snd r) 0%Qc) rows.
(* DPA: the bit of word w (the data value 1) *)
Definition bit_col (w : nat) (rows : list zrow) : list bool := map (fun r => Z.eqb (nth w (snd r) 0%Z) 1) rows.
(* partitioned distinguishers and MIA: the integer value of word w *)
Definition class_col (w : nat) (rows : list zrow) : list Z := map (fun r => nth w (snd r) (-1)%Z) rows.

(* every processed trace has S samples and W words: under this hypothesis no [nth] above ever returns its default *)
Definition rect {B : Type} (W S : nat) (rows : list (list Qc * list B)) : Prop :=
  Forall (fun r => length (fst r) = S /\ length (snd r) = W) rows.

(* scores = discriminant(results): the discriminant reduces the LAST axis of the (W, S) result (Model/Models.v
   reduce_axis, property C15) with a lane function [lane] *)
Definition lane_scores {O Sc : Type} (d : O) (lane : list O -> Sc) (W S : nat) (res : list O) : list Sc :=
  Models.reduce_axis d lane [W; S] 1 res.

(* lanes of correlations: r = num / sqrt (dx dy) is irrational; x |-> x |x| is odd and strictly increasing, so every order
   discriminant (nanmax, maxabs, opposite_min) of a lane of correlations is taken on sign(num) num^2 / (dx dy)
   (Model/Attack.sgn_sq, property C17); lanes of rational statistics are taken as they are *)
Definition corr_value (t : option Cpa.triple) : Models.oq := option_map (fun x : Cpa.triple => this (Attack.sgn_sq x)) t.
Definition corr_lane (op : Models.disc_op) (l : list (option Cpa.triple)) : Models.oq :=
  Models.disc_lane op (map corr_value l).
Definition value_lane (op : Models.disc_op) (l : list (option Qc)) : Models.oq :=
  Models.disc_lane op (map (option_map this) l).

Lemma combine_map_same {A B C : Type} (f : A -> B) (g : A -> C) (l : list A) :
  combine (map f l) (map g l) = map (fun x => (f x, g x)) l.
Proof. induction l as [|a l IH]; cbn; [reflexivity|rewrite IH; reflexivity]. Qed.

Lemma qlen_map {A B : Type} (f : A -> B) (l : list A) : qlen (map f l) = qlen l.
Proof. unfold qlen. induction l as [|a l IH]; cbn; [reflexivity|rewrite IH; reflexivity]. Qed.

Lemma nth_map_seq {B : Type} (F : nat -> B) (d : B) (n i : nat) : i < n -> nth i (map F (seq 0 n)) d = F i.
Proof.
  intros Hi. rewrite (nth_indep _ d (F 0)) by (rewrite map_length, seq_length; exact Hi).
  rewrite map_nth, seq_nth by exact Hi. reflexivity.
Qed.

Lemma entries_length (W S : nat) : length (entries W S) = W * S.
Proof.
  unfold entries. rewrite (Proofs.Models.flat_map_length_const _ _ S).
  - rewrite seq_length. reflexivity.
  - intros w _. rewrite map_length, seq_length. reflexivity.
Qed.

Lemma entry_index (W S w s : nat) : w < W -> s < S -> w * S + s < W * S.
Proof. intros Hw Hs. nia. Qed.

Lemma nth_entries (W S w s : nat) : w < W -> s < S -> nth (w * S + s) (entries W S) (0, 0) = (w, s).
Proof.
  intros Hw Hs. unfold entries.
  rewrite (Proofs.Models.nth_flat_map_const (0, 0) (fun w0 => map (fun s0 => (w0, s0)) (seq 0 S)) 0 S).
  - rewrite seq_nth by exact Hw. cbn [Nat.add]. apply nth_map_seq. exact Hs.
  - intros a. rewrite map_length, seq_length. reflexivity.
  - exact Hs.
  - rewrite seq_length. exact Hw.
Qed.

Lemma nth_map_entries {B : Type} (f : nat * nat -> B) (d : B) (W S w s : nat) :
  w < W -> s < S -> nth (w * S + s) (map f (entries W S)) d = f (w, s).
Proof.
  intros Hw Hs.
  rewrite (nth_indep _ d (f (0, 0))) by (rewrite map_length, entries_length; apply entry_index; assumption).
  rewrite map_nth, nth_entries by assumption. reflexivity.
Qed.

Lemma lane_scores_length {O Sc : Type} (d : O) (lane : list O -> Sc) (W S : nat) (res : list O) :
  length (lane_scores d lane W S res) = W.
Proof. unfold lane_scores. rewrite Proofs.Models.reduce_axis_length. cbn. lia. Qed.

(* score w = lane of the S results of word w *)
Lemma lane_scores_entry {O Sc : Type} (d : O) (dsc : Sc) (lane : list O -> Sc) (W S : nat) (res : list O) (w : nat) :
  w < W -> nth w (lane_scores d lane W S res) dsc = lane (map (fun s => nth (w * S + s) res d) (seq 0 S)).
Proof.
  intros Hw. unfold lane_scores.
  assert (Ho : w < Models.outer_of [W; S] 1) by (cbn; lia).
  assert (Hi : 0 < Models.inner_of [W; S] 1) by (cbn; lia).
  pose proof (Proofs.Models.reduce_axis_entry d dsc lane [W; S] 1 res w 0 Ho Hi) as E.
  change (Models.inner_of [W; S] 1) with 1 in E. change (Models.len_of [W; S] 1) with S in E.
  rewrite Nat.mul_1_r, Nat.add_0_r in E. rewrite E. f_equal. apply map_ext. intros j.
  unfold Models.at3. f_equal. lia.
Qed.

Lemma lane_scores_of_table {O Sc : Type} (d : O) (dsc : Sc) (lane : list O -> Sc) (W S : nat) (f : nat * nat -> O) (w : nat) :
  w < W ->
  nth w (lane_scores d lane W S (map f (entries W S))) dsc = lane (map (fun s => f (w, s)) (seq 0 S)).
Proof.
  intros Hw. rewrite lane_scores_entry by exact Hw. f_equal. apply map_ext_in. intros s Hs. apply in_seq in Hs.
  apply nth_map_entries; [exact Hw|lia].
Qed.

(* maxabs of a lane, through any reading [f] of its elements as optional rationals (Proofs/Models.lane_nanmax_spec) *)
Lemma maxabs_lane_spec {T : Type} (f : T -> Models.oq) (l : list T) :
  match Models.disc_lane Models.DMaxabs (map f l) with
  | Some m => (exists x v, In x l /\ f x = Some v /\ Qabs' v = m)
              /\ (forall x v, In x l -> f x = Some v -> (Qabs' v <= m)%Q)
  | None => forall x, In x l -> f x = None
  end.
Proof.
  cbn [Models.disc_lane]. pose proof (Proofs.Models.lane_nanmax_spec (map (Models.omap Qabs') (map f l))) as H.
  destruct (Models.lane_nanmax (map (Models.omap Qabs') (map f l))) as [m|].
  - destruct H as [Hin Hub]. split.
    + rewrite map_map in Hin. apply in_map_iff in Hin. destruct Hin as (x & Hx & Hl).
      destruct (f x) as [v|] eqn:Ef; cbn in Hx; [|discriminate]. injection Hx as Hx. exists x, v. auto.
    + intros x v Hl Ef. apply Hub. rewrite map_map. apply in_map_iff. exists x. rewrite Ef. auto.
  - intros x Hl. specialize (H (Models.omap Qabs' (f x))). rewrite map_map in H.
    specialize (H (in_map (fun y => Models.omap Qabs' (f y)) l x Hl)). destruct (f x); [discriminate|reflexivity].
Qed.

(* ================================================================================ 1. the generic step *)
(* Analysis.run() (Model/Analysis.v) on an object whose distinguisher is the table of the per-entry bundle [A] with the
   projections [projs]: [cs] the convergence step, [runs] the containers of the successive run() calls, in order *)
Definition table_run (A : accum) (D : Type) (projs : list (list Qc * D -> a_R A)) {M V Sc : Type}
                     (sf : M -> V) (model : V -> D) (disc : list (a_O A) -> Sc) (cs : option nat)
                     (runs : list (container (list Qc) M)) : ast (list (a_St A)) (list (a_O A)) Sc :=
  let T := table_of A (list Qc * D) projs in
  run_seq (list Qc) M V D (a_St T) (a_O T) Sc (a_zero T) (a_plus T) (a_contrib T) (a_comp T) sf model disc cs
          (fresh (a_St T) (a_O T) Sc (a_zero T)) runs.

Section TableRun.
  Variable A : accum.
  Hypothesis LA : lawful A.
  Variable D : Type.
  Variable proj : nat * nat -> list Qc * D -> a_R A.          (* entry (word, sample) -> its observation of one trace *)
  Variables W S : nat.
  Variables M V Sc : Type.
  Variable sf : M -> V.
  Variable model : V -> D.

  Local Notation RT := (list Qc * D)%type.
  Local Notation projs := (map proj (entries W S)).
  Local Notation T := (table_of A RT projs).
  Local Notation all_rows := (Analysis.all_rows (list Qc) M V D sf model).

  Let LT : lawful T := table_lawful A RT projs LA.

  (* compute() of the table after ONE update with [rows] = entry by entry the one-shot result of the entry's column *)
  Lemma table_comp_rows (rows : list RT) :
    a_comp T (upd (a_St T) RT (a_zero T) (a_plus T) (a_contrib T) (a_zero T) rows)
    = map (fun e => oneshot A (map (proj e) rows)) (entries W S).
  Proof.
    pose proof (table_oneshot_entrywise A RT projs LA rows) as E. unfold table_oneshot in E. rewrite map_map in E.
    exact E.
  Qed.

  (* results / scores / trace count after any sequence of run() calls, any batch sizes, any convergence step *)
  Theorem table_run_results (disc : list (a_O A) -> Sc) (cs : option nat) (runs : list (container (list Qc) M)) :
    step_ok cs -> Forall (ok_container (list Qc) M) runs -> runs <> [] ->
    let rows := all_rows runs in
    let st := table_run A D projs sf model disc cs runs in
    exists res,
      results st = Some res /\ length res = W * S
      /\ (forall w s d, w < W -> s < S -> nth (w * S + s) res d = oneshot A (map (proj (w, s)) rows))
      /\ scores st = Some (disc res)
      /\ processed st = length rows.
  Proof.
    intros Hs Hok Hne. cbv zeta.
    destruct (run_seq_eq_oneshot_thm (list Qc) M V D (a_St T) (a_O T) Sc (a_zero T) (a_plus T) (a_contrib T) (a_comp T)
                (proj1 LT) (proj1 (proj2 LT)) (proj2 (proj2 LT)) sf model disc cs runs Hs Hok Hne) as (R & Sco & P).
    cbv zeta in R, Sco, P. rewrite table_comp_rows in R, Sco.
    eexists. split; [exact R|]. split; [rewrite map_length; apply entries_length|].
    split; [intros w s d Hw Hs'; apply nth_map_entries; assumption|]. split; [exact Sco|exact P].
  Qed.

  (* scores with a lane discriminant: score w = lane over the samples of the entries of word w *)
  Theorem table_run_lane_scores (d : a_O A) (lane : list (a_O A) -> Sc) (cs : option nat)
                                (runs : list (container (list Qc) M)) :
    step_ok cs -> Forall (ok_container (list Qc) M) runs -> runs <> [] ->
    let rows := all_rows runs in
    let st := table_run A D projs sf model (lane_scores d lane W S) cs runs in
    exists sc,
      scores st = Some sc /\ length sc = W
      /\ forall w dsc, w < W -> nth w sc dsc = lane (map (fun s => oneshot A (map (proj (w, s)) rows)) (seq 0 S)).
  Proof.
    intros Hs Hok Hne. cbv zeta.
    destruct (run_seq_eq_oneshot_thm (list Qc) M V D (a_St T) (a_O T) (list Sc) (a_zero T) (a_plus T) (a_contrib T) (a_comp T)
                (proj1 LT) (proj1 (proj2 LT)) (proj2 (proj2 LT)) sf model (lane_scores d lane W S) cs runs Hs Hok Hne)
      as (_ & Sco & _).
    cbv zeta in Sco. rewrite table_comp_rows in Sco.
    eexists. split; [exact Sco|]. split; [apply lane_scores_length|].
    intros w dsc Hw. apply (lane_scores_of_table d dsc lane W S (fun e => oneshot A (map (proj e) (all_rows runs))) w Hw).
  Qed.

  (* convergence: the column appended at point p is the lane discriminant of the entries' one-shot results on the
     FIRST p rows (C08 column_is_prefix_score for the table, read entry by entry) *)
  Theorem table_run_convergence (d : a_O A) (lane : list (a_O A) -> Sc) (k : nat)
                                (runs : list (container (list Qc) M)) (j p : nat) (kd : Analysis.ckind) :
    1 <= k -> Forall (ok_container (list Qc) M) runs ->
    let rows := all_rows runs in
    let st := table_run A D projs sf model (lane_scores d lane W S) (Some k) runs in
    nth_error (cols st) j = Some (p, kd) ->
    p <= length rows
    /\ exists col,
         nth_error (conv st) j = Some col /\ length col = W
         /\ forall w dsc, w < W ->
              nth w col dsc = lane (map (fun s => oneshot A (map (proj (w, s)) (firstn p rows))) (seq 0 S)).
  Proof.
    intros Hk Hok. cbv zeta. intros Hj.
    destruct (column_is_prefix_score_thm (list Qc) M V D (a_St T) (a_O T) (list Sc) (a_zero T) (a_plus T) (a_contrib T)
                (a_comp T) (proj1 LT) (proj1 (proj2 LT)) (proj2 (proj2 LT)) sf model (lane_scores d lane W S) k runs j p kd
                Hk Hok Hj) as (Hp & Hc).
    rewrite table_comp_rows in Hc. split; [exact Hp|].
    eexists. split; [exact Hc|]. split; [apply lane_scores_length|].
    intros w dsc Hw.
    apply (lane_scores_of_table d dsc lane W S (fun e => oneshot A (map (proj e) (firstn p (all_rows runs)))) w Hw).
  Qed.
End TableRun.

(* ================================================================================ 2. per entry: one-shot = SPEC *)
(* ---- CPA: Pearson, for EVERY list of observations (the empty one included: both sides undefined) *)
Lemma cpa_entry_spec (l : list Cpa.obs) : oneshot cpa_inst l = Cpa.pearson l.
Proof.
  destruct l as [|o l]; [vm_compute; reflexivity|].
  exact (Proofs.Cpa.cpa_is_pearson_thm (o :: l) ltac:(discriminate)).
Qed.

(* ---- alternative CPA: n times Pearson's triple component-wise (n = number of traces): the same correlation *)
Lemma cpa_alt_entry_spec (l : list Cpa.obs) : oneshot cpa_alt_inst l = option_map (Cpa.scale3 (qlen l)) (Cpa.pearson l).
Proof.
  destruct l as [|o l]; [vm_compute; reflexivity|].
  exact (Proofs.Cpa.cpa_alt_scaled (o :: l) ltac:(discriminate)).
Qed.

Lemma cpa_alt_same_r (l : list Cpa.obs) (t : Cpa.triple) :
  Cpa.pearson l = Some t -> Cpa.same_r t (Cpa.scale3 (qlen l) t).
Proof.
  intros H. destruct l as [|o l]; [vm_compute in H; discriminate|].
  destruct (Proofs.Cpa.cpa_alt_is_pearson_thm (o :: l) ltac:(discriminate)) as [_ H2].
  destruct (H2 t H) as (t' & _ & -> & Hs & _). exact Hs.
Qed.

(* ---- DPA: difference of the class means *)
Lemma dpa_entry_spec (l : list Cpa.dobs) : oneshot dpa_inst l = Cpa.dpa_spec l.
Proof. exact (Proofs.Cpa.dpa_is_mean_difference_thm l). Qed.

(* ---- ANOVA / NICV / SNR: the definitions over the non-empty value classes *)
Lemma part_entry_spec (m : Partitioned.metric) (parts : list Z) (l : list Partitioned.row) :
  NoDup parts -> Proofs.Partitioned.all_in_range parts ->
  oneshot (part_inst m parts) l = Partitioned.spec_metric m (Partitioned.groups parts l).
Proof.
  intros Hnd Hr. pose proof (Proofs.Partitioned.run_entry_is_spec m parts [l] Hnd Hr) as E.
  cbn [concat] in E. rewrite app_nil_r in E. exact E.
Qed.

(* ---- MIA: mutual information of the joint histogram (bin of the sample by numpy.histogram's rule, class of the value) *)
(* the SPEC table: cell (b, k) = number of traces whose sample lies in bin b and whose value is class k
   (Mia.hist_spec: no estimator) *)
Definition mia_count_table (edges : list Qc) (parts : list Z) (l : list Mia.row) : Mia.st :=
  map (fun b => map (fun k => Mia.hist_spec edges parts l b k) (seq 0 (length parts))) (seq 0 (Mia.nbins edges)).

(* H_phi(B) - H_phi(B|V) on that table, the entropies taken with the function the code really applies ([q_phiz phi]:
   phi after the replacement of zeros by ones, i.e. the convention 0 ln 0 = 0); undefined when no trace was counted *)
Definition mutual_information (edges : list Qc) (parts : list Z) (phi : Qc -> Qc) (l : list Mia.row) : option Qc :=
  let t := mia_count_table edges parts l in
  let bs := seq 0 (Mia.nbins edges) in
  let vs := seq 0 (length parts) in
  if Mia.q_is0 (Mia.q_total t bs vs) then None
  else Some (Mia.q_HB (Mia.q_phiz phi) t bs vs - Mia.q_HBV (Mia.q_phiz phi) t bs vs)%Qc.

Lemma get_count_table (edges : list Qc) (parts : list Z) (l : list Mia.row) (b k : nat) :
  b < Mia.nbins edges -> k < length parts ->
  Mia.get (mia_count_table edges parts l) b k = Mia.hist_spec edges parts l b k.
Proof.
  intros Hb Hk. unfold Mia.get, mia_count_table.
  rewrite (nth_map_seq (fun b0 => map (fun k0 => Mia.hist_spec edges parts l b0 k0) (seq 0 (length parts))) [] _ b Hb).
  apply (nth_map_seq (fun k0 => Mia.hist_spec edges parts l b k0) 0%Z _ k Hk).
Qed.

(* the formula reads the table only at the cells it sums over *)
Section MiaExt.
  Variables t t' : Mia.st.
  Variables bs vs : list nat.
  Hypothesis E : forall b v, In b bs -> In v vs -> Mia.get t b v = Mia.get t' b v.

  Lemma q_cnt_ext b v : In b bs -> In v vs -> Mia.q_cnt t b v = Mia.q_cnt t' b v.
  Proof. intros Hb Hv. unfold Mia.q_cnt, Mia.cnt. rewrite (E b v Hb Hv). reflexivity. Qed.

  Lemma q_cb_ext b : In b bs -> Mia.q_cb t vs b = Mia.q_cb t' vs b.
  Proof.
    intros Hb. unfold Mia.q_cb, Mia.cb. f_equal. apply map_ext_in. intros v Hv. exact (q_cnt_ext b v Hb Hv).
  Qed.

  Lemma q_cv_ext v : In v vs -> Mia.q_cv t bs v = Mia.q_cv t' bs v.
  Proof.
    intros Hv. unfold Mia.q_cv, Mia.cv. f_equal. apply map_ext_in. intros b Hb. exact (q_cnt_ext b v Hb Hv).
  Qed.

  Lemma q_total_ext : Mia.q_total t bs vs = Mia.q_total t' bs vs.
  Proof. unfold Mia.q_total, Mia.total. f_equal. apply map_ext_in. intros b Hb. exact (q_cb_ext b Hb). Qed.

  Lemma q_mi_code_ext phi : Mia.q_mi_code phi t bs vs = Mia.q_mi_code phi t' bs vs.
  Proof.
    unfold Mia.q_mi_code, Mia.mi_code. cbv zeta.
    pose proof q_total_ext as Et. unfold Mia.q_total in Et. rewrite Et.
    f_equal. apply map_ext_in. intros v Hv.
    pose proof (q_cv_ext v Hv) as Ev. unfold Mia.q_cv in Ev. rewrite Ev.
    f_equal. f_equal. apply map_ext_in. intros b Hb.
    pose proof (q_cnt_ext b v Hb Hv) as Ec. unfold Mia.q_cnt in Ec. rewrite Ec.
    pose proof (q_cb_ext b Hb) as Eb. unfold Mia.q_cb in Eb. rewrite Eb. reflexivity.
  Qed.
End MiaExt.

Lemma mia_entry_spec (edges : list Qc) (est : Qc -> nat) (parts : list Z) (phi : Qc -> Qc) (l : list Mia.row) :
  2 <= length edges -> Mia.increasing edges ->
  oneshot (mia_inst edges est parts phi) l = mutual_information edges parts phi l.
Proof.
  intros Hlen Hinc.
  change (oneshot (mia_inst edges est parts phi) l)
    with (Mia.comp phi (Mia.nbins edges) (length parts) (Mia.hist_bsum edges est parts l)).
  unfold Mia.comp, mutual_information. cbv zeta.
  set (t := Mia.hist_bsum edges est parts l). set (t' := mia_count_table edges parts l).
  set (bs := seq 0 (Mia.nbins edges)). set (vs := seq 0 (length parts)).
  assert (E : forall b v, In b bs -> In v vs -> Mia.get t b v = Mia.get t' b v).
  { intros b v Hb Hv. apply in_seq in Hb. apply in_seq in Hv. unfold t, t'.
    rewrite (Proofs.Mia.hist_correct_thm edges est parts Hlen Hinc), get_count_table by lia. reflexivity. }
  rewrite (q_total_ext t t' bs vs E), (q_mi_code_ext t t' bs vs E phi).
  destruct (Mia.q_is0 (Mia.q_total t' bs vs)) eqn:Z0; [reflexivity|]. f_equal.
  apply (Proofs.Mia.mi_is_HB_minus_HBV_gen phi t' bs vs). apply Proofs.Mia.Qceqb_false. exact Z0.
Qed.

(* [mutual_information] spelled out: the cells are counts of traces; the result is H(B) - H(B|V) of the table *)
Lemma hist_spec_explicit (edges : list Qc) (parts : list Z) (l : list Mia.row) (b k : nat) :
  Mia.hist_spec edges parts l b k
  = Z.of_nat (length (filter (fun r => match Mia.bin_spec edges (fst r), Mia.class_of parts (snd r) with
                                       | Some b', Some k' => Nat.eqb b' b && Nat.eqb k' k
                                       | _, _ => false
                                       end) l)).
Proof.
  unfold Mia.hist_spec, Mia.count_tags. f_equal. induction l as [|r l IH]; [reflexivity|].
  cbn [map filter]. unfold Mia.tag_hits at 1, Mia.row_tag at 1.
  destruct (Mia.bin_spec edges (fst r)) as [b'|]; [destruct (Mia.class_of parts (snd r)) as [k'|]|]; try exact IH.
  destruct (Nat.eqb b' b && Nat.eqb k' k); cbn [length]; rewrite IH; reflexivity.
Qed.

Theorem mutual_information_unfolded_thm (edges : list Qc) (parts : list Z) (phi : Qc -> Qc) (l : list Mia.row) :
  (forall b k, b < Mia.nbins edges -> k < length parts ->
     Mia.get (mia_count_table edges parts l) b k
     = Z.of_nat (length (filter (fun r => match Mia.bin_spec edges (fst r), Mia.class_of parts (snd r) with
                                          | Some b', Some k' => Nat.eqb b' b && Nat.eqb k' k
                                          | _, _ => false
                                          end) l)))
  /\ mutual_information edges parts phi l
     = let t := mia_count_table edges parts l in
       let bs := seq 0 (Mia.nbins edges) in
       let vs := seq 0 (length parts) in
       if Mia.q_is0 (Mia.q_total t bs vs) then None
       else Some (Mia.q_HB (Mia.q_phiz phi) t bs vs - Mia.q_HBV (Mia.q_phiz phi) t bs vs)%Qc.
Proof.
  split; [|reflexivity]. intros b k Hb Hk. rewrite get_count_table by assumption. apply hist_spec_explicit.
Qed.

(* ================================================================================ 3. the concrete attacks *)
(* the attack objects: the run model with the (W words x S samples) table of each distinguisher (Model/Batching.v) *)
Definition cpa_attack (W S : nat) {M V Sc : Type} := @table_run cpa_inst (list Qc) (map cpa_proj (entries W S)) M V Sc.
Definition cpa_alt_attack (W S : nat) {M V Sc : Type} := @table_run cpa_alt_inst (list Qc) (map cpa_proj (entries W S)) M V Sc.
Definition dpa_attack (W S : nat) {M V Sc : Type} := @table_run dpa_inst (list Z) (map dpa_proj (entries W S)) M V Sc.
Definition part_attack (m : Partitioned.metric) (parts : list Z) (W S : nat) {M V Sc : Type} :=
  @table_run (part_inst m parts) (list Z) (map part_proj (entries W S)) M V Sc.
Definition mia_attack (edges : list Qc) (est : Qc -> nat) (parts : list Z) (phi : Qc -> Qc) (W S : nat) {M V Sc : Type} :=
  @table_run (mia_inst edges est parts phi) (list Z) (map mia_proj (entries W S)) M V Sc.

(* the observations of entry (w, s) are the two columns, zipped *)
Lemma cpa_obs_cols (w s : nat) (rows : list qrow) :
  map (cpa_proj (w, s)) rows = combine (sample_col s rows) (word_col w rows).
Proof. symmetry. exact (combine_map_same _ _ rows). Qed.
Lemma dpa_obs_cols (w s : nat) (rows : list zrow) :
  map (dpa_proj (w, s)) rows = combine (sample_col s rows) (bit_col w rows).
Proof. symmetry. exact (combine_map_same _ _ rows). Qed.
Lemma part_obs_cols (w s : nat) (rows : list zrow) :
  map (part_proj (w, s)) rows = combine (class_col w rows) (sample_col s rows).
Proof. symmetry. exact (combine_map_same _ _ rows). Qed.
Lemma mia_obs_cols (w s : nat) (rows : list zrow) :
  map (mia_proj (w, s)) rows = combine (sample_col s rows) (class_col w rows).
Proof. symmetry. exact (combine_map_same _ _ rows). Qed.

Section Attacks.
  Variables M V Sc : Type.
  Variable sf : M -> V.
  Local Notation ok := (fun c : container (list Qc) M => c_rows c <> [] /\ 1 <= c_bs c).
  Local Notation okstep cs := (match cs with Some k => 1 <= k | None => True end).

  (* ---------------------------------------------------------------- results *)
  Theorem cpa_results_thm (model : V -> list Qc) (disc : list (option Cpa.triple) -> Sc) (cs : option nat) (W S : nat)
                          (runs : list (container (list Qc) M)) :
    okstep cs -> Forall ok runs -> runs <> [] ->
    let rows := Analysis.all_rows (list Qc) M V (list Qc) sf model runs in
    rect W S rows ->
    let st := cpa_attack W S sf model disc cs runs in
    exists res,
      results st = Some res /\ length res = W * S
      /\ (forall w s, w < W -> s < S ->
            nth (w * S + s) res None = Cpa.pearson (combine (sample_col s rows) (word_col w rows)))
      /\ scores st = Some (disc res)
      /\ processed st = length rows.
  Proof.
    intros Hs Hok Hne rows _. subst rows. cbv zeta.
    destruct (table_run_results cpa_inst cpa_lawful (list Qc) cpa_proj W S M V Sc sf model disc cs runs Hs Hok Hne)
      as (res & R & L & En & Sco & P).
    exists res. split; [exact R|]. split; [exact L|].
    split; [|split; [exact Sco|exact P]].
    intros w s Hw Hs'. rewrite (En w s None Hw Hs'), cpa_entry_spec, cpa_obs_cols. reflexivity.
  Qed.

  Theorem cpa_alt_results_thm (model : V -> list Qc) (disc : list (option Cpa.triple) -> Sc) (cs : option nat) (W S : nat)
                              (runs : list (container (list Qc) M)) :
    okstep cs -> Forall ok runs -> runs <> [] ->
    let rows := Analysis.all_rows (list Qc) M V (list Qc) sf model runs in
    rect W S rows ->
    let st := cpa_alt_attack W S sf model disc cs runs in
    exists res,
      results st = Some res /\ length res = W * S
      /\ (forall w s, w < W -> s < S ->
            let l := combine (sample_col s rows) (word_col w rows) in
            nth (w * S + s) res None = option_map (Cpa.scale3 (qlen rows)) (Cpa.pearson l)
            /\ forall t, Cpa.pearson l = Some t -> Cpa.same_r t (Cpa.scale3 (qlen rows) t))
      /\ scores st = Some (disc res)
      /\ processed st = length rows.
  Proof.
    intros Hs Hok Hne rows _. subst rows. cbv zeta.
    destruct (table_run_results cpa_alt_inst cpa_alt_lawful (list Qc) cpa_proj W S M V Sc sf model disc cs runs Hs Hok Hne)
      as (res & R & L & En & Sco & P).
    exists res. split; [exact R|]. split; [exact L|].
    split; [|split; [exact Sco|exact P]].
    intros w s Hw Hs'.
    rewrite (En w s None Hw Hs'), cpa_alt_entry_spec, qlen_map. rewrite <- cpa_obs_cols. split; [reflexivity|].
    intros t Ht. rewrite <- (qlen_map (cpa_proj (w, s))). apply cpa_alt_same_r. exact Ht.
  Qed.

  Theorem dpa_results_thm (model : V -> list Z) (disc : list (option Qc) -> Sc) (cs : option nat) (W S : nat)
                          (runs : list (container (list Qc) M)) :
    okstep cs -> Forall ok runs -> runs <> [] ->
    let rows := Analysis.all_rows (list Qc) M V (list Z) sf model runs in
    rect W S rows ->
    let st := dpa_attack W S sf model disc cs runs in
    exists res,
      results st = Some res /\ length res = W * S
      /\ (forall w s, w < W -> s < S ->
            nth (w * S + s) res None = Cpa.dpa_spec (combine (sample_col s rows) (bit_col w rows)))
      /\ scores st = Some (disc res)
      /\ processed st = length rows.
  Proof.
    intros Hs Hok Hne rows _. subst rows. cbv zeta.
    destruct (table_run_results dpa_inst dpa_lawful (list Z) dpa_proj W S M V Sc sf model disc cs runs Hs Hok Hne)
      as (res & R & L & En & Sco & P).
    exists res. split; [exact R|]. split; [exact L|].
    split; [|split; [exact Sco|exact P]].
    intros w s Hw Hs'. rewrite (En w s None Hw Hs'), dpa_entry_spec, dpa_obs_cols. reflexivity.
  Qed.

  Theorem part_results_thm (m : Partitioned.metric) (parts : list Z) (model : V -> list Z) (disc : list (option Qc) -> Sc)
                           (cs : option nat) (W S : nat) (runs : list (container (list Qc) M)) :
    NoDup parts -> Proofs.Partitioned.all_in_range parts ->
    okstep cs -> Forall ok runs -> runs <> [] ->
    let rows := Analysis.all_rows (list Qc) M V (list Z) sf model runs in
    rect W S rows ->
    let st := part_attack m parts W S sf model disc cs runs in
    exists res,
      results st = Some res /\ length res = W * S
      /\ (forall w s, w < W -> s < S ->
            nth (w * S + s) res None
            = Partitioned.spec_metric m (Partitioned.groups parts (combine (class_col w rows) (sample_col s rows))))
      /\ scores st = Some (disc res)
      /\ processed st = length rows.
  Proof.
    intros Hnd Hr Hs Hok Hne rows _. subst rows. cbv zeta.
    destruct (table_run_results (part_inst m parts) (part_lawful m parts) (list Z) part_proj W S M V Sc sf model disc cs runs
                Hs Hok Hne) as (res & R & L & En & Sco & P).
    exists res. split; [exact R|]. split; [exact L|].
    split; [|split; [exact Sco|exact P]].
    intros w s Hw Hs'. rewrite (En w s None Hw Hs'), (part_entry_spec m parts _ Hnd Hr), part_obs_cols. reflexivity.
  Qed.

  Theorem mia_results_thm (edges : list Qc) (est : Qc -> nat) (parts : list Z) (phi : Qc -> Qc)
                          (model : V -> list Z) (disc : list (option Qc) -> Sc)
                          (cs : option nat) (W S : nat) (runs : list (container (list Qc) M)) :
    2 <= length edges -> Mia.increasing edges ->
    okstep cs -> Forall ok runs -> runs <> [] ->
    let rows := Analysis.all_rows (list Qc) M V (list Z) sf model runs in
    rect W S rows ->
    let st := mia_attack edges est parts phi W S sf model disc cs runs in
    exists res,
      results st = Some res /\ length res = W * S
      /\ (forall w s, w < W -> s < S ->
            nth (w * S + s) res None
            = mutual_information edges parts phi (combine (sample_col s rows) (class_col w rows)))
      /\ scores st = Some (disc res)
      /\ processed st = length rows.
  Proof.
    intros Hlen Hinc Hs Hok Hne rows _. subst rows. cbv zeta.
    destruct (table_run_results (mia_inst edges est parts phi) (mia_lawful edges est parts phi) (list Z) mia_proj W S M V Sc
                sf model disc cs runs Hs Hok Hne) as (res & R & L & En & Sco & P).
    exists res. split; [exact R|]. split; [exact L|].
    split; [|split; [exact Sco|exact P]].
    intros w s Hw Hs'.
    rewrite (En w s None Hw Hs'), (mia_entry_spec edges est parts phi _ Hlen Hinc), mia_obs_cols. reflexivity.
  Qed.
End Attacks.

(* ---------------------------------------------------------------- scores and convergence columns *)
Section Scores.
  Variables M V Sc : Type.
  Variable sf : M -> V.
  Local Notation ok := (fun c : container (list Qc) M => c_rows c <> [] /\ 1 <= c_bs c).
  Local Notation okstep cs := (match cs with Some k => 1 <= k | None => True end).

  (* ---- CPA: score w = the lane discriminant of the Pearson coefficients of word w against every sample *)
  Theorem cpa_scores_thm (model : V -> list Qc) (lane : list (option Cpa.triple) -> Sc) (cs : option nat) (W S : nat)
                         (runs : list (container (list Qc) M)) :
    okstep cs -> Forall ok runs -> runs <> [] ->
    let rows := Analysis.all_rows (list Qc) M V (list Qc) sf model runs in
    rect W S rows ->
    let st := cpa_attack W S sf model (lane_scores None lane W S) cs runs in
    exists sc,
      scores st = Some sc /\ length sc = W
      /\ forall w dsc, w < W ->
           nth w sc dsc = lane (map (fun s => Cpa.pearson (combine (sample_col s rows) (word_col w rows))) (seq 0 S)).
  Proof.
    intros Hs Hok Hne rows _. subst rows. cbv zeta.
    destruct (table_run_lane_scores cpa_inst cpa_lawful (list Qc) cpa_proj W S M V Sc sf model None lane cs runs Hs Hok Hne)
      as (sc & Sco & L & En).
    exists sc. split; [exact Sco|]. split; [exact L|].
    intros w dsc Hw. rewrite (En w dsc Hw). f_equal. apply map_ext. intros s.
    rewrite cpa_entry_spec, cpa_obs_cols. reflexivity.
  Qed.

  Theorem cpa_convergence_thm (model : V -> list Qc) (lane : list (option Cpa.triple) -> Sc) (k : nat) (W S : nat)
                              (runs : list (container (list Qc) M)) (j p : nat) (kd : Analysis.ckind) :
    1 <= k -> Forall ok runs ->
    let rows := Analysis.all_rows (list Qc) M V (list Qc) sf model runs in
    rect W S rows ->
    let st := cpa_attack W S sf model (lane_scores None lane W S) (Some k) runs in
    nth_error (cols st) j = Some (p, kd) ->
    p <= length rows
    /\ exists col,
         nth_error (conv st) j = Some col /\ length col = W
         /\ forall w dsc, w < W ->
              nth w col dsc
              = lane (map (fun s => Cpa.pearson (combine (sample_col s (firstn p rows)) (word_col w (firstn p rows)))) (seq 0 S)).
  Proof.
    intros Hk Hok rows _. subst rows. cbv zeta. intros Hj.
    destruct (table_run_convergence cpa_inst cpa_lawful (list Qc) cpa_proj W S M V Sc sf model None lane k runs j p kd Hk Hok Hj)
      as (Hp & col & Hc & L & En).
    split; [exact Hp|]. exists col. split; [exact Hc|]. split; [exact L|].
    intros w dsc Hw. rewrite (En w dsc Hw). f_equal. apply map_ext. intros s.
    rewrite cpa_entry_spec, cpa_obs_cols. reflexivity.
  Qed.

  (* ---- alternative CPA: the same lanes, every defined triple scaled by the number of traces *)
  Theorem cpa_alt_scores_thm (model : V -> list Qc) (lane : list (option Cpa.triple) -> Sc) (cs : option nat) (W S : nat)
                             (runs : list (container (list Qc) M)) :
    okstep cs -> Forall ok runs -> runs <> [] ->
    let rows := Analysis.all_rows (list Qc) M V (list Qc) sf model runs in
    rect W S rows ->
    let st := cpa_alt_attack W S sf model (lane_scores None lane W S) cs runs in
    exists sc,
      scores st = Some sc /\ length sc = W
      /\ forall w dsc, w < W ->
           nth w sc dsc
           = lane (map (fun s => option_map (Cpa.scale3 (qlen rows))
                                            (Cpa.pearson (combine (sample_col s rows) (word_col w rows)))) (seq 0 S)).
  Proof.
    intros Hs Hok Hne rows _. subst rows. cbv zeta.
    destruct (table_run_lane_scores cpa_alt_inst cpa_alt_lawful (list Qc) cpa_proj W S M V Sc sf model None lane cs runs
                Hs Hok Hne) as (sc & Sco & L & En).
    exists sc. split; [exact Sco|]. split; [exact L|].
    intros w dsc Hw. rewrite (En w dsc Hw). f_equal. apply map_ext. intros s.
    rewrite cpa_alt_entry_spec, qlen_map, cpa_obs_cols. reflexivity.
  Qed.

  (* ---- DPA *)
  Theorem dpa_scores_thm (model : V -> list Z) (lane : list (option Qc) -> Sc) (cs : option nat) (W S : nat)
                         (runs : list (container (list Qc) M)) :
    okstep cs -> Forall ok runs -> runs <> [] ->
    let rows := Analysis.all_rows (list Qc) M V (list Z) sf model runs in
    rect W S rows ->
    let st := dpa_attack W S sf model (lane_scores None lane W S) cs runs in
    exists sc,
      scores st = Some sc /\ length sc = W
      /\ forall w dsc, w < W ->
           nth w sc dsc = lane (map (fun s => Cpa.dpa_spec (combine (sample_col s rows) (bit_col w rows))) (seq 0 S)).
  Proof.
    intros Hs Hok Hne rows _. subst rows. cbv zeta.
    destruct (table_run_lane_scores dpa_inst dpa_lawful (list Z) dpa_proj W S M V Sc sf model None lane cs runs Hs Hok Hne)
      as (sc & Sco & L & En).
    exists sc. split; [exact Sco|]. split; [exact L|].
    intros w dsc Hw. rewrite (En w dsc Hw). f_equal. apply map_ext. intros s.
    rewrite dpa_entry_spec, dpa_obs_cols. reflexivity.
  Qed.

  Theorem dpa_convergence_thm (model : V -> list Z) (lane : list (option Qc) -> Sc) (k : nat) (W S : nat)
                              (runs : list (container (list Qc) M)) (j p : nat) (kd : Analysis.ckind) :
    1 <= k -> Forall ok runs ->
    let rows := Analysis.all_rows (list Qc) M V (list Z) sf model runs in
    rect W S rows ->
    let st := dpa_attack W S sf model (lane_scores None lane W S) (Some k) runs in
    nth_error (cols st) j = Some (p, kd) ->
    p <= length rows
    /\ exists col,
         nth_error (conv st) j = Some col /\ length col = W
         /\ forall w dsc, w < W ->
              nth w col dsc
              = lane (map (fun s => Cpa.dpa_spec (combine (sample_col s (firstn p rows)) (bit_col w (firstn p rows)))) (seq 0 S)).
  Proof.
    intros Hk Hok rows _. subst rows. cbv zeta. intros Hj.
    destruct (table_run_convergence dpa_inst dpa_lawful (list Z) dpa_proj W S M V Sc sf model None lane k runs j p kd Hk Hok Hj)
      as (Hp & col & Hc & L & En).
    split; [exact Hp|]. exists col. split; [exact Hc|]. split; [exact L|].
    intros w dsc Hw. rewrite (En w dsc Hw). f_equal. apply map_ext. intros s.
    rewrite dpa_entry_spec, dpa_obs_cols. reflexivity.
  Qed.

  (* ---- ANOVA / NICV / SNR *)
  Theorem part_scores_thm (m : Partitioned.metric) (parts : list Z) (model : V -> list Z) (lane : list (option Qc) -> Sc)
                          (cs : option nat) (W S : nat) (runs : list (container (list Qc) M)) :
    NoDup parts -> Proofs.Partitioned.all_in_range parts ->
    okstep cs -> Forall ok runs -> runs <> [] ->
    let rows := Analysis.all_rows (list Qc) M V (list Z) sf model runs in
    rect W S rows ->
    let st := part_attack m parts W S sf model (lane_scores None lane W S) cs runs in
    exists sc,
      scores st = Some sc /\ length sc = W
      /\ forall w dsc, w < W ->
           nth w sc dsc
           = lane (map (fun s => Partitioned.spec_metric m
                                   (Partitioned.groups parts (combine (class_col w rows) (sample_col s rows)))) (seq 0 S)).
  Proof.
    intros Hnd Hr Hs Hok Hne rows _. subst rows. cbv zeta.
    destruct (table_run_lane_scores (part_inst m parts) (part_lawful m parts) (list Z) part_proj W S M V Sc sf model None lane
                cs runs Hs Hok Hne) as (sc & Sco & L & En).
    exists sc. split; [exact Sco|]. split; [exact L|].
    intros w dsc Hw. rewrite (En w dsc Hw). f_equal. apply map_ext. intros s.
    rewrite (part_entry_spec m parts _ Hnd Hr), part_obs_cols. reflexivity.
  Qed.

  Theorem part_convergence_thm (m : Partitioned.metric) (parts : list Z) (model : V -> list Z) (lane : list (option Qc) -> Sc)
                               (k : nat) (W S : nat) (runs : list (container (list Qc) M)) (j p : nat) (kd : Analysis.ckind) :
    NoDup parts -> Proofs.Partitioned.all_in_range parts ->
    1 <= k -> Forall ok runs ->
    let rows := Analysis.all_rows (list Qc) M V (list Z) sf model runs in
    rect W S rows ->
    let st := part_attack m parts W S sf model (lane_scores None lane W S) (Some k) runs in
    nth_error (cols st) j = Some (p, kd) ->
    p <= length rows
    /\ exists col,
         nth_error (conv st) j = Some col /\ length col = W
         /\ forall w dsc, w < W ->
              nth w col dsc
              = lane (map (fun s => Partitioned.spec_metric m
                                      (Partitioned.groups parts (combine (class_col w (firstn p rows)) (sample_col s (firstn p rows)))))
                          (seq 0 S)).
  Proof.
    intros Hnd Hr Hk Hok rows _. subst rows. cbv zeta. intros Hj.
    destruct (table_run_convergence (part_inst m parts) (part_lawful m parts) (list Z) part_proj W S M V Sc sf model None lane
                k runs j p kd Hk Hok Hj) as (Hp & col & Hc & L & En).
    split; [exact Hp|]. exists col. split; [exact Hc|]. split; [exact L|].
    intros w dsc Hw. rewrite (En w dsc Hw). f_equal. apply map_ext. intros s.
    rewrite (part_entry_spec m parts _ Hnd Hr), part_obs_cols. reflexivity.
  Qed.

  (* ---- MIA *)
  Theorem mia_scores_thm (edges : list Qc) (est : Qc -> nat) (parts : list Z) (phi : Qc -> Qc)
                         (model : V -> list Z) (lane : list (option Qc) -> Sc)
                         (cs : option nat) (W S : nat) (runs : list (container (list Qc) M)) :
    2 <= length edges -> Mia.increasing edges ->
    okstep cs -> Forall ok runs -> runs <> [] ->
    let rows := Analysis.all_rows (list Qc) M V (list Z) sf model runs in
    rect W S rows ->
    let st := mia_attack edges est parts phi W S sf model (lane_scores None lane W S) cs runs in
    exists sc,
      scores st = Some sc /\ length sc = W
      /\ forall w dsc, w < W ->
           nth w sc dsc
           = lane (map (fun s => mutual_information edges parts phi (combine (sample_col s rows) (class_col w rows))) (seq 0 S)).
  Proof.
    intros Hlen Hinc Hs Hok Hne rows _. subst rows. cbv zeta.
    destruct (table_run_lane_scores (mia_inst edges est parts phi) (mia_lawful edges est parts phi) (list Z) mia_proj W S M V Sc
                sf model None lane cs runs Hs Hok Hne) as (sc & Sco & L & En).
    exists sc. split; [exact Sco|]. split; [exact L|].
    intros w dsc Hw. rewrite (En w dsc Hw). f_equal. apply map_ext. intros s.
    rewrite (mia_entry_spec edges est parts phi _ Hlen Hinc), mia_obs_cols. reflexivity.
  Qed.

  Theorem mia_convergence_thm (edges : list Qc) (est : Qc -> nat) (parts : list Z) (phi : Qc -> Qc)
                              (model : V -> list Z) (lane : list (option Qc) -> Sc)
                              (k : nat) (W S : nat) (runs : list (container (list Qc) M)) (j p : nat) (kd : Analysis.ckind) :
    2 <= length edges -> Mia.increasing edges ->
    1 <= k -> Forall ok runs ->
    let rows := Analysis.all_rows (list Qc) M V (list Z) sf model runs in
    rect W S rows ->
    let st := mia_attack edges est parts phi W S sf model (lane_scores None lane W S) (Some k) runs in
    nth_error (cols st) j = Some (p, kd) ->
    p <= length rows
    /\ exists col,
         nth_error (conv st) j = Some col /\ length col = W
         /\ forall w dsc, w < W ->
              nth w col dsc
              = lane (map (fun s => mutual_information edges parts phi
                                      (combine (sample_col s (firstn p rows)) (class_col w (firstn p rows)))) (seq 0 S)).
  Proof.
    intros Hlen Hinc Hk Hok rows _. subst rows. cbv zeta. intros Hj.
    destruct (table_run_convergence (mia_inst edges est parts phi) (mia_lawful edges est parts phi) (list Z) mia_proj W S M V Sc
                sf model None lane k runs j p kd Hk Hok Hj) as (Hp & col & Hc & L & En).
    split; [exact Hp|]. exists col. split; [exact Hc|]. split; [exact L|].
    intros w dsc Hw. rewrite (En w dsc Hw). f_equal. apply map_ext. intros s.
    rewrite (mia_entry_spec edges est parts phi _ Hlen Hinc), mia_obs_cols. reflexivity.
  Qed.
End Scores.

(* ---- CPA with the default discriminant maxabs: the score of word w is the LARGEST squared correlation over the samples
   (|x |x|| = x^2: Qabs' (sgn_sq (num, dx, dy)) = num^2 / (dx dy) = r^2), attained at some sample; undefined (NaN) exactly when
   every sample gives an undefined coefficient *)
Theorem cpa_maxabs_scores_thm (M V : Type) (sf : M -> V) (model : V -> list Qc) (cs : option nat) (W S : nat)
                              (runs : list (container (list Qc) M)) :
  match cs with Some k => 1 <= k | None => True end ->
  Forall (fun c => c_rows c <> [] /\ 1 <= c_bs c) runs -> runs <> [] ->
  let rows := Analysis.all_rows (list Qc) M V (list Qc) sf model runs in
  rect W S rows ->
  let st := cpa_attack W S sf model (lane_scores None (corr_lane Models.DMaxabs) W S) cs runs in
  let r w s := Cpa.pearson (combine (sample_col s rows) (word_col w rows)) in
  exists sc,
    scores st = Some sc /\ length sc = W
    /\ forall w, w < W ->
         match nth w sc None with
         | Some m => (exists s t, s < S /\ r w s = Some t /\ Qabs' (this (Attack.sgn_sq t)) = m)
                     /\ (forall s t, s < S -> r w s = Some t -> (Qabs' (this (Attack.sgn_sq t)) <= m)%Q)
         | None => forall s, s < S -> r w s = None
         end.
Proof.
  intros Hs Hok Hne rows Hrect. cbv zeta.
  destruct (cpa_scores_thm M V Models.oq sf model (corr_lane Models.DMaxabs) cs W S runs Hs Hok Hne Hrect) as (sc & Sco & L & En).
  exists sc. split; [exact Sco|]. split; [exact L|].
  intros w Hw. rewrite (En w None Hw). unfold corr_lane. rewrite map_map.
  pose proof (maxabs_lane_spec (fun s => corr_value (Cpa.pearson (combine (sample_col s rows) (word_col w rows)))) (seq 0 S)) as H.
  destruct (Models.disc_lane Models.DMaxabs _) as [m|].
  - destruct H as [(s0 & v & Hin & Hv & Hm) Hub]. apply in_seq in Hin. split.
    + destruct (Cpa.pearson (combine (sample_col s0 rows) (word_col w rows))) as [t|] eqn:Et; cbn in Hv; [|discriminate].
      injection Hv as Hv. exists s0, t. split; [lia|]. split; [exact Et|]. rewrite Hv. exact Hm.
    + intros s1 t Hs' Et. apply (Hub s1); [apply in_seq; lia|]. rewrite Et. reflexivity.
  - intros s0 Hs'. specialize (H s0 ltac:(apply in_seq; lia)).
    destruct (Cpa.pearson (combine (sample_col s0 rows) (word_col w rows))); [discriminate|reflexivity].
Qed.

(* ================================================================================ 4. t-test *)
(* TTestAnalysis.run(TTestContainer(ths_1, ths_2, frame, preprocesses)): two accumulator threads, each iterating over the
   batches of its own trace set; a batch is the sub-set restricted to the frame and passed through the chain
   (Model/Container.v wrapper_samples); the schedule is an interleaving of WHOLE-TRACE batches.  The analysis treats every
   sample on its own (Props/C09.v kernel_writes_disjoint_cells): at sample j the run is Model/Ttest.tt_run on the schedule
   read at sample j. *)
Lemma merge_map {A B : Type} (f : A -> B) (l1 l2 l : list A) : merge l1 l2 l -> merge (map f l1) (map f l2) (map f l).
Proof. induction 1; cbn; constructor; assumption. Qed.

Lemma concat_map_by {A B : Type} (g : A -> B) (F : list A -> list B) (bts : list (list A)) :
  (forall l, F l = map g l) -> concat (map F bts) = map g (concat bts).
Proof.
  intros HF. induction bts as [|b bts IH]; cbn; [reflexivity|]. rewrite IH, HF, map_app. reflexivity.
Qed.

Section TtestEndToEnd.
  Variable M : Type.
  Local Notation cont := (container (list Qc) M).

  (* the processed traces of a set, and what its accumulator thread is fed batch after batch *)
  Definition wrapped (c : cont) : list (list Qc) := wrapper_samples (c_fr c) (c_chain c) (c_rows c).
  Definition thread_batches (c : cont) : list (list (list Qc)) :=
    map (wrapper_samples (c_fr c) (c_chain c)) (batches_of (c_rows c) (c_bs c)).

  (* one run() call: the two sets, the order in which the batches of the two threads were accumulated, the stop delay *)
  Record tt_call := { tc1 : cont; tc2 : cont; tc_sched : Ttest.sched (list Qc); tc_delay : nat }.
  Definition call_wf (c : tt_call) : Prop :=
    merge (Ttest.tag Ttest.T1 (map Ttest.Batch (thread_batches (tc1 c))))
          (Ttest.tag Ttest.T2 (map Ttest.Batch (thread_batches (tc2 c)))) (tc_sched c).

  Definition at_sample (j : nat) (r : list Qc) : Qc := nth j r 0%Qc.
  Definition step_at (j : nat) (s : Ttest.tstep (list Qc)) : Ttest.tstep Qc :=
    match s with Ttest.Batch b => Ttest.Batch (map (at_sample j) b) | Ttest.Fail => Ttest.Fail end.
  Definition sched_at (j : nat) (l : Ttest.sched (list Qc)) : Ttest.sched Qc := map (fun e => (fst e, step_at j (snd e))) l.

  (* all the processed traces of set 1 / set 2 over the successive calls *)
  Definition set1 (calls : list tt_call) : list (list Qc) := concat (map (fun c => wrapped (tc1 c)) calls).
  Definition set2 (calls : list tt_call) : list (list Qc) := concat (map (fun c => wrapped (tc2 c)) calls).

  Lemma thread_batches_concat (c : cont) : 1 <= c_bs c -> concat (thread_batches c) = wrapped c.
  Proof.
    intros Hbs. unfold thread_batches, wrapped.
    rewrite (concat_map_by (fun r => chain_row (c_chain c) (c_fr c (fst r))) (wrapper_samples (c_fr c) (c_chain c)))
      by (intros l; reflexivity).
    rewrite slices_concat by exact Hbs. reflexivity.
  Qed.

  Lemma sched_at_tag (t : Ttest.tid) (j : nat) (tb : list (list (list Qc))) :
    sched_at j (Ttest.tag t (map Ttest.Batch tb)) = Ttest.tag t (map Ttest.Batch (map (map (at_sample j)) tb)).
  Proof. unfold sched_at, Ttest.tag. rewrite !map_map. reflexivity. Qed.

  Definition to_rs (j : nat) (c : tt_call) : Ttest.runspec Qc :=
    {| Ttest.rs_b1 := map (map (at_sample j)) (thread_batches (tc1 c));
       Ttest.rs_b2 := map (map (at_sample j)) (thread_batches (tc2 c));
       Ttest.rs_sched := sched_at j (tc_sched c);
       Ttest.rs_delay := tc_delay c |}.

  Lemma to_rs_b1_concat (j : nat) (c : tt_call) : 1 <= c_bs (tc1 c) ->
    concat (Ttest.rs_b1 (to_rs j c)) = map (at_sample j) (wrapped (tc1 c)).
  Proof. intros H. cbn [to_rs Ttest.rs_b1]. rewrite <- concat_map, thread_batches_concat by exact H. reflexivity. Qed.
  Lemma to_rs_b2_concat (j : nat) (c : tt_call) : 1 <= c_bs (tc2 c) ->
    concat (Ttest.rs_b2 (to_rs j c)) = map (at_sample j) (wrapped (tc2 c)).
  Proof. intros H. cbn [to_rs Ttest.rs_b2]. rewrite <- concat_map, thread_batches_concat by exact H. reflexivity. Qed.

  Definition call_ok (c : tt_call) : Prop :=
    (c_rows (tc1 c) <> [] /\ 1 <= c_bs (tc1 c)) /\ (c_rows (tc2 c) <> [] /\ 1 <= c_bs (tc2 c)) /\ call_wf c.

  Lemma wrapped_nonempty (c : cont) : c_rows c <> [] -> forall j, map (at_sample j) (wrapped c) <> [].
  Proof. intros H j. unfold wrapped, wrapper_samples. destruct (c_rows c); [contradiction|discriminate]. Qed.

  Lemma sets_of_rs (j : nat) (calls : list tt_call) : Forall call_ok calls ->
    concat (concat (map Ttest.rs_b1 (map (to_rs j) calls))) = map (at_sample j) (set1 calls)
    /\ concat (concat (map Ttest.rs_b2 (map (to_rs j) calls))) = map (at_sample j) (set2 calls).
  Proof.
    intros H. unfold set1, set2. induction H as [|c calls [[_ H1] [[_ H2] _]] _ [IH1 IH2]]; [split; reflexivity|].
    cbn [map concat]. rewrite !concat_app, !map_app, IH1, IH2, to_rs_b1_concat, to_rs_b2_concat by assumption.
    split; reflexivity.
  Qed.

  (* For every sample j, every sequence of run() calls on non-empty sets, every batch sizes (>= 1), every interleaving of the
     two threads' batches in every call and every stop delays: every call returns, and the stored result at sample j is the
     Welch statistic (definition: means, POPULATION variances) of column j of ALL the processed traces of set 1 against
     column j of ALL the processed traces of set 2. *)
  Theorem ttest_end_to_end_thm (S j : nat) (calls : list tt_call) :
    calls <> [] -> Forall call_ok calls ->
    Forall (fun r => length r = S) (set1 calls ++ set2 calls) -> j < S ->
    exists a',
      Ttest.tt_runs Ttest.tt_fresh (map (fun c => (sched_at j (tc_sched c), tc_delay c)) calls) = Ttest.Done a'
      /\ Ttest.sums (Ttest.a1 a') = Ttest.t_upd Ttest.st_zero (map (at_sample j) (set1 calls))
      /\ Ttest.sums (Ttest.a2 a') = Ttest.t_upd Ttest.st_zero (map (at_sample j) (set2 calls))
      /\ Ttest.result a' = Some (Ttest.welch_def (map (at_sample j) (set1 calls)) (map (at_sample j) (set2 calls))).
  Proof.
    intros Hne Hok _ _.
    assert (Hrs_ne : map (to_rs j) calls <> []) by (destruct calls; [contradiction|discriminate]).
    assert (Hwf : Forall Ttest.rs_wf (map (to_rs j) calls)).
    { apply Forall_map. eapply Forall_impl; [|exact Hok]. intros c (_ & _ & Hm). unfold Ttest.rs_wf. cbn [to_rs Ttest.rs_b1 Ttest.rs_b2 Ttest.rs_sched].
      rewrite <- !sched_at_tag. apply merge_map. exact Hm. }
    assert (Hrows : Forall (fun r => concat (Ttest.rs_b1 r) <> [] /\ concat (Ttest.rs_b2 r) <> []) (map (to_rs j) calls)).
    { apply Forall_map. eapply Forall_impl; [|exact Hok]. intros c ([N1 B1] & [N2 B2] & _).
      rewrite to_rs_b1_concat, to_rs_b2_concat by assumption. split; apply wrapped_nonempty; assumption. }
    destruct (Proofs.Ttest.tt_runs_are_welch (map (to_rs j) calls) Hrs_ne Hwf Hrows) as (a' & Hrun & S1 & S2 & Res).
    destruct (sets_of_rs j calls Hok) as [E1 E2]. rewrite E1, E2 in *.
    exists a'. split; [|split; [exact S1|split; [exact S2|exact Res]]].
    unfold Ttest.rs_calls in Hrun. rewrite map_map in Hrun. exact Hrun.
  Qed.
End TtestEndToEnd.
