(* Proofs/Aes.v — property C05: the lemmas are in three files that build in sequence
     Proofs/AesPrims.v    tables and primitives, algebra of the spec primitives
     Proofs/AesKeys.v     key expansion / key schedule for all keys
     Proofs/AesCipher.v   stop points, full encrypt / decrypt, decrypt (encrypt) = id, broadcasting
     Proofs/AesCounts.v   run-length expansion commutes with row-wise functions (count-boundary cases of the C-tie)
   and are re-exported here. *)
From ScaredV Require Export Proofs.AesPrims Proofs.AesKeys Proofs.AesCipher Proofs.AesCounts.
