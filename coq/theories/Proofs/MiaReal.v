(* Proofs/MiaReal.v — the mutual information computed by mia.py is never negative (Gibbs' inequality), over the reals
   with the real logarithm.  This is the only file of property C13 that uses the standard library's axiomatisation of
   the real numbers (ClassicalDedekindReals.sig_forall_dec, sig_not_dec, FunctionalExtensionality.functional_extensionality_dep).

   The formula is THE SAME term as in the rational model: Model/Mia.v [mi_code], instantiated with the carrier R,
   x |-> x * ln x for [phi], and the decidable test x = 0 for the replacement of zeros. *)
From Coq Require Import Reals Lra List ZArith Lia.
From ScaredV Require Import Model.Mia.
Import ListNotations.
Local Open Scope R_scope.

Definition rsum (l : list R) : R := fold_right Rplus 0 l.
Definition r_is0 (x : R) : bool := if Req_EM_T x 0 then true else false.
Definition xlnx (p : R) : R := p * ln p.

Definition r_cnt := cnt R IZR.
Definition r_cb := cb R 0 Rplus IZR.
Definition r_cv := cv R 0 Rplus IZR.
Definition r_total := total R 0 Rplus IZR.
Definition r_mi_code := mi_code R 0 1 Rplus Rminus Rmult Rdiv r_is0 IZR xlnx.

(* ------------------------------------------------------------------------------------------ finite sums over R *)
Lemma rsum_cons x l : rsum (x :: l) = x + rsum l.
Proof. reflexivity. Qed.

Lemma rsum_map_ext {A} (f g : A -> R) l : (forall x, In x l -> f x = g x) -> rsum (map f l) = rsum (map g l).
Proof.
  induction l as [|x l IH]; intros H; cbn [map]; [reflexivity|].
  rewrite !rsum_cons, H by (left; reflexivity). rewrite IH; [reflexivity|]. intros y Hy. apply H. right. exact Hy.
Qed.

Lemma rsum_map_add {A} (f g : A -> R) l : rsum (map (fun x => f x + g x) l) = rsum (map f l) + rsum (map g l).
Proof. induction l as [|x l IH]; cbn [map]; rewrite ?rsum_cons, ?IH; cbn; lra. Qed.

Lemma rsum_map_sub {A} (f g : A -> R) l : rsum (map (fun x => f x - g x) l) = rsum (map f l) - rsum (map g l).
Proof. induction l as [|x l IH]; cbn [map]; rewrite ?rsum_cons, ?IH; cbn; lra. Qed.

Lemma rsum_map_scale {A} (c : R) (f : A -> R) l : rsum (map (fun x => c * f x) l) = c * rsum (map f l).
Proof. induction l as [|x l IH]; cbn [map]; rewrite ?rsum_cons, ?IH; cbn; lra. Qed.

Lemma rsum_map_scale_r {A} (c : R) (f : A -> R) l : rsum (map (fun x => f x * c) l) = rsum (map f l) * c.
Proof. induction l as [|x l IH]; cbn [map]; rewrite ?rsum_cons, ?IH; cbn; lra. Qed.

Lemma rsum_map_zero {A} (f : A -> R) l : (forall x, In x l -> f x = 0) -> rsum (map f l) = 0.
Proof.
  induction l as [|x l IH]; intros H; cbn [map]; [reflexivity|].
  rewrite rsum_cons, H by (left; reflexivity). rewrite IH; [lra|]. intros y Hy. apply H. right. exact Hy.
Qed.

Lemma rsum_map_le {A} (f g : A -> R) l : (forall x, In x l -> f x <= g x) -> rsum (map f l) <= rsum (map g l).
Proof.
  induction l as [|x l IH]; intros H; cbn [map]; [cbn; lra|].
  rewrite !rsum_cons. apply Rplus_le_compat; [apply H; left; reflexivity|]. apply IH. intros y Hy. apply H. right. exact Hy.
Qed.

Lemma rsum_map_nonneg {A} (f : A -> R) l : (forall x, In x l -> 0 <= f x) -> 0 <= rsum (map f l).
Proof.
  intros H. replace 0 with (rsum (map (fun _ : A => 0) l)) at 1 by (apply rsum_map_zero; reflexivity).
  apply rsum_map_le. exact H.
Qed.

Lemma rsum_map_member_le {A} (f : A -> R) l x : (forall y, In y l -> 0 <= f y) -> In x l -> f x <= rsum (map f l).
Proof.
  induction l as [|y l IH]; intros Hnn Hx; [destruct Hx|]. cbn [map]. rewrite rsum_cons.
  assert (Hl : 0 <= rsum (map f l)) by (apply rsum_map_nonneg; intros z Hz; apply Hnn; right; exact Hz).
  assert (Hy : 0 <= f y) by (apply Hnn; left; reflexivity).
  destruct Hx as [->|Hx]; [lra|].
  assert (f x <= rsum (map f l)) by (apply IH; [intros z Hz; apply Hnn; right; exact Hz|exact Hx]). lra.
Qed.

Lemma rsum_swap {A B} (f : A -> B -> R) la lb :
  rsum (map (fun a => rsum (map (f a) lb)) la) = rsum (map (fun b => rsum (map (fun a => f a b) la)) lb).
Proof.
  induction la as [|a la IH]; cbn [map].
  - symmetry. apply rsum_map_zero. reflexivity.
  - rewrite rsum_cons, IH.
    rewrite (rsum_map_ext (fun b => rsum (map (fun a0 => f a0 b) (a :: la)))
                          (fun b => f a b + rsum (map (fun a0 => f a0 b) la))) by reflexivity.
    rewrite rsum_map_add. reflexivity.
Qed.

(* ------------------------------------------------------------------------------------------ the logarithm *)
Lemma ln_le_minus_1 x : 0 < x -> ln x <= x - 1.
Proof.
  intros Hx. destruct (Req_dec x 1) as [->|Hne]; [rewrite ln_1; lra|].
  assert (H : 1 + (x - 1) < exp (x - 1)) by (apply exp_ineq1; lra).
  replace (1 + (x - 1)) with x in H by lra.
  assert (ln x < ln (exp (x - 1))) by (apply ln_increasing; assumption).
  rewrite ln_exp in H0. lra.
Qed.

(* Gibbs, one term, in counts:  j (ln q - ln r) >= j - P r  with j = c/N, q = c/cv, r = cb/N, P = cv/N *)
Lemma gibbs_term c cvv cbb N : 0 <= c -> c <= cvv -> c <= cbb -> 0 < N ->
  c / N - (cvv / N) * (cbb / N) <= (c / N) * (ln (c / cvv) - ln (cbb / N)).
Proof.
  intros Hc Hcv Hcb HN.
  destruct (Req_dec c 0) as [->|Hc0].
  - unfold Rdiv at 1 3. rewrite !Rmult_0_l.
    assert (0 <= (cvv / N) * (cbb / N)).
    { apply Rmult_le_pos; apply Rmult_le_pos; try lra; left; apply Rinv_0_lt_compat; exact HN. }
    lra.
  - assert (Hc' : 0 < c) by lra. assert (Hcv' : 0 < cvv) by lra. assert (Hcb' : 0 < cbb) by lra.
    assert (Hq : 0 < c / cvv) by (apply Rdiv_lt_0_compat; assumption).
    assert (Hr : 0 < cbb / N) by (apply Rdiv_lt_0_compat; assumption).
    set (x := (cbb / N) / (c / cvv)).
    assert (Hx : 0 < x) by (apply Rdiv_lt_0_compat; assumption).
    assert (Hln : ln x = ln (cbb / N) - ln (c / cvv)).
    { unfold x. unfold Rdiv at 1. rewrite ln_mult by (try assumption; apply Rinv_0_lt_compat; exact Hq).
      rewrite ln_Rinv by exact Hq. lra. }
    pose proof (ln_le_minus_1 x Hx) as Hle.
    assert (Hj : 0 < c / N) by (apply Rdiv_lt_0_compat; assumption).
    replace (ln (c / cvv) - ln (cbb / N)) with (- ln x) by lra.
    assert (Hgoal : c / N - cvv / N * (cbb / N) = (c / N) * (- (x - 1))).
    { unfold x. field. repeat split; lra. }
    rewrite Hgoal. apply Rmult_le_compat_l; lra.
Qed.

(* ------------------------------------------------------------------------------------------ the replacement of zeros *)
Definition r_nz : R -> R := nz R 1 r_is0.

Lemma r_nz_nonzero x : x <> 0 -> r_nz x = x.
Proof. intros H. unfold r_nz, nz, r_is0. destruct (Req_EM_T x 0); [contradiction|reflexivity]. Qed.

Lemma r_phiz_xlnx p : phiz R 1 r_is0 xlnx p = xlnx p.
Proof.
  unfold phiz, nz, r_is0. destruct (Req_EM_T p 0) as [->|H]; [|reflexivity].
  unfold xlnx. rewrite ln_1. lra.
Qed.

(* ------------------------------------------------------------------------------------------ non-negativity *)
Section Nonneg.
  Variable t : st.
  Variables bs vs : list nat.
  Hypothesis Hnn : forall b v, In b bs -> In v vs -> (0 <= get t b v)%Z.
  Hypothesis Htot : r_total t bs vs <> 0.

  Let c b v := r_cnt t b v.
  Let CB b := r_cb t vs b.
  Let CV v := r_cv t bs v.
  Let N := r_total t bs vs.

  Lemma c_nonneg b v : In b bs -> In v vs -> 0 <= c b v.
  Proof. intros Hb Hv. unfold c, r_cnt, cnt. apply IZR_le. apply Hnn; assumption. Qed.

  Lemma CB_unfold b : CB b = rsum (map (fun v => c b v) vs).
  Proof. reflexivity. Qed.
  Lemma CV_unfold v : CV v = rsum (map (fun b => c b v) bs).
  Proof. reflexivity. Qed.
  Lemma N_unfold : N = rsum (map CB bs).
  Proof. reflexivity. Qed.

  Lemma N_by_classes : N = rsum (map CV vs).
  Proof.
    rewrite N_unfold.
    rewrite (rsum_map_ext CB (fun b => rsum (map (fun v => c b v) vs))) by reflexivity.
    rewrite (rsum_swap (fun b v => c b v)). reflexivity.
  Qed.

  Lemma CB_nonneg b : In b bs -> 0 <= CB b.
  Proof. intros Hb. rewrite CB_unfold. apply rsum_map_nonneg. intros v Hv. apply c_nonneg; assumption. Qed.
  Lemma CV_nonneg v : In v vs -> 0 <= CV v.
  Proof. intros Hv. rewrite CV_unfold. apply rsum_map_nonneg. intros b Hb. apply c_nonneg; assumption. Qed.
  Lemma N_pos : 0 < N.
  Proof.
    assert (0 <= N) by (rewrite N_unfold; apply rsum_map_nonneg; intros b Hb; apply CB_nonneg; exact Hb).
    unfold N in *. lra.
  Qed.
  Lemma c_le_CV b v : In b bs -> In v vs -> c b v <= CV v.
  Proof.
    intros Hb Hv. rewrite CV_unfold. apply (rsum_map_member_le (fun b0 => c b0 v)); [|exact Hb].
    intros b0 Hb0. apply c_nonneg; assumption.
  Qed.
  Lemma c_le_CB b v : In b bs -> In v vs -> c b v <= CB b.
  Proof.
    intros Hb Hv. rewrite CB_unfold. apply (rsum_map_member_le (fun v0 => c b v0)); [|exact Hv].
    intros v0 Hv0. apply c_nonneg; assumption.
  Qed.

  Lemma mi_unfold :
    r_mi_code t bs vs =
    rsum (map (fun v => rsum (map (fun b => xlnx (c b v / r_nz (CV v)) - xlnx (CB b / r_nz N)) bs) * (CV v / N)) vs).
  Proof.
    unfold r_mi_code, mi_code. cbv zeta.
    apply rsum_map_ext. intros v _. f_equal.
    apply rsum_map_ext. intros b _. rewrite !r_phiz_xlnx. reflexivity.
  Qed.

  (* MI = sum_v sum_b j(b,v) (ln p(b|v) - ln p(b)) *)
  Lemma mi_as_kl :
    r_mi_code t bs vs = rsum (map (fun v => rsum (map (fun b => (c b v / N) * (ln (c b v / CV v) - ln (CB b / N))) bs)) vs).
  Proof.
    pose proof N_pos as HN. assert (HN0 : N <> 0) by lra.
    rewrite mi_unfold, (r_nz_nonzero N HN0).
    (* left side: split into A - B *)
    rewrite (rsum_map_ext
      (fun v => rsum (map (fun b => xlnx (c b v / r_nz (CV v)) - xlnx (CB b / N)) bs) * (CV v / N))
      (fun v => rsum (map (fun b => (c b v / N) * ln (c b v / CV v)) bs)
                - rsum (map (fun b => xlnx (CB b / N)) bs) * / N * CV v)).
    2:{ intros v Hv. rewrite rsum_map_sub.
        assert (E : rsum (map (fun b => xlnx (c b v / r_nz (CV v))) bs) * (CV v / N)
                    = rsum (map (fun b => c b v / N * ln (c b v / CV v)) bs)).
        { rewrite <- rsum_map_scale_r. apply rsum_map_ext. intros b Hb.
          destruct (Req_dec (CV v) 0) as [E0|E0].
          - assert (c b v = 0).
            { pose proof (c_le_CV b v Hb Hv). pose proof (c_nonneg b v Hb Hv). lra. }
            rewrite E0, H. unfold Rdiv. rewrite !Rmult_0_l. lra.
          - rewrite (r_nz_nonzero _ E0). unfold xlnx. field. split; assumption. }
        rewrite <- E. unfold Rdiv. ring. }
    rewrite rsum_map_sub, rsum_map_scale.
    change (rsum (map (fun x => CV x) vs)) with (rsum (map CV vs)). rewrite <- N_by_classes.
    replace (rsum (map (fun b => xlnx (CB b / N)) bs) * / N * N) with (rsum (map (fun b => xlnx (CB b / N)) bs)) by (field; exact HN0).
    (* B = sum_b p(b) ln p(b) = sum_v sum_b j(b,v) ln p(b) *)
    assert (EB : rsum (map (fun b => xlnx (CB b / N)) bs)
                 = rsum (map (fun v => rsum (map (fun b => (c b v / N) * ln (CB b / N)) bs)) vs)).
    { rewrite <- (rsum_swap (fun b v => c b v / N * ln (CB b / N))).
      apply rsum_map_ext. intros b _.
      rewrite rsum_map_scale_r.
      rewrite (rsum_map_ext (fun v => c b v / N) (fun v => c b v * / N)) by reflexivity.
      rewrite rsum_map_scale_r. rewrite <- CB_unfold. reflexivity. }
    rewrite EB, <- rsum_map_sub. apply rsum_map_ext. intros v _.
    rewrite <- rsum_map_sub. apply rsum_map_ext. intros b _. ring.
  Qed.

  Theorem mi_nonneg_thm : 0 <= r_mi_code t bs vs.
  Proof.
    pose proof N_pos as HN. assert (HN0 : N <> 0) by lra.
    rewrite mi_as_kl.
    apply Rle_trans with
      (r2 := rsum (map (fun v => rsum (map (fun b => c b v / N - (CV v / N) * (CB b / N)) bs)) vs)).
    - (* the lower bound sums to 1 - 1 * 1 = 0 *)
      right. symmetry.
      rewrite (rsum_map_ext
        (fun v => rsum (map (fun b => c b v / N - CV v / N * (CB b / N)) bs))
        (fun v => CV v * / N - CV v * (/ N * / N * rsum (map CB bs)))).
      2:{ intros v _. rewrite rsum_map_sub, rsum_map_scale.
          rewrite (rsum_map_ext (fun b => c b v / N) (fun b => c b v * / N)) by reflexivity.
          rewrite rsum_map_scale_r, <- CV_unfold.
          rewrite (rsum_map_ext (fun b => CB b / N) (fun b => CB b * / N)) by reflexivity.
          rewrite rsum_map_scale_r. unfold Rdiv. ring. }
      rewrite <- N_unfold, rsum_map_sub, !rsum_map_scale_r.
      change (rsum (map (fun x => CV x) vs)) with (rsum (map CV vs)). rewrite <- N_by_classes. field. exact HN0.
    - apply rsum_map_le. intros v Hv. apply rsum_map_le. intros b Hb.
      apply gibbs_term; [apply c_nonneg|apply c_le_CV|apply c_le_CB|exact HN]; assumption.
  Qed.
End Nonneg.
