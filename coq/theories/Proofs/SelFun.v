(* Proofs/SelFun.v — property C07: the theorems about the GENERATED wiring table (Generated/SelFunWiring.v), assembled from
     Proofs/SelFunArr.v   array algebra, words selection, guesses subsets
     Proofs/SelFunAes.v   AES helpers, targeted states for any round keys, expected keys
     Proofs/SelFunDes.v   DES word functions, targeted values for any round keys, the model of _des_function, expected keys *)
From Coq Require Import NArith ZArith Bool Arith String List Lia.
From ScaredV Require Import Generated.SelFunWiring Spec.Fips197 Spec.Fips46 Spec.SelFunTargets Model.SelFun.
From ScaredV Require Import Proofs.AesPrims Proofs.AesKeys Proofs.AesCipher Proofs.DesSpec Proofs.DesBits Proofs.Des.
From ScaredV Require Export Proofs.SelFunArr Proofs.SelFunAes Proofs.SelFunDes.
From ScaredV Require Model.Aes Model.Des.
Import ListNotations.
Open Scope N_scope.

Definition bytes_lt (bound : N) (l : list N) : Prop := Forall (fun g => g < bound) l.

(* ================================================================ AES *)
Lemma aes_values_of_expr row e f datas guesses :
  assoc_s (r_fn row) aes_helpers = Some e ->
  In (e, f) [(e_ark, WfXor); (e_sub, WfSbox); (e_isb, WfInvSbox); (e_delta, WfDelta)] ->
  Forall wf datas -> datas <> [] -> bytes_lt 256 guesses -> guesses <> [] ->
  aes_values_m row datas guesses = Some (T3 (full_F (aes_F f) 16 datas guesses)).
Proof.
  intros He Hin Hd Hdn Hg Hgn. unfold aes_values_m. rewrite He.
  assert (Hlen : len16 datas) by (unfold len16; eapply Forall_impl; [|exact Hd]; intros d [Hl _]; exact Hl).
  assert (Hext : forall f0, full_F (aes_F_m f0) 16 datas guesses = full_F (aes_F f0) 16 datas guesses).
  { intros f0. apply full_F_ext. intros d g w Hdi Hgi Hw. rewrite Forall_forall in Hd. unfold bytes_lt in Hg. rewrite Forall_forall in Hg.
    apply aes_F_m_spec; [apply Hd, Hdi|apply Hg, Hgi|exact Hw]. }
  cbn [In] in Hin. destruct Hin as [H|[H|[H|[H|[]]]]]; inversion H; subst e f.
  - rewrite (eval_ark_full datas guesses Hlen Hgn), Hext. reflexivity.
  - rewrite (eval_sub_full datas guesses Hlen Hgn), Hext. reflexivity.
  - rewrite (eval_isb_full datas guesses Hlen Hgn), Hext. reflexivity.
  - rewrite (eval_delta_full datas guesses Hlen Hgn Hdn), Hext. reflexivity.
Qed.

(* what a class must agree on with its spec row *)
Definition aes_row_wired (ns : namespace) (row : sf_row) (sp : aes_sf_spec) : Prop :=
  find_aes (r_name row) (aes_targets ns) = Some sp /\ In sp (aes_targets ns)
  /\ r_target_tag row = spec_tag ns (as_data sp) /\ r_key_tag row = spec_key_tag
  /\ r_nguesses row = aes_n_guesses /\ r_words_none row = true
  (* every column g of the computed array is F_w(data, g) of the spec row, in the layout (traces, guesses, words) *)
  /\ (forall datas guesses, Forall wf datas -> datas <> [] -> bytes_lt 256 guesses -> guesses <> [] ->
        aes_values_m row datas guesses = Some (T3 (full_F (aes_F (as_F sp)) 16 datas guesses)))
  (* the expected-key function returns the round key of the spec row *)
  /\ (forall Nk key, In Nk [4; 6; 8]%nat -> Aes.wf_key Nk key ->
        aes_expected_key_m row key = Some (nth (as_key_round sp (Nr_of Nk)) (round_keys Nk key) [])).

Lemma aes_expected_key_first row Nk key : assoc_s (r_keyfn row) aes_keyfns = Some (KFromStart 0) ->
  In Nk [4; 6; 8]%nat -> Aes.wf_key Nk key ->
  aes_expected_key_m row key = Some (nth (first_rk (Nr_of Nk)) (round_keys Nk key) []).
Proof.
  intros Hk HNk Hkey. unfold aes_expected_key_m. rewrite Hk, (AesKeys.key_schedule_is_fips Nk key HNk Hkey).
  apply (first_key_m Nk key).
Qed.

Lemma aes_expected_key_last row Nk key : assoc_s (r_keyfn row) aes_keyfns = Some (KFromEnd 1) ->
  In Nk [4; 6; 8]%nat -> Aes.wf_key Nk key ->
  aes_expected_key_m row key = Some (nth (last_rk (Nr_of Nk)) (round_keys Nk key) []).
Proof.
  intros Hk HNk Hkey. unfold aes_expected_key_m. rewrite Hk, (AesKeys.key_schedule_is_fips Nk key HNk Hkey).
  apply (last_key_m Nk key).
Qed.

Ltac in_list := cbn [In]; repeat (first [left; reflexivity | right]).

Ltac aes_row :=
  eexists; unfold aes_row_wired; split; [reflexivity|]; split; [in_list|];
  split; [reflexivity|]; split; [reflexivity|]; split; [reflexivity|]; split; [reflexivity|]; split;
  [ intros datas guesses Hd Hdn Hg Hgn; eapply aes_values_of_expr; [reflexivity|in_list|assumption..]
  | intros Nk key HNk Hkey; first [ apply aes_expected_key_first; [reflexivity|assumption..]
                                  | apply aes_expected_key_last; [reflexivity|assumption..] ] ].

(* EVERY row of the generated wiring table, both namespaces *)
Theorem aes_wiring_pf : forall ns row, In row (aes_rows ns) -> exists sp, aes_row_wired ns row sp.
Proof.
  intros ns row Hin. destruct ns.
  - cbv [aes_rows aes_encrypt_rows] in Hin. cbn [In] in Hin.
    destruct Hin as [<-|[<-|[<-|[<-|[<-|[]]]]]]; aes_row.
  - vm_compute in Hin.
    destruct Hin as [<-|[<-|[<-|[<-|[<-|[]]]]]]; aes_row.
Qed.

(* the targeted state under the TRUE key: key expansion of the standard, the real operation of the namespace *)
Theorem aes_targets_true_key_pf ns sp Nk key inp :
  In sp (aes_targets ns) -> In Nk [4; 6; 8]%nat -> Aes.wf_key Nk key -> Aes.wf_block inp ->
  let S := aes_states ns Nk key inp in
  let data := match as_data sp with DIn => inp | DOut => last S [] end in
  let k := nth (as_key_round sp (Nr_of Nk)) (round_keys Nk key) [] in
  Aes.wf_block data
  /\ forall w, (w < 16)%nat -> aes_F (as_F sp) data (nth w k 0) w = nth w (aes_target_state (as_target sp) (Nr_of Nk) S) 0.
Proof.
  intros Hsp HNk Hkey Hinp. cbv zeta.
  pose proof (round_keys_wf_all Nk key HNk Hkey) as Hk.
  assert (HNr : In (Nr_of Nk) [10; 12; 14]%nat) by (destruct HNk as [<-|[<-|[<-|[]]]]; cbn; auto).
  apply wf_block_wf in Hinp.
  destruct ns; cbn [aes_targets aes_states] in *; unfold Cipher_states, InvCipher_states.
  - destruct (aes_encrypt_targets_any_keys (Nr_of Nk) (round_keys Nk key) inp sp HNr Hk Hinp Hsp) as [H1 H2].
    split; [apply wf_block_wf; exact H1|exact H2].
  - destruct (aes_decrypt_targets_any_keys (Nr_of Nk) (round_keys Nk key) inp sp HNr Hk Hinp Hsp) as [H1 H2].
    split; [apply wf_block_wf; exact H1|exact H2].
Qed.

Lemma nth_full_F F nW datas guesses t j w : (t < length datas)%nat -> (j < length guesses)%nat -> (w < nW)%nat ->
  nth w (nth j (nth t (full_F F nW datas guesses) []) []) 0 = F (nth t datas []) (nth j guesses 0) w.
Proof.
  intros Ht Hj Hw. unfold full_F.
  rewrite (nth_map_lt _ _ _ []) by exact Ht. rewrite (nth_map_lt _ _ _ 0) by exact Hj. apply nth_map_seq, Hw.
Qed.

(* the property's first sentence, for every row of the generated table: the hypothesis at the guess equal to the expected key
   word is the word of the targeted state of the real operation; every other column is F with that guess *)
Theorem aes_hypothesis_pf ns row : In row (aes_rows ns) ->
  exists sp, find_aes (r_name row) (aes_targets ns) = Some sp /\
  forall Nk key inps guesses, In Nk [4; 6; 8]%nat -> Aes.wf_key Nk key -> Forall Aes.wf_block inps -> inps <> [] ->
    bytes_lt 256 guesses -> guesses <> [] ->
    let states := map (aes_states ns Nk key) inps in
    let datas := match as_data sp with DIn => inps | DOut => map (fun S => last S []) states end in
    exists k v,
      aes_expected_key_m row key = Some k
      /\ aes_values_m row datas guesses = Some (T3 v)
      /\ rect3 (length inps) (length guesses) 16 v
      /\ forall t j w, (t < length inps)%nat -> (j < length guesses)%nat -> (w < 16)%nat ->
           nth w (nth j (nth t v []) []) 0 = aes_F (as_F sp) (nth t datas []) (nth j guesses 0) w
           /\ (nth j guesses 0 = nth w k 0 ->
               nth w (nth j (nth t v []) []) 0 = nth w (aes_target_state (as_target sp) (Nr_of Nk) (nth t states [])) 0).
Proof.
  intros Hin. destruct (aes_wiring_pf ns row Hin) as (sp & Hf & Hsp & _ & _ & _ & _ & Hval & Hkey).
  exists sp. split; [exact Hf|]. intros Nk key inps guesses HNk Hk Hinps Hne Hg Hgn. cbv zeta.
  set (states := map (aes_states ns Nk key) inps).
  set (datas := match as_data sp with DIn => inps | DOut => map (fun S => last S []) states end).
  assert (Hlen : length datas = length inps) by (unfold datas, states; destruct (as_data sp); rewrite ?map_length; reflexivity).
  assert (Hdata : forall t, (t < length inps)%nat ->
            nth t datas [] = match as_data sp with DIn => nth t inps [] | DOut => last (aes_states ns Nk key (nth t inps [])) [] end).
  { intros t Ht. unfold datas, states. destruct (as_data sp); [reflexivity|]. rewrite map_map.
    rewrite (nth_map_lt _ _ _ []) by exact Ht. reflexivity. }
  assert (Hwf : Forall wf datas).
  { apply Forall_forall. intros d Hd. apply (In_nth _ _ []) in Hd. destruct Hd as (t & Ht & <-). rewrite Hlen in Ht.
    rewrite Hdata by exact Ht. rewrite Forall_forall in Hinps. pose proof (Hinps _ (nth_In inps [] Ht)) as Hi.
    destruct (aes_targets_true_key_pf ns sp Nk key (nth t inps []) Hsp HNk Hk Hi) as [H1 _]. cbv zeta in H1.
    apply wf_block_wf. exact H1. }
  assert (Hdn : datas <> []) by (intros E; rewrite E in Hlen; destruct inps; [congruence|discriminate]).
  exists (nth (as_key_round sp (Nr_of Nk)) (round_keys Nk key) []), (full_F (aes_F (as_F sp)) 16 datas guesses).
  split; [apply Hkey; assumption|]. split; [apply Hval; assumption|].
  split; [rewrite <- Hlen; apply full_F_rect|].
  intros t j w Ht Hj Hw. rewrite nth_full_F by (rewrite ?Hlen; assumption). split; [reflexivity|].
  intros Hgk. rewrite Hgk, Hdata by exact Ht. unfold states. rewrite (nth_map_lt _ _ _ []) by exact Ht.
  rewrite Forall_forall in Hinps. pose proof (Hinps _ (nth_In inps [] Ht)) as Hi.
  apply (aes_targets_true_key_pf ns sp Nk key (nth t inps []) Hsp HNk Hk Hi). exact Hw.
Qed.

(* ================================================================ DES *)
Definition des_row_wired (ns : namespace) (row : sf_row) (sp : des_sf_spec) : Prop :=
  find_des (r_name row) (des_targets ns) = Some sp /\ In sp (des_targets ns)
  /\ r_target_tag row = spec_tag ns (ds_data sp) /\ r_key_tag row = spec_key_tag
  /\ r_nguesses row = des_n_guesses /\ r_words_none row = true
  /\ (forall datas guesses, blocks datas -> bytes_lt 64 guesses -> guesses <> [] ->
        des_values_m row datas guesses = Some (T3 (full_F (des_F (ds_step sp)) 8 datas guesses)))
  /\ (forall key, length key = 8%nat ->
        des_expected_key_m row key = Some (nth (des_schedule_index ns (ds_key_use sp)) (des_key_schedule key) [])).

Lemma des_values_of_stop row s datas guesses :
  assoc_s (r_fn row) des_helpers = Some (0%nat, s) -> tstep s ->
  des_function_expr = SeSwap 0 1 (SeGuessLoop (BDes false 128)) ->
  blocks datas -> bytes_lt 64 guesses -> guesses <> [] ->
  des_values_m row datas guesses = Some (T3 (full_F (des_F s) 8 datas guesses)).
Proof.
  intros He Hs Hfn Hb Hg Hgn. unfold des_values_m. rewrite He, Hfn. apply des_function_full; assumption.
Qed.

Lemma des_expected_key_first row key : assoc_s (r_keyfn row) des_keyfns = Some (KFromStart 0) -> length key = 8%nat ->
  des_expected_key_m row key = Some (nth 0 (des_key_schedule key) []).
Proof. intros Hk Hl. unfold des_expected_key_m. rewrite Hk, Hl. cbn [Nat.eqb]. apply des_first_key, Hl. Qed.

Lemma des_expected_key_last row key : assoc_s (r_keyfn row) des_keyfns = Some (KFromEnd 1) -> length key = 8%nat ->
  des_expected_key_m row key = Some (nth 15 (des_key_schedule key) []).
Proof. intros Hk Hl. unfold des_expected_key_m. rewrite Hk, Hl. cbn [Nat.eqb]. apply des_last_key, Hl. Qed.

Ltac des_row :=
  eexists; unfold des_row_wired; split; [reflexivity|]; split; [in_list|];
  split; [reflexivity|]; split; [reflexivity|]; split; [reflexivity|]; split; [reflexivity|]; split;
  [ intros datas guesses Hd Hg Hgn; eapply des_values_of_stop; [reflexivity|unfold tstep; tauto|reflexivity|assumption..]
  | intros key Hl; first [ apply des_expected_key_first; [reflexivity|assumption]
                         | apply des_expected_key_last; [reflexivity|assumption] ] ].

Theorem des_wiring_pf : forall ns row, In row (des_rows ns) -> exists sp, des_row_wired ns row sp.
Proof.
  intros ns row Hin. destruct ns.
  - cbv [des_rows des_encrypt_rows] in Hin. cbn [In] in Hin.
    destruct Hin as [<-|[<-|[<-|[<-|[<-|[<-|[<-|[<-|[]]]]]]]]]; des_row.
  - vm_compute in Hin.
    destruct Hin as [<-|[<-|[<-|[<-|[<-|[<-|[<-|[<-|[]]]]]]]]]; des_row.
Qed.

Theorem des_targets_true_key_pf ns sp key inp :
  In sp (des_targets ns) -> Des.is_block inp ->
  let ks := des_key_schedule key in
  let rks := des_rks ns ks in
  let data := match ds_data sp with DIn => inp | DOut => des_core rks inp end in
  let K := nth (des_schedule_index ns (ds_key_use sp)) ks [] in
  Des.is_block data
  /\ forall w, (w < 8)%nat -> des_F (ds_step sp) data (nth w K 0) w = nth w (des_state_at rks inp (fst (ds_at sp)) (snd (ds_at sp))) 0.
Proof.
  intros Hsp Hinp. cbv zeta.
  destruct (des_targets_any_keys (des_rks ns (des_key_schedule key)) inp sp (des_rks_ok ns key) Hinp Hsp) as [H1 H2].
  split; [exact H1|]. intros w Hw. rewrite <- des_rks_index.
  - apply H2, Hw.
  - cbn [des_targets des_rows_generic In] in Hsp.
    destruct Hsp as [<-|[<-|[<-|[<-|[<-|[<-|[<-|[<-|[]]]]]]]]]; cbn; lia.
Qed.

Theorem des_hypothesis_pf ns row : In row (des_rows ns) ->
  exists sp, find_des (r_name row) (des_targets ns) = Some sp /\
  forall key inps guesses, length key = 8%nat -> Forall Des.is_block inps -> inps <> [] -> bytes_lt 64 guesses -> guesses <> [] ->
    let rks := des_rks ns (des_key_schedule key) in
    let datas := match ds_data sp with DIn => inps | DOut => map (des_core rks) inps end in
    exists k v,
      des_expected_key_m row key = Some k
      /\ des_values_m row datas guesses = Some (T3 v)
      /\ rect3 (length inps) (length guesses) 8 v
      /\ forall t j w, (t < length inps)%nat -> (j < length guesses)%nat -> (w < 8)%nat ->
           nth w (nth j (nth t v []) []) 0 = des_F (ds_step sp) (nth t datas []) (nth j guesses 0) w
           /\ (nth j guesses 0 = nth w k 0 ->
               nth w (nth j (nth t v []) []) 0 = nth w (des_state_at rks (nth t inps []) (fst (ds_at sp)) (snd (ds_at sp))) 0).
Proof.
  intros Hin. destruct (des_wiring_pf ns row Hin) as (sp & Hf & Hsp & _ & _ & _ & _ & Hval & Hkey).
  exists sp. split; [exact Hf|]. intros key inps guesses Hl Hinps Hne Hg Hgn. cbv zeta.
  set (rks := des_rks ns (des_key_schedule key)).
  set (datas := match ds_data sp with DIn => inps | DOut => map (des_core rks) inps end).
  assert (Hlen : length datas = length inps) by (unfold datas; destruct (ds_data sp); rewrite ?map_length; reflexivity).
  assert (Hdata : forall t, (t < length inps)%nat ->
            nth t datas [] = match ds_data sp with DIn => nth t inps [] | DOut => des_core rks (nth t inps []) end).
  { intros t Ht. unfold datas. destruct (ds_data sp); [reflexivity|]. rewrite (nth_map_lt _ _ _ []) by exact Ht. reflexivity. }
  assert (Hwf : blocks datas).
  { apply Forall_forall. intros d Hd. apply (In_nth _ _ []) in Hd. destruct Hd as (t & Ht & <-). rewrite Hlen in Ht.
    rewrite Hdata by exact Ht. rewrite Forall_forall in Hinps. pose proof (Hinps _ (nth_In inps [] Ht)) as Hi.
    destruct (des_targets_true_key_pf ns sp key (nth t inps []) Hsp Hi) as [H1 _]. exact H1. }
  exists (nth (des_schedule_index ns (ds_key_use sp)) (des_key_schedule key) []), (full_F (des_F (ds_step sp)) 8 datas guesses).
  split; [apply Hkey; assumption|]. split; [apply Hval; assumption|].
  split; [rewrite <- Hlen; apply full_F_rect|].
  intros t j w Ht Hj Hw. rewrite nth_full_F by (rewrite ?Hlen; assumption). split; [reflexivity|].
  intros Hgk. rewrite Hgk, Hdata by exact Ht.
  rewrite Forall_forall in Hinps. pose proof (Hinps _ (nth_In inps [] Ht)) as Hi.
  apply (des_targets_true_key_pf ns sp key (nth t inps []) Hsp Hi). exact Hw.
Qed.

(* ================================================================ the call: words and guesses *)
(* sf(words = W)(x): the selection on the last axis of the full output; a refused selection is refused *)
Theorem sf_call_pf nT nG nW w v : rect3 nT nG nW v -> sf_call_m (Some (T3 v)) nT nG nW w = select_words nW w v.
Proof.
  intros Hr. unfold sf_call_m. destruct Hr as [Hl Hf]. rewrite Hl, Nat.eqb_refl. apply words_slice_pf. split; assumption.
Qed.

(* shape of the result: (traces, guesses, |W|), 2-D (traces, guesses) for an int *)
Theorem select_words_shape_pf nT nG nW w v t : rect3 nT nG nW v -> select_words nW w v = Some t ->
  match w with
  | WInt _ => exists m, t = T2 m /\ length m = nT /\ Forall (fun r => length r = nG) m
  | _ => exists c ps, words_positions nW w = Some ps /\ t = T3 c /\ rect3 nT nG (length ps) c
  end.
Proof.
  intros [Hl Hf] Hs.
  assert (H3 : forall ps, rect3 nT nG (length ps) (map (map (fun row : list N => map (fun p => nth p row 0) ps)) v)).
  { intros ps. split; [rewrite map_length; exact Hl|]. apply Forall_forall. intros plane Hp.
    apply in_map_iff in Hp. destruct Hp as (pl & <- & Hpl). rewrite Forall_forall in Hf. destruct (Hf pl Hpl) as [HG _].
    split; [rewrite map_length; exact HG|]. apply Forall_forall. intros row Hr. apply in_map_iff in Hr.
    destruct Hr as (r & <- & _). apply map_length. }
  destruct w as [|i|l|a b c]; cbn [select_words] in Hs.
  - destruct (words_positions nW WAll) as [ps|] eqn:E; [|discriminate]. cbn in Hs. injection Hs as <-. eauto.
  - destruct (norm_index nW i) as [p|]; [|discriminate]. cbn in Hs. injection Hs as <-.
    eexists. split; [reflexivity|]. split; [rewrite map_length; exact Hl|].
    apply Forall_forall. intros r Hr. apply in_map_iff in Hr. destruct Hr as (pl & <- & Hpl).
    rewrite Forall_forall in Hf. destruct (Hf pl Hpl) as [HG _]. rewrite map_length. exact HG.
  - destruct (words_positions nW (WList l)) as [ps|] eqn:E; [|discriminate]. cbn in Hs. injection Hs as <-. eauto.
  - destruct (words_positions nW (WSlice a b c)) as [ps|] eqn:E; [|discriminate]. cbn in Hs. injection Hs as <-. eauto.
Qed.

