(* Proofs/AesCounts.v — C05, count boundaries: a function applied row by row commutes with the run-length expansion, and
   [run_row] finds the distinct row that stands at a given position of the expansion.  This is what lets the correspondence
   check compare row i of a result of 131073 rows with the result of one of 2-4 distinct (key, block) pairs. *)
From Coq Require Import NArith List Bool Arith Lia.
From ScaredV Require Import Model.Aes.
Import ListNotations.
Open Scope N_scope.

Lemma map_repeat {A B} (f : A -> B) x n : map f (repeat x n) = repeat (f x) n.
Proof. induction n as [|n IH]; [reflexivity|]. cbn. rewrite IH. reflexivity. Qed.

Theorem map_expand {A B} (f : A -> B) (d : A) (rows : list A) (runs : list (nat * N)) :
  map f (expand d rows runs) = expand (f d) (map f rows) runs.
Proof.
  unfold expand. induction runs as [|r runs IH]; [reflexivity|].
  cbn [flat_map]. rewrite map_app, IH, map_repeat, map_nth. reflexivity.
Qed.

Lemma nth_repeat_lt {A} (x d : A) n i : (i < n)%nat -> nth i (repeat x n) d = x.
Proof. revert i. induction n as [|n IH]; intros [|i] H; cbn; try lia; [reflexivity|]. apply IH. lia. Qed.

Theorem nth_expand {A} (d : A) (rows : list A) : forall (runs : list (nat * N)) (i : N) (k : nat),
  run_row runs i = Some k -> nth (N.to_nat i) (expand d rows runs) d = nth k rows d.
Proof.
  induction runs as [|[k0 n] runs IH]; intros i k H; [discriminate|].
  cbn [run_row] in H. unfold expand in *. cbn [flat_map fst snd].
  destruct (N.ltb_spec i n) as [Hlt|Hge].
  - injection H as <-. assert (Hi : (N.to_nat i < N.to_nat n)%nat) by lia.
    rewrite app_nth1 by (rewrite repeat_length; exact Hi). apply nth_repeat_lt. exact Hi.
  - assert (Hi : (N.to_nat n <= N.to_nat i)%nat) by lia.
    rewrite app_nth2 by (rewrite repeat_length; exact Hi). rewrite repeat_length.
    replace (N.to_nat i - N.to_nat n)%nat with (N.to_nat (i - n)) by lia. apply IH. exact H.
Qed.

Theorem run_row_total : forall (runs : list (nat * N)) (i : N), i < runs_total runs -> exists k, run_row runs i = Some k.
Proof.
  induction runs as [|[k0 n] runs IH]; intros i H; [cbn in H; lia|].
  change (i < n + runs_total runs) in H. cbn [run_row]. destruct (N.ltb_spec i n) as [Hlt|Hge]; [eauto|]. apply IH. lia.
Qed.

Theorem expand_length {A} (d : A) rows : forall runs, length (expand d rows runs) = N.to_nat (runs_total runs).
Proof.
  unfold expand. induction runs as [|[k n] runs IH]; [reflexivity|].
  change (runs_total ((k, n) :: runs)) with (n + runs_total runs).
  cbn [flat_map fst snd]. rewrite app_length, repeat_length, IH. lia.
Qed.
