(* Proofs/KeySchedule.v — AES part of property C10: the impl-model of key_expansion / _expand_forward / _expand_backward /
   key_schedule / inv_key_schedule (Model/KeySchedule.v, over the regenerated SBOX, RCON and constants) against FIPS-197
   KeyExpansion (Spec/Fips197.v), for Nk = 4, 6, 8 and ALL keys, from ANY window of Nk columns. *)
From Coq Require Import NArith ZArith List Bool Arith Lia ZifyNat ZifyN.
From ScaredV Require Import Generated.KeySchedTables Spec.Fips197 Run.Compare Model.KeySchedule.
Import ListNotations.
Local Ltac Zify.zify_post_hook ::= Z.div_mod_to_equations.
Local Open Scope nat_scope.

(* ================================================================== lists *)
Lemma nth_map_seq : forall {A} (f : nat -> A) a n i d, i < n -> nth i (map f (seq a n)) d = f (a + i).
Proof.
  intros A f a n i d Hi.
  rewrite nth_indep with (d' := f 0) by (rewrite map_length, seq_length; exact Hi).
  rewrite map_nth. rewrite seq_nth by exact Hi. reflexivity.
Qed.

Lemma skipn_skipn' : forall {A} a b (l : list A), skipn a (skipn b l) = skipn (b + a) l.
Proof.
  intros A a b. induction b as [|b IH]; intros l.
  - reflexivity.
  - destruct l as [|x l]; [rewrite !skipn_nil; reflexivity|]. simpl. apply IH.
Qed.

Lemma firstn_skipn_seq : forall {A} (l : list A) d a n,
  a + n <= length l -> firstn n (skipn a l) = map (fun i => nth i l d) (seq a n).
Proof.
  intros A l d a n. revert a l. induction n as [|n IH]; intros a l Hl.
  - reflexivity.
  - destruct (skipn a l) as [|x t] eqn:E.
    + assert (length (skipn a l) = 0) as H0 by (rewrite E; reflexivity). rewrite skipn_length in H0. lia.
    + simpl. f_equal.
      * assert (nth a l d = nth 0 (skipn a l) d) as H1.
        { rewrite <- (firstn_skipn a l) at 1. rewrite app_nth2; rewrite firstn_length; try lia.
          replace (a - Nat.min a (length l)) with 0 by lia. reflexivity. }
        rewrite H1, E. reflexivity.
      * assert (t = skipn (S a) l) as Ht.
        { replace (S a) with (a + 1) by lia. rewrite <- skipn_skipn'. rewrite E. reflexivity. }
        rewrite Ht. apply IH. lia.
Qed.

Lemma seq_snoc : forall a n, seq a (S n) = seq a n ++ [a + n].
Proof. intros a n. rewrite seq_S. reflexivity. Qed.

Lemma in_firstn : forall {A} (x : A) n l, In x (firstn n l) -> In x l.
Proof. intros A x n l H. rewrite <- (firstn_skipn n l). apply in_or_app. left. exact H. Qed.

Lemma in_skipn : forall {A} (x : A) n l, In x (skipn n l) -> In x l.
Proof. intros A x n l H. rewrite <- (firstn_skipn n l). apply in_or_app. right. exact H. Qed.

Lemma Forall_firstn' : forall {A} (P : A -> Prop) n l, Forall P l -> Forall P (firstn n l).
Proof. intros A P n l H. rewrite Forall_forall in *. intros x Hx. apply H. eapply in_firstn. exact Hx. Qed.

Lemma Forall_skipn' : forall {A} (P : A -> Prop) n l, Forall P l -> Forall P (skipn n l).
Proof. intros A P n l H. rewrite Forall_forall in *. intros x Hx. apply H. eapply in_skipn. exact Hx. Qed.

(* concatenation of words of equal width *)
Definition all_len {A} (w : nat) (L : list (list A)) : Prop := Forall (fun x => length x = w) L.

Lemma concat_length_uniform : forall {A} w (L : list (list A)), all_len w L -> length (concat L) = w * length L.
Proof.
  intros A w L H. induction H as [|x L Hx HL IH]; simpl.
  - lia.
  - rewrite app_length, IH, Hx. lia.
Qed.

Lemma skipn_concat_uniform : forall {A} w k (L : list (list A)), all_len w L -> skipn (w * k) (concat L) = concat (skipn k L).
Proof.
  intros A w k. induction k as [|k IH]; intros L H.
  - rewrite Nat.mul_0_r. reflexivity.
  - destruct H as [|x L Hx HL].
    + simpl. apply skipn_nil.
    + simpl concat. replace (w * S k) with (length x + w * k) by lia.
      rewrite <- skipn_skipn'.
      replace (skipn (length x) (x ++ concat L)) with (concat L).
      * simpl. apply IH. exact HL.
      * rewrite skipn_app, skipn_all, Nat.sub_diag. reflexivity.
Qed.

Lemma firstn_concat_uniform : forall {A} w k (L : list (list A)), all_len w L -> firstn (w * k) (concat L) = concat (firstn k L).
Proof.
  intros A w k. induction k as [|k IH]; intros L H.
  - rewrite Nat.mul_0_r. reflexivity.
  - destruct H as [|x L Hx HL].
    + simpl. apply firstn_nil.
    + simpl concat. replace (w * S k) with (length x + w * k) by lia.
      rewrite firstn_app_2. simpl. f_equal. apply IH. exact HL.
Qed.

Lemma all_len_firstn : forall {A} w n (L : list (list A)), all_len w L -> all_len w (firstn n L).
Proof. intros. apply Forall_firstn'. assumption. Qed.
Lemma all_len_skipn : forall {A} w n (L : list (list A)), all_len w L -> all_len w (skipn n L).
Proof. intros. apply Forall_skipn'. assumption. Qed.

(* ================================================================== bytes and xor *)
Definition bytes (w : list N) : Prop := Forall (fun b => (b < 256)%N) w.
Definition wfw (w : list N) : Prop := length w = 4 /\ bytes w.

Lemma lxor_byte : forall a b, (a < 256 -> b < 256 -> N.lxor a b < 256)%N.
Proof.
  intros a b Ha Hb.
  destruct (N.eq_dec (N.lxor a b) 0) as [E|E]; [rewrite E; reflexivity|].
  change 256%N with (2 ^ 8)%N. apply N.log2_lt_pow2; [lia|].
  assert (forall x, (x < 256)%N -> (N.log2 x < 8)%N) as L.
  { intros x Hx. destruct (N.eq_dec x 0) as [->|Hx0]; [reflexivity|]. apply N.log2_lt_pow2; [lia|exact Hx]. }
  pose proof (N.log2_lxor a b) as H. specialize (L a Ha) as La. specialize (L b Hb) as Lb. lia.
Qed.

Lemma bxor_is_xorl : forall a b, bxor a b = xorl a b.
Proof. reflexivity. Qed.

Lemma xorl_length : forall a b, length (xorl a b) = Nat.min (length a) (length b).
Proof. intros a b. unfold xorl. rewrite map_length, combine_length. reflexivity. Qed.

Lemma xorl_comm : forall a b, xorl a b = xorl b a.
Proof.
  induction a as [|x a IH]; destruct b as [|y b]; try reflexivity.
  unfold xorl in *. simpl. rewrite N.lxor_comm. f_equal. apply IH.
Qed.

Lemma xorl_assoc : forall a b c, xorl (xorl a b) c = xorl a (xorl b c).
Proof.
  induction a as [|x a IH]; destruct b as [|y b]; destruct c as [|z c]; try reflexivity.
  unfold xorl in *. simpl. rewrite N.lxor_assoc. f_equal. apply IH.
Qed.

Lemma xorl_cancel_r : forall a b, length a <= length b -> xorl (xorl a b) b = a.
Proof.
  induction a as [|x a IH]; destruct b as [|y b]; intros H; try reflexivity.
  - simpl in H. lia.
  - unfold xorl in *. simpl. rewrite N.lxor_assoc, N.lxor_nilpotent, N.lxor_0_r. f_equal. apply IH. simpl in H. lia.
Qed.

Lemma xorl_wfw : forall a b, wfw a -> wfw b -> wfw (xorl a b).
Proof.
  intros a b [La Ba] [Lb Bb]. split.
  - rewrite xorl_length, La, Lb. reflexivity.
  - unfold bytes in *. clear La Lb. revert b Bb. induction Ba as [|x a Hx Ha IH]; intros b Bb.
    + constructor.
    + destruct Bb as [|y b Hy Hb]; [constructor|].
      unfold xorl. simpl. constructor; [apply lxor_byte; assumption|]. apply IH. exact Hb.
Qed.

(* ================================================================== the regenerated tables against the standard *)
Lemma sbox_table_all :
  forallb (fun i => let x := N.of_nat i in (tbl KS_SBOX x =? sbox_spec x)%N && (sbox_spec x <? 256)%N) (seq 0 256) = true.
Proof. vm_compute. reflexivity. Qed.

Lemma sbox_table : forall x, (x < 256)%N -> tbl KS_SBOX x = sbox_spec x /\ (sbox_spec x < 256)%N.
Proof.
  intros x Hx. pose proof sbox_table_all as H. rewrite forallb_forall in H.
  specialize (H (N.to_nat x)). rewrite N2Nat.id in H.
  assert (In (N.to_nat x) (seq 0 256)) as Hin by (apply in_seq; lia).
  apply H in Hin. apply andb_true_iff in Hin. destruct Hin as [H1 H2].
  apply N.eqb_eq in H1. apply N.ltb_lt in H2. split; assumption.
Qed.

Lemma sub_word_spec : forall w, bytes w -> sub_word_m w = SubWord w /\ bytes (SubWord w).
Proof.
  intros w H. induction H as [|x w Hx Hw [IH1 IH2]].
  - split; [reflexivity|constructor].
  - destruct (sbox_table x Hx) as [E L]. split.
    + unfold sub_word_m, SubWord in *. simpl. rewrite E, IH1. reflexivity.
    + unfold SubWord. simpl. constructor; assumption.
Qed.

Lemma SubWord_wfw : forall w, wfw w -> wfw (SubWord w).
Proof. intros w [L B]. split; [unfold SubWord; rewrite map_length; exact L|apply sub_word_spec; exact B]. Qed.

Lemma roll_m1_is_RotWord : forall w, roll_m1 w = RotWord w.
Proof. reflexivity. Qed.

Lemma RotWord_wfw : forall w, wfw w -> wfw (RotWord w).
Proof.
  intros [|a t] [L B]; [split; assumption|].
  simpl. split.
  - rewrite app_length. simpl in *. lia.
  - unfold bytes in *. inversion B as [|? ? Ha Ht]; subst. apply Forall_app. split; [exact Ht|constructor; [exact Ha|constructor]].
Qed.

Lemma xtime_byte : forall b, (b < 256 -> xtime b < 256)%N.
Proof.
  intros b Hb. unfold xtime. cbv zeta. destruct (2 * b <? 256)%N eqn:E.
  - apply N.ltb_lt in E. exact E.
  - apply N.ltb_ge in E. apply lxor_byte; lia.
Qed.

Lemma Rcon_wfw : forall j, wfw (Rcon j).
Proof.
  intros j. unfold Rcon. split; [reflexivity|].
  constructor; [|repeat constructor].
  induction (j - 1) as [|n IH]; simpl; [reflexivity|apply xtime_byte; exact IH].
Qed.

Lemma nlist_eqb_eq : forall a b, Compare.nlist_eqb a b = true <-> a = b.
Proof.
  unfold Compare.nlist_eqb. induction a as [|x a IH]; destruct b as [|y b]; simpl; split; intros H; try reflexivity; try discriminate.
  - apply andb_true_iff in H. destruct H as [H1 H2]. apply N.eqb_eq in H1. apply IH in H2. subst. reflexivity.
  - inversion H; subst. rewrite N.eqb_refl. simpl. apply IH. reflexivity.
Qed.

Lemma rcon_table_all : forallb (fun j => Compare.nlist_eqb (nth (j - AES_FWD_RCON_SUB) KS_RCON []) (Rcon j)) (seq 1 10) = true.
Proof. vm_compute. reflexivity. Qed.

(* RCON[j - 1] is Rcon[j] of FIPS-197 5.2, for every j the schedules use *)
Lemma rcon_table : forall j, 1 <= j <= 10 -> nth (j - AES_FWD_RCON_SUB) KS_RCON [] = Rcon j.
Proof.
  intros j Hj. pose proof rcon_table_all as H. rewrite forallb_forall in H.
  apply nlist_eqb_eq. apply H. apply in_seq. lia.
Qed.

Lemma mod8_rule : forall i, i mod 8 <> 0 -> (i mod 4 =? 0) = (i mod 8 =? 4).
Proof.
  intros i Hi.
  assert (i mod 8 = i mod 4 + 4 * ((i / 4) mod 2)) as H8 by (change 8 with (4 * 2); apply Nat.mod_mul_r; lia).
  pose proof (Nat.mod_upper_bound (i / 4) 2 ltac:(lia)) as Hk.
  pose proof (Nat.mod_upper_bound i 4 ltac:(lia)) as Hr.
  rewrite H8 in Hi |- *. clear H8.
  generalize dependent (i mod 4). generalize dependent ((i / 4) mod 2). intros k Hk r Hi Hr.
  destruct (Nat.eqb_spec r 0) as [E|E]; destruct (Nat.eqb_spec (r + 4 * k) 4) as [F|F]; try reflexivity; exfalso; lia.
Qed.

Lemma fwd_loop_S : forall step n, fwd_loop step (S n) = fwd_loop step n ++ [step (fwd_loop step n) n].
Proof. reflexivity. Qed.
Lemma bwd_loop_S : forall step n, bwd_loop step (S n) = step (bwd_loop step n) n :: bwd_loop step n.
Proof. reflexivity. Qed.

(* ================================================================== FIPS-197 KeyExpansion as a recurrence on columns *)
Section Schedule.
  Variables (Nk : nat) (key : list N).
  Hypothesis HNk : Nk = 4 \/ Nk = 6 \/ Nk = 8.
  Hypothesis Hlen : length key = 4 * Nk.
  Hypothesis Hbytes : bytes key.

  Let T := total_words Nk.
  Definition sw (i : nat) : list N := nth i (KeyExpansion Nk key) [].

  Lemma key_words_length : forall n, length (key_words Nk key n) = n.
  Proof. induction n as [|n IH]; simpl; [reflexivity|]. rewrite app_length, IH. simpl. lia. Qed.

  Lemma key_words_stable : forall m n i d, i < n -> n <= m -> nth i (key_words Nk key m) d = nth i (key_words Nk key n) d.
  Proof.
    induction m as [|m IH]; intros n i d Hi Hn.
    - lia.
    - destruct (Nat.eq_dec n (S m)) as [->|Hne]; [reflexivity|].
      simpl. rewrite app_nth1 by (rewrite key_words_length; lia). apply IH; lia.
  Qed.

  Lemma key_words_last : forall n, nth n (key_words Nk key (S n)) [] = next_word Nk key n (key_words Nk key n).
  Proof.
    intros n. simpl. rewrite app_nth2 by (rewrite key_words_length; lia).
    rewrite key_words_length, Nat.sub_diag. reflexivity.
  Qed.

  Lemma KeyExpansion_length : length (KeyExpansion Nk key) = T.
  Proof. apply key_words_length. Qed.

  Lemma sw_next : forall i, i < T -> sw i = next_word Nk key i (key_words Nk key i).
  Proof.
    intros i Hi. unfold sw, KeyExpansion. fold T.
    rewrite key_words_stable with (n := S i) by lia. apply key_words_last.
  Qed.

  Lemma sw_prev : forall i j, j < i -> i <= T -> nth j (key_words Nk key i) [] = sw j.
  Proof. intros i j Hj Hi. unfold sw, KeyExpansion. fold T. symmetry. apply key_words_stable; lia. Qed.

  (* what is XORed onto w[i - Nk] *)
  Definition gtemp (i : nat) (t : list N) : list N :=
    if i mod Nk =? 0 then xorl (SubWord (RotWord t)) (Rcon (i / Nk))
    else if (6 <? Nk) && (i mod Nk =? 4) then SubWord t
    else t.

  Lemma sw_init : forall i, i < Nk -> sw i = key_word key i.
  Proof.
    intros i Hi. rewrite sw_next by (unfold T, total_words, Nr_of; lia).
    unfold next_word. apply Nat.ltb_lt in Hi. rewrite Hi. reflexivity.
  Qed.

  Lemma sw_rec : forall i, Nk <= i -> i < T -> sw i = xorl (sw (i - Nk)) (gtemp i (sw (i - 1))).
  Proof.
    intros i Hi HT. rewrite sw_next by exact HT. unfold next_word.
    assert ((i <? Nk) = false) as -> by (apply Nat.ltb_ge; exact Hi).
    rewrite !sw_prev by lia. reflexivity.
  Qed.

  Lemma key_word_wfw : forall i, i < Nk -> wfw (key_word key i).
  Proof.
    intros i Hi. unfold key_word. split.
    - rewrite firstn_length, skipn_length. lia.
    - apply Forall_firstn', Forall_skipn'. exact Hbytes.
  Qed.

  Lemma gtemp_wfw : forall i t, wfw t -> wfw (gtemp i t).
  Proof.
    intros i t Ht. unfold gtemp.
    destruct (i mod Nk =? 0).
    - apply xorl_wfw; [apply SubWord_wfw, RotWord_wfw; exact Ht|apply Rcon_wfw].
    - destruct ((6 <? Nk) && (i mod Nk =? 4)); [apply SubWord_wfw|]; exact Ht.
  Qed.

  Lemma sw_wfw : forall i, i < T -> wfw (sw i).
  Proof.
    intros i. induction i as [i IH] using lt_wf_ind. intros Hi.
    destruct (Nat.lt_ge_cases i Nk) as [Hlt|Hge].
    - rewrite sw_init by exact Hlt. apply key_word_wfw. exact Hlt.
    - rewrite sw_rec by assumption.
      assert (0 < Nk) by lia.
      apply xorl_wfw; [apply IH; lia|apply gtemp_wfw, IH; lia].
  Qed.

  Lemma KeyExpansion_all_len : all_len 4 (KeyExpansion Nk key).
  Proof.
    unfold all_len. apply Forall_forall. intros w Hw.
    destruct (In_nth _ _ [] Hw) as [i [Hi E]].
    assert (i < T) as Hi' by (rewrite <- KeyExpansion_length; exact Hi).
    rewrite <- E. apply (sw_wfw i Hi').
  Qed.

  (* columns a .. a+n-1 of the schedule *)
  Lemma cols_seq : forall a b, b <= T -> cols (KeyExpansion Nk key) a b = map sw (seq a (b - a)).
  Proof.
    intros a b Hb. unfold cols. destruct (Nat.le_gt_cases a b) as [Hab|Hab].
    - apply firstn_skipn_seq. pose proof KeyExpansion_length as HL. unfold word in *. lia.
    - replace (b - a) with 0 by lia. reflexivity.
  Qed.

  Lemma map_sw_wfw : forall a n, a + n <= T -> Forall wfw (map sw (seq a n)).
  Proof.
    intros a n H. apply Forall_forall. intros w Hw. apply in_map_iff in Hw. destruct Hw as [i [<- Hi]].
    apply in_seq in Hi. apply sw_wfw. lia.
  Qed.

  (* ---------------------------------------------------------------- the two side conditions of the code *)
  Lemma extra_rule : forall i, i mod Nk <> 0 ->
    ((4 * Nk =? 32) && (i mod 4 =? 0)) = ((6 <? Nk) && (i mod Nk =? 4)).
  Proof.
    intros i Hi. destruct HNk as [-> | [-> | ->]]; try reflexivity.
    change (4 * 8 =? 32) with true. change (6 <? 8) with true. rewrite !andb_true_l.
    apply mod8_rule. exact Hi.
  Qed.

  Lemma rcon_range : forall i, Nk <= i -> i < T -> 1 <= i / Nk <= 10.
  Proof.
    intros i Hi HT. unfold T, total_words, Nr_of in HT.
    destruct HNk as [-> | [-> | ->]]; lia.
  Qed.

  (* ---------------------------------------------------------------- _expand_forward from the true window *)
  Lemma fwd_step_correct : forall col_in n,
    col_in + Nk <= T -> col_in + n < T ->
    fwd_step (4 * Nk) Nk col_in (map sw (seq col_in Nk)) (map sw (seq col_in n)) n = sw (col_in + n).
  Proof.
    intros col_in n Hwin Hn. unfold fwd_step. cbv zeta.
    destruct (Nat.ltb_spec n Nk) as [Hlt|Hge].
    - apply nth_map_seq. exact Hlt.
    - assert (0 < Nk) as Hpos by lia.
      assert (forall c, col_in <= c -> c < col_in + n -> nth (c - col_in) (map sw (seq col_in n)) [] = sw c) as Hat.
      { intros c H1 H2. rewrite nth_map_seq by lia. f_equal. lia. }
      rewrite !Hat by lia.
      rewrite (sw_rec (col_in + n)) by lia. unfold gtemp.
      pose proof (sw_wfw (col_in + n - 1) ltac:(lia)) as [_ Bprev].
      destruct (Nat.eqb_spec ((col_in + n) mod Nk) 0) as [E|E].
      + rewrite !bxor_is_xorl, roll_m1_is_RotWord.
        destruct (sub_word_spec (RotWord (sw (col_in + n - 1)))) as [-> _].
        { apply RotWord_wfw. apply sw_wfw. lia. }
        rewrite rcon_table by (apply rcon_range; lia).
        apply xorl_comm.
      + unfold AES_FWD_EXTRA_KLEN, AES_FWD_EXTRA_MOD. rewrite (extra_rule _ E).
        destruct ((6 <? Nk) && ((col_in + n) mod Nk =? 4)).
        * rewrite bxor_is_xorl. destruct (sub_word_spec _ Bprev) as [-> _]. apply xorl_comm.
        * rewrite bxor_is_xorl. apply xorl_comm.
  Qed.

  Lemma fwd_loop_correct : forall col_in n,
    col_in + Nk <= T -> col_in + n <= T ->
    fwd_loop (fwd_step (4 * Nk) Nk col_in (map sw (seq col_in Nk))) n = map sw (seq col_in n).
  Proof.
    intros col_in n Hwin. induction n as [|n IH]; intros Hn.
    - reflexivity.
    - rewrite fwd_loop_S. rewrite IH by lia. rewrite fwd_step_correct by lia.
      rewrite seq_snoc, map_app. reflexivity.
  Qed.

  (* ---------------------------------------------------------------- _expand_backward from the true window *)
  Lemma bwd_step_correct : forall col_in n,
    col_in + Nk <= T -> n < col_in + Nk ->
    bwd_step (4 * Nk) Nk col_in (map sw (seq col_in Nk)) (map sw (seq (col_in + Nk - n) n)) n = sw (col_in + Nk - 1 - n).
  Proof.
    intros col_in n Hwin Hn. unfold bwd_step. cbv zeta.
    destruct (Nat.ltb_spec n Nk) as [Hlt|Hge].
    - rewrite nth_map_seq by lia. f_equal. lia.
    - assert (0 < Nk) as Hpos by lia.
      set (col := col_in + Nk - 1 - n).
      assert (forall c, col + 1 <= c -> c < col + 1 + n -> nth (c - (col + 1)) (map sw (seq (col_in + Nk - n) n)) [] = sw c) as Hat.
      { intros c H1 H2. rewrite nth_map_seq by lia. f_equal. unfold col. lia. }
      rewrite !Hat by (unfold col; lia).
      assert (col + Nk < T) as HcT by (unfold col; lia).
      pose proof (sw_rec (col + Nk) ltac:(lia) HcT) as Hrec.
      replace (col + Nk - Nk) with col in Hrec by lia.
      pose proof (sw_wfw col ltac:(lia)) as [Lcol _].
      pose proof (sw_wfw (col + Nk - 1) ltac:(lia)) as Wprev.
      assert (wfw (gtemp (col + Nk) (sw (col + Nk - 1)))) as [Lg _] by (apply gtemp_wfw; exact Wprev).
      (* the forward relation solved for w[col] *)
      assert (sw col = xorl (sw (col + Nk)) (gtemp (col + Nk) (sw (col + Nk - 1)))) as Hsolve.
      { rewrite Hrec. rewrite xorl_cancel_r by lia. reflexivity. }
      rewrite Hsolve. unfold gtemp.
      assert ((col + Nk) / Nk = S (col / Nk)) as Hdiv.
      { replace (col + Nk) with (col + 1 * Nk) by lia. rewrite Nat.div_add by lia. lia. }
      assert ((col + Nk) mod Nk = col mod Nk) as Hmod.
      { replace (col + Nk) with (col + 1 * Nk) by lia. apply Nat.mod_add. lia. }
      rewrite Hmod, Hdiv.
      destruct (Nat.eqb_spec (col mod Nk) 0) as [E|E].
      + rewrite !bxor_is_xorl, roll_m1_is_RotWord.
        destruct (sub_word_spec (RotWord (sw (col + Nk - 1)))) as [-> _].
        { apply RotWord_wfw. exact Wprev. }
        assert (1 <= S (col / Nk) <= 10) as Hr.
        { rewrite <- Hdiv. apply rcon_range; lia. }
        pose proof (rcon_table (S (col / Nk)) Hr) as Hrc. unfold AES_FWD_RCON_SUB in Hrc.
        replace (S (col / Nk) - 1) with (col / Nk) in Hrc by lia. rewrite Hrc.
        apply xorl_assoc.
      + unfold AES_BWD_EXTRA_KLEN, AES_BWD_EXTRA_MOD.
        rewrite (extra_rule col E).
        destruct ((6 <? Nk) && (col mod Nk =? 4)).
        * rewrite bxor_is_xorl. destruct Wprev as [_ Bp]. destruct (sub_word_spec _ Bp) as [-> _]. apply xorl_comm.
        * reflexivity.
  Qed.

  Lemma bwd_loop_correct : forall col_in n,
    col_in + Nk <= T -> n <= col_in + Nk ->
    bwd_loop (bwd_step (4 * Nk) Nk col_in (map sw (seq col_in Nk))) n = map sw (seq (col_in + Nk - n) n).
  Proof.
    intros col_in n Hwin. induction n as [|n IH]; intros Hn.
    - reflexivity.
    - rewrite bwd_loop_S. rewrite IH by lia. rewrite bwd_step_correct by lia.
      replace (col_in + Nk - S n) with (col_in + Nk - 1 - n) by lia.
      replace (col_in + Nk - n) with (S (col_in + Nk - 1 - n)) by lia.
      reflexivity.
  Qed.
End Schedule.

(* ================================================================== key_expansion / key_schedule / inv_key_schedule *)
Lemma is_bytes_true : forall l, bytes l -> is_bytes l = true.
Proof.
  intros l H. unfold is_bytes. apply forallb_forall. intros x Hx.
  unfold bytes in H. rewrite Forall_forall in H. apply N.ltb_lt. apply H. exact Hx.
Qed.

Lemma concat_bytes : forall L, Forall wfw L -> bytes (concat L).
Proof.
  intros L H. induction H as [|w L [_ Bw] HL IH]; simpl.
  - constructor.
  - apply Forall_app. split; assumption.
Qed.

Lemma wfw_all_len : forall L, Forall wfw L -> all_len 4 L.
Proof. intros L H. unfold all_len. eapply Forall_impl; [|exact H]. intros w [Lw _]. exact Lw. Qed.

Lemma nth_as_firstn1 : forall {A} (L : list A) d i, i < length L -> firstn 1 (skipn i L) = [nth i L d].
Proof. intros A L d i Hi. rewrite firstn_skipn_seq with (d := d) by lia. reflexivity. Qed.

Lemma list_as_map_nth : forall {A} (L : list A) d, L = map (fun i => nth i L d) (seq 0 (length L)).
Proof.
  intros A L d. rewrite <- firstn_skipn_seq by lia. simpl. symmetry. apply firstn_all.
Qed.

Lemma columns_of_concat : forall L, all_len 4 L -> columns_of (length L) (concat L) = L.
Proof.
  intros L H. unfold columns_of, AES_BYTES_PER_COL.
  transitivity (map (fun i => nth i L []) (seq 0 (length L))); [|symmetry; apply list_as_map_nth].
  apply map_ext_in. intros i Hi. apply in_seq in Hi.
  rewrite skipn_concat_uniform by exact H.
  change 4 with (4 * 1) at 1. rewrite firstn_concat_uniform by (apply all_len_skipn; exact H).
  rewrite nth_as_firstn1 with (d := []) by lia. simpl. apply app_nil_r.
Qed.

Lemma concat_chunks4 : forall n (l : list N), length l = 4 * n ->
  concat (map (fun i => firstn 4 (skipn (4 * i) l)) (seq 0 n)) = l.
Proof.
  induction n as [|n IH]; intros l Hl.
  - destruct l; [reflexivity|simpl in Hl; lia].
  - change (seq 0 (S n)) with (0 :: seq 1 n). rewrite map_cons, concat_cons. rewrite <- seq_shift, map_map.
    rewrite map_ext with (g := fun i => firstn 4 (skipn (4 * i) (skipn 4 l))).
    + rewrite IH by (rewrite skipn_length; lia). change (skipn (4 * 0) l) with l. apply firstn_skipn.
    + intros i. rewrite skipn_skipn'. f_equal. f_equal. lia.
Qed.

Section Wrapper.
  Variables (Nk : nat) (key : list N).
  Hypothesis HNk : Nk = 4 \/ Nk = 6 \/ Nk = 8.
  Hypothesis Hkey : wf_aes_key Nk key.

  Let Hlen : length key = 4 * Nk := proj1 Hkey.
  Let Hbytes : bytes key := proj2 Hkey.
  Let T := total_words Nk.
  Let W := KeyExpansion Nk key.
  Let sw' := sw Nk key.

  Lemma window_facts : forall col_in, col_in + Nk <= T ->
    let win := concat (map sw' (seq col_in Nk)) in
    length win = 4 * Nk /\ is_bytes win = true /\ columns_of Nk win = map sw' (seq col_in Nk).
  Proof.
    intros col_in Hwin win.
    pose proof (map_sw_wfw Nk key HNk Hlen Hbytes col_in Nk Hwin) as Hw.
    pose proof (wfw_all_len _ Hw) as Hal.
    assert (length (map sw' (seq col_in Nk)) = Nk) as HL by (rewrite map_length, seq_length; reflexivity).
    split; [|split].
    - unfold win. rewrite (concat_length_uniform 4) by exact Hal. rewrite HL. reflexivity.
    - apply is_bytes_true, concat_bytes. exact Hw.
    - unfold win. rewrite <- HL at 1. apply columns_of_concat. exact Hal.
  Qed.

  Lemma key_lengths_ok : existsb (Nat.eqb (4 * Nk)) AES_KEY_LENGTHS = true /\ (4 * Nk / AES_BYTES_PER_COL = Nk)
    /\ lookup_nat (4 * Nk) AES_COLS_OUT = Some T.
  Proof. unfold T. destruct HNk as [-> | [-> | ->]]; repeat split; reflexivity. Qed.

  (* key_expansion from the true window, any direction *)
  Lemma key_expansion_window : forall col_in col_out co,
    col_in + Nk <= T -> co <= T -> (col_out = Some co \/ (col_out = None /\ co = T)) ->
    key_expansion_m (concat (map sw' (seq col_in Nk))) col_in col_out =
    Some (concat (if col_in <? co then map sw' (seq col_in (co - col_in)) else map sw' (seq co (col_in + Nk - co)))).
  Proof.
    intros col_in col_out co Hwin Hco Hout.
    destruct (window_facts col_in Hwin) as [Hl [Hb Hc]]. cbv zeta in Hl, Hb, Hc.
    destruct key_lengths_ok as [K1 [K2 K3]].
    unfold key_expansion_m. rewrite Hl, Hb, K1, K2, K3. simpl negb. simpl orb. cbv iota.
    assert (match col_out with Some c => c | None => T end = co) as -> by (destruct Hout as [-> | [-> ->]]; reflexivity).
    assert ((T <? co) = false) as -> by (apply Nat.ltb_ge; exact Hco).
    rewrite Hc.
    destruct (Nat.ltb_spec col_in co) as [Hlt|Hge].
    - unfold expand_forward. unfold sw'. rewrite fwd_loop_correct by (try assumption; fold T; lia). reflexivity.
    - unfold expand_backward. unfold sw'. rewrite bwd_loop_correct by (try assumption; fold T; lia).
      replace (col_in + Nk - (col_in - co + Nk)) with co by lia.
      replace (col_in - co + Nk) with (col_in + Nk - co) by lia. reflexivity.
  Qed.

  Lemma key_is_window : key = concat (map sw' (seq 0 Nk)).
  Proof.
    rewrite map_ext_in with (g := key_word key).
    - unfold key_word. symmetry. apply concat_chunks4. exact Hlen.
    - intros i Hi. apply in_seq in Hi. apply (sw_init Nk key HNk Hlen). lia.
  Qed.

  Lemma W_as_map : W = map sw' (seq 0 T).
  Proof.
    unfold W, sw', sw. rewrite (list_as_map_nth (KeyExpansion Nk key) []) at 1.
    pose proof (KeyExpansion_length Nk key HNk Hlen) as HL. unfold word in *. fold T in HL. rewrite HL. reflexivity.
  Qed.

  Lemma aes_expansion_full : key_expansion_m key 0 None = Some (concat W).
  Proof.
    assert (0 + Nk <= T) as H0 by (unfold T, total_words, Nr_of; lia).
    rewrite key_is_window at 1.
    rewrite (key_expansion_window 0 None T H0 (le_n T)) by (right; split; reflexivity).
    assert ((0 <? T) = true) as -> by (apply Nat.ltb_lt; unfold T, total_words, Nr_of; lia).
    rewrite Nat.sub_0_r. rewrite <- W_as_map. reflexivity.
  Qed.

  Lemma W_all_len : all_len 4 W.
  Proof. apply KeyExpansion_all_len; assumption. Qed.

  Lemma rows_of_schedule : rows_of AES_RK_BYTES (concat W) = round_keys Nk key.
  Proof.
    unfold rows_of, round_keys, AES_RK_BYTES. fold W.
    assert (length (concat W) / 16 = Nr_of Nk + 1) as ->.
    { rewrite (concat_length_uniform 4) by exact W_all_len.
      pose proof (KeyExpansion_length Nk key HNk Hlen) as HL. unfold word in *. fold W in HL. rewrite HL.
      unfold total_words. generalize (Nr_of Nk). intros r. lia. }
    apply map_ext. intros r. unfold round_key_of.
    replace (16 * r) with (4 * (4 * r)) by lia.
    rewrite skipn_concat_uniform by exact W_all_len.
    change 16 with (4 * 4). apply firstn_concat_uniform. apply all_len_skipn. exact W_all_len.
  Qed.

  Lemma aes_schedule_full : key_schedule_m key = Some (round_keys Nk key).
  Proof. unfold key_schedule_m. rewrite aes_expansion_full. rewrite rows_of_schedule. reflexivity. Qed.

  Lemma cols_W : forall a b, b <= T -> cols W a b = map sw' (seq a (b - a)).
  Proof. intros a b Hb. apply cols_seq; assumption. Qed.

  Lemma expand_forward_window_lemma : forall col_in col_out,
    col_in + Nk <= T -> col_out <= T -> col_in < col_out ->
    key_expansion_m (concat (cols W col_in (col_in + Nk))) col_in (Some col_out) = Some (concat (cols W col_in col_out)).
  Proof.
    intros col_in col_out Hwin Hco Hlt.
    rewrite !cols_W by lia. replace (col_in + Nk - col_in) with Nk by lia.
    rewrite (key_expansion_window col_in (Some col_out) col_out Hwin Hco) by (left; reflexivity).
    apply Nat.ltb_lt in Hlt. rewrite Hlt. reflexivity.
  Qed.

  Lemma expand_backward_window_lemma : forall col_in col_out,
    col_in + Nk <= T -> col_out <= col_in ->
    key_expansion_m (concat (cols W col_in (col_in + Nk))) col_in (Some col_out) = Some (concat (cols W col_out (col_in + Nk))).
  Proof.
    intros col_in col_out Hwin Hle.
    rewrite !cols_W by lia. replace (col_in + Nk - col_in) with Nk by lia.
    rewrite (key_expansion_window col_in (Some col_out) col_out Hwin) by (try lia; left; reflexivity).
    assert ((col_in <? col_out) = false) as -> by (apply Nat.ltb_ge; exact Hle). reflexivity.
  Qed.

  Lemma expand_default_window_lemma : forall col_in,
    col_in + Nk <= T ->
    key_expansion_m (concat (cols W col_in (col_in + Nk))) col_in None = Some (concat (cols W col_in T)).
  Proof.
    intros col_in Hwin.
    rewrite !cols_W by lia. replace (col_in + Nk - col_in) with Nk by lia.
    rewrite (key_expansion_window col_in None T Hwin (le_n T)) by (right; split; reflexivity).
    assert (0 < Nk) as Hpos by (destruct HNk as [-> | [-> | ->]]; lia).
    assert ((col_in <? T) = true) as -> by (apply Nat.ltb_lt; lia). reflexivity.
  Qed.
End Wrapper.

(* ================================================================== inv_key_schedule (AES-128) *)
Lemma round_key_as_cols : forall Nk key r, r <= Nr_of Nk ->
  nth r (round_keys Nk key) [] = concat (cols (KeyExpansion Nk key) (4 * r) (4 * r + 4)).
Proof.
  intros Nk key r Hr. unfold round_keys. rewrite nth_map_seq by lia. rewrite Nat.add_0_l.
  unfold round_key_of, cols. replace (4 * r + 4 - 4 * r) with 4 by lia. reflexivity.
Qed.

Lemma inv_key_schedule_any : forall key r ro, wf_aes_key 4 key -> r <= 10 -> (ro = Some r \/ (ro = None /\ r = 10)) ->
  inv_key_schedule_m (nth r (round_keys 4 key) []) ro = Some (round_keys 4 key).
Proof.
  intros key r ro Hkey Hr Hro.
  assert (4 = 4 \/ 4 = 6 \/ 4 = 8) as HNk by (left; reflexivity).
  rewrite round_key_as_cols by (unfold Nr_of; lia).
  unfold inv_key_schedule_m.
  assert (match ro with Some x => x | None => AES_INV_DEFAULT_ROUND end = r) as -> by (destruct Hro as [-> | [-> ->]]; reflexivity).
  unfold AES_INV_COLS_PER_ROUND, AES_INV_COL_OUT, AES_INV_KEEP.
  replace (4 * r) with (r * 4) by lia.
  rewrite (expand_backward_window_lemma 4 key HNk Hkey (r * 4) 0) by (unfold total_words, Nr_of; lia).
  pose proof (W_all_len 4 key HNk Hkey) as Hal.
  change 16 with (4 * 4).
  rewrite firstn_concat_uniform by (unfold cols; apply all_len_firstn, all_len_skipn; exact Hal).
  assert (firstn 4 (cols (KeyExpansion 4 key) 0 (r * 4 + 4)) = cols (KeyExpansion 4 key) 0 4) as ->.
  { unfold cols. rewrite !Nat.sub_0_r. simpl skipn. rewrite firstn_firstn. f_equal. lia. }
  rewrite (cols_W 4 key HNk Hkey) by (unfold total_words, Nr_of; lia).
  change (4 - 0) with 4. rewrite <- (key_is_window 4 key HNk Hkey).
  apply aes_schedule_full; assumption.
Qed.

(* ================================================================== statements used by Props/C10.v *)
Definition nk_valid (Nk : nat) : Prop := Nk = 4 \/ Nk = 6 \/ Nk = 8.

Lemma aes_expansion_is_fips_lemma : forall Nk key, nk_valid Nk -> wf_aes_key Nk key ->
  key_expansion_m key 0 None = Some (concat (KeyExpansion Nk key)) /\ key_schedule_m key = Some (round_keys Nk key).
Proof. intros Nk key HNk Hkey. split; [apply aes_expansion_full|apply aes_schedule_full]; assumption. Qed.

Lemma expand_forward_window_thm : forall Nk key col_in col_out, nk_valid Nk -> wf_aes_key Nk key ->
  col_in + Nk <= total_words Nk -> col_out <= total_words Nk -> col_in < col_out ->
  key_expansion_m (concat (cols (KeyExpansion Nk key) col_in (col_in + Nk))) col_in (Some col_out)
  = Some (concat (cols (KeyExpansion Nk key) col_in col_out)).
Proof. intros. apply expand_forward_window_lemma; assumption. Qed.

Lemma expand_backward_window_thm : forall Nk key col_in col_out, nk_valid Nk -> wf_aes_key Nk key ->
  col_in + Nk <= total_words Nk -> col_out <= col_in ->
  key_expansion_m (concat (cols (KeyExpansion Nk key) col_in (col_in + Nk))) col_in (Some col_out)
  = Some (concat (cols (KeyExpansion Nk key) col_out (col_in + Nk))).
Proof. intros. apply expand_backward_window_lemma; assumption. Qed.

Lemma expand_default_window_thm : forall Nk key col_in, nk_valid Nk -> wf_aes_key Nk key ->
  col_in + Nk <= total_words Nk ->
  key_expansion_m (concat (cols (KeyExpansion Nk key) col_in (col_in + Nk))) col_in None
  = Some (concat (cols (KeyExpansion Nk key) col_in (total_words Nk))).
Proof. intros. apply expand_default_window_lemma; assumption. Qed.

(* a window is a legal key argument: 4 Nk bytes *)
Lemma window_is_key : forall Nk key col_in, nk_valid Nk -> wf_aes_key Nk key -> col_in + Nk <= total_words Nk ->
  wf_aes_key Nk (concat (cols (KeyExpansion Nk key) col_in (col_in + Nk))).
Proof.
  intros Nk key col_in HNk Hkey Hwin.
  rewrite (cols_W Nk key HNk Hkey) by lia. replace (col_in + Nk - col_in) with Nk by lia.
  destruct Hkey as [Hlen Hbytes].
  pose proof (map_sw_wfw Nk key HNk Hlen Hbytes col_in Nk Hwin) as Hw.
  split.
  - rewrite (concat_length_uniform 4) by (apply wfw_all_len; exact Hw). rewrite map_length, seq_length. reflexivity.
  - apply concat_bytes. exact Hw.
Qed.

(* the master key is the first Nk columns of what the backward expansion to column 0 returns *)
Lemma master_from_window : forall Nk key col_in, nk_valid Nk -> wf_aes_key Nk key -> col_in + Nk <= total_words Nk ->
  exists e, key_expansion_m (concat (cols (KeyExpansion Nk key) col_in (col_in + Nk))) col_in (Some 0) = Some e
            /\ firstn (4 * Nk) e = key.
Proof.
  intros Nk key col_in HNk Hkey Hwin.
  eexists. split; [apply expand_backward_window_thm; try assumption; lia|].
  pose proof (W_all_len Nk key HNk Hkey) as Hal.
  rewrite firstn_concat_uniform by (unfold cols; apply all_len_firstn, all_len_skipn; exact Hal).
  assert (firstn Nk (cols (KeyExpansion Nk key) 0 (col_in + Nk)) = cols (KeyExpansion Nk key) 0 Nk) as ->.
  { unfold cols. rewrite !Nat.sub_0_r. simpl skipn. rewrite firstn_firstn. f_equal. lia. }
  rewrite (cols_W Nk key HNk Hkey) by lia. rewrite Nat.sub_0_r.
  symmetry. apply key_is_window; assumption.
Qed.

(* decision of the key conditions (used by the Examples) *)
Lemma wf_aes_key_dec : forall Nk key, (length key =? 4 * Nk) && is_bytes key = true -> wf_aes_key Nk key.
Proof.
  intros Nk key H. apply andb_true_iff in H. destruct H as [H1 H2]. apply Nat.eqb_eq in H1. split; [exact H1|].
  apply Forall_forall. intros x Hx. unfold is_bytes in H2. rewrite forallb_forall in H2. apply N.ltb_lt. apply H2. exact Hx.
Qed.
