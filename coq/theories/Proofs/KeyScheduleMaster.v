(* Proofs/KeyScheduleMaster.v — property C10, DES master key from one round key: the impl-model of _find_possible_keys /
   _convert_hypothesis_bits_into_keys / get_master_key (Model/KeySchedule.v, over the regenerated PC1, PC2, nb_shift and
   unknown-bit mask) against the key schedule of FIPS 46-3 (Spec/DesKeySpec.v). *)
From Coq Require Import NArith ZArith List Bool Arith Lia ZifyNat ZifyN.
From ScaredV Require Import Generated.KeySchedTables Spec.DesKeySpec Run.Compare Model.KeySchedule
  Proofs.KeySchedule Proofs.KeyScheduleDes.
Import ListNotations.
Local Ltac Zify.zify_post_hook ::= Z.div_mod_to_equations.
Local Open Scope nat_scope.

(* ================================================================== arrays *)
Lemma upd_length : forall {A} i (v : A) l, length (upd i v l) = length l.
Proof. intros A i v l. revert i. induction l as [|h t IH]; intros [|i]; simpl; auto. Qed.

Lemma nth_upd : forall {A} (l : list A) i v q d,
  nth q (upd i v l) d = if (q =? i) && (i <? length l) then v else nth q l d.
Proof.
  intros A l. induction l as [|h t IH]; intros i v q d.
  - simpl. destruct i; rewrite andb_false_r; reflexivity.
  - destruct i as [|i]; destruct q as [|q]; simpl; try reflexivity.
    rewrite IH. reflexivity.
Qed.

Lemma nth_firstn_lt : forall {A} (l : list A) n j d, j < n -> nth j (firstn n l) d = nth j l d.
Proof.
  intros A l n. revert l. induction n as [|n IH]; intros l j d Hj; [lia|].
  destruct l as [|x l]; [destruct j; reflexivity|]. destruct j as [|j]; [reflexivity|]. simpl. apply IH. lia.
Qed.

Lemma nth_skipn' : forall {A} (l : list A) n j d, nth j (skipn n l) d = nth (n + j) l d.
Proof.
  intros A l n. revert l. induction n as [|n IH]; intros l j d; [reflexivity|].
  destruct l as [|x l]; [destruct j; reflexivity|]. simpl. apply IH.
Qed.

Lemma existsb_filter_and : forall {A} (p g : A -> bool) l, existsb (fun i => p i && g i) l = existsb g (filter p l).
Proof.
  intros A p g l. induction l as [|x l IH]; [reflexivity|]. simpl. destruct (p x); simpl; rewrite IH; reflexivity.
Qed.

Lemma groups_nth : forall {A} w n (l : list A) k, k < n -> nth k (groups w n l) [] = firstn w (skipn (w * k) l).
Proof.
  intros A w n. induction n as [|n IH]; intros l k Hk; [lia|].
  destruct k as [|k]; simpl groups; [rewrite Nat.mul_0_r; reflexivity|].
  simpl nth. rewrite IH by lia. rewrite skipn_skipn'. f_equal. f_equal. lia.
Qed.

(* ================================================================== stage 1: PC-2 removed *)
Lemma undo_pc2_loop_length : forall rk n, length (undo_pc2_loop rk n) = 56.
Proof.
  intros rk n. induction n as [|n IH]; [reflexivity|]. simpl. destruct (rk_bit rk n); [rewrite upd_length|]; exact IH.
Qed.

Lemma undo_pc2_loop_nth : forall rk n q, q < 56 ->
  nth q (undo_pc2_loop rk n) 0%N =
  if existsb (fun i => (nth i DES_PC2 0 - 1 =? q) && rk_bit rk i) (seq 0 n) then 1%N else nth q DES_CI_DI 0%N.
Proof.
  intros rk n q Hq. induction n as [|n IH]; [reflexivity|].
  rewrite seq_snoc, existsb_app. cbn [existsb Nat.add]. rewrite orb_false_r.
  cbn [undo_pc2_loop]. destruct (rk_bit rk n) eqn:Hb.
  - rewrite nth_upd, undo_pc2_loop_length, IH.
    rewrite (Nat.eqb_sym q). destruct (Nat.eqb_spec (nth n DES_PC2 0 - 1) q) as [E|E].
    + rewrite E. assert ((q <? 56) = true) as -> by (apply Nat.ltb_lt; exact Hq). simpl. rewrite orb_true_r. reflexivity.
    + simpl. rewrite orb_false_r. reflexivity.
  - rewrite andb_false_r, orb_false_r. exact IH.
Qed.

Definition pc2_inv (q : nat) : list nat := filter (fun i => nth i DES_PC2 0 - 1 =? q) (seq 0 48).

Lemma undo_pc2_nth : forall rk q, q < 56 ->
  nth q (undo_pc2 rk) 0%N = if existsb (rk_bit rk) (pc2_inv q) then 1%N else nth q DES_CI_DI 0%N.
Proof. intros rk q Hq. unfold undo_pc2, pc2_inv. rewrite undo_pc2_loop_nth by exact Hq. rewrite existsb_filter_and. reflexivity. Qed.

(* ================================================================== stage 2: the rotation removed *)
Definition rollidx (s i : nat) : nat :=
  if i <? 28 then (i + 28 - s mod 28) mod 28 else 28 + (i - 28 + 28 - s mod 28) mod 28.

Lemma rollidx_lt : forall s i, i < 56 -> rollidx s i < 56.
Proof. intros s i Hi. unfold rollidx. destruct (i <? 28); lia. Qed.

Lemma roll_right_nth : forall s l j, j < length l -> nth j (roll_right s l) 0%N = nth ((j + length l - s mod length l) mod length l) l 0%N.
Proof. intros s l j Hj. unfold roll_right. rewrite nth_map_seq by exact Hj. reflexivity. Qed.

Lemma roll_right_length : forall s l, length (roll_right s l) = length l.
Proof. intros. unfold roll_right. rewrite map_length, seq_length. reflexivity. Qed.

Lemma undo_shift_nth : forall r c i, length c = 56 -> i < 56 ->
  nth i (undo_shift r c) 0%N = nth (rollidx (nth r DES_NB_SHIFT 0) i) c 0%N.
Proof.
  intros r c i Hc Hi. unfold undo_shift, rollidx. set (s := nth r DES_NB_SHIFT 0).
  assert (length (firstn 28 c) = 28) as H1 by (rewrite firstn_length; lia).
  assert (length (skipn 28 c) = 28) as H2 by (rewrite skipn_length; lia).
  destruct (Nat.ltb_spec i 28) as [Hlt|Hge].
  - rewrite app_nth1 by (rewrite roll_right_length; lia).
    rewrite roll_right_nth by lia. rewrite H1. apply nth_firstn_lt. lia.
  - rewrite app_nth2 by (rewrite roll_right_length; lia). rewrite roll_right_length, H1.
    rewrite roll_right_nth by lia. rewrite H2. apply nth_skipn'.
Qed.

Lemma undo_shift_length : forall r c, length c = 56 -> length (undo_shift r c) = 56.
Proof.
  intros r c Hc. unfold undo_shift. rewrite app_length, !roll_right_length, firstn_length, skipn_length. lia.
Qed.

(* ================================================================== stage 3: PC-1 removed *)
Lemma undo_pc1_loop_length : forall c n, length (undo_pc1_loop c n) = 64.
Proof. intros c n. induction n as [|n IH]; [reflexivity|]. simpl. rewrite upd_length. exact IH. Qed.

Lemma undo_pc1_loop_nth : forall c n p, p < 64 ->
  nth p (undo_pc1_loop c n) 0%N =
  match find (fun i => nth i DES_PC1 0 - 1 =? p) (rev (seq 0 n)) with Some i => nth i c 0%N | None => 0%N end.
Proof.
  intros c n p Hp. induction n as [|n IH].
  - simpl. apply (nth_repeat 0%N 64 p).
  - rewrite seq_snoc, rev_app_distr. cbn [rev app Nat.add find undo_pc1_loop].
    rewrite nth_upd, undo_pc1_loop_length, IH. rewrite (Nat.eqb_sym p).
    destruct (Nat.eqb_spec (nth n DES_PC1 0 - 1) p) as [E|E].
    + rewrite E. assert ((p <? 64) = true) as -> by (apply Nat.ltb_lt; exact Hp). reflexivity.
    + reflexivity.
Qed.

Definition pc1_inv (p : nat) : option nat := find (fun i => nth i DES_PC1 0 - 1 =? p) (rev (seq 0 (length DES_PC1))).

(* ================================================================== the 64 entries of master_key *)
Lemma master_bits_length : forall rk r, length (master_bits rk r) = 64.
Proof. intros. apply undo_pc1_loop_length. Qed.

Lemma master_bits_nth : forall rk r p, p < 64 ->
  nth p (master_bits rk r) 0%N =
  match pc1_inv p with
  | None => 0%N
  | Some i => let q := rollidx (nth r DES_NB_SHIFT 0) i in
              if existsb (rk_bit rk) (pc2_inv q) then 1%N else nth q DES_CI_DI 0%N
  end.
Proof.
  intros rk r p Hp. unfold master_bits, undo_pc1. rewrite undo_pc1_loop_nth by exact Hp. fold (pc1_inv p).
  destruct (pc1_inv p) as [i|] eqn:E; [|reflexivity].
  assert (i < 56) as Hi.
  { unfold pc1_inv in E. apply find_some in E. destruct E as [E _]. apply in_rev, in_seq in E. change (length DES_PC1) with 56 in E. lia. }
  rewrite undo_shift_nth by (try apply undo_pc2_loop_length; exact Hi).
  rewrite undo_pc2_nth by (apply rollidx_lt; exact Hi). reflexivity.
Qed.

(* what each entry is: a parity position (0), an unknown position (255), or round-key bit t *)
Inductive src := SParity | SUnknown | SKnown (t : nat) | SBad.

Definition src_of (r p : nat) : src :=
  match pc1_inv p with
  | None => SParity
  | Some i =>
    let q := rollidx (nth r DES_NB_SHIFT 0) i in
    let v := nth q DES_CI_DI 0%N in
    match pc2_inv q with
    | [] => if (v =? 255)%N then SUnknown else SBad
    | [t] => if (v =? 0)%N then SKnown t else SBad
    | _ => SBad
    end
  end.

Lemma master_bits_src : forall rk r p, p < 64 ->
  match src_of r p with
  | SParity => nth p (master_bits rk r) 0%N = 0%N
  | SUnknown => nth p (master_bits rk r) 0%N = 255%N
  | SKnown t => nth p (master_bits rk r) 0%N = b2n (rk_bit rk t)
  | SBad => True
  end.
Proof.
  intros rk r p Hp. rewrite master_bits_nth by exact Hp. unfold src_of.
  destruct (pc1_inv p) as [i|]; [|reflexivity]. cbv zeta.
  destruct (pc2_inv (rollidx (nth r DES_NB_SHIFT 0) i)) as [|t [|t' l]].
  - simpl existsb. destruct (N.eqb_spec (nth (rollidx (nth r DES_NB_SHIFT 0) i) DES_CI_DI 0%N) 255) as [E|E]; [exact E|exact I].
  - simpl existsb. rewrite orb_false_r.
    destruct (N.eqb_spec (nth (rollidx (nth r DES_NB_SHIFT 0) i) DES_CI_DI 0%N) 0) as [E|E]; [|exact I].
    rewrite E. destruct (rk_bit rk t); reflexivity.
  - exact I.
Qed.

(* the regenerated PC1 / PC2 / nb_shift / mask against the FIPS 46-3 table of source bits, by computation:
   position p of the key is a parity bit, or is not used by round r (and marked unknown), or is round-key bit t of round r
   and FIPS 46-3 says bit t of K_(r+1) is key bit p + 1; and every bit of K_(r+1) is a known position *)
Definition src_ok (r p : nat) : bool :=
  let row := nth r des_source_bits [] in
  match src_of r p with
  | SParity => p mod 8 =? 7
  | SUnknown => negb (p mod 8 =? 7)
  | SKnown t => (t <? 48) && (nth t row 0 =? S p)
  | SBad => false
  end.

Lemma src_table_all :
  forallb (fun r => forallb (src_ok r) (seq 0 64)
                    && forallb (fun m => match src_of r (m - 1) with SKnown _ => true | _ => false end) (nth r des_source_bits []))
          (seq 0 16) = true.
Proof. vm_compute. reflexivity. Qed.

Lemma src_table : forall r p, r < 16 -> p < 64 -> src_ok r p = true.
Proof.
  intros r p Hr Hp. pose proof src_table_all as H. rewrite forallb_forall in H.
  specialize (H r ltac:(apply in_seq; lia)). apply andb_true_iff in H. destruct H as [H _].
  rewrite forallb_forall in H. apply H. apply in_seq. lia.
Qed.

Lemma src_table_known : forall r m, r < 16 -> In m (nth r des_source_bits []) -> exists t, src_of r (m - 1) = SKnown t.
Proof.
  intros r m Hr Hm. pose proof src_table_all as H. rewrite forallb_forall in H.
  specialize (H r ltac:(apply in_seq; lia)). apply andb_true_iff in H. destruct H as [_ H].
  rewrite forallb_forall in H. specialize (H m Hm). destruct (src_of r (m - 1)) as [| |t|]; try discriminate. exists t. reflexivity.
Qed.

(* ================================================================== bits of numbers *)
Lemma testbit_above : forall g n m, (g < 2 ^ n)%N -> (n <= m)%N -> N.testbit g m = false.
Proof.
  intros g n m Hg Hm. destruct (N.eq_dec g 0) as [->|Hg0]; [apply N.bits_0|].
  apply N.bits_above_log2. apply N.lt_le_trans with n; [|exact Hm]. apply N.log2_lt_pow2; lia.
Qed.

Lemma land_pow2_small : forall h n, (h < 2 ^ n)%N -> N.land h (2 ^ n) = 0%N.
Proof.
  intros h n Hh. apply N.bits_inj. intros m. rewrite N.land_spec, N.bits_0, N.pow2_bits_eqb.
  destruct (N.eqb_spec n m) as [->|E]; [|apply andb_false_r].
  rewrite (testbit_above h m m Hh) by lia. reflexivity.
Qed.

Lemma add_pow2_bits : forall h n m, (h < 2 ^ n)%N -> N.testbit (h + 2 ^ n) m = N.testbit h m || (n =? m)%N.
Proof.
  intros h n m Hh. pose proof (land_pow2_small h n Hh) as H0.
  rewrite (N.add_nocarry_lxor _ _ H0), (N.lxor_lor _ _ H0), N.lor_spec, N.pow2_bits_eqb. reflexivity.
Qed.

Lemma b2n_testbit_small : forall g, (g < 2)%N -> g = b2n (N.testbit g 0).
Proof. intros g Hg. assert (g = 0 \/ g = 1)%N as [-> | ->] by lia; reflexivity. Qed.

(* ================================================================== _convert_hypothesis_bits_into_keys *)
Definition tri (m : N) : Prop := m = 0%N \/ m = 1%N \/ m = 255%N.

Lemma convert_bits_cons2 : forall bit y rest,
  convert_bits (bit :: y :: rest) =
  let keys0 := convert_bits (y :: rest) in
  if (bit =? 0)%N then keys0
  else let keys1 := map (fun hit => (hit + N.shiftl 1 (N.of_nat (length (y :: rest))))%N) keys0 in
       if (bit =? 255)%N then keys1 ++ keys0 else keys1.
Proof. intros. cbn [convert_bits]. cbn [length Nat.sub]. rewrite Nat.sub_0_r. reflexivity. Qed.

Lemma last_cons2 : forall {A} (a b : A) l d, last (a :: b :: l) d = last (b :: l) d.
Proof. reflexivity. Qed.

(* every candidate fits the known entries *)
Lemma convert_sound : forall a g, a <> [] -> Forall tri a -> last a 0%N <> 255%N -> In g (convert_bits a) ->
  (g < 2 ^ N.of_nat (length a))%N
  /\ forall p, p < length a -> nth p a 0%N <> 255%N ->
       N.testbit g (N.of_nat (length a - 1 - p)) = negb (nth p a 0 =? 0)%N.
Proof.
  induction a as [|bit rest IH]; intros g Hne Htri Hlast Hin; [congruence|].
  destruct rest as [|y rest'].
  - (* one entry: the value of that bit *)
    cbn [convert_bits] in Hin. destruct Hin as [<-|[]].
    cbn [last] in Hlast. inversion Htri as [|? ? Hb _]; subst. destruct Hb as [-> | [-> | ->]]; [| |congruence].
    + split; [reflexivity|]. intros p Hp _. cbn [length] in Hp. assert (p = 0) as -> by lia. reflexivity.
    + split; [reflexivity|]. intros p Hp _. cbn [length] in Hp. assert (p = 0) as -> by lia. reflexivity.
  - set (rest := y :: rest') in *.
    inversion Htri as [|? ? Hb Hrest]; subst.
    assert (rest <> []) as Hne' by (unfold rest; congruence).
    assert (last rest 0%N <> 255%N) as Hlast' by (unfold rest in *; rewrite last_cons2 in Hlast; exact Hlast).
    set (n := length rest).
    assert (length (bit :: rest) = S n) as HL by reflexivity.
    assert (2 ^ N.of_nat (S n) = 2 * 2 ^ N.of_nat n)%N as Hpow by (rewrite Nat2N.inj_succ, N.pow_succ_r by lia; reflexivity).
    unfold rest in Hin. rewrite convert_bits_cons2 in Hin. fold rest in Hin. cbv zeta in Hin.
    fold n in Hin. rewrite N.shiftl_1_l in Hin.
    (* the two ways g can have been built *)
    assert (forall h, In h (convert_bits rest) ->
              (h < 2 ^ N.of_nat (S n))%N
              /\ N.testbit h (N.of_nat n) = false
              /\ forall p, p < n -> nth p rest 0%N <> 255%N -> N.testbit h (N.of_nat (n - 1 - p)) = negb (nth p rest 0 =? 0)%N) as Low.
    { intros h Hh. destruct (IH h Hne' Hrest Hlast' Hh) as [Hb1 Hb2]. fold n in Hb1, Hb2.
      split; [lia|]. split; [apply (testbit_above h (N.of_nat n)); [exact Hb1|lia]|exact Hb2]. }
    assert (forall h, In h (convert_bits rest) ->
              (h + 2 ^ N.of_nat n < 2 ^ N.of_nat (S n))%N
              /\ N.testbit (h + 2 ^ N.of_nat n) (N.of_nat n) = true
              /\ forall p, p < n -> nth p rest 0%N <> 255%N ->
                   N.testbit (h + 2 ^ N.of_nat n) (N.of_nat (n - 1 - p)) = negb (nth p rest 0 =? 0)%N) as High.
    { intros h Hh. destruct (IH h Hne' Hrest Hlast' Hh) as [Hb1 Hb2]. fold n in Hb1, Hb2.
      split; [lia|]. split.
      - rewrite add_pow2_bits by exact Hb1. rewrite N.eqb_refl. apply orb_true_r.
      - intros p Hp Hk. rewrite add_pow2_bits by exact Hb1. rewrite (Hb2 p Hp Hk).
        assert ((N.of_nat n =? N.of_nat (n - 1 - p))%N = false) as -> by (apply N.eqb_neq; lia). apply orb_false_r. }
    assert (forall g0 top, (g0 < 2 ^ N.of_nat (S n))%N -> N.testbit g0 (N.of_nat n) = top ->
              (forall p, p < n -> nth p rest 0%N <> 255%N -> N.testbit g0 (N.of_nat (n - 1 - p)) = negb (nth p rest 0 =? 0)%N) ->
              (bit <> 255%N -> top = negb (bit =? 0)%N) ->
              (g0 < 2 ^ N.of_nat (length (bit :: rest)))%N
              /\ forall p, p < length (bit :: rest) -> nth p (bit :: rest) 0%N <> 255%N ->
                   N.testbit g0 (N.of_nat (length (bit :: rest) - 1 - p)) = negb (nth p (bit :: rest) 0 =? 0)%N) as Finish.
    { intros g0 top Hbd Htop Hbits Hbit. rewrite HL. split; [exact Hbd|].
      intros p Hp Hk. destruct p as [|p].
      - cbn [nth] in Hk |- *. replace (S n - 1 - 0) with n by lia. rewrite Htop. apply Hbit. exact Hk.
      - cbn [nth] in Hk |- *. replace (S n - 1 - S p) with (n - 1 - p) by lia. apply Hbits; [lia|exact Hk]. }
    destruct Hb as [-> | [-> | ->]].
    + (* bit = 0 *) change (0 =? 0)%N with true in Hin. cbv iota in Hin.
      destruct (Low g Hin) as [B1 [B2 B3]]. apply (Finish g false B1 B2 B3). intros _. reflexivity.
    + (* bit = 1 *) change (1 =? 0)%N with false in Hin. change (1 =? 255)%N with false in Hin. cbv iota in Hin.
      apply in_map_iff in Hin. destruct Hin as [h [<- Hh]].
      destruct (High h Hh) as [B1 [B2 B3]]. apply (Finish _ true B1 B2 B3). intros _. reflexivity.
    + (* bit = 255 *) change (255 =? 0)%N with false in Hin. change (255 =? 255)%N with true in Hin. cbv iota in Hin.
      apply in_app_or in Hin. destruct Hin as [Hin|Hin].
      * apply in_map_iff in Hin. destruct Hin as [h [<- Hh]].
        destruct (High h Hh) as [B1 [B2 B3]]. apply (Finish _ true B1 B2 B3). intros Hc. congruence.
      * destruct (Low g Hin) as [B1 [B2 B3]]. apply (Finish g false B1 B2 B3). intros Hc. congruence.
Qed.

(* every number that fits the known entries is a candidate *)
Lemma convert_complete : forall a g, a <> [] -> last a 0%N <> 255%N ->
  (g < 2 ^ N.of_nat (length a))%N ->
  (forall p, p < length a -> nth p a 0%N = 255%N \/ nth p a 0%N = b2n (N.testbit g (N.of_nat (length a - 1 - p)))) ->
  In g (convert_bits a).
Proof.
  induction a as [|bit rest IH]; intros g Hne Hlast Hg Hfit; [congruence|].
  destruct rest as [|y rest'].
  - cbn [convert_bits]. left. cbn [last] in Hlast. cbn [length] in Hg, Hfit.
    destruct (Hfit 0 ltac:(lia)) as [H|H]; cbn [nth] in H; [congruence|].
    change (N.of_nat (1 - 1 - 0)) with 0%N in H. rewrite H. symmetry. apply b2n_testbit_small. exact Hg.
  - set (rest := y :: rest') in *.
    assert (rest <> []) as Hne' by (unfold rest; congruence).
    assert (last rest 0%N <> 255%N) as Hlast' by (unfold rest in *; rewrite last_cons2 in Hlast; exact Hlast).
    set (n := length rest).
    assert (length (bit :: rest) = S n) as HL by reflexivity. rewrite HL in Hg, Hfit.
    assert (2 ^ N.of_nat (S n) = 2 * 2 ^ N.of_nat n)%N as Hpow by (rewrite Nat2N.inj_succ, N.pow_succ_r by lia; reflexivity).
    set (h := (g mod 2 ^ N.of_nat n)%N).
    assert (0 < 2 ^ N.of_nat n)%N as Hpos by (apply N.neq_0_lt_0, N.pow_nonzero; lia).
    assert (h < 2 ^ N.of_nat n)%N as Hh by (apply N.mod_lt; lia).
    assert (In h (convert_bits rest)) as Hin.
    { apply IH; try assumption. fold n. intros p Hp.
      destruct (Hfit (S p) ltac:(lia)) as [H|H]; cbn [nth] in H; [left; exact H|right].
      rewrite H. replace (S n - 1 - S p) with (n - 1 - p) by lia. f_equal. unfold h. symmetry.
      apply N.mod_pow2_bits_low. lia. }
    (* g = h + top * 2^n *)
    assert (g = h + 2 ^ N.of_nat n * (g / 2 ^ N.of_nat n))%N as Hdm by (unfold h; rewrite N.add_comm; apply N.div_mod; lia).
    assert (g / 2 ^ N.of_nat n < 2)%N as Hq by (apply N.div_lt_upper_bound; lia).
    assert (N.b2n (N.testbit g (N.of_nat n)) = g / 2 ^ N.of_nat n)%N as Htop.
    { rewrite N.testbit_spec' . apply N.mod_small. exact Hq. }
    unfold rest. rewrite convert_bits_cons2. fold rest. cbv zeta. fold n. rewrite N.shiftl_1_l.
    destruct (Hfit 0 ltac:(lia)) as [H|H]; cbn [nth] in H; replace (S n - 1 - 0) with n in H by lia.
    + rewrite H. change (255 =? 0)%N with false. change (255 =? 255)%N with true. cbv iota.
      apply in_or_app. destruct (N.testbit g (N.of_nat n)); cbn [N.b2n] in Htop.
      * left. apply in_map_iff. exists h. split; [|exact Hin]. rewrite <- Htop in Hdm. lia.
      * right. replace g with h; [exact Hin|]. rewrite <- Htop in Hdm. lia.
    + rewrite H. destruct (N.testbit g (N.of_nat n)); cbn [N.b2n b2n] in Htop |- *.
      * change (1 =? 0)%N with false. change (1 =? 255)%N with false. cbv iota.
        apply in_map_iff. exists h. split; [|exact Hin]. rewrite <- Htop in Hdm. lia.
      * change (0 =? 0)%N with true. cbv iota. replace g with h; [exact Hin|]. rewrite <- Htop in Hdm. lia.
Qed.

(* ================================================================== candidates as bytes *)
Lemma int_bytes_nth : forall g j, j < 8 -> nth j (int_bytes g) 0%N = N.land (N.shiftr g (8 * N.of_nat (7 - j))) 255.
Proof. intros g j Hj. do 8 (destruct j as [|j]; [reflexivity|]). lia. Qed.

Lemma testbit_255 : forall t, (t < 8)%N -> N.testbit 255 t = true.
Proof. intros t Ht. change 255%N with (N.ones 8). apply N.ones_spec_low. exact Ht. Qed.

(* key bit m (1 = leftmost) of the byte form of g is bit 64 - m of g *)
Lemma kbit_int_bytes : forall g m, 1 <= m <= 64 -> kbit (int_bytes g) m = N.testbit g (N.of_nat (64 - m)).
Proof.
  intros g m Hm. unfold kbit. rewrite int_bytes_nth by lia.
  rewrite N.land_spec, testbit_255 by lia. rewrite andb_true_r.
  rewrite N.shiftr_spec by lia. f_equal. lia.
Qed.

Lemma int_bytes_length : forall g, length (int_bytes g) = 8.
Proof. reflexivity. Qed.

(* 8 bytes -> number -> the same 8 bytes *)
Lemma int_bytes_pack : forall k, wf_des_key k -> int_bytes (pack k) = k /\ (pack k < 2 ^ 64)%N.
Proof.
  intros k [Hlen Hb].
  destruct k as [|k0 [|k1 [|k2 [|k3 [|k4 [|k5 [|k6 [|k7 [|? ?]]]]]]]]]; try discriminate Hlen.
  repeat match goal with H : Forall _ (_ :: _) |- _ => inversion H; clear H; subst end.
  unfold pack. cbn [fold_left].
  split.
  - unfold int_bytes. cbn [map]. rewrite !N.shiftr_div_pow2. change 255%N with (N.ones 8). rewrite !N.land_ones.
    change (8 * N.of_nat 7)%N with 56%N. change (8 * N.of_nat 6)%N with 48%N. change (8 * N.of_nat 5)%N with 40%N.
    change (8 * N.of_nat 4)%N with 32%N. change (8 * N.of_nat 3)%N with 24%N. change (8 * N.of_nat 2)%N with 16%N.
    change (8 * N.of_nat 1)%N with 8%N. change (8 * N.of_nat 0)%N with 0%N.
    change (2 ^ 56)%N with 72057594037927936%N. change (2 ^ 48)%N with 281474976710656%N.
    change (2 ^ 40)%N with 1099511627776%N. change (2 ^ 32)%N with 4294967296%N. change (2 ^ 24)%N with 16777216%N.
    change (2 ^ 16)%N with 65536%N. change (2 ^ 8)%N with 256%N. change (2 ^ 0)%N with 1%N.
    repeat (f_equal; try lia).
  - change (2 ^ 64)%N with 18446744073709551616%N. lia.
Qed.

Lemma strip_parity_wf : forall k, wf_des_key k -> wf_des_key (strip_parity k).
Proof.
  intros k [Hlen Hb]. split; [unfold strip_parity; rewrite map_length; exact Hlen|].
  unfold strip_parity. apply Forall_forall. intros x Hx. apply in_map_iff in Hx. destruct Hx as [b [<- Hin]].
  rewrite Forall_forall in Hb. specialize (Hb b Hin). lia.
Qed.

Lemma kbit_strip_parity_bit : forall k m, 1 <= m -> m mod 8 = 0 -> kbit (strip_parity k) m = false.
Proof.
  intros k m H1 H8. unfold kbit, strip_parity.
  change 0%N with ((fun b => 2 * (b / 2))%N 0%N) at 1. rewrite map_nth.
  replace (7 - (m - 1) mod 8) with 0 by lia. apply N.testbit_even_0.
Qed.

(* ================================================================== bits of a round key *)
Lemma word6_bit : forall l j, length l = 6 -> j < 6 ->
  negb (N.land (word_of_bits l) (N.shiftl 1 (N.of_nat (5 - j))) =? 0)%N = nth j l false.
Proof.
  intros l j Hl Hj.
  destruct l as [|a [|b [|c [|d [|e [|f [|? ?]]]]]]]; try discriminate Hl.
  do 6 (destruct j as [|j]; [destruct a, b, c, d, e, f; reflexivity|]). lia.
Qed.

Lemma rk_bit_spec : forall bits t, length bits = 48 -> t < 48 ->
  rk_bit (map word_of_bits (groups 6 8 bits)) t = nth t bits false.
Proof.
  intros bits t Hl Ht. unfold rk_bit.
  change 0%N with (word_of_bits []) at 1. rewrite map_nth.
  rewrite groups_nth by lia.
  assert (length (firstn 6 (skipn (6 * (t / 6)) bits)) = 6) as H6 by (rewrite firstn_length, skipn_length; lia).
  rewrite word6_bit by (try exact H6; lia).
  rewrite nth_firstn_lt by lia. rewrite nth_skipn'. f_equal. lia.
Qed.

(* ================================================================== candidates_contain_key *)
Lemma last_nth' : forall {A} (l : list A) d, l <> [] -> last l d = nth (length l - 1) l d.
Proof.
  intros A l d. induction l as [|x l IH]; intros Hne; [congruence|].
  destruct l as [|y l]; [reflexivity|].
  rewrite last_cons2. rewrite IH by congruence. cbn [length]. replace (S (S (length l)) - 1) with (S (S (length l) - 1)) by lia. reflexivity.
Qed.

Lemma b2n_not_255 : forall b, b2n b <> 255%N.
Proof. intros []; discriminate. Qed.

Lemma b2n_eqb0 : forall b, negb (b2n b =? 0)%N = b.
Proof. intros []; reflexivity. Qed.

Lemma find_possible_keys_unfold : forall rk r, find_possible_keys rk r = map int_bytes (convert_bits (master_bits rk r)).
Proof. reflexivity. Qed.

Section Candidates.
  Variables (key : list N) (r : nat).
  Hypothesis Hkey : wf_des_key key.
  Hypothesis Hr : r < 16.

  Let row := nth r des_source_bits [].
  Let rk := nth r (des_ks_spec key) [].
  Let mk := master_bits rk r.

  Lemma row_in : In row des_source_bits.
  Proof. apply nth_In. destruct des_source_bits_shape as [_ ->]. exact Hr. Qed.

  Lemma row_length : length row = 48.
  Proof.
    destruct des_source_bits_shape as [H _]. rewrite forallb_forall in H. specialize (H row row_in).
    apply andb_true_iff in H. destruct H as [H _]. apply Nat.eqb_eq in H. exact H.
  Qed.

  Lemma round_key_closed : forall k, nth r (des_ks_spec k) [] = map word_of_bits (groups 6 8 (map (kbit k) row)).
  Proof.
    intros k. rewrite des_ks_spec_closed.
    rewrite nth_indep with (d' := (fun row0 => map word_of_bits (groups 6 8 (map (kbit k) row0))) [])
      by (rewrite map_length; destruct des_source_bits_shape as [_ ->]; exact Hr).
    exact (map_nth (fun row0 => map word_of_bits (groups 6 8 (map (kbit k) row0))) des_source_bits [] r).
  Qed.

  Lemma rk_bit_key : forall t, t < 48 -> rk_bit rk t = kbit key (nth t row 0).
  Proof.
    intros t Ht. unfold rk. rewrite round_key_closed.
    rewrite rk_bit_spec by (try rewrite map_length, row_length; lia).
    rewrite nth_indep with (d' := kbit key 0) by (rewrite map_length, row_length; exact Ht).
    apply map_nth.
  Qed.

  (* entry p of master_key, for the round key of [key] *)
  Lemma mk_entry : forall p, p < 64 ->
    (nth p mk 0%N = 0%N /\ p mod 8 = 7)
    \/ (nth p mk 0%N = 255%N /\ p mod 8 <> 7)
    \/ (nth p mk 0%N = b2n (kbit key (S p)) /\ In (S p) row).
  Proof.
    intros p Hp. pose proof (master_bits_src rk r p Hp) as Hs. pose proof (src_table r p Hr Hp) as Ht.
    unfold src_ok in Ht. fold row in Ht. fold mk in Hs.
    destruct (src_of r p) as [| |t|].
    - left. apply Nat.eqb_eq in Ht. split; assumption.
    - right. left. apply negb_true_iff, Nat.eqb_neq in Ht. split; assumption.
    - right. right. apply andb_true_iff in Ht. destruct Ht as [Ht1 Ht2]. apply Nat.ltb_lt in Ht1. apply Nat.eqb_eq in Ht2.
      split.
      + rewrite Hs, rk_bit_key by exact Ht1. rewrite Ht2. reflexivity.
      + rewrite <- Ht2. apply nth_In. rewrite row_length. exact Ht1.
    - discriminate.
  Qed.

  Lemma mk_length : length mk = 64.
  Proof. apply master_bits_length. Qed.

  Lemma mk_nonempty : mk <> [].
  Proof. intros E. pose proof mk_length as H. rewrite E in H. discriminate. Qed.

  Lemma mk_last : last mk 0%N <> 255%N.
  Proof.
    rewrite last_nth' by exact mk_nonempty. rewrite mk_length. change (64 - 1) with 63.
    destruct (mk_entry 63 ltac:(lia)) as [[H _] | [[_ H] | [H _]]].
    - rewrite H. discriminate.
    - exfalso. apply H. reflexivity.
    - rewrite H. apply b2n_not_255.
  Qed.

  Lemma mk_tri : Forall tri mk.
  Proof.
    apply Forall_forall. intros x Hx. destruct (In_nth _ _ 0%N Hx) as [p [Hp <-]]. rewrite mk_length in Hp.
    destruct (mk_entry p Hp) as [[H _] | [[H _] | [H _]]]; rewrite H; unfold tri; auto.
    destruct (kbit key (S p)); auto.
  Qed.

  (* the parity-stripped key is one of the candidates *)
  Lemma stripped_in_candidates : In (strip_parity key) (find_possible_keys rk r).
  Proof.
    pose proof (strip_parity_wf key Hkey) as Hs.
    destruct (int_bytes_pack _ Hs) as [Hib Hlt].
    rewrite find_possible_keys_unfold. fold mk. rewrite <- Hib. apply in_map.
    apply convert_complete.
    - exact mk_nonempty.
    - exact mk_last.
    - rewrite mk_length. exact Hlt.
    - rewrite mk_length. intros p Hp.
      assert (N.testbit (pack (strip_parity key)) (N.of_nat (64 - 1 - p)) = kbit (strip_parity key) (S p)) as ->.
      { rewrite <- Hib at 2. rewrite kbit_int_bytes by lia. f_equal; lia. }
      destruct (mk_entry p Hp) as [[H H8] | [[H _] | [H Hin]]].
      + right. rewrite H. rewrite kbit_strip_parity_bit by lia. reflexivity.
      + left. exact H.
      + right. rewrite H. destruct (source_bits_ok row (S p) row_in Hin) as [_ H8].
        rewrite kbit_strip by lia. reflexivity.
  Qed.

  (* every candidate has the same round-r key *)
  Lemma candidate_bits : forall g,
    (forall p, p < 64 -> nth p mk 0%N <> 255%N -> N.testbit g (N.of_nat (64 - 1 - p)) = negb (nth p mk 0 =? 0)%N) ->
    forall m, In m row -> kbit (int_bytes g) m = kbit key m.
  Proof.
    intros g Hbits m Hm.
    destruct (source_bits_ok row m row_in Hm) as [Hm1 Hm8].
    rewrite kbit_int_bytes by lia.
    destruct (mk_entry (m - 1) ltac:(lia)) as [[_ H8] | [[H _] | [H _]]].
    - exfalso. lia.
    - (* a bit of the round key cannot be an unknown position *)
      exfalso. destruct (src_table_known r m Hr Hm) as [t Ht].
      pose proof (master_bits_src rk r (m - 1) ltac:(lia)) as Hs. rewrite Ht in Hs. fold mk in Hs.
      rewrite Hs in H. exact (b2n_not_255 _ H).
    - replace (S (m - 1)) with m in H by lia.
      replace (64 - m) with (64 - 1 - (m - 1)) by lia.
      rewrite Hbits by (try lia; rewrite H; apply b2n_not_255).
      rewrite H. apply b2n_eqb0.
  Qed.

  Lemma candidates_same_round_key : forall c, In c (find_possible_keys rk r) -> nth r (des_ks_spec c) [] = rk.
  Proof.
    intros c Hc. rewrite find_possible_keys_unfold in Hc. apply in_map_iff in Hc. destruct Hc as [g [Hcg Hg]].
    destruct (convert_sound mk g mk_nonempty mk_tri mk_last Hg) as [_ Hbits].
    assert (forall p, p < 64 -> nth p mk 0%N <> 255%N -> N.testbit g (N.of_nat (64 - 1 - p)) = negb (nth p mk 0 =? 0)%N) as Hb.
    { intros p Hp Hk. pose proof (Hbits p) as H. rewrite mk_length in H. apply H; assumption. }
    rewrite <- Hcg. rewrite round_key_closed. unfold rk. rewrite round_key_closed.
    rewrite (map_ext_in _ _ row (candidate_bits g Hb)). reflexivity.
  Qed.
End Candidates.

(* ================================================================== exactly 256 candidates *)
Definition cnt255 (a : list N) : nat := length (filter (fun m => (m =? 255)%N) a).

Lemma convert_length : forall a, a <> [] -> last a 0%N <> 255%N -> length (convert_bits a) = 2 ^ cnt255 a.
Proof.
  induction a as [|bit rest IH]; intros Hne Hlast; [congruence|].
  destruct rest as [|y rest'].
  - cbn [convert_bits last] in *. unfold cnt255. cbn [filter].
    destruct (N.eqb_spec bit 255) as [E|E]; [congruence|reflexivity].
  - rewrite convert_bits_cons2. cbv zeta. rewrite last_cons2 in Hlast.
    specialize (IH ltac:(congruence) Hlast).
    remember (y :: rest') as rest eqn:Hrest. clear Hrest.
    unfold cnt255 in *. cbn [filter].
    destruct (N.eqb_spec bit 0) as [E0|E0].
    + subst bit. change (0 =? 255)%N with false. cbv iota. exact IH.
    + destruct (N.eqb_spec bit 255) as [E|E].
      * rewrite app_length, map_length, IH. cbn [length]. rewrite Nat.pow_succ_r'. lia.
      * rewrite map_length. exact IH.
Qed.

Definition is_unknown (s : src) : bool := match s with SUnknown => true | _ => false end.

Lemma unknown_count_all :
  forallb (fun r => length (filter (fun p => is_unknown (src_of r p)) (seq 0 64)) =? 8) (seq 0 16) = true.
Proof. vm_compute. reflexivity. Qed.

Lemma filter_map_length : forall {A B} (f : A -> B) (p : B -> bool) l,
  length (filter p (map f l)) = length (filter (fun x => p (f x)) l).
Proof. intros A B f p l. induction l as [|x l IH]; [reflexivity|]. simpl. destruct (p (f x)); simpl; rewrite IH; reflexivity. Qed.

Section Count.
  Variables (key : list N) (r : nat).
  Hypothesis Hkey : wf_des_key key.
  Hypothesis Hr : r < 16.
  Let rk := nth r (des_ks_spec key) [].
  Let mk := master_bits rk r.

  Lemma candidates_count : length (find_possible_keys rk r) = 256.
  Proof.
    rewrite find_possible_keys_unfold, map_length. fold mk.
    rewrite convert_length by (apply mk_nonempty || apply mk_last; assumption).
    change 256 with (2 ^ 8). f_equal.
    unfold cnt255. rewrite (list_as_map_nth mk 0%N). rewrite filter_map_length.
    unfold mk at 2. rewrite master_bits_length.
    pose proof unknown_count_all as H. rewrite forallb_forall in H. specialize (H r ltac:(apply in_seq; lia)).
    apply Nat.eqb_eq in H. etransitivity; [|exact H]. f_equal.
    apply filter_ext_in. intros p Hp. apply in_seq in Hp.
    pose proof (master_bits_src rk r p ltac:(lia)) as Hs. pose proof (src_table r p Hr ltac:(lia)) as Ht.
    unfold src_ok in Ht. fold mk in Hs.
    destruct (src_of r p) as [| |t|]; cbn [is_unknown]; try discriminate; rewrite Hs; try reflexivity.
    destruct (rk_bit rk t); reflexivity.
  Qed.
End Count.

(* ================================================================== get_master_key *)
Lemma find_app_first : forall {A} (f : A -> bool) l1 x l2,
  (forall y, In y l1 -> f y = false) -> f x = true -> find f (l1 ++ x :: l2) = Some x.
Proof.
  intros A f l1 x l2 H1 Hx. induction l1 as [|y l1 IH]; simpl.
  - rewrite Hx. reflexivity.
  - rewrite (H1 y (or_introl eq_refl)). apply IH. intros z Hz. apply H1. right. exact Hz.
Qed.

Lemma find_first : forall {A} (f : A -> bool) l x, find f l = Some x ->
  exists l1 l2, l = l1 ++ x :: l2 /\ f x = true /\ forall y, In y l1 -> f y = false.
Proof.
  intros A f l x. induction l as [|y l IH]; intros H; [discriminate|].
  simpl in H. destruct (f y) eqn:Hy.
  - inversion H; subst. exists [], l. split; [reflexivity|]. split; [exact Hy|]. intros z [].
  - destruct (IH H) as [l1 [l2 [E [Hx Hl1]]]]. exists (y :: l1), l2. split; [rewrite E; reflexivity|]. split; [exact Hx|].
    intros z [<-|Hz]; [exact Hy|apply Hl1; exact Hz].
Qed.

Lemma word_of_bits_lt : forall l, (word_of_bits l < 2 ^ N.of_nat (length l))%N.
Proof.
  induction l as [|b l IH]; [reflexivity|].
  cbn [word_of_bits length]. rewrite Nat2N.inj_succ, N.pow_succ_r by lia. destruct b; lia.
Qed.

Lemma groups_length : forall {A} w n (l : list A), length (groups w n l) = n.
Proof. intros A w n. induction n as [|n IH]; intros l; [reflexivity|]. simpl. rewrite IH. reflexivity. Qed.

Lemma groups_word_length : forall {A} w n (l : list A) x, In x (groups w n l) -> length x <= w.
Proof.
  intros A w n. induction n as [|n IH]; intros l x Hx; [destruct Hx|].
  destruct Hx as [<-|Hx]; [rewrite firstn_length; lia|]. eapply IH. exact Hx.
Qed.

Lemma round_key_shape : forall key r, r < 16 ->
  let rk := nth r (des_ks_spec key) [] in length rk = 8 /\ Forall (fun w => (w < 64)%N) rk.
Proof.
  intros key r Hr rk. unfold rk. rewrite (round_key_closed r Hr). split.
  - rewrite map_length. apply groups_length.
  - apply Forall_forall. intros w Hw. apply in_map_iff in Hw. destruct Hw as [x [<- Hx]].
    pose proof (groups_word_length _ _ _ _ Hx) as Hl. pose proof (word_of_bits_lt x) as Hb.
    apply N.lt_le_trans with (2 ^ N.of_nat (length x))%N; [exact Hb|].
    change 64%N with (2 ^ 6)%N. apply N.pow_le_mono_r; lia.
Qed.

Section GetMasterKeySpec.
  Variable encrypt : list N -> list N -> list N.

  Let fits (pt ct g : list N) : bool := nlist_eqb ct (encrypt pt g).

  Lemma fits_true : forall pt ct g, fits pt ct g = true <-> encrypt pt g = ct.
  Proof. intros. unfold fits. rewrite nlist_eqb_eq. split; intros H; symmetry; exact H. Qed.

  Lemma fits_false : forall pt ct g, fits pt ct g = false <-> encrypt pt g <> ct.
  Proof.
    intros pt ct g. rewrite <- (fits_true pt ct g). destruct (fits pt ct g); split; intros H; try reflexivity; try discriminate.
    exfalso. apply H. reflexivity.
  Qed.

  (* what the result means, for ALL arguments and ALL encryption functions *)
  Lemma gmk_found : forall rk r pt ct g, get_master_key_m encrypt rk r pt ct = GmkFound g ->
    exists l1 l2, find_possible_keys rk r = l1 ++ g :: l2 /\ encrypt pt g = ct /\ forall h, In h l1 -> encrypt pt h <> ct.
  Proof.
    intros rk r pt ct g H. unfold get_master_key_m in H.
    destruct (negb (is_bytes rk && is_bytes pt && is_bytes ct) || negb ((length rk =? 8) && (length pt =? 8) && (length ct =? 8))
              || negb (forallb (fun w => (w <? 64)%N) rk) || (15 <? r)); [discriminate|].
    destruct (find (fun g0 => nlist_eqb ct (encrypt pt g0)) (find_possible_keys rk r)) as [g'|] eqn:F; [|discriminate].
    inversion H; subst g'. destruct (find_first _ _ _ F) as [l1 [l2 [E [Hx Hl]]]].
    exists l1, l2. split; [exact E|]. split; [apply (fits_true pt ct g); exact Hx|].
    intros h Hh. apply (fits_false pt ct h). apply Hl. exact Hh.
  Qed.

  Lemma gmk_none : forall rk r pt ct, get_master_key_m encrypt rk r pt ct = GmkNone ->
    forall h, In h (find_possible_keys rk r) -> encrypt pt h <> ct.
  Proof.
    intros rk r pt ct H h Hh. unfold get_master_key_m in H.
    destruct (negb (is_bytes rk && is_bytes pt && is_bytes ct) || negb ((length rk =? 8) && (length pt =? 8) && (length ct =? 8))
              || negb (forallb (fun w => (w <? 64)%N) rk) || (15 <? r)); [discriminate|].
    destruct (find (fun g0 => nlist_eqb ct (encrypt pt g0)) (find_possible_keys rk r)) as [g'|] eqn:F; [discriminate|].
    apply (fits_false pt ct h). apply (find_none _ _ F). exact Hh.
  Qed.

  (* from the round key of a real key and a genuine plaintext / ciphertext pair *)
  Variables (key pt : list N) (r : nat).
  Hypothesis Hkey : wf_des_key key.
  Hypothesis Hpt : wf_des_block pt.
  Hypothesis Hr : r < 16.
  (* the cipher uses the key only through its key schedule, and produces blocks *)
  Hypothesis Hsched : forall k k', des_ks_spec k = des_ks_spec k' -> encrypt pt k = encrypt pt k'.
  Hypothesis Hct : wf_des_block (encrypt pt key).

  Let rk := nth r (des_ks_spec key) [].
  Let ct := encrypt pt key.

  Lemma gmk_args_accepted :
    (negb (is_bytes rk && is_bytes pt && is_bytes ct) || negb ((length rk =? 8) && (length pt =? 8) && (length ct =? 8))
     || negb (forallb (fun w => (w <? 64)%N) rk) || (15 <? r)) = false.
  Proof.
    destruct (round_key_shape key r Hr) as [L W]. fold rk in L, W.
    destruct Hpt as [Lp Bp]. destruct Hct as [Lc Bc]. fold ct in Lc, Bc.
    assert (is_bytes rk = true) as ->.
    { apply is_bytes_true. eapply Forall_impl; [|exact W]. intros a Ha. cbv beta in Ha. lia. }
    rewrite (is_bytes_true pt Bp), (is_bytes_true ct Bc), L, Lp, Lc.
    assert (forallb (fun w => (w <? 64)%N) rk = true) as ->.
    { apply forallb_forall. intros w Hw. rewrite Forall_forall in W. apply N.ltb_lt. apply W. exact Hw. }
    assert ((15 <? r) = false) as -> by (apply Nat.ltb_ge; lia). reflexivity.
  Qed.

  Lemma stripped_fits : encrypt pt (strip_parity key) = ct.
  Proof. unfold ct. apply Hsched. apply des_ks_strip. Qed.

  (* never None, never refused: some candidate is returned, it maps pt to ct and has the given round key *)
  Lemma gmk_returns_key : exists g, get_master_key_m encrypt rk r pt ct = GmkFound g
    /\ encrypt pt g = ct /\ nth r (des_ks_spec g) [] = rk /\ In g (find_possible_keys rk r).
  Proof.
    unfold get_master_key_m. rewrite gmk_args_accepted.
    destruct (find (fun g0 => nlist_eqb ct (encrypt pt g0)) (find_possible_keys rk r)) as [g|] eqn:F.
    - exists g. split; [reflexivity|]. apply find_some in F. destruct F as [Hin Hf].
      split; [apply (fits_true pt ct g); exact Hf|]. split; [|exact Hin].
      apply (candidates_same_round_key key r Hr). exact Hin.
    - exfalso. pose proof (find_none _ _ F _ (stripped_in_candidates key r Hkey Hr)) as H.
      cbv beta in H. apply (fits_false pt ct (strip_parity key)) in H. apply H. exact stripped_fits.
  Qed.

  (* ... and it is the parity-stripped key provided no earlier candidate collides on this block *)
  Lemma gmk_returns_stripped :
    (forall l1 l2, find_possible_keys rk r = l1 ++ strip_parity key :: l2 -> forall h, In h l1 -> encrypt pt h <> ct) ->
    get_master_key_m encrypt rk r pt ct = GmkFound (strip_parity key).
  Proof.
    intros Hno. unfold get_master_key_m. rewrite gmk_args_accepted.
    destruct (in_split _ _ (stripped_in_candidates key r Hkey Hr)) as [l1 [l2 E]]. fold rk in E.
    rewrite E. rewrite find_app_first; [reflexivity| |].
    - intros y Hy. apply (fits_false pt ct y). apply (Hno l1 l2 E). exact Hy.
    - apply (fits_true pt ct (strip_parity key)). exact stripped_fits.
  Qed.
End GetMasterKeySpec.

(* ================================================================== statements used by Props/C10.v *)
Lemma candidates_contain_key_lemma : forall key r, wf_des_key key -> r < 16 ->
  let rk := nth r (des_ks_spec key) [] in
  length (find_possible_keys rk r) = 256
  /\ In (strip_parity key) (find_possible_keys rk r)
  /\ forall c, In c (find_possible_keys rk r) -> nth r (des_ks_spec c) [] = rk.
Proof.
  intros key r Hk Hr rk. split; [apply candidates_count; assumption|].
  split; [apply stripped_in_candidates; assumption|]. intros c Hc. apply candidates_same_round_key; assumption.
Qed.

Lemma get_master_key_result_lemma : forall (encrypt : list N -> list N -> list N) rk r pt ct,
  (forall g, get_master_key_m encrypt rk r pt ct = GmkFound g ->
     exists l1 l2, find_possible_keys rk r = l1 ++ g :: l2 /\ encrypt pt g = ct /\ forall h, In h l1 -> encrypt pt h <> ct)
  /\ (get_master_key_m encrypt rk r pt ct = GmkNone -> forall h, In h (find_possible_keys rk r) -> encrypt pt h <> ct).
Proof. intros. split; [intros g; apply gmk_found|apply gmk_none]. Qed.

Lemma get_master_key_spec_lemma : forall (encrypt : list N -> list N -> list N) key pt r,
  wf_des_key key -> wf_des_block pt -> r < 16 ->
  (forall k k', des_ks_spec k = des_ks_spec k' -> encrypt pt k = encrypt pt k') ->
  wf_des_block (encrypt pt key) ->
  let rk := nth r (des_ks_spec key) [] in
  let ct := encrypt pt key in
  (exists g, get_master_key_m encrypt rk r pt ct = GmkFound g
             /\ encrypt pt g = ct /\ nth r (des_ks_spec g) [] = rk /\ In g (find_possible_keys rk r))
  /\ ((forall l1 l2, find_possible_keys rk r = l1 ++ strip_parity key :: l2 -> forall h, In h l1 -> encrypt pt h <> ct) ->
      get_master_key_m encrypt rk r pt ct = GmkFound (strip_parity key)).
Proof.
  intros encrypt key pt r Hk Hp Hr Hs Hc rk ct. split.
  - apply gmk_returns_key; assumption.
  - apply gmk_returns_stripped; assumption.
Qed.
