(* Proofs/KeyScheduleFips46.v — the DES key-schedule spec of property C10 (Spec/DesKeySpec.v) and the one inside the FIPS 46-3
   spec of property C06 (Spec/Fips46.v, owned by C06) are the same function, for ALL keys.  Kept in its own file so that
   Props/C10.v does not depend on Spec/Fips46.v. *)
From Coq Require Import NArith List Bool Arith Lia.
From ScaredV Require Spec.Fips46 Spec.DesKeySpec.
Import ListNotations.
Local Open Scope nat_scope.

Module F := ScaredV.Spec.Fips46.
Module D := ScaredV.Spec.DesKeySpec.

Lemma tables_agree : F.PC1_tbl = D.PC1 /\ F.PC2_tbl = D.PC2 /\ F.SHIFTS = D.LEFT_SHIFTS.
Proof. repeat split; reflexivity. Qed.

Lemma word_of_bits_agree : forall l, F.word_of_bits l = D.word_of_bits l.
Proof. induction l as [|b l IH]; simpl; [reflexivity|]. rewrite IH. reflexivity. Qed.

Lemma chunks_groups : forall {A} n w (l : list A), F.chunks n w l = D.groups w n l.
Proof. intros A n w. induction n as [|n IH]; intros l; simpl; [reflexivity|]. rewrite IH. reflexivity. Qed.

Lemma cd_seq_agree : forall {A} sh (cd : list A), F.cd_seq cd sh = D.cd_list cd sh.
Proof. intros A sh. induction sh as [|s sh IH]; intros cd; simpl; [reflexivity|]. rewrite IH. reflexivity. Qed.

Lemma key_bits_agree : forall key, F.key_bits key = D.key_bits key.
Proof.
  intros key. unfold F.key_bits, D.key_bits. apply map_ext. intros m. unfold F.getbit, D.kbit.
  reflexivity.
Qed.

(* K_1 .. K_16 of Spec/Fips46.v = K_1 .. K_16 of Spec/DesKeySpec.v *)
Theorem des_ks_spec_is_fips46 : forall key, D.des_ks_spec key = F.des_key_schedule key.
Proof.
  intros key. unfold D.des_ks_spec, F.des_key_schedule, F.round_key_bits, D.subkeys.
  rewrite !map_map.
  transitivity (map (fun cd => map D.word_of_bits (D.groups 6 8 (D.pick false D.PC2 cd)))
                    (F.cd_seq (F.select false F.PC1_tbl (F.key_bits key)) F.SHIFTS)).
  - rewrite (cd_seq_agree D.LEFT_SHIFTS). rewrite <- key_bits_agree. reflexivity.
  - apply map_ext. intros cd. rewrite chunks_groups. apply map_ext. intros g. symmetry. apply word_of_bits_agree.
Qed.
Print Assumptions des_ks_spec_is_fips46.
