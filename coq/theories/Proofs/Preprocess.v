(* Proofs/Preprocess.v — lemmas for property C18 (preprocesses). *)
From Coq Require Import NArith ZArith QArith Qcanon List Bool Lia Sorted PeanoNat.
From ScaredV Require Import Run.Compare Lib.QcSum Model.Preprocess.
Import ListNotations.
Local Open Scope nat_scope.

(* ================================================================ A. pair enumerations *)

(* all four enumerations are "row segments": for i = s, s+1, ... the pairs (i, a i), (i, a i + 1), ... (k i of them) *)
Definition rowsegs (a k : nat -> nat) (is : list nat) : list (nat * nat) :=
  flat_map (fun i => map (pair i) (seq (a i) (k i))) is.

Definition lex_lt (p q : nat * nat) : Prop := fst p < fst q \/ (fst p = fst q /\ snd p < snd q).

Lemma lex_lt_irrefl p : ~ lex_lt p p.
Proof. unfold lex_lt. lia. Qed.

Lemma pairs_full_rowsegs n : pairs_full n = rowsegs (fun i => i) (fun i => n - i) (seq 0 n).
Proof. reflexivity. Qed.
Lemma pairs_dist_rowsegs n d : pairs_dist n d = rowsegs (fun i => i) (fun i => Nat.min (S d) (n - i)) (seq 0 n).
Proof. reflexivity. Qed.
Lemma pairs_two_rowsegs n1 n2 : pairs_two n1 n2 = rowsegs (fun _ => 0) (fun _ => n2) (seq 0 n1).
Proof. reflexivity. Qed.
Lemma pairs_p2p_rowsegs n : pairs_p2p n = rowsegs (fun i => i) (fun _ => 1) (seq 0 n).
Proof.
  unfold pairs_p2p, rowsegs.
  assert (H : forall s, map (fun i => (i, i)) (seq s n) = flat_map (fun i => map (pair i) (seq i 1)) (seq s n)).
  { induction n as [|n IH]; intros s; [reflexivity|]. cbn [seq map flat_map app]. rewrite IH. reflexivity. }
  apply H.
Qed.

Lemma in_rowsegs a k is i j : In (i, j) (rowsegs a k is) <-> In i is /\ a i <= j < a i + k i.
Proof.
  unfold rowsegs. rewrite in_flat_map. split.
  - intros (x & Hx & Hin). apply in_map_iff in Hin. destruct Hin as (y & Heq & Hy).
    inversion Heq; subst. apply in_seq in Hy. split; [assumption|lia].
  - intros (Hi & Hj). exists i. split; [assumption|]. apply in_map_iff. exists j. split; [reflexivity|].
    apply in_seq. lia.
Qed.

Lemma in_rowsegs_fst a k is p : In p (rowsegs a k is) -> In (fst p) is.
Proof. destruct p as [i j]. intros H. apply in_rowsegs in H. apply H. Qed.

Lemma StronglySorted_app {A} (R : A -> A -> Prop) l1 l2 :
  StronglySorted R l1 -> StronglySorted R l2 -> (forall x y, In x l1 -> In y l2 -> R x y) -> StronglySorted R (l1 ++ l2).
Proof.
  induction l1 as [|x l1 IH]; intros H1 H2 H12; [exact H2|].
  cbn [app]. apply StronglySorted_inv in H1. destruct H1 as [H1 Hx]. constructor.
  - apply IH; [exact H1|exact H2|]. intros u v Hu Hv. apply H12; [right; exact Hu|exact Hv].
  - apply Forall_app. split; [exact Hx|]. apply Forall_forall. intros y Hy. apply H12; [left; reflexivity|exact Hy].
Qed.

Lemma row_sorted i a k : StronglySorted lex_lt (map (pair i) (seq a k)).
Proof.
  revert a. induction k as [|k IH]; intros a; cbn [seq map]; constructor.
  - apply IH.
  - apply Forall_forall. intros p Hp. apply in_map_iff in Hp. destruct Hp as (j & <- & Hj).
    apply in_seq in Hj. right. cbn. lia.
Qed.

Lemma rowsegs_sorted a k s n : StronglySorted lex_lt (rowsegs a k (seq s n)).
Proof.
  revert s. induction n as [|n IH]; intros s; [constructor|].
  change (rowsegs a k (seq s (S n))) with (map (pair s) (seq (a s) (k s)) ++ rowsegs a k (seq (S s) n)).
  apply StronglySorted_app; [apply row_sorted|apply IH|].
  intros x y Hx Hy. apply in_map_iff in Hx. destruct Hx as (j & <- & _).
  apply in_rowsegs_fst in Hy. apply in_seq in Hy. left. cbn. lia.
Qed.

Lemma sorted_nodup {A} (R : A -> A -> Prop) l : (forall x, ~ R x x) -> StronglySorted R l -> NoDup l.
Proof.
  intros Hirr. induction l as [|x l IH]; intros H; constructor.
  - apply StronglySorted_inv in H. destruct H as [_ Hx]. intros Hin.
    rewrite Forall_forall in Hx. exact (Hirr x (Hx x Hin)).
  - apply IH. apply StronglySorted_inv in H. apply H.
Qed.

Lemma rowsegs_nodup a k s n : NoDup (rowsegs a k (seq s n)).
Proof. apply (sorted_nodup lex_lt); [exact lex_lt_irrefl|apply rowsegs_sorted]. Qed.

Fixpoint nsum (f : nat -> nat) (l : list nat) : nat := match l with [] => 0 | x :: t => f x + nsum f t end.

Lemma rowsegs_length a k is : length (rowsegs a k is) = nsum k is.
Proof.
  unfold rowsegs. induction is as [|i is IH]; [reflexivity|].
  cbn [flat_map nsum]. rewrite app_length, map_length, seq_length, IH. reflexivity.
Qed.

Lemma nsum_ext f g l : (forall x, In x l -> f x = g x) -> nsum f l = nsum g l.
Proof.
  induction l as [|x l IH]; intros H; [reflexivity|]. cbn [nsum].
  rewrite H by (left; reflexivity). rewrite IH; [reflexivity|]. intros y Hy. apply H. right. exact Hy.
Qed.

Lemma rowsegs_ext a k a' k' is : (forall i, In i is -> a i = a' i /\ k i = k' i) -> rowsegs a k is = rowsegs a' k' is.
Proof.
  intros H. unfold rowsegs. induction is as [|i is IH]; [reflexivity|]. cbn [flat_map].
  destruct (H i (or_introl eq_refl)) as [-> ->]. rewrite IH; [reflexivity|]. intros j Hj. apply H. right. exact Hj.
Qed.

(* sum over i = s .. s+n-1 of (s + n - i) *)
Lemma nsum_triangle n : forall s, 2 * nsum (fun i => s + n - i) (seq s n) = n * (n + 1).
Proof.
  induction n as [|n IH]; intros s; [reflexivity|].
  cbn [seq nsum].
  rewrite (nsum_ext _ (fun i => S s + n - i)) by (intros x _; lia).
  specialize (IH (S s)). lia.
Qed.

(* ---- membership, order, NoDup, length of the four enumerations *)
Lemma in_pairs_full n i j : In (i, j) (pairs_full n) <-> i <= j < n.
Proof. rewrite pairs_full_rowsegs, in_rowsegs, in_seq. lia. Qed.

Lemma in_pairs_dist n d i j : In (i, j) (pairs_dist n d) <-> i <= j < n /\ j - i <= d.
Proof. rewrite pairs_dist_rowsegs, in_rowsegs, in_seq. lia. Qed.

Lemma in_pairs_two n1 n2 i j : In (i, j) (pairs_two n1 n2) <-> i < n1 /\ j < n2.
Proof. rewrite pairs_two_rowsegs, in_rowsegs, in_seq. lia. Qed.

Lemma in_pairs_p2p n i j : In (i, j) (pairs_p2p n) <-> i < n /\ j = i.
Proof. rewrite pairs_p2p_rowsegs, in_rowsegs, in_seq. lia. Qed.

Lemma pairs_full_sorted n : StronglySorted lex_lt (pairs_full n).
Proof. apply rowsegs_sorted. Qed.
Lemma pairs_dist_sorted n d : StronglySorted lex_lt (pairs_dist n d).
Proof. apply rowsegs_sorted. Qed.
Lemma pairs_two_sorted n1 n2 : StronglySorted lex_lt (pairs_two n1 n2).
Proof. apply rowsegs_sorted. Qed.
Lemma pairs_p2p_sorted n : StronglySorted lex_lt (pairs_p2p n).
Proof. rewrite pairs_p2p_rowsegs. apply rowsegs_sorted. Qed.

Lemma pairs_full_nodup n : NoDup (pairs_full n).
Proof. apply rowsegs_nodup. Qed.
Lemma pairs_dist_nodup n d : NoDup (pairs_dist n d).
Proof. apply rowsegs_nodup. Qed.
Lemma pairs_two_nodup n1 n2 : NoDup (pairs_two n1 n2).
Proof. apply rowsegs_nodup. Qed.
Lemma pairs_p2p_nodup n : NoDup (pairs_p2p n).
Proof. rewrite pairs_p2p_rowsegs. apply rowsegs_nodup. Qed.

Lemma pairs_full_length2 n : 2 * length (pairs_full n) = n * (n + 1).
Proof. rewrite pairs_full_rowsegs, rowsegs_length. exact (nsum_triangle n 0). Qed.

Lemma pairs_full_length n : length (pairs_full n) = n * (n + 1) / 2.
Proof.
  pose proof (pairs_full_length2 n) as H. rewrite <- H, Nat.mul_comm, Nat.div_mul by discriminate. reflexivity.
Qed.

Lemma nsum_const c l : nsum (fun _ => c) l = length l * c.
Proof. induction l as [|x l IH]; [reflexivity|]. cbn [nsum length]. rewrite IH. lia. Qed.

Lemma pairs_two_length n1 n2 : length (pairs_two n1 n2) = n1 * n2.
Proof. rewrite pairs_two_rowsegs, rowsegs_length, nsum_const, seq_length. reflexivity. Qed.

Lemma pairs_p2p_length n : length (pairs_p2p n) = n.
Proof. unfold pairs_p2p. rewrite map_length, seq_length. reflexivity. Qed.

(* a distance that reaches the end of the frame gives all pairs *)
Lemma pairs_dist_large n d : n <= S d -> pairs_dist n d = pairs_full n.
Proof.
  intros H. rewrite pairs_dist_rowsegs, pairs_full_rowsegs. apply rowsegs_ext. intros i _. split; [reflexivity|lia].
Qed.

(* the i-th row of the distance enumeration has min (d + 1) (n - i) pairs: cut at the end of the frame *)
Lemma pairs_dist_length n d : length (pairs_dist n d) = nsum (fun i => Nat.min (S d) (n - i)) (seq 0 n).
Proof. rewrite pairs_dist_rowsegs. apply rowsegs_length. Qed.

Lemma filter_seq_prefix i d m : filter (fun j => j - i <=? d) (seq i m) = seq i (Nat.min (S d) m).
Proof.
  induction m as [|m IH]; [rewrite Nat.min_0_r; reflexivity|].
  rewrite seq_S, filter_app, IH. cbn [filter].
  destruct (Nat.leb_spec (i + m - i) d) as [Hle|Hgt].
  - replace (Nat.min (S d) (S m)) with (S m) by lia. replace (Nat.min (S d) m) with m by lia. rewrite seq_S. reflexivity.
  - replace (Nat.min (S d) (S m)) with (Nat.min (S d) m) by lia. apply app_nil_r.
Qed.

Lemma filter_flat_map {A B} (p : B -> bool) (f : A -> list B) l :
  filter p (flat_map f l) = flat_map (fun x => filter p (f x)) l.
Proof. induction l as [|x l IH]; [reflexivity|]. cbn [flat_map]. rewrite filter_app, IH. reflexivity. Qed.

Lemma filter_map_pair i (p : nat * nat -> bool) l : filter p (map (pair i) l) = map (pair i) (filter (fun j => p (i, j)) l).
Proof.
  induction l as [|x l IH]; [reflexivity|]. cbn [map filter]. destruct (p (i, x)); cbn [map]; rewrite IH; reflexivity.
Qed.

(* the distance enumeration is the full one with the pairs farther apart than d removed, order kept *)
Lemma pairs_dist_filter n d : pairs_dist n d = filter (fun p => snd p - fst p <=? d) (pairs_full n).
Proof.
  unfold pairs_dist, pairs_full. rewrite filter_flat_map. apply flat_map_ext. intros i.
  rewrite filter_map_pair. cbn [fst snd]. rewrite filter_seq_prefix. reflexivity.
Qed.

Lemma sum_range_pairs_full n : sum_range (n + 1) = length (pairs_full n).
Proof.
  assert (H : forall m, 2 * sum_range (m + 1) = m * (m + 1)).
  { induction m as [|m IH]; [reflexivity|].
    unfold sum_range in *. replace (S m + 1) with (S (m + 1)) by lia. rewrite seq_S, fold_right_app. cbn [fold_right].
    assert (G : forall l a, fold_right Nat.add a l = fold_right Nat.add 0 l + a).
    { induction l as [|x l IHl]; intros a; cbn [fold_right]; [reflexivity|]. rewrite IHl. lia. }
    rewrite G. lia. }
  pose proof (H n). pose proof (pairs_full_length2 n). lia.
Qed.

(* ================================================================ B. the loops with a running offset *)

Section Loops.
  Context {A : Type} (op : A -> A -> A).

  Lemma block_cell (v : nat -> A) (X : mat A) r c : cell (block op v X) r c = op (v r) (cell X r c).
  Proof. reflexivity. Qed.
  Lemma block_nrows (v : nat -> A) (X : mat A) : nrows (block op v X) = nrows X.
  Proof. reflexivity. Qed.
  Lemma block_ncols (v : nat -> A) (X : mat A) : ncols (block op v X) = ncols X.
  Proof. reflexivity. Qed.

  (* the common shape of the two loops: iteration i combines column i of c1 with the matrix tmp2 i *)
  Fixpoint gloop (tmp2 : nat -> mat A) (c1 : mat A) (is : list nat) (cnt : nat) (res : mat (option A)) : option (mat (option A)) :=
    match is with
    | [] => Some res
    | i :: is' =>
        match assign_cols res cnt (block op (column c1 i) (tmp2 i)) with
        | Some res' => gloop tmp2 c1 is' (cnt + ncols (tmp2 i)) res'
        | None => None
        end
    end.

  Lemma two_loop_gloop wn c1 c2 is cnt res :
    two_loop op wn c1 c2 is cnt res = gloop (fun i => if wn then col_slice c2 i (ncols c2 - i) else c2) c1 is cnt res.
  Proof.
    revert cnt res. induction is as [|i is IH]; intros cnt res; [reflexivity|].
    cbn [two_loop gloop]. destruct (assign_cols res cnt _); [apply IH|reflexivity].
  Qed.

  Definition dist_tmp2 (d : nat) (c2 : mat A) (i : nat) : mat A := col_slice c2 i (Nat.min (i + d + 1) (ncols c2) - i).

  Lemma dist_loop_count d c1 c2 is cnt :
    dist_loop op d c1 c2 is cnt None = Some (cnt + nsum (fun i => ncols (dist_tmp2 d c2 i)) is, None).
  Proof.
    revert cnt. induction is as [|i is IH]; intros cnt; cbn [dist_loop nsum]; [rewrite Nat.add_0_r; reflexivity|].
    rewrite IH. cbn [dist_tmp2 col_slice ncols]. f_equal. f_equal. lia.
  Qed.

  Lemma dist_loop_gloop d c1 c2 is cnt res :
    dist_loop op d c1 c2 is cnt (Some res)
    = option_map (fun r => (cnt + nsum (fun i => ncols (dist_tmp2 d c2 i)) is, Some r)) (gloop (dist_tmp2 d c2) c1 is cnt res).
  Proof.
    revert cnt res. induction is as [|i is IH]; intros cnt res; cbn [dist_loop gloop nsum option_map]; [rewrite Nat.add_0_r; reflexivity|].
    change (col_slice c2 i (Nat.min (i + d + 1) (ncols c2) - i)) with (dist_tmp2 d c2 i).
    destruct (assign_cols res cnt _) as [res'|]; [|reflexivity].
    rewrite IH. destruct (gloop _ _ _ _ _); cbn [option_map]; [|reflexivity].
    f_equal. f_equal. cbn [dist_tmp2 col_slice ncols]. lia.
  Qed.

  (* what the loop has written at offset k of its own output, for row r *)
  Fixpoint entry (tmp2 : nat -> mat A) (c1 : mat A) (is : list nat) (k r : nat) : option A :=
    match is with
    | [] => None
    | i :: is' =>
        if k <? ncols (tmp2 i) then Some (op (cell c1 r i) (cell (tmp2 i) r k))
        else entry tmp2 c1 is' (k - ncols (tmp2 i)) r
    end.

  Lemma gloop_spec tmp2 c1 N : forall is cnt res,
    nrows res = N -> (forall i, In i is -> nrows (tmp2 i) = N) ->
    cnt + nsum (fun i => ncols (tmp2 i)) is <= ncols res ->
    exists res', gloop tmp2 c1 is cnt res = Some res' /\ nrows res' = N /\ ncols res' = ncols res /\
      forall r c, cell res' r c =
        if (cnt <=? c) && (c <? cnt + nsum (fun i => ncols (tmp2 i)) is) then entry tmp2 c1 is (c - cnt) r else cell res r c.
  Proof.
    induction is as [|i is IH]; intros cnt res Hn Hrows Hfit.
    - exists res. cbn [gloop nsum entry]. repeat split; try assumption. intros r c.
      destruct (Nat.leb_spec cnt c), (Nat.ltb_spec c (cnt + 0)); cbn [andb]; try reflexivity; lia.
    - cbn [gloop nsum] in *. unfold assign_cols at 1.
      rewrite block_nrows, block_ncols, Hn, (Hrows i (or_introl eq_refl)), Nat.eqb_refl.
      destruct (Nat.leb_spec (cnt + ncols (tmp2 i)) (ncols res)) as [Hle|Hgt]; [|lia]. cbn [andb].
      match goal with |- context [gloop _ _ _ _ ?R] => set (res1 := R) end.
      destruct (IH (cnt + ncols (tmp2 i)) res1) as (res' & Hg & Hn' & Hc' & Hcell).
      + reflexivity || (subst res1; cbn; exact Hn).
      + intros j Hj. apply Hrows. right. exact Hj.
      + subst res1. cbn [ncols]. lia.
      + exists res'. split; [exact Hg|]. split; [rewrite Hn'; subst res1; cbn; exact Hn || reflexivity|].
        split; [rewrite Hc'; reflexivity|].
        intros r c. rewrite Hcell. subst res1. cbn [cell entry].
        rewrite ?block_ncols, ?block_cell.
        destruct (Nat.leb_spec (cnt + ncols (tmp2 i)) c) as [H1|H1];
        destruct (Nat.ltb_spec c (cnt + ncols (tmp2 i) + nsum (fun i0 => ncols (tmp2 i0)) is)) as [H2|H2];
        destruct (Nat.leb_spec cnt c) as [H3|H3];
        destruct (Nat.ltb_spec c (cnt + (ncols (tmp2 i) + nsum (fun i0 => ncols (tmp2 i0)) is))) as [H4|H4];
        destruct (Nat.ltb_spec c (cnt + ncols (tmp2 i))) as [H5|H5];
        destruct (Nat.ltb_spec (c - cnt) (ncols (tmp2 i))) as [H6|H6];
        cbn [andb]; try lia; try reflexivity.
        * f_equal. lia.
  Qed.

  (* when every tmp2 i is a window [s i, s i + k i) of the columns of c2, the entries are the op on the row segments *)
  Lemma entry_rowsegs tmp2 c1 c2 (s k : nat -> nat) : forall is j r,
    (forall i, In i is -> ncols (tmp2 i) = k i /\ forall r c, cell (tmp2 i) r c = cell c2 r (s i + c)) ->
    entry tmp2 c1 is j r = option_map (fun p => op (cell c1 r (fst p)) (cell c2 r (snd p))) (nth_error (rowsegs s k is) j).
  Proof.
    induction is as [|i is IH]; intros j r H.
    - cbn [entry rowsegs flat_map]. destruct j; reflexivity.
    - cbn [entry]. destruct (H i (or_introl eq_refl)) as [Hk Hc]. rewrite Hk.
      change (rowsegs s k (i :: is)) with (map (pair i) (seq (s i) (k i)) ++ rowsegs s k is).
      destruct (Nat.ltb_spec j (k i)) as [Hlt|Hge].
      + rewrite nth_error_app1 by (rewrite map_length, seq_length; exact Hlt).
        rewrite nth_error_map. rewrite (nth_error_nth' _ 0) by (rewrite seq_length; exact Hlt).
        rewrite seq_nth by exact Hlt. cbn [option_map fst snd]. rewrite Hc. reflexivity.
      + rewrite nth_error_app2 by (rewrite map_length, seq_length; exact Hge).
        rewrite map_length, seq_length. apply IH. intros i' Hi'. apply H. right. exact Hi'.
  Qed.

  Lemma nsum_ncols (tmp2 : nat -> mat A) (k : nat -> nat) is : (forall i, In i is -> ncols (tmp2 i) = k i) -> nsum (fun i => ncols (tmp2 i)) is = nsum k is.
  Proof. intros H. apply nsum_ext. exact H. Qed.

  (* a loop started on np.empty of the right size fills exactly the row segments, in order *)
  Lemma gloop_rowsegs tmp2 c1 c2 s k is n :
    (forall i, In i is -> nrows (tmp2 i) = n /\ ncols (tmp2 i) = k i /\ forall r c, cell (tmp2 i) r c = cell c2 r (s i + c)) ->
    exists R, gloop tmp2 c1 is 0 (empty_mat n (length (rowsegs s k is))) = Some R /\ nrows R = n /\ ncols R = length (rowsegs s k is) /\
      forall r c, cell R r c = option_map (fun p => op (cell c1 r (fst p)) (cell c2 r (snd p))) (nth_error (rowsegs s k is) c).
  Proof.
    intros H.
    assert (Hs : nsum (fun i => ncols (tmp2 i)) is = length (rowsegs s k is)).
    { rewrite rowsegs_length. apply nsum_ncols. intros i Hi. apply H. exact Hi. }
    destruct (gloop_spec tmp2 c1 n is 0 (empty_mat n (length (rowsegs s k is)))) as (R & Hg & Hn & Hc & Hcell).
    - reflexivity.
    - intros i Hi. apply H. exact Hi.
    - cbn [empty_mat ncols]. lia.
    - exists R. split; [exact Hg|]. split; [exact Hn|]. split; [exact Hc|].
      intros r c. rewrite Hcell, Hs. cbn [Nat.leb andb Nat.add]. rewrite Nat.sub_0_r.
      destruct (Nat.ltb_spec c (length (rowsegs s k is))) as [Hlt|Hge].
      + apply entry_rowsegs. intros i Hi. destruct (H i Hi) as (_ & Hk & Hcl). split; assumption.
      + cbn [empty_mat cell]. symmetry.
        assert (E : nth_error (rowsegs s k is) c = None) by (apply nth_error_None; exact Hge).
        rewrite E. reflexivity.
  Qed.
End Loops.


(* the well-formedness the dispatcher guarantees: with frame_2 = None both chunks are the same frame *)
Definition kind_wf (k : comb_kind) : Prop :=
  match k with KTwo f1 f2 true => length f2 = length f1 | _ => True end.

Definition pair_value {B A} (cast : B -> A) (op : A -> A -> A) (f1 f2 : list nat) (T : mat B) (r : nat) (p : nat * nat) : A :=
  op (cast (cell T r (nth (fst p) f1 0))) (cast (cell T r (nth (snd p) f2 0))).

(* impl-model = spec: the loops with their running offset write, for every trace r, the operation on the documented
   pairs at the documented positions (and the operands are cast BEFORE the operation) *)
Theorem impl_comb_cells {B A} (cast : B -> A) (op : A -> A -> A) (k : comb_kind) (T : mat B) ps :
  kind_wf k -> kind_pairs k = Some ps ->
  exists R, impl_comb cast op k T = Some R /\ nrows R = nrows T /\ ncols R = length ps /\
    forall r c, c < length ps ->
      cell R r c = option_map (pair_value cast op (fst (kind_frames k)) (snd (kind_frames k)) T r) (nth_error ps c).
Proof.
  intros Hwf Hps. destruct k as [f1 f2 wn|f d|f1 f2]; cbn [impl_comb kind_frames fst snd].
  - (* two frames *)
    unfold impl_two_frames. rewrite two_loop_gloop.
    set (c1 := map_mat cast (select T f1)). set (c2 := map_mat cast (select T f2)).
    destruct wn; cbn [kind_pairs] in Hps; inversion Hps; subst ps; clear Hps.
    + cbn [kind_wf] in Hwf.
      assert (Hsz : sum_range (ncols c1 + 1) = length (rowsegs (fun i => i) (fun i => length f1 - i) (seq 0 (length f1)))).
      { subst c1. cbn [map_mat select ncols]. rewrite sum_range_pairs_full. reflexivity. }
      rewrite Hsz.
      destruct (gloop_rowsegs op (fun i => col_slice c2 i (ncols c2 - i)) c1 c2 (fun i => i) (fun i => length f1 - i)
                  (seq 0 (length f1)) (nrows T)) as (R & Hg & Hn & Hc & Hcell).
      { intros i _. subst c2. cbn. rewrite Hwf. repeat split; reflexivity. }
      exists R. subst c1 c2. cbn [map_mat select ncols nrows] in *. rewrite Hg. repeat split; try assumption.
      intros r c _. apply Hcell.
    + assert (Hsz : ncols c1 * ncols c2 = length (rowsegs (fun _ => 0) (fun _ => length f2) (seq 0 (length f1)))).
      { subst c1 c2. cbn [map_mat select ncols]. change (rowsegs _ _ _) with (pairs_two (length f1) (length f2)).
        rewrite pairs_two_length. reflexivity. }
      rewrite Hsz.
      destruct (gloop_rowsegs op (fun _ => c2) c1 c2 (fun _ => 0) (fun _ => length f2) (seq 0 (length f1)) (nrows T)) as (R & Hg & Hn & Hc & Hcell).
      { intros i _. subst c2. cbn. repeat split; reflexivity. }
      exists R. subst c1 c2. cbn [map_mat select ncols nrows] in *. rewrite Hg. repeat split; try assumption.
      intros r c _. apply Hcell.
  - (* distance *)
    cbn [kind_pairs] in Hps. inversion Hps; subst ps; clear Hps.
    unfold impl_distance. set (c := map_mat cast (select T f)).
    rewrite dist_loop_count, dist_loop_gloop. cbn [Nat.add].
    assert (Hsz : nsum (fun i => ncols (dist_tmp2 d c i)) (seq 0 (ncols c))
                  = length (rowsegs (fun i => i) (fun i => Nat.min (S d) (length f - i)) (seq 0 (length f)))).
    { rewrite rowsegs_length. subst c. cbn [map_mat select ncols]. apply nsum_ext. intros i _. cbn [dist_tmp2 col_slice ncols map_mat select]. lia. }
    rewrite Hsz.
    destruct (gloop_rowsegs op (dist_tmp2 d c) c c (fun i => i) (fun i => Nat.min (S d) (length f - i)) (seq 0 (length f)) (nrows T))
      as (R & Hg & Hn & Hc & Hcell).
    { intros i Hi. split; [reflexivity|]. split; [|intros; reflexivity]. subst c. cbn [dist_tmp2 col_slice ncols map_mat select]. lia. }
    exists R. subst c. cbn [map_mat select ncols nrows] in *. rewrite Hg. cbn [option_map]. repeat split; try assumption.
    intros r c _. apply Hcell.
  - (* point to point *)
    cbn [kind_pairs] in Hps. unfold pairs_p2p_bcast in Hps. unfold impl_p2p. cbn [map_mat select ncols nrows cell].
    destruct (Nat.eqb_spec (length f1) (length f2)) as [He|Hne].
    + inversion Hps; subst ps; clear Hps. cbn [option_map map_mat]. eexists. split; [reflexivity|]. cbn [nrows ncols cell].
      rewrite pairs_p2p_length. repeat split. intros r c Hlt. unfold pairs_p2p. rewrite nth_error_map.
      rewrite (nth_error_nth' _ 0) by (rewrite seq_length; exact Hlt). rewrite seq_nth by exact Hlt. reflexivity.
    + destruct (Nat.eqb_spec (length f1) 1) as [H1|H1].
      * inversion Hps; subst ps; clear Hps. cbn [option_map map_mat]. eexists. split; [reflexivity|]. cbn [nrows ncols cell].
        rewrite map_length, seq_length. repeat split. intros r c Hlt. rewrite nth_error_map.
        rewrite (nth_error_nth' _ 0) by (rewrite seq_length; exact Hlt). rewrite seq_nth by exact Hlt. reflexivity.
      * destruct (Nat.eqb_spec (length f2) 1) as [H2|H2]; [|discriminate].
        inversion Hps; subst ps; clear Hps. cbn [option_map map_mat]. eexists. split; [reflexivity|]. cbn [nrows ncols cell].
        rewrite map_length, seq_length. repeat split. intros r c Hlt. rewrite nth_error_map.
        rewrite (nth_error_nth' _ 0) by (rewrite seq_length; exact Hlt). rewrite seq_nth by exact Hlt. reflexivity.
Qed.

(* the same on lists of rows: the impl-model applied to the batch is, row by row, the spec [comb_row] *)
Lemma map_nth_seq {A B} (g : A -> B) (d : A) (l : list A) : map (fun r => g (nth r l d)) (seq 0 (length l)) = map g l.
Proof.
  induction l as [|x l IH]; [reflexivity|]. cbn [length seq map nth]. f_equal.
  rewrite <- seq_shift, map_map. exact IH.
Qed.

Lemma map_nth_error_seq {A B} (g : option A -> B) (l : list A) : map (fun c => g (nth_error l c)) (seq 0 (length l)) = map (fun x => g (Some x)) l.
Proof.
  induction l as [|x l IH]; [reflexivity|]. cbn [length seq map nth_error]. f_equal.
  rewrite <- seq_shift, map_map. exact IH.
Qed.

Theorem impl_comb_rows {B A} (cast : B -> A) (op : A -> A -> A) (k : comb_kind) (d : B) (w : nat) (M : list (list B)) ps :
  kind_wf k -> kind_pairs k = Some ps ->
  exists R, impl_comb cast op k (mat_of_rows d w M) = Some R /\
    rows_of_mat R = map (fun row => map Some (comb_row (cast d) op ps (fst (kind_frames k)) (snd (kind_frames k)) (map cast row))) M.
Proof.
  intros Hwf Hps. destruct (impl_comb_cells cast op k (mat_of_rows d w M) ps Hwf Hps) as (R & HR & Hn & Hc & Hcell).
  exists R. split; [exact HR|]. unfold rows_of_mat. rewrite Hn, Hc. cbn [mat_of_rows nrows].
  rewrite <- (map_nth_seq (fun row => map Some (comb_row (cast d) op ps _ _ (map cast row))) [] M).
  apply map_ext_in. intros r Hr.
  unfold comb_row. rewrite map_map.
  rewrite <- (map_nth_error_seq (fun o => match o with Some p => Some _ | None => None end) ps).
  apply map_ext_in. intros c Hcin. apply in_seq in Hcin. rewrite Hcell by lia.
  destruct (nth_error ps c) as [p|]; [|reflexivity]. cbn [option_map]. unfold pair_value. cbn [mat_of_rows cell].
  rewrite !(map_nth cast). reflexivity.
Qed.

(* ================================================================ C. row-wise; the centred product and the batch mean *)
Local Open Scope Qc_scope.

(* every output row is what the preprocess returns on the one-row batch made of that row — unless the batch mean is used *)
Definition uses_batch_mean (o : comb_op) (mean : option (list Qc)) : bool :=
  match o, mean with OpCenteredProduct, None => true | _, _ => false end.

Lemma comb_spec_rowwise o ps f1 f2 w mean T :
  uses_batch_mean o mean = false ->
  comb_spec o ps f1 f2 w mean T = flat_map (fun row => comb_spec o ps f1 f2 w mean [row]) T.
Proof.
  intros H. unfold comb_spec, center_with.
  destruct o; try (induction T as [|row T IH]; [reflexivity|]; cbn [map flat_map app] in *; rewrite IH; reflexivity).
  destruct mean as [m|]; [|discriminate].
  induction T as [|row T IH]; [reflexivity|]. cbn [map flat_map app] in *. rewrite IH. reflexivity.
Qed.

Lemma comb_spec_row_nth o ps f1 f2 w mean T r :
  uses_batch_mean o mean = false -> (r < length T)%nat ->
  nth r (comb_spec o ps f1 f2 w mean T) [] = hd [] (comb_spec o ps f1 f2 w mean [nth r T []]).
Proof.
  intros H Hr. unfold comb_spec, center_with.
  assert (G : forall (g : list Qc -> list Qc) (T : list (list Qc)) r, (r < length T)%nat -> nth r (map g T) [] = g (nth r T [])).
  { intros g T0 r0 Hr0. rewrite (nth_indep _ [] (g [])) by (rewrite map_length; exact Hr0). apply map_nth. }
  destruct o; cbn [map hd]; try (apply (G _ T r Hr)).
  destruct mean as [m|]; [|discriminate]. rewrite map_map. cbn [map hd]. apply (G (fun row => comb_row 0 _ ps f1 f2 (sub_rows row m)) T r Hr).
Qed.

(* any two batches that hold the same trace give the same output for it: batch composition does not matter *)
Lemma comb_spec_batch_independent o ps f1 f2 w mean T T' r r' :
  uses_batch_mean o mean = false -> (r < length T)%nat -> (r' < length T')%nat -> nth r T [] = nth r' T' [] ->
  nth r (comb_spec o ps f1 f2 w mean T) [] = nth r' (comb_spec o ps f1 f2 w mean T') [].
Proof. intros H Hr Hr' E. rewrite !comb_spec_row_nth by assumption. rewrite E. reflexivity. Qed.

Lemma comb_spec_app o ps f1 f2 w mean T1 T2 :
  uses_batch_mean o mean = false ->
  comb_spec o ps f1 f2 w mean (T1 ++ T2) = comb_spec o ps f1 f2 w mean T1 ++ comb_spec o ps f1 f2 w mean T2.
Proof. intros H. rewrite !(comb_spec_rowwise o ps f1 f2 w mean) by exact H. apply flat_map_app. Qed.

(* the centred product is the product of the traces minus the mean of the batch, column by column ... *)
Lemma centered_is_product_of_centered ps f1 f2 w T :
  comb_spec OpCenteredProduct ps f1 f2 w None T
  = comb_spec OpProduct ps f1 f2 w None (map (fun row => sub_rows row (col_means w T)) T).
Proof. reflexivity. Qed.

(* ... so the batch enters only through its column means *)
Lemma centered_only_through_means ps f1 f2 w T :
  comb_spec OpCenteredProduct ps f1 f2 w None T = comb_spec OpCenteredProduct ps f1 f2 w (Some (col_means w T)) T.
Proof. reflexivity. Qed.

Lemma nth_map_combine (f : Qc -> Qc -> Qc) l1 : forall l2 a, (a < length l1)%nat -> (a < length l2)%nat ->
  nth a (map (fun p : Qc * Qc => f (fst p) (snd p)) (combine l1 l2)) 0 = f (nth a l1 0) (nth a l2 0).
Proof.
  induction l1 as [|x l1 IH]; intros l2 a H1 H2; [cbn in H1; lia|].
  destruct l2 as [|y l2]; [cbn in H2; lia|]. destruct a as [|a]; [reflexivity|].
  cbn [combine map nth length] in *. apply IH; lia.
Qed.

Lemma nth_sub_rows row m a : (a < length row)%nat -> (a < length m)%nat -> nth a (sub_rows row m) 0 = nth a row 0 - nth a m 0.
Proof. intros Hr Hm. unfold sub_rows. apply (nth_map_combine Qcminus); assumption. Qed.

Lemma nth_map_lt {A B} (f : A -> B) l a d d' : (a < length l)%nat -> nth a (map f l) d' = f (nth a l d).
Proof. intros H. rewrite (nth_indep _ d' (f d)) by (rewrite map_length; exact H). apply map_nth. Qed.

Lemma nth_map_seq {A} (f : nat -> A) d n a : (a < n)%nat -> nth a (map f (seq 0 n)) d = f a.
Proof. intros H. rewrite (nth_map_lt f _ a 0%nat) by (rewrite seq_length; exact H). rewrite seq_nth by exact H. reflexivity. Qed.

Lemma nth_col_means w T a : (a < w)%nat -> nth a (col_means w T) 0 = qmean (column_of T a).
Proof. intros H. unfold col_means. apply (nth_map_seq (fun j => qmean (column_of T j))). exact H. Qed.

(* entry k of output row r of the centred product: (x[r,a] - mean of column a) * (x[r,b] - mean of column b),
   where (i, j) is the k-th documented pair, a = frame_1[i], b = frame_2[j] and the means are over the whole batch *)
Theorem centered_entry ps f1 f2 w T r k i j row :
  nth_error T r = Some row -> length row = w -> nth_error ps k = Some (i, j) ->
  (nth i f1 0 < w)%nat -> (nth j f2 0 < w)%nat ->
  nth k (nth r (comb_spec OpCenteredProduct ps f1 f2 w None T) []) 0
  = (nth (nth i f1 0%nat) row 0 - qmean (column_of T (nth i f1 0%nat))) * (nth (nth j f2 0%nat) row 0 - qmean (column_of T (nth j f2 0%nat))).
Proof.
  intros Hrow Hlen Hp Ha Hb.
  assert (Hr : (r < length T)%nat) by (apply nth_error_Some; rewrite Hrow; discriminate).
  assert (Hk : (k < length ps)%nat) by (apply nth_error_Some; rewrite Hp; discriminate).
  assert (Erow : nth r T [] = row) by (apply nth_error_nth; exact Hrow).
  assert (Ep : nth k ps (0, 0)%nat = (i, j)) by (apply nth_error_nth; exact Hp).
  unfold comb_spec, center_with. rewrite map_map.
  rewrite (nth_map_lt (fun x => comb_row 0 (op_fun OpCenteredProduct) ps f1 f2 (sub_rows x (col_means w T))) T r []) by exact Hr.
  rewrite Erow. unfold comb_row.
  rewrite (nth_map_lt _ ps k (0, 0)%nat) by exact Hk.
  rewrite Ep. cbn [fst snd op_fun].
  assert (Hm : length (col_means w T) = w) by (unfold col_means; rewrite map_length, seq_length; reflexivity).
  rewrite !nth_sub_rows by lia. rewrite !nth_col_means by assumption. reflexivity.
Qed.

(* centring: every column of the centred batch sums to zero *)
Lemma qsum_centered l : l <> [] -> qsum (map (fun x => x - qmean l) l) = 0.
Proof.
  intros Hl. rewrite (qsum_map_sub (fun x => x) (fun _ => qmean l)), map_id, qsum_map_const.
  unfold qmean. pose proof (qlen_nonzero l Hl). field. assumption.
Qed.

(* ================================================================ D. dtype promotion *)
Local Open Scope Z_scope.

Definition promote_spec_b (d p : dtype) : bool :=
  let r := promote d p in
  is_float r && float_le p r
  && (if 24 <? value_bits d then dtype_eqb r DF64 else true)
  && (if value_bits d <=? 53 then exact_in d r else true).

Lemma promote_spec_all : forallb (fun d => forallb (promote_spec_b d) float_dtypes) all_dtypes = true.
Proof. vm_compute. reflexivity. Qed.

Lemma all_dtypes_complete d : In d all_dtypes.
Proof. destruct d; cbn; tauto. Qed.

Lemma float_dtypes_complete p : is_float p = true -> In p float_dtypes.
Proof. destruct p; cbn; intros H; try discriminate; tauto. Qed.

(* the repaired promotion: a float dtype, at least the requested precision, float64 for integer types with more than
   24 significant bits, and exact (every value of the traces' dtype is representable) up to 53 bits *)
Theorem promote_spec_thm d p : is_float p = true ->
  is_float (promote d p) = true /\ float_le p (promote d p) = true
  /\ (24 < value_bits d -> promote d p = DF64)
  /\ (value_bits d <= 53 -> exact_in d (promote d p) = true).
Proof.
  intros Hp. pose proof promote_spec_all as H. rewrite forallb_forall in H.
  specialize (H d (all_dtypes_complete d)). rewrite forallb_forall in H.
  specialize (H p (float_dtypes_complete p Hp)). unfold promote_spec_b in H.
  apply andb_true_iff in H. destruct H as [H H4]. apply andb_true_iff in H. destruct H as [H H3].
  apply andb_true_iff in H. destruct H as [H1 H2].
  repeat split; try assumption.
  - intros Hlt. apply Z.ltb_lt in Hlt. rewrite Hlt in H3. destruct (promote d p); try discriminate. reflexivity.
  - intros Hle. apply Z.leb_le in Hle. rewrite Hle in H4. exact H4.
Qed.

Lemma promote2_comm a b : promote2 a b = promote2 b a.
Proof. destruct a, b; reflexivity. Qed.

Lemma promote2_idem a : promote2 a a = a.
Proof. destruct a; reflexivity. Qed.

(* the largest finite value of the float dtypes *)
Definition max_finite (f : dtype) : Z :=
  match f with DF16 => 65504 | DF32 => (2 ^ 24 - 1) * 2 ^ 104 | DF64 => (2 ^ 53 - 1) * 2 ^ 971 | _ => 0 end.
Definition max_abs (d : dtype) : Z := match dt_range d with Some (lo, hi) => Z.max (- lo) hi | None => 0 end.

Lemma in_range_abs d x : in_range d x -> Z.abs x <= max_abs d.
Proof.
  unfold in_range, max_abs. destruct (dt_range d) as [[lo hi]|]; [|tauto]. lia.
Qed.

Definition no_overflow_b (d p : dtype) : bool :=
  (max_abs d * max_abs d <=? max_finite (promote d p)) && (2 * max_abs d <=? max_finite (promote d p)).

Lemma no_overflow_all : forallb (fun d => forallb (no_overflow_b d) float_dtypes) all_dtypes = true.
Proof. vm_compute. reflexivity. Qed.

(* no wrap-around and no overflow: the exact product and the exact difference of any two samples of an integer dtype
   are within the finite range of the promoted dtype (where the old code computed them modulo 2^32 / 2^64) *)
Theorem promoted_arith_in_range d p x y : is_float p = true -> in_range d x -> in_range d y ->
  Z.abs (x * y) <= max_finite (promote d p) /\ Z.abs (x - y) <= max_finite (promote d p).
Proof.
  intros Hp Hx Hy. pose proof no_overflow_all as H. rewrite forallb_forall in H.
  specialize (H d (all_dtypes_complete d)). rewrite forallb_forall in H.
  specialize (H p (float_dtypes_complete p Hp)). unfold no_overflow_b in H.
  apply andb_true_iff in H. destruct H as [H1 H2]. apply Z.leb_le in H1. apply Z.leb_le in H2.
  apply in_range_abs in Hx. apply in_range_abs in Hy.
  assert (H0 : 0 <= max_abs d) by (pose proof (Z.abs_nonneg x); lia).
  split.
  - rewrite Z.abs_mul. eapply Z.le_trans; [|exact H1]. apply Z.mul_le_mono_nonneg; try assumption; apply Z.abs_nonneg.
  - pose proof (Z.abs_triangle x (- y)) as T. rewrite Z.abs_opp in T. replace (x + - y) with (x - y) in T by lia. lia.
Qed.

(* the code as found: max() on dtypes keeps 32/64-bit integers, and their arithmetic wraps *)
Lemma promote_refuted_thm :
  exists d p x, is_int d = true /\ is_float p = true /\ in_range d x
                /\ is_float (promote_old d p) = false /\ wrap_to (promote_old d p) (x * x) <> x * x.
Proof. exists DI32, DF32, 100000. vm_compute. repeat split; discriminate. Qed.

Lemma promote_old_wraps_100000 : promote_old DI32 DF32 = DI32 /\ wrap_to DI32 (100000 * 100000) = 1410065408.
Proof. vm_compute. split; reflexivity. Qed.

(* on everything the old code promoted to a float, the repaired code agrees with it *)
Lemma promote_old_agrees d p : is_float p = true -> is_float (promote_old d p) = true -> promote_old d p = promote d p.
Proof. destruct d, p; cbn; intros; try discriminate; reflexivity. Qed.

(* ================================================================ E. first-order formulas *)
Local Open Scope Qc_scope.

(* the value carried by an expected entry that is a plain rational *)
Definition xq_value (e : xval) : Qc := match e with XQ v _ => v | _ => 0 end.

Lemma map_fst_combine {A B} (l1 : list A) : forall (l2 : list B), (length l1 <= length l2)%nat -> map fst (combine l1 l2) = l1.
Proof.
  induction l1 as [|x l1 IH]; intros l2 H; [reflexivity|]. destruct l2 as [|y l2]; [cbn in H; lia|].
  cbn [combine map fst]. f_equal. apply IH. cbn in H. lia.
Qed.

(* center / CenterOn: entry (r, j) is x[r, j] - m[j] *)
Lemma fo_center_rows_values n3 m mx T w :
  length m = w -> length mx = w -> rect w T = true ->
  map (map xq_value) (fo_center_rows n3 m mx T) = map (fun row => sub_rows row m) T.
Proof.
  intros Hm Hmx Hrect. unfold fo_center_rows. rewrite map_map. apply map_ext_in. intros row Hrow.
  unfold rect in Hrect. rewrite forallb_forall in Hrect. specialize (Hrect row Hrow). apply Nat.eqb_eq in Hrect.
  unfold map3, sub_rows. rewrite map_map. cbn [xq_value].
  rewrite <- (map_fst_combine (combine row m) mx) at 2 by (rewrite combine_length; lia).
  rewrite map_map. reflexivity.
Qed.

Lemma column_of_sub_rows w T m j : rect w T = true -> length m = w -> (j < w)%nat ->
  column_of (map (fun row => sub_rows row m) T) j = map (fun x => x - nth j m 0) (column_of T j).
Proof.
  intros Hrect Hm Hj. unfold column_of. rewrite !map_map. apply map_ext_in. intros row Hrow.
  unfold rect in Hrect. rewrite forallb_forall in Hrect. specialize (Hrect row Hrow). apply Nat.eqb_eq in Hrect.
  apply nth_sub_rows; lia.
Qed.

(* centring on the batch mean: every column of the result sums to zero *)
Theorem center_columns_sum_zero w T j : T <> [] -> rect w T = true -> (j < w)%nat ->
  qsum (column_of (center_with w None T) j) = 0.
Proof.
  intros HT Hrect Hj. unfold center_with.
  rewrite (column_of_sub_rows w) by (try assumption; unfold col_means; rewrite map_length, seq_length; reflexivity).
  rewrite nth_col_means by exact Hj. apply qsum_centered.
  unfold column_of. destruct T; [congruence|discriminate].
Qed.

(* standardize without square roots: the numerators x - mean of a column sum to zero and their squares sum to n * var,
   so that y = num / sqrt(var) has mean 0 and mean square 1; var = 0 exactly when the column is constant (0/0 = NaN) *)
Theorem standardize_sqrt_free l : l <> [] ->
  let num := map (fun x => x - qmean l) l in
  let var := ssd l / qlen l in
  qsum num = 0 /\ qsum (map (fun y => y * y) num) = qlen l * var /\ (var = 0 <-> forall x, In x l -> x = qmean l).
Proof.
  intros Hl num var. pose proof (qlen_nonzero l Hl) as Hn. split; [apply qsum_centered; exact Hl|]. split.
  - subst num var. rewrite map_map. change (qsum (map (fun x => (x - qmean l) * (x - qmean l)) l)) with (ssd l). field. exact Hn.
  - subst var. rewrite <- ssd_zero_iff_constant. split.
    + intros H. replace (ssd l) with (ssd l / qlen l * qlen l) by (field; exact Hn). rewrite H. ring.
    + intros H. rewrite H. field. exact Hn.
Qed.

Lemma col_vars_nth w T j : (j < w)%nat -> nth j (col_vars w T) 0 = ssd (column_of T j) / qlen (column_of T j).
Proof. intros H. unfold col_vars. apply (nth_map_seq (fun j => ssd (column_of T j) / qlen (column_of T j))). exact H. Qed.

(* ToPower *)
Lemma qc_pow_0 x : qc_pow x 0 = Some 1.
Proof. reflexivity. Qed.
Lemma qc_pow_1 x : qc_pow x 1 = Some x.
Proof. unfold qc_pow. change (0 <=? 1)%Z with true. cbv iota. change (Z.to_nat 1) with 1%nat. cbn [Qcpower]. f_equal. ring. Qed.
Lemma qc_pow_2 x : qc_pow x 2 = Some (x * x).
Proof. unfold qc_pow. change (0 <=? 2)%Z with true. cbv iota. change (Z.to_nat 2) with 2%nat. cbn [Qcpower]. f_equal. ring. Qed.
Lemma Qcpower_add x a b : Qcpower x (a + b) = Qcpower x a * Qcpower x b.
Proof. induction a as [|a IH]; cbn [Nat.add Qcpower]; [ring|]. rewrite IH. ring. Qed.
Lemma qc_pow_add x a b : (0 <= a)%Z -> (0 <= b)%Z ->
  qc_pow x (a + b) = match qc_pow x a, qc_pow x b with Some u, Some v => Some (u * v) | _, _ => None end.
Proof.
  intros Ha Hb. unfold qc_pow.
  destruct (Z.leb_spec 0 a), (Z.leb_spec 0 b), (Z.leb_spec 0 (a + b)); try lia.
  rewrite Z2Nat.inj_add by assumption. rewrite Qcpower_add. reflexivity.
Qed.
Lemma Qcpower_nonzero x n : x <> 0 -> Qcpower x n <> 0.
Proof.
  intros Hx. induction n as [|n IH]; cbn [Qcpower]; [discriminate|].
  intros H. apply Qcmult_integral in H. tauto.
Qed.
Lemma qc_pow_neg x k : (k < 0)%Z -> x <> 0 -> exists v, qc_pow x k = Some v /\ v * Qcpower x (Z.to_nat (- k)) = 1.
Proof.
  intros Hk Hx. unfold qc_pow. destruct (Z.leb_spec 0 k); [lia|].
  unfold qc_eqb. match goal with |- context [Qeq_bool ?a ?b] => destruct (Qeq_bool a b) eqn:E end.
  - apply Qeq_bool_iff in E. exfalso. apply Hx. apply Qc_is_canon. exact E.
  - eexists. split; [reflexivity|]. apply Qcmult_inv_l. apply Qcpower_nonzero. exact Hx.
Qed.

(* serialize_bit: the 8 bits of each byte, most significant first *)
Local Open Scope Z_scope.
Definition bits_value (l : list Z) : Z := fold_left (fun acc b => 2 * acc + b) l 0.

Definition byte_bits_ok (b : Z) : bool :=
  (length (byte_bits b) =? 8)%nat && forallb (fun x => (x =? 0) || (x =? 1)) (byte_bits b) && (bits_value (byte_bits b) =? b).

Lemma byte_bits_all : forallb (fun n => byte_bits_ok (Z.of_nat n)) (seq 0 256) = true.
Proof. vm_compute. reflexivity. Qed.

Theorem byte_bits_spec b : 0 <= b < 256 ->
  length (byte_bits b) = 8%nat /\ (forall x, In x (byte_bits b) -> x = 0 \/ x = 1) /\ bits_value (byte_bits b) = b
  /\ forall i, (i < 8)%nat -> nth i (byte_bits b) 0 = Z.b2z (Z.testbit b (7 - Z.of_nat i)).
Proof.
  intros Hb. pose proof byte_bits_all as H. rewrite forallb_forall in H. specialize (H (Z.to_nat b)).
  rewrite Z2Nat.id in H by lia. assert (Hin : In (Z.to_nat b) (seq 0 256)) by (apply in_seq; lia). specialize (H Hin).
  unfold byte_bits_ok in H. apply andb_true_iff in H. destruct H as [H H3]. apply andb_true_iff in H. destruct H as [H1 H2].
  split; [apply Nat.eqb_eq; exact H1|]. split.
  - intros x Hx. rewrite forallb_forall in H2. specialize (H2 x Hx). apply orb_true_iff in H2. destruct H2 as [E|E]; apply Z.eqb_eq in E; tauto.
  - split; [apply Z.eqb_eq; exact H3|]. intros i Hi. unfold byte_bits.
    apply (nth_map_seq (fun i => Z.b2z (Z.testbit b (7 - Z.of_nat i)))). exact Hi.
Qed.

Lemma serialize_row_length row : length (serialize_row row) = (8 * length row)%nat.
Proof.
  unfold serialize_row. induction row as [|x row IH]; [reflexivity|]. cbn [flat_map length].
  rewrite app_length, IH. unfold byte_bits. rewrite map_length, seq_length. lia.
Qed.

(* output column 8 j + i of a trace is bit 7 - i of the low byte of sample j *)
Theorem serialize_row_nth row j i : (j < length row)%nat -> (i < 8)%nat ->
  nth (8 * j + i) (serialize_row row) 0 = Z.b2z (Z.testbit (nth j row 0 mod 256) (7 - Z.of_nat i)).
Proof.
  revert j. unfold serialize_row. induction row as [|x row IH]; intros j Hj Hi; [cbn in Hj; lia|].
  cbn [flat_map]. assert (L : length (byte_bits (x mod 256)) = 8%nat) by (unfold byte_bits; rewrite map_length, seq_length; reflexivity).
  destruct j as [|j].
  - rewrite app_nth1 by lia. replace (8 * 0 + i)%nat with i by lia. cbn [nth].
    unfold byte_bits. apply (nth_map_seq (fun i => Z.b2z (Z.testbit (x mod 256) (7 - Z.of_nat i)))). exact Hi.
  - rewrite app_nth2 by lia. rewrite L. replace (8 * S j + i - 8)%nat with (8 * j + i)%nat by lia. cbn [nth].
    apply IH; [cbn in Hj; lia|exact Hi].
Qed.
Local Open Scope nat_scope.

(* ================================================================ F. time-frequency compositions, for every oracle *)
Local Open Scope Qc_scope.

Lemma map2_ext {A B C} (f g : A -> B -> C) l1 l2 : (forall x y, f x y = g x y) -> map2 f l1 l2 = map2 g l1 l2.
Proof. intros H. unfold map2. apply map_ext. intros [x y]. apply H. Qed.

Lemma map2_map_l {A A' B C} (f : A' -> B -> C) (g : A -> A') l1 : forall l2, map2 f (map g l1) l2 = map2 (fun x y => f (g x) y) l1 l2.
Proof. unfold map2. induction l1 as [|x l1 IH]; intros [|y l2]; cbn [map combine]; try reflexivity. rewrite IH. reflexivity. Qed.

Lemma map2_map_r {A B B' C} (f : A -> B' -> C) (g : B -> B') l1 : forall l2, map2 f l1 (map g l2) = map2 (fun x y => f x (g y)) l1 l2.
Proof. unfold map2. induction l1 as [|x l1 IH]; intros [|y l2]; cbn [map combine]; try reflexivity. rewrite IH. reflexivity. Qed.

Lemma map_map2 {A B C D} (h : C -> D) (f : A -> B -> C) l1 l2 : map h (map2 f l1 l2) = map2 (fun x y => h (f x y)) l1 l2.
Proof. unfold map2. rewrite map_map. reflexivity. Qed.

Lemma map2_same {A B C D} (f : B -> C -> D) (g : A -> B) (h : A -> C) l : map2 f (map g l) (map h l) = map (fun x => f (g x) (h x)) l.
Proof. unfold map2. induction l as [|x l IH]; [reflexivity|]. cbn [map combine]. rewrite IH. reflexivity. Qed.

Lemma conj_product a b : cmul (cconj a) b = (fst a * fst b + snd a * snd b, fst a * snd b - snd a * fst b).
Proof. unfold cmul, cconj. cbn [fst snd]. f_equal; ring. Qed.

Lemma norm2_conj_product a b : norm2 (cmul (cconj a) b) = norm2 a * norm2 b.
Proof. unfold norm2, cmul, cconj. cbn [fst snd]. ring. Qed.

Section TimeFrequencyProofs.
  Variable rfft : list Qc -> list cplx.
  Variable irfft : list cplx -> list Qc.
  Variable fft : list Qc -> list cplx.
  Variable stdz : list (list Qc) -> list (list Qc).

  (* Xcorr: irfft of conj(F1) * F2, component by component *)
  Lemma xcorr_composition_thm a b :
    tf_operation rfft irfft TXcorr a b
    = map Rat (irfft (map2 (fun f g => (fst f * fst g + snd f * snd g, fst f * snd g - snd f * fst g)) (rfft a) (rfft b))).
  Proof. cbn [tf_operation]. rewrite map2_map_l. rewrite (map2_ext _ _ _ _ (fun f g => conj_product f g)). reflexivity. Qed.

  (* WindowFFT: |conj(F1) * F2| = sqrt (|F1|^2 |F2|^2) *)
  Lemma window_fft_composition_thm a b :
    tf_operation rfft irfft TWindowFFT a b = map2 (fun f g => Sqrt (norm2 f * norm2 g)) (rfft a) (rfft b).
  Proof.
    cbn [tf_operation]. rewrite map2_map_l, map_map2. apply map2_ext. intros f g. unfold cabs. rewrite norm2_conj_product. reflexivity.
  Qed.

  (* WindowFHT: product of the Hartley transforms, each = re - im of rfft *)
  Lemma window_fht_composition_thm a b :
    tf_operation rfft irfft TWindowFHT a b = map2 (fun f g => Rat ((fst f - snd f) * (fst g - snd g))) (rfft a) (rfft b).
  Proof. cbn [tf_operation]. unfold fht. rewrite map_map2, map2_map_l, map2_map_r. reflexivity. Qed.

  (* MaxCorr: the two frames are concatenated (frame_1 first); output = [real parts, imaginary parts, moduli] *)
  Lemma maxcorr_composition_thm a b :
    tf_operation rfft irfft TMaxCorr a b
    = map (fun f => Rat (fst f)) (rfft (a ++ b)) ++ map (fun f => Rat (snd f)) (rfft (a ++ b)) ++ map (fun f => Sqrt (norm2 f)) (rfft (a ++ b))
    /\ length (tf_operation rfft irfft TMaxCorr a b) = (3 * length (rfft (a ++ b)))%nat.
  Proof.
    cbn [tf_operation]. cbv zeta. rewrite !map_map. split; [reflexivity|]. rewrite !app_length, !map_length. unfold cplx. lia.
  Qed.

  (* ConcatFFT: the squared modulus — no square root is left *)
  Lemma concat_fft_composition_thm a b :
    tf_operation rfft irfft TConcatFFT a b = map (fun f => Rat (fst f * fst f + snd f * snd f)) (rfft (a ++ b)).
  Proof. cbn [tf_operation]. rewrite map_map. reflexivity. Qed.

  (* ConcatFHT: the squared Hartley transform of the concatenation *)
  Lemma concat_fht_composition_thm a b :
    tf_operation rfft irfft TConcatFHT a b = map (fun f => Rat ((fst f - snd f) * (fst f - snd f))) (rfft (a ++ b)).
  Proof. cbn [tf_operation]. unfold fht. rewrite map_map. reflexivity. Qed.

  (* mode dispatch and the whole call: each output row is the operation on the two selected (and preprocessed) chunks of that row *)
  Lemma tf_call_raw_thm o c1 c2 T :
    tf_call rfft irfft stdz o MRaw c1 c2 T = map (fun row => tf_operation rfft irfft o (sel_row 0 c1 row) (sel_row 0 c2 row)) T.
  Proof. unfold tf_call. cbn [tf_pre]. apply map2_same. Qed.

  Lemma tf_call_modes_thm o m c1 c2 T :
    tf_call rfft irfft stdz o m c1 c2 T
    = let pre := match m with
                 | MRaw => fun X => X
                 | MCentered => fun X => center_with (length (hd [] X)) None X
                 | MStandardized => stdz
                 end in
      map2 (tf_operation rfft irfft o) (pre (map (sel_row 0 c1) T)) (pre (map (sel_row 0 c2) T)).
  Proof. destruct m; reflexivity. Qed.

  (* fft_modulus: the first ceil(w / 2) moduli *)
  Lemma fft_modulus_thm row :
    fft_modulus_row fft row = firstn ((length row + 1) / 2) (map (fun f => Sqrt (fst f * fst f + snd f * snd f)) (fft row))
    /\ (length (fft_modulus_row fft row) <= (length row + 1) / 2)%nat.
  Proof. unfold fft_modulus_row. split; [reflexivity|]. apply firstn_le_length. Qed.
End TimeFrequencyProofs.

(* frame defaulting of the time-frequency classes *)
Lemma handle_none_frame_thm f1 f2 :
  handle_none_frame f1 f2 =
  match is_fnone f1, is_fnone f2 with
  | true, true => (FNone, FNone)
  | true, false => (f2, f2)
  | false, true => (f1, f1)
  | false, false => (f1, f2)
  end.
Proof. unfold handle_none_frame. destruct f1, f2; reflexivity. Qed.

(* both frames None: the whole trace for both *)
Lemma tf_frames_default p2p w : tf_frames p2p FNone FNone w = Done (seq 0 w, seq 0 w).
Proof. destruct p2p; reflexivity. Qed.

(* ================================================================ G. what the dispatcher hands to the loops *)
Local Open Scope nat_scope.

Lemma resolve_idx_bound w l : forall l', resolve_idx w l = Some l' -> Forall (fun c => c < w) l' /\ length l' = length l.
Proof.
  induction l as [|i l IH]; intros l' H; cbn [resolve_idx] in H.
  - inversion H. split; [constructor|reflexivity].
  - destruct ((- Z.of_nat w <=? i)%Z && (i <? Z.of_nat w)%Z) eqn:E; [|discriminate].
    destruct (resolve_idx w l) as [t|]; [|discriminate]. inversion H; subst l'. clear H.
    destruct (IH t eq_refl) as [Hf Hl]. apply andb_true_iff in E. destruct E as [E1 E2].
    apply Z.leb_le in E1. apply Z.ltb_lt in E2. split; [|cbn [length]; rewrite Hl; reflexivity].
    constructor; [|exact Hf]. destruct (Z.ltb_spec i 0); lia.
Qed.

Lemma frame_columns_bound w b s f : frame_columns w b s = Done f -> Forall (fun c => c < w) f.
Proof.
  destruct s as [| |l]; cbn [frame_columns].
  - intros H. inversion H. apply Forall_forall. intros c Hc. apply in_seq in Hc. lia.
  - destruct b; [|discriminate]. intros H. inversion H. apply Forall_forall. intros c Hc. apply in_seq in Hc. lia.
  - destruct (resolve_idx w l) as [l'|] eqn:E; [|discriminate]. intros H. inversion H; subst. apply (resolve_idx_bound w l). exact E.
Qed.

(* whatever configuration the code accepts, the loop it selects gets frames inside the trace, the two chunks of the
   one-frame loop have the same width, and the documented pair list exists *)
Theorem dispatch_wf cfg w k : comb_dispatch cfg w = Done k ->
  kind_wf k /\ Forall (fun c => c < w) (fst (kind_frames k)) /\ Forall (fun c => c < w) (snd (kind_frames k))
  /\ exists ps, kind_pairs k = Some ps.
Proof.
  unfold comb_dispatch.
  destruct (match cf_distance cfg with Some _ => true | None => false end && (cf_same cfg || negb (is_fnone (cf_frame2 cfg)))); [discriminate|].
  destruct (cf_same cfg && is_fnone (cf_frame2 cfg)); [discriminate|].
  destruct (cf_distance cfg) as [d|].
  - destruct (set_frame (cf_frame1 cfg)) as [s1|]; [|discriminate].
    destruct (d <? 1)%Z; [discriminate|].
    destruct (frame_columns w false s1) as [| |f] eqn:E; cbn [bind_outcome]; try discriminate.
    intros H. inversion H; subst k. cbn [kind_wf kind_frames fst snd kind_pairs].
    pose proof (frame_columns_bound _ _ _ _ E). repeat split; try assumption. eexists; reflexivity.
  - destruct (cf_same cfg).
    + destruct (set_frame (cf_frame1 cfg)) as [s1|]; [|discriminate].
      destruct (set_frame (cf_frame2 cfg)) as [s2|]; [|discriminate].
      destruct (p2p_len_ok s1 s2) as [[|]|]; try discriminate.
      destruct (frame_columns w true s1) as [| |f1] eqn:E1; cbn [bind_outcome]; try discriminate.
      destruct (frame_columns w true s2) as [| |f2] eqn:E2; cbn [bind_outcome]; try discriminate.
      destruct (pairs_p2p_bcast (length f1) (length f2)) as [ps|] eqn:Ep; [|discriminate].
      intros H. inversion H; subst k. cbn [kind_wf kind_frames fst snd kind_pairs].
      pose proof (frame_columns_bound _ _ _ _ E1). pose proof (frame_columns_bound _ _ _ _ E2).
      repeat split; try assumption. exists ps. exact Ep.
    + destruct (is_fnone (cf_frame2 cfg)) eqn:Ewn.
      * destruct (set_frame (cf_frame1 cfg)) as [s1|]; [|discriminate].
        destruct (frame_columns w false s1) as [| |f1] eqn:E1; cbn [bind_outcome]; try discriminate.
        intros H. inversion H; subst k. cbn [kind_wf kind_frames fst snd kind_pairs].
        pose proof (frame_columns_bound _ _ _ _ E1). repeat split; try assumption. eexists; reflexivity.
      * destruct (set_frame (cf_frame1 cfg)) as [s1|]; [|discriminate].
        destruct (set_frame (cf_frame2 cfg)) as [s2|]; [|discriminate].
        destruct (frame_columns w false s1) as [| |f1] eqn:E1; cbn [bind_outcome]; try discriminate.
        destruct (frame_columns w false s2) as [| |f2] eqn:E2; cbn [bind_outcome]; try discriminate.
        intros H. inversion H; subst k. cbn [kind_wf kind_frames fst snd kind_pairs].
        pose proof (frame_columns_bound _ _ _ _ E1). pose proof (frame_columns_bound _ _ _ _ E2).
        repeat split; try assumption. eexists; reflexivity.
Qed.

(* which enumeration each configuration selects *)
Lemma dispatch_pairs cfg w k : comb_dispatch cfg w = Done k ->
  match k with
  | KTwo f1 f2 true => cf_distance cfg = None /\ cf_same cfg = false /\ is_fnone (cf_frame2 cfg) = true /\ f1 = f2
                       /\ kind_pairs k = Some (pairs_full (length f1))
  | KTwo f1 f2 false => cf_distance cfg = None /\ cf_same cfg = false /\ is_fnone (cf_frame2 cfg) = false
                        /\ kind_pairs k = Some (pairs_two (length f1) (length f2))
  | KDist f d => cf_distance cfg = Some (Z.of_nat d) /\ 1 <= d /\ kind_pairs k = Some (pairs_dist (length f) d)
  | KP2P f1 f2 => cf_distance cfg = None /\ cf_same cfg = true /\ kind_pairs k = pairs_p2p_bcast (length f1) (length f2)
  end.
Proof.
  unfold comb_dispatch.
  destruct (match cf_distance cfg with Some _ => true | None => false end && (cf_same cfg || negb (is_fnone (cf_frame2 cfg)))); [discriminate|].
  destruct (cf_same cfg && is_fnone (cf_frame2 cfg)); [discriminate|].
  destruct (cf_distance cfg) as [d|].
  - destruct (set_frame (cf_frame1 cfg)) as [s1|]; [|discriminate].
    destruct (Z.ltb_spec d 1); [discriminate|].
    destruct (frame_columns w false s1) as [| |f]; cbn [bind_outcome]; try discriminate.
    intros H0. inversion H0; subst k. repeat split; [f_equal; lia|lia].
  - destruct (cf_same cfg).
    + destruct (set_frame (cf_frame1 cfg)) as [s1|]; [|discriminate].
      destruct (set_frame (cf_frame2 cfg)) as [s2|]; [|discriminate].
      destruct (p2p_len_ok s1 s2) as [[|]|]; try discriminate.
      destruct (frame_columns w true s1) as [| |f1]; cbn [bind_outcome]; try discriminate.
      destruct (frame_columns w true s2) as [| |f2]; cbn [bind_outcome]; try discriminate.
      destruct (pairs_p2p_bcast (length f1) (length f2)) as [ps|]; [|discriminate].
      intros H. inversion H; subst k. repeat split.
    + destruct (is_fnone (cf_frame2 cfg)) eqn:Ewn.
      * destruct (set_frame (cf_frame1 cfg)) as [s1|]; [|discriminate].
        destruct (frame_columns w false s1) as [| |f1]; cbn [bind_outcome]; try discriminate.
        intros H. inversion H; subst k. repeat split.
      * destruct (set_frame (cf_frame1 cfg)) as [s1|]; [|discriminate].
        destruct (set_frame (cf_frame2 cfg)) as [s2|]; [|discriminate].
        destruct (frame_columns w false s1) as [| |f1]; cbn [bind_outcome]; try discriminate.
        destruct (frame_columns w false s2) as [| |f2]; cbn [bind_outcome]; try discriminate.
        intros H. inversion H; subst k. repeat split.
Qed.

(* ================================================================ H. the statements as used by Props/C18.v *)
Local Open Scope nat_scope.

Lemma pairs_full_thm n :
  (forall i j, In (i, j) (pairs_full n) <-> i <= j < n)
  /\ StronglySorted lex_lt (pairs_full n) /\ NoDup (pairs_full n)
  /\ length (pairs_full n) = n * (n + 1) / 2 /\ 2 * length (pairs_full n) = n * (n + 1).
Proof.
  split; [intros; apply in_pairs_full|]. split; [apply pairs_full_sorted|]. split; [apply pairs_full_nodup|].
  split; [apply pairs_full_length|apply pairs_full_length2].
Qed.

Lemma pairs_dist_thm n d :
  (forall i j, In (i, j) (pairs_dist n d) <-> i <= j < n /\ j - i <= d)
  /\ StronglySorted lex_lt (pairs_dist n d) /\ NoDup (pairs_dist n d)
  /\ pairs_dist n d = filter (fun p => snd p - fst p <=? d) (pairs_full n)
  /\ (n <= S d -> pairs_dist n d = pairs_full n)
  /\ length (pairs_dist n d) = nsum (fun i => Nat.min (S d) (n - i)) (seq 0 n).
Proof.
  split; [intros; apply in_pairs_dist|]. split; [apply pairs_dist_sorted|]. split; [apply pairs_dist_nodup|].
  split; [apply pairs_dist_filter|]. split; [apply pairs_dist_large|apply pairs_dist_length].
Qed.

Lemma pairs_two_thm n1 n2 :
  (forall i j, In (i, j) (pairs_two n1 n2) <-> i < n1 /\ j < n2)
  /\ StronglySorted lex_lt (pairs_two n1 n2) /\ NoDup (pairs_two n1 n2) /\ length (pairs_two n1 n2) = n1 * n2.
Proof.
  split; [intros; apply in_pairs_two|]. split; [apply pairs_two_sorted|]. split; [apply pairs_two_nodup|apply pairs_two_length].
Qed.

Lemma pairs_p2p_thm n :
  (forall i j, In (i, j) (pairs_p2p n) <-> i < n /\ j = i)
  /\ StronglySorted lex_lt (pairs_p2p n) /\ NoDup (pairs_p2p n) /\ length (pairs_p2p n) = n.
Proof.
  split; [intros; apply in_pairs_p2p|]. split; [apply pairs_p2p_sorted|]. split; [apply pairs_p2p_nodup|apply pairs_p2p_length].
Qed.

(* position of a pair in the one-frame enumeration: the running offset of the loop *)
Lemma pairs_full_index n i j : i <= j < n ->
  nth_error (pairs_full n) (nsum (fun i' => n - i') (seq 0 i) + (j - i)) = Some (i, j).
Proof.
  intros H. unfold pairs_full.
  replace (seq 0 n) with (seq 0 i ++ seq i (n - i)) by (rewrite <- seq_app; f_equal; lia).
  rewrite flat_map_app.
  assert (L : length (flat_map (fun i0 => map (pair i0) (seq i0 (n - i0))) (seq 0 i)) = nsum (fun i' => n - i') (seq 0 i)).
  { apply (rowsegs_length (fun i => i) (fun i => n - i)). }
  rewrite nth_error_app2 by lia. rewrite L. replace (nsum _ _ + (j - i) - nsum _ _) with (j - i) by lia.
  destruct (n - i) as [|m] eqn:E; [lia|]. cbn [seq flat_map].
  rewrite nth_error_app1 by (rewrite map_length; cbn [length]; rewrite seq_length; lia).
  rewrite nth_error_map. rewrite (nth_error_nth' _ 0) by (cbn [length]; rewrite seq_length; lia).
  change (i :: seq (S i) m) with (seq i (S m)). rewrite seq_nth by lia. cbn [option_map]. f_equal. f_equal. lia.
Qed.

Lemma combination_is_rowwise_thm o ps f1 f2 w mean :
  uses_batch_mean o mean = false ->
  (forall T r, r < length T -> nth r (comb_spec o ps f1 f2 w mean T) [] = hd [] (comb_spec o ps f1 f2 w mean [nth r T []]))
  /\ (forall T T' r r', r < length T -> r' < length T' -> nth r T [] = nth r' T' [] ->
        nth r (comb_spec o ps f1 f2 w mean T) [] = nth r' (comb_spec o ps f1 f2 w mean T') [])
  /\ (forall T1 T2, comb_spec o ps f1 f2 w mean (T1 ++ T2) = comb_spec o ps f1 f2 w mean T1 ++ comb_spec o ps f1 f2 w mean T2).
Proof.
  intros H. split; [intros; apply comb_spec_row_nth; assumption|].
  split; [intros; apply comb_spec_batch_independent; assumption|intros; apply comb_spec_app; assumption].
Qed.

Lemma centered_uses_batch_mean_thm ps f1 f2 w T :
  comb_spec OpCenteredProduct ps f1 f2 w None T = comb_spec OpProduct ps f1 f2 w None (map (fun row => sub_rows row (col_means w T)) T)
  /\ comb_spec OpCenteredProduct ps f1 f2 w None T = comb_spec OpCenteredProduct ps f1 f2 w (Some (col_means w T)) T
  /\ (forall a, a < w -> nth a (col_means w T) 0%Qc = qmean (column_of T a)).
Proof. split; [reflexivity|]. split; [reflexivity|]. intros a Ha. apply nth_col_means. exact Ha. Qed.

Lemma power_laws_thm x :
  qc_pow x 0 = Some 1%Qc /\ qc_pow x 1 = Some x /\ qc_pow x 2 = Some (x * x)%Qc
  /\ (forall a b, (0 <= a)%Z -> (0 <= b)%Z ->
        qc_pow x (a + b) = match qc_pow x a, qc_pow x b with Some u, Some v => Some (u * v)%Qc | _, _ => None end)
  /\ (forall k, (k < 0)%Z -> x <> 0%Qc -> exists v, qc_pow x k = Some v /\ (v * Qcpower x (Z.to_nat (- k)))%Qc = 1%Qc).
Proof.
  split; [apply qc_pow_0|]. split; [apply qc_pow_1|]. split; [apply qc_pow_2|].
  split; [intros; apply qc_pow_add; assumption|intros; apply qc_pow_neg; assumption].
Qed.

Lemma serialize_bit_thm row :
  length (serialize_row row) = 8 * length row
  /\ forall j i, j < length row -> i < 8 -> nth (8 * j + i) (serialize_row row) 0%Z = Z.b2z (Z.testbit (nth j row 0%Z mod 256) (7 - Z.of_nat i)).
Proof. split; [apply serialize_row_length|intros; apply serialize_row_nth; assumption]. Qed.

(* the decorator lets a call through exactly when input and result are 2-D arrays with the same number of traces *)
Lemma decorator_accepts_iff_thm ia nd oa ond r r' :
  decorator_model ia nd oa ond r r' = DecOk <-> ia = true /\ nd = 2 /\ oa = true /\ ond = 2 /\ r' = r.
Proof.
  unfold decorator_model. destruct ia, oa; cbn [negb];
  destruct (Nat.eqb_spec nd 2), (Nat.eqb_spec ond 2), (Nat.eqb_spec r' r); cbn [negb];
  split; intros H; try discriminate; try (repeat split; congruence); try (destruct H as (? & ? & ? & ? & ?); congruence).
Qed.
