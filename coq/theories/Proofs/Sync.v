(* Proofs/Sync.v — lemmas for property C20 (Synchronizer: construction, check(), report(), run(), run() again). *)
From Coq Require Import ZArith List Bool Lia.
From ScaredV Require Import Run.Compare Model.Sync.
Import ListNotations.
Local Open Scope nat_scope.

(* ==================================================================== the writer *)
Section WriterProofs.
  Variable E : Type.
  Implicit Types w : writer E.

  (* the rows a write will find: those of the file once opened *)
  Definition eff w : list (option E) := w_rows (w_open w).

  Lemma ovw_open w : ovw (w_open w) = ovw w.
  Proof. unfold w_open. destruct (opened w); reflexivity. Qed.

  Lemma w_write_append w e :
    w_write w (length (eff w)) e = ({| ovw := ovw w; opened := true; disk := Some (eff w ++ [Some e]) |}, true).
  Proof.
    unfold w_write. fold (eff w). rewrite Nat.ltb_irrefl. cbn [andb]. rewrite ovw_open.
    unfold set_row. rewrite Nat.ltb_irrefl, Nat.sub_diag. reflexivity.
  Qed.

  Lemma w_write_refused w idx e :
    idx < length (eff w) -> ovw w = false -> w_write w idx e = (w_open w, false).
  Proof.
    intros H Ho. unfold w_write. fold (eff w). apply Nat.ltb_lt in H. rewrite H, ovw_open, Ho. reflexivity.
  Qed.

  Lemma disk_open_blocked w : ovw w = false -> eff w <> [] -> disk (w_open w) = disk w.
  Proof.
    unfold eff, w_open, w_rows. intros Ho. destruct (opened w); [reflexivity|]. rewrite Ho. cbn.
    destruct (disk w); [reflexivity|]. intros H. exfalso. apply H. reflexivity.
  Qed.

  Lemma eff_new old o :
    eff (new_writer old o) = if o then [] else match old with Some r => map Some r | None => [] end.
  Proof. unfold eff, w_open, new_writer, w_rows. cbn. destruct o; [reflexivity|]. destruct old; reflexivity. Qed.

  Lemma eff_new_clean old o : blocking old o = false -> eff (new_writer old o) = [].
  Proof.
    rewrite eff_new. unfold blocking. destruct o; [reflexivity|]. cbn.
    destruct old as [[|x r]|]; [reflexivity|discriminate|reflexivity].
  Qed.

  Lemma eff_new_blocking old o : blocking old o = true -> ovw (new_writer old o) = false /\ eff (new_writer old o) <> [].
  Proof.
    rewrite eff_new. unfold blocking. destruct o; [discriminate|]. cbn.
    destruct old as [[|x r]|]; try discriminate. intros _. split; [reflexivity|discriminate].
  Qed.

  (* the writer after the rows [acc] were appended one by one ([] : never opened) *)
  Definition wappend w (acc : list E) : writer E :=
    match acc with
    | [] => w
    | _ => {| ovw := ovw w; opened := true; disk := Some (eff w ++ map Some acc) |}
    end.

  Lemma wappend_cons w e acc :
    wappend {| ovw := ovw w; opened := true; disk := Some (eff w ++ [Some e]) |} acc = wappend w (e :: acc).
  Proof.
    destruct acc as [|a acc]; [reflexivity|].
    unfold wappend. cbn [ovw]. f_equal. f_equal.
    unfold eff at 1. unfold w_open. cbn [opened w_rows disk].
    rewrite <- app_assoc. reflexivity.
  Qed.

  Lemma eff_wappend w acc : eff (wappend w acc) = eff w ++ map Some acc.
  Proof. destruct acc as [|a acc]; [cbn; rewrite app_nil_r; reflexivity|]. reflexivity. Qed.

  Lemma reader_wappend_clean old o acc :
    blocking old o = false ->
    w_reader (wappend (new_writer old o) acc)
    = match acc with [] => option_map (map Some) old | _ => Some (map Some acc) end.
  Proof.
    intros Hb. destruct acc as [|a acc]; [reflexivity|].
    unfold wappend, w_reader. cbn [disk]. rewrite (eff_new_clean _ _ Hb). reflexivity.
  Qed.
End WriterProofs.

Arguments eff {E} w.
Arguments wappend {E} w acc.

(* ==================================================================== the object *)
Section SyncProofs.
  Variables (M X D : Type).
  Variable f : nat -> M * X -> outcome D.

  Notation accepted_from := (accepted_from M X D f).
  Notation accepted := (accepted M X D f).
  Notation rejected_prefix := (rejected_prefix M X D f).
  Notation step := (step M X D f).
  Notation loop := (loop M X D f).
  Notation run := (run M X D f).
  Notation check := (check M X D f).
  Notation exec_event := (exec_event M X D f).
  Notation exec_history := (exec_history M X D f).
  Notation after_history := (after_history M X D f).
  Notation sstate := (sstate M D).

  (* ---------------------------------------------------------------- the spec list, characterised without recursion *)
  Lemma accepted_from_app l1 l2 i :
    accepted_from i (l1 ++ l2) = accepted_from i l1 ++ accepted_from (i + length l1) l2.
  Proof.
    revert i. induction l1 as [|t l1 IH]; intros i; cbn [app accepted_from length].
    - rewrite Nat.add_0_r. reflexivity.
    - rewrite IH. replace (S i + length l1) with (i + S (length l1)) by lia.
      destruct (f i t); reflexivity.
  Qed.

  Lemma accepted_from_length_le i l : length (accepted_from i l) <= length l.
  Proof.
    revert i. induction l as [|t l IH]; intros i; cbn; [lia|].
    specialize (IH (S i)). destruct (f i t); cbn; lia.
  Qed.

  (* entry j of the spec list is (metadata, returned data) of THE input trace number i on which the function returned
     data and before which exactly j traces were accepted *)
  Lemma accepted_from_char l : forall k j m d,
    nth_error (accepted_from k l) j = Some (m, d) <->
    exists i x, nth_error l i = Some (m, x) /\ f (k + i) (m, x) = Accept d
                /\ length (accepted_from k (firstn i l)) = j.
  Proof.
    induction l as [|t l IH]; intros k j m d.
    - cbn. split.
      + destruct j; discriminate.
      + intros (i & x & H & _). destruct i; discriminate.
    - cbn [accepted_from]. destruct (f k t) as [d0| |] eqn:E.
      + destruct j as [|j].
        * cbn [nth_error]. split.
          -- intros H. injection H as Hm Hd. exists 0, (snd t). cbn.
             destruct t as [m0 x0]. cbn in *. subst. rewrite Nat.add_0_r. auto.
          -- intros (i & x & Hn & Hf & Hl). destruct i as [|i].
             ++ cbn in Hn. injection Hn as ->. rewrite Nat.add_0_r in Hf. rewrite E in Hf.
                injection Hf as ->. reflexivity.
             ++ cbn [firstn accepted_from] in Hl. rewrite E in Hl. discriminate.
        * cbn [nth_error]. rewrite IH. split.
          -- intros (i & x & Hn & Hf & Hl). exists (S i), x. cbn [nth_error firstn accepted_from].
             rewrite E. cbn [length]. replace (k + S i) with (S k + i) by lia. auto.
          -- intros (i & x & Hn & Hf & Hl). destruct i as [|i].
             ++ cbn in Hl. discriminate.
             ++ cbn [nth_error firstn accepted_from] in *. rewrite E in Hl. cbn [length] in Hl.
                exists i, x. replace (S k + i) with (k + S i) by lia. auto.
      + rewrite IH. split.
        * intros (i & x & Hn & Hf & Hl). exists (S i), x. cbn [nth_error firstn accepted_from].
          rewrite E. replace (k + S i) with (S k + i) by lia. auto.
        * intros (i & x & Hn & Hf & Hl). destruct i as [|i].
          -- cbn in Hn. injection Hn as ->. rewrite Nat.add_0_r in Hf. congruence.
          -- cbn [nth_error firstn accepted_from] in *. rewrite E in Hl.
             exists i, x. replace (S k + i) with (k + S i) by lia. auto.
      + rewrite IH. split.
        * intros (i & x & Hn & Hf & Hl). exists (S i), x. cbn [nth_error firstn accepted_from].
          rewrite E. replace (k + S i) with (S k + i) by lia. auto.
        * intros (i & x & Hn & Hf & Hl). destruct i as [|i].
          -- cbn in Hn. injection Hn as ->. rewrite Nat.add_0_r in Hf. congruence.
          -- cbn [nth_error firstn accepted_from] in *. rewrite E in Hl.
             exists i, x. replace (S k + i) with (k + S i) by lia. auto.
  Qed.

  Theorem accepted_char input j m d :
    nth_error (accepted input) j = Some (m, d) <->
    exists i x, nth_error input i = Some (m, x) /\ f i (m, x) = Accept d
                /\ length (accepted (firstn i input)) = j.
  Proof. unfold accepted. rewrite accepted_from_char. cbn. reflexivity. Qed.

  Theorem accepted_from_char_thm input c j m d :
    nth_error (accepted_from c input) j = Some (m, d) <->
    exists i x, nth_error input i = Some (m, x) /\ f (c + i) (m, x) = Accept d
                /\ length (accepted_from c (firstn i input)) = j.
  Proof. apply accepted_from_char. Qed.

  Lemma accepted_from_none l : forall k,
    (forall i t d, f i t <> Accept d) -> accepted_from k l = [].
  Proof.
    induction l as [|t l IH]; intros k H; cbn; [reflexivity|].
    destruct (f k t) as [d| |] eqn:E; [exfalso; eapply H; exact E| |]; apply IH; exact H.
  Qed.

  (* ---------------------------------------------------------------- the loop *)
  Definition log_of (a : nat) (acc : list (M * D)) : list (nat * (M * D)) := combine (seq a (length acc)) acc.

  Lemma log_of_cons a e acc : log_of a (e :: acc) = (a, e) :: log_of (S a) acc.
  Proof. reflexivity. Qed.

  Lemma none_iff_map (e : option errc) (g : errc -> errc) : e = None <-> option_map g e = None.
  Proof. destruct e; cbn; split; congruence. Qed.

  (* append mode: the next index (synchronized_counter) is the end of the file.  The loop never stops, and appends *)
  Lemma loop_append input : forall (st : sstate),
    synchronized st = length (eff (out st)) ->
    exists st', loop st input = Go st'
    /\ processed st' = processed st + length input
    /\ synchronized st' = synchronized st + length (accepted_from (calls st) input)
    /\ writes st' = writes st ++ log_of (synchronized st) (accepted_from (calls st) input)
    /\ calls st' = calls st + length input
    /\ (errs st = None <-> errs st' = None)
    /\ out st' = wappend (out st) (accepted_from (calls st) input).
  Proof.
    induction input as [|t input IH]; intros st Hs; cbn [loop accepted_from length].
    - exists st. cbn [wappend log_of length seq combine]. rewrite !Nat.add_0_r, app_nil_r. tauto.
    - unfold step. destruct (f (calls st) t) as [d| |] eqn:E.
      + replace (S (synchronized st) - 1) with (length (eff (out st))) by lia.
        rewrite w_write_append. cbn [snd fst].
        match goal with |- context [loop ?s input] => set (st1 := s) end.
        assert (Hs1 : synchronized st1 = length (eff (out st1))).
        { subst st1. cbn [synchronized out]. unfold eff at 1, w_open. cbn [opened w_rows disk].
          rewrite app_length. cbn. lia. }
        destruct (IH st1 Hs1) as (st' & Hl & Hp & Hy & Hw & Hc & He & Ho).
        exists st'. split; [exact Hl|].
        rewrite Hp, Hy, Hw, Hc, <- He, Ho. subst st1. cbn [processed synchronized writes errs calls out length].
        rewrite log_of_cons, wappend_cons, <- app_assoc. cbn [app].
        rewrite <- Hs. repeat split; try lia; try tauto.
      + match goal with |- context [loop ?s input] => set (st1 := s) end.
        assert (Hs1 : synchronized st1 = length (eff (out st1))) by (subst st1; exact Hs).
        destruct (IH st1 Hs1) as (st' & Hl & Hp & Hy & Hw & Hc & He & Ho).
        exists st'. split; [exact Hl|].
        rewrite Hp, Hy, Hw, Hc, <- He, Ho. subst st1. cbn [processed synchronized writes errs calls out].
        rewrite <- none_iff_map. repeat split; try lia; try tauto.
      + match goal with |- context [loop ?s input] => set (st1 := s) end.
        assert (Hs1 : synchronized st1 = length (eff (out st1))) by (subst st1; exact Hs).
        destruct (IH st1 Hs1) as (st' & Hl & Hp & Hy & Hw & Hc & He & Ho).
        exists st'. split; [exact Hl|].
        rewrite Hp, Hy, Hw, Hc, <- He, Ho. subst st1. cbn [processed synchronized writes errs calls out].
        rewrite <- none_iff_map. repeat split; try lia; try tauto.
  Qed.

  (* nothing accepted: nothing but the processed counter (and the error counter) moves, whatever the writer is *)
  Lemma loop_all_rejected input : forall (st : sstate),
    accepted_from (calls st) input = [] ->
    exists st', loop st input = Go st'
    /\ processed st' = processed st + length input
    /\ synchronized st' = synchronized st
    /\ writes st' = writes st
    /\ calls st' = calls st + length input
    /\ (errs st = None <-> errs st' = None)
    /\ out st' = out st.
  Proof.
    induction input as [|t input IH]; intros st Ha; cbn [loop length].
    - exists st. rewrite !Nat.add_0_r. tauto.
    - cbn [accepted_from] in Ha. unfold step. destruct (f (calls st) t) as [d| |] eqn:E; [discriminate| |].
      + match goal with |- context [loop ?s input] => set (st1 := s) end.
        destruct (IH st1 Ha) as (st' & Hl & Hp & Hy & Hw & Hc & He & Ho).
        exists st'. split; [exact Hl|].
        rewrite Hp, Hy, Hw, Hc, <- He, Ho. subst st1. cbn [processed synchronized writes errs calls out].
        rewrite <- none_iff_map. repeat split; try lia; try tauto.
      + match goal with |- context [loop ?s input] => set (st1 := s) end.
        destruct (IH st1 Ha) as (st' & Hl & Hp & Hy & Hw & Hc & He & Ho).
        exists st'. split; [exact Hl|].
        rewrite Hp, Hy, Hw, Hc, <- He, Ho. subst st1. cbn [processed synchronized writes errs calls out].
        rewrite <- none_iff_map. repeat split; try lia; try tauto.
  Qed.

  (* blocked: the next index exists in the file and overwriting is disabled.  The first accepted trace stops run() *)
  Lemma loop_blocked input : forall (st : sstate),
    synchronized st < length (eff (out st)) -> ovw (out st) = false ->
    accepted_from (calls st) input <> [] ->
    exists st', loop st input = Stop st'
    /\ processed st' = processed st + S (rejected_prefix (calls st) input)
    /\ synchronized st' = S (synchronized st)
    /\ writes st' = writes st
    /\ calls st' = calls st + S (rejected_prefix (calls st) input)
    /\ (errs st = None <-> errs st' = None)
    /\ out st' = w_open (out st).
  Proof.
    induction input as [|t input IH]; intros st Hs Ho Ha; cbn [loop]; [exfalso; apply Ha; reflexivity|].
    cbn [accepted_from rejected_prefix] in *. unfold step. destruct (f (calls st) t) as [d| |] eqn:E.
    - rewrite w_write_refused by (try lia; exact Ho). cbn [snd fst].
      eexists. split; [reflexivity|]. cbn [processed synchronized writes errs calls out].
      repeat split; try lia; try tauto.
    - match goal with |- context [loop ?s input] => set (st1 := s) end.
      destruct (IH st1 Hs Ho Ha) as (st' & Hl & Hp & Hy & Hw & Hc & He & Hout).
      exists st'. split; [exact Hl|].
      rewrite Hp, Hy, Hw, Hc, <- He, Hout. subst st1. cbn [processed synchronized writes errs calls out].
      rewrite <- none_iff_map. repeat split; try lia; try tauto.
    - match goal with |- context [loop ?s input] => set (st1 := s) end.
      destruct (IH st1 Hs Ho Ha) as (st' & Hl & Hp & Hy & Hw & Hc & He & Hout).
      exists st'. split; [exact Hl|].
      rewrite Hp, Hy, Hw, Hc, <- He, Hout. subst st1. cbn [processed synchronized writes errs calls out].
      rewrite <- none_iff_map. repeat split; try lia; try tauto.
  Qed.

  Lemma rejected_prefix_lt input : forall i, accepted_from i input <> [] -> rejected_prefix i input < length input.
  Proof.
    induction input as [|t input IH]; intros i Ha; cbn in *; [exfalso; apply Ha; reflexivity|].
    destruct (f i t); [lia| |]; specialize (IH (S i) Ha); lia.
  Qed.

  (* the guard: once armed it stays armed *)
  Lemma loop_errs input : forall (st : sstate),
    errs st <> None -> match loop st input with Go s => errs s <> None | Stop s => errs s <> None end.
  Proof.
    induction input as [|t input IH]; intros st He; cbn [loop]; [exact He|].
    unfold step. destruct (f (calls st) t) as [d| |].
    - destruct (snd (w_write (out st) (S (synchronized st) - 1) (fst t, d))).
      + apply IH. exact He.
      + exact He.
    - apply IH. cbn [errs]. destruct (errs st); [discriminate|congruence].
    - apply IH. cbn [errs]. destruct (errs st); [discriminate|congruence].
  Qed.

  Lemma loop_app l1 l2 : forall st,
    loop st (l1 ++ l2) = match loop st l1 with Go s => loop s l2 | Stop s => Stop s end.
  Proof.
    induction l1 as [|t l1 IH]; intros st; cbn [app loop]; [reflexivity|].
    destruct (step st t) as [s|s]; [apply IH|reflexivity].
  Qed.

  (* ---------------------------------------------------------------- run() on an object nothing has happened to *)
  (* [pristine st old o]: counters 0, nothing written, guard not armed, the writer as built over the file [old];
     only the ghost call counter is free *)
  Definition pristine (st : sstate) (old : option (list (M * D))) (o : bool) : Prop :=
    visible st = visible (construct old o).

  Lemma pristine_fields st old o :
    pristine st old o ->
    processed st = 0 /\ synchronized st = 0 /\ writes st = [] /\ errs st = None /\ out st = new_writer old o.
  Proof. unfold pristine, visible. cbn. intros H. injection H as -> -> -> -> ->. auto. Qed.

  Lemma pristine_construct old o : pristine (construct old o) old o.
  Proof. reflexivity. Qed.

  Lemma run_clean st old o input :
    pristine st old o -> blocking old o = false ->
    exists st', run st input = RunDone st'
    /\ processed st' = length input
    /\ synchronized st' = length (accepted_from (calls st) input)
    /\ writes st' = log_of 0 (accepted_from (calls st) input)
    /\ calls st' = calls st + length input
    /\ errs st' <> None
    /\ out st' = wappend (new_writer old o) (accepted_from (calls st) input).
  Proof.
    intros Hp Hb. destruct (pristine_fields _ _ _ Hp) as (H1 & H2 & H3 & H4 & H5).
    unfold run. rewrite H4.
    assert (Hs : synchronized (arm st) = length (eff (out (arm st)))).
    { cbn [arm synchronized out]. rewrite H2, H5, (eff_new_clean _ _ _ Hb). reflexivity. }
    destruct (loop_append input (arm st) Hs) as (st' & Hl & Hpp & Hy & Hw & Hc & He & Ho).
    exists st'. rewrite Hl. split; [reflexivity|].
    cbn [arm processed synchronized writes errs calls out] in *.
    rewrite Hpp, Hy, Hw, Hc, Ho, H1, H2, H3, H5. cbn [app plus].
    repeat split; try reflexivity. intros H. apply He in H. discriminate.
  Qed.

  Lemma run_blocked_none st old o input :
    pristine st old o -> accepted_from (calls st) input = [] ->
    exists st', run st input = RunDone st'
    /\ processed st' = length input /\ synchronized st' = 0 /\ writes st' = []
    /\ calls st' = calls st + length input /\ errs st' <> None /\ out st' = new_writer old o.
  Proof.
    intros Hp Ha. destruct (pristine_fields _ _ _ Hp) as (H1 & H2 & H3 & H4 & H5).
    unfold run. rewrite H4.
    destruct (loop_all_rejected input (arm st) Ha) as (st' & Hl & Hpp & Hy & Hw & Hc & He & Ho).
    exists st'. rewrite Hl. split; [reflexivity|].
    cbn [arm processed synchronized writes errs calls out] in *.
    rewrite Hpp, Hy, Hw, Hc, Ho, H1, H2, H3, H5.
    repeat split; try reflexivity. intros H. apply He in H. discriminate.
  Qed.

  Lemma run_blocked_some st old o input :
    pristine st old o -> blocking old o = true -> accepted_from (calls st) input <> [] ->
    exists st', run st input = RunWriterError st'
    /\ processed st' = S (rejected_prefix (calls st) input) /\ synchronized st' = 1 /\ writes st' = []
    /\ calls st' = calls st + S (rejected_prefix (calls st) input) /\ errs st' <> None
    /\ disk (out st') = option_map (map Some) old.
  Proof.
    intros Hp Hb Ha. destruct (pristine_fields _ _ _ Hp) as (H1 & H2 & H3 & H4 & H5).
    destruct (eff_new_blocking _ _ _ Hb) as [Hov Hne].
    unfold run. rewrite H4.
    assert (Hs : synchronized (arm st) < length (eff (out (arm st)))).
    { cbn [arm synchronized out]. rewrite H2, H5. destruct (eff (new_writer old o)); [congruence|cbn; lia]. }
    assert (Ho' : ovw (out (arm st)) = false) by (cbn [arm out]; rewrite H5; exact Hov).
    destruct (loop_blocked input (arm st) Hs Ho' Ha) as (st' & Hl & Hpp & Hy & Hw & Hc & He & Ho).
    exists st'. rewrite Hl. split; [reflexivity|].
    cbn [arm processed synchronized writes errs calls out] in *.
    rewrite Hpp, Hy, Hw, Hc, Ho, H1, H2, H3, H5.
    repeat split; try reflexivity.
    - intros H. apply He in H. discriminate.
    - rewrite (disk_open_blocked _ _ Hov Hne). reflexivity.
  Qed.

  (* ---------------------------------------------------------------- the store *)
  Lemma store_get_log acc : forall a j,
    store_get (log_of a acc) j = if a <=? j then nth_error acc (j - a) else None.
  Proof.
    induction acc as [|e acc IH]; intros a j.
    - cbn. destruct (a <=? j); [destruct (j - a); reflexivity|reflexivity].
    - rewrite log_of_cons. cbn [store_get]. rewrite IH.
      destruct (Nat.leb_spec (S a) j) as [H|H].
      + destruct (Nat.leb_spec a j) as [H'|H']; [|lia].
        replace (j - a) with (S (j - S a)) by lia. cbn [nth_error].
        destruct (nth_error acc (j - S a)); [reflexivity|].
        destruct (Nat.eqb_spec a j); [lia|reflexivity].
      + destruct (Nat.eqb_spec a j) as [->|Hne].
        * rewrite Nat.leb_refl, Nat.sub_diag. reflexivity.
        * destruct (Nat.leb_spec a j); [lia|reflexivity].
  Qed.

  Lemma store_size_log acc : forall a, acc <> [] -> store_size (log_of a acc) = a + length acc.
  Proof.
    induction acc as [|e acc IH]; intros a Hne; [congruence|].
    rewrite log_of_cons. cbn [store_size fold_right fst length].
    destruct acc as [|e' acc].
    - cbn. lia.
    - change (fold_right _ 0 (log_of (S a) (e' :: acc))) with (store_size (log_of (S a) (e' :: acc))).
      rewrite IH by discriminate. cbn [length]. lia.
  Qed.

  Lemma store_size_log0 acc : store_size (log_of 0 acc) = length acc.
  Proof. destruct acc as [|e acc]; [reflexivity|]. rewrite store_size_log by discriminate. reflexivity. Qed.

  Lemma map_fst_log acc : forall a, map fst (log_of a acc) = seq a (length acc).
  Proof. induction acc as [|e acc IH]; intros a; [reflexivity|]. rewrite log_of_cons. cbn. rewrite IH. reflexivity. Qed.

  Lemma log_length a acc : length (log_of a acc) = length acc.
  Proof. unfold log_of. rewrite combine_length, seq_length. lia. Qed.

  (* ---------------------------------------------------------------- check(), report(), histories *)
  Lemma check_frame st input picks catch : visible (snd (check st input picks catch)) = visible st.
  Proof.
    unfold check. destruct picks as [|p r]; [reflexivity|].
    destruct (forallb (fun p0 => p0 <? length input) (p :: r)); reflexivity.
  Qed.

  Lemma exec_event_frame st input ev : visible (snd (exec_event st input ev)) = visible st.
  Proof. destruct ev as [picks catch|]; cbn [exec_event snd]; [apply check_frame|reflexivity]. Qed.

  Lemma exec_history_frame input evs : forall st,
    visible (after_history st input evs) = visible st
    /\ Forall (fun r => visible (snd r) = visible st) (fst (exec_history st input evs)).
  Proof.
    unfold Sync.after_history.
    induction evs as [|ev evs IH]; intros st; cbn [Sync.exec_history fst snd]; [split; [reflexivity|constructor]|].
    destruct (IH (snd (exec_event st input ev))) as [H1 H2]. pose proof (exec_event_frame st input ev) as H0.
    split.
    - rewrite H1. exact H0.
    - constructor; [exact H0|]. eapply Forall_impl; [|exact H2]. cbn beta. intros r Hr. rewrite Hr. exact H0.
  Qed.

  Lemma after_history_pristine old o input evs : pristine (after_history (construct old o) input evs) old o.
  Proof. unfold pristine. apply exec_history_frame. Qed.

  (* ---------------------------------------------------------------- the property theorems *)
  Theorem sync_output_thm st old o input st' :
    pristine st old o -> blocking old o = false ->
    run st input = RunDone st' ->
    store_size (writes st') = length (accepted_from (calls st) input)
    /\ (forall j, store_get (writes st') j = nth_error (accepted_from (calls st) input) j)
    /\ w_reader (out st') = match accepted_from (calls st) input with
                            | [] => option_map (map Some) old
                            | acc => Some (map Some acc)
                            end.
  Proof.
    intros Hp Hb H. destruct (run_clean _ _ _ input Hp Hb) as (s & Hr & _ & _ & Hw & _ & _ & Ho).
    rewrite Hr in H. injection H as <-. rewrite Hw, Ho. split; [|split].
    - apply store_size_log0.
    - intros j. rewrite store_get_log. cbn. rewrite Nat.sub_0_r. reflexivity.
    - rewrite (reader_wappend_clean _ _ _ _ Hb). destruct (accepted_from (calls st) input); reflexivity.
  Qed.

  Lemma map_seq_nth_error {A} (g : nat -> option A) (l : list A) : forall a,
    (forall j, j < length l -> g (a + j) = nth_error l j) -> map g (seq a (length l)) = map Some l.
  Proof.
    induction l as [|x l IH]; intros a H; [reflexivity|].
    cbn [length seq map]. f_equal.
    - specialize (H 0). rewrite Nat.add_0_r in H. apply H. cbn. lia.
    - apply IH. intros j Hj. replace (S a + j) with (a + S j) by lia. apply (H (S j)). cbn. lia.
  Qed.


  Theorem store_rows_thm st old o input st' :
    pristine st old o -> blocking old o = false ->
    run st input = RunDone st' -> store_rows (writes st') = map Some (accepted_from (calls st) input).
  Proof.
    intros Hp Hb H. destruct (sync_output_thm _ _ _ _ _ Hp Hb H) as (Hs & Hg & _). unfold store_rows. rewrite Hs.
    apply map_seq_nth_error. intros j _. apply Hg.
  Qed.

  Theorem run_defined_thm st old o input :
    pristine st old o -> blocking old o = false -> exists st', run st input = RunDone st'.
  Proof. intros Hp Hb. destruct (run_clean _ _ _ input Hp Hb) as (s & Hr & _). exists s. exact Hr. Qed.

  Theorem writes_are_appends_thm st old o input st' :
    pristine st old o -> blocking old o = false ->
    run st input = RunDone st' ->
    map fst (writes st') = seq 0 (length (writes st')).
  Proof.
    intros Hp Hb H. destruct (run_clean _ _ _ input Hp Hb) as (s & Hr & _ & _ & Hw & _).
    rewrite Hr in H. injection H as <-. rewrite Hw, map_fst_log, log_length. reflexivity.
  Qed.

  (* the state reached after [input] is the state in which the next trace [t] is handled: an accepted trace is written
     at the first index not yet in the file, and nothing already written is ever written again *)
  Theorem next_write_is_next_free st old o input st' t d :
    pristine st old o -> blocking old o = false ->
    run st input = RunDone st' -> f (calls st') t = Accept d ->
    exists st'', step st' t = Go st''
    /\ writes st'' = writes st' ++ [(store_size (writes st'), (fst t, d))]
    /\ w_reader (out st'') = Some (map Some (accepted_from (calls st) input) ++ [Some (fst t, d)]).
  Proof.
    intros Hp Hb H Hf. destruct (run_clean _ _ _ input Hp Hb) as (s & Hr & _ & Hy & Hw & _ & _ & Ho).
    rewrite Hr in H. injection H as <-.
    assert (Heff : eff (out s) = map Some (accepted_from (calls st) input)).
    { rewrite Ho, eff_wappend, (eff_new_clean _ _ _ Hb). reflexivity. }
    assert (Hlen : synchronized s = length (eff (out s))).
    { rewrite Hy, Heff, map_length. reflexivity. }
    unfold step. rewrite Hf.
    replace (S (synchronized s) - 1) with (length (eff (out s))) by lia.
    rewrite w_write_append. cbn [snd fst]. eexists. split; [reflexivity|].
    cbn [writes out w_reader disk]. rewrite Hw, store_size_log0, <- Hy, Hlen, Heff. split; reflexivity.
  Qed.

  (* running on l1 ++ [t] is running on l1 and then handling t: intermediate states of a run are final states of
     runs on prefixes, so the theorems above speak about every moment of every run *)
  Theorem run_snoc st l1 t st1 :
    run st l1 = RunDone st1 ->
    run st (l1 ++ [t]) = match step st1 t with Go s => RunDone s | Stop s => RunWriterError s end.
  Proof.
    unfold run. destruct (errs st); [discriminate|]. rewrite loop_app.
    destruct (loop (arm st) l1) as [s|s]; [|discriminate]. intros H. injection H as ->.
    cbn [loop]. destruct (step st1 t); reflexivity.
  Qed.

  Theorem counters_thm st old o input st' :
    pristine st old o -> blocking old o = false ->
    run st input = RunDone st' ->
    processed st' = length input /\ synchronized st' = length (accepted_from (calls st) input).
  Proof.
    intros Hp Hb H. destruct (run_clean _ _ _ input Hp Hb) as (s & Hr & H1 & H2 & _).
    rewrite Hr in H. injection H as <-. split; assumption.
  Qed.

  (* nothing accepted: whatever the output file is, run() completes, nothing is written, the file is not touched *)
  Theorem counters_nothing_accepted_thm st old o input :
    pristine st old o ->
    (forall i t d, f i t <> Accept d) ->
    exists st', run st input = RunDone st'
    /\ processed st' = length input /\ synchronized st' = 0 /\ writes st' = [] /\ out st' = new_writer old o.
  Proof.
    intros Hp Hno.
    destruct (run_blocked_none _ _ _ input Hp (accepted_from_none _ _ Hno)) as (s & Hr & H1 & H2 & H3 & _ & _ & H4).
    exists s. auto.
  Qed.

  (* whatever state run() is called in: if it starts the loop (ends normally or by the writer's error), the object is used up *)
  Theorem second_run_refused_thm st input input2 :
    match run st input with
    | RunRefused => True
    | RunWriterError st' => run st' input2 = RunRefused
    | RunDone st' => run st' input2 = RunRefused
    end.
  Proof.
    unfold run at 1. destruct (errs st) eqn:E; [exact I|].
    assert (Ha : errs (arm st) <> None) by (cbn; discriminate).
    pose proof (loop_errs input (arm st) Ha) as H.
    destruct (loop (arm st) input) as [s|s]; unfold run; destruct (errs s); congruence.
  Qed.

  (* the complete case analysis of the first run() of an object, after any history of check() / report() calls, over
     any output file *)
  Theorem run_after_history_thm old o input evs :
    let st := after_history (construct old o) input evs in
    let acc := accepted_from (calls st) input in
    match run st input with
    | RunRefused => False
    | RunWriterError st' =>
        blocking old o = true /\ acc <> []
        /\ processed st' = S (rejected_prefix (calls st) input) /\ rejected_prefix (calls st) input < length input
        /\ synchronized st' = 1
        /\ disk (out st') = option_map (map Some) old
    | RunDone st' =>
        processed st' = length input /\ synchronized st' = length acc
        /\ ((acc <> [] /\ blocking old o = false /\ w_reader (out st') = Some (map Some acc))
            \/ (acc = [] /\ out st' = new_writer old o))
    end.
  Proof.
    intros st acc. pose proof (after_history_pristine old o input evs) as Hp. fold st in Hp.
    destruct (blocking old o) eqn:Hb.
    - destruct acc as [|a r] eqn:Ea.
      + destruct (run_blocked_none _ _ _ input Hp Ea) as (s & Hr & H1 & H2 & _ & _ & _ & H4).
        rewrite Hr. repeat split; try assumption. right. split; [reflexivity|exact H4].
      + assert (Hne : accepted_from (calls st) input <> []) by (fold acc; rewrite Ea; discriminate).
        destruct (run_blocked_some _ _ _ input Hp Hb Hne) as (s & Hr & H1 & H2 & _ & _ & _ & H4).
        rewrite Hr. repeat split; try assumption; try discriminate.
        apply rejected_prefix_lt. exact Hne.
    - destruct (run_clean _ _ _ input Hp Hb) as (s & Hr & H1 & H2 & _ & _ & _ & Ho).
      rewrite Hr. fold acc in H2, Ho. repeat split; try assumption.
      destruct acc as [|a r] eqn:Ea.
      + right. split; [reflexivity|exact Ho].
      + left. split; [discriminate|]. split; [reflexivity|]. rewrite Ho.
        rewrite (reader_wappend_clean _ _ _ _ Hb). reflexivity.
  Qed.
End SyncProofs.

Arguments pristine {M D} st old o.

(* ==================================================================== the call number only matters to f *)
Section Shift.
  Variables (M X D : Type).
  Variables f g : nat -> M * X -> outcome D.

  Definition flow_visible (fl : flow M D) :=
    match fl with Go s => (true, visible s) | Stop s => (false, visible s) end.
  Definition run_visible (r : run_result M D) :=
    match r with
    | RunRefused => (0, None)
    | RunWriterError s => (1, Some (visible s))
    | RunDone s => (2, Some (visible s))
    end.

  Lemma loop_shift input : forall (st st0 : sstate M D),
    visible st = visible st0 ->
    (forall i t, f (calls st + i) t = g (calls st0 + i) t) ->
    flow_visible (loop M X D f st input) = flow_visible (loop M X D g st0 input).
  Proof.
    induction input as [|t input IH]; intros st st0 Hv Hfg; cbn [loop].
    - cbn. rewrite Hv. reflexivity.
    - pose proof (Hfg 0 t) as H0. rewrite !Nat.add_0_r in H0.
      destruct st as [p y w e c o], st0 as [p0 y0 w0 e0 c0 o0]. unfold visible in Hv. cbn in Hv, H0, Hfg.
      injection Hv as -> -> -> -> ->.
      unfold step. cbn [calls processed synchronized writes errs out]. rewrite H0.
      assert (Hfg' : forall i t0, f (S c + i) t0 = g (S c0 + i) t0).
      { intros i t0. specialize (Hfg (S i) t0). rewrite !Nat.add_succ_r in Hfg. exact Hfg. }
      destruct (g c0 t) as [d| |].
      + destruct (snd (w_write o0 (S y0 - 1) (fst t, d))).
        * apply IH; [reflexivity|exact Hfg'].
        * reflexivity.
      + apply IH; [reflexivity|exact Hfg'].
      + apply IH; [reflexivity|exact Hfg'].
  Qed.

  Lemma run_shift input (st st0 : sstate M D) :
    visible st = visible st0 ->
    (forall i t, f (calls st + i) t = g (calls st0 + i) t) ->
    run_visible (run M X D f st input) = run_visible (run M X D g st0 input).
  Proof.
    intros Hv Hfg. unfold run.
    assert (He : errs st = errs st0) by (unfold visible in Hv; congruence).
    rewrite <- He. destruct (errs st); [reflexivity|].
    assert (Hva : visible (arm st) = visible (arm st0)).
    { unfold visible in *. cbn [arm processed synchronized writes errs out]. congruence. }
    pose proof (loop_shift input (arm st) (arm st0) Hva Hfg) as H.
    destruct (loop M X D f (arm st) input), (loop M X D g (arm st0) input); cbn in H |- *; congruence.
  Qed.
End Shift.

Arguments flow_visible {M D} fl.
Arguments run_visible {M D} r.

Section History.
  Variables (M X D : Type).
  Variable f : nat -> M * X -> outcome D.

  Theorem check_frame_thm (st : sstate M D) input picks catch :
    let st' := snd (check M X D f st input picks catch) in
    processed st' = processed st /\ synchronized st' = synchronized st /\ writes st' = writes st
    /\ errs st' = errs st /\ out st' = out st.
  Proof.
    cbn zeta. pose proof (check_frame M X D f st input picks catch) as H. unfold visible in H.
    injection H as -> -> -> -> ->. auto.
  Qed.

  Theorem history_frame_thm (st : sstate M D) input evs :
    visible (after_history M X D f st input evs) = visible st
    /\ Forall (fun r => visible (snd r) = visible st) (fst (exec_history M X D f st input evs)).
  Proof. apply exec_history_frame. Qed.

  (* run() after a history = run() of a new object, for the function as it will behave from its next call on *)
  Theorem run_after_history_as_fresh old o input evs :
    let st := after_history M X D f (construct old o) input evs in
    run_visible (run M X D f st input)
    = run_visible (run M X D (fun i => f (calls st + i)) (construct old o) input).
  Proof.
    cbn zeta. apply run_shift.
    - apply exec_history_frame.
    - intros i t. reflexivity.
  Qed.

  (* a function that does not depend on the call number: the history is invisible altogether *)
  Theorem run_after_history_stateless old o input evs :
    (forall i j t, f i t = f j t) ->
    run_visible (run M X D f (after_history M X D f (construct old o) input evs) input)
    = run_visible (run M X D f (construct old o) input).
  Proof.
    intros Hst. apply run_shift.
    - apply exec_history_frame.
    - intros i t. apply Hst.
  Qed.

  (* ---- the theorems about a pristine object, instantiated on the object reached by any pre-run history *)
  Notation H old o input evs := (after_history M X D f (construct old o) input evs).

  Theorem sync_output_hist old o input evs st' :
    blocking old o = false ->
    run M X D f (H old o input evs) input = RunDone st' ->
    store_size (writes st') = length (accepted_from M X D f (calls (H old o input evs)) input)
    /\ (forall j, store_get (writes st') j = nth_error (accepted_from M X D f (calls (H old o input evs)) input) j)
    /\ w_reader (out st') = match accepted_from M X D f (calls (H old o input evs)) input with
                            | [] => option_map (map Some) old
                            | acc => Some (map Some acc)
                            end.
  Proof. intros Hb. apply sync_output_thm with (o := o); [apply after_history_pristine|exact Hb]. Qed.

  Theorem store_rows_hist old o input evs st' :
    blocking old o = false ->
    run M X D f (H old o input evs) input = RunDone st' ->
    store_rows (writes st') = map Some (accepted_from M X D f (calls (H old o input evs)) input).
  Proof. intros Hb. apply store_rows_thm with (old := old) (o := o); [apply after_history_pristine|exact Hb]. Qed.

  Theorem run_defined_hist old o input evs :
    blocking old o = false -> exists st', run M X D f (H old o input evs) input = RunDone st'.
  Proof. intros Hb. apply run_defined_thm with (old := old) (o := o); [apply after_history_pristine|exact Hb]. Qed.

  Theorem writes_are_appends_hist old o input evs st' :
    blocking old o = false ->
    run M X D f (H old o input evs) input = RunDone st' ->
    map fst (writes st') = seq 0 (length (writes st')).
  Proof. intros Hb. apply writes_are_appends_thm with (old := old) (o := o); [apply after_history_pristine|exact Hb]. Qed.

  Theorem next_write_hist old o input evs st' t d :
    blocking old o = false ->
    run M X D f (H old o input evs) input = RunDone st' -> f (calls st') t = Accept d ->
    exists st'', step M X D f st' t = Go st''
    /\ writes st'' = writes st' ++ [(store_size (writes st'), (fst t, d))]
    /\ w_reader (out st'') = Some (map Some (accepted_from M X D f (calls (H old o input evs)) input) ++ [Some (fst t, d)]).
  Proof. intros Hb. apply next_write_is_next_free with (old := old) (o := o); [apply after_history_pristine|exact Hb]. Qed.

  Theorem counters_hist old o input evs st' :
    blocking old o = false ->
    run M X D f (H old o input evs) input = RunDone st' ->
    processed st' = length input /\ synchronized st' = length (accepted_from M X D f (calls (H old o input evs)) input).
  Proof. intros Hb. apply counters_thm with (old := old) (o := o); [apply after_history_pristine|exact Hb]. Qed.

  Theorem counters_nothing_accepted_hist old o input evs :
    (forall i t d, f i t <> Accept d) ->
    exists st', run M X D f (H old o input evs) input = RunDone st'
    /\ processed st' = length input /\ synchronized st' = 0 /\ writes st' = [] /\ out st' = new_writer old o.
  Proof. apply counters_nothing_accepted_thm. apply after_history_pristine. Qed.
End History.
