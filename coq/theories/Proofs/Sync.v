(* Proofs/Sync.v — lemmas for property C20 (Synchronizer.run). *)
From Coq Require Import ZArith List Bool Lia.
From ScaredV Require Import Run.Compare Model.Sync.
Import ListNotations.
Local Open Scope nat_scope.

Section SyncProofs.
  Variables (M X D : Type).
  Variable f : nat -> M * X -> outcome D.

  Notation accepted_from := (accepted_from M X D f).
  Notation accepted := (accepted M X D f).
  Notation step := (step M X D f).
  Notation loop := (loop M X D f).
  Notation run := (run M X D f).
  Notation sstate := (sstate M D).

  (* ---------------------------------------------------------------- the spec list, characterised without recursion *)
  Lemma accepted_from_app l1 l2 i :
    accepted_from i (l1 ++ l2) = accepted_from i l1 ++ accepted_from (i + length l1) l2.
  Proof.
    revert i. induction l1 as [|t l1 IH]; intros i; cbn [app accepted_from length].
    - rewrite Nat.add_0_r. reflexivity.
    - rewrite IH. replace (S i + length l1) with (i + S (length l1)) by lia.
      destruct (f i t); reflexivity.
  Qed.

  Lemma accepted_from_length_le i l : length (accepted_from i l) <= length l.
  Proof.
    revert i. induction l as [|t l IH]; intros i; cbn; [lia|].
    specialize (IH (S i)). destruct (f i t); cbn; lia.
  Qed.

  (* entry j of the spec list is (metadata, returned data) of THE input trace number i on which the function returned
     data and before which exactly j traces were accepted *)
  Lemma accepted_from_char l : forall k j m d,
    nth_error (accepted_from k l) j = Some (m, d) <->
    exists i x, nth_error l i = Some (m, x) /\ f (k + i) (m, x) = Accept d
                /\ length (accepted_from k (firstn i l)) = j.
  Proof.
    induction l as [|t l IH]; intros k j m d.
    - cbn. split.
      + destruct j; discriminate.
      + intros (i & x & H & _). destruct i; discriminate.
    - cbn [accepted_from]. destruct (f k t) as [d0| |] eqn:E.
      + destruct j as [|j].
        * cbn [nth_error]. split.
          -- intros H. injection H as Hm Hd. exists 0, (snd t). cbn.
             destruct t as [m0 x0]. cbn in *. subst. rewrite Nat.add_0_r. auto.
          -- intros (i & x & Hn & Hf & Hl). destruct i as [|i].
             ++ cbn in Hn. injection Hn as ->. rewrite Nat.add_0_r in Hf. rewrite E in Hf.
                injection Hf as ->. reflexivity.
             ++ cbn [firstn accepted_from] in Hl. rewrite E in Hl. discriminate.
        * cbn [nth_error]. rewrite IH. split.
          -- intros (i & x & Hn & Hf & Hl). exists (S i), x. cbn [nth_error firstn accepted_from].
             rewrite E. cbn [length]. replace (k + S i) with (S k + i) by lia. auto.
          -- intros (i & x & Hn & Hf & Hl). destruct i as [|i].
             ++ cbn in Hl. discriminate.
             ++ cbn [nth_error firstn accepted_from] in *. rewrite E in Hl. cbn [length] in Hl.
                exists i, x. replace (S k + i) with (k + S i) by lia. auto.
      + rewrite IH. split.
        * intros (i & x & Hn & Hf & Hl). exists (S i), x. cbn [nth_error firstn accepted_from].
          rewrite E. replace (k + S i) with (S k + i) by lia. auto.
        * intros (i & x & Hn & Hf & Hl). destruct i as [|i].
          -- cbn in Hn. injection Hn as ->. rewrite Nat.add_0_r in Hf. congruence.
          -- cbn [nth_error firstn accepted_from] in *. rewrite E in Hl.
             exists i, x. replace (S k + i) with (k + S i) by lia. auto.
      + rewrite IH. split.
        * intros (i & x & Hn & Hf & Hl). exists (S i), x. cbn [nth_error firstn accepted_from].
          rewrite E. replace (k + S i) with (S k + i) by lia. auto.
        * intros (i & x & Hn & Hf & Hl). destruct i as [|i].
          -- cbn in Hn. injection Hn as ->. rewrite Nat.add_0_r in Hf. congruence.
          -- cbn [nth_error firstn accepted_from] in *. rewrite E in Hl.
             exists i, x. replace (S k + i) with (k + S i) by lia. auto.
  Qed.

  Theorem accepted_char input j m d :
    nth_error (accepted input) j = Some (m, d) <->
    exists i x, nth_error input i = Some (m, x) /\ f i (m, x) = Accept d
                /\ length (accepted (firstn i input)) = j.
  Proof. unfold accepted. rewrite accepted_from_char. cbn. reflexivity. Qed.

  Lemma accepted_from_none l : forall k,
    (forall i t d, f i t <> Accept d) -> accepted_from k l = [].
  Proof.
    induction l as [|t l IH]; intros k H; cbn; [reflexivity|].
    destruct (f k t) as [d| |] eqn:E; [exfalso; eapply H; exact E| |]; apply IH; exact H.
  Qed.

  (* ---------------------------------------------------------------- the loop *)
  Definition log_of (a : nat) (acc : list (M * D)) : list (nat * (M * D)) := combine (seq a (length acc)) acc.

  Lemma log_of_cons a e acc : log_of a (e :: acc) = (a, e) :: log_of (S a) acc.
  Proof. reflexivity. Qed.

  Lemma loop_spec input : forall (st : sstate) i,
    synchronized st = length (writes st) ->
    processed (loop st i input) = processed st + length input
    /\ synchronized (loop st i input) = synchronized st + length (accepted_from i input)
    /\ writes (loop st i input) = writes st ++ log_of (synchronized st) (accepted_from i input)
    /\ (errs st = None <-> errs (loop st i input) = None).
  Proof.
    induction input as [|t input IH]; intros st i Hs; cbn [loop accepted_from length].
    - cbn. rewrite !Nat.add_0_r, app_nil_r. tauto.
    - unfold step. destruct (f i t) as [d| |] eqn:E.
      + match goal with |- context [loop ?s _ _] => set (st1 := s) end.
        assert (Hs1 : synchronized st1 = length (writes st1)).
        { subst st1. cbn. rewrite app_length. cbn. lia. }
        destruct (IH st1 (S i) Hs1) as (Hp & Hy & Hw & He).
        rewrite Hp, Hy, Hw, <- He.
        subst st1. cbn [processed synchronized writes errs].
        cbn [length]. rewrite log_of_cons.
        replace (S (synchronized st) - 1) with (synchronized st) by lia.
        rewrite <- app_assoc. cbn [app].
        repeat split; try lia; try tauto.
      + match goal with |- context [loop ?s _ _] => set (st1 := s) end.
        assert (Hs1 : synchronized st1 = length (writes st1)) by (subst st1; cbn; exact Hs).
        destruct (IH st1 (S i) Hs1) as (Hp & Hy & Hw & He).
        rewrite Hp, Hy, Hw, <- He.
        subst st1. cbn [processed synchronized writes errs].
        repeat split; try lia.
        * intros H. rewrite H. reflexivity.
        * intros H. destruct (errs st); [discriminate|reflexivity].
      + match goal with |- context [loop ?s _ _] => set (st1 := s) end.
        assert (Hs1 : synchronized st1 = length (writes st1)) by (subst st1; cbn; exact Hs).
        destruct (IH st1 (S i) Hs1) as (Hp & Hy & Hw & He).
        rewrite Hp, Hy, Hw, <- He.
        subst st1. cbn [processed synchronized writes errs].
        repeat split; try lia.
        * intros H. rewrite H. reflexivity.
        * intros H. destruct (errs st); [discriminate|reflexivity].
  Qed.

  Lemma run_fresh input st' :
    run fresh input = Some st' ->
    processed st' = length input
    /\ synchronized st' = length (accepted input)
    /\ writes st' = log_of 0 (accepted input)
    /\ errs st' <> None.
  Proof.
    unfold run. cbn. intros H. injection H as <-.
    match goal with |- context [loop ?s _ _] => set (st0 := s) end.
    destruct (loop_spec input st0 0 eq_refl) as (Hp & Hy & Hw & He).
    cbn in *. repeat split; try assumption.
    intros H. apply He in H. discriminate.
  Qed.

  Lemma run_fresh_defined input : exists st', run fresh input = Some st'.
  Proof. unfold run. cbn. eexists. reflexivity. Qed.

  (* ---------------------------------------------------------------- the store *)
  Lemma store_get_log acc : forall a j,
    store_get (log_of a acc) j = if a <=? j then nth_error acc (j - a) else None.
  Proof.
    induction acc as [|e acc IH]; intros a j.
    - cbn. destruct (a <=? j); [destruct (j - a); reflexivity|reflexivity].
    - rewrite log_of_cons. cbn [store_get]. rewrite IH.
      destruct (Nat.leb_spec (S a) j) as [H|H].
      + destruct (Nat.leb_spec a j) as [H'|H']; [|lia].
        replace (j - a) with (S (j - S a)) by lia. cbn [nth_error].
        destruct (nth_error acc (j - S a)); [reflexivity|].
        destruct (Nat.eqb_spec a j); [lia|reflexivity].
      + destruct (Nat.eqb_spec a j) as [->|Hne].
        * rewrite Nat.leb_refl, Nat.sub_diag. reflexivity.
        * destruct (Nat.leb_spec a j); [lia|reflexivity].
  Qed.

  Lemma store_size_log acc : forall a, acc <> [] -> store_size (log_of a acc) = a + length acc.
  Proof.
    induction acc as [|e acc IH]; intros a Hne; [congruence|].
    rewrite log_of_cons. cbn [store_size fold_right fst length].
    destruct acc as [|e' acc].
    - cbn. lia.
    - change (fold_right _ 0 (log_of (S a) (e' :: acc))) with (store_size (log_of (S a) (e' :: acc))).
      rewrite IH by discriminate. cbn [length]. lia.
  Qed.

  Lemma store_size_log0 acc : store_size (log_of 0 acc) = length acc.
  Proof. destruct acc as [|e acc]; [reflexivity|]. rewrite store_size_log by discriminate. reflexivity. Qed.

  Lemma map_fst_log acc : forall a, map fst (log_of a acc) = seq a (length acc).
  Proof. induction acc as [|e acc IH]; intros a; [reflexivity|]. rewrite log_of_cons. cbn. rewrite IH. reflexivity. Qed.

  Lemma log_length a acc : length (log_of a acc) = length acc.
  Proof. unfold log_of. rewrite combine_length, seq_length. lia. Qed.

  (* ---------------------------------------------------------------- the property theorems *)
  Theorem sync_output_thm input st' :
    run fresh input = Some st' ->
    store_size (writes st') = length (accepted input)
    /\ forall j, store_get (writes st') j = nth_error (accepted input) j.
  Proof.
    intros H. destruct (run_fresh _ _ H) as (_ & _ & Hw & _). rewrite Hw. split.
    - apply store_size_log0.
    - intros j. rewrite store_get_log. cbn. rewrite Nat.sub_0_r. reflexivity.
  Qed.

  Lemma map_seq_nth_error {A} (g : nat -> option A) (l : list A) : forall a,
    (forall j, j < length l -> g (a + j) = nth_error l j) -> map g (seq a (length l)) = map Some l.
  Proof.
    induction l as [|x l IH]; intros a H; [reflexivity|].
    cbn [length seq map]. f_equal.
    - specialize (H 0). rewrite Nat.add_0_r in H. apply H. cbn. lia.
    - apply IH. intros j Hj. replace (S a + j) with (a + S j) by lia. apply (H (S j)). cbn. lia.
  Qed.

  Theorem store_rows_thm input st' :
    run fresh input = Some st' -> store_rows (writes st') = map Some (accepted input).
  Proof.
    intros H. destruct (sync_output_thm _ _ H) as [Hs Hg]. unfold store_rows. rewrite Hs.
    apply map_seq_nth_error. intros j _. apply Hg.
  Qed.

  Theorem writes_are_appends_thm input st' :
    run fresh input = Some st' ->
    map fst (writes st') = seq 0 (length (writes st')).
  Proof.
    intros H. destruct (run_fresh _ _ H) as (_ & _ & Hw & _). rewrite Hw, map_fst_log, log_length. reflexivity.
  Qed.

  (* the state reached after [input] is the state in which the next trace [t] is handled: an accepted trace is written
     at the first index not yet in the store, and nothing already written is ever written again *)
  Theorem next_write_is_next_free input st' t d :
    run fresh input = Some st' -> f (length input) t = Accept d ->
    writes (step st' (length input) t) = writes st' ++ [(store_size (writes st'), (fst t, d))].
  Proof.
    intros H Hf. destruct (run_fresh _ _ H) as (_ & Hy & Hw & _).
    unfold step. rewrite Hf. cbn [writes]. rewrite Hy, Hw, store_size_log0.
    replace (S (length (accepted input)) - 1) with (length (accepted input)) by lia. reflexivity.
  Qed.

  Lemma loop_app l1 l2 : forall st i, loop st i (l1 ++ l2) = loop (loop st i l1) (i + length l1) l2.
  Proof.
    induction l1 as [|t l1 IH]; intros st i; cbn [app loop length].
    - rewrite Nat.add_0_r. reflexivity.
    - rewrite IH. replace (S i + length l1) with (i + S (length l1)) by lia. reflexivity.
  Qed.

  (* running on l1 ++ [t] is running on l1 and then handling t: intermediate states of a run are final states of
     runs on prefixes, so the two theorems above speak about every moment of every run *)
  Theorem run_snoc l1 t st1 :
    run fresh l1 = Some st1 -> run fresh (l1 ++ [t]) = Some (step st1 (length l1) t).
  Proof.
    unfold run. cbn. intros H. injection H as <-. rewrite loop_app. reflexivity.
  Qed.

  Theorem counters_thm input st' :
    run fresh input = Some st' ->
    processed st' = length input /\ synchronized st' = length (accepted input).
  Proof. intros H. destruct (run_fresh _ _ H) as (Hp & Hy & _). split; assumption. Qed.

  Theorem counters_nothing_accepted_thm input st' :
    (forall i t d, f i t <> Accept d) ->
    run fresh input = Some st' ->
    processed st' = length input /\ synchronized st' = 0 /\ writes st' = [].
  Proof.
    intros Hno H. destruct (run_fresh _ _ H) as (Hp & Hy & Hw & _).
    unfold Sync.accepted in *. rewrite (accepted_from_none _ _ Hno) in *. cbn in *. auto.
  Qed.

  Theorem second_run_refused_thm input st' input2 :
    run fresh input = Some st' -> run st' input2 = None.
  Proof.
    intros H. destruct (run_fresh _ _ H) as (_ & _ & _ & He).
    unfold run. destruct (errs st'); [reflexivity|congruence].
  Qed.
End SyncProofs.
