(* Lib/QcSum.v — finite sums over Qc (canonical rationals: Leibniz equality, ring/field). *)
From Coq Require Import ZArith QArith Qcanon List Lia.
Import ListNotations.
Open Scope Qc_scope.

Definition qsum (l : list Qc) : Qc := fold_right Qcplus 0 l.
Definition qlen {A} (l : list A) : Qc := fold_right (fun _ a => a + 1) 0 l.
Definition qz (z : Z) : Qc := Q2Qc (inject_Z z).

Lemma qsum_nil : qsum [] = 0. Proof. reflexivity. Qed.
Lemma qsum_cons x l : qsum (x :: l) = x + qsum l. Proof. reflexivity. Qed.
Lemma qlen_nil {A} : qlen (@nil A) = 0. Proof. reflexivity. Qed.
Lemma qlen_cons {A} (x : A) l : qlen (x :: l) = qlen l + 1. Proof. reflexivity. Qed.

Lemma qsum_app l1 l2 : qsum (l1 ++ l2) = qsum l1 + qsum l2.
Proof. unfold qsum, qlen in *; induction l1 as [|x l1 IH]; cbn [map app fold_right]; rewrite ?IH; ring. Qed.

Lemma qlen_app {A} (l1 l2 : list A) : qlen (l1 ++ l2) = qlen l1 + qlen l2.
Proof. unfold qsum, qlen in *; induction l1 as [|x l1 IH]; cbn [map app fold_right]; rewrite ?IH; ring. Qed.

Lemma qlen_map {A B} (f : A -> B) l : qlen (map f l) = qlen l.
Proof. unfold qlen in *; induction l as [|x l IH]; cbn [map fold_right]; rewrite ?IH; reflexivity. Qed.

Lemma qsum_map_add {A} (f g : A -> Qc) l : qsum (map (fun x => f x + g x) l) = qsum (map f l) + qsum (map g l).
Proof. unfold qsum, qlen in *; induction l as [|x l IH]; cbn [map app fold_right]; rewrite ?IH; ring. Qed.

Lemma qsum_map_sub {A} (f g : A -> Qc) l : qsum (map (fun x => f x - g x) l) = qsum (map f l) - qsum (map g l).
Proof. unfold qsum, qlen in *; induction l as [|x l IH]; cbn [map app fold_right]; rewrite ?IH; ring. Qed.

Lemma qsum_map_scale {A} (c : Qc) (f : A -> Qc) l : qsum (map (fun x => c * f x) l) = c * qsum (map f l).
Proof. unfold qsum, qlen in *; induction l as [|x l IH]; cbn [map app fold_right]; rewrite ?IH; ring. Qed.

Lemma qsum_map_const {A} (c : Qc) (l : list A) : qsum (map (fun _ => c) l) = c * qlen l.
Proof. unfold qsum, qlen in *; induction l as [|x l IH]; cbn [map app fold_right]; rewrite ?IH; ring. Qed.

Lemma qsum_map_ext {A} (f g : A -> Qc) l : (forall x, In x l -> f x = g x) -> qsum (map f l) = qsum (map g l).
Proof.
  induction l as [|x l IH]; intros H; cbn [map]; [reflexivity|].
  rewrite !qsum_cons, H by (left; reflexivity). rewrite IH; [reflexivity|].
  intros y Hy. apply H. right. exact Hy.
Qed.

(* order and sign facts on Qc *)
Lemma Qc_opp_nonneg (x : Qc) : x <= 0 -> 0 <= - x.
Proof. intros H. apply Qcopp_le_compat in H. replace (- 0) with 0 in H by ring. exact H. Qed.

Lemma Qc_mul_nonneg (a b : Qc) : 0 <= a -> 0 <= b -> 0 <= a * b.
Proof. intros Ha Hb. replace 0 with (0 * b) by ring. apply Qcmult_le_compat_r; assumption. Qed.

Lemma Qc_sq_nonneg (x : Qc) : 0 <= x * x.
Proof.
  destruct (Qclt_le_dec x 0) as [H|H].
  - replace (x * x) with ((- x) * (- x)) by ring.
    apply Qclt_le_weak, Qc_opp_nonneg in H. apply Qc_mul_nonneg; exact H.
  - apply Qc_mul_nonneg; exact H.
Qed.

Lemma Qc_sq_zero (x : Qc) : x * x = 0 -> x = 0.
Proof. intros H. destruct (Qcmult_integral _ _ H); assumption. Qed.

Lemma Qc_add_nonneg (a b : Qc) : 0 <= a -> 0 <= b -> 0 <= a + b.
Proof. intros Ha Hb. replace 0 with (0 + 0) by ring. apply Qcplus_le_compat; assumption. Qed.

Lemma Qc_add_nonneg_zero (a b : Qc) : 0 <= a -> 0 <= b -> a + b = 0 -> a = 0 /\ b = 0.
Proof.
  intros Ha Hb H.
  assert (Hb' : b = - a) by (replace b with (a + b - a) by ring; rewrite H; ring).
  assert (Hle : a <= 0).
  { rewrite Hb' in Hb. apply Qcopp_le_compat in Hb. replace (- - a) with a in Hb by ring. replace (- 0) with 0 in Hb by ring. exact Hb. }
  assert (a = 0) by (apply Qcle_antisym; assumption).
  subst a. split; [reflexivity|]. rewrite Hb'. ring.
Qed.

Lemma qsum_nonneg l : (forall x, In x l -> 0 <= x) -> 0 <= qsum l.
Proof.
  induction l as [|x l IH]; intros H.
  - rewrite qsum_nil. apply Qcle_refl.
  - rewrite qsum_cons. apply Qc_add_nonneg; [apply H; left; reflexivity|].
    apply IH. intros y Hy. apply H. right. exact Hy.
Qed.

Lemma qsum_nonneg_zero l : (forall x, In x l -> 0 <= x) -> qsum l = 0 -> forall x, In x l -> x = 0.
Proof.
  induction l as [|y l IH]; intros Hnn Hs x Hx; [destruct Hx|].
  rewrite qsum_cons in Hs.
  destruct (Qc_add_nonneg_zero y (qsum l)) as [Hy Hl].
  - apply Hnn. left. reflexivity.
  - apply qsum_nonneg. intros z Hz. apply Hnn. right. exact Hz.
  - exact Hs.
  - destruct Hx as [<-|Hx]; [exact Hy|].
    apply IH; [|exact Hl|exact Hx]. intros z Hz. apply Hnn. right. exact Hz.
Qed.

Lemma qlen_nonneg {A} (l : list A) : 0 <= qlen l.
Proof.
  induction l as [|x l IH]; [apply Qcle_refl|].
  rewrite qlen_cons. apply Qc_add_nonneg; [exact IH|discriminate].
Qed.

Lemma qlen_pos {A} (l : list A) : l <> [] -> 0 < qlen l.
Proof.
  destruct l as [|x l]; [congruence|intros _].
  rewrite qlen_cons. apply Qclt_le_trans with (y := 0 + 1); [reflexivity|].
  apply Qcplus_le_compat; [apply qlen_nonneg|apply Qcle_refl].
Qed.

Lemma qlen_nonzero {A} (l : list A) : l <> [] -> qlen l <> 0.
Proof. intros H E. pose proof (qlen_pos l H) as P. rewrite E in P. discriminate. Qed.

(* ---------------------------------------------------------------- centred sums *)
Definition qmean (l : list Qc) : Qc := qsum l / qlen l.
Definition sq (x : Qc) : Qc := x * x.
(* sum of squared deviations from the mean *)
Definition ssd (l : list Qc) : Qc := qsum (map (fun x => sq (x - qmean l)) l).
(* sum of cross deviations of paired observations *)
Definition scd (l : list (Qc * Qc)) : Qc :=
  let mx := qmean (map fst l) in let my := qmean (map snd l) in
  qsum (map (fun p => (fst p - mx) * (snd p - my)) l).

Lemma qsum_sqdev m l : qsum (map (fun x => sq (x - m)) l) = qsum (map sq l) - (1 + 1) * m * qsum l + m * m * qlen l.
Proof.
  unfold qsum, qlen, sq in *; induction l as [|x l IH]; cbn [map fold_right]; rewrite ?IH; ring.
Qed.

Lemma qsum_crossdev mx my (l : list (Qc * Qc)) :
  qsum (map (fun p => (fst p - mx) * (snd p - my)) l)
  = qsum (map (fun p => fst p * snd p) l) - my * qsum (map fst l) - mx * qsum (map snd l) + mx * my * qlen l.
Proof.
  unfold qsum, qlen in *; induction l as [|x l IH]; cbn [map fold_right fst snd]; rewrite ?IH; ring.
Qed.

(* sum of squares minus n * mean^2  — the running-sum form used by cpa.py / ttest.py / moving_var *)
Theorem ssd_identity l : l <> [] ->
  ssd l = qsum (map sq l) - qlen l * (qmean l * qmean l).
Proof.
  intros Hl. unfold ssd. rewrite qsum_sqdev. unfold qmean.
  pose proof (qlen_nonzero l Hl). field. assumption.
Qed.

Theorem scd_identity (l : list (Qc * Qc)) : l <> [] ->
  scd l = qsum (map (fun p => fst p * snd p) l) - qsum (map fst l) * (qsum (map snd l) / qlen l).
Proof.
  intros Hl. unfold scd. rewrite qsum_crossdev. unfold qmean. rewrite !qlen_map.
  pose proof (qlen_nonzero l Hl). field. assumption.
Qed.

Lemma ssd_nonneg l : 0 <= ssd l.
Proof.
  unfold ssd. apply qsum_nonneg. intros x Hx. apply in_map_iff in Hx. destruct Hx as (y & <- & _).
  apply Qc_sq_nonneg.
Qed.

(* zero spread iff the list is constant *)
Theorem ssd_zero_iff_constant l : ssd l = 0 <-> forall x, In x l -> x = qmean l.
Proof.
  split.
  - intros H x Hx.
    assert (Hz : sq (x - qmean l) = 0).
    { apply (qsum_nonneg_zero (map (fun x => sq (x - qmean l)) l)).
      - intros y Hy. apply in_map_iff in Hy. destruct Hy as (z & <- & _). apply Qc_sq_nonneg.
      - exact H.
      - apply in_map_iff. exists x. split; [reflexivity|exact Hx]. }
    apply Qc_sq_zero in Hz. rewrite <- (Qcplus_0_l (qmean l)), <- Hz. ring.
  - intros H. unfold ssd.
    rewrite (qsum_map_ext _ (fun _ => 0)).
    + rewrite qsum_map_const. ring.
    + intros x Hx. rewrite (H x Hx). unfold sq. ring.
Qed.
