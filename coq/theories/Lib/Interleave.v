(* Lib/Interleave.v — interleavings of step lists and commutation of steps with disjoint footprints.
   Generic (used by C09 for the two accumulator threads and the per-sample prange of the t-test kernel; meant to be
   re-used by C11 for prange schedules).

   Contents
     merge l1 l2 l            l is an interleaving of l1 and l2 (both keep their own order)
     merges / weave           executable enumeration of all interleavings / the interleaving chosen by a schedule
     exec step s l            run the steps of l from state s (fold_left)
     merge_exec, perm_exec    steps that commute pairwise can be interleaved / permuted without changing the result
                              (stated modulo an equivalence on states; the _eq versions are the Leibniz instances)
     Footprint section        states are functions cell -> value; a step reads and writes only inside its footprint;
                              disjoint footprints => the steps commute (pointwise)
     Cells section            states are lists of cells, a step rewrites ONE cell from its old value:
                              any order of steps on distinct cells gives the same list (Leibniz) *)
From Coq Require Import List Permutation Bool Arith PeanoNat Lia.
Import ListNotations.

(* ------------------------------------------------------------------------------------------------ interleavings *)
Section Merge.
  Context {A : Type}.

  Inductive merge : list A -> list A -> list A -> Prop :=
  | merge_nil : merge [] [] []
  | merge_left x l1 l2 l : merge l1 l2 l -> merge (x :: l1) l2 (x :: l)
  | merge_right y l1 l2 l : merge l1 l2 l -> merge l1 (y :: l2) (y :: l).

  Lemma merge_nil_l l : merge [] l l.
  Proof. induction l as [|x l IH]; [constructor|apply merge_right; exact IH]. Qed.

  Lemma merge_nil_r l : merge l [] l.
  Proof. induction l as [|x l IH]; [constructor|apply merge_left; exact IH]. Qed.

  Lemma merge_nil_l_inv l2 l : merge [] l2 l -> l = l2.
  Proof.
    intros H. remember [] as l1 eqn:E. induction H as [|x l1 l2 l H IH|y l1 l2 l H IH]; [reflexivity|discriminate|].
    f_equal. apply IH. exact E.
  Qed.

  Lemma merge_nil_r_inv l1 l : merge l1 [] l -> l = l1.
  Proof.
    intros H. remember [] as l2 eqn:E. induction H as [|x l1 l2 l H IH|y l1 l2 l H IH]; [reflexivity| |discriminate].
    f_equal. apply IH. exact E.
  Qed.

  Lemma merge_sym l1 l2 l : merge l1 l2 l -> merge l2 l1 l.
  Proof. induction 1; constructor; assumption. Qed.

  Lemma merge_app l1 l2 : merge l1 l2 (l1 ++ l2).
  Proof. induction l1 as [|x l1 IH]; cbn; [apply merge_nil_l|apply merge_left; exact IH]. Qed.

  Lemma merge_app_rev l1 l2 : merge l1 l2 (l2 ++ l1).
  Proof. apply merge_sym, merge_app. Qed.

  Lemma merge_length l1 l2 l : merge l1 l2 l -> length l = length l1 + length l2.
  Proof. induction 1; cbn; lia. Qed.

  Lemma merge_perm l1 l2 l : merge l1 l2 l -> Permutation (l1 ++ l2) l.
  Proof.
    induction 1 as [|x l1 l2 l H IH|y l1 l2 l H IH]; cbn.
    - constructor.
    - constructor. exact IH.
    - apply Permutation_sym, Permutation_cons_app, Permutation_sym. exact IH.
  Qed.

  Lemma merge_in l1 l2 l x : merge l1 l2 l -> (In x l <-> In x l1 \/ In x l2).
  Proof.
    intros H. pose proof (merge_perm _ _ _ H) as P. split.
    - intros Hx. apply in_app_or. apply (Permutation_in _ (Permutation_sym P)). exact Hx.
    - intros Hx. apply (Permutation_in _ P). apply in_or_app. exact Hx.
  Qed.

  (* a test that holds on all of l1 and fails on all of l2 recovers the two threads from the interleaving *)
  Lemma merge_filter (p : A -> bool) l1 l2 l :
    merge l1 l2 l -> (forall x, In x l1 -> p x = true) -> (forall x, In x l2 -> p x = false) ->
    filter p l = l1 /\ filter (fun x => negb (p x)) l = l2.
  Proof.
    induction 1 as [|x l1 l2 l H IH|y l1 l2 l H IH]; intros H1 H2.
    - split; reflexivity.
    - cbn [filter]. rewrite (H1 x) by (left; reflexivity). cbn [negb].
      destruct IH as [Ia Ib]; [intros z Hz; apply H1; right; exact Hz|exact H2|].
      rewrite Ia, Ib. split; reflexivity.
    - cbn [filter]. rewrite (H2 y) by (left; reflexivity). cbn [negb].
      destruct IH as [Ia Ib]; [exact H1|intros z Hz; apply H2; right; exact Hz|].
      rewrite Ia, Ib. split; reflexivity.
  Qed.

  (* ---- executable: the interleaving chosen by a schedule (false: next step of l1, true: next step of l2; when the
     chosen thread has finished, or the schedule is exhausted, the other / the rest runs) *)
  Fixpoint weave (sched : list bool) (l1 l2 : list A) : list A :=
    match sched with
    | [] => l1 ++ l2
    | false :: sc => match l1 with x :: r1 => x :: weave sc r1 l2 | [] => l2 end
    | true :: sc => match l2 with y :: r2 => y :: weave sc l1 r2 | [] => l1 end
    end.

  Lemma weave_merge sched : forall l1 l2, merge l1 l2 (weave sched l1 l2).
  Proof.
    induction sched as [|b sc IH]; intros l1 l2; cbn [weave].
    - apply merge_app.
    - destruct b.
      + destruct l2 as [|y r2]; [apply merge_nil_r|apply merge_right, IH].
      + destruct l1 as [|x r1]; [apply merge_nil_l|apply merge_left, IH].
  Qed.

  Lemma merge_weave l1 l2 l : merge l1 l2 l -> exists sched, l = weave sched l1 l2.
  Proof.
    induction 1 as [|x l1 l2 l H (sc & IH)|y l1 l2 l H (sc & IH)].
    - exists []. reflexivity.
    - exists (false :: sc). cbn. rewrite IH. reflexivity.
    - exists (true :: sc). cbn. rewrite IH. reflexivity.
  Qed.

  (* ---- executable: all interleavings *)
  Fixpoint merges (l1 : list A) : list A -> list (list A) :=
    fix inner (l2 : list A) : list (list A) :=
      match l1, l2 with
      | [], _ => [l2]
      | _, [] => [l1]
      | x :: r1, y :: r2 => map (cons x) (merges r1 l2) ++ map (cons y) (inner r2)
      end.

  Lemma merges_spec l1 : forall l2 l, In l (merges l1 l2) <-> merge l1 l2 l.
  Proof.
    induction l1 as [|x r1 IH1].
    - intros l2 l. destruct l2; cbn; (split; [intros [<-|[]]; apply merge_nil_l|intros H; left; symmetry; apply merge_nil_l_inv; exact H]).
    - induction l2 as [|y r2 IH2]; intros l.
      + cbn. split; [intros [<-|[]]; apply merge_nil_r|intros H; left; symmetry; apply merge_nil_r_inv; exact H].
      + change (merges (x :: r1) (y :: r2)) with (map (cons x) (merges r1 (y :: r2)) ++ map (cons y) (merges (x :: r1) r2)).
        rewrite in_app_iff, !in_map_iff. split.
        * intros [(m & <- & Hm)|(m & <- & Hm)].
          -- apply merge_left. apply IH1. exact Hm.
          -- apply merge_right. apply IH2. exact Hm.
        * intros H. inversion H as [|x' l1' l2' l' H'|y' l1' l2' l' H']; subst.
          -- left. exists l'. split; [reflexivity|]. apply IH1. exact H'.
          -- right. exists l'. split; [reflexivity|]. apply IH2. exact H'.
  Qed.
End Merge.

(* ------------------------------------------------------------------------------------------------ commuting steps *)
Definition exec {S T : Type} (step : S -> T -> S) (s : S) (l : list T) : S := fold_left step l s.

Lemma exec_app {S T : Type} (step : S -> T -> S) l1 l2 s : exec step s (l1 ++ l2) = exec step (exec step s l1) l2.
Proof. unfold exec. apply fold_left_app. Qed.

Section Commute.
  Variables S T : Type.
  Variable eqS : S -> S -> Prop.
  Variable step : S -> T -> S.
  Hypothesis eqS_refl : forall s, eqS s s.
  Hypothesis eqS_sym : forall a b, eqS a b -> eqS b a.
  Hypothesis eqS_trans : forall a b c, eqS a b -> eqS b c -> eqS a c.
  Hypothesis step_proper : forall s s' t, eqS s s' -> eqS (step s t) (step s' t).

  (* a and b commute: from every state, a then b = b then a *)
  Definition commute (a b : T) : Prop := forall s, eqS (step (step s a) b) (step (step s b) a).

  Lemma commute_sym a b : commute a b -> commute b a.
  Proof. intros H s. apply eqS_sym, H. Qed.

  Lemma commute_refl a : commute a a.
  Proof. intros s. apply eqS_refl. Qed.

  Lemma exec_proper l : forall s s', eqS s s' -> eqS (exec step s l) (exec step s' l).
  Proof. induction l as [|t l IH]; intros s s' H; cbn; [exact H|]. apply IH, step_proper, H. Qed.

  (* a step that commutes with every step of l can be moved from before l to after l *)
  Lemma commute_past y l : (forall a, In a l -> commute a y) ->
    forall s, eqS (exec step (step s y) l) (step (exec step s l) y).
  Proof.
    induction l as [|a l IH]; intros H s; cbn.
    - apply eqS_refl.
    - apply eqS_trans with (b := exec step (step (step s a) y) l).
      + apply exec_proper. apply eqS_sym. apply (H a). left. reflexivity.
      + apply IH. intros b Hb. apply H. right. exact Hb.
  Qed.

  (* every interleaving of two lists whose steps commute across the lists = first all of l1, then all of l2 *)
  Theorem merge_exec l1 l2 l : merge l1 l2 l ->
    (forall a b, In a l1 -> In b l2 -> commute a b) ->
    forall s, eqS (exec step s l) (exec step s (l1 ++ l2)).
  Proof using All.
    induction 1 as [|x l1 l2 l H IH|y l1 l2 l H IH]; intros Hc s.
    - apply eqS_refl.
    - cbn. apply IH. intros a b Ha Hb. apply Hc; [right; exact Ha|exact Hb].
    - cbn [exec fold_left]. fold (exec step (step s y) l).
      apply eqS_trans with (b := exec step (step s y) (l1 ++ l2)).
      + apply IH. intros a b Ha Hb. apply Hc; [exact Ha|right; exact Hb].
      + rewrite !exec_app. cbn [exec fold_left]. fold (exec step (step (exec step s l1) y) l2).
        apply exec_proper. apply commute_past. intros a Ha. apply Hc; [exact Ha|left; reflexivity].
  Qed.

  Corollary merge_exec_any l1 l2 l l' : merge l1 l2 l -> merge l1 l2 l' ->
    (forall a b, In a l1 -> In b l2 -> commute a b) ->
    forall s, eqS (exec step s l) (exec step s l').
  Proof using All.
    intros H H' Hc s. apply eqS_trans with (b := exec step s (l1 ++ l2)).
    - apply merge_exec; assumption.
    - apply eqS_sym. apply merge_exec; assumption.
  Qed.

  (* any reordering of a list of pairwise commuting steps *)
  Theorem perm_exec l l' : Permutation l l' ->
    (forall a b, In a l -> In b l -> commute a b) ->
    forall s, eqS (exec step s l) (exec step s l').
  Proof using All.
    induction 1 as [|x l l' P IH|x y l|l l' l'' P1 IH1 P2 IH2]; intros Hc s.
    - apply eqS_refl.
    - cbn. apply IH. intros a b Ha Hb. apply Hc; right; assumption.
    - cbn. apply exec_proper. apply Hc; [left; reflexivity|right; left; reflexivity].
    - apply eqS_trans with (b := exec step s l').
      + apply IH1. exact Hc.
      + apply IH2. intros a b Ha Hb.
        apply Hc; apply (Permutation_in _ (Permutation_sym P1)); assumption.
  Qed.
End Commute.

(* Leibniz instances *)
Section CommuteEq.
  Variables S T : Type.
  Variable step : S -> T -> S.

  Definition commute_eq (a b : T) : Prop := forall s, step (step s a) b = step (step s b) a.

  Theorem merge_exec_eq l1 l2 l : merge l1 l2 l ->
    (forall a b, In a l1 -> In b l2 -> commute_eq a b) ->
    forall s, exec step s l = exec step s (l1 ++ l2).
  Proof.
    apply (merge_exec S T eq step); [reflexivity|intros a b H; symmetry; exact H|intros a b c H1 H2; congruence|].
    intros s s' t ->. reflexivity.
  Qed.

  Theorem perm_exec_eq l l' : Permutation l l' ->
    (forall a b, In a l -> In b l -> commute_eq a b) ->
    forall s, exec step s l = exec step s l'.
  Proof.
    apply (perm_exec S T eq step); [reflexivity|intros a b H; symmetry; exact H|intros a b c H1 H2; congruence|].
    intros s s' t ->. reflexivity.
  Qed.
End CommuteEq.

(* ------------------------------------------------------------------------------------------------ footprints *)
(* States are functions from cells to values.  A step has a footprint (a decidable set of cells); it leaves every
   cell outside its footprint alone, and what it writes inside depends only on what was inside.  Two steps with
   disjoint footprints commute (pointwise), so [merge_exec] / [perm_exec] apply with pointwise equality. *)
Section Footprint.
  Variables K V T : Type.
  Variable step : (K -> V) -> T -> (K -> V).
  Variable fp : T -> K -> bool.
  Hypothesis frame : forall t s k, fp t k = false -> step s t k = s k.
  Hypothesis local : forall t s s', (forall k, fp t k = true -> s k = s' k) -> forall k, fp t k = true -> step s t k = step s' t k.

  Definition peq (s s' : K -> V) : Prop := forall k, s k = s' k.
  Definition disjoint (a b : T) : Prop := forall k, fp a k = true -> fp b k = true -> False.

  Lemma fp_step_proper s s' t : peq s s' -> peq (step s t) (step s' t).
  Proof.
    intros H k. destruct (fp t k) eqn:E.
    - apply local; [|exact E]. intros k' _. apply H.
    - rewrite !frame by exact E. apply H.
  Qed.

  Theorem disjoint_commute a b : disjoint a b -> commute (K -> V) T peq step a b.
  Proof.
    intros D s k.
    destruct (fp a k) eqn:Ea; destruct (fp b k) eqn:Eb.
    - exfalso. exact (D k Ea Eb).
    - (* k belongs to a only *)
      rewrite (frame b _ k Eb).
      apply local; [|exact Ea]. intros k' Hk'.
      destruct (fp b k') eqn:Eb'; [exfalso; exact (D k' Hk' Eb')|].
      symmetry. apply frame. exact Eb'.
    - (* k belongs to b only *)
      rewrite (frame a (step s b) k Ea).
      apply local; [|exact Eb]. intros k' Hk'.
      destruct (fp a k') eqn:Ea'; [exfalso; exact (D k' Ea' Hk')|].
      apply frame. exact Ea'.
    - rewrite (frame b _ k Eb), (frame a _ k Ea), (frame a _ k Ea), (frame b _ k Eb). reflexivity.
  Qed.

  Theorem merge_exec_fp l1 l2 l : merge l1 l2 l ->
    (forall a b, In a l1 -> In b l2 -> disjoint a b) ->
    forall s, peq (exec step s l) (exec step s (l1 ++ l2)).
  Proof.
    intros M D. apply (merge_exec (K -> V) T peq step).
    - intros s k. reflexivity.
    - intros a b H k. symmetry. apply H.
    - intros a b c H1 H2 k. rewrite H1. apply H2.
    - apply fp_step_proper.
    - exact M.
    - intros a b Ha Hb. apply disjoint_commute, D; assumption.
  Qed.

  Theorem perm_exec_fp l l' : Permutation l l' ->
    (forall a b, In a l -> In b l -> a = b \/ disjoint a b) ->
    forall s, peq (exec step s l) (exec step s l').
  Proof.
    intros P D. apply (perm_exec (K -> V) T peq step).
    - intros s k. reflexivity.
    - intros a b H k. symmetry. apply H.
    - intros a b c H1 H2 k. rewrite H1. apply H2.
    - apply fp_step_proper.
    - exact P.
    - intros a b Ha Hb. destruct (D a b Ha Hb) as [->|Dab].
      + intros s k. reflexivity.
      + apply disjoint_commute, Dab.
  Qed.
End Footprint.

(* ------------------------------------------------------------------------------------------------ lists of cells *)
(* The state is a list of cells; iteration (i, f) replaces cell i by f (old cell i) and touches nothing else (an
   index past the end is a no-op).  This is the shape of a prange body `out[i] += g(in[:, i])`. *)
Section Cells.
  Variable V : Type.

  Fixpoint upd_cell (i : nat) (f : V -> V) (l : list V) : list V :=
    match l with
    | [] => []
    | x :: r => match i with 0 => f x :: r | S i' => x :: upd_cell i' f r end
    end.

  Definition cstep (l : list V) (t : nat * (V -> V)) : list V := upd_cell (fst t) (snd t) l.

  Lemma upd_cell_length i f l : length (upd_cell i f l) = length l.
  Proof. revert i. induction l as [|x r IH]; intros [|i]; cbn; try rewrite IH; reflexivity. Qed.

  Lemma upd_cell_nth_same i f l d : i < length l -> nth i (upd_cell i f l) d = f (nth i l d).
  Proof.
    revert i. induction l as [|x r IH]; intros [|i] H; cbn in *; try lia; [reflexivity|]. apply IH. lia.
  Qed.

  Lemma upd_cell_nth_other i j f l d : i <> j -> nth j (upd_cell i f l) d = nth j l d.
  Proof.
    revert i j. induction l as [|x r IH]; intros [|i] [|j] H; cbn; try reflexivity; try lia. apply IH. lia.
  Qed.

  Lemma upd_cell_comm i j f g l : i <> j -> upd_cell j g (upd_cell i f l) = upd_cell i f (upd_cell j g l).
  Proof.
    revert i j. induction l as [|x r IH]; intros [|i] [|j] H; cbn; try reflexivity; try lia.
    f_equal. apply IH. lia.
  Qed.

  Lemma exec_cstep_length its : forall s, length (exec cstep s its) = length s.
  Proof.
    induction its as [|t its IH]; intros s; cbn; [reflexivity|].
    fold (exec cstep (cstep s t) its). rewrite IH. apply upd_cell_length.
  Qed.

  (* iterations on distinct cells commute *)
  Lemma cstep_commute (a b : nat * (V -> V)) : fst a <> fst b -> commute_eq (list V) _ cstep a b.
  Proof. intros H s. unfold cstep. apply upd_cell_comm. exact H. Qed.

  (* what an arbitrary order of iterations on pairwise distinct cells leaves in cell j *)
  Lemma exec_cstep_nth its : NoDup (map fst its) -> forall s j d,
    nth j (exec cstep s its) d =
    match find (fun t => Nat.eqb (fst t) j) its with
    | Some t => if Nat.ltb j (length s) then snd t (nth j s d) else nth j s d
    | None => nth j s d
    end.
  Proof.
    induction its as [|[i f] its IH]; intros ND s j d; cbn [exec fold_left find map fst] in *; [reflexivity|].
    fold (exec cstep (cstep s (i, f)) its).
    inversion ND as [|? ? Hni ND']; subst.
    rewrite (IH ND'). change (cstep s (i, f)) with (upd_cell i f s). rewrite upd_cell_length.
    destruct (Nat.eqb i j) eqn:E.
    - apply Nat.eqb_eq in E. subst j.
      assert (Hf : find (fun t => Nat.eqb (fst t) i) its = None).
      { destruct (find (fun t => Nat.eqb (fst t) i) its) as [t|] eqn:Ef; [|reflexivity].
        apply find_some in Ef. destruct Ef as [Hin He]. apply Nat.eqb_eq in He.
        exfalso. apply Hni. rewrite <- He. apply in_map. exact Hin. }
      rewrite Hf. destruct (Nat.ltb i (length s)) eqn:El.
      + apply Nat.ltb_lt in El. apply upd_cell_nth_same. exact El.
      + apply Nat.ltb_ge in El. rewrite !nth_overflow; [reflexivity|exact El|rewrite upd_cell_length; exact El].
    - apply Nat.eqb_neq in E. rewrite !(upd_cell_nth_other i j) by exact E. reflexivity.
  Qed.

  (* any order of the iterations gives the same list *)
  Theorem cells_perm its its' : NoDup (map fst its) -> Permutation its its' ->
    forall s, exec cstep s its = exec cstep s its'.
  Proof.
    intros ND P. apply perm_exec_eq; [exact P|].
    intros a b Ha Hb. destruct (Nat.eq_dec (fst a) (fst b)) as [E|E].
    - assert (a = b) as ->; [|intros s; reflexivity].
      clear P its'. induction its as [|c its IH]; [destruct Ha|].
      cbn in ND. inversion ND as [|? ? Hni ND']; subst.
      destruct Ha as [->|Ha], Hb as [->|Hb]; try reflexivity.
      + exfalso. apply Hni. rewrite E. apply in_map. exact Hb.
      + exfalso. apply Hni. rewrite <- E. apply in_map. exact Ha.
      + apply IH; assumption.
    - apply cstep_commute. exact E.
  Qed.

  (* two workers, each running its own share of the iterations in its own order, interleaved in any way *)
  Theorem cells_merge its1 its2 its : merge its1 its2 its ->
    (forall a b, In a its1 -> In b its2 -> fst a <> fst b) ->
    forall s, exec cstep s its = exec cstep s (its1 ++ its2).
  Proof.
    intros M D. apply merge_exec_eq; [exact M|].
    intros a b Ha Hb. apply cstep_commute, D; assumption.
  Qed.
End Cells.

Arguments upd_cell {V} i f l.
Arguments cstep {V} l t.
