(* Lib/Arr.v — row-major (numpy C-order) flattening of multi-indices, generic.

   A shape is a list of dimensions [d1; ..; dk]; a multi-index is a list [i1; ..; ik] with ij < dj ([in_range]).
   [flatten shape idx] is the C-order offset  ((i1 * d2 + i2) * d3 + i3) ...  , [unflatten] its inverse,
   [tabulate shape f] the C-order list of the values of [f] on all multi-indices (what numpy's reshape(-1) /
   nested tolist() enumerate).  Nothing here is specific to a property. *)
From Coq Require Import Arith List Lia.
Import ListNotations.

Fixpoint prod (shape : list nat) : nat :=
  match shape with [] => 1 | d :: ds => d * prod ds end.

Fixpoint in_range (shape idx : list nat) : Prop :=
  match shape, idx with
  | [], [] => True
  | d :: ds, i :: js => i < d /\ in_range ds js
  | _, _ => False
  end.

Fixpoint in_rangeb (shape idx : list nat) : bool :=
  match shape, idx with
  | [], [] => true
  | d :: ds, i :: js => Nat.ltb i d && in_rangeb ds js
  | _, _ => false
  end.

Fixpoint flatten (shape idx : list nat) : nat :=
  match shape, idx with
  | d :: ds, i :: js => i * prod ds + flatten ds js
  | _, _ => 0
  end.

Fixpoint unflatten (shape : list nat) (k : nat) : list nat :=
  match shape with
  | [] => []
  | d :: ds => (k / prod ds) :: unflatten ds (k mod prod ds)
  end.

(* C-order enumeration of a function on multi-indices *)
Fixpoint tabulate {A} (shape : list nat) (f : list nat -> A) : list A :=
  match shape with
  | [] => [f []]
  | d :: ds => flat_map (fun i => tabulate ds (fun js => f (i :: js))) (seq 0 d)
  end.

Lemma in_rangeb_spec shape : forall idx, in_rangeb shape idx = true <-> in_range shape idx.
Proof.
  induction shape as [|d ds IH]; intros [|i js]; cbn [in_rangeb in_range]; try (split; [discriminate|tauto]); [tauto|].
  rewrite Bool.andb_true_iff, Nat.ltb_lt, IH. tauto.
Qed.

Lemma in_range_length shape : forall idx, in_range shape idx -> length idx = length shape.
Proof.
  induction shape as [|d ds IH]; intros [|i js] H; cbn in *; try tauto.
  destruct H as [_ H]. rewrite (IH _ H). reflexivity.
Qed.

Lemma prod_app s1 s2 : prod (s1 ++ s2) = prod s1 * prod s2.
Proof. induction s1 as [|d ds IH]; cbn; [lia|]. rewrite IH. lia. Qed.

Lemma in_range_prod_pos shape idx : in_range shape idx -> 0 < prod shape.
Proof.
  revert idx. induction shape as [|d ds IH]; intros [|i js] H; cbn in *; try tauto; [lia|].
  destruct H as [Hi H]. specialize (IH _ H). nia.
Qed.

Lemma flatten_lt shape : forall idx, in_range shape idx -> flatten shape idx < prod shape.
Proof.
  induction shape as [|d ds IH]; intros [|i js] H; cbn in *; try tauto; [lia|].
  destruct H as [Hi H]. specialize (IH _ H). nia.
Qed.

Lemma unflatten_flatten shape : forall idx, in_range shape idx -> unflatten shape (flatten shape idx) = idx.
Proof.
  induction shape as [|d ds IH]; intros [|i js] H; cbn in *; try tauto.
  destruct H as [Hi H]. pose proof (flatten_lt ds js H) as Hlt.
  assert (Hp : prod ds <> 0) by lia.
  rewrite Nat.div_add_l by exact Hp. rewrite (Nat.div_small _ _ Hlt), Nat.add_0_r.
  rewrite Nat.add_comm, Nat.mod_add by exact Hp. rewrite (Nat.mod_small _ _ Hlt).
  rewrite (IH _ H). reflexivity.
Qed.

Lemma unflatten_in_range shape : forall k, k < prod shape -> in_range shape (unflatten shape k).
Proof.
  induction shape as [|d ds IH]; intros k Hk; cbn in *; [exact I|].
  assert (Hp : prod ds <> 0) by (intros E; rewrite E in Hk; lia).
  split.
  - apply Nat.div_lt_upper_bound; [exact Hp|]. lia.
  - apply IH. apply Nat.mod_upper_bound. exact Hp.
Qed.

Lemma flatten_unflatten shape : forall k, k < prod shape -> flatten shape (unflatten shape k) = k.
Proof.
  induction shape as [|d ds IH]; intros k Hk; cbn in *; [lia|].
  assert (Hp : prod ds <> 0) by (intros E; rewrite E in Hk; lia).
  rewrite IH by (apply Nat.mod_upper_bound; exact Hp).
  pose proof (Nat.div_mod k (prod ds) Hp). lia.
Qed.

(* two in-range multi-indices with the same offset are the same: no two entries share a cell *)
Lemma flatten_inj shape idx1 idx2 :
  in_range shape idx1 -> in_range shape idx2 -> flatten shape idx1 = flatten shape idx2 -> idx1 = idx2.
Proof.
  intros H1 H2 E. rewrite <- (unflatten_flatten shape idx1 H1), <- (unflatten_flatten shape idx2 H2), E. reflexivity.
Qed.

Lemma in_range_app s1 s2 : forall i1 i2, in_range s1 i1 -> in_range s2 i2 -> in_range (s1 ++ s2) (i1 ++ i2).
Proof.
  induction s1 as [|d ds IH]; intros [|i js] i2 H1 H2; cbn in *; try tauto.
  destruct H1 as [Hi H1]. split; [exact Hi|]. apply IH; assumption.
Qed.

(* appending trailing axes: the offset of (idx1 ++ idx2) is offset(idx1) * size(trailing block) + offset(idx2) *)
Lemma flatten_app s1 s2 : forall i1 i2, in_range s1 i1 ->
  flatten (s1 ++ s2) (i1 ++ i2) = flatten s1 i1 * prod s2 + flatten s2 i2.
Proof.
  induction s1 as [|d ds IH]; intros [|i js] i2 H1; cbn in *; try tauto.
  destruct H1 as [Hi H1]. rewrite (IH _ _ H1), prod_app. lia.
Qed.

Lemma flatten_last shape S idx s : in_range shape idx ->
  flatten (shape ++ [S]) (idx ++ [s]) = flatten shape idx * S + s.
Proof. intros H. rewrite (flatten_app _ _ _ _ H). cbn. lia. Qed.

(* ---------------------------------------------------------------- lists of equal-length blocks *)
Lemma length_concat_uniform {A} (m : nat) (ls : list (list A)) :
  (forall l, In l ls -> length l = m) -> length (concat ls) = length ls * m.
Proof.
  induction ls as [|l ls IH]; intros H; cbn; [reflexivity|].
  rewrite app_length, IH by (intros l' Hl'; apply H; right; exact Hl').
  rewrite (H l) by (left; reflexivity). reflexivity.
Qed.

Lemma nth_concat_uniform {A} (m : nat) (d : A) (ls : list (list A)) :
  (forall l, In l ls -> length l = m) ->
  forall i j, i < length ls -> j < m -> nth (i * m + j) (concat ls) d = nth j (nth i ls []) d.
Proof.
  induction ls as [|l ls IH]; intros H i j Hi Hj; cbn in Hi; [lia|].
  assert (Hl : length l = m) by (apply H; left; reflexivity).
  cbn [concat]. destruct i as [|i].
  - cbn. rewrite app_nth1 by lia. reflexivity.
  - rewrite app_nth2 by (rewrite Hl; cbn; lia).
    replace (S i * m + j - length l) with (i * m + j) by (rewrite Hl; cbn; lia).
    cbn [nth]. apply IH; [|lia|exact Hj]. intros l' Hl'. apply H. right. exact Hl'.
Qed.

Lemma flat_map_concat_map {A B} (f : A -> list B) l : flat_map f l = concat (map f l).
Proof. induction l as [|x l IH]; cbn; [reflexivity|]. rewrite IH. reflexivity. Qed.

(* ---------------------------------------------------------------- tabulate *)
Lemma tabulate_length {A} shape : forall (f : list nat -> A), length (tabulate shape f) = prod shape.
Proof.
  induction shape as [|d ds IH]; intros f; cbn; [reflexivity|].
  rewrite flat_map_concat_map.
  rewrite (length_concat_uniform (prod ds)).
  - rewrite map_length, seq_length. reflexivity.
  - intros l Hl. apply in_map_iff in Hl. destruct Hl as (i & <- & _). apply IH.
Qed.

(* the cell at offset [flatten shape idx] of the C-order enumeration holds the value at [idx] *)
Lemma tabulate_nth {A} (dflt : A) shape : forall (f : list nat -> A) idx, in_range shape idx ->
  nth (flatten shape idx) (tabulate shape f) dflt = f idx.
Proof.
  induction shape as [|d ds IH]; intros f [|i js] H; cbn in H; try tauto; try reflexivity.
  destruct H as [Hi H]. cbn [tabulate flatten]. rewrite flat_map_concat_map.
  set (g := fun k : nat => tabulate ds (fun js => f (k :: js))).
  rewrite (nth_concat_uniform (prod ds)).
  - rewrite (nth_indep _ [] (g 0)) by (rewrite map_length, seq_length; exact Hi).
    rewrite (map_nth g (seq 0 d) 0 i).
    rewrite seq_nth by exact Hi. unfold g. cbn [Nat.add]. exact (IH (fun js0 => f (i :: js0)) js H).
  - intros l Hl. apply in_map_iff in Hl. destruct Hl as (k & <- & _). apply tabulate_length.
  - rewrite map_length, seq_length. exact Hi.
  - apply flatten_lt. exact H.
Qed.
