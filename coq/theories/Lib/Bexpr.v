(* Lib/Bexpr.v — deep-embedded bit-slice expressions over uint8 lanes (DESIGN A.1).

   The DES permutations of scared/des/base.py are written as mask/shift/add statements on uint8 columns.  The
   translator tools/translate/tr_desbits.py executes those bodies symbolically and emits one [bexpr] per output
   column.  [eval] gives the expression its numpy meaning (every operation wraps modulo 256).  [nf] computes a normal
   form "constant + sum of 2^s * (unary expression of ONE input byte)"; [nf_sound] proves that the normal form has
   the same value for ALL inputs, and [eval_by_tables] regroups it by input byte, so that an expression is
   characterised by n tables of 256 single-byte contributions — which is what is compared with the FIPS tables by
   [vm_compute] in Proofs/Des.v. *)
From Coq Require Import Arith NArith List Bool Lia.
Import ListNotations.
Open Scope N_scope.

Inductive bexpr :=
| BIn (j : nat)                 (* input column j *)
| BConst (c : N)
| BShl (e : bexpr) (s : N)      (* e << s *)
| BShr (e : bexpr) (s : N)      (* e >> s *)
| BAnd (e : bexpr) (m : N)      (* e & m  *)
| BAdd (a b : bexpr)            (* a + b  *)
| BNz (e : bexpr).              (* (e != 0) as 0 / 1 *)

Definition w (x : N) : N := x mod 256.                               (* uint8 wrap *)

Fixpoint eval (d : nat -> N) (e : bexpr) : N :=
  match e with
  | BIn j => d j
  | BConst c => w c
  | BShl e s => w (N.shiftl (eval d e) s)
  | BShr e s => w (N.shiftr (eval d e) s)
  | BAnd e m => w (N.land (eval d e) m)
  | BAdd a b => w (eval d a + eval d b)
  | BNz e => if N.eqb (eval d e) 0 then 0 else 1
  end.

(* e mentions no input other than j *)
Fixpoint only (j : nat) (e : bexpr) : bool :=
  match e with
  | BIn i => Nat.eqb i j
  | BConst _ => true
  | BShl e _ | BShr e _ | BAnd e _ | BNz e => only j e
  | BAdd a b => only j a && only j b
  end.

Fixpoint first_in (e : bexpr) : option nat :=
  match e with
  | BIn i => Some i
  | BConst _ => None
  | BShl e _ | BShr e _ | BAnd e _ | BNz e => first_in e
  | BAdd a b => match first_in a with Some i => Some i | None => first_in b end
  end.

Definition single (j : nat) (x : N) : nat -> N := fun i => if Nat.eqb i j then x else 0.

(* a term 2^s * u(d_j) where u mentions only input j *)
Definition term := (N * nat * bexpr)%type.
Definition tidx (t : term) : nat := let '(_, j, _) := t in j.
Definition tval1 (x : N) (t : term) : N := let '(s, j, u) := t in N.shiftl (eval (single j x) u) s.
Definition tval (d : nat -> N) (t : term) : N := tval1 (d (tidx t)) t.
Definition tsum (d : nat -> N) (l : list term) : N := fold_right (fun t a => tval d t + a) 0 l.
Definition nfval (d : nat -> N) (r : N * list term) : N := w (fst r + tsum d (snd r)).

Definition shift_term (s : N) (t : term) : term := let '(s', j, u) := t in (s' + s, j, u).

Fixpoint nf (e : bexpr) : option (N * list term) :=
  match first_in e with
  | None => Some (eval (fun _ => 0) e, [])
  | Some j =>
    if only j e then Some (0, [(0, j, e)])
    else match e with
         | BAdd a b => match nf a, nf b with
                       | Some (ca, la), Some (cb, lb) => Some (ca + cb, la ++ lb)
                       | _, _ => None
                       end
         | BShl e' s => match nf e' with
                        | Some (c, l) => Some (N.shiftl c s, map (shift_term s) l)
                        | None => None
                        end
         | _ => None            (* >>, &, != 0 over several inputs: fail closed *)
         end
  end.

(* ---------------------------------------------------------------- sums over index lists *)
Definition sumf (f : nat -> N) (l : list nat) : N := fold_right (fun j a => f j + a) 0 l.

(* contribution of input byte j (with value x) to a normal form *)
Definition contrib (l : list term) (j : nat) (x : N) : N :=
  fold_right (fun t a => (if Nat.eqb (tidx t) j then tval1 x t else 0) + a) 0 l.

(* ---------------------------------------------------------------- basic facts *)
Lemma w_lt x : w x < 256.
Proof. unfold w. apply N.mod_lt. discriminate. Qed.

Lemma w_small x : x < 256 -> w x = x.
Proof. unfold w. apply N.mod_small. Qed.

Lemma w_w x : w (w x) = w x.
Proof. apply w_small, w_lt. Qed.

Lemma w_add x y : w (w x + w y) = w (x + y).
Proof. unfold w. symmetry. apply N.add_mod. discriminate. Qed.

Lemma w_add_l x y : w (w x + y) = w (x + y).
Proof. unfold w. apply N.add_mod_idemp_l. discriminate. Qed.

Lemma w_add_r x y : w (x + w y) = w (x + y).
Proof. unfold w. apply N.add_mod_idemp_r. discriminate. Qed.

Lemma w_shiftl x s : w (N.shiftl (w x) s) = w (N.shiftl x s).
Proof. unfold w. rewrite !N.shiftl_mul_pow2. apply N.mul_mod_idemp_l. discriminate. Qed.

Lemma eval_lt d e : (forall j, d j < 256) -> eval d e < 256.
Proof.
  intros Hd. destruct e; cbn [eval]; try apply w_lt.
  - apply Hd.
  - destruct (N.eqb _ 0); reflexivity.
Qed.

Lemma single_lt j x : x < 256 -> forall i, single j x i < 256.
Proof. intros Hx i. unfold single. destruct (Nat.eqb i j); [exact Hx|reflexivity]. Qed.

Lemma eval_only j e : only j e = true -> forall d, eval d e = eval (single j (d j)) e.
Proof.
  induction e as [i|c|e IH s|e IH s|e IH m|a IHa b IHb|e IH]; cbn [only eval]; intros H d.
  - apply Nat.eqb_eq in H. subst i. unfold single. rewrite Nat.eqb_refl. reflexivity.
  - reflexivity.
  - rewrite (IH H d). reflexivity.
  - rewrite (IH H d). reflexivity.
  - rewrite (IH H d). reflexivity.
  - apply andb_true_iff in H. destruct H as [Ha Hb]. rewrite (IHa Ha d), (IHb Hb d). reflexivity.
  - rewrite (IH H d). reflexivity.
Qed.

Lemma eval_noinput e : first_in e = None -> forall d d', eval d e = eval d' e.
Proof.
  induction e as [i|c|e IH s|e IH s|e IH m|a IHa b IHb|e IH]; cbn [first_in eval]; intros H d d'.
  - discriminate.
  - reflexivity.
  - rewrite (IH H d d'). reflexivity.
  - rewrite (IH H d d'). reflexivity.
  - rewrite (IH H d d'). reflexivity.
  - destruct (first_in a) eqn:Ea; [discriminate|]. rewrite (IHa eq_refl d d'), (IHb H d d'). reflexivity.
  - rewrite (IH H d d'). reflexivity.
Qed.

Lemma tsum_app d l1 l2 : tsum d (l1 ++ l2) = tsum d l1 + tsum d l2.
Proof. unfold tsum. induction l1 as [|t l1 IH]; cbn; [reflexivity|]. rewrite IH. lia. Qed.

Lemma tval_shift d s t : tval d (shift_term s t) = N.shiftl (tval d t) s.
Proof.
  destruct t as [[s' j] u]. unfold tval, tidx, tval1, shift_term.
  rewrite N.shiftl_shiftl. reflexivity.
Qed.

Lemma tsum_shift d s l : tsum d (map (shift_term s) l) = N.shiftl (tsum d l) s.
Proof.
  unfold tsum. induction l as [|t l IH]; cbn [map fold_right].
  - rewrite N.shiftl_0_l. reflexivity.
  - rewrite IH, tval_shift, !N.shiftl_mul_pow2. lia.
Qed.

(* four-way inversion of the definition of nf *)
Lemma nf_unfold e : nf e =
  match first_in e with
  | None => Some (eval (fun _ => 0) e, [])
  | Some j =>
    if only j e then Some (0, [(0, j, e)])
    else match e with
         | BAdd a b => match nf a, nf b with
                       | Some (ca, la), Some (cb, lb) => Some (ca + cb, la ++ lb)
                       | _, _ => None
                       end
         | BShl e' s => match nf e' with
                        | Some (c, l) => Some (N.shiftl c s, map (shift_term s) l)
                        | None => None
                        end
         | _ => None
         end
  end.
Proof. destruct e; reflexivity. Qed.

Lemma nf_cases e r : nf e = Some r ->
  (first_in e = None /\ r = (eval (fun _ => 0) e, []))
  \/ (exists j, first_in e = Some j /\ only j e = true /\ r = (0, [(0, j, e)]))
  \/ (exists a b ca la cb lb, e = BAdd a b /\ nf a = Some (ca, la) /\ nf b = Some (cb, lb) /\ r = (ca + cb, la ++ lb))
  \/ (exists e' s c l, e = BShl e' s /\ nf e' = Some (c, l) /\ r = (N.shiftl c s, map (shift_term s) l)).
Proof.
  intros H. rewrite nf_unfold in H.
  destruct (first_in e) as [j|] eqn:Ef.
  - destruct (only j e) eqn:Eo.
    + right; left. exists j. injection H as <-. split; [reflexivity|]. split; [exact Eo|reflexivity].
    + destruct e as [i|c|e s|e s|e m|a b|e]; try discriminate H.
      * right; right; right.
        destruct (nf e) as [[c l]|] eqn:En; [|discriminate].
        injection H as <-. exists e, s, c, l. repeat split; try reflexivity; assumption.
      * right; right; left.
        destruct (nf a) as [[ca la]|] eqn:Ea; [|discriminate].
        destruct (nf b) as [[cb lb]|] eqn:Eb; [|discriminate].
        injection H as <-. exists a, b, ca, la, cb, lb. repeat split; try reflexivity; assumption.
  - left. injection H as <-. split; reflexivity.
Qed.

Theorem nf_sound e : forall r, nf e = Some r -> forall d, (forall j, d j < 256) -> eval d e = nfval d r.
Proof.
  induction e as [i|c|e IH s|e IH s|e IH m|a IHa b IHb|e IH]; intros r H d Hd;
    destruct (nf_cases _ _ H) as [[Hf ->]|[(j & Hf & Ho & ->)|[(a' & b' & ca & la & cb & lb & He & Ha & Hb & ->)|(e' & s' & c' & l' & He & He' & ->)]]];
    try discriminate He;
    try (unfold nfval, tsum; cbn [fst snd fold_right]; rewrite N.add_0_r, w_small by (apply eval_lt; intros; reflexivity);
         apply eval_noinput; exact Hf);
    try (unfold nfval, tsum, tval, tidx, tval1; cbn [fst snd fold_right];
         rewrite N.shiftl_0_r, N.add_0_l, N.add_0_r, w_small by (apply eval_lt, single_lt, Hd);
         apply eval_only; exact Ho).
  - (* BShl *)
    injection He as <- <-. cbn [eval]. rewrite (IH _ He' d Hd). unfold nfval. cbn [fst snd].
    rewrite w_shiftl, tsum_shift, !N.shiftl_mul_pow2. f_equal. lia.
  - (* BAdd *)
    injection He as <- <-. cbn [eval]. rewrite (IHa _ Ha d Hd), (IHb _ Hb d Hd). unfold nfval. cbn [fst snd].
    rewrite w_add, tsum_app. f_equal. lia.
Qed.

(* ---------------------------------------------------------------- regrouping by input byte *)
Lemma sumf_add f g l : sumf (fun j => f j + g j) l = sumf f l + sumf g l.
Proof. unfold sumf. induction l as [|j l IH]; cbn; [reflexivity|]. rewrite IH. lia. Qed.

Lemma sumf_ext f g l : (forall j, List.In j l -> f j = g j) -> sumf f l = sumf g l.
Proof.
  unfold sumf. induction l as [|j l IH]; intros H; cbn; [reflexivity|].
  rewrite H by (left; reflexivity). rewrite IH; [reflexivity|]. intros; apply H; right; assumption.
Qed.

Lemma sumf_zero l : sumf (fun _ => 0) l = 0.
Proof. unfold sumf. induction l as [|j l IH]; cbn; [reflexivity|]. exact IH. Qed.

(* exactly one index of [seq s n] selects *)
Lemma sumf_pick f j0 : forall n s, (s <= j0 < s + n)%nat ->
  sumf (fun j => if Nat.eqb j0 j then f j else 0) (seq s n) = f j0.
Proof.
  induction n as [|n IH]; intros s Hs; [lia|].
  cbn [seq]. unfold sumf in *. cbn [fold_right].
  destruct (Nat.eqb_spec j0 s) as [->|Hne].
  - assert (Hz : fold_right (fun j a => (if Nat.eqb s j then f j else 0) + a) 0 (seq (S s) n) = 0).
    { clear IH Hs. assert (Hgen : forall m t, (s < t)%nat ->
        fold_right (fun j a => (if Nat.eqb s j then f j else 0) + a) 0 (seq t m) = 0).
      { induction m as [|m IHm]; intros t Ht; cbn; [reflexivity|].
        destruct (Nat.eqb_spec s t); [lia|]. rewrite IHm by lia. reflexivity. }
      apply Hgen. lia. }
    rewrite Hz. lia.
  - rewrite IH by lia. lia.
Qed.

Lemma sumf_pick_out f j0 n : (n <= j0)%nat ->
  sumf (fun j => if Nat.eqb j0 j then f j else 0) (seq 0 n) = 0.
Proof.
  intros Hn. rewrite (sumf_ext _ (fun _ => 0)); [apply sumf_zero|].
  intros j Hj. apply in_seq in Hj. destruct (Nat.eqb_spec j0 j); [lia|reflexivity].
Qed.

Lemma w_sumf f l : w (sumf (fun j => w (f j)) l) = w (sumf f l).
Proof.
  unfold sumf. induction l as [|j l IH]; cbn; [reflexivity|].
  rewrite w_add_l, <- w_add_r, IH, w_add_r. reflexivity.
Qed.

Lemma tsum_by_byte n d : forall l, (forall t, List.In t l -> (tidx t < n)%nat) ->
  tsum d l = sumf (fun j => contrib l j (d j)) (seq 0 n).
Proof.
  induction l as [|t l IH]; intros Hl.
  - unfold contrib. cbn. rewrite sumf_zero. reflexivity.
  - unfold tsum, contrib in *. cbn [fold_right].
    rewrite (sumf_add (fun j => if Nat.eqb (tidx t) j then tval1 (d j) t else 0)).
    rewrite sumf_pick by (specialize (Hl t (or_introl eq_refl)); lia).
    rewrite <- IH by (intros; apply Hl; right; assumption).
    reflexivity.
Qed.

Definition terms_below (n : nat) (l : list term) : bool := forallb (fun t => Nat.ltb (tidx t) n) l.

Lemma terms_below_spec n l : terms_below n l = true -> forall t, List.In t l -> (tidx t < n)%nat.
Proof.
  unfold terms_below. rewrite forallb_forall. intros H t Ht. apply Nat.ltb_lt, H, Ht.
Qed.

(* an expression whose normal form exists is, for ALL inputs, the wrapped sum of its single-byte contributions *)
Theorem eval_by_tables e c l n d :
  nf e = Some (c, l) -> terms_below n l = true -> (forall j, d j < 256) ->
  eval d e = w (c + sumf (fun j => w (contrib l j (d j))) (seq 0 n)).
Proof.
  intros Hnf Hb Hd. rewrite (nf_sound _ _ Hnf d Hd). unfold nfval. cbn [fst snd].
  rewrite (tsum_by_byte n d l (terms_below_spec _ _ Hb)).
  rewrite <- w_add_r, <- (w_sumf (fun j => contrib l j (d j))), w_add_r. reflexivity.
Qed.
