(* Props/C20.v — property C20: Synchronizer output is exactly the accepted traces, in order, with own metadata.
   Only statements closed by [exact]; Print Assumptions beneath each.  Proofs are in Proofs/Sync.v.

   Reading guide.  A trace is (metadata, samples) : M * X.  [f i t] is what the user's function does at its i-th call,
   on trace t: [Accept d] (returns data d), [ReturnNone], [Raise] (any Exception).  Every theorem is for ALL types
   M X D, ALL functions f (stateful ones included: the call number is an argument) and ALL input lists.
   [run f st input] is Synchronizer.run on an object in state st: [None] = SynchronizerError, [Some st'] = the state
   after the loop.  [writes st'] is the log of write requests (index, (metadata, data)) sent to the output writer;
   [store_get] / [store_size] read it as a file: the content of row j and the number of rows. *)
From Coq Require Import ZArith List Bool.
From ScaredV Require Import Run.Compare Model.Sync Proofs.Sync.
Import ListNotations.
Local Open Scope nat_scope.

(* The spec list [accepted f input], without recursion: entry j is (metadata, returned data) of the input trace number i
   such that the function returned data on it and exactly j earlier traces were accepted.  So: one output per accepted
   input and none for the others, in input order, each with the metadata of its own originating trace. *)
Theorem accepted_is_the_accepted_traces_in_order :
  forall (M X D : Type) (f : nat -> M * X -> outcome D) (input : list (M * X)) (j : nat) (m : M) (d : D),
  nth_error (accepted M X D f input) j = Some (m, d) <->
  exists i x, nth_error input i = Some (m, x) /\ f i (m, x) = Accept d
              /\ length (accepted M X D f (firstn i input)) = j.
Proof. exact accepted_char. Qed.
Print Assumptions accepted_is_the_accepted_traces_in_order.

(* sync_output: after run on a fresh object the output holds exactly k = |accepted| rows, and row j is the j-th accepted
   (metadata, data) pair; rows >= k do not exist. *)
Theorem sync_output :
  forall (M X D : Type) (f : nat -> M * X -> outcome D) (input : list (M * X)) (st' : sstate M D),
  run M X D f fresh input = Some st' ->
  store_size (writes st') = length (accepted M X D f input)
  /\ forall j, store_get (writes st') j = nth_error (accepted M X D f input) j.
Proof. exact sync_output_thm. Qed.
Print Assumptions sync_output.

Theorem sync_output_rows :
  forall (M X D : Type) (f : nat -> M * X -> outcome D) (input : list (M * X)) (st' : sstate M D),
  run M X D f fresh input = Some st' -> store_rows (writes st') = map Some (accepted M X D f input).
Proof. exact store_rows_thm. Qed.
Print Assumptions sync_output_rows.

(* a fresh object always runs (the guard only refuses the second call) *)
Theorem first_run_accepted :
  forall (M X D : Type) (f : nat -> M * X -> outcome D) (input : list (M * X)),
  exists st', run M X D f fresh input = Some st'.
Proof. exact run_fresh_defined. Qed.
Print Assumptions first_run_accepted.

(* writes_are_appends: the p-th write request goes to index p — no gap, no row written twice ... *)
Theorem writes_are_appends :
  forall (M X D : Type) (f : nat -> M * X -> outcome D) (input : list (M * X)) (st' : sstate M D),
  run M X D f fresh input = Some st' -> map fst (writes st') = seq 0 (length (writes st')).
Proof. exact writes_are_appends_thm. Qed.
Print Assumptions writes_are_appends.

(* ... and at every moment of a run (the state after a prefix [input], about to handle trace [t]) an accepted trace
   is written at index synchronized_counter - 1, which is the first row not yet in the file *)
Theorem write_index_is_next_free_row :
  forall (M X D : Type) (f : nat -> M * X -> outcome D) (input : list (M * X)) (st' : sstate M D) (t : M * X) (d : D),
  run M X D f fresh input = Some st' -> f (length input) t = Accept d ->
  writes (step M X D f st' (length input) t) = writes st' ++ [(store_size (writes st'), (fst t, d))].
Proof. exact next_write_is_next_free. Qed.
Print Assumptions write_index_is_next_free_row.

Theorem run_on_prefix_is_intermediate_state :
  forall (M X D : Type) (f : nat -> M * X -> outcome D) (l1 : list (M * X)) (t : M * X) (st1 : sstate M D),
  run M X D f fresh l1 = Some st1 -> run M X D f fresh (l1 ++ [t]) = Some (step M X D f st1 (length l1) t).
Proof. exact run_snoc. Qed.
Print Assumptions run_on_prefix_is_intermediate_state.

(* counters: processed = number of inputs, synchronized = number of accepted traces *)
Theorem counters :
  forall (M X D : Type) (f : nat -> M * X -> outcome D) (input : list (M * X)) (st' : sstate M D),
  run M X D f fresh input = Some st' ->
  processed st' = length input /\ synchronized st' = length (accepted M X D f input).
Proof. exact counters_thm. Qed.
Print Assumptions counters.

(* ... also when nothing was accepted: nothing is written at all, the counters are |input| and 0 *)
Theorem counters_when_nothing_accepted :
  forall (M X D : Type) (f : nat -> M * X -> outcome D) (input : list (M * X)) (st' : sstate M D),
  (forall i t d, f i t <> Accept d) ->
  run M X D f fresh input = Some st' ->
  processed st' = length input /\ synchronized st' = 0 /\ writes st' = [].
Proof. exact counters_nothing_accepted_thm. Qed.
Print Assumptions counters_when_nothing_accepted.

(* second_run_refused: whatever the first run did, run() on the resulting object is refused (on any input) *)
Theorem second_run_refused :
  forall (M X D : Type) (f : nat -> M * X -> outcome D) (input : list (M * X)) (st' : sstate M D) (input2 : list (M * X)),
  run M X D f fresh input = Some st' -> run M X D f st' input2 = None.
Proof. exact second_run_refused_thm. Qed.
Print Assumptions second_run_refused.

(* non-vacuity: six traces, pattern Accept / Raise / None / Accept / Accept / Raise, data shorter than the samples *)
Example sync_example :
  let input := [([100], [0; 1; 2; 3]); ([101], [4; 5; 6; 7]); ([102], [8; 9; 10; 11]);
                ([103], [12; 13; 14; 15]); ([104], [16; 17; 18; 19]); ([105], [20; 21; 22; 23])]%Z in
  let pat := [Accept [1; 3]; Raise; ReturnNone; Accept [25; 27]; Accept [33; 35]; Raise]%Z in
  let f := fun i (_ : list Z * list Z) => nth i pat Raise in
  exists st', run _ _ _ f fresh input = Some st'
    /\ store_rows (writes st') = [Some ([100], [1; 3]); Some ([103], [25; 27]); Some ([104], [33; 35])]%Z
    /\ processed st' = 6 /\ synchronized st' = 3
    /\ run _ _ _ f st' input = None.
Proof. eexists. vm_compute. repeat split; reflexivity. Qed.

(* the all-rejected instance of counters_when_nothing_accepted *)
Example sync_example_all_rejected :
  let input := [([100], [0; 1]); ([101], [4; 5]); ([102], [8; 9])]%Z in
  let f := fun (i : nat) (_ : list Z * list Z) => if Nat.even i then @Raise (list Z) else ReturnNone in
  (forall i t d, f i t <> Accept d)
  /\ exists st', run _ _ _ f fresh input = Some st' /\ processed st' = 3 /\ synchronized st' = 0 /\ writes st' = [].
Proof.
  split.
  - intros i t d. cbv beta zeta. destruct (Nat.even i); discriminate.
  - eexists. vm_compute. repeat split; reflexivity.
Qed.

(* the correspondence check accepts a faithful observation and rejects the three edits named in the design *)
Example sync_check_discriminates :
  let input := [([100], [0; 1]); ([101], [4; 5]); ([102], [8; 9])]%Z in
  let pat := [Accept [1]; ReturnNone; Accept [9]]%Z in
  let mk rows sc := {| sy_input := input; sy_pattern := pat; sy_obs_seen := input; sy_obs_processed := 3;
                       sy_obs_synchronized := sc; sy_obs_rows := Some rows; sy_obs_second_refused := true |} in
  sync_check (mk [([100], [1]); ([102], [9])]%Z 2) = true
  /\ sync_check (mk [([100], [1]); ([], []); ([102], [9])]%Z 2) = false      (* index from processed_counter *)
  /\ sync_check (mk [([100], [1]); ([101], [9])]%Z 2) = false                (* metadata of the previous trace *)
  /\ sync_check (mk [([100], [1]); ([], []); ([102], [9])]%Z 3) = false.     (* counter bumped before the None test *)
Proof. vm_compute. repeat split; reflexivity. Qed.
