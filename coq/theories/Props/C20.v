(* Props/C20.v — property C20: Synchronizer output is exactly the accepted traces, in order, with own metadata.
   Only statements closed by [exact]; Print Assumptions beneath each.  Proofs are in Proofs/Sync.v.

   Reading guide.  A trace is (metadata, samples) : M * X.  [f i t] is what the user's function does at its i-th call
   since the object was built (calls made by check() count), on trace t: [Accept d] (returns data d), [ReturnNone],
   [Raise] (any Exception).  Every theorem is for ALL types M X D, ALL functions f (stateful ones included: the call
   number is an argument), ALL input lists and ALL histories of public calls made on the object before run().

   [construct old o] is Synchronizer(input, output, f, overwrite=o) where the file [output] does not exist
   ([old = None]) or holds the rows [old = Some rows].  [after_history f st input evs] is the object after the calls
   [evs]: [EvCheck picks catch] = check(len picks, catch_exceptions=catch) with np.random.choice having drawn [picks];
   [EvReport] = report() / str().  [run f st input] is Synchronizer.run: [RunRefused] = SynchronizerError (already
   called), [RunWriterError st'] = the writer's ETSWriterError left run() (file exists, overwrite=False), [RunDone st'] =
   the loop finished and run() returns the reader [w_reader (out st')] ([None]: there is no file, no output set).
   [blocking old o] = the file exists, has rows, and overwrite is False.  [writes st'] is the log of write requests
   (index, (metadata, data)) honoured by the writer; [store_get] / [store_size] read it as a file.
   [calls st] = number of calls made on f so far (ghost); [visible st] = everything else: the two counters, the log,
   the single-use guard (_err_counter) and the writer with the file. *)
From Coq Require Import ZArith List Bool.
From ScaredV Require Import Run.Compare Model.Sync Proofs.Sync.
Import ListNotations.
Local Open Scope nat_scope.

(* The spec list [accepted_from f c input] (c = number of the first call), without recursion: entry j is (metadata,
   returned data) of the input trace number i such that the function returned data on it and exactly j earlier traces
   were accepted.  So: one output per accepted input and none for the others, in input order, each with the metadata of
   its own originating trace. *)
Theorem accepted_is_the_accepted_traces_in_order :
  forall (M X D : Type) (f : nat -> M * X -> outcome D) (input : list (M * X)) (c j : nat) (m : M) (d : D),
  nth_error (accepted_from M X D f c input) j = Some (m, d) <->
  exists i x, nth_error input i = Some (m, x) /\ f (c + i) (m, x) = Accept d
              /\ length (accepted_from M X D f c (firstn i input)) = j.
Proof. exact accepted_from_char_thm. Qed.
Print Assumptions accepted_is_the_accepted_traces_in_order.

(* ---------------------------------------------------------------- histories before run() *)

(* check_does_not_change_state: whatever the picks, catch_exceptions, the outcome (returned or left by exception, also
   in the middle of the picks), check() leaves the counters, the write log, the single-use guard and the output alone *)
Theorem check_does_not_change_state :
  forall (M X D : Type) (f : nat -> M * X -> outcome D) (st : sstate M D) (input : list (M * X))
         (picks : list nat) (catch : bool),
  let st' := snd (check M X D f st input picks catch) in
  processed st' = processed st /\ synchronized st' = synchronized st /\ writes st' = writes st
  /\ errs st' = errs st /\ out st' = out st.
Proof. exact check_frame_thm. Qed.
Print Assumptions check_does_not_change_state.

(* ... hence any number of check() and report() calls: the final object and every intermediate one *)
Theorem history_does_not_change_state :
  forall (M X D : Type) (f : nat -> M * X -> outcome D) (st : sstate M D) (input : list (M * X)) (evs : list event),
  visible (after_history M X D f st input evs) = visible st
  /\ Forall (fun r => visible (snd r) = visible st) (fst (exec_history M X D f st input evs)).
Proof. exact history_frame_thm. Qed.
Print Assumptions history_does_not_change_state.

(* ... hence run() after ANY history is run() on a new object (same file, same overwrite) for the function as it
   behaves from its next call on: same outcome, same counters, same log, same guard, same output *)
Theorem run_after_any_history_is_run_on_new_object :
  forall (M X D : Type) (f : nat -> M * X -> outcome D) (old : option (list (M * D))) (o : bool)
         (input : list (M * X)) (evs : list event),
  let st := after_history M X D f (construct old o) input evs in
  run_visible (run M X D f st input)
  = run_visible (run M X D (fun i => f (calls st + i)) (construct old o) input).
Proof. exact run_after_history_as_fresh. Qed.
Print Assumptions run_after_any_history_is_run_on_new_object.

(* for a function that does not look at its call number the history is invisible altogether *)
Theorem run_after_any_history_stateless_function :
  forall (M X D : Type) (f : nat -> M * X -> outcome D) (old : option (list (M * D))) (o : bool)
         (input : list (M * X)) (evs : list event),
  (forall i j t, f i t = f j t) ->
  run_visible (run M X D f (after_history M X D f (construct old o) input evs) input)
  = run_visible (run M X D f (construct old o) input).
Proof. exact run_after_history_stateless. Qed.
Print Assumptions run_after_any_history_stateless_function.

(* ---------------------------------------------------------------- the first run() *)

(* output_is_exactly_accepted_even_if_file_existed: the complete case analysis of the first run(), after any history,
   over any output file.  With [acc] the accepted traces of THIS run:
   - it is never refused;
   - it fails with the writer's error only when the file blocks (exists, non-empty, overwrite=False) and something was
     accepted: at the first accepted trace, and the file is exactly what it was;
   - otherwise it completes, the counters are (|input|, |acc|), and EITHER something was accepted, the file did not
     block, and the reader holds exactly acc (never old rows followed by new ones), OR nothing was accepted and the
     writer was not touched at all (the file, if one exists, is still the old one — see the manifest note). *)
Theorem output_is_exactly_accepted_even_if_file_existed :
  forall (M X D : Type) (f : nat -> M * X -> outcome D) (old : option (list (M * D))) (o : bool)
         (input : list (M * X)) (evs : list event),
  let st := after_history M X D f (construct old o) input evs in
  let acc := accepted_from M X D f (calls st) input in
  match run M X D f st input with
  | RunRefused => False
  | RunWriterError st' =>
      blocking old o = true /\ acc <> []
      /\ processed st' = S (rejected_prefix M X D f (calls st) input)
      /\ rejected_prefix M X D f (calls st) input < length input
      /\ synchronized st' = 1
      /\ disk (out st') = option_map (map Some) old
  | RunDone st' =>
      processed st' = length input /\ synchronized st' = length acc
      /\ ((acc <> [] /\ blocking old o = false /\ w_reader (out st') = Some (map Some acc))
          \/ (acc = [] /\ out st' = new_writer old o))
  end.
Proof. exact run_after_history_thm. Qed.
Print Assumptions output_is_exactly_accepted_even_if_file_existed.

(* sync_output: when the file does not block, after run() the write log has exactly k = |acc| rows, row j is the j-th
   accepted (metadata, data) pair, rows >= k do not exist; and the file read back is that list (when k = 0 nothing was
   written: no file, or the untouched old one) *)
Theorem sync_output :
  forall (M X D : Type) (f : nat -> M * X -> outcome D) (old : option (list (M * D))) (o : bool)
         (input : list (M * X)) (evs : list event) (st' : sstate M D),
  blocking old o = false ->
  run M X D f (after_history M X D f (construct old o) input evs) input = RunDone st' ->
  store_size (writes st') = length (accepted_from M X D f (calls (after_history M X D f (construct old o) input evs)) input)
  /\ (forall j, store_get (writes st') j
                = nth_error (accepted_from M X D f (calls (after_history M X D f (construct old o) input evs)) input) j)
  /\ w_reader (out st') = match accepted_from M X D f (calls (after_history M X D f (construct old o) input evs)) input with
                          | [] => option_map (map Some) old
                          | acc => Some (map Some acc)
                          end.
Proof. exact sync_output_hist. Qed.
Print Assumptions sync_output.

Theorem sync_output_rows :
  forall (M X D : Type) (f : nat -> M * X -> outcome D) (old : option (list (M * D))) (o : bool)
         (input : list (M * X)) (evs : list event) (st' : sstate M D),
  blocking old o = false ->
  run M X D f (after_history M X D f (construct old o) input evs) input = RunDone st' ->
  store_rows (writes st')
  = map Some (accepted_from M X D f (calls (after_history M X D f (construct old o) input evs)) input).
Proof. exact store_rows_hist. Qed.
Print Assumptions sync_output_rows.

(* the first run() of an object whose file does not block always completes *)
Theorem first_run_accepted :
  forall (M X D : Type) (f : nat -> M * X -> outcome D) (old : option (list (M * D))) (o : bool)
         (input : list (M * X)) (evs : list event),
  blocking old o = false ->
  exists st', run M X D f (after_history M X D f (construct old o) input evs) input = RunDone st'.
Proof. exact run_defined_hist. Qed.
Print Assumptions first_run_accepted.

(* writes_are_appends: the p-th write request goes to index p — no gap, no row written twice ... *)
Theorem writes_are_appends :
  forall (M X D : Type) (f : nat -> M * X -> outcome D) (old : option (list (M * D))) (o : bool)
         (input : list (M * X)) (evs : list event) (st' : sstate M D),
  blocking old o = false ->
  run M X D f (after_history M X D f (construct old o) input evs) input = RunDone st' ->
  map fst (writes st') = seq 0 (length (writes st')).
Proof. exact writes_are_appends_hist. Qed.
Print Assumptions writes_are_appends.

(* ... and at every moment of a run (the state after a prefix [input], about to handle trace [t]) an accepted trace
   is written at index synchronized_counter - 1, which is the first row not yet in the file: the file becomes the
   accepted traces so far followed by this one *)
Theorem write_index_is_next_free_row :
  forall (M X D : Type) (f : nat -> M * X -> outcome D) (old : option (list (M * D))) (o : bool)
         (input : list (M * X)) (evs : list event) (st' : sstate M D) (t : M * X) (d : D),
  blocking old o = false ->
  run M X D f (after_history M X D f (construct old o) input evs) input = RunDone st' ->
  f (calls st') t = Accept d ->
  exists st'', step M X D f st' t = Go st''
  /\ writes st'' = writes st' ++ [(store_size (writes st'), (fst t, d))]
  /\ w_reader (out st'')
     = Some (map Some (accepted_from M X D f (calls (after_history M X D f (construct old o) input evs)) input)
             ++ [Some (fst t, d)]).
Proof. exact next_write_hist. Qed.
Print Assumptions write_index_is_next_free_row.

(* for ANY object state: a run on l1 ++ [t] is the run on l1 followed by one loop iteration on t *)
Theorem run_on_prefix_is_intermediate_state :
  forall (M X D : Type) (f : nat -> M * X -> outcome D) (st : sstate M D) (l1 : list (M * X)) (t : M * X) (st1 : sstate M D),
  run M X D f st l1 = RunDone st1 ->
  run M X D f st (l1 ++ [t]) = match step M X D f st1 t with Go s => RunDone s | Stop s => RunWriterError s end.
Proof. exact run_snoc. Qed.
Print Assumptions run_on_prefix_is_intermediate_state.

(* counters: processed = number of inputs, synchronized = number of accepted traces *)
Theorem counters :
  forall (M X D : Type) (f : nat -> M * X -> outcome D) (old : option (list (M * D))) (o : bool)
         (input : list (M * X)) (evs : list event) (st' : sstate M D),
  blocking old o = false ->
  run M X D f (after_history M X D f (construct old o) input evs) input = RunDone st' ->
  processed st' = length input
  /\ synchronized st' = length (accepted_from M X D f (calls (after_history M X D f (construct old o) input evs)) input).
Proof. exact counters_hist. Qed.
Print Assumptions counters.

(* ... also when nothing was accepted, over any file: run() completes, nothing is written, counters |input| and 0 *)
Theorem counters_when_nothing_accepted :
  forall (M X D : Type) (f : nat -> M * X -> outcome D) (old : option (list (M * D))) (o : bool)
         (input : list (M * X)) (evs : list event),
  (forall i t d, f i t <> Accept d) ->
  exists st', run M X D f (after_history M X D f (construct old o) input evs) input = RunDone st'
  /\ processed st' = length input /\ synchronized st' = 0 /\ writes st' = [] /\ out st' = new_writer old o.
Proof. exact counters_nothing_accepted_hist. Qed.
Print Assumptions counters_when_nothing_accepted.

(* second_run_refused: in ANY object state, once run() has entered its loop — whether it completed or was left by the
   writer's error — run() on the resulting object is refused (on any input) *)
Theorem second_run_refused :
  forall (M X D : Type) (f : nat -> M * X -> outcome D) (st : sstate M D) (input input2 : list (M * X)),
  match run M X D f st input with
  | RunRefused => True
  | RunWriterError st' => run M X D f st' input2 = RunRefused
  | RunDone st' => run M X D f st' input2 = RunRefused
  end.
Proof. exact second_run_refused_thm. Qed.
Print Assumptions second_run_refused.

(* ---------------------------------------------------------------- non-vacuity *)
Definition ex_input : list (list Z * list Z) :=
  [([100], [0; 1; 2; 3]); ([101], [4; 5; 6; 7]); ([102], [8; 9; 10; 11]);
   ([103], [12; 13; 14; 15]); ([104], [16; 17; 18; 19]); ([105], [20; 21; 22; 23])]%Z.
(* calls 0..3: check(4, catch_exceptions=True) sees Accept / Raise / None / Accept; calls 4,5: check(3, False) sees
   Accept, then Raise and leaves; then str(); calls 6..11 are the run: Accept / Raise / None / Accept / Accept / Raise *)
Definition ex_pat : list (outcome (list Z)) :=
  [Accept [7]; Raise; ReturnNone; Accept [8]; Accept [9]; Raise;
   Accept [1; 3]; Raise; ReturnNone; Accept [25; 27]; Accept [33; 35]; Raise]%Z.
Definition ex_f := fun i (_ : list Z * list Z) => nth i ex_pat Raise.
Definition ex_hist := [EvCheck [2; 2; 5; 0] true; EvCheck [1; 4; 3] false; EvReport].
Definition ex_old : list (list Z * list Z) := [([1], [1; 1]); ([2], [2; 2]); ([3], [3; 3]); ([4], [4; 4])]%Z.

(* a history with both kinds of check() (one leaving by exception after an accepted pick), then run on a new file *)
Example sync_example :
  exists h st st',
    exec_history _ _ _ ex_f fresh ex_input ex_hist = (h, st)
    /\ map fst h = [ErCheck (CheckReturned [Some [7]; None; Some [8]]%Z); ErCheck CheckRaised; ErReport None]
    /\ calls st = 6
    /\ run _ _ _ ex_f st ex_input = RunDone st'
    /\ w_reader (out st') = Some [Some ([100], [1; 3]); Some ([103], [25; 27]); Some ([104], [33; 35])]%Z
    /\ store_rows (writes st') = [Some ([100], [1; 3]); Some ([103], [25; 27]); Some ([104], [33; 35])]%Z
    /\ processed st' = 6 /\ synchronized st' = 3
    /\ run _ _ _ ex_f st' ex_input = RunRefused.
Proof. eexists. eexists. eexists. vm_compute. repeat split; reflexivity. Qed.

(* the same over an existing file of four rows: overwrite=False fails at the first accepted trace and keeps the file,
   overwrite=True replaces it *)
Example sync_example_existing_file :
  (exists st',
     run _ _ _ ex_f (after_history _ _ _ ex_f (construct (Some ex_old) false) ex_input ex_hist) ex_input = RunWriterError st'
     /\ blocking (Some ex_old) false = true
     /\ processed st' = 1 /\ synchronized st' = 1 /\ disk (out st') = Some (map Some ex_old)
     /\ run _ _ _ ex_f st' ex_input = RunRefused)
  /\ (exists st',
     run _ _ _ ex_f (after_history _ _ _ ex_f (construct (Some ex_old) true) ex_input ex_hist) ex_input = RunDone st'
     /\ blocking (Some ex_old) true = false
     /\ w_reader (out st') = Some [Some ([100], [1; 3]); Some ([103], [25; 27]); Some ([104], [33; 35])]%Z
     /\ processed st' = 6 /\ synchronized st' = 3).
Proof. split; eexists; vm_compute; repeat split; reflexivity. Qed.

(* the all-rejected instance of counters_when_nothing_accepted *)
Example sync_example_all_rejected :
  let input := [([100], [0; 1]); ([101], [4; 5]); ([102], [8; 9])]%Z in
  let f := fun (i : nat) (_ : list Z * list Z) => if Nat.even i then @Raise (list Z) else ReturnNone in
  (forall i t d, f i t <> Accept d)
  /\ exists st', run _ _ _ f (after_history _ _ _ f fresh input [EvCheck [1; 1] true]) input = RunDone st'
                 /\ processed st' = 3 /\ synchronized st' = 0 /\ writes st' = [] /\ w_reader (out st') = None.
Proof.
  split.
  - intros i t d. cbv beta zeta. destruct (Nat.even i); discriminate.
  - eexists. vm_compute. repeat split; reflexivity.
Qed.

(* a stateless function (accepts the traces whose metadata is even): instance of run_after_any_history_stateless_function *)
Example sync_example_stateless :
  let f := fun (_ : nat) (t : list Z * list Z) =>
             match fst t with [m] => if Z.even m then Accept (snd t) else Raise | _ => ReturnNone end%Z in
  (forall i j t, f i t = f j t)
  /\ run_visible (run _ _ _ f (after_history _ _ _ f fresh ex_input ex_hist) ex_input)
     = run_visible (run _ _ _ f fresh ex_input)
  /\ exists st', run _ _ _ f fresh ex_input = RunDone st' /\ synchronized st' = 3.
Proof. split; [reflexivity|]. split; [reflexivity|]. eexists. vm_compute. split; reflexivity. Qed.

(* the correspondence check accepts faithful observations and rejects the edits named in the design and by the reviewers *)
Definition ck_input : list zrow := [([100], [0; 1]); ([101], [4; 5]); ([102], [8; 9])]%Z.
Definition ck_mk pat old ovw hist ohist seen robs p s rep rows :=
  {| sy_input := ck_input; sy_pattern := pat; sy_old := old; sy_overwrite := ovw; sy_history := hist;
     sy_obs_history := ohist; sy_obs_seen := seen; sy_obs_run := robs; sy_obs_processed := p; sy_obs_synchronized := s;
     sy_obs_report := rep; sy_obs_warnings := 0; sy_obs_rows := rows; sy_obs_second_refused := true |}.

Example sync_check_discriminates :
  let pat := [Accept [1]; ReturnNone; Accept [9]]%Z in
  let mk rows sc := ck_mk pat None false [] [] ck_input ObsReturned 3 sc (Some (3, sc)) (Some rows) in
  sync_check (mk [([100], [1]); ([102], [9])]%Z 2) = true
  /\ sync_check (mk [([100], [1]); ([], []); ([102], [9])]%Z 2) = false      (* index from processed_counter *)
  /\ sync_check (mk [([100], [1]); ([101], [9])]%Z 2) = false                (* metadata of the previous trace *)
  /\ sync_check (mk [([100], [1]); ([], []); ([102], [9])]%Z 3) = false.     (* counter bumped before the None test *)
Proof. vm_compute. repeat split; reflexivity. Qed.

Example sync_check_discriminates_histories :
  let old := [([7], [7]); ([8], [8])]%Z in
  let pat := [Accept [1]; ReturnNone; Accept [9]]%Z in
  (* existing file, overwrite=False: the writer's error at the first accepted trace, file untouched ... *)
  sync_check (ck_mk pat (Some old) false [] [] (firstn 1 ck_input) ObsWriterError 1 1 (Some (1, 1)) (Some old)) = true
  (* ... and NOT old rows followed by the new ones (accepted traces appended instead of written at their index) *)
  /\ sync_check (ck_mk pat (Some old) false [] [] ck_input ObsReturned 3 2 (Some (3, 2))
                       (Some (old ++ [([100], [1]); ([102], [9])]%Z))) = false
  (* overwrite=True: the old rows are gone *)
  /\ sync_check (ck_mk pat (Some old) true [] [] ck_input ObsReturned 3 2 (Some (3, 2)) (Some [([100], [1]); ([102], [9])]%Z)) = true
  (* check(2, catch_exceptions=False) sees Accept then None and leaves; the run then starts from 0 / 0 ... *)
  /\ (let pat2 := ([Accept [5]; ReturnNone] ++ pat)%Z in
      let hist := [EvCheck [2; 0] false] in
      let seen := ([([102], [8; 9]); ([100], [0; 1])] ++ ck_input)%Z in
      sync_check (ck_mk pat2 None false hist [ObsCheck None 0 0] seen ObsReturned 3 2 (Some (3, 2))
                        (Some [([100], [1]); ([102], [9])]%Z)) = true
      (* ... and NOT from the counters check() left behind (2 / 1): shifted rows, counters 5 / 3 *)
      /\ sync_check (ck_mk pat2 None false hist [ObsCheck None 2 1] seen ObsReturned 5 3 (Some (5, 3))
                        (Some [([], []); ([100], [1]); ([102], [9])]%Z)) = false
      /\ sync_check (ck_mk pat2 None false hist [ObsCheck None 0 0] seen ObsReturned 5 3 (Some (5, 3))
                        (Some [([100], [1]); ([102], [9])]%Z)) = false).
Proof. vm_compute. repeat split; reflexivity. Qed.
