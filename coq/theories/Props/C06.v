(* Props/C06.v — property C06: DES/TDES encrypt/decrypt and every intermediate stop point conform to FIPS 46-3.
   Only statements closed by [exact]; Print Assumptions beneath each.  Proofs are in Proofs/Des*.v.

   Vocabulary.  Spec/Fips46.v is the standard (tables IP, IP^-1, E, P, S1..S8 in row/column layout, PC-1, PC-2, shifts; the cipher
   function, the iteration, DES, TDEA; [des_states]/[des_state_at]/[tdea_state_at] = every named intermediate value).
   Model/Des.v is the implementation: [m_ip m_fp m_e m_p m_invp] evaluate the expression lists obtained by symbolic execution
   of the five bit-sliced functions (Generated/DesBits.v), [m_sboxes]/[m_key_schedule] use the generated tables, and
   [des_cipher dec at_des at_round after_step key block] runs the loop of _ParametricCipher on what _prepare_des_iterations and
   _prepare_keys REALLY returned for that stop point and key form (Generated/DesRounds.v, tabulated by running them).
   A block is 8 bytes; a key argument is 8/16/24 key bytes or 128/256/384 bytes of round-key words (each below 64). *)
From Coq Require Import NArith List Bool Arith.
From ScaredV Require Import Lib.Bexpr Spec.Fips46 Generated.DesTables Generated.DesBits Generated.DesRounds Model.Des
  Proofs.DesSpec Proofs.DesBits Proofs.DesRun Proofs.Des.
Import ListNotations.
Open Scope N_scope.

(* ------------------------------------------------------------------ the primitives, on EVERY input *)
(* the generated expression lists (symbolic execution of the bodies of initial_permutation, ...) evaluate to the table
   permutations of the standard for all 2^64 (2^32) inputs: reflection through normal forms (nf_sound) + additivity of a
   table permutation + 8 x 256 (4 x 256) single-byte tables compared by vm_compute *)
Theorem gen_ip_is_IP : forall st, length st = 8%nat /\ Forall (fun b => b < 256) st -> m_ip st = des_IP st.
Proof. exact gen_ip_is_IP_thm. Qed.
Print Assumptions gen_ip_is_IP.

Theorem gen_fp_is_FP : forall st, length st = 8%nat /\ Forall (fun b => b < 256) st -> m_fp st = des_FP st.
Proof. exact gen_fp_is_FP_thm. Qed.
Print Assumptions gen_fp_is_FP.

Theorem gen_e_is_E : forall st, length st = 4%nat /\ Forall (fun b => b < 256) st -> m_e st = des_E st.
Proof. exact gen_e_is_E_thm. Qed.
Print Assumptions gen_e_is_E.

(* for all byte values of the eight input words (the standard's P reads their low four bits, so does the code) *)
Theorem gen_p_is_P : forall st, length st = 8%nat /\ Forall (fun b => b < 256) st -> m_p st = des_P st.
Proof. exact gen_p_is_P_thm. Qed.
Print Assumptions gen_p_is_P.

Theorem gen_invp_is_invP : forall st, length st = 4%nat /\ Forall (fun b => b < 256) st -> m_invp st = des_invP st.
Proof. exact gen_invp_is_invP_thm. Qed.
Print Assumptions gen_invp_is_invP.

(* SBOXES[w][x] (direct-index order) is S_(w+1) at row (x5 x0), column (x4 x3 x2 x1): all 8 x 64 entries *)
Theorem sboxes_direct_index : forall w x, (w < 8)%nat -> x < 64 ->
  nth (N.to_nat x) (nth w SBOXES []) 0 = des_S_i w x.
Proof. exact sboxes_direct_index_thm. Qed.
Print Assumptions sboxes_direct_index.

Theorem sboxes_is_fips : forall st, length st = 8%nat /\ Forall (fun b => b < 64) st -> m_sboxes st = des_S st.
Proof. exact sboxes_is_S. Qed.
Print Assumptions sboxes_is_fips.

(* the generated functions undo each other on every input *)
Theorem fp_ip_id : forall st, length st = 8%nat /\ Forall (fun b => b < 256) st -> m_fp (m_ip st) = st.
Proof. exact fp_ip_id_thm. Qed.
Print Assumptions fp_ip_id.

Theorem ip_fp_id : forall st, length st = 8%nat /\ Forall (fun b => b < 256) st -> m_ip (m_fp st) = st.
Proof. exact ip_fp_id_thm. Qed.
Print Assumptions ip_fp_id.

Theorem invp_p_id : forall st, length st = 8%nat /\ Forall (fun b => b < 16) st -> m_invp (m_p st) = st.
Proof. exact invp_p_id_thm. Qed.
Print Assumptions invp_p_id.

Theorem p_invp_id : forall st, length st = 4%nat /\ Forall (fun b => b < 256) st -> m_p (m_invp st) = st.
Proof. exact p_invp_id_thm. Qed.
Print Assumptions p_invp_id.

(* ROUND_KEY_BITS_INDEXES is PC-2 o (cumulated left shifts) o PC-1 on the bit numbers 0..63, all 16 x 8 x 6 entries;
   hence key_schedule is KS of the standard for every 8-byte key *)
Theorem round_key_indexes_are_pc2_shifts_pc1 : ROUND_KEY_BITS_INDEXES = round_key_bits 64%nat (seq 0 64).
Proof. exact round_key_index_table. Qed.
Print Assumptions round_key_indexes_are_pc2_shifts_pc1.

Theorem key_schedule_is_KS : forall key, length key = 8%nat -> m_key_schedule key = des_key_schedule key.
Proof. exact key_schedule_is_fips. Qed.
Print Assumptions key_schedule_is_KS.

(* ------------------------------------------------------------------ the stop-point surgery, on its whole domain *)
(* what _prepare_des_iterations returned for each of the 3 x 16 x 10 stop points is the closed description
   [expected_iterations] of Proofs/DesRun.v (earlier passes complete and left as R16 L16, no IP after the first pass, the stopped
   round cut after after_step with the swap forced for steps 6/7 and the inverse-P views for 7/8, FP only at the very end) *)
Theorem stop_point_table : forall p r s, (p < 3)%nat -> (r < 16)%nat -> (s < 10)%nat ->
  prepared_iterations p r s = Some (expected_iterations p r s).
Proof. exact iterations_table_expected. Qed.
Print Assumptions stop_point_table.

Theorem round_templates :
  FIRST_ROUND = full_round true /\ ROUND = T_ROUND /\ LAST_ROUND = T_LAST /\ FINAL_ROUND = stop_round false true 9
  /\ MANDATORY_ROUND_ELEMENTS = MAND.
Proof. exact templates_are. Qed.
Print Assumptions round_templates.

(* ------------------------------------------------------------------ every stop point *)
(* for every key form, mode, at_des, at_round <= 15, after_step <= 9 and every block: the model of _ParametricCipher returns the
   corresponding element of the standard's intermediate values *)
Theorem des_at_is_fips : forall dec at_des at_round after_step key block,
  master_key key \/ expanded_key key -> is_block block ->
  (at_des < n_passes key)%nat -> (at_round <= 15)%nat -> (after_step <= 9)%nat ->
  exists ks, schedules_of_key key = Some ks
    /\ des_cipher dec at_des at_round after_step key block = Some (tdea_state_at (dir_of dec) ks block at_des at_round after_step).
Proof. exact des_at_is_fips_thm. Qed.
Print Assumptions des_at_is_fips.

(* ... and that element is a member of [des_states] of the pass in question (the list of all named intermediates) *)
Theorem state_at_in_des_states : forall rks block r s, (r <= 15)%nat -> (s <= 9)%nat ->
  nth (r * 10 + s) (des_states rks block) [] = des_state_at rks block r s.
Proof. exact des_states_nth. Qed.
Print Assumptions state_at_in_des_states.

(* decrypt undoes encrypt and conversely: every key form, every block *)
Theorem des_decrypt_encrypt : forall key block, master_key key \/ expanded_key key -> is_block block ->
  (exists c, des_full false key block = Some c /\ is_block c /\ des_full true key c = Some block)
  /\ (exists m, des_full true key block = Some m /\ is_block m /\ des_full false key m = Some block).
Proof. exact des_decrypt_encrypt_thm. Qed.
Print Assumptions des_decrypt_encrypt.

(* at the level of the standard: whatever the sixteen round keys, deciphering (reversed keys) undoes enciphering *)
Theorem feistel_involution : forall rks b, length rks = 16%nat -> length b = 8%nat /\ Forall (fun x => x < 256) b ->
  des_core (rev rks) (des_core rks b) = b.
Proof. exact spec_des_inverse. Qed.
Print Assumptions feistel_involution.

(* three-key TDES is E_K3 o D_K2 o E_K1 of single DES (D_K1 o E_K2 o D_K3 for decrypt), and stopping at the end of pass 0 / 1 / 2
   returns exactly these three values; two-key TDES takes K3 = K1 *)
Theorem tdes_is_ede : forall k1 k2 k3 block, is_block k1 -> is_block k2 -> is_block k3 -> is_block block ->
  exists a b c, des_full false k1 block = Some a /\ des_full true k2 a = Some b /\ des_full false k3 b = Some c
    /\ des_cipher false 0 15 9 (k1 ++ k2 ++ k3) block = Some a
    /\ des_cipher false 1 15 9 (k1 ++ k2 ++ k3) block = Some b
    /\ des_cipher false 2 15 9 (k1 ++ k2 ++ k3) block = Some c.
Proof. exact tdes3_is_ede_thm. Qed.
Print Assumptions tdes_is_ede.

Theorem tdes_decrypt_is_ded : forall k1 k2 k3 block, is_block k1 -> is_block k2 -> is_block k3 -> is_block block ->
  exists a b c, des_full true k3 block = Some a /\ des_full false k2 a = Some b /\ des_full true k1 b = Some c
    /\ des_cipher true 0 15 9 (k1 ++ k2 ++ k3) block = Some a
    /\ des_cipher true 1 15 9 (k1 ++ k2 ++ k3) block = Some b
    /\ des_cipher true 2 15 9 (k1 ++ k2 ++ k3) block = Some c.
Proof. exact tdes3_is_ded_thm. Qed.
Print Assumptions tdes_decrypt_is_ded.

Theorem tdes2_is_ede : forall dec k1 k2 block, is_block k1 -> is_block k2 -> is_block block ->
  exists a b c, des_full dec k1 block = Some a /\ des_full (negb dec) k2 a = Some b /\ des_full dec k1 b = Some c
    /\ des_cipher dec 0 15 9 (k1 ++ k2) block = Some a
    /\ des_cipher dec 1 15 9 (k1 ++ k2) block = Some b
    /\ des_cipher dec 2 15 9 (k1 ++ k2) block = Some c.
Proof. exact tdes2_is_ede_thm. Qed.
Print Assumptions tdes2_is_ede.

(* passing key_schedule(k) flattened (for each key of the bundle) instead of the key bytes gives the same result at every stop point *)
Theorem expanded_key_eq_master : forall dec at_des at_round after_step key block,
  master_key key -> is_block block -> (at_des < n_passes key)%nat -> (at_round <= 15)%nat -> (after_step <= 9)%nat ->
  expanded_key (expand_key key) /\ n_passes (expand_key key) = n_passes key
  /\ des_cipher dec at_des at_round after_step (expand_key key) block = des_cipher dec at_des at_round after_step key block.
Proof. exact expanded_key_eq_master_thm. Qed.
Print Assumptions expanded_key_eq_master.

(* ------------------------------------------------------------------ non-vacuity *)
Definition ex_key : list N := bytes_be 8 0x133457799BBCDFF1.
Definition ex_block : list N := bytes_be 8 0x0123456789ABCDEF.
Definition ex_key3 : list N := bytes_be 24 0x0123456789ABCDEF23456789ABCDEF01456789ABCDEF0123.

Example ex_hypotheses : master_key ex_key /\ master_key ex_key3 /\ expanded_key (expand_key ex_key3) /\ is_block ex_block
  /\ n_passes ex_key = 1%nat /\ n_passes ex_key3 = 3%nat.
Proof. unfold master_key, expanded_key, is_block. vm_compute. repeat split; auto; repeat constructor. Qed.

(* the worked example of the DES literature through the model: S-box output of the first round, the ciphertext, decryption *)
Example ex_stop_points :
  des_cipher false 0 0 3 ex_key ex_block = Some [5; 12; 8; 2; 11; 5; 9; 7]
  /\ des_full false ex_key ex_block = Some (bytes_be 8 0x85E813540F0AB405)
  /\ des_full true ex_key (bytes_be 8 0x85E813540F0AB405) = Some ex_block.
Proof. vm_compute. repeat split; reflexivity. Qed.

(* SP 800-67 three-key example through the model, with master and with pre-expanded keys, and an intermediate pass *)
Example ex_tdes :
  des_full false ex_key3 (bytes_be 8 0x5468652071756663) = Some (bytes_be 8 0xA826FD8CE53B855F)
  /\ des_full false (expand_key ex_key3) (bytes_be 8 0x5468652071756663) = Some (bytes_be 8 0xA826FD8CE53B855F)
  /\ des_cipher false 1 15 9 ex_key3 (bytes_be 8 0x5468652071756663)
     = des_full true (bytes_be 8 0x23456789ABCDEF01) (des_encrypt (bytes_be 8 0x0123456789ABCDEF) (bytes_be 8 0x5468652071756663)).
Proof. vm_compute. repeat split; reflexivity. Qed.

(* the check function of the correspondence harness accepts a true observation and refuses a wrong one *)
Example ex_check :
  cipher_check {| dc_dec := false; dc_key_many := false; dc_keys := [[0x133457799BBCDFF1]];
                  dc_block_many := false; dc_blocks := [0x0123456789ABCDEF];
                  dc_stops := [(None, None, None); (Some 0, Some 0, Some 4)]%nat; dc_obs_shape := [[8]; [8]]%nat;
                  dc_obs := [[0x85E813540F0AB405]; [0x234AA9BB00000000]] |} = true
  /\ cipher_check {| dc_dec := false; dc_key_many := false; dc_keys := [[0x133457799BBCDFF1]];
                  dc_block_many := false; dc_blocks := [0x0123456789ABCDEF];
                  dc_stops := [(None, None, None)]%nat; dc_obs_shape := [[8]]%nat; dc_obs := [[0x85E813540F0AB404]] |} = false.
Proof. vm_compute. split; reflexivity. Qed.

(* one block against two keys stopped BEFORE the first key addition: two rows (one per key) are required, one row is refused *)
Example ex_shape :
  cipher_check {| dc_dec := false; dc_key_many := true; dc_keys := [[0x133457799BBCDFF1]; [0x0E329232EA6D0D73]];
                  dc_block_many := false; dc_blocks := [0x0123456789ABCDEF];
                  dc_stops := [(Some 0, Some 0, Some 0)]%nat; dc_obs_shape := [[2; 8]]%nat;
                  dc_obs := [[0xCC00CCFFF0AAF0AA; 0xCC00CCFFF0AAF0AA]] |} = true
  /\ cipher_check {| dc_dec := false; dc_key_many := true; dc_keys := [[0x133457799BBCDFF1]; [0x0E329232EA6D0D73]];
                  dc_block_many := false; dc_blocks := [0x0123456789ABCDEF];
                  dc_stops := [(Some 0, Some 0, Some 0)]%nat; dc_obs_shape := [[8]]%nat;
                  dc_obs := [[0xCC00CCFFF0AAF0AA]] |} = false.
Proof. vm_compute. split; reflexivity. Qed.
