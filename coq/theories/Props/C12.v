(* Props/C12.v — property C12: classes are identified by VALUE: order is irrelevant, foreign values are ignored.
   Only statements closed by [exact]; Print Assumptions beneath each.  Proofs: Proofs/Classes.v.  The impl-models are the ones of
   C04 / C13 / C14 (Model/Partitioned.v = P., Model/Mia.v = M., Model/Template.v = T.), nothing is re-modelled here.

   Reading guide.
     parts            the declared class list (values; any order, gaps); hypotheses: [NoDup parts] (classes are values) and, for
                      ANOVA/NICV/SNR, [PP.all_in_range parts] (inside the 2^17 table = the supported range).
     sigma            a list of positions; [is_perm n sigma] = it is a permutation of 0..n-1; [permute d sigma l] = the list whose
                      position k holds l[sigma[k]]  (so [permute 0 sigma parts] is "the same classes listed in another order").
     declared parts v the value v is in the list.
     P.contrib parts r / P.feed_batches parts batches / P.classes n s / P.run_entry m parts batches
                      ANOVA-NICV-SNR, one (word, sample) entry: contribution of one trace r = (value, sample), accumulators
                      (counters, sum, sum_square per class, zero-padded list) after the update() calls, the table of the n class
                      triples, and compute() for metric m.
     M.contrib / M.hist_feed edges est parts batches / M.get t b k / M.comp phi nb nc t
                      MIA, one entry: joint histogram [bin][class]; compute() (phi stands for x ln x and is ANY function,
                      est is ANY bin-index estimate); [vhits edges b c r] = the sample of r lies in bin b and its value is c.
     T.contrib / T.feedB parts s batches / T.cnt T.csum T.cxx T.template / T.comp parts S s = (templates, pooled covariance)
                      template building; T.sel m parts r g = the template row used for candidate g on matching trace r;
     attack_scores pinv m parts S G bb mb
                      .scores of Template(DPA)Attack after build() on the batches bb and run() on the batches mb, for ANY
                      function pinv standing for numpy.linalg.pinv.
     mi_values phi edges vals rows     the mutual information between binned samples and the classes given as a list of VALUES.
     auto_classes mx mn / auto_classes_tab mx    the automatic class set (partitions=None) for a first batch with maximum mx and
                      minimum mn: from the rule read in the source / from the tabulation obtained by running _initialize
                      (Generated/ClassConsts.v, regenerated on every run). *)
From Coq Require Import ZArith QArith Qcanon List Bool Permutation.
From ScaredV Require Import Lib.QcSum Run.Compare Model.Accum Generated.ClassConsts Model.Classes Proofs.Classes.
From ScaredV Require Model.Partitioned Model.Template Model.Mia Proofs.Partitioned Proofs.Template Proofs.Mia.
Import ListNotations.
Local Open Scope Qc_scope.

(* ---------------------------------------------------------------------------------------------- permutations *)
(* listing the classes through a permutation of the positions gives a permutation of the class list (and every
   [is_permb]-accepted sigma, the executable test used by the correspondence check, is a permutation) *)
Theorem permuted_list_is_a_permutation :
  forall (A : Type) (d : A) (sigma : list nat) (l : list A), is_perm (length l) sigma -> Permutation (permute d sigma l) l.
Proof. exact @permute_Permutation. Qed.
Print Assumptions permuted_list_is_a_permutation.

Theorem is_permb_is_sound : forall n sigma, is_permb n sigma = true -> is_perm n sigma.
Proof. exact is_permb_sound. Qed.
Print Assumptions is_permb_is_sound.

(* ---------------------------------------------------------------------------------------------- contributes_to_own_class_only *)
(* a trace contributes to the class whose DECLARED VALUE equals its intermediate value — at the position where that value is
   declared — and to no class when the value is not declared; nothing is ever stored beyond the declared classes *)
Theorem contributes_to_own_class_only :
  (* ANOVA / NICV / SNR *)
  (forall parts (r : P.row), NoDup parts -> PP.all_in_range parts ->
     (forall k c, nth_error parts k = Some c ->
        nth k (P.contrib parts r) P.t0 = if Z.eqb (fst r) c then (1, snd r, snd r * snd r) else P.t0)
     /\ (forall k, (length parts <= k)%nat -> nth k (P.contrib parts r) P.t0 = P.t0)
     /\ (~ In (fst r) parts -> P.contrib parts r = P.st_zero))
  (* MIA *)
  /\ (forall edges est parts (r : M.row), (2 <= length edges)%nat -> M.increasing edges -> NoDup parts ->
     (forall b k c, nth_error parts k = Some c ->
        M.get (M.contrib edges est parts r) b k = if vhits edges b c r then 1%Z else 0%Z)
     /\ (forall b k, (length parts <= k)%nat -> M.get (M.contrib edges est parts r) b k = 0%Z)
     /\ (~ In (snd r) parts -> M.contrib edges est parts r = M.st_zero))
  (* template building *)
  /\ (forall parts (r : T.brow), NoDup parts ->
     (forall k c, nth_error parts k = Some c ->
        T.cget (T.contrib parts r) k = if Z.eqb (fst r) c then T.mkc 1 (snd r) (T.outer (snd r) (snd r)) else T.czero)
     /\ (forall k, (length parts <= k)%nat -> T.cget (T.contrib parts r) k = T.czero)
     /\ (~ In (fst r) parts -> T.contrib parts r = T.st_zero))
  (* template matching: TemplateDPA compares candidate g with the template of the class declared with its hypothesis value (none
     when that value is not declared: outside the supported inputs); TemplateAttack compares candidate g with template g *)
  /\ (forall parts (r : T.mrowt) g, NoDup parts ->
     (forall k, T.sel T.Dpa parts r g = Some k <-> exists v, nth_error (fst r) g = Some v /\ nth_error parts k = Some v)
     /\ (forall v, nth_error (fst r) g = Some v -> ~ In v parts -> T.sel T.Dpa parts r g = None)
     /\ (forall k, T.sel T.Static parts r g = Some k <-> (k = g /\ (g < length parts)%nat))).
Proof. exact contributes_to_own_class_only_thm. Qed.
Print Assumptions contributes_to_own_class_only.

(* consequence for template building: the traces the code files under class k are exactly those whose value equals parts[k] *)
Theorem template_class_is_the_value_class :
  forall parts k (rows : list T.brow), NoDup parts -> T.class_rows parts k rows = vclass_rows parts k rows.
Proof. exact class_rows_by_value. Qed.
Print Assumptions template_class_is_the_value_class.

(* ... and for MIA: compute() is the mutual information over the declared VALUES (whatever their positions) *)
Theorem mia_is_mi_over_declared_values :
  forall phi edges est parts (batches : list (list M.row)), (2 <= length edges)%nat -> M.increasing edges -> NoDup parts ->
  M.comp phi (M.nbins edges) (length parts) (M.hist_feed edges est parts batches) = mi_values phi edges parts (concat batches).
Proof. exact mia_is_value_spec. Qed.
Print Assumptions mia_is_mi_over_declared_values.

(* the form of that specification which the correspondence check evaluates (totals computed once) is the specification *)
Theorem evaluated_mi_is_the_spec :
  forall phi edges vals rows, mi_values_fast phi edges vals rows = mi_values phi edges vals rows.
Proof. exact mi_values_fast_eq. Qed.
Print Assumptions evaluated_mi_is_the_spec.

(* ---------------------------------------------------------------------------------------------- undeclared_no_effect *)
(* traces carrying undeclared values have no effect at all: for EVERY sequence of update() batches the accumulators are those
   obtained from the declared traces only (hence so is everything computed from them) *)
Theorem undeclared_no_effect :
  (forall parts (batches : list (list P.row)),
     P.feed_batches parts batches = P.feed_batches parts (map (filter (fun r => declared parts (fst r))) batches))
  /\ (forall edges est parts (batches : list (list M.row)),
     M.hist_feed edges est parts batches = M.hist_feed edges est parts (map (filter (fun r => declared parts (snd r))) batches))
  /\ (forall parts (s : T.st) (batches : list (list T.brow)),
     T.feedB parts s batches = T.feedB parts s (map (filter (fun r => declared parts (fst r))) batches)).
Proof. exact undeclared_no_effect_thm. Qed.
Print Assumptions undeclared_no_effect.

(* ---------------------------------------------------------------------------------------------- permute_classes *)
(* for EVERY permutation sigma of the class list: per-class outputs (accumulators, templates, static template scores) are
   permuted by sigma; ANOVA / NICV / SNR / MIA results, the pooled covariance and template-DPA scores are EQUAL *)
Theorem permute_classes : forall (parts : list Z) (sigma : list nat),
  NoDup parts -> is_perm (length parts) sigma ->
  let parts' := permute 0%Z sigma parts in
  (PP.all_in_range parts -> forall (batches : list (list P.row)),
     P.classes (length parts') (P.feed_batches parts' batches) = permute P.t0 sigma (P.classes (length parts) (P.feed_batches parts batches))
     /\ forall m, P.run_entry m parts' batches = P.run_entry m parts batches)
  /\ (forall phi edges est (batches : list (list M.row)), (2 <= length edges)%nat -> M.increasing edges ->
     (forall b k i, nth_error sigma k = Some i ->
        M.get (M.hist_feed edges est parts' batches) b k = M.get (M.hist_feed edges est parts batches) b i)
     /\ M.comp phi (M.nbins edges) (length parts') (M.hist_feed edges est parts' batches)
        = M.comp phi (M.nbins edges) (length parts) (M.hist_feed edges est parts batches))
  /\ (forall S (bb : list (list T.brow)),
     let s := T.feedB parts T.st_zero bb in let s' := T.feedB parts' T.st_zero bb in
     (forall k i, nth_error sigma k = Some i ->
        T.cnt s' k = T.cnt s i /\ (forall j, T.csum s' k j = T.csum s i j) /\ (forall a b, T.cxx s' k a b = T.cxx s i a b)
        /\ (forall j, T.template s' k j = T.template s i j))
     /\ fst (T.comp parts' S s') = permute [] sigma (fst (T.comp parts S s))
     /\ snd (T.comp parts' S s') = snd (T.comp parts S s))
  /\ (forall pinv S bb mb,
     (forall k i, nth_error sigma k = Some i ->
        T.vget (attack_scores pinv T.Static parts' S (length parts) bb mb) k
        = T.vget (attack_scores pinv T.Static parts S (length parts) bb mb) i)
     /\ (forall G g, (g < G)%nat ->
        T.vget (attack_scores pinv T.Dpa parts' S G bb mb) g = T.vget (attack_scores pinv T.Dpa parts S G bb mb) g)).
Proof. exact permute_classes_thm. Qed.
Print Assumptions permute_classes.

(* the same for results, with the permutation given as a relation between the two lists *)
Theorem permuted_lists_give_equal_results :
  (forall m parts parts' (batches : list (list P.row)), NoDup parts -> PP.all_in_range parts -> Permutation parts parts' ->
     P.run_entry m parts' batches = P.run_entry m parts batches)
  /\ (forall phi edges est, (2 <= length edges)%nat -> M.increasing edges ->
      forall parts parts' (batches : list (list M.row)), NoDup parts -> Permutation parts parts' ->
      mia_result phi edges est parts' batches = mia_result phi edges est parts batches).
Proof. exact (conj part_permute_classes mia_permute_classes). Qed.
Print Assumptions permuted_lists_give_equal_results.

(* ---------------------------------------------------------------------------------------------- unused_superset_invariant *)
(* declaring extra values that no trace carries — anywhere in the list, in any order — leaves ANOVA/NICV/SNR/MIA unchanged *)
Theorem unused_superset_invariant : forall (parts parts' : list Z),
  NoDup parts -> NoDup parts' -> incl parts parts' ->
  (PP.all_in_range parts -> PP.all_in_range parts' -> forall m (batches : list (list P.row)),
     (forall c, In c parts' -> ~ In c parts -> forall r, In r (concat batches) -> fst r <> c) ->
     P.run_entry m parts' batches = P.run_entry m parts batches)
  /\ (forall phi edges est (batches : list (list M.row)), (2 <= length edges)%nat -> M.increasing edges ->
     (forall c, In c parts' -> ~ In c parts -> forall r, In r (concat batches) -> snd r <> c) ->
     M.comp phi (M.nbins edges) (length parts') (M.hist_feed edges est parts' batches)
     = M.comp phi (M.nbins edges) (length parts) (M.hist_feed edges est parts batches)).
Proof. exact unused_superset_invariant_thm. Qed.
Print Assumptions unused_superset_invariant.

(* both at once, in the strongest form: the results are functions of the SET of declared values that some trace carries *)
Theorem results_depend_only_on_used_declared_values :
  (forall m parts parts' (batches : list (list P.row)),
     NoDup parts -> NoDup parts' -> PP.all_in_range parts -> PP.all_in_range parts' ->
     (forall c, used (concat batches) c = true -> (In c parts <-> In c parts')) ->
     P.run_entry m parts batches = P.run_entry m parts' batches)
  /\ (forall phi edges est, (2 <= length edges)%nat -> M.increasing edges ->
      forall parts parts' (batches : list (list M.row)), NoDup parts -> NoDup parts' ->
      (forall c, vused edges (concat batches) c = true -> (In c parts <-> In c parts')) ->
      mia_result phi edges est parts batches = mia_result phi edges est parts' batches).
Proof. exact (conj part_result_depends_on_used_values mia_result_depends_on_used_values). Qed.
Print Assumptions results_depend_only_on_used_declared_values.

(* ---------------------------------------------------------------------------------------------- auto_contains_first_batch *)
(* partitions=None, over the GENERATED thresholds/operator and the tabulation of the real _initialize: a first batch with
   0 <= min and max <= 255 is accepted, the class set is the tabulated one (= the rule of the source), and it contains every
   value of the first batch (every v with min <= v <= max, the maximum included) *)
Theorem auto_contains_first_batch : forall mx : Z, (0 <= mx <= 255)%Z ->
  auto_classes mx 0 = Some (auto_classes_tab mx)
  /\ forall mn v, (0 <= mn)%Z -> (mn <= v <= mx)%Z ->
       auto_classes mx mn = Some (auto_classes_tab mx) /\ In v (auto_classes_tab mx).
Proof. exact auto_contains_first_batch_thm. Qed.
Print Assumptions auto_contains_first_batch.

(* the rule as found before commit 150a6f0 (`maxdata <= r`): an all-zero first batch gets NO class, maxima 9 and 64 are dropped *)
Example auto_refuted :
  auto_classes_as_found 0 = [] /\ ~ In 0%Z (auto_classes_as_found 0)
  /\ ~ In 9%Z (auto_classes_as_found 9) /\ ~ In 64%Z (auto_classes_as_found 64)
  /\ In 8%Z (auto_classes_as_found 9) /\ In 63%Z (auto_classes_as_found 64).
Proof. exact auto_refuted_thm. Qed.
Print Assumptions auto_refuted.

(* the literals of the hand-written models of C04 / C13 / C14 are those of the source (LUT size 2^17 filled with -1,
   thresholds [0;9;64;256] with `<`, kernel switch `> 9`), and C04's automatic class set is the tabulated one *)
Theorem generated_constants_agree :
  lut_size = P.lut_size /\ lut_fill = (-1)%Z /\ auto_ls = P.auto_ls /\ auto_break_op = CmpLt
  /\ kernel_switch_op = CmpGt /\ kernel_switch = 9%Z
  /\ (forall mx, (0 <= mx <= 255)%Z -> auto_classes_tab mx = zrange (P.auto_size mx)).
Proof. exact consts_agree_thm. Qed.
Print Assumptions generated_constants_agree.

(* ---------------------------------------------------------------------------------------------- non-vacuity *)
Definition ex_parts : list Z := [3; 1; 7; 200]%Z.                 (* unsorted, gaps, one class never taken *)
Definition ex_sigma : list nat := [2; 0; 3; 1]%nat.
Definition ex_batches : list (list P.row) :=
  [[(1, qz 1); (3, qz 3)]; [(7, qz 5); (1, qz 2); (7, qz 9); (5, qz 100)]]%Z.     (* 5 is not declared *)

Example hypotheses_met :
  NoDup ex_parts /\ PP.all_in_range ex_parts /\ is_perm (length ex_parts) ex_sigma
  /\ permute 0%Z ex_sigma ex_parts = [7; 3; 200; 1]%Z.
Proof.
  split; [repeat constructor; cbn; intuition discriminate|].
  split; [intros c Hc; cbn in Hc; destruct Hc as [<-|[<-|[<-|[<-|[]]]]]; reflexivity|].
  split; [apply is_permb_sound; reflexivity|reflexivity].
Qed.

(* class 7 (two traces: 5 and 9) is at position 2 in one declaration and at position 0 in the other; the results are the
   values the real code returns (63/17, 63/80, 65/17) under both *)
Example permuted_instance :
  let p' := permute 0%Z ex_sigma ex_parts in
  map (fun t => this (P.t_s t)) (P.classes 4 (P.feed_batches ex_parts ex_batches)) = [3; 3; 14; 0]%Q
  /\ map (fun t => this (P.t_s t)) (P.classes 4 (P.feed_batches p' ex_batches)) = [14; 3; 0; 3]%Q
  /\ map (fun m => option_map this (P.run_entry m ex_parts ex_batches)) [P.ANOVA; P.NICV; P.SNR] = [Some (63 # 17); Some (63 # 80); Some (65 # 17)]%Q
  /\ map (fun m => option_map this (P.run_entry m p' ex_batches)) [P.ANOVA; P.NICV; P.SNR] = [Some (63 # 17); Some (63 # 80); Some (65 # 17)]%Q.
Proof. vm_compute. repeat split; reflexivity. Qed.

(* the trace with the undeclared value 5 is dropped by the filter and changes nothing; a superset with unused values
   in another order gives the same SNR; declaring 5 as well does change it (the hypothesis "unused" is needed) *)
Example undeclared_and_superset_instance :
  map (filter (fun r : P.row => declared ex_parts (fst r))) ex_batches = [[(1, qz 1); (3, qz 3)]; [(7, qz 5); (1, qz 2); (7, qz 9)]]%Z
  /\ option_map this (P.run_entry P.SNR [9; 7; 50; 1; 0; 3; 200]%Z ex_batches) = Some (65 # 17)%Q
  /\ option_map this (P.run_entry P.SNR [9; 7; 50; 1; 5; 3; 200]%Z ex_batches) <> Some (65 # 17)%Q.
Proof.
  split; [reflexivity|]. split; [vm_compute; reflexivity|vm_compute; discriminate].
Qed.

(* MIA with bins [0,2) [2,4] and classes declared as [3;1] / [1;3] / [1;9;3]: the histogram columns swap, the result does not move;
   phi is x |-> x * x here (the theorems hold for every function) *)
Definition ex_edges : list Qc := [qz 0; qz 2; qz 4].
Definition ex_mrows : list (list M.row) := [[(qz 1, 3); (qz 3, 1); (qz 1, 3)]; [(qz 2, 1); (qz 0, 5); (qz 4, 3)]]%Z.
Example mia_instance :
  let h p := M.hist_feed ex_edges (fun _ => 7%nat) p ex_mrows in
  let res p := option_map this (M.comp (fun x => x * x) 2 (length p) (h p)) in
  (2 <= length ex_edges)%nat /\ M.edges_ok M.mia_tol ex_edges = true
  /\ map (fun b => M.get (h [3; 1]%Z) b 0) [0; 1]%nat = [2; 1]%Z /\ map (fun b => M.get (h [1; 3]%Z) b 1) [0; 1]%nat = [2; 1]%Z
  /\ map (fun b => M.get (h [3; 1]%Z) b 1) [0; 1]%nat = [0; 2]%Z
  /\ res [3; 1]%Z = res [1; 3]%Z /\ res [1; 9; 3]%Z = res [3; 1]%Z /\ res [3; 1]%Z <> None /\ res [3; 1]%Z <> res [3; 1; 5]%Z
  /\ option_map this (mi_values (fun x => x * x) ex_edges [1; 3]%Z (concat ex_mrows)) = res [3; 1]%Z.
Proof. cbv zeta. split; [cbn; repeat constructor|]. vm_compute. repeat split; try reflexivity; discriminate. Qed.

(* templates: classes declared [5;2;9;7] (C14's example: class 9 has the single trace [41,13,5], class 7 none, one trace with the
   undeclared value 3) against the same classes listed as [7;2;5;9]: template rows move with their class value; with the
   identity standing for pinv the static scores move the same way and the template-DPA scores stay *)
Definition q (z : Z) : Qc := Q2Qc (inject_Z z).
Definition v3 (a b c : Z) : T.vec := [q a; q b; q c].
Definition ext_parts : list Z := [5; 2; 9; 7]%Z.
Definition ext_sigma : list nat := [3; 1; 0; 2]%nat.
Definition ext_build : list (list T.brow) :=
  [ [(5, v3 1 2 3); (2, v3 10 0 4); (9, v3 41 13 5); (3, v3 99 99 99)];
    [(5, v3 3 2 7); (2, v3 12 2 0); (5, v3 5 8 2)] ]%Z.
Definition ext_pinv (C : T.mat) : T.mat := [[q 1; q 0; q 0]; [q 0; q 1; q 0]; [q 0; q 0; q 1]].
Definition ext_match : list (list T.mrowt) := [[([9; 5], v3 40 12 6)]; [([2; 9], v3 42 14 4); ([5; 5], v3 41 13 8)]]%Z.

Example template_instance :
  let p' := permute 0%Z ext_sigma ext_parts in
  let tm p := map (map this) (fst (T.comp p 3 (T.feedB p T.st_zero ext_build))) in
  let sc m p G := map this (attack_scores ext_pinv m p 3 G ext_build ext_match) in
  NoDup ext_parts /\ is_perm 4 ext_sigma /\ p' = [7; 2; 5; 9]%Z
  /\ tm ext_parts = [[3; 4; 4]; [11; 1; 2]; [41; 13; 5]; [0; 0; 0]]%Q
  /\ tm p' = [[0; 0; 0]; [11; 1; 2]; [3; 4; 4]; [41; 13; 5]]%Q
  /\ sc T.Static p' 4%nat = map (fun i => nth i (sc T.Static ext_parts 4%nat) 0%Q) ext_sigma
  /\ nth 2 (sc T.Static ext_parts 4%nat) 0%Q = (25 # 3)%Q
  /\ sc T.Dpa p' 2%nat = sc T.Dpa ext_parts 2%nat
  /\ sc T.Static ext_parts 4%nat <> sc T.Static p' 4%nat.
Proof.
  cbv zeta. split; [repeat constructor; cbn; intuition discriminate|]. split; [apply is_permb_sound; reflexivity|].
  vm_compute. repeat split; try reflexivity; discriminate.
Qed.

(* automatic class sets at and around every threshold, as tabulated from the real _initialize *)
Example auto_instances :
  map (fun mx => length (auto_classes_tab mx)) [0; 1; 8; 9; 10; 63; 64; 65; 254; 255]%Z = [9; 9; 9; 64; 64; 64; 256; 256; 256; 256]%nat
  /\ auto_classes 256 0 = None /\ auto_classes 3 (-1) = None /\ auto_classes 0 0 = Some [0; 1; 2; 3; 4; 5; 6; 7; 8]%Z
  /\ auto_ok [0; 0; 0]%Z (Some [0; 1; 2; 3; 4; 5; 6; 7; 8]%Z) = true
  /\ auto_ok [0; 0; 0]%Z (Some []) = false                                         (* the class set of the `<=` rule *)
  /\ auto_ok [9; 2]%Z (Some [0; 1; 2; 3; 4; 5; 6; 7; 8]%Z) = false.
Proof. vm_compute. repeat split; reflexivity. Qed.

(* the correspondence check accepts faithful observations under two orders and rejects an index-for-value confusion
   (the result the code would give if class 7 were filed under position 7: only classes 3 and 1 left, F = 9/1 ...) *)
Example check_discriminates :
  let mk o1 o2 c3 := {| cq_metric := P.ANOVA; cq_prec := F64;
                     cq_batches := [[([1], [1]); ([3], [3])]; [([5], [7]); ([2], [1]); ([9], [7]); ([100], [5])]]%Z;
                     cq_variants := [ {| pv_parts := Some [3; 1; 7; 200]%Z; pv_filtered := false; pv_exact := false;
                                         pv_obs_parts := [3; 1; 7; 200]%Z; pv_obs_counters := [[1; 2; 2; 0]]%Z;
                                         pv_obs_sums := [[[3; 3; 14; 0]]]%Z; pv_obs := Some [[o1]] |};
                                      {| pv_parts := Some [7; 3; 200; 1]%Z; pv_filtered := true; pv_exact := true;
                                         pv_obs_parts := [7; 3; 200; 1]%Z; pv_obs_counters := [[2; 1; 0; c3]]%Z;
                                         pv_obs_sums := []; pv_obs := Some [[o2]] |} ] |} in
  cpart_check (mk (Fin 4172452595946195 (-50)) (Fin 4172452595946195 (-50)) 2%Z) = true
  /\ cpart_check (mk (Fin 4172452595946195 (-50)) (Fin 4172452595946197 (-50)) 2%Z) = false      (* one ulp away where bit-identity is due *)
  /\ cpart_check (mk (Fin 4172452595946195 (-50)) (Fin 9 0) 2%Z) = false
  /\ cpart_check (mk (Fin 4172452595946195 (-50)) NaN 2%Z) = false
  /\ cpart_check (mk (Fin 4172452595946195 (-50)) (Fin 4172452595946195 (-50)) 3%Z) = false.     (* the undeclared trace counted in the last class *)
Proof. vm_compute. repeat split; reflexivity. Qed.
