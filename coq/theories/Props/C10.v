(* Props/C10.v — property C10: key schedules conform and invert: AES from any window, DES from any round key.
   Only statements closed by [exact]; Print Assumptions beneath each.  Proofs are in Proofs/KeySchedule.v (AES),
   Proofs/KeyScheduleDes.v (DES key schedule) and Proofs/KeyScheduleMaster.v (get_master_key).

   Specs: Spec/Fips197.v (KeyExpansion, FIPS-197 5.2) and Spec/DesKeySpec.v (PC-1 / left shifts / PC-2, FIPS 46-3).
   Impl-models (Model/KeySchedule.v) in the shape of scared/aes/base.py and scared/des/base.py over the constants regenerated
   from the source on every run (SBOX, RCON, _cols_out, the RCON offset and AES-256 rule of each direction,
   ROUND_KEY_BITS_INDEXES, PC1, PC2, nb_shift, the unknown-bit mask).  A value None of a model = the call is refused. *)
From Coq Require Import NArith List Bool Arith.
From ScaredV Require Import Generated.KeySchedTables Spec.Fips197 Spec.DesKeySpec Run.Compare
  Model.KeySchedule Proofs.KeySchedule Proofs.KeyScheduleDes Proofs.KeyScheduleMaster.
Import ListNotations.
Local Open Scope nat_scope.

(* ================================================================== AES *)
(* key_expansion(key) and key_schedule(key) are FIPS-197 KeyExpansion, for the three key sizes and ALL keys *)
Theorem aes_expansion_is_fips : forall Nk key, Nk = 4 \/ Nk = 6 \/ Nk = 8 -> wf_aes_key Nk key ->
  key_expansion_m key 0 None = Some (concat (KeyExpansion Nk key))
  /\ key_schedule_m key = Some (round_keys Nk key).
Proof. exact aes_expansion_is_fips_lemma. Qed.
Print Assumptions aes_expansion_is_fips.

(* forward from ANY window of Nk consecutive true columns: exactly columns col_in .. col_out - 1 of the true schedule
   (cols W a b = columns a .. b-1 of W) *)
Theorem expand_forward_window : forall Nk key col_in col_out, Nk = 4 \/ Nk = 6 \/ Nk = 8 -> wf_aes_key Nk key ->
  col_in + Nk <= total_words Nk -> col_out <= total_words Nk -> col_in < col_out ->
  key_expansion_m (concat (cols (KeyExpansion Nk key) col_in (col_in + Nk))) col_in (Some col_out)
  = Some (concat (cols (KeyExpansion Nk key) col_in col_out)).
Proof. exact expand_forward_window_thm. Qed.
Print Assumptions expand_forward_window.

(* backward (col_out <= col_in) from ANY window: exactly columns col_out .. col_in + Nk - 1 of the true schedule *)
Theorem expand_backward_window : forall Nk key col_in col_out, Nk = 4 \/ Nk = 6 \/ Nk = 8 -> wf_aes_key Nk key ->
  col_in + Nk <= total_words Nk -> col_out <= col_in ->
  key_expansion_m (concat (cols (KeyExpansion Nk key) col_in (col_in + Nk))) col_in (Some col_out)
  = Some (concat (cols (KeyExpansion Nk key) col_out (col_in + Nk))).
Proof. exact expand_backward_window_thm. Qed.
Print Assumptions expand_backward_window.

(* col_out omitted: forward to the end of the schedule *)
Theorem expand_default_window : forall Nk key col_in, Nk = 4 \/ Nk = 6 \/ Nk = 8 -> wf_aes_key Nk key ->
  col_in + Nk <= total_words Nk ->
  key_expansion_m (concat (cols (KeyExpansion Nk key) col_in (col_in + Nk))) col_in None
  = Some (concat (cols (KeyExpansion Nk key) col_in (total_words Nk))).
Proof. exact expand_default_window_thm. Qed.
Print Assumptions expand_default_window.

(* hence the master key is recovered from any round position: backward to column 0, first 4 Nk bytes *)
Theorem aes_master_from_any_window : forall Nk key col_in, Nk = 4 \/ Nk = 6 \/ Nk = 8 -> wf_aes_key Nk key ->
  col_in + Nk <= total_words Nk ->
  exists e, key_expansion_m (concat (cols (KeyExpansion Nk key) col_in (col_in + Nk))) col_in (Some 0) = Some e
            /\ firstn (4 * Nk) e = key.
Proof. exact master_from_window. Qed.
Print Assumptions aes_master_from_any_window.

(* inv_key_schedule (AES-128): from round key number round_in, every round_in <= 10 (and round_in omitted = 10), the
   whole schedule of the master key *)
Theorem inv_key_schedule_128 : forall key round_in, wf_aes_key 4 key -> round_in <= 10 ->
  inv_key_schedule_m (nth round_in (round_keys 4 key) []) (Some round_in) = Some (round_keys 4 key)
  /\ inv_key_schedule_m (nth 10 (round_keys 4 key) []) None = Some (round_keys 4 key).
Proof.
  intros key r Hk Hr. split; apply inv_key_schedule_any; auto.
Qed.
Print Assumptions inv_key_schedule_128.

(* ================================================================== DES key schedule *)
(* The generated 16 x 8 x 6 index table (0-based bit numbers) is PC-2 . rot^shifts . PC-1, position by position:
   [des_source_bits] is the FIPS 46-3 schedule run on the bit numbers 1 .. 64 themselves. *)
Theorem des_index_table_is_pc : forall r w j, r < 16 -> w < 8 -> j < 6 ->
  S (nth j (nth w (nth r DES_RKBI []) []) 0) = nth (6 * w + j) (nth r des_source_bits []) 0.
Proof. exact des_index_table_pointwise. Qed.
Print Assumptions des_index_table_is_pc.

(* hence des.key_schedule = K_1 .. K_16 of FIPS 46-3 for ALL keys, and with interrupt_after_round = l its first l + 1 *)
Theorem des_ks_is_fips : forall key, wf_des_key key ->
  des_ks_m key None = Some (des_ks_spec key)
  /\ forall l, l <= 15 -> des_ks_m key (Some l) = Some (firstn (S l) (des_ks_spec key)).
Proof.
  intros key Hk. split.
  - rewrite (des_ks_any_round key 15 None Hk) by auto.
    rewrite <- (des_ks_spec_length key). rewrite firstn_all. reflexivity.
  - intros l Hl. apply des_ks_any_round; auto.
Qed.
Print Assumptions des_ks_is_fips.

(* keys that differ only in the parity bits (the least significant bit of every byte) have the same schedule *)
Theorem des_ks_ignores_parity : forall k k', map (fun b => (b / 2)%N) k = map (fun b => (b / 2)%N) k' ->
  des_ks_spec k = des_ks_spec k'.
Proof. exact des_ks_ignores_parity_lemma. Qed.
Print Assumptions des_ks_ignores_parity.

(* ================================================================== DES: the master key from one round key *)
(* _find_possible_keys on round key r of ANY key: exactly 256 candidates, the parity-stripped key is one of them, and every
   candidate has the same round-r key (so nothing but a plaintext / ciphertext pair can tell them apart) *)
Theorem candidates_contain_key : forall key r, wf_des_key key -> r < 16 ->
  let rk := nth r (des_ks_spec key) [] in
  length (find_possible_keys rk r) = 256
  /\ In (strip_parity key) (find_possible_keys rk r)
  /\ forall c, In c (find_possible_keys rk r) -> nth r (des_ks_spec c) [] = rk.
Proof. exact candidates_contain_key_lemma. Qed.
Print Assumptions candidates_contain_key.

(* get_master_key, for ALL arguments and ALL encryption functions [encrypt pt key]: a key is returned iff it is the FIRST
   candidate that encrypts pt to ct; None is returned only when no candidate does *)
Theorem get_master_key_result : forall (encrypt : list N -> list N -> list N) rk r pt ct,
  (forall g, get_master_key_m encrypt rk r pt ct = GmkFound g ->
     exists l1 l2, find_possible_keys rk r = l1 ++ g :: l2 /\ encrypt pt g = ct /\ forall h, In h l1 -> encrypt pt h <> ct)
  /\ (get_master_key_m encrypt rk r pt ct = GmkNone -> forall h, In h (find_possible_keys rk r) -> encrypt pt h <> ct).
Proof. exact get_master_key_result_lemma. Qed.
Print Assumptions get_master_key_result.

(* From round key r of a key and a genuine pair (pt, ct = encrypt pt key), for every cipher that uses the key only through
   its key schedule (DES does: property C06): the call is never refused and never returns None; the key returned maps pt to
   ct and has the given round key; and it IS the original key with its parity bits cleared PROVIDED NO EARLIER CANDIDATE
   COLLIDES ON THIS BLOCK.  The proviso cannot be removed: a one-block test cannot exclude another candidate that happens to
   map pt to ct (probability about 2^-56 per call); it is the only difference from the wording of the property. *)
Theorem get_master_key_spec : forall (encrypt : list N -> list N -> list N) key pt r,
  wf_des_key key -> wf_des_block pt -> r < 16 ->
  (forall k k', des_ks_spec k = des_ks_spec k' -> encrypt pt k = encrypt pt k') ->
  wf_des_block (encrypt pt key) ->
  let rk := nth r (des_ks_spec key) [] in
  let ct := encrypt pt key in
  (exists g, get_master_key_m encrypt rk r pt ct = GmkFound g
             /\ encrypt pt g = ct /\ nth r (des_ks_spec g) [] = rk /\ In g (find_possible_keys rk r))
  /\ ((forall l1 l2, find_possible_keys rk r = l1 ++ strip_parity key :: l2 -> forall h, In h l1 -> encrypt pt h <> ct) ->
      get_master_key_m encrypt rk r pt ct = GmkFound (strip_parity key)).
Proof. exact get_master_key_spec_lemma. Qed.
Print Assumptions get_master_key_spec.

(* ================================================================== non-vacuity *)
(* FIPS-197 Appendix A.1 / A.2 / A.3: the model on the Appendix keys gives the printed words; from the window at columns
   20.. of the 256-bit schedule both directions give back the printed schedule *)
Example aes_appendix_A :
  let k1 := bytes_be 16 0x2b7e151628aed2a6abf7158809cf4f3c in
  let k2 := bytes_be 24 0x8e73b0f7da0e6452c810f32b809079e562f8ead2522c6b7b in
  let k3 := bytes_be 32 0x603deb1015ca71be2b73aef0857d77811f352c073b6108d72d9810a30914dff4 in
  wf_aes_key 4 k1 /\ wf_aes_key 6 k2 /\ wf_aes_key 8 k3
  /\ option_map (fun e => firstn 4 (skipn (4 * 43) e)) (key_expansion_m k1 0 None) = Some (bytes_be 4 0xb6630ca6)
  /\ option_map (fun e => firstn 4 (skipn (4 * 51) e)) (key_expansion_m k2 0 None) = Some (bytes_be 4 0x01002202)
  /\ option_map (fun e => firstn 4 (skipn (4 * 59) e)) (key_expansion_m k3 0 None) = Some (bytes_be 4 0x706c631e)
  /\ option_map (fun e => firstn 4 (skipn (4 * 12) e))
       (key_expansion_m (concat (cols (KeyExpansion 8 k3) 20 28)) 20 (Some 0)) = Some (bytes_be 4 0xa8b09c1a)
  /\ option_map (fun e => firstn 4 (skipn (4 * (59 - 20)) e))
       (key_expansion_m (concat (cols (KeyExpansion 8 k3) 20 28)) 20 (Some 60)) = Some (bytes_be 4 0x706c631e)
  /\ inv_key_schedule_m (bytes_be 16 0xd014f9a8c9ee2589e13f0cc8b6630ca6) (Some 10) = Some (round_keys 4 k1).
Proof.
  cbv zeta.
  repeat match goal with
         | |- wf_aes_key _ _ /\ _ => split; [apply wf_aes_key_dec; vm_compute; reflexivity|]
         | |- _ = _ /\ _ => split; [vm_compute; reflexivity|]
         end.
  vm_compute; reflexivity.
Qed.

(* a DES known key schedule (key 133457799BBCDFF1, K_1 and K_16) through the model *)
Example des_known_schedule :
  let k := bytes_of 8 0x133457799BBCDFF1 in
  wf_des_key k
  /\ option_map (fun ks => nth 0 ks []) (des_ks_m k None)
     = Some (map (bin 6) [000110; 110000; 001011; 101111; 111111; 000111; 000001; 110010]%N)
  /\ option_map (fun ks => nth 15 ks []) (des_ks_m k None)
     = Some (map (bin 6) [110010; 110011; 110110; 001011; 000011; 100001; 011111; 110101]%N)
  /\ des_ks_m k (Some 0) = option_map (firstn 1) (des_ks_m k None).
Proof.
  cbv zeta. split; [apply wf_des_key_dec; vm_compute; reflexivity|].
  repeat match goal with |- _ = _ /\ _ => split; [vm_compute; reflexivity|] end.
  vm_compute; reflexivity.
Qed.

(* get_master_key on a concrete instance: key 133457799BBCDFF1, round 3, a toy cipher that XORs the block with all sixteen
   round keys (it uses the key only through its schedule and produces blocks, as the theorem asks): the result is the key
   without its parity bits, 123456789ABCDEF0, which is candidate number 232 of the 256.
   With a weaker toy cipher that uses K_1 only, an EARLIER candidate (163456789ABCDEF0, same K_1 and same K_4) collides and
   is returned instead: the proviso of get_master_key_spec is needed. *)
Example get_master_key_example :
  let key := bytes_of 8 0x133457799BBCDFF1 in
  let pt := bytes_of 8 0x0123456789ABCDEF in
  let xor := fun (a b : list N) => map (fun x => N.lxor (fst x) (snd x)) (combine a b) in
  let toy := fun (p k : list N) => fold_left xor (des_ks_spec k) p in
  let weak := fun (p k : list N) => xor p (nth 0 (des_ks_spec k) []) in
  let rk := nth 3 (des_ks_spec key) [] in
  wf_des_key key /\ wf_des_block pt /\ wf_des_block (toy pt key) /\ wf_des_block (weak pt key)
  /\ length (find_possible_keys rk 3) = 256
  /\ nth 232 (find_possible_keys rk 3) [] = bytes_of 8 0x123456789ABCDEF0
  /\ strip_parity key = bytes_of 8 0x123456789ABCDEF0
  /\ get_master_key_m toy rk 3 pt (toy pt key) = GmkFound (bytes_of 8 0x123456789ABCDEF0)
  /\ get_master_key_m toy rk 3 pt (bytes_of 8 0) = GmkNone
  /\ get_master_key_m weak rk 3 pt (weak pt key) = GmkFound (bytes_of 8 0x163456789ABCDEF0).
Proof.
  cbv zeta.
  do 4 (split; [apply wf_des_key_dec; vm_compute; reflexivity|]).
  repeat match goal with |- _ = _ /\ _ => split; [vm_compute; reflexivity|] end.
  vm_compute; reflexivity.
Qed.
