(* Props/C10.v — property C10: key schedules conform and invert: AES from any window, DES from any round key.
   Only statements closed by [exact]; Print Assumptions beneath each.  Proofs are in Proofs/KeySchedule.v (AES),
   Proofs/KeyScheduleDes.v (DES key schedule) and Proofs/KeyScheduleMaster.v (get_master_key).

   Specs: Spec/Fips197.v (KeyExpansion, FIPS-197 5.2) and Spec/DesKeySpec.v (PC-1 / left shifts / PC-2, FIPS 46-3).
   Impl-models (Model/KeySchedule.v) in the shape of scared/aes/base.py and scared/des/base.py over the constants regenerated
   from the source on every run (SBOX, RCON, _cols_out, the RCON offset and AES-256 rule of each direction,
   ROUND_KEY_BITS_INDEXES, PC1, PC2, nb_shift, the unknown-bit mask).  A value None of a model = the call is refused. *)
From Coq Require Import NArith List Bool Arith.
From ScaredV Require Import Generated.KeySchedTables Spec.Fips197 Spec.DesKeySpec Run.Compare
  Model.KeySchedule Proofs.KeySchedule Proofs.KeyScheduleDes.
Import ListNotations.
Local Open Scope nat_scope.

(* ================================================================== AES *)
(* key_expansion(key) and key_schedule(key) are FIPS-197 KeyExpansion, for the three key sizes and ALL keys *)
Theorem aes_expansion_is_fips : forall Nk key, Nk = 4 \/ Nk = 6 \/ Nk = 8 -> wf_aes_key Nk key ->
  key_expansion_m key 0 None = Some (concat (KeyExpansion Nk key))
  /\ key_schedule_m key = Some (round_keys Nk key).
Proof. exact aes_expansion_is_fips_lemma. Qed.
Print Assumptions aes_expansion_is_fips.

(* forward from ANY window of Nk consecutive true columns: exactly columns col_in .. col_out - 1 of the true schedule
   (cols W a b = columns a .. b-1 of W) *)
Theorem expand_forward_window : forall Nk key col_in col_out, Nk = 4 \/ Nk = 6 \/ Nk = 8 -> wf_aes_key Nk key ->
  col_in + Nk <= total_words Nk -> col_out <= total_words Nk -> col_in < col_out ->
  key_expansion_m (concat (cols (KeyExpansion Nk key) col_in (col_in + Nk))) col_in (Some col_out)
  = Some (concat (cols (KeyExpansion Nk key) col_in col_out)).
Proof. exact expand_forward_window_thm. Qed.
Print Assumptions expand_forward_window.

(* backward (col_out <= col_in) from ANY window: exactly columns col_out .. col_in + Nk - 1 of the true schedule *)
Theorem expand_backward_window : forall Nk key col_in col_out, Nk = 4 \/ Nk = 6 \/ Nk = 8 -> wf_aes_key Nk key ->
  col_in + Nk <= total_words Nk -> col_out <= col_in ->
  key_expansion_m (concat (cols (KeyExpansion Nk key) col_in (col_in + Nk))) col_in (Some col_out)
  = Some (concat (cols (KeyExpansion Nk key) col_out (col_in + Nk))).
Proof. exact expand_backward_window_thm. Qed.
Print Assumptions expand_backward_window.

(* col_out omitted: forward to the end of the schedule *)
Theorem expand_default_window : forall Nk key col_in, Nk = 4 \/ Nk = 6 \/ Nk = 8 -> wf_aes_key Nk key ->
  col_in + Nk <= total_words Nk ->
  key_expansion_m (concat (cols (KeyExpansion Nk key) col_in (col_in + Nk))) col_in None
  = Some (concat (cols (KeyExpansion Nk key) col_in (total_words Nk))).
Proof. exact expand_default_window_thm. Qed.
Print Assumptions expand_default_window.

(* hence the master key is recovered from any round position: backward to column 0, first 4 Nk bytes *)
Theorem aes_master_from_any_window : forall Nk key col_in, Nk = 4 \/ Nk = 6 \/ Nk = 8 -> wf_aes_key Nk key ->
  col_in + Nk <= total_words Nk ->
  exists e, key_expansion_m (concat (cols (KeyExpansion Nk key) col_in (col_in + Nk))) col_in (Some 0) = Some e
            /\ firstn (4 * Nk) e = key.
Proof. exact master_from_window. Qed.
Print Assumptions aes_master_from_any_window.

(* inv_key_schedule (AES-128): from round key number round_in, every round_in <= 10 (and round_in omitted = 10), the
   whole schedule of the master key *)
Theorem inv_key_schedule_128 : forall key round_in, wf_aes_key 4 key -> round_in <= 10 ->
  inv_key_schedule_m (nth round_in (round_keys 4 key) []) (Some round_in) = Some (round_keys 4 key)
  /\ inv_key_schedule_m (nth 10 (round_keys 4 key) []) None = Some (round_keys 4 key).
Proof.
  intros key r Hk Hr. split; apply inv_key_schedule_any; auto.
Qed.
Print Assumptions inv_key_schedule_128.

(* ================================================================== DES key schedule *)
(* The generated 16 x 8 x 6 index table (0-based bit numbers) is PC-2 . rot^shifts . PC-1, position by position:
   [des_source_bits] is the FIPS 46-3 schedule run on the bit numbers 1 .. 64 themselves. *)
Theorem des_index_table_is_pc : forall r w j, r < 16 -> w < 8 -> j < 6 ->
  S (nth j (nth w (nth r DES_RKBI []) []) 0) = nth (6 * w + j) (nth r des_source_bits []) 0.
Proof. exact des_index_table_pointwise. Qed.
Print Assumptions des_index_table_is_pc.

(* hence des.key_schedule = K_1 .. K_16 of FIPS 46-3 for ALL keys, and with interrupt_after_round = l its first l + 1 *)
Theorem des_ks_is_fips : forall key, wf_des_key key ->
  des_ks_m key None = Some (des_ks_spec key)
  /\ forall l, l <= 15 -> des_ks_m key (Some l) = Some (firstn (S l) (des_ks_spec key)).
Proof.
  intros key Hk. split.
  - rewrite (des_ks_any_round key 15 None Hk) by auto.
    rewrite <- (des_ks_spec_length key). rewrite firstn_all. reflexivity.
  - intros l Hl. apply des_ks_any_round; auto.
Qed.
Print Assumptions des_ks_is_fips.

(* keys that differ only in the parity bits (the least significant bit of every byte) have the same schedule *)
Theorem des_ks_ignores_parity : forall k k', map (fun b => (b / 2)%N) k = map (fun b => (b / 2)%N) k' ->
  des_ks_spec k = des_ks_spec k'.
Proof. exact des_ks_ignores_parity_lemma. Qed.
Print Assumptions des_ks_ignores_parity.

(* ================================================================== non-vacuity *)
(* FIPS-197 Appendix A.1 / A.2 / A.3: the model on the Appendix keys gives the printed words; from the window at columns
   20.. of the 256-bit schedule both directions give back the printed schedule *)
Example aes_appendix_A :
  let k1 := bytes_be 16 0x2b7e151628aed2a6abf7158809cf4f3c in
  let k2 := bytes_be 24 0x8e73b0f7da0e6452c810f32b809079e562f8ead2522c6b7b in
  let k3 := bytes_be 32 0x603deb1015ca71be2b73aef0857d77811f352c073b6108d72d9810a30914dff4 in
  wf_aes_key 4 k1 /\ wf_aes_key 6 k2 /\ wf_aes_key 8 k3
  /\ option_map (fun e => firstn 4 (skipn (4 * 43) e)) (key_expansion_m k1 0 None) = Some (bytes_be 4 0xb6630ca6)
  /\ option_map (fun e => firstn 4 (skipn (4 * 51) e)) (key_expansion_m k2 0 None) = Some (bytes_be 4 0x01002202)
  /\ option_map (fun e => firstn 4 (skipn (4 * 59) e)) (key_expansion_m k3 0 None) = Some (bytes_be 4 0x706c631e)
  /\ option_map (fun e => firstn 4 (skipn (4 * 12) e))
       (key_expansion_m (concat (cols (KeyExpansion 8 k3) 20 28)) 20 (Some 0)) = Some (bytes_be 4 0xa8b09c1a)
  /\ option_map (fun e => firstn 4 (skipn (4 * (59 - 20)) e))
       (key_expansion_m (concat (cols (KeyExpansion 8 k3) 20 28)) 20 (Some 60)) = Some (bytes_be 4 0x706c631e)
  /\ inv_key_schedule_m (bytes_be 16 0xd014f9a8c9ee2589e13f0cc8b6630ca6) (Some 10) = Some (round_keys 4 k1).
Proof.
  cbv zeta.
  repeat match goal with
         | |- wf_aes_key _ _ /\ _ => split; [apply wf_aes_key_dec; vm_compute; reflexivity|]
         | |- _ = _ /\ _ => split; [vm_compute; reflexivity|]
         end.
  vm_compute; reflexivity.
Qed.

(* a DES known key schedule (key 133457799BBCDFF1, K_1 and K_16) through the model *)
Example des_known_schedule :
  let k := bytes_of 8 0x133457799BBCDFF1 in
  wf_des_key k
  /\ option_map (fun ks => nth 0 ks []) (des_ks_m k None)
     = Some (map (bin 6) [000110; 110000; 001011; 101111; 111111; 000111; 000001; 110010]%N)
  /\ option_map (fun ks => nth 15 ks []) (des_ks_m k None)
     = Some (map (bin 6) [110010; 110011; 110110; 001011; 000011; 100001; 011111; 110101]%N)
  /\ des_ks_m k (Some 0) = option_map (firstn 1) (des_ks_m k None).
Proof.
  cbv zeta. split; [apply wf_des_key_dec; vm_compute; reflexivity|].
  repeat match goal with |- _ = _ /\ _ => split; [vm_compute; reflexivity|] end.
  vm_compute; reflexivity.
Qed.
