(* Props/C09.v — property C09: the t-test equals the Welch statistic whatever the batching and thread timing.
   Only statements closed by [exact]; Print Assumptions beneath each.  Proofs are in Proofs/Ttest.v and
   Lib/Interleave.v; definitions in Model/Ttest.v.

   Reading guide (everything is per sample: the analysis treats every sample independently, theorem
   kernel_writes_disjoint_cells below).
     st = (n, sum x, sum x^2)        one accumulator;  t_upd s rows = update(batch);  t_feed s batches = successive updates
     welch = option (num, den)       stands for num / sqrt den;  None = undefined
     welch_code s1 s2                the code's formula:  m = sum/n,  v = sumsq/n - m^2,  (m1 - m2, v1/n1 + v2/n2)
     welch_def l1 l2                 the definition on the values:  means, POPULATION variances  sum (x - m)^2 / n
     tstep = Batch rows | Fail       one iteration of an accumulator thread: a batch is accumulated, or fetching it raises
     sched = list (tid * tstep)      a schedule: the steps of thread T1 and of thread T2 in the order they happen
     merge l1 l2 l                   l is an interleaving of l1 and l2 (each keeps its own order)
     tt_run a l k                    TTestAnalysis.run() on an object in state a under schedule l; k = number of steps thread 2
                                     still performs after thread 1 failed, before it sees the stop flag (timing dependent);
                                     Done a' (returned) | Raised a' (an exception reached the caller)
     tt_runs a [(l1,k1); ...]        successive run() calls on one object
   The schedule theorems hold for EVERY interleaving of the modelled steps; real preemption inside a step, the GIL
   and the OpenMP runtime are not modelled (they are sampled by the correspondence check). *)
From Coq Require Import ZArith QArith Qcanon List Bool Permutation.
From ScaredV Require Import Lib.QcSum Lib.Interleave Model.Accum Run.Compare Model.Ttest Proofs.Ttest.
Import ListNotations.

(* ---------------------------------------------------------------- the accumulator is a monoid (interface for C01) *)
Theorem accumulator_monoid :
  (forall a b c, st_plus a (st_plus b c) = st_plus (st_plus a b) c)
  /\ (forall a, st_plus a st_zero = a) /\ (forall a, st_plus st_zero a = a).
Proof. exact (conj st_plus_assoc (conj st_plus_zero_r st_plus_zero_l)). Qed.
Print Assumptions accumulator_monoid.

(* ---------------------------------------------------------------- welch_identity *)
(* For ALL lists of values: the code's formula on the accumulated sums is the definition with population variances
   (both sides None when a set is empty or the denominator is 0). *)
Theorem welch_identity : forall l1 l2 : list Qc,
  welch_code (t_upd st_zero l1) (t_upd st_zero l2) = welch_def l1 l2.
Proof. exact welch_identity_thm. Qed.
Print Assumptions welch_identity.

(* the variance the code forms is the population variance *)
Theorem code_variance_is_population_variance : forall l : list Qc, l <> [] ->
  (qsum (map sq l) / qlen l - qmean l * qmean l = ssd l / qlen l)%Qc.
Proof. exact var_code_is_pvar. Qed.
Print Assumptions code_variance_is_population_variance.

(* undefined exactly when a set is empty or both sets are constant; the denominator is never negative *)
Theorem welch_undefined_iff_degenerate : forall l1 l2 : list Qc,
  welch_def l1 l2 = None <->
  l1 = [] \/ l2 = [] \/ ((forall x, In x l1 -> x = qmean l1) /\ (forall x, In x l2 -> x = qmean l2)).
Proof. exact welch_undefined_iff. Qed.
Print Assumptions welch_undefined_iff_degenerate.

Theorem welch_denominator_nonneg : forall l1 l2 : list Qc, l1 <> [] -> l2 <> [] -> (0 <= wden l1 l2)%Qc.
Proof. exact welch_den_nonneg. Qed.
Print Assumptions welch_denominator_nonneg.

(* what the correspondence check evaluates as "the definition" is the definition *)
Theorem checked_definition_is_the_definition : forall l1 l2, welch_def_c l1 l2 = welch_def l1 l2.
Proof. exact welch_def_c_eq. Qed.
Print Assumptions checked_definition_is_the_definition.

(* ---------------------------------------------------------------- interleaving_irrelevant *)
(* For EVERY interleaving l of the batches of the two threads (no failure), from any object state a and any stop
   delay k: the final pair of accumulator states is (feed A, feed B), no failure flag is set, and run() gives the
   same outcome as under any other interleaving l' (and delay k'). *)
Theorem interleaving_irrelevant : forall (a : tt_analysis) (bs1 bs2 : list (list Qc)) (l : sched Qc) (k : nat),
  merge (tag T1 (map Batch bs1)) (tag T2 (map Batch bs2)) l ->
  tt_threads k (sums (a1 a)) (sums (a2 a)) l
    = {| p1 := t_feed (sums (a1 a)) bs1; p2 := t_feed (sums (a2 a)) bs2; f1 := false; f2 := false; fuel2 := None |}
  /\ forall l' k', merge (tag T1 (map Batch bs1)) (tag T2 (map Batch bs2)) l' -> tt_run a l k = tt_run a l' k'.
Proof. exact tt_interleaving_irrelevant_thm. Qed.
Print Assumptions interleaving_irrelevant.

(* the general lemma behind it (Lib/Interleave.v): steps that commute across two lists can be interleaved at will *)
Theorem commuting_steps_interleave : forall (S T : Type) (step : S -> T -> S) (l1 l2 l : list T),
  merge l1 l2 l ->
  (forall a b, In a l1 -> In b l2 -> forall s, step (step s a) b = step (step s b) a) ->
  forall s, exec step s l = exec step s (l1 ++ l2).
Proof. exact merge_exec_eq. Qed.
Print Assumptions commuting_steps_interleave.

(* ... and steps with disjoint footprints commute: state = function from cells to values, a step writes only inside its
   footprint and what it writes depends only on what is inside (pointwise equality of the resulting states) *)
Theorem disjoint_footprints_commute :
  forall (K V T : Type) (step : (K -> V) -> T -> (K -> V)) (fp : T -> K -> bool),
  (forall t s k, fp t k = false -> step s t k = s k) ->
  (forall t s s', (forall k, fp t k = true -> s k = s' k) -> forall k, fp t k = true -> step s t k = step s' t k) ->
  forall a b, (forall k, fp a k = true -> fp b k = true -> False) ->
  forall s k, step (step s a) b k = step (step s b) a k.
Proof. exact disjoint_commute. Qed.
Print Assumptions disjoint_footprints_commute.

(* ---------------------------------------------------------------- batching_irrelevant *)
(* Two ways of cutting the same two sets into batches (any batch sizes, tail batches of one trace, empty batches),
   under any two interleavings: same outcome, same object state (sums, mean/var, result). *)
Theorem batching_irrelevant : forall (a : tt_analysis) (bs1 bs2 bs1' bs2' : list (list Qc)) (l l' : sched Qc) (k k' : nat),
  concat bs1 = concat bs1' -> concat bs2 = concat bs2' ->
  merge (tag T1 (map Batch bs1)) (tag T2 (map Batch bs2)) l ->
  merge (tag T1 (map Batch bs1')) (tag T2 (map Batch bs2')) l' ->
  tt_run a l k = tt_run a l' k'.
Proof. exact tt_batching_irrelevant_thm. Qed.
Print Assumptions batching_irrelevant.

(* ---------------------------------------------------------------- runs_concat *)
(* Successive successful run() calls (each with its own batching and interleaving) leave the object exactly as ONE run
   on the concatenated sets would, under any interleaving of the concatenated batch lists. *)
Theorem runs_concat : forall (rs : list (runspec Qc)) (a a' : tt_analysis),
  rs <> [] -> Forall rs_wf rs ->
  tt_runs a (rs_calls rs) = Done a' ->
  forall l k, merge (tag T1 (map Batch (concat (map rs_b1 rs)))) (tag T2 (map Batch (concat (map rs_b2 rs)))) l ->
  tt_run a l k = Done a'.
Proof. exact tt_runs_concat_thm. Qed.
Print Assumptions runs_concat.

(* From a fresh object: when every call brings at least one trace to each set, every call returns, and the stored
   result is the Welch statistic (definition) of ALL the traces of set 1 against ALL the traces of set 2. *)
Theorem runs_result_is_welch : forall rs : list (runspec Qc),
  rs <> [] -> Forall rs_wf rs ->
  Forall (fun r => concat (rs_b1 r) <> [] /\ concat (rs_b2 r) <> []) rs ->
  exists a', tt_runs tt_fresh (rs_calls rs) = Done a'
    /\ sums (a1 a') = t_upd st_zero (concat (concat (map rs_b1 rs)))
    /\ sums (a2 a') = t_upd st_zero (concat (concat (map rs_b2 rs)))
    /\ result a' = Some (welch_def (concat (concat (map rs_b1 rs))) (concat (concat (map rs_b2 rs)))).
Proof. exact tt_runs_are_welch. Qed.
Print Assumptions runs_result_is_welch.

(* ---------------------------------------------------------------- failure_is_raised *)
(* For EVERY interleaving of two step lists of which at least one contains a Fail, and every stop delay k: run() raises,
   .result is what it was before the call; the failing accumulator holds exactly the batches before its failure
   (the rejected batch is not counted), and when only thread 2 failed accumulator 1 is complete. *)
Theorem failure_is_raised : forall (a : tt_analysis) (s1 s2 : list (tstep Qc)) (l : sched Qc) (k : nat),
  merge (tag T1 s1) (tag T2 s2) l -> In Fail s1 \/ In Fail s2 ->
  exists a', tt_run a l k = Raised a' /\ result a' = result a
    /\ (In Fail s1 -> sums (a1 a') = t_feed (sums (a1 a)) (before_fail s1) /\ meanvar (a1 a') = meanvar (a1 a)
                      /\ meanvar (a2 a') = meanvar (a2 a))
    /\ (~ In Fail s1 -> sums (a1 a') = t_feed (sums (a1 a)) (before_fail s1)
                        /\ sums (a2 a') = t_feed (sums (a2 a)) (before_fail s2) /\ meanvar (a2 a') = meanvar (a2 a)).
Proof. exact tt_failure_is_raised_thm. Qed.
Print Assumptions failure_is_raised.

(* ---------------------------------------------------------------- sample_parallel_irrelevant *)
(* The kernel _update_core: iteration i of the prange rewrites cell i only.  Executing the iterations in ANY order
   (any permutation of 0..L-1) gives the sequential result ... *)
Theorem sample_parallel_irrelevant : forall (batch : list (list Qc)) (cells : list st) (order : list nat),
  Permutation order (seq 0 (length cells)) ->
  update_core order batch cells = update_core_seq batch cells.
Proof. exact sample_parallel_irrelevant_thm. Qed.
Print Assumptions sample_parallel_irrelevant.

(* ... in particular two workers with any shares of the iterations, each in its own order, interleaved in any way *)
Theorem sample_parallel_two_workers : forall (batch : list (list Qc)) (cells : list st) (o1 o2 o : list nat),
  merge o1 o2 o -> Permutation (o1 ++ o2) (seq 0 (length cells)) ->
  update_core o batch cells = update_core_seq batch cells.
Proof. exact sample_parallel_merge. Qed.
Print Assumptions sample_parallel_two_workers.

(* ... and sample j of the result is the per-sample update with column j of the batch: samples do not interact *)
Theorem kernel_writes_disjoint_cells : forall (batch : list (list Qc)) (cells : list st) (j : nat),
  (j < length cells)%nat ->
  nth j (update_core_seq batch cells) st_zero = t_upd (nth j cells st_zero) (bcolumn j batch).
Proof. exact kernel_is_per_sample_update. Qed.
Print Assumptions kernel_writes_disjoint_cells.

(* the generic form (Lib/Interleave.v), for C11: iterations on pairwise distinct cells, in any order *)
Theorem cell_iterations_any_order : forall (V : Type) (its its' : list (nat * (V -> V))),
  NoDup (map fst its) -> Permutation its its' -> forall s, exec cstep s its = exec cstep s its'.
Proof. exact cells_perm. Qed.
Print Assumptions cell_iterations_any_order.

(* ---------------------------------------------------------------- large trace counts (run-length encoded cases) *)
(* The large-n correspondence cases give each set as runs (row, repetitions).  The state the check computes on the runs
   (weighted sums) is the accumulation of the EXPANDED set, and the expected result it derives is the definition on
   the expanded columns. *)
Theorem run_length_state_is_the_expanded_state : forall (j : nat) (runs : list (list Z * positive)),
  wst j runs = t_upd st_zero (map (rl_val j) (expand runs)).
Proof. intros j runs. rewrite t_upd_zero. apply wst_is_expanded. Qed.
Print Assumptions run_length_state_is_the_expanded_state.

Theorem run_length_spec_is_the_spec : forall (j : nat) (r1 r2 : list (list Z * positive)),
  welch_code (wst j r1) (wst j r2) = welch_def (map (rl_val j) (expand r1)) (map (rl_val j) (expand r2)).
Proof. exact rl_spec_is_the_spec. Qed.
Print Assumptions run_length_spec_is_the_spec.

(* ================================================================ non-vacuity *)
Local Open Scope Z_scope.
Definition ql (l : list Z) : list Qc := map qz l.
Definition qll (l : list (list Z)) : list (list Qc) := map ql l.

(* welch_identity on a concrete pair of sets: means 3 and 4, population variances 7/2 and 4: (-1, 7/8 + 2) *)
Example welch_example :
  welch_eqb (welch_def (ql [1; 2; 3; 6]) (ql [2; 6])) (Some (Q2Qc (-1 # 1), Q2Qc (23 # 8))) = true
  /\ welch_eqb (welch_code (t_feed st_zero (qll [[1]; [2; 3]; [6]])) (t_feed st_zero (qll [[2; 6]])))
               (welch_def (ql [1; 2; 3; 6]) (ql [2; 6])) = true
  /\ welch_def (ql [5; 5; 5]) (ql [7; 7]) = None.
Proof. vm_compute. repeat split; reflexivity. Qed.

(* interleaving_irrelevant: ALL 10 interleavings of 3 batches of set 1 with 2 batches of set 2 give the same Done state,
   whose result is the definition on the whole sets *)
Example interleaving_example :
  let bs1 := qll [[1]; [2; 3]; [6]] in let bs2 := qll [[2]; [6]] in
  let ls := merges (tag T1 (map Batch bs1)) (tag T2 (map Batch bs2)) in
  length ls = 10%nat
  /\ forallb (fun l => outcome_eqb (tt_run tt_fresh l 0) (tt_run tt_fresh (tag T1 (map Batch bs1) ++ tag T2 (map Batch bs2)) 3)) ls = true
  /\ match tt_run tt_fresh (nth 4 ls []) 0 with
     | Done a' => welch_eqb' (result a') (Some (welch_def (ql [1; 2; 3; 6]) (ql [2; 6]))) && st_eqb (sums (a1 a')) (t_upd st_zero (ql [1; 2; 3; 6]))
     | Raised _ => false
     end = true.
Proof. vm_compute. repeat split; reflexivity. Qed.

(* failure_is_raised: after one good run (result stored), ALL interleavings of [Batch; Fail; Batch] with [Batch; Batch]
   (and of the symmetric case, and of both failing) and all stop delays 0..3 raise and leave the result as it was *)
Example failure_example :
  let good := tag T1 (map Batch (qll [[1; 2]; [3; 6]])) ++ tag T2 (map Batch (qll [[2; 6]])) in
  let s_fail := [Batch (ql [4]); Fail; Batch (ql [9])] in
  let s_ok := [Batch (ql [5]); Batch (ql [8])] in
  match tt_run tt_fresh good 0 with
  | Raised _ => False
  | Done a =>
      result a <> None
      /\ forallb (fun sp =>
           forallb (fun l =>
             forallb (fun k => match tt_run a l k with
                               | Raised a' => welch_eqb' (result a') (result a)
                               | Done _ => false
                               end) (seq 0 4))
             (merges (tag T1 (fst sp)) (tag T2 (snd sp))))
           [(s_fail, s_ok); (s_ok, s_fail); (s_fail, s_fail)] = true
      (* the failing accumulator holds the batch before the failure only; how far the other one got depends on k *)
      /\ match tt_run a (tag T1 s_fail ++ tag T2 s_ok) 1 with
         | Raised a' => st_eqb (sums (a1 a')) (t_upd (sums (a1 a)) (ql [4])) && st_eqb (sums (a2 a')) (t_upd (sums (a2 a)) (ql [5]))
         | Done _ => false
         end = true
  end.
Proof. vm_compute. split; [discriminate|split; reflexivity]. Qed.

(* runs_concat / runs_result_is_welch: two calls with different batchings and interleavings = one call on everything *)
Example runs_example :
  let r1 := {| rs_b1 := qll [[1]; [2; 3]]; rs_b2 := qll [[2; 6]];
               rs_sched := weave [true; false] (tag T1 (map Batch (qll [[1]; [2; 3]]))) (tag T2 (map Batch (qll [[2; 6]]))); rs_delay := 0 |} in
  let r2 := {| rs_b1 := qll [[6]]; rs_b2 := qll [[4]; [4]; [9]];
               rs_sched := weave [true; true; false] (tag T1 (map Batch (qll [[6]]))) (tag T2 (map Batch (qll [[4]; [4]; [9]]))); rs_delay := 2 |} in
  outcome_eqb (tt_runs tt_fresh (rs_calls [r1; r2]))
              (tt_run tt_fresh (tag T2 (map Batch (qll [[2; 6; 4; 4; 9]])) ++ tag T1 (map Batch (qll [[1; 2; 3; 6]]))) 0) = true
  /\ match tt_runs tt_fresh (rs_calls [r1; r2]) with
     | Done a' => welch_eqb' (result a') (Some (welch_def (ql [1; 2; 3; 6]) (ql [2; 6; 4; 4; 9])))
     | Raised _ => false
     end = true.
Proof. vm_compute. split; reflexivity. Qed.

Example runs_example_wf :
  rs_wf {| rs_b1 := qll [[1]; [2; 3]]; rs_b2 := qll [[2; 6]];
           rs_sched := weave [true; false] (tag T1 (map Batch (qll [[1]; [2; 3]]))) (tag T2 (map Batch (qll [[2; 6]]))); rs_delay := 0 |}.
Proof. apply weave_merge. Qed.

(* sample_parallel_irrelevant: 3 samples, batch of 2 traces, iterations in the order 2, 0, 1 *)
Example kernel_example :
  let batch := qll [[1; 10; 100]; [2; 20; 200]] in
  let cells := [st_zero; contrib (qz 5); st_zero] in
  Permutation [2; 0; 1]%nat (seq 0 (length cells))
  /\ forallb2 st_eqb (update_core [2; 0; 1]%nat batch cells) (update_core_seq batch cells) = true
  /\ st_eqb (nth 1 (update_core_seq batch cells) st_zero) (t_upd (contrib (qz 5)) (ql [10; 20])) = true.
Proof.
  split; [|vm_compute; split; reflexivity].
  cbn. apply Permutation_sym. apply perm_trans with (l' := [0; 2; 1]%nat); [constructor; constructor|apply perm_swap].
Qed.

(* the correspondence check accepts a faithful observation and rejects the edits named in the design:
   set 1 = {1, 3}, set 2 = {2, 6}, float64: t = -2 / sqrt (1/2 + 4/2) = -1.2649110640673518 *)
Example tt_check_discriminates :
  let mk res n1 sq1 exc :=
    {| tc_prec := F64; tc_scale := 1; tc_frame := [0%nat]; tc_pres := [];
       tc_runs := [ {| r_set1 := [[1]; [3]]; r_set2 := [[2]; [6]]; r_bs := 1; r_fail1 := None; r_fail2 := None;
                       r_sched := [true; false; false; true]; r_exc := exc; r_result := Some [res];
                       r_n1 := n1; r_sum1 := [Fin 4 0]; r_sq1 := [sq1]; r_n2 := 2; r_sum2 := [Fin 8 0]; r_sq2 := [Fin 40 0];
                       r_mean1 := [Fin 2 0]; r_var1 := [Fin 1 0]; r_mean2 := [Fin 4 0]; r_var2 := [Fin 4 0];
                       r_over := None; r_fresh := false |} ] |} in
  tt_check (mk (Fin (-5696652996790543) (-52)) 2 (Fin 10 0) 0%nat) = true
  /\ tt_check (mk (Fin (-8056283928194521) (-53)) 2 (Fin 10 0) 0%nat) = false      (* variances with n - 1 *)
  /\ tt_check (mk (Fin (-5696652996790543) (-52)) 1 (Fin 10 0) 0%nat) = false      (* processed_traces not accumulated *)
  /\ tt_check (mk (Fin (-5696652996790543) (-52)) 2 (Fin 9 0) 0%nat) = false       (* sum_squared overwritten *)
  /\ tt_check (mk (Fin (-5696652996790543) (-52)) 2 (Fin 10 0) 1%nat) = false.     (* an exception although nothing failed *)
Proof. vm_compute. repeat split; reflexivity. Qed.

(* run-length cases: 40000 traces at 255 and 30000 at 250 against 5 traces: the weighted state is what the expansion gives
   (here n and the sum of squares 40000*255^2 + 30000*250^2 = 4476000000 > 2^31: an int32 intermediate would wrap) *)
Example run_length_example :
  let r1 := [([255], 40000%positive); ([250], 30000%positive)] in
  st_eqb (wst 0 r1) (Q2Qc (inject_Z 70000), Q2Qc (inject_Z 17700000), Q2Qc (inject_Z 4476000000)) = true
  /\ Z.of_nat (length (expand r1)) = 70000
  /\ welch_code (wst 0 r1) (wst 0 [([1], 2%positive); ([4], 3%positive)]) <> None.
Proof. split; [vm_compute; reflexivity|split; [vm_compute; reflexivity|vm_compute; discriminate]]. Qed.
