(* Props/C02EndToEnd.v — COMPOSITION theorems, audited with property C02: what the user of an attack object relies on.
   Only statements closed by [exact]; Print Assumptions beneath each.  Proofs: Proofs/EndToEnd.v, which adds NO model: it
   instantiates the generic run()/convergence model of Model/Analysis.v (C02, C08) with the concrete distinguisher tables of
   Model/Batching.v (C01) and rewrites every entry with the owners' theorems "accumulator formula = SPEC" (C03 Pearson /
   mean difference, C04 F / NICV / SNR, C13 mutual information), the discriminant being the axis reduction of Model/Models.v
   (C15), and the t-test run model of Model/Ttest.v (C09) with the slices of Model/Container.v (C02).

   Reading guide.
   * A trace set is a list of (samples row, metadata) pairs; a [container (list Qc) M] holds the set [c_rows], the frame
     [c_fr] acting on one row, the row-wise preprocess chain [c_chain] (list order) and the batch size [c_bs]
     (Model/Analysis.v, Props/C02.v).  [runs] = the containers of the successive run() calls on ONE object, in order; [cs] =
     convergence_step (None / Some k); [sf] the selection function on the metadata of one trace, [model] the leakage model.
   * [Analysis.all_rows ... sf model runs] — written [rows] below — is the SPEC trace list: one PROCESSED trace per trace of
     every container, in order:  (chain (frame samples), model (sf metadata))  of that same trace — frame first, then the
     chain in list order (chain_row = fold_left), data from the trace's own metadata.
   * [sample_col s rows] / [word_col w rows] / [bit_col w rows] / [class_col w rows] : column s of the processed samples,
     word w of the data (as a rational / as the bit "value = 1" / as an integer class value), over ALL those traces, in order.
     [rect W S rows] : every processed trace has S samples and W words (then no [nth] default is ever read).
   * [cpa_attack W S sf model disc cs runs] (resp. cpa_alt_, dpa_, part_ m parts, mia_ edges est parts phi) is the state of
     the attack object after these run() calls: Model/Analysis.run_seq instantiated with the (W words x S samples) table
     accumulator of the distinguisher (Model/Batching.cpa_table ...), [disc] = the discriminant.  [results], [scores],
     [processed], [conv] (columns of convergence_traces), [cols] (point and kind of each column) are its fields.
     The result is the C-order (W, S) array: entry (w, s) is position w * S + s.
   * SPEC statistics: [Cpa.pearson l] = Some (scd, ssd x, ssd y) read r = scd / sqrt (ssd x * ssd y), None when a spread is 0;
     [Cpa.dpa_spec l] = mean of the samples with bit 1 - mean of those with bit 0, None when a class is empty;
     [Partitioned.F_stat / nicv_def / snr_def (Partitioned.groups parts l)] the textbook statistics over the non-empty value
     classes; [mutual_information edges parts phi l] = H(B) - H(B|V) of the joint histogram [mia_count_table] whose cell
     (b, k) COUNTS the traces with sample in bin b (numpy.histogram's rule) and value of class k — no bin-index estimator
     in it; phi stands for x |-> x ln x and is ANY function.
   * [lane_scores d lane W S res] = Models.reduce_axis: the discriminant reduces the last axis with the lane function [lane]
     (ANY function here; Model/Models.disc_lane for the five shipped ones).
   Every theorem is for ALL trace sets, frames, row-wise chains, selection functions, models, batch sizes >= 1, sequences of
   run() calls on non-empty containers and convergence steps >= 1, in exact rational arithmetic (rounding is the tolerance of
   the correspondence checks of C01 / C02 / C03 / C04 / C13, not a theorem). *)
From Coq Require Import ZArith QArith Qcanon List Bool Lia.
From ScaredV Require Import Lib.QcSum Lib.Interleave Run.Compare Model.Accum Model.Container Model.Analysis Model.Batching.
From ScaredV Require Import Proofs.EndToEnd.
From ScaredV Require Model.Cpa Model.Partitioned Model.Mia Model.Ttest Model.Models Model.Attack.
From ScaredV Require Proofs.Partitioned Proofs.Mia.
Import ListNotations.
Local Open Scope nat_scope.

(* ================================================================ 1. CPA = Pearson over the whole set *)
(* Entry (word w, sample s) of .results IS the Pearson triple of word column w against sample column s over ALL the traces
   of all the containers (frame applied, chain applied in order), whatever the batch sizes and the convergence step;
   .scores = discriminant(.results); processed_traces = the number of traces. *)
Theorem cpa_attack_results_are_pearson_of_the_whole_set :
  forall (M V Sc : Type) (sf : M -> V) (model : V -> list Qc) (disc : list (option Cpa.triple) -> Sc)
         (cs : option nat) (W S : nat) (runs : list (container (list Qc) M)),
  match cs with Some k => 1 <= k | None => True end ->
  Forall (fun c => c_rows c <> [] /\ 1 <= c_bs c) runs -> runs <> [] ->
  let rows := Analysis.all_rows (list Qc) M V (list Qc) sf model runs in
  rect W S rows ->
  let st := cpa_attack W S sf model disc cs runs in
  exists res,
    results st = Some res /\ length res = W * S
    /\ (forall w s, w < W -> s < S ->
          nth (w * S + s) res None = Cpa.pearson (combine (sample_col s rows) (word_col w rows)))
    /\ scores st = Some (disc res)
    /\ processed st = length rows.
Proof. exact cpa_results_thm. Qed.
Print Assumptions cpa_attack_results_are_pearson_of_the_whole_set.

(* the alternative formulation: every entry is n times Pearson's triple component-wise, n = the number of traces of the
   whole set — undefined exactly when Pearson is, and otherwise the SAME correlation (Cpa.same_r: cross-multiplied squares
   agree, numerators have the same sign) *)
Theorem cpa_alternative_attack_results_are_pearson_of_the_whole_set :
  forall (M V Sc : Type) (sf : M -> V) (model : V -> list Qc) (disc : list (option Cpa.triple) -> Sc)
         (cs : option nat) (W S : nat) (runs : list (container (list Qc) M)),
  match cs with Some k => 1 <= k | None => True end ->
  Forall (fun c => c_rows c <> [] /\ 1 <= c_bs c) runs -> runs <> [] ->
  let rows := Analysis.all_rows (list Qc) M V (list Qc) sf model runs in
  rect W S rows ->
  let st := cpa_alt_attack W S sf model disc cs runs in
  exists res,
    results st = Some res /\ length res = W * S
    /\ (forall w s, w < W -> s < S ->
          let l := combine (sample_col s rows) (word_col w rows) in
          nth (w * S + s) res None = option_map (Cpa.scale3 (qlen rows)) (Cpa.pearson l)
          /\ forall t, Cpa.pearson l = Some t -> Cpa.same_r t (Cpa.scale3 (qlen rows) t))
    /\ scores st = Some (disc res)
    /\ processed st = length rows.
Proof. exact cpa_alt_results_thm. Qed.
Print Assumptions cpa_alternative_attack_results_are_pearson_of_the_whole_set.

(* ================================================================ 2. DPA = difference of class means over the whole set *)
Theorem dpa_attack_results_are_mean_differences_of_the_whole_set :
  forall (M V Sc : Type) (sf : M -> V) (model : V -> list Z) (disc : list (option Qc) -> Sc)
         (cs : option nat) (W S : nat) (runs : list (container (list Qc) M)),
  match cs with Some k => 1 <= k | None => True end ->
  Forall (fun c => c_rows c <> [] /\ 1 <= c_bs c) runs -> runs <> [] ->
  let rows := Analysis.all_rows (list Qc) M V (list Z) sf model runs in
  rect W S rows ->
  let st := dpa_attack W S sf model disc cs runs in
  exists res,
    results st = Some res /\ length res = W * S
    /\ (forall w s, w < W -> s < S ->
          nth (w * S + s) res None = Cpa.dpa_spec (combine (sample_col s rows) (bit_col w rows)))
    /\ scores st = Some (disc res)
    /\ processed st = length rows.
Proof. exact dpa_results_thm. Qed.
Print Assumptions dpa_attack_results_are_mean_differences_of_the_whole_set.

(* ================================================================ 3. ANOVA / NICV / SNR = their definitions over the whole set *)
(* explicit class list [parts]: distinct values inside the look-up table (the hypotheses of Props/C04.v) *)
Theorem anova_attack_results_are_the_definitions_over_the_whole_set :
  forall (M V Sc : Type) (sf : M -> V) (parts : list Z) (model : V -> list Z) (disc : list (option Qc) -> Sc)
         (cs : option nat) (W S : nat) (runs : list (container (list Qc) M)),
  NoDup parts -> Proofs.Partitioned.all_in_range parts ->
  match cs with Some k => 1 <= k | None => True end ->
  Forall (fun c => c_rows c <> [] /\ 1 <= c_bs c) runs -> runs <> [] ->
  let rows := Analysis.all_rows (list Qc) M V (list Z) sf model runs in
  rect W S rows ->
  let st := part_attack Partitioned.ANOVA parts W S sf model disc cs runs in
  exists res,
    results st = Some res /\ length res = W * S
    /\ (forall w s, w < W -> s < S ->
          nth (w * S + s) res None
          = Partitioned.F_stat (Partitioned.groups parts (combine (class_col w rows) (sample_col s rows))))
    /\ scores st = Some (disc res)
    /\ processed st = length rows.
Proof. exact (fun M V Sc sf => part_results_thm M V Sc sf Partitioned.ANOVA). Qed.
Print Assumptions anova_attack_results_are_the_definitions_over_the_whole_set.

Theorem nicv_attack_results_are_the_definitions_over_the_whole_set :
  forall (M V Sc : Type) (sf : M -> V) (parts : list Z) (model : V -> list Z) (disc : list (option Qc) -> Sc)
         (cs : option nat) (W S : nat) (runs : list (container (list Qc) M)),
  NoDup parts -> Proofs.Partitioned.all_in_range parts ->
  match cs with Some k => 1 <= k | None => True end ->
  Forall (fun c => c_rows c <> [] /\ 1 <= c_bs c) runs -> runs <> [] ->
  let rows := Analysis.all_rows (list Qc) M V (list Z) sf model runs in
  rect W S rows ->
  let st := part_attack Partitioned.NICV parts W S sf model disc cs runs in
  exists res,
    results st = Some res /\ length res = W * S
    /\ (forall w s, w < W -> s < S ->
          nth (w * S + s) res None
          = Partitioned.nicv_def (Partitioned.groups parts (combine (class_col w rows) (sample_col s rows))))
    /\ scores st = Some (disc res)
    /\ processed st = length rows.
Proof. exact (fun M V Sc sf => part_results_thm M V Sc sf Partitioned.NICV). Qed.
Print Assumptions nicv_attack_results_are_the_definitions_over_the_whole_set.

Theorem snr_attack_results_are_the_definitions_over_the_whole_set :
  forall (M V Sc : Type) (sf : M -> V) (parts : list Z) (model : V -> list Z) (disc : list (option Qc) -> Sc)
         (cs : option nat) (W S : nat) (runs : list (container (list Qc) M)),
  NoDup parts -> Proofs.Partitioned.all_in_range parts ->
  match cs with Some k => 1 <= k | None => True end ->
  Forall (fun c => c_rows c <> [] /\ 1 <= c_bs c) runs -> runs <> [] ->
  let rows := Analysis.all_rows (list Qc) M V (list Z) sf model runs in
  rect W S rows ->
  let st := part_attack Partitioned.SNR parts W S sf model disc cs runs in
  exists res,
    results st = Some res /\ length res = W * S
    /\ (forall w s, w < W -> s < S ->
          nth (w * S + s) res None
          = Partitioned.snr_def (Partitioned.groups parts (combine (class_col w rows) (sample_col s rows))))
    /\ scores st = Some (disc res)
    /\ processed st = length rows.
Proof. exact (fun M V Sc sf => part_results_thm M V Sc sf Partitioned.SNR). Qed.
Print Assumptions snr_attack_results_are_the_definitions_over_the_whole_set.

(* ================================================================ 4. MIA = mutual information over the whole set *)
(* fixed bin edges (at least two, strictly increasing: what the bin_edges setter enforces, Props/C13.v), explicit class list
   (any list: a repeated value is the class of its last declaration); for EVERY bin-index estimator [est] — the result does
   not depend on it — and EVERY [phi] *)
Theorem mia_attack_results_are_mutual_information_of_the_whole_set :
  forall (M V Sc : Type) (sf : M -> V) (edges : list Qc) (est : Qc -> nat) (parts : list Z) (phi : Qc -> Qc)
         (model : V -> list Z) (disc : list (option Qc) -> Sc)
         (cs : option nat) (W S : nat) (runs : list (container (list Qc) M)),
  2 <= length edges -> Mia.increasing edges ->
  match cs with Some k => 1 <= k | None => True end ->
  Forall (fun c => c_rows c <> [] /\ 1 <= c_bs c) runs -> runs <> [] ->
  let rows := Analysis.all_rows (list Qc) M V (list Z) sf model runs in
  rect W S rows ->
  let st := mia_attack edges est parts phi W S sf model disc cs runs in
  exists res,
    results st = Some res /\ length res = W * S
    /\ (forall w s, w < W -> s < S ->
          nth (w * S + s) res None
          = mutual_information edges parts phi (combine (sample_col s rows) (class_col w rows)))
    /\ scores st = Some (disc res)
    /\ processed st = length rows.
Proof. exact mia_results_thm. Qed.
Print Assumptions mia_attack_results_are_mutual_information_of_the_whole_set.

(* what [mutual_information] is, spelled out: the table cell (b, k) is the number of traces whose sample lies in bin b
   (half-open bins, the last one closed, outside discarded: Mia.bin_spec) and whose value is class k (undeclared values
   discarded); the result is H(B) - H(B|V) of that table over all bins and classes, with the convention 0 ln 0 = 0 the code
   implements (q_phiz phi p = phi (if p = 0 then 1 else p)); undefined when no trace was counted *)
Theorem mutual_information_unfolded :
  forall (edges : list Qc) (parts : list Z) (phi : Qc -> Qc) (l : list Mia.row),
  (forall b k, b < Mia.nbins edges -> k < length parts ->
     Mia.get (mia_count_table edges parts l) b k
     = Z.of_nat (length (filter (fun r => match Mia.bin_spec edges (fst r), Mia.class_of parts (snd r) with
                                          | Some b', Some k' => Nat.eqb b' b && Nat.eqb k' k
                                          | _, _ => false
                                          end) l)))
  /\ mutual_information edges parts phi l
     = let t := mia_count_table edges parts l in
       let bs := seq 0 (Mia.nbins edges) in
       let vs := seq 0 (length parts) in
       if Mia.q_is0 (Mia.q_total t bs vs) then None
       else Some (Mia.q_HB (Mia.q_phiz phi) t bs vs - Mia.q_HBV (Mia.q_phiz phi) t bs vs)%Qc.
Proof. exact mutual_information_unfolded_thm. Qed.
Print Assumptions mutual_information_unfolded.

(* ================================================================ 5. scores = the discriminant of those statistics *)
(* the score of word w is the lane discriminant over the samples of the SPEC statistics of word w — for ANY lane function *)
Theorem cpa_scores_are_the_discriminant_of_those_statistics :
  forall (M V Sc : Type) (sf : M -> V) (model : V -> list Qc) (lane : list (option Cpa.triple) -> Sc)
         (cs : option nat) (W S : nat) (runs : list (container (list Qc) M)),
  match cs with Some k => 1 <= k | None => True end ->
  Forall (fun c => c_rows c <> [] /\ 1 <= c_bs c) runs -> runs <> [] ->
  let rows := Analysis.all_rows (list Qc) M V (list Qc) sf model runs in
  rect W S rows ->
  let st := cpa_attack W S sf model (lane_scores None lane W S) cs runs in
  exists sc,
    scores st = Some sc /\ length sc = W
    /\ forall w dsc, w < W ->
         nth w sc dsc = lane (map (fun s => Cpa.pearson (combine (sample_col s rows) (word_col w rows))) (seq 0 S)).
Proof. exact cpa_scores_thm. Qed.
Print Assumptions cpa_scores_are_the_discriminant_of_those_statistics.

(* with the default discriminant maxabs (Models.disc_lane DMaxabs, taken in the order-preserving coordinate x |x| of a
   correlation: Attack.sgn_sq (num, dx, dy) = sign(num) num^2 / (dx dy), whose absolute value is r^2): the score of word w
   is the LARGEST squared Pearson coefficient over the samples, attained at some sample; it is undefined (NaN) exactly when
   every sample gives an undefined coefficient *)
Theorem cpa_maxabs_score_is_the_largest_squared_correlation :
  forall (M V : Type) (sf : M -> V) (model : V -> list Qc) (cs : option nat) (W S : nat)
         (runs : list (container (list Qc) M)),
  match cs with Some k => 1 <= k | None => True end ->
  Forall (fun c => c_rows c <> [] /\ 1 <= c_bs c) runs -> runs <> [] ->
  let rows := Analysis.all_rows (list Qc) M V (list Qc) sf model runs in
  rect W S rows ->
  let st := cpa_attack W S sf model (lane_scores None (corr_lane Models.DMaxabs) W S) cs runs in
  let r w s := Cpa.pearson (combine (sample_col s rows) (word_col w rows)) in
  exists sc,
    scores st = Some sc /\ length sc = W
    /\ forall w, w < W ->
         match nth w sc None with
         | Some m => (exists s t, s < S /\ r w s = Some t /\ Qabs' (this (Attack.sgn_sq t)) = m)
                     /\ (forall s t, s < S -> r w s = Some t -> (Qabs' (this (Attack.sgn_sq t)) <= m)%Q)
         | None => forall s, s < S -> r w s = None
         end.
Proof. exact cpa_maxabs_scores_thm. Qed.
Print Assumptions cpa_maxabs_score_is_the_largest_squared_correlation.

Theorem cpa_alternative_scores_are_the_discriminant_of_those_statistics :
  forall (M V Sc : Type) (sf : M -> V) (model : V -> list Qc) (lane : list (option Cpa.triple) -> Sc)
         (cs : option nat) (W S : nat) (runs : list (container (list Qc) M)),
  match cs with Some k => 1 <= k | None => True end ->
  Forall (fun c => c_rows c <> [] /\ 1 <= c_bs c) runs -> runs <> [] ->
  let rows := Analysis.all_rows (list Qc) M V (list Qc) sf model runs in
  rect W S rows ->
  let st := cpa_alt_attack W S sf model (lane_scores None lane W S) cs runs in
  exists sc,
    scores st = Some sc /\ length sc = W
    /\ forall w dsc, w < W ->
         nth w sc dsc
         = lane (map (fun s => option_map (Cpa.scale3 (qlen rows))
                                          (Cpa.pearson (combine (sample_col s rows) (word_col w rows)))) (seq 0 S)).
Proof. exact cpa_alt_scores_thm. Qed.
Print Assumptions cpa_alternative_scores_are_the_discriminant_of_those_statistics.

Theorem dpa_scores_are_the_discriminant_of_those_statistics :
  forall (M V Sc : Type) (sf : M -> V) (model : V -> list Z) (lane : list (option Qc) -> Sc)
         (cs : option nat) (W S : nat) (runs : list (container (list Qc) M)),
  match cs with Some k => 1 <= k | None => True end ->
  Forall (fun c => c_rows c <> [] /\ 1 <= c_bs c) runs -> runs <> [] ->
  let rows := Analysis.all_rows (list Qc) M V (list Z) sf model runs in
  rect W S rows ->
  let st := dpa_attack W S sf model (lane_scores None lane W S) cs runs in
  exists sc,
    scores st = Some sc /\ length sc = W
    /\ forall w dsc, w < W ->
         nth w sc dsc = lane (map (fun s => Cpa.dpa_spec (combine (sample_col s rows) (bit_col w rows))) (seq 0 S)).
Proof. exact dpa_scores_thm. Qed.
Print Assumptions dpa_scores_are_the_discriminant_of_those_statistics.

(* m = ANOVA / NICV / SNR: Partitioned.spec_metric m = F_stat / nicv_def / snr_def *)
Theorem partitioned_scores_are_the_discriminant_of_those_statistics :
  forall (M V Sc : Type) (sf : M -> V) (m : Partitioned.metric) (parts : list Z) (model : V -> list Z)
         (lane : list (option Qc) -> Sc) (cs : option nat) (W S : nat) (runs : list (container (list Qc) M)),
  NoDup parts -> Proofs.Partitioned.all_in_range parts ->
  match cs with Some k => 1 <= k | None => True end ->
  Forall (fun c => c_rows c <> [] /\ 1 <= c_bs c) runs -> runs <> [] ->
  let rows := Analysis.all_rows (list Qc) M V (list Z) sf model runs in
  rect W S rows ->
  let st := part_attack m parts W S sf model (lane_scores None lane W S) cs runs in
  exists sc,
    scores st = Some sc /\ length sc = W
    /\ forall w dsc, w < W ->
         nth w sc dsc
         = lane (map (fun s => Partitioned.spec_metric m
                                 (Partitioned.groups parts (combine (class_col w rows) (sample_col s rows)))) (seq 0 S)).
Proof. exact part_scores_thm. Qed.
Print Assumptions partitioned_scores_are_the_discriminant_of_those_statistics.

Theorem mia_scores_are_the_discriminant_of_those_statistics :
  forall (M V Sc : Type) (sf : M -> V) (edges : list Qc) (est : Qc -> nat) (parts : list Z) (phi : Qc -> Qc)
         (model : V -> list Z) (lane : list (option Qc) -> Sc)
         (cs : option nat) (W S : nat) (runs : list (container (list Qc) M)),
  2 <= length edges -> Mia.increasing edges ->
  match cs with Some k => 1 <= k | None => True end ->
  Forall (fun c => c_rows c <> [] /\ 1 <= c_bs c) runs -> runs <> [] ->
  let rows := Analysis.all_rows (list Qc) M V (list Z) sf model runs in
  rect W S rows ->
  let st := mia_attack edges est parts phi W S sf model (lane_scores None lane W S) cs runs in
  exists sc,
    scores st = Some sc /\ length sc = W
    /\ forall w dsc, w < W ->
         nth w sc dsc
         = lane (map (fun s => mutual_information edges parts phi (combine (sample_col s rows) (class_col w rows))) (seq 0 S)).
Proof. exact mia_scores_thm. Qed.
Print Assumptions mia_scores_are_the_discriminant_of_those_statistics.

(* the lane functions of the shipped discriminants on lanes of rational statistics, and what maxabs returns on ANY lane *)
Theorem maxabs_of_a_lane :
  forall (T : Type) (f : T -> Models.oq) (l : list T),
  match Models.disc_lane Models.DMaxabs (map f l) with
  | Some m => (exists x v, In x l /\ f x = Some v /\ Qabs' v = m)
              /\ (forall x v, In x l -> f x = Some v -> (Qabs' v <= m)%Q)
  | None => forall x, In x l -> f x = None
  end.
Proof. exact @maxabs_lane_spec. Qed.
Print Assumptions maxabs_of_a_lane.

(* ================================================================ 6. convergence column = the statistic of the prefix *)
(* the j-th column of convergence_traces, appended when p traces had been processed, is the discriminant of the SPEC
   statistic of the FIRST p traces (of all the containers, in order), entry by entry; p never exceeds the number of traces
   ([firstn] does not truncate).  (Which points p occur: Props/C08.v.) *)
Theorem cpa_convergence_column_is_the_statistic_of_the_prefix :
  forall (M V Sc : Type) (sf : M -> V) (model : V -> list Qc) (lane : list (option Cpa.triple) -> Sc)
         (k : nat) (W S : nat) (runs : list (container (list Qc) M)) (j p : nat) (kd : Analysis.ckind),
  1 <= k -> Forall (fun c => c_rows c <> [] /\ 1 <= c_bs c) runs ->
  let rows := Analysis.all_rows (list Qc) M V (list Qc) sf model runs in
  rect W S rows ->
  let st := cpa_attack W S sf model (lane_scores None lane W S) (Some k) runs in
  nth_error (cols st) j = Some (p, kd) ->
  p <= length rows
  /\ exists col,
       nth_error (conv st) j = Some col /\ length col = W
       /\ forall w dsc, w < W ->
            nth w col dsc
            = lane (map (fun s => Cpa.pearson (combine (sample_col s (firstn p rows)) (word_col w (firstn p rows)))) (seq 0 S)).
Proof. exact cpa_convergence_thm. Qed.
Print Assumptions cpa_convergence_column_is_the_statistic_of_the_prefix.

Theorem dpa_convergence_column_is_the_statistic_of_the_prefix :
  forall (M V Sc : Type) (sf : M -> V) (model : V -> list Z) (lane : list (option Qc) -> Sc)
         (k : nat) (W S : nat) (runs : list (container (list Qc) M)) (j p : nat) (kd : Analysis.ckind),
  1 <= k -> Forall (fun c => c_rows c <> [] /\ 1 <= c_bs c) runs ->
  let rows := Analysis.all_rows (list Qc) M V (list Z) sf model runs in
  rect W S rows ->
  let st := dpa_attack W S sf model (lane_scores None lane W S) (Some k) runs in
  nth_error (cols st) j = Some (p, kd) ->
  p <= length rows
  /\ exists col,
       nth_error (conv st) j = Some col /\ length col = W
       /\ forall w dsc, w < W ->
            nth w col dsc
            = lane (map (fun s => Cpa.dpa_spec (combine (sample_col s (firstn p rows)) (bit_col w (firstn p rows)))) (seq 0 S)).
Proof. exact dpa_convergence_thm. Qed.
Print Assumptions dpa_convergence_column_is_the_statistic_of_the_prefix.

Theorem partitioned_convergence_column_is_the_statistic_of_the_prefix :
  forall (M V Sc : Type) (sf : M -> V) (m : Partitioned.metric) (parts : list Z) (model : V -> list Z)
         (lane : list (option Qc) -> Sc) (k : nat) (W S : nat) (runs : list (container (list Qc) M)) (j p : nat)
         (kd : Analysis.ckind),
  NoDup parts -> Proofs.Partitioned.all_in_range parts ->
  1 <= k -> Forall (fun c => c_rows c <> [] /\ 1 <= c_bs c) runs ->
  let rows := Analysis.all_rows (list Qc) M V (list Z) sf model runs in
  rect W S rows ->
  let st := part_attack m parts W S sf model (lane_scores None lane W S) (Some k) runs in
  nth_error (cols st) j = Some (p, kd) ->
  p <= length rows
  /\ exists col,
       nth_error (conv st) j = Some col /\ length col = W
       /\ forall w dsc, w < W ->
            nth w col dsc
            = lane (map (fun s => Partitioned.spec_metric m
                                    (Partitioned.groups parts (combine (class_col w (firstn p rows)) (sample_col s (firstn p rows)))))
                        (seq 0 S)).
Proof. exact part_convergence_thm. Qed.
Print Assumptions partitioned_convergence_column_is_the_statistic_of_the_prefix.

Theorem mia_convergence_column_is_the_statistic_of_the_prefix :
  forall (M V Sc : Type) (sf : M -> V) (edges : list Qc) (est : Qc -> nat) (parts : list Z) (phi : Qc -> Qc)
         (model : V -> list Z) (lane : list (option Qc) -> Sc)
         (k : nat) (W S : nat) (runs : list (container (list Qc) M)) (j p : nat) (kd : Analysis.ckind),
  2 <= length edges -> Mia.increasing edges ->
  1 <= k -> Forall (fun c => c_rows c <> [] /\ 1 <= c_bs c) runs ->
  let rows := Analysis.all_rows (list Qc) M V (list Z) sf model runs in
  rect W S rows ->
  let st := mia_attack edges est parts phi W S sf model (lane_scores None lane W S) (Some k) runs in
  nth_error (cols st) j = Some (p, kd) ->
  p <= length rows
  /\ exists col,
       nth_error (conv st) j = Some col /\ length col = W
       /\ forall w dsc, w < W ->
            nth w col dsc
            = lane (map (fun s => mutual_information edges parts phi
                                    (combine (sample_col s (firstn p rows)) (class_col w (firstn p rows)))) (seq 0 S)).
Proof. exact mia_convergence_thm. Qed.
Print Assumptions mia_convergence_column_is_the_statistic_of_the_prefix.

(* ================================================================ 7. t-test = Welch of the two whole sets *)
(* (Props/C09.v runs_result_is_welch states this per sample for abstract batch lists; here the batches are the ones
   run() really forms.)  A [tt_call] is one TTestAnalysis.run(): the two trace sets as containers [tc1], [tc2] (frame,
   chain, batch size), the schedule [tc_sched] — the order in which the WHOLE-TRACE batches of the two accumulator threads
   were accumulated — and the stop delay.  [call_ok]: both sets non-empty, both batch sizes >= 1, and the schedule is ANY
   interleaving (Interleave.merge) of the two threads' batch lists [thread_batches] = the slices of Model/Container.v
   restricted to the frame and passed through the chain.  [set1 calls] / [set2 calls]: ALL the processed traces of set 1 /
   set 2 over the successive calls; [at_sample j] reads sample j; [sched_at j] is the schedule seen at sample j (the kernel
   treats every sample on its own: Props/C09.v kernel_writes_disjoint_cells).
   For every sample j: every call returns (Done), each accumulator holds the sums of ITS whole set, and the stored result is
   the Welch statistic (definition: means, population variances; pair (num, den) read num / sqrt den) of column j of ALL the
   traces of set 1 against column j of ALL the traces of set 2 — whatever the batch sizes, interleavings, delays and the
   number of calls. *)
Theorem ttest_result_is_welch_of_the_two_whole_sets_for_any_batching_and_interleaving :
  forall (M : Type) (S j : nat) (calls : list (tt_call M)),
  calls <> [] -> Forall (call_ok M) calls ->
  Forall (fun r => length r = S) (set1 M calls ++ set2 M calls) -> j < S ->
  exists a',
    Ttest.tt_runs Ttest.tt_fresh (map (fun c => (sched_at j (tc_sched M c), tc_delay M c)) calls) = Ttest.Done a'
    /\ Ttest.sums (Ttest.a1 a') = Ttest.t_upd Ttest.st_zero (map (at_sample j) (set1 M calls))
    /\ Ttest.sums (Ttest.a2 a') = Ttest.t_upd Ttest.st_zero (map (at_sample j) (set2 M calls))
    /\ Ttest.result a' = Some (Ttest.welch_def (map (at_sample j) (set1 M calls)) (map (at_sample j) (set2 M calls))).
Proof. exact ttest_end_to_end_thm. Qed.
Print Assumptions ttest_result_is_welch_of_the_two_whole_sets_for_any_batching_and_interleaving.

(* [call_ok], [thread_batches], [set1] spelled out *)
Theorem ttest_vocabulary_unfolded :
  forall (M : Type) (c : tt_call M) (calls : list (tt_call M)),
  (call_ok M c <->
     (c_rows (tc1 M c) <> [] /\ 1 <= c_bs (tc1 M c)) /\ (c_rows (tc2 M c) <> [] /\ 1 <= c_bs (tc2 M c))
     /\ merge (Ttest.tag Ttest.T1 (map Ttest.Batch (thread_batches M (tc1 M c))))
              (Ttest.tag Ttest.T2 (map Ttest.Batch (thread_batches M (tc2 M c)))) (tc_sched M c))
  /\ thread_batches M (tc1 M c)
     = map (map (fun r => chain_row (c_chain (tc1 M c)) (c_fr (tc1 M c) (fst r)))) (batches_of (c_rows (tc1 M c)) (c_bs (tc1 M c)))
  /\ set1 M calls
     = concat (map (fun c => map (fun r => chain_row (c_chain (tc1 M c)) (c_fr (tc1 M c) (fst r))) (c_rows (tc1 M c))) calls).
Proof. exact (fun M c calls => conj (iff_refl _) (conj eq_refl eq_refl)). Qed.
Print Assumptions ttest_vocabulary_unfolded.

(* ================================================================ non-vacuity *)
Definition q (z : Z) : Qc := qz z.
Definition show3 (t : option Cpa.triple) : option (Q * Q * Q) :=
  option_map (fun t : Cpa.triple => let '(a, b, c) := t in (this a, this b, this c)) t.
Definition showq (t : option Qc) : option Q := option_map this t.

(* a frame and a chain that do not commute: raw [a; junk; b] -> frame [a; b] -> reverse [b; a] -> + 1 [b + 1; a + 1] *)
Definition ex_fr : list Qc -> list Qc := select (q 0) (FIdx [0; 2]).
Definition ex_chain : list (list Qc -> list Qc) := [@rev Qc; map (fun x => (x + q 1)%Qc)].

(* ---- CPA: 2 words x 2 samples; run() on 3 traces with batch size 2 (batches 2, 1), then on 1 trace with batch size 5;
   the processed traces are samples (1,7) (2,5) (4,5) (5,3), words (2,9) (3,9) (1,9) (6,9): word 1 is constant *)
Definition ex_c1 : container (list Qc) (list Qc) :=
  {| c_rows := [([q 6; q 99; q 0], [q 2; q 9]); ([q 4; q 98; q 1], [q 3; q 9]); ([q 4; q 97; q 3], [q 1; q 9])];
     c_fr := ex_fr; c_chain := ex_chain; c_bs := 2 |}.
Definition ex_c2 : container (list Qc) (list Qc) :=
  {| c_rows := [([q 2; q 96; q 4], [q 6; q 9])]; c_fr := ex_fr; c_chain := ex_chain; c_bs := 5 |}.
Definition ex_runs := [ex_c1; ex_c2].
Definition ex_rows := Analysis.all_rows (list Qc) (list Qc) (list Qc) (list Qc) (fun m => m) (fun v => v) ex_runs.
Definition ex_cpa (cs : option nat) :=
  cpa_attack 2 2 (fun m : list Qc => m) (fun v : list Qc => v) (lane_scores None (corr_lane Models.DMaxabs) 2 2) cs ex_runs.

Example ex_hypotheses :
  Forall (fun c : container (list Qc) (list Qc) => c_rows c <> [] /\ 1 <= c_bs c) ex_runs /\ ex_runs <> [] /\ rect 2 2 ex_rows.
Proof.
  split; [repeat constructor; (discriminate || (cbn; lia))|]. split; [discriminate|].
  unfold rect, ex_rows. cbn. repeat constructor.
Qed.

Example ex_cpa_values :
  map (fun r => (map this (fst r), map this (snd r))) ex_rows
  = [([1; 7], [2; 9]); ([2; 5], [3; 9]); ([4; 5], [1; 9]); ([5; 3], [6; 9])]%Q
  (* results: r(word 0, sample 0) = 6 / sqrt (10 * 14), r(word 0, sample 1) = -8 / sqrt (8 * 14), word 1 undefined *)
  /\ option_map (map show3) (results (ex_cpa (Some 2))) = Some [Some (6, 10, 14); Some (-8, 8, 14); None; None]%Q
  /\ map (fun s => show3 (Cpa.pearson (combine (sample_col s ex_rows) (word_col 0 ex_rows)))) [0; 1]
     = [Some (6, 10, 14); Some (-8, 8, 14)]%Q
  (* scores (maxabs): r^2 = 64 / 112 = 4/7 > 36 / 140; word 1: NaN *)
  /\ scores (ex_cpa (Some 2)) = Some [Some (4 # 7)%Q; None]
  /\ scores (ex_cpa None) = Some [Some (4 # 7)%Q; None]
  (* convergence step 2: columns after 2, 3 (end of the first run) and 4 traces; the column at 2 is r^2 = 1 (two points) *)
  /\ cols (ex_cpa (Some 2)) = [(2, Regular); (3, Remainder); (4, Regular)]
  /\ conv (ex_cpa (Some 2)) = [[Some 1%Q; None]; [Some (3 # 7)%Q; None]; [Some (4 # 7)%Q; None]]
  /\ show3 (Cpa.pearson (combine (sample_col 1 (firstn 2 ex_rows)) (word_col 0 (firstn 2 ex_rows)))) = Some (-1, 2, 1 # 2)%Q
  /\ processed (ex_cpa (Some 2)) = 4.
Proof. vm_compute. repeat split; reflexivity. Qed.

(* ---- DPA / NICV / MIA: integer data; word 0 is a bit, word 1 a value in {3, 7}; classes declared [7; 3; 0; 1];
   processed samples (1,4) (2,1) (4,8) (5,6) (5,3) *)
Definition ex_zc1 : container (list Qc) (list Z) :=
  {| c_rows := [([q 3; q 99; q 0], [1; 3]%Z); ([q 0; q 98; q 1], [0; 7]%Z); ([q 7; q 97; q 3], [1; 3]%Z)];
     c_fr := ex_fr; c_chain := ex_chain; c_bs := 2 |}.
Definition ex_zc2 : container (list Qc) (list Z) :=
  {| c_rows := [([q 5; q 96; q 4], [0; 7]%Z); ([q 2; q 96; q 4], [0; 3]%Z)]; c_fr := ex_fr; c_chain := ex_chain; c_bs := 1 |}.
Definition ex_zruns := [ex_zc1; ex_zc2].
Definition ex_zrows := Analysis.all_rows (list Qc) (list Z) (list Z) (list Z) (fun m => m) (fun v => v) ex_zruns.
Definition ex_parts : list Z := [7; 3; 0; 1]%Z.
Definition ex_edges : list Qc := [q 0; q 4; q 8].

Example ex_z_hypotheses :
  Forall (fun c : container (list Qc) (list Z) => c_rows c <> [] /\ 1 <= c_bs c) ex_zruns /\ ex_zruns <> [] /\ rect 2 2 ex_zrows
  /\ NoDup ex_parts /\ Proofs.Partitioned.all_in_range ex_parts
  /\ 2 <= length ex_edges /\ Mia.increasing ex_edges.
Proof.
  split; [repeat constructor; (discriminate || (cbn; lia))|]. split; [discriminate|].
  split; [unfold rect, ex_zrows; cbn; repeat constructor|].
  split; [repeat constructor; cbn; intuition discriminate|].
  split; [intros c Hc; cbn in Hc; destruct Hc as [<-|[<-|[<-|[<-|[]]]]]; reflexivity|].
  split; [cbn; lia|]. apply Proofs.Mia.sortedb_spec. vm_compute. reflexivity.
Qed.

Example ex_z_values :
  map (fun r => (map this (fst r), snd r)) ex_zrows
  = [([1; 4]%Q, [1; 3]%Z); ([2; 1]%Q, [0; 7]%Z); ([4; 8]%Q, [1; 3]%Z); ([5; 6]%Q, [0; 7]%Z); ([5; 3]%Q, [0; 3]%Z)]
  (* DPA: bit 1 on traces 0, 2: (1 + 4)/2 - (2 + 5 + 5)/3 = -3/2 and (4 + 8)/2 - (1 + 6 + 3)/3 = 8/3; word 1 never equals 1 *)
  /\ option_map (map showq)
       (results (dpa_attack 2 2 (fun m : list Z => m) (fun v : list Z => v) (lane_scores None (value_lane Models.DMaxabs) 2 2)
                            None ex_zruns))
     = Some [Some (-3 # 2); Some (8 # 3); None; None]%Q
  /\ scores (dpa_attack 2 2 (fun m : list Z => m) (fun v : list Z => v) (lane_scores None (value_lane Models.DMaxabs) 2 2)
                        None ex_zruns)
     = Some [Some (8 # 3)%Q; None]
  (* NICV with a convergence step, and the definition evaluated on the columns *)
  /\ option_map (map showq)
       (results (part_attack Partitioned.NICV ex_parts 2 2 (fun m : list Z => m) (fun v : list Z => v)
                             (lane_scores None (value_lane Models.DNanmax) 2 2) (Some 3) ex_zruns))
     = Some [Some (9 # 44); Some (64 # 219); Some (1 # 396); Some (27 # 292)]%Q
  /\ map (fun e => showq (Partitioned.nicv_def
                            (Partitioned.groups ex_parts (combine (class_col (fst e) ex_zrows) (sample_col (snd e) ex_zrows)))))
         (entries 2 2)
     = [Some (9 # 44); Some (64 # 219); Some (1 # 396); Some (27 # 292)]%Q
  (* MIA with a wild bin-index estimator (always 5) and phi = x^2 standing for x ln x *)
  /\ option_map (map showq)
       (results (mia_attack ex_edges (fun _ => 5) ex_parts (fun x => (x * x)%Qc) 2 2 (fun m : list Z => m) (fun v : list Z => v)
                            (lane_scores None (value_lane Models.DNanmax) 2 2) (Some 3) ex_zruns))
     = Some [Some (1 # 75); Some (46 # 75); Some (1 # 75); Some (1 # 75)]%Q
  /\ map (fun e => showq (mutual_information ex_edges ex_parts (fun x => (x * x)%Qc)
                            (combine (sample_col (snd e) ex_zrows) (class_col (fst e) ex_zrows)))) (entries 2 2)
     = [Some (1 # 75); Some (46 # 75); Some (1 # 75); Some (1 # 75)]%Q
  (* the joint histogram of (sample 0, word 1): bins [0,4) and [4,8], classes 7, 3, 0, 1 *)
  /\ mia_count_table ex_edges ex_parts (combine (sample_col 0 ex_zrows) (class_col 1 ex_zrows)) = [[1; 1; 0; 0]; [1; 2; 0; 0]]%Z.
Proof. vm_compute. repeat split; reflexivity. Qed.

(* ---- t-test: two calls; first call: set 1 = 3 traces in batches of 2 (2, 1), set 2 = 2 traces in batches of 1, the threads
   interleaved 1, 2, 2, 1; second call: one trace each, thread 2 first.  Processed traces (frame [0; 2], no chain):
   set 1 = (1,5) (2,6) (3,7) (6,9), set 2 = (2,1) (6,1) (4,2) *)
Definition ex_tcont (rows : list (list Z)) (bs : nat) : container (list Qc) unit :=
  {| c_rows := map (fun r => (map q r, tt)) rows; c_fr := ex_fr; c_chain := []; c_bs := bs |}.
Definition ex_call (r1 r2 : list (list Z)) (b1 b2 : nat) (order : list bool) (delay : nat) : tt_call unit :=
  let c1 := ex_tcont r1 b1 in let c2 := ex_tcont r2 b2 in
  {| tc1 := c1; tc2 := c2;
     tc_sched := weave order (Ttest.tag Ttest.T1 (map Ttest.Batch (thread_batches unit c1)))
                             (Ttest.tag Ttest.T2 (map Ttest.Batch (thread_batches unit c2)));
     tc_delay := delay |}.
Definition ex_calls : list (tt_call unit) :=
  [ex_call [[1; 0; 5]; [2; 0; 6]; [3; 0; 7]]%Z [[2; 0; 1]; [6; 0; 1]]%Z 2 1 [false; true; true; false] 0;
   ex_call [[6; 0; 9]]%Z [[4; 0; 2]]%Z 3 1 [true; false] 2].

Example ex_ttest_hypotheses :
  ex_calls <> [] /\ Forall (call_ok unit) ex_calls
  /\ Forall (fun r => length r = 2) (set1 unit ex_calls ++ set2 unit ex_calls).
Proof.
  split; [discriminate|]. split.
  - repeat constructor; try discriminate; try (cbn; lia); apply weave_merge.
  - cbn. repeat constructor.
Qed.

Example ex_ttest_values :
  map (map this) (set1 unit ex_calls) = [[1; 5]; [2; 6]; [3; 7]; [6; 9]]%Q
  /\ map (map this) (set2 unit ex_calls) = [[2; 1]; [6; 1]; [4; 2]]%Q
  /\ map (fun c => map (fun e => (fst e, match snd e with Ttest.Batch b => length b | Ttest.Fail => 0 end)) (tc_sched unit c)) ex_calls
     = [[(Ttest.T1, 2); (Ttest.T2, 1); (Ttest.T2, 1); (Ttest.T1, 1)]; [(Ttest.T2, 1); (Ttest.T1, 1)]]
  /\ forallb (fun j =>
       match Ttest.tt_runs Ttest.tt_fresh (map (fun c => (sched_at j (tc_sched unit c), tc_delay unit c)) ex_calls) with
       | Ttest.Done a' =>
           Ttest.welch_eqb' (Ttest.result a')
                            (Some (Ttest.welch_def (map (at_sample j) (set1 unit ex_calls)) (map (at_sample j) (set2 unit ex_calls))))
       | Ttest.Raised _ => false
       end) [0; 1] = true
  (* sample 0: means 3 and 4, population variances 7/2 and 8/3: (-1, 7/8 + 8/9) *)
  /\ Ttest.welch_eqb (Ttest.welch_def (map (at_sample 0) (set1 unit ex_calls)) (map (at_sample 0) (set2 unit ex_calls)))
                     (Some (Q2Qc (-1 # 1), Q2Qc (127 # 72))) = true.
Proof. vm_compute. repeat split; reflexivity. Qed.
