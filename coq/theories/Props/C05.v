(* Props/C05.v — property C05: AES encrypt/decrypt and every intermediate stop point conform to FIPS-197.
   Only statements closed by [exact]; Print Assumptions beneath each.  Proofs are in Proofs/Aes*.v.

   Spec  = Spec/Fips197.v (written from the standard: GF(2^8) arithmetic, affine map, index formulas; no table).
   Model = Model/Aes.v, the shape of scared/aes/base.py over the tables, coefficient rows, modes and the complete
           _prepare_rounds table regenerated from the source on every run (Generated/AesTables.v, Generated/AesRounds.v).
   Well-formedness (lengths, bytes < 256) is an explicit hypothesis everywhere; inputs outside it are refused by the code
   (_is_bytes_of_len) and by the model (None), and are outside the property.

   Naming of stop points: scared numbers rounds 0..Nr and steps 0..3; round 0 = [id; id; id; ARK], rounds 1..Nr-1 =
   [SB; SR; MC; ARK], round Nr = [SB; SR; id; ARK] (decrypt: [ARK; id; ISR; ISB], [ARK; IMC; ISR; ISB], [ARK; id; id; id]).
   [idx_enc Nr r s] / [idx_dec Nr r s] (Model/Aes.v) is the position, in the FIPS list of all intermediate states
   [Cipher_states] / [InvCipher_states], of the state after exactly that operation (an identity step = the state before it). *)
From Coq Require Import NArith ZArith List Bool Arith.
From ScaredV Require Import Generated.AesTables Generated.AesRounds Spec.Fips197 Run.Compare Model.Aes Proofs.Aes.
Import ListNotations.
Open Scope N_scope.

(* ================================================================ tables (the generated literals are the FIPS functions) *)
Theorem sbox_is_fips : forall x, x < 256 -> tbl SBOX x = sbox_spec x.
Proof. exact AesPrims.sbox_is_fips. Qed.
Print Assumptions sbox_is_fips.

Theorem inv_sbox_is_fips : forall x, x < 256 -> tbl INV_SBOX x = inv_sbox_spec x.
Proof. exact AesPrims.inv_sbox_is_fips. Qed.
Print Assumptions inv_sbox_is_fips.

Theorem inv_sbox_inverts : forall x, x < 256 -> tbl INV_SBOX (tbl SBOX x) = x /\ tbl SBOX (tbl INV_SBOX x) = x.
Proof. exact AesPrims.inv_sbox_inverts. Qed.
Print Assumptions inv_sbox_inverts.

(* XTIME_k[x] = {k} . x in GF(2^8), k = 2, 3, 9, 11, 13, 14 (coefficient 1 = the byte itself) *)
Theorem xtime_k_is_gmul : forall k, In k [1; 2; 3; 9; 11; 13; 14] -> forall x, x < 256 -> xt k x = gmul k x.
Proof. exact AesPrims.xtime_k_is_gmul. Qed.
Print Assumptions xtime_k_is_gmul.

Theorem xtime_tables_are_gmul : forall x, x < 256 ->
  tbl XTIME_2 x = gmul 2 x /\ tbl XTIME_3 x = gmul 3 x /\ tbl XTIME_9 x = gmul 9 x
  /\ tbl XTIME_11 x = gmul 11 x /\ tbl XTIME_13 x = gmul 13 x /\ tbl XTIME_14 x = gmul 14 x.
Proof. exact AesPrims.xtime_tables_are_gmul. Qed.
Print Assumptions xtime_tables_are_gmul.

(* SHIFT_ROWS[r + 4c] = r + 4((c + r) mod 4), INV_SHIFT_ROWS[r + 4c] = r + 4((c - r) mod 4) *)
Theorem shift_rows_table_is_fips :
  SHIFT_ROWS = map (fun i => N.of_nat ((i mod 4) + 4 * ((i / 4 + i mod 4) mod 4))) (seq 0 16)
  /\ INV_SHIFT_ROWS = map (fun i => N.of_nat ((i mod 4) + 4 * ((i / 4 + 4 - i mod 4) mod 4))) (seq 0 16).
Proof. exact AesPrims.shift_rows_table_is_fips. Qed.
Print Assumptions shift_rows_table_is_fips.

Theorem inv_shift_rows_inverts : forall s, length s = 16%nat ->
  inv_shift_rows_m (shift_rows_m s) = s /\ shift_rows_m (inv_shift_rows_m s) = s.
Proof. exact AesPrims.inv_shift_rows_inverts. Qed.
Print Assumptions inv_shift_rows_inverts.

(* RCON[i-1] = Rcon[i] = [x^(i-1); 0; 0; 0] *)
Theorem rcon_is_fips : forall i, (1 <= i <= 10)%nat -> nth (i - 1) RCON [] = Rcon i.
Proof. exact AesPrims.rcon_is_fips. Qed.
Print Assumptions rcon_is_fips.

(* ================================================================ round primitives, on EVERY state *)
Theorem sub_bytes_is_fips : forall s, Forall (fun x => x < 256) s -> sub_bytes_m s = SubBytes s.
Proof. exact AesPrims.sub_bytes_is_fips. Qed.
Print Assumptions sub_bytes_is_fips.

Theorem inv_sub_bytes_is_fips : forall s, Forall (fun x => x < 256) s -> inv_sub_bytes_m s = InvSubBytes s.
Proof. exact AesPrims.inv_sub_bytes_is_fips. Qed.
Print Assumptions inv_sub_bytes_is_fips.

Theorem shift_rows_is_fips : forall s, length s = 16%nat -> shift_rows_m s = ShiftRows s.
Proof. exact AesPrims.shift_rows_is_fips. Qed.
Print Assumptions shift_rows_is_fips.

Theorem inv_shift_rows_is_fips : forall s, length s = 16%nat -> inv_shift_rows_m s = InvShiftRows s.
Proof. exact AesPrims.inv_shift_rows_is_fips. Qed.
Print Assumptions inv_shift_rows_is_fips.

(* one column: XOR over the four rows of roll([X_a[d], X_b[d], X_c[d], X_d[d]], row) = the FIPS matrix product *)
Theorem mix_column_is_fips : forall a b c d, a < 256 -> b < 256 -> c < 256 -> d < 256 ->
  mix_column_m [a; b; c; d] = mat_column MIX [a; b; c; d].
Proof. exact AesPrims.mix_column_is_fips. Qed.
Print Assumptions mix_column_is_fips.

Theorem inv_mix_column_is_fips : forall a b c d, a < 256 -> b < 256 -> c < 256 -> d < 256 ->
  inv_mix_column_m [a; b; c; d] = mat_column INVMIX [a; b; c; d].
Proof. exact AesPrims.inv_mix_column_is_fips. Qed.
Print Assumptions inv_mix_column_is_fips.

Theorem mix_columns_is_fips : forall s, length s = 16%nat -> Forall (fun x => x < 256) s -> mix_columns_m s = MixColumns s.
Proof. exact AesPrims.mix_columns_is_fips. Qed.
Print Assumptions mix_columns_is_fips.

Theorem inv_mix_columns_is_fips : forall s, length s = 16%nat -> Forall (fun x => x < 256) s -> inv_mix_columns_m s = InvMixColumns s.
Proof. exact AesPrims.inv_mix_columns_is_fips. Qed.
Print Assumptions inv_mix_columns_is_fips.

Theorem add_round_key_is_fips : forall s k, add_round_key_m s k = AddRoundKey s k.
Proof. exact AesPrims.add_round_key_is_fips. Qed.
Print Assumptions add_round_key_is_fips.

Theorem inv_mix_column_inverts : forall v, length v = 4%nat -> Forall (fun x => x < 256) v -> inv_mix_column_m (mix_column_m v) = v.
Proof. exact AesPrims.inv_mix_column_inverts. Qed.
Print Assumptions inv_mix_column_inverts.

Theorem inv_mix_columns_inverts : forall s, length s = 16%nat -> Forall (fun x => x < 256) s -> inv_mix_columns_m (mix_columns_m s) = s.
Proof. exact AesPrims.inv_mix_columns_inverts. Qed.
Print Assumptions inv_mix_columns_inverts.

(* ================================================================ key expansion, for EVERY key of 16 / 24 / 32 bytes *)
Theorem key_expansion_is_fips : forall Nk key, In Nk [4; 6; 8]%nat -> wf_key Nk key ->
  key_expansion_m key = Some (KeyExpansion Nk key).
Proof. exact AesKeys.key_expansion_is_fips. Qed.
Print Assumptions key_expansion_is_fips.

Theorem key_schedule_is_fips : forall Nk key, In Nk [4; 6; 8]%nat -> wf_key Nk key ->
  key_schedule_m key = Some (round_keys Nk key).
Proof. exact AesKeys.key_schedule_is_fips. Qed.
Print Assumptions key_schedule_is_fips.

(* ================================================================ encrypt / decrypt at every stop point, for EVERY key and block *)
Theorem encrypt_at_is_fips : forall Nk key block, In Nk [4; 6; 8]%nat -> wf_key Nk key -> wf_block block ->
  forall r s, (r <= Nr_of Nk)%nat -> (s <= 3)%nat ->
  encrypt_m key block r s = Some (nth (idx_enc (Nr_of Nk) r s) (Cipher_states Nk key block) []).
Proof. exact AesCipher.encrypt_at_is_fips_pf. Qed.
Print Assumptions encrypt_at_is_fips.

Theorem decrypt_at_is_fips : forall Nk key block, In Nk [4; 6; 8]%nat -> wf_key Nk key -> wf_block block ->
  forall r s, (r <= Nr_of Nk)%nat -> (s <= 3)%nat ->
  decrypt_m key block r s = Some (nth (idx_dec (Nr_of Nk) r s) (InvCipher_states Nk key block) []).
Proof. exact AesCipher.decrypt_at_is_fips_pf. Qed.
Print Assumptions decrypt_at_is_fips.

(* both arguments left to their defaults *)
Theorem encrypt_full : forall Nk key block, In Nk [4; 6; 8]%nat -> wf_key Nk key -> wf_block block ->
  encrypt_full_m key block = Some (Cipher Nk key block).
Proof. exact AesCipher.encrypt_full_pf. Qed.
Print Assumptions encrypt_full.

Theorem decrypt_full : forall Nk key block, In Nk [4; 6; 8]%nat -> wf_key Nk key -> wf_block block ->
  decrypt_full_m key block = Some (InvCipher Nk key block).
Proof. exact AesCipher.decrypt_full_pf. Qed.
Print Assumptions decrypt_full.

(* one argument left to its default: at_round = Nr, after_step = 3 *)
Theorem defaults_are_last : forall Nk key block, In Nk [4; 6; 8]%nat -> wf_key Nk key -> wf_block block ->
  (forall s, (s <= 3)%nat -> cipher1_m false key block None (Some s) = encrypt_m key block (Nr_of Nk) s
                             /\ cipher1_m true key block None (Some s) = decrypt_m key block (Nr_of Nk) s)
  /\ (forall r, (r <= Nr_of Nk)%nat -> cipher1_m false key block (Some r) None = encrypt_m key block r 3
                                      /\ cipher1_m true key block (Some r) None = decrypt_m key block r 3).
Proof. exact AesCipher.defaults_pf. Qed.
Print Assumptions defaults_are_last.

(* decrypt inverts encrypt: spec level, and for the model *)
Theorem InvCipher_inverts_Cipher : forall Nk key block, In Nk [4; 6; 8]%nat -> wf_key Nk key -> wf_block block ->
  InvCipher Nk key (Cipher Nk key block) = block /\ wf_block (Cipher Nk key block).
Proof. exact AesCipher.InvCipher_Cipher. Qed.
Print Assumptions InvCipher_inverts_Cipher.

Theorem decrypt_encrypt : forall Nk key block, In Nk [4; 6; 8]%nat -> wf_key Nk key -> wf_block block ->
  exists c, encrypt_full_m key block = Some c /\ decrypt_full_m key c = Some block.
Proof. exact AesCipher.decrypt_encrypt_pf. Qed.
Print Assumptions decrypt_encrypt.

(* the four broadcasting shapes are map / map2 of the one-key one-block function.  TRUE OF THE MODEL BY CONSTRUCTION:
   its content (numpy replication of a 1-D state per key, round_keys[:, i], squeeze) is carried by the C-tie. *)
Theorem broadcast_elementwise : forall dec ar st,
  (forall k b, cipher_m dec (One k) (One b) ar st = all_some [cipher1_m dec k b ar st])
  /\ (forall k bs, cipher_m dec (One k) (Many bs) ar st = all_some (map (fun b => cipher1_m dec k b ar st) bs))
  /\ (forall ks b, cipher_m dec (Many ks) (One b) ar st = all_some (map (fun k => cipher1_m dec k b ar st) ks))
  /\ (forall ks bs, length ks = length bs ->
        cipher_m dec (Many ks) (Many bs) ar st = all_some (map2 (fun k b => cipher1_m dec k b ar st) ks bs)).
Proof. exact AesCipher.broadcast_elementwise_pf. Qed.
Print Assumptions broadcast_elementwise.

(* count boundaries (C-tie on up to 131073 rows made of a few distinct (key, block) pairs, given run-length encoded): a row-wise
   function commutes with the expansion, and run_row names the distinct row standing at position i of the expansion.  Since the
   four shapes are map / map2 of the one-key one-block function (above), comparing row i of the big result with the result of
   the pair run_row finds is comparing it with row i of the expanded expected result. *)
Theorem rowwise_commutes_with_expansion : forall (A B : Type) (f : A -> B) (d : A) (rows : list A) (runs : list (nat * N)),
  map f (expand d rows runs) = expand (f d) (map f rows) runs.
Proof. exact @AesCounts.map_expand. Qed.
Print Assumptions rowwise_commutes_with_expansion.

Theorem run_row_is_position : forall (A : Type) (d : A) (rows : list A) (runs : list (nat * N)) (i : N) (k : nat),
  run_row runs i = Some k -> nth (N.to_nat i) (expand d rows runs) d = nth k rows d.
Proof. exact @AesCounts.nth_expand. Qed.
Print Assumptions run_row_is_position.

Theorem run_row_defined_below_total : forall (runs : list (nat * N)) (i : N), i < runs_total runs -> exists k, run_row runs i = Some k.
Proof. exact AesCounts.run_row_total. Qed.
Print Assumptions run_row_defined_below_total.

(* ================================================================ non-vacuity: FIPS-197 appendix vectors meet the hypotheses
   and the model returns the published values (full cipher and intermediate stop points) *)
Definition kB := bytes_be 16 0x2b7e151628aed2a6abf7158809cf4f3c.
Definition pB := bytes_be 16 0x3243f6a8885a308d313198a2e0370734.
Definition kC1 := bytes_be 16 0x000102030405060708090a0b0c0d0e0f.
Definition kC2 := bytes_be 24 0x000102030405060708090a0b0c0d0e0f1011121314151617.
Definition kC3 := bytes_be 32 0x000102030405060708090a0b0c0d0e0f101112131415161718191a1b1c1d1e1f.
Definition pC := bytes_be 16 0x00112233445566778899aabbccddeeff.

Example vectors_well_formed :
  wf_key 4 kB /\ wf_key 4 kC1 /\ wf_key 6 kC2 /\ wf_key 8 kC3 /\ wf_block pB /\ wf_block pC.
Proof. repeat split; (reflexivity || (apply AesPrims.is_bytes_sound; vm_compute; reflexivity)). Qed.

(* Appendix B: start of round 1 (= round 0 after ARK), after SubBytes / ShiftRows / MixColumns of round 1, start of round 2, output *)
Example appendix_B :
  encrypt_m kB pB 0 3 = Some (bytes_be 16 0x193de3bea0f4e22b9ac68d2ae9f84808)
  /\ encrypt_m kB pB 1 0 = Some (bytes_be 16 0xd42711aee0bf98f1b8b45de51e415230)
  /\ encrypt_m kB pB 1 1 = Some (bytes_be 16 0xd4bf5d30e0b452aeb84111f11e2798e5)
  /\ encrypt_m kB pB 1 2 = Some (bytes_be 16 0x046681e5e0cb199a48f8d37a2806264c)
  /\ encrypt_m kB pB 1 3 = Some (bytes_be 16 0xa49c7ff2689f352b6b5bea43026a5049)
  /\ encrypt_m kB pB 10 3 = Some (bytes_be 16 0x3925841d02dc09fbdc118597196a0b32)
  /\ encrypt_full_m kB pB = Some (bytes_be 16 0x3925841d02dc09fbdc118597196a0b32)
  /\ decrypt_full_m kB (bytes_be 16 0x3925841d02dc09fbdc118597196a0b32) = Some pB.
Proof. vm_compute. repeat split; reflexivity. Qed.

(* Appendix C.1: round[10].s_box / s_row, output; inverse cipher round[1].is_row / is_box / ik_add (= round 1, step 0), output *)
Example appendix_C1 :
  encrypt_m kC1 pC 10 0 = Some (bytes_be 16 0x7a9f102789d5f50b2beffd9f3dca4ea7)
  /\ encrypt_m kC1 pC 10 1 = Some (bytes_be 16 0x7ad5fda789ef4e272bca100b3d9ff59f)
  /\ encrypt_m kC1 pC 10 2 = Some (bytes_be 16 0x7ad5fda789ef4e272bca100b3d9ff59f)
  /\ encrypt_full_m kC1 pC = Some (bytes_be 16 0x69c4e0d86a7b0430d8cdb78070b4c55a)
  /\ decrypt_m kC1 (bytes_be 16 0x69c4e0d86a7b0430d8cdb78070b4c55a) 0 0 = Some (bytes_be 16 0x7ad5fda789ef4e272bca100b3d9ff59f)
  /\ decrypt_m kC1 (bytes_be 16 0x69c4e0d86a7b0430d8cdb78070b4c55a) 0 2 = Some (bytes_be 16 0x7a9f102789d5f50b2beffd9f3dca4ea7)
  /\ decrypt_m kC1 (bytes_be 16 0x69c4e0d86a7b0430d8cdb78070b4c55a) 0 3 = Some (bytes_be 16 0xbd6e7c3df2b5779e0b61216e8b10b689)
  /\ decrypt_m kC1 (bytes_be 16 0x69c4e0d86a7b0430d8cdb78070b4c55a) 1 0 = Some (bytes_be 16 0xe9f74eec023020f61bf2ccf2353c21c7)
  /\ decrypt_m kC1 (bytes_be 16 0x69c4e0d86a7b0430d8cdb78070b4c55a) 1 1 = Some (bytes_be 16 0x54d990a16ba09ab596bbf40ea111702f)
  /\ decrypt_full_m kC1 (bytes_be 16 0x69c4e0d86a7b0430d8cdb78070b4c55a) = Some pC.
Proof. vm_compute. repeat split; reflexivity. Qed.

Example appendix_C2_C3 :
  encrypt_full_m kC2 pC = Some (bytes_be 16 0xdda97ca4864cdfe06eaf70a0ec0d7191)
  /\ decrypt_full_m kC2 (bytes_be 16 0xdda97ca4864cdfe06eaf70a0ec0d7191) = Some pC
  /\ encrypt_m kC2 pC 1 3 = Some (bytes_be 16 0x4f63760643e0aa85aff8c9d041fa0de4)
  /\ encrypt_full_m kC3 pC = Some (bytes_be 16 0x8ea2b7ca516745bfeafc49904b496089)
  /\ decrypt_full_m kC3 (bytes_be 16 0x8ea2b7ca516745bfeafc49904b496089) = Some pC
  /\ encrypt_m kC3 pC 1 3 = Some (bytes_be 16 0x4f63760643e0aa85efa7213201a4e705).
Proof. vm_compute. repeat split; reflexivity. Qed.

(* Appendix A: the model of key_schedule on the three example keys: last round key of A.1, w51 of A.2, w59 of A.3 *)
Example appendix_A :
  option_map (fun rk => nth 10 rk []) (key_schedule_m kB) = Some (bytes_be 16 0xd014f9a8c9ee2589e13f0cc8b6630ca6)
  /\ option_map (fun rk => skipn 12 (nth 12 rk []))
       (key_schedule_m (bytes_be 24 0x8e73b0f7da0e6452c810f32b809079e562f8ead2522c6b7b)) = Some (bytes_be 4 0x01002202)
  /\ option_map (fun rk => skipn 12 (nth 14 rk []))
       (key_schedule_m (bytes_be 32 0x603deb1015ca71be2b73aef0857d77811f352c073b6108d72d9810a30914dff4)) = Some (bytes_be 4 0x706c631e).
Proof. vm_compute. repeat split; reflexivity. Qed.

(* the four shapes, on the Appendix C vectors: the paired shape with two different keys, and a refused one *)
Example shapes_example :
  cipher_m false (Many [kC1; kB]) (Many [pC; pB]) None None
    = Some [bytes_be 16 0x69c4e0d86a7b0430d8cdb78070b4c55a; bytes_be 16 0x3925841d02dc09fbdc118597196a0b32]
  /\ cipher_m false (Many [kC1; kB]) (One pC) (Some 0%nat) (Some 3%nat)
    = Some [bytes_be 16 0x00102030405060708090a0b0c0d0e0f0; AddRoundKey pC kB]
  /\ cipher_m false (Many [kC1; kB]) (Many [pC]) None None = None.
Proof. vm_compute. repeat split; reflexivity. Qed.
