(* Props/C03.v — property C03: CPA (standard and alternative) = Pearson correlation, DPA = difference of class means,
   (word dims, sample) layout, NaN discipline.  Only statements closed by [exact]; Print Assumptions beneath each.
   Proofs are in Proofs/Cpa.v, definitions in Model/Cpa.v, Lib/QcSum.v, Lib/Arr.v.

   Reading guide.  Everything statistical is about ONE entry of the result: a (word, sample) pair.  Its input is the list
   l of observations over all processed traces, in order: (x, y) = (the sample of the trace, the word of the trace) for
   CPA, (x, b) = (the sample, the bit) for DPA; values are exact rationals (Qc).
     qsum / qlen / qmean   sum, length, mean of a list            (Lib/QcSum.v)
     ssd l                 sum over l of (x - mean l)^2
     scd l                 sum over l of (x - mean x)(y - mean y)
     pearson l             Some (scd l, ssd xs, ssd ys), read  r = scd / sqrt (ssd xs * ssd ys);  None when a spread is 0
     dpa_spec l            Some (mean {x | b = 1} - mean {x | b = 0});  None when a class is empty
     cpa_acc l / dpa_acc l the accumulators of cpa.py / dpa.py after update() on the rows l (sum the batch, add it)
     cpa_feed batches      the same after one update() per batch
     cpa_comp / cpa_alt_comp / dpa_comp   _compute on the accumulators; None = the code's NaN.  For CPA: None where the
                           running minimum of the sample or of the word equals its running maximum (cpa_undefined, the rule of
                           the repaired code), else the formula (cpa_formula / cpa_alt_formula, None on a zero denominator)
   Square roots never appear: a correlation is the triple (num, dx, dy);  same_r t t'  says two triples denote the
   same real number (cross-multiplied squares agree, numerators have the same sign). *)
From Coq Require Import ZArith QArith Qcanon List Bool Lia.
From ScaredV Require Import Lib.QcSum Lib.Arr Run.Compare Model.Accum Model.Cpa Proofs.Cpa.
Import ListNotations.
Local Open Scope Qc_scope.

(* ---------------------------------------------------------------- CPA, standard formulation *)
(* for every non-empty list of rows (any length >= 1) the triple computed from the accumulators
   (exy - ex (ey/n),  ex2 - n (ex/n)^2,  ey2 - n (ey/n)^2)  IS  Pearson's (scd, ssd x, ssd y), and it is undefined (NaN)
   exactly when Pearson's coefficient is *)
Theorem cpa_is_pearson :
  forall l : list obs, l <> [] -> cpa_comp (cpa_acc l) = pearson l.
Proof. exact cpa_is_pearson_thm. Qed.
Print Assumptions cpa_is_pearson.

(* "over all processed traces": whatever the split into update() batches (empty batches included) *)
Theorem cpa_is_pearson_any_batching :
  forall batches : list (list obs), concat batches <> [] -> cpa_comp (cpa_feed batches) = pearson (concat batches).
Proof. exact cpa_batches_is_pearson. Qed.
Print Assumptions cpa_is_pearson_any_batching.

(* ---------------------------------------------------------------- CPA, alternative formulation *)
(* the alternative triple (n exy - ey ex, n ex2 - ex^2, n ey2 - ey^2) is n times Pearson's triple component-wise,
   n = number of traces > 0: undefined exactly when Pearson is, and otherwise the same r (cross-multiplied triple and
   sign), with positive spreads *)
Theorem cpa_alt_is_pearson :
  forall l : list obs, l <> [] ->
  (cpa_alt_comp (cpa_acc l) = None <-> pearson l = None)
  /\ forall t, pearson l = Some t ->
       exists t', cpa_alt_comp (cpa_acc l) = Some t' /\ t' = scale3 (qlen l) t /\ same_r t t'
                  /\ 0 < snd (fst t') /\ 0 < snd t'.
Proof. exact cpa_alt_is_pearson_thm. Qed.
Print Assumptions cpa_alt_is_pearson.

Theorem cpa_alt_is_scaled_pearson :
  forall l : list obs, l <> [] -> cpa_alt_comp (cpa_acc l) = option_map (scale3 (qlen l)) (pearson l).
Proof. exact cpa_alt_scaled. Qed.
Print Assumptions cpa_alt_is_scaled_pearson.

(* ---------------------------------------------------------------- DPA *)
(* for every list of rows (any length, any batching): ones/|ones| - (all - ones)/(n - |ones|) is the mean of the traces
   whose bit is 1 minus the mean of the traces whose bit is 0, and it is undefined exactly when a class is empty *)
Theorem dpa_is_mean_difference :
  forall l : list dobs, dpa_comp (dpa_acc l) = dpa_spec l.
Proof. exact dpa_is_mean_difference_thm. Qed.
Print Assumptions dpa_is_mean_difference.

Theorem dpa_is_mean_difference_any_batching :
  forall batches : list (list dobs), dpa_comp (dpa_feed batches) = dpa_spec (concat batches).
Proof. exact dpa_batches_is_mean_difference. Qed.
Print Assumptions dpa_is_mean_difference_any_batching.

(* ---------------------------------------------------------------- NaN discipline *)
(* an entry is undefined (None = NaN) IFF its sample is constant over the processed traces or its word is constant
   (both CPA formulations); a DPA entry IFF its bit is 0 on every trace or 1 on every trace.  (That other entries are not
   disturbed is [entries_independent] below: an entry is a function of its own two columns.) *)
Theorem undefined_iff_degenerate :
  (forall l : list obs, l <> [] ->
     (cpa_comp (cpa_acc l) = None <-> constant (map fst l) \/ constant (map snd l))
     /\ (cpa_alt_comp (cpa_acc l) = None <-> constant (map fst l) \/ constant (map snd l)))
  /\ (forall l : list dobs,
        dpa_comp (dpa_acc l) = None <-> (forall p, In p l -> snd p = false) \/ (forall p, In p l -> snd p = true)).
Proof. exact undefined_iff_degenerate_thm. Qed.
Print Assumptions undefined_iff_degenerate.

Theorem pearson_undefined_iff_constant :
  forall l : list obs, pearson l = None <-> constant (map fst l) \/ constant (map snd l).
Proof. exact pearson_none_iff. Qed.
Print Assumptions pearson_undefined_iff_constant.

(* the NaN rule of the repaired code (min = max on the sample or on the word, tracked by update) IS the degeneracy test
   of the spec: a non-empty column is constant iff its running minimum equals its running maximum ... *)
Theorem constant_iff_min_eq_max :
  forall l : list Qc, l <> [] -> (constant l <-> omin l = omax l).
Proof. exact Proofs.Cpa.constant_iff_min_eq_max. Qed.
Print Assumptions constant_iff_min_eq_max.

(* ... so the rule fires on exactly the entries whose Pearson coefficient is undefined, and on the others the accumulator
   formulas alone already give Pearson's triple (resp. n times it) *)
Theorem nan_rule_is_the_degeneracy_test :
  forall l : list obs, l <> [] ->
  (cpa_undefined (cpa_acc l) = true <-> constant (map fst l) \/ constant (map snd l))
  /\ cpa_formula (cpa_acc l) = pearson l
  /\ cpa_alt_formula (cpa_acc l) = option_map (scale3 (qlen l)) (pearson l).
Proof. exact (fun l Hl => conj (cpa_undefined_iff l Hl) (conj (cpa_formula_is_pearson l Hl) (cpa_alt_formula_scaled l Hl))). Qed.
Print Assumptions nan_rule_is_the_degeneracy_test.

(* ---------------------------------------------------------------- layout *)
(* [distinguisher_result stat dims S traces data] models update + compute of base.py for ANY per-entry statistic [stat]:
   each trace's word array (a function on multi-indices of shape dims) is put in C order (data.reshape((n, -1))), the
   (prod dims, S) table of entries is formed, and its C-order sequence is read with shape dims ++ [S]
   (reshape(origin_shape[1:] + (-1,))).  Entry (i1..ik, s) of the result is the statistic of sample column s against the word
   at (i1..ik) of the data passed in — the row-major word index flatten dims (i1..ik) on the way in and on the way out. *)
Theorem layout :
  forall (X Y O : Type) (dX : X) (dY : Y) (dO : O) (stat : list (X * Y) -> O)
         (dims : list nat) (S : nat) (traces : list (list X)) (data : list (list nat -> Y)) (idx : list nat) (s : nat),
  in_range dims idx -> (s < S)%nat ->
  distinguisher_result X Y O dX dY dO stat dims S traces data (idx ++ [s])
  = stat (combine (col dX s traces) (map (fun a => a idx) data)).
Proof. exact layout_thm. Qed.
Print Assumptions layout.

(* an entry depends on its own sample column and its own word only: a degenerate column elsewhere cannot disturb it *)
Theorem entries_independent :
  forall (X Y O : Type) (dX : X) (dY : Y) (dO : O) (stat : list (X * Y) -> O)
         (dims : list nat) (S : nat) (traces traces' : list (list X)) (data data' : list (list nat -> Y)) (idx : list nat) (s : nat),
  in_range dims idx -> (s < S)%nat ->
  col dX s traces = col dX s traces' -> map (fun a => a idx) data = map (fun a => a idx) data' ->
  distinguisher_result X Y O dX dY dO stat dims S traces data (idx ++ [s])
  = distinguisher_result X Y O dX dY dO stat dims S traces' data' (idx ++ [s]).
Proof. exact entries_independent_thm. Qed.
Print Assumptions entries_independent.

(* row-major flattening is a bijection between in-range multi-indices and offsets below the number of cells *)
Theorem flatten_is_a_bijection :
  forall shape : list nat,
  (forall idx, in_range shape idx -> (flatten shape idx < prod shape)%nat /\ unflatten shape (flatten shape idx) = idx)
  /\ (forall k, (k < prod shape)%nat -> in_range shape (unflatten shape k) /\ flatten shape (unflatten shape k) = k).
Proof. exact flatten_bijection. Qed.
Print Assumptions flatten_is_a_bijection.

(* ---------------------------------------------------------------- |r| <= 1 (Cauchy-Schwarz), used by C17 *)
Theorem pearson_bounds :
  forall l : list obs, sq (scd l) <= ssd (map fst l) * ssd (map snd l).
Proof. exact pearson_bounds_thm. Qed.
Print Assumptions pearson_bounds.

Theorem cpa_result_bounds :
  forall (l : list obs) (num dx dy : Qc), l <> [] ->
  cpa_comp (cpa_acc l) = Some (num, dx, dy) -> sq num <= dx * dy /\ 0 < dx /\ 0 < dy.
Proof. exact cpa_output_bounds. Qed.
Print Assumptions cpa_result_bounds.

(* ---------------------------------------------------------------- accumulator algebra (for C01 / C16 via Model/Accum.v) *)
Theorem cpa_accumulator_monoid :
  (forall a b c, cst_plus a (cst_plus b c) = cst_plus (cst_plus a b) c)
  /\ (forall a, cst_plus a cst_zero = a) /\ (forall a, cst_plus cst_zero a = a) /\ (forall a b, cst_plus a b = cst_plus b a).
Proof. exact (conj cst_plus_assoc (conj cst_plus_zero_r (conj cst_plus_zero_l cst_plus_comm))). Qed.
Print Assumptions cpa_accumulator_monoid.

Theorem dpa_accumulator_monoid :
  (forall a b c, dst_plus a (dst_plus b c) = dst_plus (dst_plus a b) c)
  /\ (forall a, dst_plus a dst_zero = a) /\ (forall a, dst_plus dst_zero a = a) /\ (forall a b, dst_plus a b = dst_plus b a).
Proof. exact (conj dst_plus_assoc (conj dst_plus_zero_r (conj dst_plus_zero_l dst_plus_comm))). Qed.
Print Assumptions dpa_accumulator_monoid.

(* ---------------------------------------------------------------- what the correspondence check compares with *)
(* the function evaluated on every run is the spec itself (means shared for speed) ... *)
Theorem check_uses_the_spec : forall l : list obs, pearson_fast l = pearson l.
Proof. exact pearson_fast_eq. Qed.
Print Assumptions check_uses_the_spec.

(* ... and its sqrt-free interval test means |r - num / s| <= tol for every positive s with s^2 = dx dy *)
Theorem check_interval_test :
  forall r tol num D s : Q, (0 < s)%Q -> (s * s == D)%Q ->
  (close_r r tol num D = true <-> ((r - tol) * s <= num)%Q /\ (num <= (r + tol) * s)%Q).
Proof. exact close_r_sound. Qed.
Print Assumptions check_interval_test.

(* large trace counts are given run-length encoded, (row, repetitions) in feeding order; the weighted spec evaluated on the runs
   is the spec of the expanded list of rows, for every list of runs *)
Theorem run_length_spec_is_the_spec :
  (forall wl : list (obs * positive), pearson_w wl = pearson (expand wl))
  /\ (forall wl : list (dobs * positive), dpa_spec_w wl = dpa_spec (expand wl)).
Proof. exact (conj pearson_w_expand dpa_spec_w_expand). Qed.
Print Assumptions run_length_spec_is_the_spec.

(* compute() between updates: in EVERY history of update(batch) / compute() calls, each compute() returns the statistic of
   the rows fed so far — whatever was computed before (compute is pure; entries that were undefined at an earlier compute
   become defined as soon as their columns stop being degenerate).  [run] is Model/Accum.run, [spec_history spec [] h] lists
   spec (rows fed before that call) for every Compute of h. *)
Theorem compute_in_any_history :
  (forall h : list (op obs),
     snd (run cst obs (option triple) cst_zero cst_plus cpa_contrib cpa_comp cst_zero h) = spec_history pearson [] h)
  /\ (forall h : list (op obs),
     snd (run cst obs (option triple) cst_zero cst_plus cpa_contrib cpa_alt_comp cst_zero h)
     = spec_history (fun l => option_map (scale3 (qlen l)) (pearson l)) [] h)
  /\ (forall h : list (op dobs),
     snd (run dst dobs (option Qc) dst_zero dst_plus dpa_contrib dpa_comp dst_zero h) = spec_history dpa_spec [] h).
Proof. exact (conj cpa_history_thm (conj cpa_alt_history_thm dpa_history_thm)). Qed.
Print Assumptions compute_in_any_history.

(* ================================================================ non-vacuity *)
Definition q (z : Z) : Qc := qz z.
Definition show3 (t : option triple) : option (Q * Q * Q) :=
  option_map (fun t : triple => let '(a, b, c) := t in (this a, this b, this c)) t.

(* four traces, sample x = 1 2 4 5, word y = 2 3 1 6:  mean x = 3, mean y = 3, scd = 6, ssd x = 10, ssd y = 14 *)
Definition ex_l : list obs := [(q 1, q 2); (q 2, q 3); (q 4, q 1); (q 5, q 6)].
Example ex_nonempty : ex_l <> []. Proof. discriminate. Qed.
Example ex_cpa : show3 (cpa_comp (cpa_acc ex_l)) = Some (6 # 1, 10 # 1, 14 # 1)%Q /\ show3 (pearson ex_l) = Some (6 # 1, 10 # 1, 14 # 1)%Q.
Proof. split; vm_compute; reflexivity. Qed.
Example ex_cpa_batches : show3 (cpa_comp (cpa_feed [[(q 1, q 2)]; []; [(q 2, q 3); (q 4, q 1)]; [(q 5, q 6)]])) = Some (6 # 1, 10 # 1, 14 # 1)%Q.
Proof. vm_compute. reflexivity. Qed.
Example ex_alt : show3 (cpa_alt_comp (cpa_acc ex_l)) = Some (24 # 1, 40 # 1, 56 # 1)%Q.
Proof. vm_compute. reflexivity. Qed.
(* constant sample / constant word: undefined; the hypotheses of undefined_iff_degenerate are met on both sides *)
Example ex_constant_sample : cpa_comp (cpa_acc [(q 5, q 0); (q 5, q 0); (q 5, q 1)]) = None
                             /\ cpa_alt_comp (cpa_acc [(q 5, q 0); (q 5, q 0); (q 5, q 1)]) = None.
Proof. split; vm_compute; reflexivity. Qed.
Example ex_constant_word : pearson [(q 1, q 3); (q 2, q 3)] = None.
Proof. vm_compute. reflexivity. Qed.
Example ex_min_eq_max : option_map this (omin [q 5; q 5; q 5]) = Some (5 # 1)%Q /\ option_map this (omax [q 5; q 5; q 5]) = Some (5 # 1)%Q
                        /\ option_map this (omin [q 4; q 1; q 6]) = Some (1 # 1)%Q /\ option_map this (omax [q 4; q 1; q 6]) = Some (6 # 1)%Q
                        /\ cpa_undefined (cpa_acc [(q 5, q 0); (q 5, q 0); (q 5, q 1)]) = true /\ cpa_undefined (cpa_acc ex_l) = false.
Proof. repeat split; vm_compute; reflexivity. Qed.
Example ex_r_minus_one : show3 (pearson [(q 1, q 5); (q 2, q 3); (q 3, q 1)]) = Some (-4 # 1, 2 # 1, 8 # 1)%Q.   (* (-4)^2 = 2 * 8 *)
Proof. vm_compute. reflexivity. Qed.

(* DPA: bit-1 traces 4, 8 (mean 6), bit-0 traces 1, 2, 6 (mean 3) *)
Definition ex_d : list dobs := [(q 4, true); (q 1, false); (q 2, false); (q 8, true); (q 6, false)].
Example ex_dpa : option_map this (dpa_comp (dpa_acc ex_d)) = Some (3 # 1)%Q /\ option_map this (dpa_spec ex_d) = Some (3 # 1)%Q.
Proof. split; vm_compute; reflexivity. Qed.
Example ex_dpa_empty_class : dpa_comp (dpa_acc [(q 4, true); (q 1, true)]) = None /\ dpa_comp (dpa_acc [(q 4, false)]) = None.
Proof. split; vm_compute; reflexivity. Qed.

(* layout: words of shape (2, 3), 2 samples, 2 traces; the statistic returns its own input so that the entry shows
   which columns it was computed from: entry (1, 2, s = 1) pairs sample 1 with the word at (1, 2) *)
Definition ex_word (t : nat) (idx : list nat) : nat := (100 * t + 10 * nth 0 idx 0 + nth 1 idx 0)%nat.
Example ex_in_range : in_range [2; 3]%nat [1; 2]%nat. Proof. cbn. lia. Qed.
Example ex_layout :
  distinguisher_result nat nat (list (nat * nat)) 0%nat 0%nat [] (fun l => l) [2; 3]%nat 2
    [[7; 8]; [9; 10]]%nat [ex_word 0; ex_word 1] [1; 2; 1]%nat
  = [(8, 12); (10, 112)]%nat.
Proof. vm_compute. reflexivity. Qed.

(* the correspondence check accepts a correct observation and rejects wrong ones (n-1 for n; +inf for NaN):
   traces x = 1 2 4 5 and constant 3, word y = 2 3 1 6; r = 6 / sqrt 140 = 0.50709255283711 = 1141870915999781 * 2^-51 *)
Definition ex_case (v1 v2 : fval) : cpa_case :=
  {| k_kind := KCpa; k_prec := F64; k_dims := [1]%nat; k_S := 2%nat; k_tden := 1; k_traces := [[1; 3]; [2; 3]; [4; 3]; [5; 3]]%Z;
     k_dden := 1; k_data := [[2]; [3]; [1]; [6]]%Z; k_obs_shape := [1; 2]%nat; k_obs := [v1; v2] |}.
Example ex_check_accepts : cpa_check (ex_case (Fin 1141870915999781 (-51)) NaN) = true.
Proof. vm_compute. reflexivity. Qed.
Example ex_check_rejects :
  cpa_check (ex_case (Fin 1141870915999781 (-50)) NaN) = false          (* twice r *)
  /\ cpa_check (ex_case (Fin 1141870915999781 (-51)) PInf) = false      (* infinite where undefined *)
  /\ cpa_check (ex_case (Fin 1141870915999781 (-51)) (Fin 0 0)) = false (* finite where undefined *)
  /\ cpa_check (ex_case NaN NaN) = false                                (* NaN where defined and well conditioned *)
  /\ cpa_check (ex_case (Fin (-1141870915999781) (-51)) NaN) = false.   (* wrong sign *)
Proof. repeat split; vm_compute; reflexivity. Qed.

(* run-length: 3 x (1,2), 2 x (4,1), 1 x (5,6) is the six-row list; 131072 balanced DPA traces: difference 2 - 1 = 1 *)
Example ex_run_length :
  show3 (pearson_w [((q 1, q 2), 3%positive); ((q 4, q 1), 2%positive); ((q 5, q 6), 1%positive)])
  = show3 (pearson [(q 1, q 2); (q 1, q 2); (q 1, q 2); (q 4, q 1); (q 4, q 1); (q 5, q 6)]).
Proof. vm_compute. reflexivity. Qed.
Definition ex_rl (v : fval) : rl_case :=
  {| r_kind := KDpa; r_prec := F64; r_W := 1%nat;
     r_runs := [(2, [1], 30000%positive); (1, [0], 65536%positive); (2, [1], 35536%positive)]%Z;
     r_obs_shape := [1; 1]%nat; r_obs := [v] |}.
Example ex_rl_check : rl_check (ex_rl (Fin 1 0)) = true /\ rl_check (ex_rl PInf) = false /\ rl_check (ex_rl (Fin 1 3)) = false.
Proof. repeat split; vm_compute; reflexivity. Qed.

(* a history: one row with bit 0 (bit-1 class empty: undefined), compute, two more rows, compute (defined: 8 - 3 = 5), compute *)
Example ex_history :
  map (option_map this) (snd (run dst dobs (option Qc) dst_zero dst_plus dpa_contrib dpa_comp dst_zero
        [Update [(q 4, false)]; Compute; Update [(q 8, true); (q 2, false)]; Compute; Compute]))
  = [None; Some (5 # 1)%Q; Some (5 # 1)%Q].
Proof. vm_compute. reflexivity. Qed.
Example ex_hist_check :
  hist_check {| h_final := ex_case (Fin 1141870915999781 (-51)) NaN; h_prefix := [(1%nat, ([1; 2]%nat, [NaN; NaN])); (3%nat, ([1; 2]%nat, [Fin (-5896596054914346) (-53); NaN]))] |} = true
  /\ hist_check {| h_final := ex_case (Fin 1141870915999781 (-51)) NaN; h_prefix := [(3%nat, ([1; 2]%nat, [NaN; NaN]))] |} = false.
Proof. split; vm_compute; reflexivity. Qed.

(* wide layout: 3 words (all the column 2 3 1 6) x 3 samples (column 1 2 4 5 twice, then the constant 3) *)
Definition ex_wide (obs : list (nat * nat * fval)) : wide_case :=
  {| w_kind := KCpa; w_prec := F64; w_dims := [3]%nat; w_scols := [[1; 2; 4; 5]; [3; 3; 3; 3]]%Z; w_wcols := [[2; 3; 1; 6]]%Z;
     w_slayout := [(0%nat, 2%positive); (1%nat, 1%positive)]; w_wlayout := [(0%nat, 3%positive)];
     w_obs_shape := [3; 3]%nat; w_obs := obs |}.
Example ex_wide_check :
  wide_check (ex_wide [(2%nat, 1%nat, Fin 1141870915999781 (-51)); (0%nat, 2%nat, NaN)]) = true
  /\ wide_check (ex_wide [(2%nat, 2%nat, Fin 1141870915999781 (-51))]) = false       (* finite where the sample is constant *)
  /\ wide_check (ex_wide [(3%nat, 0%nat, NaN)]) = false.                               (* position outside the result *)
Proof. repeat split; vm_compute; reflexivity. Qed.
