(* Props/C14.v — property C14: templates are class means with pooled covariance; matching is Mahalanobis.
   Only statements closed by [exact]; Print Assumptions beneath each.  Proofs are in Proofs/Template.v, the definitions in
   Model/Template.v (repaired behaviour: fix commits d6ba958 and 9ec0cc6).

   Reading guide.  Numbers are exact rationals (Qc).  A building trace is (class value, samples) : brow; a matching trace is
   (hypothesis class values, one per candidate; samples) : mrowt.  A container is given as the list of its batches.
     feedB parts s batches      the build accumulators (per declared class: count, sum x, sum x (x) x) after update(batch) ...
     template s k j             _compute: templates[k][j]            pooled parts s i j     _compute: pooled_covariance[i][j]
     class_rows parts k rows    the samples of the traces of [rows] whose value is the class declared at position k
                                (classes are found BY VALUE, [class_index]; traces with an undeclared value are ignored)
     class_mean xs j            mean of sample j over xs             scatter xs i j         sum_x (x_i - mean_i)(x_j - mean_j)
     unbiased_cov xs i j        scatter / (n - 1) when n >= 2, and 0 when n <= 1 (see small_class_contributes_zero)
     feedM P S T m parts G s batches   the matching accumulators (processed, _scores) ; mcomp G  =  10 - _scores / processed
     quad P S d                 d^T P d = sum_i sum_j d_i P_ij d_j    code_form P S d        sum((d . P) o d) as the code computes it
     maha ... r g               quad P S (trace - template selected for candidate g on trace r)  (sel: Static -> row g,
                                Dpa -> the class declared with the hypothesis value)
     mean_distance ... rows g   (sum_r maha r g) / S / |rows|          P is ANY matrix (whatever pinv returned).
   Every theorem is for ALL class lists, trace lengths, batchings, traces and matrices P. *)
From Coq Require Import ZArith QArith Qcanon List Bool Lia.
From ScaredV Require Import Run.Compare Lib.QcSum Model.Accum Model.Template Proofs.Template.
Import ListNotations.
Local Open Scope Qc_scope.

(* ---------------------------------------------------------------------------------------------- build *)

(* the accumulators hold, for every class, the count / sum / sum of products of the traces OF THAT CLASS, whatever the batching *)
Theorem build_state_is_class_sums :
  forall (parts : list Z) (batches : list (list brow)) (k i j : nat),
  let s := feedB parts st_zero batches in let xs := class_rows parts k (concat batches) in
  cnt s k = qlen xs /\ csum s k j = qsum (col j xs) /\ cxx s k i j = qsum (map (fun x => vget x i * vget x j) xs).
Proof. exact state_is_class_sums_thm. Qed.
Print Assumptions build_state_is_class_sums.

(* template k is the mean of the building traces whose value is class k *)
Theorem template_is_class_mean :
  forall (parts : list Z) (batches : list (list brow)) (k j : nat),
  let rows := concat batches in
  class_rows parts k rows <> [] ->
  template (feedB parts st_zero batches) k j = class_mean (class_rows parts k rows) j.
Proof. exact template_is_class_mean_thm. Qed.
Print Assumptions template_is_class_mean.

(* ... in particular the template of a class with exactly one trace is that trace (D8, d6ba958) *)
Theorem template_of_singleton_class :
  forall (parts : list Z) (batches : list (list brow)) (k j : nat) (x : vec),
  class_rows parts k (concat batches) = [x] ->
  template (feedB parts st_zero batches) k j = vget x j.
Proof. exact template_singleton_thm. Qed.
Print Assumptions template_of_singleton_class.

(* ... and a declared class without any trace gets the zero row (its mean is undefined; stated, not hidden) *)
Theorem template_of_empty_class :
  forall (parts : list Z) (batches : list (list brow)) (k j : nat),
  class_rows parts k (concat batches) = [] -> template (feedB parts st_zero batches) k j = 0.
Proof. exact template_empty_class_thm. Qed.
Print Assumptions template_of_empty_class.

(* what .templates and .pooled_covariance hold, entry by entry *)
Theorem results_are_template_and_pooled :
  forall (parts : list Z) (S : nat) (s : st) (k j : nat), (k < length parts)%nat -> (j < S)%nat ->
  mget (fst (comp parts S s)) k j = template s k j
  /\ (forall i, (i < S)%nat -> mget (snd (comp parts S s)) i j = pooled parts s i j).
Proof. exact comp_templates_thm. Qed.
Print Assumptions results_are_template_and_pooled.

(* exxi_k - n_k mu_k mu_k^T is the centred cross-product sum of class k, entry by entry *)
Theorem scatter_identity :
  forall (parts : list Z) (batches : list (list brow)) (k i j : nat),
  let s := feedB parts st_zero batches in
  cxx s k i j - cnt s k * template s k i * template s k j = scatter (class_rows parts k (concat batches)) i j.
Proof. exact scatter_identity_thm. Qed.
Print Assumptions scatter_identity.

(* the unbiased within-class covariance, and what a class with fewer than two traces contributes *)
Theorem unbiased_cov_is_scatter_over_n_minus_1 :
  forall (xs : list vec) (i j : nat), 1 < qlen xs -> unbiased_cov xs i j = scatter xs i j / (qlen xs - 1).
Proof. exact unbiased_cov_big. Qed.
Print Assumptions unbiased_cov_is_scatter_over_n_minus_1.

Theorem small_class_contributes_zero :
  forall (xs : list vec) (i j : nat), qlen xs <= 1 -> unbiased_cov xs i j = 0.
Proof. exact unbiased_cov_small. Qed.
Print Assumptions small_class_contributes_zero.

(* the code's per-class term (exxi - n t t^T) / (guarded n - 1) IS that matrix, also for n = 0 and n = 1 *)
Theorem code_term_is_unbiased_cov :
  forall (parts : list Z) (rows : list brow) (k i j : nat),
  cov_term (bsumB parts rows) k i j = unbiased_cov (class_rows parts k rows) i j.
Proof. exact cov_term_bsum. Qed.
Print Assumptions code_term_is_unbiased_cov.

(* pooled covariance = average over the DECLARED classes (K = |parts|, empty and singleton classes counted in K) *)
Theorem pooled_is_average_of_unbiased :
  forall (parts : list Z) (batches : list (list brow)) (i j : nat),
  parts <> [] ->
  pooled parts (feedB parts st_zero batches) i j
  = qsum (map (fun k => unbiased_cov (class_rows parts k (concat batches)) i j) (seq 0 (length parts))) / qlen parts.
Proof. exact pooled_is_average_of_unbiased_thm. Qed.
Print Assumptions pooled_is_average_of_unbiased.

(* classes are identified by value: the class found for v is declared with v; with distinct declarations it is THE one *)
Theorem class_lookup_by_value :
  forall (parts : list Z) (v : Z) (k : nat), NoDup parts -> (class_index parts v = Some k <-> nth_error parts k = Some v).
Proof. exact class_index_spec. Qed.
Print Assumptions class_lookup_by_value.

Theorem undeclared_value_has_no_class :
  forall (parts : list Z) (v : Z), class_index parts v = None <-> ~ In v parts.
Proof. exact class_index_none. Qed.
Print Assumptions undeclared_value_has_no_class.

(* ---------------------------------------------------------------------------------------------- matching *)

(* sum((d P) o d) = d^T P d for every matrix P (symmetric or not, inverse of anything or not) *)
Theorem score_is_mahalanobis :
  forall (P : mat) (S : nat) (d : nat -> Qc), code_form P S d = quad P S d.
Proof. exact code_form_quad. Qed.
Print Assumptions score_is_mahalanobis.

(* score_g = 10 - (1 / (n S)) sum_t d_{t,g}^T P d_{t,g}, whatever the batching *)
Theorem score_formula :
  forall (P : mat) (S : nat) (T : mat) (m : mode) (parts : list Z) (G : nat) (batches : list (list mrowt)) (g : nat),
  (g < G)%nat ->
  Forall (fun r => sel m parts r g <> None) (concat batches) ->          (* candidate g has a template on every trace *)
  vget (mcomp G (feedM P S T m parts G mst_zero batches)) g = ten - mean_distance P S T m parts (concat batches) g.
Proof. exact score_formula_thm. Qed.
Print Assumptions score_formula.

(* TemplateAttack: candidate g is matched against the fixed template g *)
Theorem static_template_is_row_g :
  forall (parts : list Z) (r : mrowt) (g : nat), (g < length parts)%nat -> sel Static parts r g = Some g.
Proof. exact sel_static_thm. Qed.
Print Assumptions static_template_is_row_g.

(* TemplateDPAAttack: candidate g is matched, on each trace, against the template of the class DECLARED WITH its
   hypothesis value (D4, 9ec0cc6): the row k used satisfies parts[k] = hypothesis value ... *)
Theorem dpa_template_is_selected_by_value :
  forall (parts : list Z) (r : mrowt) (g k : nat), sel Dpa parts r g = Some k ->
  exists v, nth_error (fst r) g = Some v /\ nth_error parts k = Some v.
Proof. exact sel_dpa_by_value_thm. Qed.
Print Assumptions dpa_template_is_selected_by_value.

(* ... and every declared hypothesis value does select its class *)
Theorem dpa_declared_value_selects_its_class :
  forall (parts : list Z) (r : mrowt) (g : nat) (v : Z) (k : nat),
  NoDup parts -> nth_error (fst r) g = Some v -> nth_error parts k = Some v -> sel Dpa parts r g = Some k.
Proof. exact sel_dpa_declared_thm. Qed.
Print Assumptions dpa_declared_value_selects_its_class.

(* a higher score is exactly a smaller mean Mahalanobis distance ... *)
Theorem best_is_min_distance :
  forall (P : mat) (S : nat) (T : mat) (m : mode) (parts : list Z) (rows : list mrowt) (g h : nat),
  spec_score P S T m parts rows h <= spec_score P S T m parts rows g
  <-> mean_distance P S T m parts rows g <= mean_distance P S T m parts rows h.
Proof. exact best_is_min_distance_thm. Qed.
Print Assumptions best_is_min_distance.

(* ... so the candidate with the highest computed score is the one at the smallest distance *)
Theorem best_candidate_has_highest_score :
  forall (P : mat) (S : nat) (T : mat) (m : mode) (parts : list Z) (G : nat) (batches : list (list mrowt)) (g : nat),
  (g < G)%nat ->
  let sc := mcomp G (feedM P S T m parts G mst_zero batches) in
  (forall h, (h < G)%nat -> vget sc h <= vget sc g)
  <-> (forall h, (h < G)%nat -> mean_distance P S T m parts (concat batches) g <= mean_distance P S T m parts (concat batches) h).
Proof. exact best_candidate_thm. Qed.
Print Assumptions best_candidate_has_highest_score.

(* ---------------------------------------------------------------------------------------------- the attack object *)

(* matching before build is refused: on ANY object whose profile is not built (a fresh one in particular), run() on ANY
   container is refused, and a refusal carries no new state *)
Theorem matching_before_build_refused :
  forall (m : mode) (parts : list Z) (S G : nat) (a : attack) (batches : list (list mrowt)),
  a_prof a = None -> do_run m parts S G a batches = Refused.
Proof. exact matching_before_build_refused_thm. Qed.
Print Assumptions matching_before_build_refused.

(* build() makes the profile: templates and pooled covariance of everything accumulated so far, P = pinv(covariance)
   for whatever function pinv is; the matching accumulators are untouched *)
Theorem build_sets_profile :
  forall (pinv : mat -> mat) (parts : list Z) (S : nat) (a : attack) (batches : list (list brow)),
  let a' := do_build pinv parts S a batches in
  exists p, a_prof a' = Some p
    /\ (pf_T p, pf_C p) = comp parts S (feedB parts (a_bst a) batches)
    /\ pf_P p = pinv (pf_C p) /\ a_mst a' = a_mst a.
Proof. exact build_sets_profile_thm. Qed.
Print Assumptions build_sets_profile.

(* end to end: on a fresh object, build then run (non-empty container, traces of the building length) is accepted and
   .scores[g] = 10 - mean squared distance to the candidate's template under P = pinv(pooled covariance) *)
Theorem build_then_match :
  forall (pinv : mat -> mat) (m : mode) (parts : list Z) (S G : nat)
         (bb : list (list brow)) (mb : list (list mrowt)) (g : nat),
  (g < G)%nat -> concat mb <> [] ->
  Forall (fun r : mrowt => length (snd r) = S) (concat mb) ->
  let T := fst (comp parts S (feedB parts st_zero bb)) in
  let C := snd (comp parts S (feedB parts st_zero bb)) in
  exists a', do_run m parts S G (do_build pinv parts S fresh bb) mb = Done a'
    /\ vget (scores G a') g = ten - mean_distance (pinv C) S T m parts (concat mb) g.
Proof. exact build_then_match_thm. Qed.
Print Assumptions build_then_match.

(* ---------------------------------------------------------------------------------------------- batch additivity *)

(* the accumulator laws required by Model/Accum.v (unconditional, Leibniz) *)
Theorem build_accumulator_is_a_monoid :
  (forall a b c, st_plus a (st_plus b c) = st_plus (st_plus a b) c)
  /\ (forall a, st_plus st_zero a = a) /\ (forall a, st_plus a st_zero = a).
Proof. exact (conj st_plus_assoc (conj st_plus_zero_l st_plus_zero_r)). Qed.
Print Assumptions build_accumulator_is_a_monoid.

Theorem matching_accumulator_is_a_monoid :
  (forall a b c, mst_plus a (mst_plus b c) = mst_plus (mst_plus a b) c)
  /\ (forall a, mst_plus mst_zero a = a) /\ (forall a, mst_plus a mst_zero = a).
Proof. exact (conj mst_plus_assoc (conj mst_plus_zero_l mst_plus_zero_r)). Qed.
Print Assumptions matching_accumulator_is_a_monoid.

(* any two batchings of the same traces give the same accumulators (hence the same templates, covariance, scores) *)
Theorem build_batch_split_invariant :
  forall (parts : list Z) (s : st) (bs1 bs2 : list (list brow)),
  concat bs1 = concat bs2 -> feedB parts s bs1 = feedB parts s bs2.
Proof. exact build_batch_split_thm. Qed.
Print Assumptions build_batch_split_invariant.

Theorem match_batch_split_invariant :
  forall (P : mat) (S : nat) (T : mat) (m : mode) (parts : list Z) (G : nat) (s : mst) (bs1 bs2 : list (list mrowt)),
  concat bs1 = concat bs2 -> feedM P S T m parts G s bs1 = feedM P S T m parts G s bs2.
Proof. exact match_batch_split_thm. Qed.
Print Assumptions match_batch_split_invariant.

(* build() twice accumulates the building set twice; two runs accumulate as one run on both containers *)
Theorem build_twice_accumulates :
  forall (parts : list Z) (b1 b2 : list (list brow)),
  feedB parts (feedB parts st_zero b1) b2 = feedB parts st_zero (b1 ++ b2).
Proof. exact build_twice_thm. Qed.
Print Assumptions build_twice_accumulates.

Theorem match_runs_accumulate :
  forall (P : mat) (S : nat) (T : mat) (m : mode) (parts : list Z) (G : nat) (r1 r2 : list (list mrowt)),
  feedM P S T m parts G (feedM P S T m parts G mst_zero r1) r2 = feedM P S T m parts G mst_zero (r1 ++ r2).
Proof. exact match_runs_accumulate_thm. Qed.
Print Assumptions match_runs_accumulate.

(* histories of update / compute on the matching distinguisher: the k-th compute returns the scores of the one-shot
   accumulation of every trace fed before it (compute never disturbs the state) *)
Theorem match_history_outputs :
  forall (P : mat) (S : nat) (T : mat) (m : mode) (parts : list Z) (G : nat) (h : list (op mrowt)),
  snd (run mst mrowt vec mst_zero mst_plus (mcontrib P S T m parts G) (mcomp G) mst_zero h)
  = expected_outputs mst mrowt vec mst_zero mst_plus (mcontrib P S T m parts G) (mcomp G) [] h.
Proof. exact match_history_thm. Qed.
Print Assumptions match_history_outputs.

(* ---------------------------------------------------------------------------------------------- non-vacuity *)
Local Open Scope Z_scope.
Definition q (z : Z) : Qc := Q2Qc (inject_Z z).
Definition v3 (a b c : Z) : vec := [q a; q b; q c].

(* classes declared as [5;2;9;7]: class 5 has three traces, class 2 two, class 9 ONE ([41,13,5], the D8 witness),
   class 7 none; one trace with the undeclared value 3; two batches *)
Definition ex_parts : list Z := [5; 2; 9; 7].
Definition ex_build : list (list brow) :=
  [ [(5, v3 1 2 3); (2, v3 10 0 4); (9, v3 41 13 5); (3, v3 99 99 99)];
    [(5, v3 3 2 7); (2, v3 12 2 0); (5, v3 5 8 2)] ].

Example ex_templates :
  let s := feedB ex_parts st_zero ex_build in
  class_rows ex_parts 0 (concat ex_build) = [v3 1 2 3; v3 3 2 7; v3 5 8 2]
  /\ class_rows ex_parts 2 (concat ex_build) = [v3 41 13 5] /\ class_rows ex_parts 3 (concat ex_build) = []
  /\ map (template s 0) [0; 1; 2]%nat = v3 3 4 4                   (* the class mean *)
  /\ map (template s 2) [0; 1; 2]%nat = v3 41 13 5                 (* the singleton's own trace, not half of it *)
  /\ map (template s 3) [0; 1; 2]%nat = v3 0 0 0.
Proof. cbv zeta. repeat split; (apply meq_eq || apply veq_eq); vm_compute; reflexivity. Qed.

(* pooled covariance: (U_5 + U_2 + 0 + 0) / 4 with U_5 = scatter/2 and U_2 = scatter/1; entry (0,0): (4 + 2)/4 = 3/2,
   entry (0,2): (-1 + -4)/4 = -5/4.  Dividing by the 2 classes that have a covariance, or by the 3 non-empty ones, or
   using n for n-1, gives other numbers. *)
Example ex_pooled :
  let s := feedB ex_parts st_zero ex_build in
  pooled ex_parts s 0 0 = Q2Qc (3 # 2) /\ pooled ex_parts s 0 2 = Q2Qc (-5 # 4)
  /\ unbiased_cov (class_rows ex_parts 0 (concat ex_build)) 0 0 = q 4
  /\ unbiased_cov (class_rows ex_parts 1 (concat ex_build)) 0 0 = q 2
  /\ unbiased_cov (class_rows ex_parts 2 (concat ex_build)) 0 0 = q 0
  /\ (1 < qlen (class_rows ex_parts 0 (concat ex_build)))%Qc
  /\ (qlen (class_rows ex_parts 2 (concat ex_build)) <= 1)%Qc.
Proof. cbv zeta. repeat split; try (apply qeq_eq; vm_compute; reflexivity); vm_compute; discriminate. Qed.

(* matching with a NON-symmetric P: the two forms agree (here 1*1*1 + 1*2*3 + 3*0*1 + 3*5*3 = 52) *)
Example ex_quad :
  let P := [[q 1; q 2]; [q 0; q 5]] in let d := fun i => nth i [q 1; q 3] (q 0) in
  code_form P 2 d = q 52 /\ quad P 2 d = q 52.
Proof. cbv zeta. split; apply qeq_eq; vm_compute; reflexivity. Qed.

(* TemplateDPA by value: with classes declared [5;2;9;7] the hypothesis value 9 selects row 2 (not row 9, not row 1) *)
Example ex_sel : sel Dpa ex_parts ([2; 9; 5], v3 0 0 0) 1 = Some 2%nat /\ NoDup ex_parts
               /\ sel Dpa ex_parts ([2; 9; 5], v3 0 0 0) 0 = Some 1%nat /\ sel Static ex_parts ([], v3 0 0 0) 3 = Some 3%nat.
Proof.
  repeat split; try reflexivity.
  repeat constructor; cbn; intuition discriminate.
Qed.

(* end to end with P = identity (a stand-in for pinv): run before build refused; build; two runs; the closest template wins *)
Definition ex_pinv (C : mat) : mat := [[q 1; q 0; q 0]; [q 0; q 1; q 0]; [q 0; q 0; q 1]].
Definition ex_match : list (list mrowt) := [[([], v3 40 12 6)]; [([], v3 42 14 4); ([], v3 41 13 8)]].

Example ex_machine :
  do_run Static ex_parts 3 4 fresh ex_match = Refused
  /\ exists a', do_run Static ex_parts 3 4 (do_build ex_pinv ex_parts 3 fresh ex_build) ex_match = Done a'
     /\ fst (a_mst a') = q 3
     /\ (forall h, (h < 4)%nat -> (vget (scores 4 a') h <= vget (scores 4 a') 2)%Qc)       (* class 9's template wins *)
     /\ vget (scores 4 a') 2 = (ten - Q2Qc (5 # 3))%Qc                                     (* 10 - (3 + 3 + 9) / 3 / 3 *)
     /\ do_run Static ex_parts 3 4 a' [[([], [q 1; q 2])]] = Refused.                      (* another trace length *)
Proof.
  split; [reflexivity|]. eexists. split; [reflexivity|].
  split; [apply qeq_eq; vm_compute; reflexivity|]. split.
  - intros h Hh. destruct h as [|[|[|[|h]]]]; try (vm_compute; discriminate).
    exfalso. lia.
  - split; [apply qeq_eq; vm_compute; reflexivity|vm_compute; reflexivity].
Qed.

(* the correspondence check accepts a faithful observation and rejects the edits named in the design *)
Definition ex_case (t00 : fval) (c00 : fval) (s0 : fval) : tcase :=
  {| tc_prec := F64; tc_mode := Static; tc_parts := [1; 0]; tc_S := 1%nat; tc_G := 2%nat; tc_den := 1%positive;
     tc_hist := [OpRun [[([], [3])]]; OpBuild [[(0, [2]); (1, [8]); (0, [6])]]; OpRun [[([], [8])]; [([], [6])]]];
     tc_obs := [ObsRefused;
                ObsBuild [1; 0] [[Fin 8 0]; [t00]] [[c00]] [[Fin 1 (-2)]];
                ObsScores 2 [s0; Fin 15 (-1)]] |}.
(* class 1 = {8}: template 8, no covariance; class 0 = {2, 6}: template 4, variance 8; pooled (0 + 8)/2 = 4; P = 1/4;
   candidate 0 (template 8): (0 + 4)/4/2 = 1/2 -> 9.5 ; candidate 1 (template 4): (16 + 4)/4/2 = 5/2 -> 7.5... *)
Example ex_check_discriminates :
  tcase_check (ex_case (Fin 4 0) (Fin 4 0) (Fin 19 (-1))) = true
  /\ tcase_check (ex_case (Fin 4 0) (Fin 8 0) (Fin 19 (-1))) = false      (* average over the classes that have a covariance *)
  /\ tcase_check (ex_case (Fin 4 0) (Fin 2 0) (Fin 19 (-1))) = false      (* n for n - 1 *)
  /\ tcase_check (ex_case (Fin 2 0) (Fin 4 0) (Fin 19 (-1))) = false      (* wrong template *)
  /\ tcase_check (ex_case (Fin 4 0) (Fin 4 0) (Fin 21 (-1))) = false.     (* 10 + *)
Proof. vm_compute. repeat split; reflexivity. Qed.
