(* Props/C13.v — property C13: the MIA result is the mutual information between binned samples and value classes;
   bin edge sets that are not increasing and equally spaced are refused.
   Only statements closed by [exact]; Print Assumptions beneath each.  Proofs: Proofs/Mia.v (axiom-free) and
   Proofs/MiaReal.v (non-negativity, over R with ln: standard-library real-number axioms).

   Reading guide (definitions: Model/Mia.v).
   - Samples and edges are exact rationals [Qc]; [edge edges i] is the i-th edge, [nbins edges] = length - 1.
   - [bin_index edges est x : option nat] is the bin chosen by the kernel of mia.py for sample x ([None] = skipped):
     range test, float estimate [est x], clamp, the two correcting loops.  [est : Qc -> nat] is ANY function.
   - One (word, sample) entry of `accumulators` is a table [st] = hist[bin][class], read with [get t b k];
     [hist_bsum edges est parts rows] is the table after accumulating the traces [rows] = (sample, value) pairs;
     [class_of parts v] is the class look-up table (undeclared value -> None).
   - [q_mi_code phi t bs vs] is the formula of _compute on table t, summed over the bin indices [bs] and the class indices
     [vs]; [phi] stands for x |-> x ln x and is ANY function; zeros are replaced by ones before phi is applied, as in the code.
     [q_cnt t b v], [q_cb t vs b], [q_cv t bs v], [q_total t bs vs] are c(b,v), c(b), c(v), N as rationals.
     [q_HB], [q_HBV] are H_phi(B) = - sum_b phi(c(b)/N) and H_phi(B|V) = - sum_v c(v)/N sum_b phi(c(b,v)/c(v)).
   - [edges_ok tol l] is the validation of the bin_edges setter (true = accepted). *)
From Coq Require Import ZArith QArith Qcanon List Bool Reals Lra Lia.
From ScaredV Require Import Run.Compare Lib.QcSum Model.Accum Model.Mia Proofs.Mia Proofs.MiaReal.
Import ListNotations.
Local Open Scope Qc_scope.

(* ============================================================================================ binning *)

(* bin_correct: for strictly increasing edges and EVERY estimator: a sample inside [e0, eN) lands in the bin whose edges
   enclose it, a sample equal to the last edge lands in the last bin, every other sample is skipped. *)
Theorem bin_correct :
  forall (edges : list Qc) (est : Qc -> nat),
  (2 <= length edges)%nat -> increasing edges ->
  let nb := nbins edges in
  forall x : Qc,
    (edge edges 0 <= x -> x < edge edges nb ->
       exists b, bin_index edges est x = Some b /\ (b < nb)%nat /\ edge edges b <= x /\ x < edge edges (S b))
    /\ (x = edge edges nb -> bin_index edges est x = Some (nb - 1)%nat)
    /\ (x < edge edges 0 \/ edge edges nb < x -> bin_index edges est x = None).
Proof. exact bin_correct_thm. Qed.
Print Assumptions bin_correct.

(* the same as one equivalence with numpy.histogram's rule [in_bin] (half-open bins, the last one closed), which is a
   function of x: the estimate has no influence whatsoever on the result *)
Theorem bin_index_is_the_histogram_rule :
  forall (edges : list Qc) (est : Qc -> nat), (2 <= length edges)%nat -> increasing edges ->
  forall x b, bin_index edges est x = Some b <-> in_bin edges x b.
Proof. exact bin_index_char. Qed.
Print Assumptions bin_index_is_the_histogram_rule.

Theorem bin_of_a_sample_is_unique :
  forall (edges : list Qc), (2 <= length edges)%nat -> increasing edges ->
  forall x b b', in_bin edges x b -> in_bin edges x b' -> b = b'.
Proof. exact in_bin_unique. Qed.
Print Assumptions bin_of_a_sample_is_unique.

Theorem bin_index_is_bin_spec :
  forall (edges : list Qc) (est : Qc -> nat), (2 <= length edges)%nat -> increasing edges ->
  forall x, bin_index edges est x = bin_spec edges x.
Proof. exact bin_index_is_spec. Qed.
Print Assumptions bin_index_is_bin_spec.

(* termination of the correcting loops: the downward loop is structural; the upward loop is given the fuel
   nbins - 1 - b, and ANY larger fuel gives the same result — no hypothesis on the fuel is needed anywhere *)
Theorem correction_loop_fuel_is_enough :
  forall (edges : list Qc) (x : Qc) (f1 f2 b : nat),
  (nbins edges - 1 - b <= f1)%nat -> (nbins edges - 1 - b <= f2)%nat ->
  settle_up edges x f1 b = settle_up edges x f2 b.
Proof. exact settle_up_fuel. Qed.
Print Assumptions correction_loop_fuel_is_enough.

(* non-vacuity: the edges of defect D6 meet the hypotheses; the estimate 0 (binary64 gives 0.99999999999999989 for x = 49)
   is corrected to bin 1, a wild estimate is corrected too, the last edge is in the last bin, 99 and -1 are skipped *)
Example bin_correct_nonvacuous :
  let edges := map qi [0; 49; 98]%Z in
  (2 <= length edges)%nat /\ increasing edges
  /\ bin_index edges (fun _ => 0%nat) (qi 49) = Some 1%nat
  /\ bin_index edges (fun _ => 1000%nat) (qi 48) = Some 0%nat
  /\ bin_index edges (fun _ => 0%nat) (qi 98) = Some 1%nat
  /\ bin_index edges (fun _ => 0%nat) (qi 99) = None /\ bin_index edges (fun _ => 0%nat) (qi (-1)) = None
  /\ bin_uncorrected edges (fun _ => 0%nat) (qi 49) = Some 0%nat.
Proof.
  cbv zeta. split; [cbn; repeat constructor|]. split; [apply sortedb_spec; vm_compute; reflexivity|].
  vm_compute. repeat split; reflexivity.
Qed.

(* float samples that are not finite numbers (exported as the markers NaN, PInf, NInf) are in no bin — true of the model by
   construction (both range tests of the kernel fail on NaN, the infinities are beyond the edges); the content is carried by
   the correspondence check on float32/float64 traces holding NaN and +-inf samples *)
Theorem non_finite_samples_are_skipped :
  forall (edges : list Qc) (est : Qc -> nat) (v : fval),
  v = NaN \/ v = PInf \/ v = NInf -> bin_index_f edges est v = None.
Proof. exact bin_index_f_non_finite. Qed.
Print Assumptions non_finite_samples_are_skipped.

(* ============================================================================================ histogram *)

(* the class look-up table: the class of a value is the position of its LAST declaration; undeclared values have none *)
Theorem class_of_is_last_declaration :
  forall (parts : list Z) (v : Z) (k : nat),
  class_of parts v = Some k <-> nth_error parts k = Some v /\ forall j, (k < j)%nat -> nth_error parts j <> Some v.
Proof. exact class_of_spec. Qed.
Print Assumptions class_of_is_last_declaration.

Theorem class_of_undeclared_value :
  forall (parts : list Z) (v : Z), class_of parts v = None <-> ~ In v parts.
Proof. exact class_of_undeclared. Qed.
Print Assumptions class_of_undeclared_value.

(* every cell holds the number of traces whose sample lies in its bin (histogram rule, last edge inclusive, out of range
   discarded) and whose value is its class (undeclared values discarded): [hist_spec] is that count, by definition *)
Theorem hist_correct :
  forall (edges : list Qc) (est : Qc -> nat) (parts : list Z), (2 <= length edges)%nat -> increasing edges ->
  forall (rows : list row) (b k : nat),
  get (hist_bsum edges est parts rows) b k
  = Z.of_nat (length (filter (fun r => match bin_spec edges (fst r), class_of parts (snd r) with
                                       | Some b', Some k' => Nat.eqb b' b && Nat.eqb k' k
                                       | _, _ => false
                                       end) rows)).
Proof. exact hist_correct_explicit. Qed.
Print Assumptions hist_correct.

(* the accumulator is a monoid (Leibniz equality, no shape hypothesis): the shape required by Model/Accum.v, so that
   batch-split invariance (C01) and the other history properties apply to MIA *)
Theorem mia_st_plus_assoc : forall a b c : st, st_plus a (st_plus b c) = st_plus (st_plus a b) c.
Proof. exact st_plus_assoc. Qed.
Print Assumptions mia_st_plus_assoc.
Theorem mia_st_plus_zero_l : forall a : st, st_plus st_zero a = a.
Proof. exact st_plus_zero_l. Qed.
Print Assumptions mia_st_plus_zero_l.
Theorem mia_st_plus_zero_r : forall a : st, st_plus a st_zero = a.
Proof. exact st_plus_zero_r. Qed.
Print Assumptions mia_st_plus_zero_r.

Theorem hist_of_any_batching_is_the_one_shot_table :
  forall (edges : list Qc) (est : Qc -> nat) (parts : list Z) (batches : list (list row)),
  hist_feed edges est parts batches = hist_bsum edges est parts (concat batches).
Proof. exact hist_feed_concat. Qed.
Print Assumptions hist_of_any_batching_is_the_one_shot_table.

(* large trace counts are checked on run-length encoded rows (row, repetitions): the weighted table [hist_bsum_w] and the
   result computed from it are those of the expanded trace list, for every estimator and every phi *)
Theorem run_length_case_is_the_expanded_case :
  forall (edges : list Qc) (est : Qc -> nat) (parts : list Z) (phi : Qc -> Qc) (runs : list (row * positive)),
  (forall b k, get (hist_bsum_w edges est parts runs) b k = get (hist_bsum edges est parts (expand runs)) b k)
  /\ comp phi (nbins edges) (length parts) (hist_bsum_w edges est parts runs)
     = comp phi (nbins edges) (length parts) (hist_bsum edges est parts (expand runs)).
Proof. exact run_length_is_the_expansion. Qed.
Print Assumptions run_length_case_is_the_expanded_case.

Example hist_nonvacuous :
  let edges := map qi [0; 49; 98]%Z in
  hist_feed edges (est_exact edges) [0; 1; 2]%Z
    [[(qi 49, 0%Z); (qi 98, 1%Z); (qi 10, 2%Z)]; [(qi 48, 0%Z); (qi 60, 7%Z); (qi 99, 1%Z)]]
  = [[1; 0; 1]; [1; 1]]%Z.
Proof. vm_compute. reflexivity. Qed.

(* ============================================================================================ mutual information *)

(* mi_is_HB_minus_HBV: for EVERY phi and every count table with a non-zero total, the code's formula is
   H(B) - H(B|V), the entropies being taken with the function the code really applies: phi after the replacement of
   zeros by ones [q_phiz phi p = phi (if p = 0 then 1 else p)] *)
Theorem mi_is_HB_minus_HBV :
  forall (phi : Qc -> Qc) (t : st) (bs vs : list nat),
  q_total t bs vs <> 0 ->
  q_mi_code phi t bs vs = q_HB (q_phiz phi) t bs vs - q_HBV (q_phiz phi) t bs vs.
Proof. exact mi_is_HB_minus_HBV_gen. Qed.
Print Assumptions mi_is_HB_minus_HBV.

(* ... and with phi itself as soon as phi 0 = phi 1, which is what makes the replacement harmless for
   phi = x ln x under the convention 0 ln 0 = 0 (= 1 ln 1) *)
Theorem mi_is_HB_minus_HBV_under_the_convention :
  forall (phi : Qc -> Qc) (t : st) (bs vs : list nat),
  phi 0 = phi 1 -> q_total t bs vs <> 0 ->
  q_mi_code phi t bs vs = q_HB phi t bs vs - q_HBV phi t bs vs.
Proof. exact mi_is_HB_minus_HBV_conv. Qed.
Print Assumptions mi_is_HB_minus_HBV_under_the_convention.

(* mi_zero_when_independent: c(b,v) N = c(b) c(v) in every cell  ==>  exactly 0, for every phi *)
Theorem mi_zero_when_independent :
  forall (phi : Qc -> Qc) (t : st) (bs vs : list nat),
  q_total t bs vs <> 0 ->
  (forall b v, In b bs -> In v vs -> q_cnt t b v * q_total t bs vs = q_cb t vs b * q_cv t bs v) ->
  q_mi_code phi t bs vs = 0.
Proof. exact mi_zero_when_independent_thm. Qed.
Print Assumptions mi_zero_when_independent.

(* empty_cells_irrelevant: a bin in which no trace fell / a class that never occurred can be deleted from the sums,
   wherever it stands, for every phi (even for a zero total) *)
Theorem empty_cells_irrelevant :
  forall (phi : Qc -> Qc) (t : st),
  (forall bs1 b0 bs2 vs, bin_empty t vs b0 = true ->
     q_mi_code phi t (bs1 ++ b0 :: bs2) vs = q_mi_code phi t (bs1 ++ bs2) vs)
  /\ (forall bs vs1 v0 vs2, class_empty t bs v0 = true ->
     q_mi_code phi t bs (vs1 ++ v0 :: vs2) = q_mi_code phi t bs (vs1 ++ vs2)).
Proof. exact empty_cells_irrelevant_thm. Qed.
Print Assumptions empty_cells_irrelevant.

(* hence: the result over all bins and classes = the result over the populated ones only *)
Theorem mi_depends_on_populated_cells_only :
  forall (phi : Qc -> Qc) (t : st) (bs vs : list nat),
  q_mi_code phi t bs vs
  = q_mi_code phi t (filter (fun b => negb (bin_empty t vs b)) bs)
                    (filter (fun v => negb (class_empty t (filter (fun b => negb (bin_empty t vs b)) bs) v)) vs).
Proof. exact mi_populated_cells_only. Qed.
Print Assumptions mi_depends_on_populated_cells_only.

(* each entropy on its own ignores empty bins when phi 0 = 0 — the convention 0 log 0 = 0 that the replacement implements *)
Theorem entropies_ignore_empty_bins :
  forall (phi : Qc -> Qc) (t : st) bs1 b0 bs2 vs, phi 0 = 0 -> bin_empty t vs b0 = true ->
  q_HB phi t (bs1 ++ b0 :: bs2) vs = q_HB phi t (bs1 ++ bs2) vs
  /\ q_HBV phi t (bs1 ++ b0 :: bs2) vs = q_HBV phi t (bs1 ++ bs2) vs.
Proof. exact entropies_ignore_empty_bins_thm. Qed.
Print Assumptions entropies_ignore_empty_bins.

(* mi_nonneg (over R, phi = x * ln x with Coq's real logarithm; Gibbs' inequality from 1 + x < exp x): for every table
   of non-negative counts with a non-zero total the formula of the code — the SAME term [Mia.mi_code], instantiated
   with R — is never negative.  Uses the standard-library axioms of the reals (listed by Print Assumptions). *)
Theorem mi_nonneg :
  forall (t : st) (bs vs : list nat),
  (forall b v, In b bs -> In v vs -> (0 <= get t b v)%Z) ->
  r_total t bs vs <> 0%R ->
  (0 <= mi_code R 0%R 1%R Rplus Rminus Rmult Rdiv r_is0 IZR (fun p => (p * ln p)%R) t bs vs)%R.
Proof. exact mi_nonneg_thm. Qed.
Print Assumptions mi_nonneg.

(* non-vacuity.  A dependent table has a non-zero total and a non-zero "information" already for the stand-in
   phi p = p * p; a product table meets the independence hypothesis; a table with an empty bin and an empty class. *)
Example mi_nonvacuous :
  let phi := fun p : Qc => p * p in
  let dep := [[2; 0]; [0; 2]]%Z in
  let ind := [[1; 2]; [2; 4]]%Z in
  let sparse := [[3; 0; 1]; [0; 0; 0]; [1; 0; 2]]%Z in
  q_total dep [0; 1]%nat [0; 1]%nat <> 0 /\ q_mi_code phi dep [0; 1]%nat [0; 1]%nat <> 0
  /\ q_total ind [0; 1]%nat [0; 1]%nat <> 0
  /\ (forall b v, In b [0; 1]%nat -> In v [0; 1]%nat ->
        q_cnt ind b v * q_total ind [0; 1]%nat [0; 1]%nat = q_cb ind [0; 1]%nat b * q_cv ind [0; 1]%nat v)
  /\ q_mi_code phi ind [0; 1]%nat [0; 1]%nat = 0
  /\ bin_empty sparse [0; 1; 2]%nat 1 = true /\ class_empty sparse [0; 1; 2]%nat 1 = true
  /\ q_mi_code phi sparse [0; 1; 2]%nat [0; 1; 2]%nat = q_mi_code phi sparse [0; 2]%nat [0; 2]%nat
  /\ q_mi_code phi sparse [0; 2]%nat [0; 2]%nat <> 0.
Proof.
  cbv zeta.
  split; [apply Qceqb_false; vm_compute; reflexivity|]. split; [apply Qceqb_false; vm_compute; reflexivity|].
  split; [apply Qceqb_false; vm_compute; reflexivity|].
  split; [intros b v [<-|[<-|[]]] [<-|[<-|[]]]; apply Qceqb_spec; vm_compute; reflexivity|].
  split; [apply Qceqb_spec; vm_compute; reflexivity|].
  split; [vm_compute; reflexivity|]. split; [vm_compute; reflexivity|].
  split; [apply Qceqb_spec; vm_compute; reflexivity|]. apply Qceqb_false; vm_compute; reflexivity.
Qed.

Example mi_nonneg_nonvacuous :
  let t := [[2; 0]; [1; 3]]%Z in
  (forall b v, In b [0; 1]%nat -> In v [0; 1]%nat -> (0 <= get t b v)%Z) /\ r_total t [0; 1]%nat [0; 1]%nat <> 0%R.
Proof.
  cbv zeta. split.
  - intros b v [<-|[<-|[]]] [<-|[<-|[]]]; vm_compute; discriminate.
  - unfold r_total, total, cb, cnt, tsum, get. cbn [map fold_right nth]. lra.
Qed.

(* ============================================================================================ bin edge validation *)

(* what the setter accepts, exactly: at least two edges, strictly increasing, every second difference within tol *)
Theorem edges_ok_exactly :
  forall (tol : Qc) (l : list Qc),
  edges_ok tol l = true <->
  (2 <= length l)%nat /\ increasing l
  /\ forall i, (S (S i) < length l)%nat -> - tol <= width l (S i) - width l i /\ width l (S i) - width l i <= tol.
Proof. exact edges_ok_iff. Qed.
Print Assumptions edges_ok_exactly.

(* edges_ok_sound: accepted ==> increasing, and any two bin widths differ by at most (their distance) * tol
   ([width l i] = edge (i+1) - edge i; [nq k] is the natural number k as a rational) *)
Theorem edges_ok_sound :
  forall (tol : Qc) (l : list Qc), edges_ok tol l = true ->
  (2 <= length l)%nat /\ increasing l
  /\ forall i j, (i <= j)%nat -> (S j < length l)%nat ->
       - (nq (j - i) * tol) <= width l j - width l i /\ width l j - width l i <= nq (j - i) * tol.
Proof. exact edges_ok_sound_thm. Qed.
Print Assumptions edges_ok_sound.

Theorem edges_ok_with_zero_tolerance_means_equally_spaced :
  forall (l : list Qc), edges_ok 0 l = true ->
  forall i, (i < length l)%nat -> edge l i = edge l 0 + nq i * width l 0.
Proof. exact edges_ok_zero_tol. Qed.
Print Assumptions edges_ok_with_zero_tolerance_means_equally_spaced.

(* edges_ok_complete: increasing and equally spaced ==> accepted, for every tolerance >= 0 *)
Theorem edges_ok_complete :
  forall (tol : Qc) (l : list Qc) (a w : Qc),
  (2 <= length l)%nat -> 0 < w -> 0 <= tol ->
  (forall i, (i < length l)%nat -> edge l i = a + nq i * w) ->
  edges_ok tol l = true.
Proof. exact edges_ok_complete_thm. Qed.
Print Assumptions edges_ok_complete.

(* the three non-uniform families of the property text are refused with the code's tolerance 1e-9; the test as found
   (D5: sum of the second differences) accepted the narrowing and the compensating list *)
Example edges_examples :
  edges_ok mia_tol (map qi [0; 1; 3; 6]%Z) = false            (* widening *)
  /\ edges_ok mia_tol (map qi [0; 2; 3; 4]%Z) = false         (* narrowing *)
  /\ edges_ok mia_tol (map qi [0; 4; 5; 6; 10]%Z) = false     (* compensating width changes *)
  /\ edges_ok mia_tol (map qi [0; 2; 1; 3]%Z) = false /\ edges_ok mia_tol (map qi [0; 1; 1]%Z) = false
  /\ edges_ok mia_tol [qi 5] = false
  /\ edges_ok mia_tol (map qi [0; 49; 98; 147]%Z) = true
  /\ edges_ok_as_found mia_tol (map qi [0; 2; 3; 4]%Z) = true /\ edges_ok_as_found mia_tol (map qi [0; 4; 5; 6; 10]%Z) = true.
Proof. vm_compute. repeat split; reflexivity. Qed.

Example edges_ok_complete_nonvacuous :
  let l := map qi [3; 10; 17; 24]%Z in
  (2 <= length l)%nat /\ 0 < qi 7 /\ 0 <= mia_tol /\ (forall i, (i < length l)%nat -> edge l i = qi 3 + nq i * qi 7).
Proof.
  cbv zeta. split; [cbn; lia|]. split; [apply Qcltb_spec; vm_compute; reflexivity|].
  split; [apply Qcleb_spec; vm_compute; reflexivity|].
  intros [|[|[|[|i]]]] Hi; [apply Qceqb_spec; vm_compute; reflexivity ..|cbn [map length] in Hi; lia].
Qed.

(* a refused configuration leaves the object as it was (true of the model by construction: a refused assignment is a no-op;
   its content is carried by the correspondence check on histories with refused assignments at every position), and over ANY
   sequence of assignments bins_number remains the bin count of the edges in force, which are the LAST accepted list *)
Theorem refused_edges_leave_the_configuration :
  forall (tol : Qc) (cfg : mia_cfg) (l : list Qc), edges_ok tol l = false -> assign_edges tol cfg l = cfg.
Proof. exact assign_refused. Qed.
Print Assumptions refused_edges_leave_the_configuration.

Theorem configuration_after_any_assignments :
  forall (tol : Qc) (cfg : mia_cfg) (ls : list (list Qc)),
  cfg_consistent cfg -> (forall e, cfg_edges cfg = Some e -> edges_ok tol e = true) ->
  let cfg' := fold_left (assign_edges tol) ls cfg in
  cfg_consistent cfg'
  /\ (forall e, cfg_edges cfg' = Some e -> edges_ok tol e = true)
  /\ cfg' = match find (edges_ok tol) (rev ls) with
            | Some l => {| cfg_edges := Some l; cfg_bins := nbins l |}
            | None => cfg
            end.
Proof. exact assign_history. Qed.
Print Assumptions configuration_after_any_assignments.

Example configuration_history_nonvacuous :
  let cfg := {| cfg_edges := None; cfg_bins := 8 |} in
  let cfg' := fold_left (assign_edges mia_tol) [map qi [0; 1; 2; 3; 4]; map qi [0; 1; 3]; [qi 5]; map qi [3; 2; 1]]%Z cfg in
  cfg_bins cfg' = 4%nat /\ cfg_bins (assign_edges mia_tol cfg (map qi [0; 1; 3]%Z)) = 8%nat.
Proof. vm_compute. split; reflexivity. Qed.

(* ============================================================================================ the correspondence check *)
(* mia_check accepts what the real MIADistinguisher returned on this input (edges [0;49;98], uint8 traces, two update()
   calls, one undeclared value, one sample beyond the last edge; the literal was printed by tools/props/C13.py) and
   rejects the four edits named in the design on the same input *)
Example mia_check_discriminates :
  let mk acc res :=
    {| mc_edges := [Fin 0 0; Fin 49 0; Fin 49 1]; mc_parts := [0; 1; 2]%Z;
       mc_batches := [[([Fin 49 0], [0%Z]); ([Fin 49 1], [1%Z]); ([Fin 5 1], [2%Z])];
                      [([Fin 3 4], [0%Z]); ([Fin 15 2], [7%Z]); ([Fin 99 0], [1%Z])]];
       mc_ns := 1; mc_nw := 1;
       mc_ln := [Fin 0 0; Fin 6243314768165359 (-53); Fin 4947709893870347 (-52); Fin 6243314768165359 (-52);
                 Fin 7248263982714163 (-52); Fin 4034683638976513 (-51)];
       mc_f32 := false; mc_obs_acc := acc; mc_obs_res := [[res]] |} in
  let good := Fin 6243314768165359 (-54) in                                       (* ln 2 / 2 *)
  mia_check (mk [[[[1]; [0]; [1]]; [[1]; [1]; [0]]]]%Z good) = true
  /\ mia_check (mk [[[[2]; [0]; [1]]; [[0]; [1]; [0]]]]%Z good) = false           (* 49 left in bin 0 (D6) *)
  /\ mia_check (mk [[[[1]; [0]; [1]]; [[1]; [1]; [1]]]]%Z good) = false           (* undeclared 7 counted in the last class (D3) *)
  /\ mia_check (mk [[[[1]; [0]; [1]]; [[1]; [0]; [0]]]]%Z good) = false           (* last edge exclusive *)
  /\ mia_check (mk [[[[1]; [0]; [1]]; [[1]; [1]; [0]]]]%Z (Fin 6243314768165359 (-53))) = false   (* wrong value *)
  /\ mia_check (mk [[[[1]; [0]; [1]]; [[1]; [1]; [0]]]]%Z NaN) = false.           (* 0 log 0 -> NaN *)
Proof. vm_compute. repeat split; reflexivity. Qed.
