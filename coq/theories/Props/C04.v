(* Props/C04.v — property C04: ANOVA, NICV and SNR results equal their definitions over value classes.
   Only statements closed by [exact]; Print Assumptions beneath each.  Proofs are in Proofs/Partitioned.v.

   Reading guide (Model/Partitioned.v).  An ENTRY is one (data word, sample) pair; a [row] = (value of the data word,
   sample) is what one trace contributes to it.  [parts] is the declared class list (any order, gaps allowed),
   [batches] the successive update() calls.  SPEC side: [group rows c] = the samples of the traces whose word has the
   value c; [groups parts rows] = the non-empty groups; [F_stat], [nicv_def], [snr_def] the textbook statistics over a
   list of groups ([None] = undefined).  CODE side: [lut] (the 2^17 table, last declaration wins),
   [feed_batches parts batches] (the per-class (counters, sum, sum_square) after the updates, a zero-padded list),
   [run_entry m parts batches] = compute(): restriction to counters > 0, the _compute_metric body of metric m with
   numpy's float division ([xdiv]: x/0 = inf, 0/0 = nan, x/inf = 0) and the final inf -> nan.
   Hypotheses on the class list: [NoDup parts] (classes are values) and [all_in_range parts] (inside the table). *)
From Coq Require Import ZArith QArith Qcanon List Bool.
From ScaredV Require Import Lib.QcSum Run.Compare Model.Accum Model.Partitioned Proofs.Partitioned.
Import ListNotations.
Open Scope Qc_scope.

(* the class index of a value is its position in the declaration, undeclared values have none *)
Theorem lut_is_position : forall parts v k, NoDup parts -> all_in_range parts ->
  (lut parts v = Some k <-> nth_error parts k = Some v).
Proof. exact lut_spec. Qed.
Print Assumptions lut_is_position.

Theorem lut_undeclared_is_none : forall parts v, ~ In v parts -> lut parts v = None.
Proof. exact lut_undeclared. Qed.
Print Assumptions lut_undeclared_is_none.

(* groups_of_accu: whatever the batching, the accumulated triple of class k is (|g_k|, sum g_k, sum of squares of g_k) *)
Theorem groups_of_accu : forall parts batches k c, NoDup parts -> all_in_range parts -> nth_error parts k = Some c ->
  nth k (feed_batches parts batches) t0
  = (qlen (group (concat batches) c), qsum (group (concat batches) c), qsum (map sq (group (concat batches) c))).
Proof. exact groups_of_accu_thm. Qed.
Print Assumptions groups_of_accu.

(* ... and nothing is stored beyond the declared classes *)
Theorem nothing_beyond_declared : forall parts rows k, (length parts <= k)%nat -> nth k (accu parts rows) t0 = t0.
Proof. exact accu_beyond. Qed.
Print Assumptions nothing_beyond_declared.

(* within_ss_identity: sq_k - s_k^2 / n_k is the sum of squared deviations from the class mean *)
Theorem within_ss_identity : forall g, g <> [] ->
  qsum (map sq g) - sq (qsum g) / qlen g = qsum (map (fun x => sq (x - qmean g)) g).
Proof. exact within_ss_identity_thm. Qed.
Print Assumptions within_ss_identity.

(* total_var_identity: (sum of squares)/N - mean^2 is the mean squared deviation from the overall mean *)
Theorem total_var_identity : forall l, l <> [] ->
  qsum (map sq l) / qlen l - sq (qsum l / qlen l) = qsum (map (fun x => sq (x - qmean l)) l) / qlen l.
Proof. exact total_var_identity_thm. Qed.
Print Assumptions total_var_identity.

(* anova_is_F / nicv_is_def / snr_is_def: for every class list, every sequence of updates, every data and samples,
   compute() of the code model is the definition over the non-empty value classes (None where it is undefined) *)
Theorem anova_is_F : forall parts batches, NoDup parts -> all_in_range parts ->
  run_entry ANOVA parts batches = F_stat (groups parts (concat batches)).
Proof. exact (run_entry_is_spec ANOVA). Qed.
Print Assumptions anova_is_F.

Theorem nicv_is_def : forall parts batches, NoDup parts -> all_in_range parts ->
  run_entry NICV parts batches = nicv_def (groups parts (concat batches)).
Proof. exact (run_entry_is_spec NICV). Qed.
Print Assumptions nicv_is_def.

Theorem snr_is_def : forall parts batches, NoDup parts -> all_in_range parts ->
  run_entry SNR parts batches = snr_def (groups parts (concat batches)).
Proof. exact (run_entry_is_spec SNR). Qed.
Print Assumptions snr_is_def.

(* ... and for ANY history of update() and compute() calls (compute after every update, compute twice, ...): every
   compute() returns the statistic of the rows fed before it; in particular compute() does not disturb the accumulators *)
Theorem every_compute_is_the_statistic_so_far : forall m parts (h : list (op row)), NoDup parts -> all_in_range parts ->
  run_history m parts h = spec_history m parts [] h.
Proof. exact run_history_is_spec. Qed.
Print Assumptions every_compute_is_the_statistic_so_far.

(* the definitions, spelled out on a defined instance: F = (SSB/(k-1)) / (SSW/(n-k)) with k, n counted over the non-empty
   classes (F_stat unfolds to exactly this) *)
Theorem F_stat_unfolded : forall gs,
  F_stat gs =
  let K := qlen gs in let N := qlen (concat gs) in
  if Qc_eq_bool (K - 1) 0 || Qc_eq_bool (N - K) 0 || Qc_eq_bool (ss_within gs) 0 then None
  else Some ((qsum (map (fun g => qlen g * sq (qmean g - qmean (concat gs))) gs) / (K - 1))
             / (qsum (map ssd gs) / (N - K))).
Proof. reflexivity. Qed.
Print Assumptions F_stat_unfolded.

(* empty_classes_irrelevant, on the table of class triples: two tables with the same non-empty classes in the same order
   give the same result — SNR included, although it divides by the number of ALL classes *)
Theorem empty_classes_irrelevant : forall m tbl1 tbl2,
  filter nonzero tbl1 = filter nonzero tbl2 -> comp_table m tbl1 = comp_table m tbl2.
Proof. exact empty_classes_irrelevant_tbl. Qed.
Print Assumptions empty_classes_irrelevant.

Theorem empty_classes_inserted_anywhere : forall m tbl1 n tbl2,
  comp_table m (tbl1 ++ repeat t0 n ++ tbl2) = comp_table m (tbl1 ++ tbl2).
Proof. exact insert_empty_classes. Qed.
Print Assumptions empty_classes_inserted_anywhere.

(* ... and on the class list: declaring anywhere values that no trace takes changes no result *)
Theorem unused_classes_irrelevant : forall m p1 extra p2 batches,
  NoDup (p1 ++ extra ++ p2) -> all_in_range (p1 ++ extra ++ p2) ->
  (forall c, In c extra -> forall r, In r (concat batches) -> fst r <> c) ->
  run_entry m (p1 ++ extra ++ p2) batches = run_entry m (p1 ++ p2) batches.
Proof. exact empty_classes_irrelevant_parts. Qed.
Print Assumptions unused_classes_irrelevant.

(* SNR's P cancels: proved, not assumed *)
Theorem snr_P_cancels : forall P P' nz, P <> 0 -> P' <> 0 -> snr_metric P nz = snr_metric P' nz.
Proof. exact snr_P_irrelevant. Qed.
Print Assumptions snr_P_cancels.

(* undefined_is_none: exactly when each result is undefined (the code then returns NaN, never an infinity:
   [run_entry] ends with inf -> nan and equals these by the three theorems above) *)
Theorem anova_undefined_is_none : forall gs,
  F_stat gs = None <->
  (length gs <= 1)%nat \/ length (concat gs) = length gs \/ (forall g, In g gs -> forall x, In x g -> x = qmean g).
Proof. exact F_undefined_iff. Qed.
Print Assumptions anova_undefined_is_none.

Theorem nicv_undefined_is_none : forall gs,
  nicv_def gs = None <-> (forall x, In x (concat gs) -> x = qmean (concat gs)).
Proof. exact nicv_undefined_iff. Qed.
Print Assumptions nicv_undefined_is_none.

Theorem snr_undefined_is_none : forall gs,
  snr_def gs = None <-> gs = [] \/ (forall g, In g gs -> forall x, In x g -> x = qmean g).
Proof. exact snr_undefined_iff. Qed.
Print Assumptions snr_undefined_is_none.

(* the case the float formula could get wrong: with as many traces as classes the within sum is 0, so the code divides
   0 by 0 (nan) and never a positive number by infinity (which would be a silent 0) *)
Theorem singletons_have_no_spread : forall gs, Forall (fun g => g <> []) gs ->
  qlen (concat gs) - qlen gs = 0 -> ss_within gs = 0.
Proof. exact all_singletons_no_spread. Qed.
Print Assumptions singletons_have_no_spread.

(* automatic class set (partitions=None): accepted iff the first batch lies in [0, 255]; then it is 0 .. r-1 for the
   smallest r of 9 / 64 / 256 that is above the first-batch maximum, hence holds every value of that batch *)
Theorem auto_class_set_is_smallest_admitting_max : forall mx, (0 <= mx <= 255)%Z ->
  In (auto_size mx) [9; 64; 256]%Z /\ (mx < auto_size mx)%Z
  /\ forall r, In r [9; 64; 256]%Z -> (mx < r)%Z -> (auto_size mx <= r)%Z.
Proof. exact auto_size_smallest. Qed.
Print Assumptions auto_class_set_is_smallest_admitting_max.

Theorem auto_class_set : forall mx mn, (mn <= mx)%Z ->
  match auto_parts mx mn with
  | None => (255 < mx \/ mn < 0)%Z
  | Some parts => (0 <= mn /\ mx <= 255)%Z /\ parts = map Z.of_nat (seq 0 (Z.to_nat (auto_size mx)))
                  /\ NoDup parts /\ all_in_range parts
                  /\ forall v, (mn <= v <= mx)%Z -> In v parts
  end.
Proof. exact auto_parts_spec. Qed.
Print Assumptions auto_class_set.

(* the accumulator is a commutative monoid with Leibniz laws and no shape hypothesis (interface of Model/Accum.v),
   hence any batching of the same traces gives the same state *)
Theorem accumulator_monoid :
  (forall a b c, st_plus a (st_plus b c) = st_plus (st_plus a b) c)
  /\ (forall a, st_plus st_zero a = a) /\ (forall a, st_plus a st_zero = a) /\ (forall a b, st_plus a b = st_plus b a).
Proof. exact (conj st_plus_assoc (conj st_plus_zero_l (conj st_plus_zero_r st_plus_comm))). Qed.
Print Assumptions accumulator_monoid.

Theorem batching_irrelevant : forall parts batches, feed_batches parts batches = accu parts (concat batches).
Proof. exact feed_batches_concat. Qed.
Print Assumptions batching_irrelevant.

(* ---------------------------------------------------------------- non-vacuity *)
Definition ex_parts : list Z := [3; 1; 7; 200]%Z.               (* unsorted, with gaps, one class never taken *)
Definition ex_batches : list (list row) :=
  [[(1, qz 1); (3, qz 3)]; [(7, qz 5); (1, qz 2); (7, qz 9); (5, qz 100)]]%Z.   (* 5 is undeclared *)

Example hypotheses_met : NoDup ex_parts /\ all_in_range ex_parts.
Proof.
  split.
  - repeat constructor; cbn; intuition discriminate.
  - intros c Hc. cbn in Hc. destruct Hc as [<-|[<-|[<-|[<-|[]]]]]; reflexivity.
Qed.

(* groups (3 -> [3], 1 -> [1;2], 7 -> [5;9]); F = 63/17, NICV = 63/80, SNR = 65/17 — the values the real code returns *)
Example defined_instance :
  groups ex_parts (concat ex_batches) = [[qz 3]; [qz 1; qz 2]; [qz 5; qz 9]]
  /\ nth 2 (feed_batches ex_parts ex_batches) t0 = (qz 2, qz 14, qz 106)
  /\ option_map this (run_entry ANOVA ex_parts ex_batches) = Some (63 # 17)%Q
  /\ option_map this (run_entry NICV ex_parts ex_batches) = Some (63 # 80)%Q
  /\ option_map this (run_entry SNR ex_parts ex_batches) = Some (65 # 17)%Q
  /\ option_map this (F_stat (groups ex_parts (concat ex_batches))) = Some (63 # 17)%Q.
Proof. repeat split; try (vm_compute; reflexivity); apply f_equal; repeat (apply f_equal2 || apply f_equal); apply Qc_is_canon; reflexivity. Qed.

(* a history with a compute() after every update and a repeated compute() at the end *)
Example history_instance :
  map (option_map this)
      (run_history SNR ex_parts [Update (nth 0 ex_batches []); Compute; Update (nth 1 ex_batches []); Compute; Compute])
  = [None; Some (65 # 17)%Q; Some (65 # 17)%Q].
Proof. vm_compute. reflexivity. Qed.

(* undefined instances: one class; as many traces as classes; constant classes (SNR, ANOVA); constant samples (NICV) *)
Example undefined_instances :
  run_entry ANOVA [4]%Z [[(4, qz 1); (4, qz 2)]%Z] = None
  /\ run_entry ANOVA [4; 5]%Z [[(4, qz 1); (5, qz 2)]%Z] = None
  /\ run_entry ANOVA [4; 5]%Z [[(4, qz 1); (5, qz 2); (5, qz 2)]%Z] = None
  /\ run_entry SNR [4; 5]%Z [[(4, qz 1); (5, qz 2); (5, qz 2)]%Z] = None
  /\ run_entry NICV [4; 5]%Z [[(4, qz 2); (5, qz 2); (5, qz 2)]%Z] = None
  /\ option_map this (run_entry NICV [4; 5]%Z [[(4, qz 1); (5, qz 2); (5, qz 2)]%Z]) = Some 1%Q
  /\ run_entry SNR [4; 5]%Z [[(9, qz 1)]%Z] = None.
Proof. vm_compute. repeat split; reflexivity. Qed.

(* the float-division model does produce infinities before the final mapping (so inf -> nan is not vacuous) *)
Example infinity_before_mapping :
  snr_metric (qz 2) (filter nonzero (classes 2 (feed_batches [4; 5]%Z [[(4, qz 1); (5, qz 2); (5, qz 2)]%Z]))) = XInf.
Proof. vm_compute. reflexivity. Qed.

(* empty classes: SNR with 3 declared classes, 64 declared classes, same classes in another position *)
Example empty_classes_instance :
  option_map this (run_entry SNR [3; 1; 7]%Z ex_batches) = option_map this (run_entry SNR ex_parts ex_batches)
  /\ option_map this (run_entry SNR ([3; 1] ++ [10; 11; 12; 13] ++ [7])%Z ex_batches)
     = option_map this (run_entry SNR [3; 1; 7]%Z ex_batches)
  /\ option_map this (run_entry SNR (map Z.of_nat (seq 10 60) ++ [3; 1; 7]%Z) ex_batches) = Some (65 # 17)%Q.
Proof. vm_compute. repeat split; reflexivity. Qed.

Example auto_instances :
  map auto_size [0; 8; 9; 63; 64; 255]%Z = [9; 9; 64; 64; 256; 256]%Z
  /\ auto_parts 256 0 = None /\ auto_parts 3 (-1) = None /\ auto_parts 0 0 = Some [0; 1; 2; 3; 4; 5; 6; 7; 8]%Z.
Proof. vm_compute. repeat split; reflexivity. Qed.

(* the correspondence check accepts the faithful observation and rejects the edits named in the design *)
Example part_check_discriminates :
  let mk m o := {| pc_metric := m; pc_prec := F64; pc_parts := Some [3; 1; 7; 200]%Z;
                   pc_batches := [[([1], [1]); ([3], [3])]; [([5], [7]); ([2], [1]); ([9], [7]); ([100], [5])]]%Z;
                   pc_obs_parts := [3; 1; 7; 200]%Z; pc_obs := Some [(2%nat, [[o]])] |} in
  part_check (mk ANOVA (Fin 4172452595946195 (-50))) = true        (* 63/17 rounded to binary64 *)
  /\ part_check (mk ANOVA (Fin 63 (-4))) = false                   (* 63/16 *)
  /\ part_check (mk ANOVA (Fin 21 (-3))) = false                   (* K <-> K-1 : 2.625 *)
  /\ part_check (mk NICV (Fin 63 (-6))) = false                    (* 63/64 instead of 63/80 *)
  /\ part_check (mk SNR NaN) = false
  /\ part_check (mk SNR PInf) = false.
Proof. vm_compute. repeat split; reflexivity. Qed.
